(* Sending side: every `send_multipart` path, with the FrameBatch limits, equals the list-level envelope
   function of Model/Envelope.v whenever it does not panic; the panic conditions are characterised exactly;
   the frames handed to the connection form exactly one message on the wire. *)
From RZ Require Import Base.Prelude Model.Codec Model.RouterMap Model.Envelope Model.FrameBatch Model.SendFlags
  Model.Balancer Proofs.FrameBatchProofs Proofs.EnvelopeProofs.
Local Open Scope N_scope.

Lemma norm_flags_length l : length (norm_flags l) = length l.
Proof. induction l as [|f [|g t] IH]; [reflexivity | reflexivity |]. cbn [norm_flags length] in *. rewrite IH. reflexivity. Qed.
Lemma clear_last_length l : length (clear_last l) = length l.
Proof. induction l as [|f [|g t] IH]; [reflexivity | reflexivity |]. cbn [clear_last length] in *. rewrite IH. reflexivity. Qed.

Lemma fb_norm_list (b : batch) : fb_list (fb_norm b) = norm_flags (fb_list b).
Proof. unfold fb_norm. apply fb_set_list. apply norm_flags_length. Qed.
Lemma fb_clear_last_list (b : batch) : fb_list (fb_clear_last b) = clear_last (fb_list b).
Proof. unfold fb_clear_last. apply fb_set_list. apply clear_last_length. Qed.
Lemma fb_more_first_list (b : batch) :
  fb_list (fb_more_first b) = match fb_list b with [] => [] | f :: t => with_more f :: t end.
Proof. unfold fb_more_first. apply fb_set_list. destruct (fb_list b); reflexivity. Qed.

(* canonical batches: "is_empty()" means "holds no frame" *)
Lemma canon_empty (b : batch) : fb_canon b -> fb_is_empty b = true -> fb_list b = [].
Proof. intros _. apply fb_is_empty_list. Qed.
Lemma canon_nonempty (b : batch) : fb_canon b -> fb_is_empty b = false -> fb_list b <> [].
Proof. unfold fb_canon. intros C E L. rewrite L, E in C. discriminate. Qed.
Lemma canon_is_empty (b : batch) : fb_canon b -> fb_is_empty b = negb (nonnil (fb_list b)).
Proof. unfold fb_canon. intros ->. destruct (fb_list b); reflexivity. Qed.
Lemma from_vec_canon (v : list frame) b : fb_from_vec v = Ok b -> fb_canon b /\ fb_list b = v.
Proof.
  intros H. pose proof (fb_from_vec_nonempty v b H) as E.
  destruct (le_lt_dec (length v) 255) as [L|L].
  - destruct (fb_from_vec_ok v L) as (b' & Hb & Hl). rewrite H in Hb. injection Hb as <-.
    split; [|exact Hl]. unfold fb_canon. rewrite Hl, E. reflexivity.
  - rewrite fb_from_vec_panic in H by exact L. discriminate.
Qed.
Lemma demote_canon (v : list frame) : fb_canon (demote v).
Proof. destruct v as [|a [|c [|d t]]]; reflexivity. Qed.
Lemma remove_canon i (b : batch) x b' : fb_remove i b = Ok (x, b') -> fb_canon b'.
Proof.
  destruct b as [|a|a c|v]; cbn [fb_remove].
  - discriminate.
  - destruct i; [intros [= <- <-]; reflexivity | discriminate].
  - destruct i as [|[|i]]; [intros [= <- <-]; reflexivity | intros [= <- <-]; reflexivity | discriminate].
  - unfold vec_remove. destruct (nth_error v i); [|discriminate]. cbn [bind]. intros [= <- <-]. apply demote_canon.
Qed.

(* ---------------------------------------------------------------- the API entry *)
Lemma api_ok inner v : (length v <= 255)%nat ->
  exists b, api_send_multipart inner v = inner b /\ fb_list b = v /\ fb_canon b.
Proof.
  intros L. destruct (fb_from_vec_ok v L) as (b & Hb & Hl). exists b.
  unfold api_send_multipart. rewrite Hb. cbn [bind]. destruct (from_vec_canon v b Hb). auto.
Qed.
(* Socket::send_multipart(Vec<Msg>) panics in FrameBatch::from for every socket type beyond 255 frames *)
Lemma api_panics_beyond_255 k v : (255 < length v)%nat -> send_multipart_of k v = Panic.
Proof.
  intros L. destruct k as [| |manual|prefix| |mandatory manual peer]; cbn [send_multipart_of]; unfold api_send_multipart;
    try (rewrite fb_from_vec_panic by exact L; reflexivity).
  destruct (fb_from_vec prefix); [cbn [bind]; rewrite fb_from_vec_panic by exact L|]; reflexivity.
Qed.

(* ---------------------------------------------------------------- PUSH / PUB *)
Lemma push_total v : (length v <= 255)%nat ->
  send_multipart_of SndPush v = Ok (match v with [] => SRNothing | _ => SRWire (norm_flags v) end).
Proof.
  intros L. cbn [send_multipart_of]. destruct (api_ok push_send_multipart v L) as (b & -> & Hl & C).
  unfold push_send_multipart. rewrite (canon_is_empty b C), Hl, fb_norm_list, Hl. destruct v; reflexivity.
Qed.
Lemma pub_total v : (length v <= 255)%nat ->
  send_multipart_of SndPub v = Ok (match v with [] => SRNothing | _ => SRWire (norm_flags v) end).
Proof. exact (push_total v). Qed.

(* ---------------------------------------------------------------- DEALER *)
Lemma dealer_prepare_fb_ok (manual : bool) (b : batch) : fb_canon b ->
  (length (fb_list b) + (if manual then 0 else 1) <= 255)%nat ->
  exists w, dealer_prepare_fb manual b = Ok w /\ fb_list w = dealer_prepare manual (fb_list b).
Proof.
  intros C L. unfold dealer_prepare_fb, dealer_prepare. destruct manual.
  - eexists; split; [reflexivity | apply fb_norm_list].
  - rewrite (canon_is_empty b C). destruct (fb_list b) as [|x t] eqn:E; cbn [nonnil negb].
    + eexists; split; reflexivity.
    + unfold latch_encode_fb, dealer_auto_encode_fb. rewrite (canon_is_empty b C), E. cbn [nonnil negb].
      destruct (fb_insert_ok 0 (delim true) b) as (b1 & -> & L1); [lia | rewrite E; cbn [length] in *; lia|].
      cbn [bind]. eexists; split; [reflexivity|]. rewrite fb_norm_list, L1, E. reflexivity.
Qed.
Lemma dealer_total (manual : bool) v : (length v + (if manual then 0 else 1) <= 255)%nat ->
  send_multipart_of (SndDealer manual) v = Ok (SRWire (dealer_prepare manual v)).
Proof.
  intros L. cbn [send_multipart_of].
  destruct (api_ok (dealer_send_multipart manual) v) as (b & -> & Hl & C); [destruct manual; lia|].
  unfold dealer_send_multipart. destruct (dealer_prepare_fb_ok manual b C) as (w & -> & Hw); [rewrite Hl; exact L|].
  cbn [bind]. rewrite Hw, Hl. reflexivity.
Qed.
(* with the automatic delimiter a 255-frame message panics in FrameBatch::insert *)
Lemma dealer_auto_255_panics v : length v = 255%nat -> send_multipart_of (SndDealer false) v = Panic.
Proof.
  intros L. cbn [send_multipart_of].
  destruct (api_ok (dealer_send_multipart false) v) as (b & -> & Hl & C); [lia|].
  unfold dealer_send_multipart, dealer_prepare_fb. rewrite (canon_is_empty b C), Hl.
  destruct v as [|x t]; [discriminate|]. cbn [nonnil negb].
  unfold latch_encode_fb, dealer_auto_encode_fb. rewrite fb_insert_panic by (rewrite Hl; exact L). reflexivity.
Qed.

Lemma max_parts_big : (255 < MAX_DEALER_SEND_BUFFER_PARTS)%nat.
Proof. apply Nat.ltb_lt. vm_compute. reflexivity. Qed.
(* DEALER send() part by part: the 256th buffered part panics in FrameBatch::push *)
Lemma dealer_parts_buffer manual : forall (fs : list frame) (parts : batch),
  Forall (fun f => fmore f = true) fs -> (length (fb_list parts) + length fs <= 255)%nat -> fs <> [] \/ True ->
  exists parts', dealer_send_parts manual (Some parts) fs = Ok (Some parts', map (fun _ => SRNothing) fs)
                 /\ fb_list parts' = fb_list parts ++ fs.
Proof.
  induction fs as [|f t IH]; intros parts Hm L _.
  - exists parts. cbn. rewrite app_nil_r. auto.
  - inversion Hm as [|? ? Hf Ht]; subst. cbn [dealer_send_parts length] in *. unfold dealer_send_part at 1. rewrite Hf.
    destruct (MAX_DEALER_SEND_BUFFER_PARTS <=? fb_len parts)%nat eqn:E.
    { apply Nat.leb_le in E. pose proof max_parts_big. unfold fb_len in E. lia. }
    destruct (fb_push_ok parts f) as (p1 & -> & L1); [lia|]. cbn [bind].
    destruct (IH p1 Ht) as (p2 & -> & L2); [rewrite L1, app_length; cbn [length]; lia | auto |].
    cbn [bind map]. exists p2. split; [reflexivity|]. rewrite L2, L1, <- app_assoc. reflexivity.
Qed.
Lemma dealer_parts_256_panics manual (fs : list frame) f :
  length fs = 255%nat -> Forall (fun f => fmore f = true) fs ->
  dealer_send_parts manual None (fs ++ [f]) = Panic.
Proof.
  intros L Hm. destruct fs as [|f0 t]; [discriminate|]. inversion Hm as [|? ? Hf0 Ht]; subst.
  cbn [app dealer_send_parts]. unfold dealer_send_part at 1. rewrite Hf0. cbn [fb_push fb_new bind].
  assert (forall (t : list frame) (parts : batch), Forall (fun f => fmore f = true) t ->
            (length (fb_list parts) + length t = 255)%nat -> fb_wf parts ->
            dealer_send_parts manual (Some parts) (t ++ [f]) = Panic) as Hgen.
  { clear. induction t as [|g t IH]; intros parts Hm L W.
    - cbn [app dealer_send_parts length] in *. unfold dealer_send_part.
      assert (fb_push parts f = Panic) as P by (apply fb_push_panic; lia).
      destruct (fmore f).
      + destruct (MAX_DEALER_SEND_BUFFER_PARTS <=? fb_len parts)%nat eqn:E.
        { apply Nat.leb_le in E. pose proof max_parts_big. unfold fb_len in E. lia. }
        rewrite P. reflexivity.
      + rewrite P. reflexivity.
    - inversion Hm as [|? ? Hg Ht]; subst. cbn [app dealer_send_parts length] in *. unfold dealer_send_part at 1. rewrite Hg.
      destruct (MAX_DEALER_SEND_BUFFER_PARTS <=? fb_len parts)%nat eqn:E.
      { apply Nat.leb_le in E. pose proof max_parts_big. unfold fb_len in E. lia. }
      destruct (fb_push_ok parts g) as (p1 & -> & L1); [lia|]. cbn [bind].
      rewrite IH; [reflexivity | exact Ht | rewrite L1, app_length; cbn [length]; lia |].
      apply (proj2 (fb_wf_le p1)). rewrite L1, app_length. cbn [length]. lia. }
  rewrite (Hgen t (FSingle f0) Ht); [reflexivity | cbn [fb_list length] in *; lia |].
  apply (proj2 (fb_wf_le _)). cbn. lia.
Qed.

(* ---------------------------------------------------------------- REP *)
Lemma rep_total (prefix v : list frame) :
  (length prefix + Nat.max 1 (length v) <= 255)%nat ->
  send_multipart_of (SndRep prefix) v = Ok (SRWire (rep_send_multipart prefix v)).
Proof.
  intros L. cbn [send_multipart_of].
  destruct (fb_from_vec_ok prefix) as (p & -> & Hp); [lia|]. cbn [bind].
  destruct (api_ok (rep_send_multipart_fb p) v) as (b & -> & Hl & C); [lia|].
  unfold rep_send_multipart_fb, rep_send_multipart. rewrite (canon_is_empty b C), Hl.
  destruct v as [|x t]; cbn [nonnil negb].
  - assert (fb_list b = []) as Hb by exact Hl.
    destruct b as [|a|a c|vv]; cbn in C, Hb; try discriminate; [|subst vv; discriminate].
    cbn [fb_push bind]. unfold fb_len. cbn [fb_list length].
    destruct (@fb_with_capacity_ok frame (length (fb_list p) + 1)) as (w0 & -> & L0); [rewrite Hp; cbn [length Nat.max] in L; lia|].
    cbn [bind]. destruct (fb_extend_ok (fb_list p) w0) as (w1 & -> & L1); [rewrite L0, Hp; cbn [length] in *; lia|].
    cbn [bind]. destruct (fb_extend_ok [delim false] w1) as (w2 & -> & L2); [rewrite L1, L0, Hp; cbn [length app] in *; lia|].
    cbn [bind]. rewrite L2, L1, L0, Hp. cbn [app]. rewrite app_length. cbn [length].
    destruct (length prefix + 1 =? 0)%nat eqn:E; [apply Nat.eqb_eq in E; lia|].
    rewrite fb_norm_list, L2, L1, L0, Hp. reflexivity.
  - cbn [bind]. unfold fb_len. rewrite Hl.
    assert (length prefix + length (x :: t) <= 255)%nat as L' by (cbn [length] in *; lia).
    destruct (@fb_with_capacity_ok frame (length (fb_list p) + length (x :: t))) as (w0 & -> & L0); [rewrite Hp; exact L'|].
    cbn [bind]. destruct (fb_extend_ok (fb_list p) w0) as (w1 & -> & L1); [rewrite L0, Hp; cbn [length] in *; lia|].
    cbn [bind]. destruct (fb_extend_ok (x :: t) w1) as (w2 & -> & L2); [rewrite L1, L0, Hp; cbn [length app] in *; lia|].
    cbn [bind]. rewrite L2, L1, L0, Hp. cbn [app]. rewrite app_length. cbn [length].
    destruct (length prefix + S (length t) =? 0)%nat eqn:E; [apply Nat.eqb_eq in E; lia|].
    rewrite fb_norm_list, L2, L1, L0, Hp. reflexivity.
Qed.
(* routing prefix + payload above 255: FrameBatch::with_capacity panics *)
Lemma rep_over_255_panics (prefix v : list frame) :
  (length prefix <= 255)%nat -> (length v <= 255)%nat -> v <> [] -> (255 < length prefix + length v)%nat ->
  send_multipart_of (SndRep prefix) v = Panic.
Proof.
  intros Lp Lv Hv L. cbn [send_multipart_of].
  destruct (fb_from_vec_ok prefix Lp) as (p & -> & Hp). cbn [bind].
  destruct (api_ok (rep_send_multipart_fb p) v Lv) as (b & -> & Hl & C).
  unfold rep_send_multipart_fb. rewrite (canon_is_empty b C), Hl. destruct v as [|x t]; [congruence|].
  cbn [nonnil negb bind]. unfold fb_len. rewrite Hl, Hp. rewrite fb_with_capacity_panic by exact L. reflexivity.
Qed.

(* ---------------------------------------------------------------- ROUTER *)
Lemma strat_prepare_fb_ok s manual idm (payload : batch) : fb_canon payload ->
  (length (fb_list payload) <= 253)%nat ->
  exists w, strat_prepare_fb s manual idm payload = Ok w /\ fb_list w = strat_prepare s manual idm (fb_list payload).
Proof.
  intros C L.
  assert (id_flagged idm payload = if nonnil (fb_list payload) then with_more idm else idm) as Hid.
  { unfold id_flagged. rewrite (canon_is_empty payload C). destruct (nonnil (fb_list payload)); reflexivity. }
  assert (forall manual', exists w, bind (fb_insert 0 (id_flagged idm payload) payload) (latch_encode_fb true manual') = Ok w /\
            fb_list w = latch_encode true manual' ((if nonnil (fb_list payload) then with_more idm else idm) :: fb_list payload)) as Hins.
  { intros manual'. destruct (fb_insert_ok 0 (id_flagged idm payload) payload) as (p1 & -> & L1); [lia | lia |].
    cbn [bind firstn skipn app] in *. rewrite Hid in L1. unfold latch_encode_fb, latch_encode. destruct manual'.
    - exists p1. auto.
    - unfold router_auto_encode_fb, router_auto_encode.
      assert (fb_is_empty p1 = false) as E1.
      { destruct p1 as [|a|a c|v]; try reflexivity. discriminate. }
      rewrite E1. unfold fb_more_first. rewrite fb_set_is_empty, E1.
      set (p2 := fb_set p1 _).
      assert (fb_list p2 = with_more (if nonnil (fb_list payload) then with_more idm else idm) :: fb_list payload) as L2.
      { unfold p2. pose proof (fb_more_first_list p1) as M. unfold fb_more_first in M. rewrite M, L1. reflexivity. }
      destruct (fb_insert_ok 1 (delim (1 <? fb_len p1)%nat) p2) as (p3 & -> & L3);
        [rewrite L2; cbn [length]; lia | rewrite L2; cbn [length]; lia |].
      exists p3. split; [reflexivity|]. rewrite L3, L2. cbn [firstn skipn app].
      unfold fb_len. rewrite L1. cbn [length].
      replace (1 <? S (length (fb_list payload)))%nat with (nonnil (fb_list payload)).
      + destruct (nonnil (fb_list payload)); reflexivity.
      + destruct (fb_list payload); reflexivity. }
  destruct s; cbn [strat_prepare_fb strat_prepare].
  - apply Hins.
  - unfold fb_len.
    destruct (@fb_with_capacity_ok frame (1 + length (fb_list payload))) as (w0 & -> & L0); [lia|]. cbn [bind].
    destruct (fb_push_ok w0 (delim (negb (fb_is_empty payload)))) as (w1 & -> & L1); [rewrite L0; cbn; lia|]. cbn [bind].
    destruct (fb_extend_ok (fb_list payload) w1) as (w2 & -> & L2); [rewrite L1, L0; cbn [app length]; lia|].
    exists w2. split; [reflexivity|]. rewrite L2, L1, L0, (canon_is_empty payload C), negb_involutive. reflexivity.
  - destruct manual; [exists payload; auto | apply Hins].
  - exists payload. auto.
Qed.

(* list-level reading of ROUTER send_multipart (the part of Envelope.router_send_multipart that does not
   depend on the identity map: `peer` is the lookup result) *)
Definition router_wire (mandatory manual : bool) (peer : option strat) (v : list frame) : send_res :=
  match v with
  | [] => SRErr
  | idm :: payload =>
      match snd idm with
      | [] => SRErr
      | _ => match peer with
             | None => if mandatory then SRErr else SRNothing
             | Some s => SRWire (norm_flags (strat_prepare s manual idm payload))
             end
      end
  end.
Lemma router_total mandatory manual peer v : (length v <= 254)%nat ->
  send_multipart_of (SndRouter mandatory manual peer) v = Ok (router_wire mandatory manual peer v).
Proof.
  intros L. cbn [send_multipart_of].
  destruct (api_ok (router_send_multipart_fb mandatory manual peer) v) as (b & -> & Hl & C); [lia|].
  unfold router_send_multipart_fb, router_wire. rewrite (canon_is_empty b C), Hl.
  destruct v as [|idm payload]; [reflexivity|]. cbn [nonnil negb].
  destruct (fb_remove0 idm payload b Hl) as (b' & E & Hb'). rewrite E. cbn [bind].
  destruct (snd idm); [reflexivity|]. destruct peer as [s|]; [|reflexivity].
  destruct (strat_prepare_fb_ok s manual idm b') as (w & -> & Hw);
    [eapply remove_canon; exact E | rewrite Hb'; cbn [length] in L; lia|].
  cbn [bind]. rewrite fb_norm_list, Hw, Hb'. reflexivity.
Qed.
(* identity + 254 payload frames to a DEALER / unknown-type peer: the delimiter insert panics *)
Lemma router_auto_255_panics mandatory s (v : list frame) :
  s = SDealer \/ s = SDefault -> length v = 255%nat -> (forall (idm : frame) t, v = idm :: t -> snd idm <> []) ->
  send_multipart_of (SndRouter mandatory false (Some s)) v = Panic.
Proof.
  intros Hs L Hid. cbn [send_multipart_of].
  destruct (api_ok (router_send_multipart_fb mandatory false (Some s)) v) as (b & -> & Hl & C); [lia|].
  unfold router_send_multipart_fb. rewrite (canon_is_empty b C), Hl.
  destruct v as [|idm payload]; [discriminate|]. cbn [nonnil negb].
  destruct (fb_remove0 idm payload b Hl) as (b' & E & Hb'). rewrite E. cbn [bind].
  specialize (Hid idm payload eq_refl). destruct (snd idm) as [|i0 it] eqn:Ei; [congruence|].
  assert (bind (fb_insert 0 (id_flagged idm b') b') (fun p1 => latch_encode_fb true false p1) = Panic) as P.
  { destruct (fb_insert_ok 0 (id_flagged idm b') b') as (p1 & -> & L1); [lia | rewrite Hb'; cbn [length] in L; lia|].
    cbn [bind]. unfold latch_encode_fb, router_auto_encode_fb.
    assert (fb_is_empty p1 = false) as E1.
    { destruct p1 as [|a|a c|vv]; try reflexivity. discriminate. }
    rewrite E1. unfold fb_more_first. rewrite fb_set_is_empty, E1.
    apply fb_insert_panic. rewrite fb_set_list.
    - rewrite L1, Hb'. cbn [firstn skipn app length] in *. lia.
    - rewrite L1. reflexivity. }
  destruct Hs as [-> | ->]; cbn [strat_prepare_fb]; rewrite P; reflexivity.
Qed.

(* ---------------------------------------------------------------- one message on the wire *)
(* bridge to the engine's view: a flag-correct frame list splits as init (all MORE) ++ [last (no MORE)] *)
Lemma more_ok_split (l : list frame) : l <> [] -> more_ok l ->
  exists init last, l = init ++ [last] /\ Forall (fun f => fmore f = true) init /\ fmore last = false.
Proof.
  induction l as [|f [|g t] IH]; intros Hn M; [congruence| |].
  - exists [], f. split; [reflexivity|]. split; [constructor | apply more_ok_single; exact M].
  - destruct (more_ok_tail f g t M) as [Hf Mt]. destruct (IH ltac:(discriminate) Mt) as (init & last & E & Hi & Hl).
    exists (f :: init), last. rewrite E. split; [reflexivity|]. split; [constructor; assumption | exact Hl].
Qed.

Lemma wire_norm_case (v w : list frame) :
  Ok (match v with [] => SRNothing | _ => SRWire (norm_flags v) end) = Ok (SRWire w) -> v <> [] /\ w = norm_flags v.
Proof. destruct v; [discriminate|]. intros H. split; [discriminate|]. injection H as <-. reflexivity. Qed.

(* PUSH / PUB / DEALER / REP: whatever flags the application supplied, what reaches the connection is one message *)
Theorem wire_is_one_message_normalising k v w :
  match k with SndRouter _ _ _ => False | _ => True end ->
  send_multipart_of k v = Ok (SRWire w) -> more_ok w /\ (v <> [] -> w <> []).
Proof.
  intros Hk H.
  assert (length v <= 255)%nat as L.
  { destruct (le_lt_dec (length v) 255); [assumption|]. rewrite api_panics_beyond_255 in H by assumption. discriminate. }
  destruct k as [| |manual|prefix| |]; try contradiction.
  - rewrite push_total in H by exact L. apply wire_norm_case in H. destruct H as [Hv ->].
    split; [apply more_ok_norm | intros _; apply norm_flags_neq; exact Hv].
  - rewrite pub_total in H by exact L. apply wire_norm_case in H. destruct H as [Hv ->].
    split; [apply more_ok_norm | intros _; apply norm_flags_neq; exact Hv].
  - destruct (le_lt_dec (length v + (if manual then 0 else 1)) 255) as [L2|L2].
    + rewrite dealer_total in H by exact L2. injection H as <-. unfold dealer_prepare.
      destruct manual.
      * (* manual DEALER, no frames: an empty batch is handed over *)
        split; [apply more_ok_norm | intros Hv; apply norm_flags_neq; exact Hv].
      * destruct v as [|x t]; [split; [reflexivity | congruence]|].
        split; [apply more_ok_norm | intros _; apply norm_flags_neq; discriminate].
    + destruct manual; [lia|]. assert (length v = 255%nat) as E by lia.
      rewrite dealer_auto_255_panics in H by exact E. discriminate.
  - cbn [send_multipart_of] in H.
    destruct (le_lt_dec (length prefix) 255) as [Lp|Lp]; [|rewrite fb_from_vec_panic in H by exact Lp; discriminate].
    destruct (le_lt_dec (length prefix + Nat.max 1 (length v)) 255) as [L2|L2].
    + pose proof (rep_total prefix v L2) as T. cbn [send_multipart_of] in T. rewrite T in H. injection H as <-.
      unfold rep_send_multipart. split; [apply more_ok_norm|]. intros _.
      apply norm_flags_neq. destruct v; destruct prefix; discriminate.
    + destruct v as [|x t].
      * (* empty payload: one empty frame is added *)
        destruct (fb_from_vec_ok prefix Lp) as (p & Hp & Hpl). rewrite Hp in H. cbn [bind] in H.
        unfold api_send_multipart in H. cbn [fb_from_vec bind] in H.
        unfold rep_send_multipart_fb in H. cbn [fb_is_empty fb_push bind] in H. unfold fb_len in H. cbn [fb_list length] in H.
        rewrite Hpl in H. cbn [length Nat.max] in L2.
        rewrite fb_with_capacity_panic in H by lia. discriminate.
      * pose proof (rep_over_255_panics prefix (x :: t) Lp L ltac:(discriminate)) as P.
        cbn [send_multipart_of] in P. rewrite P in H; [discriminate|]. cbn [length Nat.max] in *. lia.
  - cbn [send_multipart_of] in H. unfold api_send_multipart in H.
    destruct (fb_from_vec v); cbn in H; discriminate.
Qed.

(* ---------------------------------------------------------------- soundness: what is on the wire whenever a send answers Ok *)
Lemma nonempty_not_is_empty (b : batch) : fb_list b <> [] -> fb_is_empty b = false.
Proof. destruct b; cbn; congruence. Qed.
Lemma latch_encode_fb_sound router manual (b w : batch) : fb_list b <> [] ->
  latch_encode_fb router manual b = Ok w ->
  fb_list w = latch_encode router manual (fb_list b).
Proof.
  intros Hn H. unfold latch_encode_fb, latch_encode in *. destruct manual; [injection H as <-; reflexivity|].
  pose proof (nonempty_not_is_empty b Hn) as E.
  destruct router.
  - unfold router_auto_encode_fb in H. unfold router_auto_encode. rewrite E in H.
    unfold fb_more_first in H. rewrite fb_set_is_empty, E in H. apply fb_insert_sound in H.
    pose proof (fb_more_first_list b) as M. unfold fb_more_first in M. rewrite M in H.
    destruct (fb_list b) as [|f0 rest] eqn:Eb; [congruence|].
    rewrite H. unfold fb_len. rewrite Eb. cbn [firstn skipn app length].
    replace (1 <? S (length rest))%nat with (nonnil rest) by (destruct rest; reflexivity). reflexivity.
  - unfold dealer_auto_encode_fb in H. apply fb_insert_sound in H. rewrite H, E. unfold dealer_auto_encode.
    destruct (fb_list b); [congruence | reflexivity].
Qed.

Lemma strat_prepare_fb_sound s manual idm (payload w : batch) : fb_canon payload ->
  strat_prepare_fb s manual idm payload = Ok w -> fb_list w = strat_prepare s manual idm (fb_list payload).
Proof.
  intros C H.
  assert (id_flagged idm payload = if nonnil (fb_list payload) then with_more idm else idm) as Hid.
  { unfold id_flagged. rewrite (canon_is_empty payload C). destruct (nonnil (fb_list payload)); reflexivity. }
  assert (forall manual', bind (fb_insert 0 (id_flagged idm payload) payload) (fun p1 => latch_encode_fb true manual' p1) = Ok w ->
            fb_list w = latch_encode true manual' ((if nonnil (fb_list payload) then with_more idm else idm) :: fb_list payload)) as Hins.
  { intros manual' H'. apply bind_ok in H'. destruct H' as (p1 & H1 & H2). apply fb_insert_sound in H1.
    cbn [firstn skipn app] in H1. rewrite Hid in H1. rewrite <- H1.
    apply latch_encode_fb_sound; [rewrite H1; discriminate | exact H2]. }
  destruct s; cbn [strat_prepare_fb strat_prepare] in *.
  - apply Hins. exact H.
  - apply bind_ok in H. destruct H as (w0 & H0 & H). apply bind_ok in H. destruct H as (w1 & H1 & H2).
    apply fb_with_capacity_sound in H0. apply fb_push_sound in H1. apply fb_extend_sound in H2.
    rewrite H2, H1, H0, (canon_is_empty payload C), negb_involutive. reflexivity.
  - destruct manual; [injection H as <-; reflexivity | apply Hins; exact H].
  - injection H as <-. reflexivity.
Qed.

Lemma router_sound mandatory manual peer v w :
  send_multipart_of (SndRouter mandatory manual peer) v = Ok (SRWire w) ->
  exists idm payload s, v = idm :: payload /\ peer = Some s /\ w = norm_flags (strat_prepare s manual idm payload).
Proof.
  intros H. cbn [send_multipart_of] in H. unfold api_send_multipart in H.
  apply bind_ok in H. destruct H as (b & Hb & H). destruct (from_vec_canon v b Hb) as [C Hl].
  unfold router_send_multipart_fb in H. rewrite (canon_is_empty b C), Hl in H.
  destruct v as [|idm payload]; [discriminate|]. cbn [nonnil negb] in H.
  apply bind_ok in H. destruct H as ([idm' b'] & Hr & H). pose proof (remove_canon _ _ _ _ Hr) as C'.
  apply fb_remove_sound in Hr. rewrite Hl in Hr. cbn [nth_error firstn skipn app] in Hr. destruct Hr as [[= <-] Hb'].
  destruct (snd idm); [discriminate|]. destruct peer as [s|]; [|destruct mandatory; discriminate].
  apply bind_ok in H. destruct H as (w0 & Hs & H). injection H as <-.
  exists idm, payload, s. split; [reflexivity|]. split; [reflexivity|].
  rewrite fb_norm_list, (strat_prepare_fb_sound s manual idm b' w0 C' Hs), Hb'. reflexivity.
Qed.
Lemma req_never_wire v w : send_multipart_of SndReq v <> Ok (SRWire w).
Proof. cbn [send_multipart_of]. unfold api_send_multipart. destruct (fb_from_vec v); cbn; discriminate. Qed.

(* the frames handed to the connection by one send_multipart call, at list level *)
Definition wire_of (k : sender) (v : list frame) : list frame :=
  match k with
  | SndPush | SndPub => norm_flags v
  | SndDealer manual => dealer_prepare manual v
  | SndRep prefix => rep_send_multipart prefix v
  | SndReq => []
  | SndRouter _ manual peer =>
      match v, peer with
      | idm :: payload, Some s => norm_flags (strat_prepare s manual idm payload)
      | _, _ => []
      end
  end.

Theorem send_sound k v w : send_multipart_of k v = Ok (SRWire w) -> w = wire_of k v.
Proof.
  intros H.
  assert (length v <= 255)%nat as L.
  { destruct (le_lt_dec (length v) 255); [assumption|]. rewrite api_panics_beyond_255 in H by assumption. discriminate. }
  destruct k as [| |manual|prefix| |mandatory manual peer]; cbn [wire_of].
  - rewrite push_total in H by exact L. apply wire_norm_case in H. tauto.
  - rewrite pub_total in H by exact L. apply wire_norm_case in H. tauto.
  - destruct (le_lt_dec (length v + (if manual then 0 else 1)) 255) as [L2|L2].
    + rewrite dealer_total in H by exact L2. injection H as <-. reflexivity.
    + destruct manual; [lia|]. assert (length v = 255%nat) as E by lia.
      rewrite dealer_auto_255_panics in H by exact E. discriminate.
  - cbn [send_multipart_of] in H.
    destruct (le_lt_dec (length prefix) 255) as [Lp|Lp]; [|rewrite fb_from_vec_panic in H by exact Lp; discriminate].
    destruct (le_lt_dec (length prefix + Nat.max 1 (length v)) 255) as [L2|L2].
    + pose proof (rep_total prefix v L2) as T. cbn [send_multipart_of] in T. rewrite T in H. injection H as <-. reflexivity.
    + destruct v as [|x t].
      * destruct (fb_from_vec_ok prefix Lp) as (p & Hp & Hpl). rewrite Hp in H. cbn [bind] in H.
        unfold api_send_multipart in H. cbn [fb_from_vec bind] in H.
        unfold rep_send_multipart_fb in H. cbn [fb_is_empty fb_push bind] in H. unfold fb_len in H. cbn [fb_list length] in H.
        rewrite Hpl in H. cbn [length Nat.max] in L2.
        rewrite fb_with_capacity_panic in H by lia. discriminate.
      * pose proof (rep_over_255_panics prefix (x :: t) Lp L ltac:(discriminate)) as P.
        cbn [send_multipart_of] in P. rewrite P in H; [discriminate|]. cbn [length Nat.max] in *. lia.
  - exfalso. exact (req_never_wire v w H).
  - destruct (router_sound _ _ _ _ _ H) as (idm & payload & s & -> & -> & ->). reflexivity.
Qed.

(* ---------------------------------------------------------------- one message on the wire, all senders *)
Lemma with_more_id (f : frame) : fmore f = true -> with_more f = f.
Proof. destruct f as [m d]. cbn. intros ->. reflexivity. Qed.
Lemma more_ok_cons (f g : frame) t : fmore f = true -> more_ok (g :: t) -> more_ok (f :: g :: t).
Proof.
  unfold more_ok. intros Hf M.
  change (norm_flags (f :: g :: t)) with (with_more f :: norm_flags (g :: t)). rewrite M, with_more_id by exact Hf. reflexivity.
Qed.
Lemma more_ok_nil : more_ok [].
Proof. reflexivity. Qed.

(* every sender, ROUTER included (its send_multipart runs the same flag loop over the wire frames): whatever
   flags the application left on the frames, what reaches the connection carries MORE on all but the last *)
Theorem wire_is_one_message k v w :
  send_multipart_of k v = Ok (SRWire w) -> more_ok w.
Proof.
  intros H. apply send_sound in H. subst w. destruct k as [| |manual|prefix| |mandatory manual peer]; cbn [wire_of].
  - apply more_ok_norm.
  - apply more_ok_norm.
  - unfold dealer_prepare. destruct manual; [apply more_ok_norm|]. destruct v; [reflexivity | apply more_ok_norm].
  - apply more_ok_norm.
  - reflexivity.
  - destruct v as [|idm payload]; [reflexivity|]. destruct peer as [s|]; [apply more_ok_norm | reflexivity].
Qed.

(* legacy witness of the repaired finding "ROUTER send_multipart keeps the application's flags":
   [id, a, b] with MORE unset on a now leaves as ONE message *)
Definition router_unnormalised_witness : list frame := [(true, [65]); (false, [1]); (false, [2])].
Theorem wire_is_one_message_router_witness :
  exists w, send_multipart_of (SndRouter false false (Some SDealer)) router_unnormalised_witness = Ok (SRWire w) /\
            wire_split w = [[(true, [65]); (true, []); (true, [1]); (false, [2])]].
Proof. eexists. split; vm_compute; reflexivity. Qed.

(* ---------------------------------------------------------------- nothing is truncated *)
(* every frame the application passed is on the wire, in order, after the envelope frames *)
Theorem send_never_truncates k v w :
  send_multipart_of k v = Ok (SRWire w) ->
  exists env, datas w = env ++ datas (match k with SndRouter _ _ _ => tl v | _ => v end).
Proof.
  intros H. destruct k as [| |manual|prefix| |mandatory manual peer].
  - apply send_sound in H. subst w. exists []. apply datas_norm.
  - apply send_sound in H. subst w. exists []. apply datas_norm.
  - apply send_sound in H. subst w. cbn [wire_of]. unfold dealer_prepare. destruct manual; [exists []; apply datas_norm|].
    destruct v as [|x t]; [exists [[]; []]; reflexivity|]. exists [[]]. 
    change (latch_encode false false (x :: t)) with (delim true :: x :: t). rewrite datas_norm. reflexivity.
  - apply send_sound in H. subst w. cbn [wire_of]. unfold rep_send_multipart. rewrite datas_norm. unfold datas. rewrite map_app.
    destruct v as [|x t]; [exists (map snd prefix ++ [[]]); rewrite app_nil_r; reflexivity|].
    exists (map snd prefix). reflexivity.
  - exfalso. exact (req_never_wire v w H).
  - destruct (router_sound _ _ _ _ _ H) as (idm & payload & s & -> & -> & ->). cbn [tl]. rewrite datas_norm.
    destruct payload as [|x t]; destruct s, manual;
      first [ exists []; reflexivity | exists [[]]; reflexivity | exists [snd idm]; reflexivity
            | exists [snd idm; []]; reflexivity ].
Qed.

(* ---------------------------------------------------------------- where the sending paths do NOT panic *)
(* frames the call would put into one FrameBatch, envelope included *)
Definition wire_len_bound (k : sender) (v : list frame) : nat :=
  match k with
  | SndPush | SndPub | SndReq => length v
  | SndDealer manual => length v + (if manual then 0 else 1)
  | SndRep prefix => length prefix + Nat.max 1 (length v)
  | SndRouter _ _ _ => length v + 1
  end.
Theorem send_no_panic_below k v : (wire_len_bound k v <= 255)%nat -> send_multipart_of k v <> Panic.
Proof.
  intros L. destruct k as [| |manual|prefix| |mandatory manual peer]; cbn [wire_len_bound] in L.
  - rewrite push_total by exact L. discriminate.
  - rewrite pub_total by exact L. discriminate.
  - rewrite dealer_total by exact L. discriminate.
  - rewrite rep_total by exact L. discriminate.
  - cbn [send_multipart_of]. destruct (api_ok req_send_multipart v L) as (b & -> & _). discriminate.
  - rewrite router_total by lia. discriminate.
Qed.
Theorem send_panics_refuted :
  exists k v, send_multipart_of k v = Panic /\ length v = 256%nat.
Proof.
  exists SndPush, (repeat (false, []) 256). split; [|apply repeat_length].
  apply api_panics_beyond_255. rewrite repeat_length. lia.
Qed.

(* ---------------------------------------------------------------- PUSH send() part by part *)
(* one peer: all parts of a message reach it, in order *)
Lemma picks_single p : forall k, picks k (mkBal [p] 0) = (repeat p k, mkBal [p] 0).
Proof.
  induction k as [|k IH]; [reflexivity|]. cbn [picks]. unfold get_next. cbn [peers next_idx length Nat.eqb Nat.leb nth].
  change ((0 + 1) mod 1)%nat with 0%nat. rewrite IH. reflexivity.
Qed.
Theorem push_parts_single_peer p (fs : list frame) :
  push_parts_routed (mkBal [p] 0) fs = (map (fun f => (p, f)) fs, mkBal [p] 0).
Proof.
  unfold push_parts_routed. rewrite picks_single. f_equal.
  induction fs as [|f t IH]; [reflexivity|]. cbn [length repeat combine map]. rewrite IH. reflexivity.
Qed.
(* two peers: the parts of ONE message alternate between them (each peer's engine then glues parts of
   different messages together) *)
Theorem push_parts_spread_refuted :
  fst (push_parts_routed (mkBal [1; 2] 0) [(true, [10]); (true, [11]); (false, [12])])
  = [(1, (true, [10])); (2, (true, [11])); (1, (false, [12]))].
Proof. vm_compute. reflexivity. Qed.
