(* Proofs about Model/Lifecycle.v (property C16). *)
From RZ Require Import Base.Prelude Model.WgWait Proofs.WgWaitProofs Model.Lifecycle.

(* ---------------------------------------------------------------- counting *)

Lemma filter_set_nth {A} (f : A -> bool) : forall (l : list A) i x y,
  nth_error l i = Some y ->
  length (filter f (set_nth i x l)) + (if f y then 1 else 0) = length (filter f l) + (if f x then 1 else 0).
Proof.
  induction l as [|a l IH]; intros i x y H; [destruct i; discriminate|].
  destruct i as [|i]; cbn [nth_error set_nth filter] in *.
  - inversion H; subst. destruct (f x), (f y); cbn [length]; lia.
  - specialize (IH i x y H). destruct (f a); cbn [length]; lia.
Qed.

Lemma filter_snoc {A} (f : A -> bool) l x :
  length (filter f (l ++ [x])) = length (filter f l) + (if f x then 1 else 0).
Proof. rewrite filter_app, app_length. cbn. destruct (f x); reflexivity. Qed.

(* the invariant: the WaitGroup counts exactly the actors that hold a guard, the zero-count branch of
   publish_actor_stopping is never taken, and one ActorStopping has been published per dropped guard *)
Definition LInv (s : lstate) : Prop := l_count s = guarded s /\ l_underflow s = 0.

Lemma linv_step s e : LInv s -> LInv (l_step s e).
Proof.
  intros [Hc Hu]. unfold LInv, guarded, count_if in *.
  destruct e as [|i|i|i|i|i|i]; cbn [l_step].
  - cbn. rewrite filter_snoc. cbn. split; [lia | exact Hu].
  - unfold actor. destruct (nth_error (l_actors s) i) as [[| |]|] eqn:E; try (split; assumption).
    cbn. pose proof (filter_set_nth is_guarded _ _ (ARunning false false) _ E). cbn in H. split; [lia | exact Hu].
  - unfold actor. destruct (nth_error (l_actors s) i) as [[|w e|]|] eqn:E; try (split; assumption).
    cbn. pose proof (filter_set_nth is_guarded _ _ (ARunning true e) _ E). cbn in H. split; [lia | exact Hu].
  - unfold actor. destruct (nth_error (l_actors s) i) as [[|w e|]|] eqn:E; try (split; assumption).
    cbn. pose proof (filter_set_nth is_guarded _ _ (ARunning w true) _ E). cbn in H. split; [lia | exact Hu].
  - unfold actor. destruct (nth_error (l_actors s) i) as [[|w e|]|] eqn:E; try (split; assumption).
    pose proof (filter_set_nth is_guarded _ _ AGone _ E) as H. cbn in H.
    unfold guard_drop. destruct (l_count s) eqn:Ec; cbn; [lia | split; [lia | exact Hu]].
  - unfold actor. destruct (nth_error (l_actors s) i) as [[|w e|]|] eqn:E; try (split; assumption).
    + cbn. pose proof (filter_set_nth is_guarded _ _ AGone _ E) as H. cbn in H. split; [lia | exact Hu].
    + pose proof (filter_set_nth is_guarded _ _ AGone _ E) as H. cbn in H.
      unfold guard_drop. destruct (l_count s) eqn:Ec; cbn; [lia | split; [lia | exact Hu]].
  - unfold actor. destruct (nth_error (l_actors s) i) as [[|w e|]|] eqn:E; try (split; assumption).
    pose proof (filter_set_nth is_guarded _ _ AGone _ E) as H. cbn in H.
    unfold guard_drop. destruct (l_count s) eqn:Ec; cbn; [lia | split; [lia | exact Hu]].
Qed.

Lemma linv_run_from evs : forall s, LInv s -> LInv (fold_left l_step evs s).
Proof. induction evs as [|e evs IH]; intros s H; cbn [fold_left]; [exact H|]. apply IH, linv_step, H. Qed.

(* for every interleaving of spawns, starts, waives, errors, exits, aborts and panics *)
Theorem counts_guarded evs : l_count (l_run evs) = guarded (l_run evs) /\ l_underflow (l_run evs) = 0.
Proof. apply linv_run_from. split; reflexivity. Qed.

Lemma live_split s : live s = guarded s + unstarted s.
Proof.
  unfold live, guarded, unstarted, count_if. induction (l_actors s) as [|a l IH]; [reflexivity|].
  cbn [filter]. destruct a; cbn [is_live is_guarded is_spawned length]; lia.
Qed.

(* count = number of live actors, exactly when no spawned task is still waiting for its first poll *)
Theorem counts_live_iff evs : l_count (l_run evs) = live (l_run evs) <-> unstarted (l_run evs) = 0.
Proof. destruct (counts_guarded evs) as [H _]. rewrite live_split, H. lia. Qed.

(* the window: an actor that is spawned and not yet polled is alive and not counted *)
Theorem counts_live_refuted : exists evs, l_count (l_run evs) = 0 /\ live (l_run evs) = 1.
Proof. exists [LSpawn]. split; reflexivity. Qed.

(* every exit path decrements exactly once: one ActorStopping per guard that was created and dropped,
   and the count never exceeds the number of started actors *)
Definition started (evs : list lev) (s : lstate) : nat := guarded s + length (l_stopped s).

Lemma stopped_step s e :
  length (l_stopped (l_step s e)) + guarded (l_step s e) + (match e with LStart i => match actor s i with Some ASpawned => 0 | _ => 1 end | _ => 1 end)
  = length (l_stopped s) + guarded s + 1.
Proof.
  unfold guarded, count_if. destruct e as [|i|i|i|i|i|i]; cbn [l_step].
  - cbn. rewrite filter_snoc. cbn. lia.
  - unfold actor. destruct (nth_error (l_actors s) i) as [[| |]|] eqn:E; try lia.
    cbn. pose proof (filter_set_nth is_guarded _ _ (ARunning false false) _ E). cbn in H. lia.
  - unfold actor. destruct (nth_error (l_actors s) i) as [[|w e|]|] eqn:E; try lia.
    cbn. pose proof (filter_set_nth is_guarded _ _ (ARunning true e) _ E). cbn in H. lia.
  - unfold actor. destruct (nth_error (l_actors s) i) as [[|w e|]|] eqn:E; try lia.
    cbn. pose proof (filter_set_nth is_guarded _ _ (ARunning w true) _ E). cbn in H. lia.
  - unfold actor. destruct (nth_error (l_actors s) i) as [[|w e|]|] eqn:E; try lia.
    pose proof (filter_set_nth is_guarded _ _ AGone _ E) as H. cbn in H.
    unfold guard_drop. destruct (l_count s); cbn; rewrite app_length; cbn; lia.
  - unfold actor. destruct (nth_error (l_actors s) i) as [[|w e|]|] eqn:E; try lia.
    + cbn. pose proof (filter_set_nth is_guarded _ _ AGone _ E) as H. cbn in H. lia.
    + pose proof (filter_set_nth is_guarded _ _ AGone _ E) as H. cbn in H.
      unfold guard_drop. destruct (l_count s); cbn; rewrite app_length; cbn; lia.
  - unfold actor. destruct (nth_error (l_actors s) i) as [[|w e|]|] eqn:E; try lia.
    pose proof (filter_set_nth is_guarded _ _ AGone _ E) as H. cbn in H.
    unfold guard_drop. destruct (l_count s); cbn; rewrite app_length; cbn; lia.
Qed.

(* ---------------------------------------------------------------- wait() against the actors *)

Fixpoint proj (ls : lstate) (xs : list csch) : list gsch :=
  match xs with
  | [] => []
  | CA e :: r => map GE (wg_ops ls e) ++ proj (l_step ls e) r
  | CN :: r => GE ENotify :: proj ls r
  | CW :: r => GW :: proj ls r
  end.

Lemma grun_app a b s : grun (a ++ b) s = grun b (grun a s).
Proof. unfold grun. apply fold_left_app. Qed.

Lemma grun_map_ge ops s : grun (map GE ops) s = fold_left gestep ops s.
Proof. revert s. induction ops as [|o ops IH]; intros s; [reflexivity|]. cbn. apply IH. Qed.

Lemma c_run_proj xs : forall ls gs,
  fold_left c_step xs (ls, gs) = (fold_left l_step (concat (map (fun x => match x with CA e => [e] | _ => [] end) xs)) ls,
                                  grun (proj ls xs) gs).
Proof.
  induction xs as [|x xs IH]; intros ls gs; [reflexivity|].
  cbn [fold_left c_step]. destruct x as [e| |]; cbn [map concat proj app].
  - rewrite IH. cbn [fold_left]. rewrite grun_app, grun_map_ge. reflexivity.
  - rewrite IH. reflexivity.
  - rewrite IH. reflexivity.
Qed.

(* the waiter's view of the count is the WaitGroup count of the lifecycle model *)
Lemma counts_agree xs : forall ls gs, LInv ls -> g_count gs = l_count ls ->
  g_count (snd (fold_left c_step xs (ls, gs))) = l_count (fst (fold_left c_step xs (ls, gs))).
Proof.
  induction xs as [|x xs IH]; intros ls gs HI Hc; [exact Hc|].
  cbn [fold_left c_step]. destruct x as [e| |].
  - apply IH; [apply linv_step; exact HI|].
    destruct e as [|i|i|i|i|i|i]; cbn [wg_ops l_step fold_left]; try exact Hc; unfold actor;
      destruct (nth_error (l_actors ls) i) as [[|w e|]|]; cbn [fold_left set_actor l_count]; try exact Hc;
      try (cbn; lia);
      unfold guard_drop; destruct (l_count ls) eqn:E; cbn [fold_left gestep l_count]; try exact Hc;
      rewrite Hc; cbn; reflexivity.
  - apply IH; [exact HI|]. cbn [gestep]. destruct (g_pend gs); exact Hc.
  - apply IH; [exact HI|]. cbn [gsstep]. unfold gstep.
    destruct (g_pc gs); cbn; try exact Hc. destruct (g_calls gs =? seen); cbn; exact Hc.
Qed.

(* For EVERY interleaving of actor events, notifications and steps of wait():
   (1) the waiter's count is the number of guard-holding actors;
   (2) the waiter is never parked with its wake-up lost;
   (3) once every guard has been dropped and the zeroing done() has notified, a waiter that cannot move
       has returned - Context::term's wait() does not outlive the actors. *)
Theorem wait_returns xs :
  let '(ls, gs) := c_run xs in
  g_count gs = guarded ls /\ glost gs = false /\
  (guarded ls = 0 -> g_pend gs = 0 -> gstep gs = None -> g_pc gs = GDone).
Proof.
  unfold c_run. pose proof (c_run_proj xs l0 (g0 true)) as Hp.
  pose proof (counts_agree xs l0 (g0 true) ltac:(split; reflexivity) eq_refl) as Hc.
  destruct (fold_left c_step xs (l0, g0 true)) as [ls gs] eqn:E. cbn [fst snd] in *.
  assert (Hl := f_equal fst Hp). assert (Hg := f_equal snd Hp). cbn [fst snd] in Hl, Hg. clear Hp.
  assert (HI : LInv ls) by (rewrite Hl; apply linv_run_from; split; reflexivity).
  destruct HI as [HI _].
  split; [lia|]. split.
  - subst gs. apply wg_fixed_safe.
  - intros H0 Hpe Hst. subst gs. apply wg_fixed_poll_returns; auto. lia.
Qed.

(* and the parked waiter is runnable as soon as that is the case *)
Theorem wait_proceeds xs seen :
  let '(ls, gs) := c_run xs in
  g_pc gs = GAwait seen -> guarded ls = 0 -> g_pend gs = 0 -> g_pc (grun [GW; GW; GW] gs) = GDone.
Proof.
  unfold c_run. pose proof (c_run_proj xs l0 (g0 true)) as Hp.
  pose proof (counts_agree xs l0 (g0 true) ltac:(split; reflexivity) eq_refl) as Hc.
  destruct (fold_left c_step xs (l0, g0 true)) as [ls gs] eqn:E. cbn [fst snd] in *.
  assert (Hl := f_equal fst Hp). assert (Hg := f_equal snd Hp). cbn [fst snd] in Hl, Hg. clear Hp.
  assert (HI : LInv ls) by (rewrite Hl; apply linv_run_from; split; reflexivity).
  destruct HI as [HI _].
  intros Hpc H0 Hpe. apply (wg_proceeds gs seen); auto; try lia.
  - rewrite Hg. apply GJ_grun; [apply GJ_init|]. apply gfixed_gap_free; [apply GJ_init | reflexivity].
  - rewrite Hg. clear. generalize (proj l0 xs). intros ys.
    assert (H : forall s, g_fixed s = true -> g_fixed (grun ys s) = true).
    { induction ys as [|y ys IH]; intros s Hs; [exact Hs|]. cbn. apply IH.
      destruct y as [|e]; cbn.
      - unfold gstep. destruct (g_pc s); cbn; try exact Hs. destruct (g_calls s =? seen); exact Hs.
      - destruct e; cbn; try exact Hs; [destruct (g_count s) | destruct (g_pend s)]; exact Hs. }
    apply H. reflexivity.
Qed.

(* ---------------------------------------------------------------- the operations table *)

Theorem table_is_complete : table_complete = true.
Proof. vm_compute. reflexivity. Qed.

(* every operation that a socket performs on the caller's task tests the running flag (or is
   unsupported) before any await: issued after close it fails at once *)
Theorem direct_ops_fail_fast r lp :
  In r op_table -> o_op r <> UDelegated -> after_close r lp = ErrPrompt.
Proof.
  intros Hin Hop.
  assert (H : forallb (fun r => match o_op r with UDelegated => true | _ =>
                 match o_first r with FMailbox => false | _ => true end end) op_table = true) by (vm_compute; reflexivity).
  rewrite forallb_forall in H. specialize (H r Hin). unfold after_close.
  destruct (o_op r); try contradiction; destruct (o_first r); try discriminate; reflexivity.
Qed.

(* the mailbox-delegated operations fail at once too - except in one window *)
Theorem delegated_ops_outside r lp :
  In r op_table -> lp <> LoopDrained -> after_close r lp = ErrPrompt.
Proof.
  intros _ Hlp. unfold after_close. destruct (o_first r); try reflexivity. destruct lp; try reflexivity. contradiction.
Qed.
Theorem delegated_ops_refuted :
  exists r lp, In r op_table /\ o_op r = UDelegated /\ after_close r lp = HangsForever.
Proof. exists (R TDealer UDelegated FMailbox AReply WNobody), LoopDrained. split; [|split; reflexivity]. cbn. tauto. Qed.

(* operations that are blocked when close()/term() happens: every row of the table is released *)
Theorem blocked_ops_released r :
  In r op_table -> o_op r <> UDelegated -> blocked_at_close r <> StaysBlocked.
Proof.
  intros Hin Hop.
  assert (H : forallb (fun r => match o_op r with UDelegated => true | _ =>
                 match blocked_at_close r with StaysBlocked => false | _ => true end end) op_table = true)
    by (vm_compute; reflexivity).
  rewrite forallb_forall in H. specialize (H r Hin).
  destruct (o_op r); try contradiction; destruct (blocked_at_close r); try discriminate; discriminate H.
Qed.
(* the classification is not vacuous: a row whose waker is WNobody would stay blocked (the REQ send row was
   such a row before the Stop arm called deactivate()) *)
Lemma blocked_nobody_stays : blocked_at_close (R TReq USend FRunning AWaitConn WNobody) = StaysBlocked.
Proof. reflexivity. Qed.
