(* Composition of the stage theorems into the end-to-end statement of C01 (Model/Pipeline.v). *)
From Coq Require Import Permutation.
From RZ Require Import Base.Prelude Base.Stepper Model.Codec Proofs.CodecProofs Model.Engine Proofs.EngineProofs
  Model.Actor Model.Batch Proofs.BatchProofs Model.Egress Proofs.EgressProofs
  Model.IngressDriver Proofs.IngressDriverProofs Model.Pipeline.
Local Open Scope N_scope.

(* ---- small facts about the stages, in the form the composition needs ---- *)

Lemma cat_data_only l : prio_of l = [] -> cat l = concat (data_of l).
Proof.
  unfold cat, data_of, prio_of. induction l as [|c l IH]; [reflexivity|]. cbn.
  destruct (c_prio c); cbn; [discriminate|]. intros H. f_equal. apply IH. exact H.
Qed.

Lemma einv_flat done e out hd : EInv done e out hd [] -> out ++ eg_flat e = concat hd.
Proof.
  intros [Hne Hh Ho Hd Hp Hm Ht]. apply Permutation_sym, Permutation_nil in Hp.
  rewrite Ho, <- app_assoc. unfold eg_flat. fold (cat (e_chunks e)). rewrite firstn_skipn, <- cat_app.
  rewrite cat_data_only by exact Hp. rewrite Hd. reflexivity.
Qed.

Lemma nets_app cfg : forall a b g,
  nets cfg g (a ++ b) =
  (let '(g1, o1) := nets cfg g a in let '(g2, o2) := nets cfg g1 b in (g2, o1 ++ o2)).
Proof.
  induction a as [|[d t] a IH]; intros b g.
  - cbn. destruct (nets cfg g b). reflexivity.
  - cbn [app nets]. destruct (e_net cfg g d t) as [g1 o1]. rewrite IH.
    destruct (nets cfg g1 a) as [g2 o2]. destruct (nets cfg g2 b) as [g3 o3]. now rewrite app_assoc.
Qed.

Lemma deliveries_app a b : deliveries (a ++ b) = deliveries a ++ deliveries b.
Proof. unfold deliveries. now rewrite map_app, concat_app. Qed.

Lemma deliveries_deliver ms : deliveries (map ODeliver ms) = ms.
Proof. unfold deliveries. induction ms as [|m ms IH]; [reflexivity|]. cbn. f_equal. exact IH. Qed.

Lemma prefix_deliveries o ms : prefix o (map ODeliver ms) -> prefix (deliveries o) ms.
Proof.
  intros [d Hd]. exists (deliveries d). rewrite <- deliveries_app, <- Hd. symmetry. apply deliveries_deliver.
Qed.

Section Ingress.
Variable cap : nat.
Notation istep := (i_step mweight cap true).

Lemma i_step_entered (s : istate msg) e :
  (forall x, e <> DEnq x) -> i_entered (istep s e) = i_entered s.
Proof.
  intros Hne. destruct s as [ib q fut pc last del ent].
  destruct e; cbn [IngressDriver.i_step i_pc i_ib i_q i_fut i_last i_delivered i_entered].
  - exfalso. eapply Hne. reflexivity.
  - destruct pc; try reflexivity. destruct ib; reflexivity.
  - destruct pc as [| |t|t|t]; [reflexivity| | | |]; destruct ib as [|x r]; try reflexivity;
      unfold finish; repeat match goal with |- context [if ?c then _ else _] => destruct c end; reflexivity.
  - destruct pc; reflexivity.
  - destruct q; reflexivity.
Qed.

Lemma enq_all_spec : forall ms (s : istate msg),
  i_pc s = POut -> i_fut s = false ->
  i_entered (enq_all cap s ms) = i_entered s ++ ms.
Proof.
  unfold enq_all. induction ms as [|m ms IH]; intros s Hpc Hf; cbn [fold_left]; [now rewrite app_nil_r|].
  rewrite IH.
  - destruct s as [ib q fut pc last del ent]. cbn in *. subst. cbn. now rewrite <- app_assoc.
  - destruct s as [ib q fut pc last del ent]. cbn in *. subst. reflexivity.
  - destruct s as [ib q fut pc last del ent]. cbn in *. subst. reflexivity.
Qed.

Lemma enq_all_conserves : forall ms (s : istate msg),
  i_delivered s ++ i_q s ++ i_ib s = i_entered s ->
  i_delivered (enq_all cap s ms) ++ i_q (enq_all cap s ms) ++ i_ib (enq_all cap s ms) = i_entered (enq_all cap s ms).
Proof.
  unfold enq_all. induction ms as [|m ms IH]; intros s H; cbn [fold_left]; [exact H|].
  apply IH. apply i_step_conserves. exact H.
Qed.
End Ingress.

(* ---- the global invariant ---- *)
Section Compose.
Variable bc : bcfg.
Variable ec : ecfg.
Variable cap : nat.
Variable g0 : engine.

Record PInv (s : pstate) : Prop := {
  v_batch : concat (p_batches s) ++ p_carry s ++ p_pipe s = p_accepted s;
  v_eg : exists done hd, EInv done (p_eg s) (p_written s) hd []
                         /\ concat hd = concat (map enc_contiguous (p_batches s));
  v_wire : concat (map fst (p_reads s)) ++ p_wire s = p_written s;
  v_eng : p_eng s = fst (nets ec g0 (p_reads s));
  v_ent : i_entered (p_in s) = deliveries (snd (nets ec g0 (p_reads s)));
  v_in : i_delivered (p_in s) ++ i_q (p_in s) ++ i_ib (p_in s) = i_entered (p_in s)
}.

Lemma pinv_init : PInv (p_init g0).
Proof.
  constructor; cbn; try reflexivity. exists [], []. split; [exact einv_new | reflexivity].
Qed.

Lemma pinv_step s e : PInv s -> PInv (p_step bc ec cap s e).
Proof.
  intros [Hb Heg Hw Hen Hent Hin]. destruct e as [m | | n | k t | ie]; cbn [p_step].
  - (* send *)
    constructor; cbn [p_carry p_pipe p_eg p_wire p_eng p_in p_accepted p_batches p_written p_reads]; try assumption.
    rewrite <- Hb, <- !app_assoc. reflexivity.
  - (* batch assembly *)
    destruct (assemble wsize bc (N.to_nat (e_msgs (p_eg s))) (p_carry s, p_pipe s)) as [b [c' p']] eqn:Ha.
    destruct b as [|b0 b]; [constructor; assumption|].
    apply assemble_order in Ha. cbn [fst snd] in Ha.
    constructor; cbn [p_carry p_pipe p_eg p_wire p_eng p_in p_accepted p_batches p_written p_reads]; try assumption.
    + rewrite concat_app. cbn [concat]. rewrite app_nil_r, <- app_assoc, Ha. exact Hb.
    + destruct Heg as (done & hd & HI & Hhd).
      destruct (einv_step done (p_eg s) (p_written s) hd [] (EPush (enc_contiguous (b0 :: b)) (N.of_nat (length (b0 :: b)))) HI)
        as (e' & out' & done' & Hs & HI').
      cbn [eg_step] in Hs. inversion Hs; subst e' out'.
      exists done', (hd ++ pushed_data [EPush (enc_contiguous (b0 :: b)) (N.of_nat (length (b0 :: b)))]).
      split; [cbn [app] in HI'; exact HI'|].
      rewrite map_app, !concat_app, Hhd. f_equal. cbn [map concat]. rewrite app_nil_r.
      destruct (enc_contiguous (b0 :: b)); cbn [pushed_data concat]; rewrite ?app_nil_r; reflexivity.
  - (* write *)
    constructor; cbn [p_carry p_pipe p_eg p_wire p_eng p_in p_accepted p_batches p_written p_reads]; try assumption.
    + destruct Heg as (done & hd & HI & Hhd).
      destruct (einv_step done (p_eg s) (p_written s) hd [] (EWrite n) HI) as (e' & out' & done' & Hs & HI').
      cbn [eg_step] in Hs. inversion Hs; subst e' out'. exists done', hd. split; [|exact Hhd].
      cbn [pushed_data pushed_prio] in HI'. rewrite !app_nil_r in HI'. exact HI'.
    + rewrite app_assoc, Hw. reflexivity.
  - (* read *)
    assert (HP : PInv s) by (constructor; assumption).
    destruct (i_ib (p_in s)) eqn:Hib; [|exact HP].
    destruct (i_pc (p_in s)) eqn:Hpc; try exact HP.
    destruct (e_net ec (p_eng s) (firstn k (p_wire s)) t) as [g' o] eqn:He.
    assert (Hn : nets ec g0 (p_reads s ++ [(firstn k (p_wire s), t)]) =
                 (g', snd (nets ec g0 (p_reads s)) ++ o)).
    { rewrite nets_app. destruct (nets ec g0 (p_reads s)) as [g1 o1] eqn:Hn1. cbn [fst snd] in *.
      subst g1. cbn [nets]. rewrite He. now rewrite app_nil_r. }
    set (s1 := i_step mweight cap true (p_in s) (DCancel msg)).
    assert (Hs1 : i_pc s1 = POut /\ i_fut s1 = false /\ i_entered s1 = i_entered (p_in s)
                  /\ i_delivered s1 ++ i_q s1 ++ i_ib s1 = i_entered s1).
    { subst s1. split; [|split; [|split]].
      - destruct (p_in s); cbn in *. subst. reflexivity.
      - destruct (p_in s); cbn in *. subst. reflexivity.
      - apply i_step_entered. intros x; discriminate.
      - apply i_step_conserves. exact (v_in _ HP). }
    destruct Hs1 as (Hp1 & Hf1 & He1 & Hc1).
    constructor; cbn [p_carry p_pipe p_eg p_wire p_eng p_in p_accepted p_batches p_written p_reads]; try assumption.
    + rewrite map_app, concat_app. cbn [map concat fst]. rewrite app_nil_r, <- app_assoc, firstn_skipn. exact Hw.
    + rewrite Hn. reflexivity.
    + rewrite Hn. cbn [snd]. rewrite deliveries_app, enq_all_spec by assumption. rewrite He1, Hent. reflexivity.
    + apply enq_all_conserves. exact Hc1.
  - (* ingress side *)
    destruct ie as [x| | | |]; try (constructor; assumption);
      constructor; cbn [p_carry p_pipe p_eg p_wire p_eng p_in p_accepted p_batches p_written p_reads]; try assumption;
      try (rewrite i_step_entered by (intros x; discriminate); exact Hent);
      apply i_step_conserves; exact Hin.
Qed.

Lemma pinv_run evs : PInv (p_run bc ec cap g0 evs).
Proof.
  unfold p_run. generalize pinv_init. generalize (p_init g0).
  induction evs as [|e evs IH]; intros s H; cbn [fold_left]; [exact H|]. apply IH. apply pinv_step. exact H.
Qed.

(* END TO END. The receiver's engine is in the Data phase with nothing buffered (handshake done);
   every accepted message is a well-formed data message. Then for EVERY schedule of stage
   activations, option vector (HWMs, batch count, byte ceilings, queue capacity), message size mix,
   write sizes, read sizes and ingress-driver cancellations:
   (a) at every moment what recv() has returned is a prefix of what send() accepted
       (nothing duplicated, corrupted, reordered or invented), and
   (b) when the schedule ends with nothing in flight, it is exactly the accepted sequence. *)
Theorem end_to_end evs :
  e_phase (g_st g0) = PData -> e_partial (g_st g0) = [] -> g_acc g0 = [] ->
  let s := p_run bc ec cap g0 evs in
  Forall (wf_msg ec) (p_accepted s) ->
  prefix (p_received s) (p_accepted s) /\ (p_quiescent s -> p_received s = p_accepted s).
Proof.
  intros Hph Hpa Hacc s Hwf.
  destruct (pinv_run evs) as [Hb Heg Hw Hen Hent Hin]. fold s in Hb, Heg, Hw, Hen, Hent, Hin.
  destruct Heg as (done & hd & HI & Hhd). pose proof (einv_flat _ _ _ _ HI) as Hflat.
  assert (Hq : quiescent ec g0) by (unfold quiescent, estep; rewrite Hph, Hacc; reflexivity).
  set (ms := concat (p_batches s)).
  assert (Hms : prefix ms (p_accepted s)) by (exists (p_carry s ++ p_pipe s); symmetry; exact Hb).
  assert (Hwfms : Forall (wf_msg ec) ms).
  { destruct Hms as [d Hd]. rewrite Hd in Hwf. apply Forall_app in Hwf. tauto. }
  set (E := concat (map enc_codec (concat ms))).
  assert (HE : concat (map enc_contiguous (p_batches s)) = E).
  { subst E ms. unfold enc_contiguous. clear. induction (p_batches s) as [|b l IH]; [reflexivity|].
    cbn [map concat]. rewrite IH, !concat_app, map_app, concat_app. reflexivity. }
  set (B := concat (map fst (p_reads s))).
  (* what the engine emitted for the reads = what it emits for B in one piece *)
  assert (Hone : snd (nets ec g0 (p_reads s)) = snd (e_net ec g0 B 0)).
  { pose proof (engine_chunk_independent ec g0 (p_reads s) [(B, 0)] Hq) as H.
    cbn [map fst concat] in H. rewrite app_nil_r in H. specialize (H eq_refl).
    destruct (nets ec g0 (p_reads s)) as [g1 o1]. cbn [nets] in H.
    destruct (e_net ec g0 B 0) as [g2 o2]. rewrite app_nil_r in H. cbn. tauto. }
  (* B is a prefix of E *)
  assert (HBE : exists rest, E = B ++ rest).
  { exists (p_wire s ++ eg_flat (p_eg s)). rewrite app_assoc. fold B in Hw. rewrite Hw, Hflat, Hhd. symmetry. exact HE. }
  destruct HBE as [rest HBE].
  assert (Hfull : snd (e_net ec g0 E 0) = map ODeliver ms).
  { pose proof (data_phase_delivers ec g0 ms [(E, 0)] Hph Hpa Hacc Hwfms) as H.
    cbn [map fst concat] in H. rewrite app_nil_r in H. specialize (H eq_refl).
    cbn [nets] in H. destruct (e_net ec g0 E 0) as [g2 o2]. rewrite app_nil_r in H. cbn. tauto. }
  assert (Hpre : prefix (i_entered (p_in s)) ms).
  { rewrite Hent, Hone. apply prefix_deliveries. rewrite <- Hfull, HBE.
    apply engine_outputs_prefix_monotone. exact Hq. }
  split.
  - eapply prefix_trans; [|exact Hms]. eapply prefix_trans; [|exact Hpre].
    unfold p_received. exists (i_q (p_in s) ++ i_ib (p_in s)). symmetry. exact Hin.
  - intros (Hc & Hp & Hch & Hwi & Hib & Hiq). unfold p_received.
    rewrite Hib, Hiq, !app_nil_r in Hin. rewrite Hin, Hent, Hone.
    assert (B = E) as ->.
    { rewrite Hwi, app_nil_r in Hw. fold B in Hw. rewrite Hw.
      unfold eg_flat in Hflat. rewrite Hch in Hflat. cbn in Hflat. rewrite skipn_nil, app_nil_r in Hflat.
      rewrite Hflat, Hhd. exact HE. }
    rewrite Hfull, deliveries_deliver. subst ms. rewrite Hc, Hp, !app_nil_r in Hb. exact Hb.
Qed.

End Compose.
