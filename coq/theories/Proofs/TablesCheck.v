(* Kind-E tie: the constants and decision tables regenerated from the Rust sources on every run
   (Extracted/Tables.v) are the ones the hand-written models use. Re-proved on every run; a changed
   table in /repo breaks these lemmas. Tables are compared as sets (order-insensitive). *)
From RZ Require Import Base.Prelude Model.Codec Model.Engine Model.Pair Extracted.Tables.
Local Open Scope N_scope.

Definition pair_bn_eqb (a b : bytes * N) : bool := bytes_eqb (fst a) (fst b) && (snd a =? snd b).
Definition pair_nb_eqb (a b : N * bytes) : bool := (fst a =? fst b) && bytes_eqb (snd a) (snd b).
Definition pair_bb_eqb (a b : bytes * bytes) : bool := bytes_eqb (fst a) (fst b) && bytes_eqb (snd a) (snd b).
Definition set_eqb {A} (eqb : A -> A -> bool) (l1 l2 : list A) : bool :=
  forallb (fun x => existsb (eqb x) l2) l1 && forallb (fun x => existsb (eqb x) l1) l2.

Lemma x_stype_names_ok : set_eqb pair_nb_eqb x_stype_names stype_names = true.
Proof. vm_compute. reflexivity. Qed.
Lemma x_v2_table_ok : set_eqb pair_bn_eqb x_v2_table v2_table = true.
Proof. vm_compute. reflexivity. Qed.
Lemma x_inproc_table_ok : set_eqb pair_bb_eqb x_inproc_table inproc_table = true.
Proof. vm_compute. reflexivity. Qed.
Lemma x_flags_ok : x_flag_more = FLAG_MORE /\ x_flag_long = FLAG_LONG /\ x_flag_command = FLAG_COMMAND.
Proof. repeat split. Qed.
Lemma x_limits_ok :
  x_codec_max_frame = CODEC_MAX_FRAME_SIZE /\ x_flat_threshold = FLAT_THRESHOLD /\
  x_max_frames = N.of_nat MAX_FRAMES /\ x_greeting_length = 64 /\ x_signature_length = 10 /\
  x_v3_revision = 3 /\ x_v2_revision = 1.
Proof. repeat split. Qed.
