From RZ Require Import Base.Prelude Base.Stepper Model.Codec Proofs.CodecProofs Model.Engine
  Proofs.EngineProofs Model.Actor Proofs.ActorProofs.
Local Open Scope N_scope.

Definition secure_done (st : estate) : Prop :=
  e_version st = Some V3 /\ mech_complete (e_mech st) = true /\ e_mech st <> MNull.

Definition emits (o : list eout) : bool :=
  existsb (fun x => match x with OHandshake _ _ | ODeliver _ => true | _ => false end) o.

Definition sec_inv (st : estate) : Prop :=
  match e_phase st with
  | PReady | PData => secure_done st
  | PV2Identity => False
  | PSecurity => e_version st = Some V3 /\ e_mech st <> MNull
  | PGreeting => e_version st <> Some V2
  | PClosed => True
  end.

Lemma negotiate_not_null cfg fld m : c_sec_enabled cfg = true -> negotiate cfg fld = inl m -> m <> MNull.
Proof.
  intros Hs. unfold negotiate. rewrite Hs. cbn [negb].
  destruct (bytes_eqb fld (mech_field s_NULL)); [discriminate|].
  destruct (bytes_eqb fld (mech_field s_PLAIN)).
  { destruct (c_use_plain cfg); [|discriminate]. intros H; inversion H; subst; discriminate. }
  destruct (bytes_eqb fld (mech_field s_CURVE)).
  { destruct (c_use_curve cfg); [|discriminate]. destruct (c_opaque_ok cfg); [|discriminate].
    intros H; inversion H; subst; discriminate. }
  destruct (bytes_eqb fld (mech_field s_NOISE_XX)); [|discriminate].
  destruct (c_use_noise cfg); [|discriminate]. destruct (c_opaque_ok cfg); [|discriminate].
  intros H; inversion H; subst; discriminate.
Qed.

Lemma produce_not_null cfg m m' p : m_produce cfg m = (m', p) -> m <> MNull -> m' <> MNull.
Proof.
  destruct m as [|s ps|s snt f]; [congruence| |]; cbn.
  - destruct ps; intros H _; inversion H; subst; discriminate.
  - destruct s, snt; intros H _; inversion H; subst; discriminate.
Qed.
Lemma process_not_null cfg m m' e tok : m_process cfg m tok = (m', e) -> m <> MNull -> m' <> MNull.
Proof.
  destruct m as [|s ps|s snt f]; [congruence| |]; unfold m_process.
  - destruct tok as [|cl r]; [intros H _; inversion H; subst; discriminate|].
    destruct (length r <? N.to_nat cl)%nat; [intros H _; inversion H; subst; discriminate|].
    destruct s.
    + destruct ps; try (intros H _; inversion H; subst; discriminate).
      destruct (bytes_eqb _ s_HELLO); [|intros H _; inversion H; subst; discriminate].
      destruct (parse_hello _) as [[u p]|]; [|intros H _; inversion H; subst; discriminate].
      destruct (_ && _); intros H _; inversion H; subst; discriminate.
    + destruct ps; try (intros H _; inversion H; subst; discriminate).
      destruct (bytes_eqb _ s_WELCOME); [intros H _; inversion H; subst; discriminate|].
      destruct (bytes_eqb _ s_ERROR); intros H _; inversion H; subst; discriminate.
  - intros H _; inversion H; subst; discriminate.
Qed.

Lemma estep_sec cfg st b st' n o :
  c_sec_enabled cfg = true -> sec_inv st -> estep cfg st b = Step st' n o ->
  sec_inv st' /\ (emits o = true -> secure_done st').
Proof.
  intros Hs. unfold estep, sec_inv. destruct (e_phase st) eqn:Ep; try discriminate.
  - (* Greeting *)
    intros Hv.
    destruct (negb (e_rev_sent st)).
    + destruct (length b <? 10)%nat; [discriminate|].
      destruct (_ && _); intros; inv_step; cbn; split; auto; discriminate.
    + destruct (e_version st) as [[|]|] eqn:Ev; try discriminate.
      * destruct (length b <? 64)%nat; [discriminate|].
        destruct (greeting_decode _) as [[fld ?]|]; [|intros; inv_step; cbn; split; auto; discriminate].
        destruct (negotiate cfg fld) as [m|e] eqn:En; [|intros; inv_step; cbn; split; auto; discriminate].
        pose proof (negotiate_not_null _ _ _ Hs En) as Hnn.
        destruct (mech_complete m) eqn:Ec; intros; inv_step; cbn [set_phase set_mech e_phase e_version e_mech].
        { split; [repeat split; auto|]. destruct (c_server cfg); cbn; discriminate. }
        { split; [split; auto|]. cbn; discriminate. }
      * destruct (length b <? 11)%nat; [discriminate|].
        destruct (3 <=? nth 10 b 0); [intros; inv_step; cbn; split; [discriminate|discriminate]|].
        destruct (nth 10 b 0 =? 1); [|intros; inv_step; cbn; split; auto; discriminate].
        destruct (negb (c_allow_v2 cfg)); [intros; inv_step; cbn; split; auto; discriminate|].
        rewrite Hs. intros; inv_step; cbn; split; auto; discriminate.
  - (* Security *)
    intros [Hv Hnn].
    destruct (m_produce cfg (e_mech st)) as [m' p] eqn:Epr.
    pose proof (produce_not_null _ _ _ _ Epr Hnn) as Hnn'.
    destruct p as [ | tok | ].
    + apply produce_none in Epr. subst m'.
      destruct (mech_complete (e_mech st)) eqn:Ec.
      { intros; inv_step. cbn [set_phase e_phase e_version e_mech]. split; [repeat split; auto|].
        destruct (c_server cfg); cbn; discriminate. }
      destruct (dec_buffer (c_maxsz cfg) b) as [| | |f k]; try discriminate.
      { intros; inv_step; cbn; split; auto; discriminate. }
      destruct (m_process cfg (e_mech st) (f_payload f)) as [m'' [e|]] eqn:Epc.
      { intros; inv_step; cbn; split; auto; discriminate. }
      pose proof (process_not_null _ _ _ _ _ Epc Hnn) as Hnn''.
      destruct (mech_is_error m''); intros; inv_step; cbn [closed set_phase set_mech e_phase e_version e_mech].
      { split; [exact I|cbn; discriminate]. }
      { rewrite Ep. split; [split; auto|cbn; discriminate]. }
    + intros; inv_step. cbn [set_mech e_phase e_version e_mech]. rewrite Ep. split; [split; auto|cbn; discriminate].
    + intros; inv_step. cbn [set_mech e_phase e_version e_mech]. rewrite Ep. split; [split; auto|cbn; discriminate].
  - (* Ready *)
    intros Hsd.
    destruct (dec_buffer (c_maxsz cfg) b) as [| | |f k]; try discriminate.
    { intros; inv_step; cbn; split; auto; discriminate. }
    destruct (parse_cmd f); try destruct (ready_incompatible _ _); intros; inv_step; cbn [closed set_phase e_phase e_version e_mech];
      try (split; [exact I|cbn; discriminate]).
    split; [exact Hsd|intros _; exact Hsd].
  - (* V2Identity *)
    intros [].
  - (* Data *)
    intros Hsd.
    destruct (dec_buffer (c_maxsz cfg) b) as [| | |f k]; try discriminate.
    { intros; inv_step; cbn; split; auto; discriminate. }
    destruct (f_cmd f).
    + destruct (e_version st) as [[|]|]; try (intros; inv_step; cbn; split; auto; discriminate);
        destruct (parse_cmd f); try destruct (ready_incompatible _ _); intros; inv_step; cbn [closed set_phase e_phase];
        try (split; [exact I|cbn; discriminate]); rewrite Ep; split; auto; cbn; discriminate.
    + destruct (MAX_FRAMES <=? length (e_partial st))%nat; [intros; inv_step; cbn; split; auto; discriminate|].
      destruct (f_more f); intros; inv_step; cbn [set_partial e_phase e_version e_mech]; rewrite Ep;
        (split; [exact Hsd|intros _; exact Hsd]).
Qed.

(* once authenticated, later micro-steps keep the mechanism and version *)
Definition sd_phase (st : estate) : Prop :=
  e_phase st = PReady \/ e_phase st = PData \/ e_phase st = PClosed.

Lemma estep_sd_stable cfg st b st' n o :
  secure_done st -> sd_phase st -> estep cfg st b = Step st' n o -> secure_done st' /\ sd_phase st'.
Proof.
  intros Hsd [Hp|[Hp|Hp]]; unfold estep; rewrite Hp; try discriminate.
  - destruct (dec_buffer (c_maxsz cfg) b) as [| | |f k]; try discriminate.
    { intros; inv_step; cbn; split; [exact Hsd|right; right; reflexivity]. }
    destruct (parse_cmd f); try destruct (ready_incompatible _ _); intros; inv_step; (split; [exact Hsd|unfold sd_phase; cbn; tauto]).
  - destruct (dec_buffer (c_maxsz cfg) b) as [| | |f k]; try discriminate.
    { intros; inv_step; cbn; split; [exact Hsd|right; right; reflexivity]. }
    destruct (f_cmd f).
    + destruct (e_version st) as [[|]|]; try (intros; inv_step; (split; [exact Hsd|unfold sd_phase; cbn; tauto]));
        destruct (parse_cmd f); try destruct (ready_incompatible _ _); intros; inv_step; (split; [exact Hsd|unfold sd_phase; cbn; tauto]).
    + destruct (MAX_FRAMES <=? length (e_partial st))%nat; [intros; inv_step; (split; [exact Hsd|unfold sd_phase; cbn; tauto])|].
      destruct (f_more f); intros; inv_step; (split; [exact Hsd|unfold sd_phase; cbn; tauto]).
Qed.

Lemma emits_app a b : emits (a ++ b) = emits a || emits b.
Proof. unfold emits. apply existsb_app. Qed.

Lemma emit_phase cfg st b st' n o :
  estep cfg st b = Step st' n o -> emits o = true -> sd_phase st'.
Proof.
  unfold estep. destruct (e_phase st) eqn:Ep; try discriminate.
  - destruct (negb (e_rev_sent st)).
    + destruct (length b <? 10)%nat; [discriminate|]. destruct (_ && _); intros; inv_step; discriminate.
    + destruct (e_version st) as [[|]|]; try discriminate.
      * destruct (length b <? 64)%nat; [discriminate|].
        destruct (greeting_decode _) as [[fld ?]|]; [|intros; inv_step; discriminate].
        destruct (negotiate cfg fld); [|intros; inv_step; discriminate].
        destruct (mech_complete _); [destruct (c_server cfg)|]; intros; inv_step; discriminate.
      * destruct (length b <? 11)%nat; [discriminate|].
        destruct (3 <=? nth 10 b 0); [intros; inv_step; discriminate|].
        destruct (nth 10 b 0 =? 1); [|intros; inv_step; discriminate].
        destruct (negb (c_allow_v2 cfg)); [intros; inv_step; discriminate|].
        destruct (c_sec_enabled cfg); [intros; inv_step; discriminate|].
        destruct (length b <? 12)%nat; [discriminate|].
        destruct (negb (v2_compat _ _)); [intros; inv_step; discriminate|].
        destruct (stype_code _); intros; inv_step; discriminate.
  - destruct (m_produce cfg (e_mech st)) as [m' [ | tok | ]]; try (intros; inv_step; discriminate).
    destruct (mech_complete (e_mech st)); [destruct (c_server cfg); intros; inv_step; discriminate|].
    destruct (dec_buffer (c_maxsz cfg) b) as [| | |f k]; try discriminate; try (intros; inv_step; discriminate).
    destruct (m_process cfg (e_mech st) (f_payload f)) as [m'' [e|]]; [intros; inv_step; discriminate|].
    destruct (mech_is_error m''); intros; inv_step; discriminate.
  - destruct (dec_buffer (c_maxsz cfg) b) as [| | |f k]; try discriminate; try (intros; inv_step; discriminate).
    destruct (parse_cmd f); try destruct (ready_incompatible _ _); intros; inv_step; unfold sd_phase; cbn; tauto.
  - destruct (negb (e_v2_sent st)); try (intros; inv_step; discriminate).
    destruct (dec_buffer (c_maxsz cfg) b) as [| | |f k]; try discriminate; try (intros; inv_step; discriminate).
    destruct (f_cmd f || f_more f); [intros; inv_step; discriminate|].
    destruct (255 <? length (f_payload f))%nat; intros; inv_step; unfold sd_phase; cbn; tauto.
  - destruct (dec_buffer (c_maxsz cfg) b) as [| | |f k]; try discriminate; try (intros; inv_step; discriminate).
    destruct (f_cmd f).
    + destruct (e_version st) as [[|]|]; try (intros; inv_step; discriminate);
        destruct (parse_cmd f); try destruct (ready_incompatible _ _); intros; inv_step; discriminate.
    + destruct (MAX_FRAMES <=? length (e_partial st))%nat; [intros; inv_step; discriminate|].
      destruct (f_more f); intros H1 H2; inv_step; [discriminate|unfold sd_phase; cbn [set_partial e_phase]; tauto].
Qed.

Lemma Run_sd_stable cfg st b st' r o :
  Run (estep cfg) st b st' r o -> secure_done st -> sd_phase st -> secure_done st' /\ sd_phase st'.
Proof.
  induction 1 as [|s b0 s1 n o1 s2 r0 o2 Hs HR IH]; [auto|].
  intros Hsd Hp. destruct (estep_sd_stable _ _ _ _ _ _ Hsd Hp Hs). auto.
Qed.

Lemma Run_sec cfg st b st' r o :
  c_sec_enabled cfg = true -> Run (estep cfg) st b st' r o -> sec_inv st ->
  sec_inv st' /\ (emits o = true -> secure_done st' /\ sd_phase st').
Proof.
  intros Hs. induction 1 as [s b0 Hn | s b0 s1 n o1 s2 r0 o2 Hst HR IH]; intros Hi.
  - split; [exact Hi|discriminate].
  - destruct (estep_sec _ _ _ _ _ _ Hs Hi Hst) as [Hi1 He1].
    destruct (IH Hi1) as [Hi2 He2]. split; [exact Hi2|].
    rewrite emits_app. intros H. apply orb_true_iff in H. destruct H as [H|H]; [|auto].
    eapply Run_sd_stable; eauto. eapply emit_phase; eauto.
Qed.

Lemma emits_visible o : emits (visible o) = emits o.
Proof. unfold visible, emits. induction o as [|x o IH]; [reflexivity|]. destruct x; cbn; auto. Qed.

(* the engine-level invariant together with "some earlier call emitted" *)
Definition g_sec (g : engine) (emitted : bool) : Prop :=
  sec_inv (g_st g) /\ (emitted = true -> secure_done (g_st g) /\ sd_phase (g_st g)).

Lemma sec_inv_closed st : sec_inv (closed st).
Proof. exact I. Qed.

Lemma e_input_sec cfg g i em :
  c_sec_enabled cfg = true -> g_sec g em ->
  g_sec (fst (e_input cfg g i)) (em || emits (snd (e_input cfg g i))).
Proof.
  intros Hs [Hi He]. destruct i as [d t|m|t| |w]; cbn [e_input].
  - unfold e_net.
    pose proof (sk_pump_Run (engine_ok cfg) (g_st g) (g_acc g ++ d)) as HR.
    destruct (pump (estep cfg) emu EMU_MAX (g_st g) (g_acc g ++ d)) as [[st' r] o]. cbn [fst snd g_st].
    rewrite emits_visible.
    destruct (Run_sec _ _ _ _ _ _ Hs HR Hi) as [Hi' He'].
    split; [exact Hi'|]. intros H. apply orb_true_iff in H. destruct H as [H|H]; [|auto].
    destruct (He H). eapply Run_sd_stable; eauto.
  - unfold e_app. destruct (e_phase (g_st g)); cbn [fst snd]; rewrite ?orb_false_r; split; auto.
  - unfold e_tick.
    assert (g_sec {| g_st := closed (g_st g); g_acc := g_acc g; g_hb := g_hb g |} em) as Hcl.
    { split; [apply sec_inv_closed|]. intros H. destruct (He H) as [Hsd Hp]. split; [exact Hsd|right; right; reflexivity]. }
    destruct (e_phase (g_st g)); cbn [fst snd]; rewrite ?orb_false_r; try (split; auto; fail).
    destruct (e_version (g_st g)) as [[|]|]; cbn [fst snd]; rewrite ?orb_false_r; try (split; auto; fail);
    (destruct (match c_hb_timeout cfg with Some _ => _ | None => _ end);
       [cbn [fst snd]; rewrite orb_false_r; exact Hcl|];
     destruct (c_hb_ivl cfg); [|cbn [fst snd]; rewrite orb_false_r; split; auto];
     destruct (_ && _); cbn [fst snd]; rewrite orb_false_r; split; auto).
  - cbn [fst snd e_close]. rewrite orb_false_r. split; [apply sec_inv_closed|].
    intros H. destruct (He H) as [Hsd Hp]. split; [exact Hsd|right; right; reflexivity].
  - cbn [fst snd e_wrote g_st]. rewrite orb_false_r. split; auto.
Qed.

Definition any_emits (os : list (list eout)) : bool := existsb emits os.

Lemma e_run_sec cfg : c_sec_enabled cfg = true -> forall is g em, g_sec g em ->
  g_sec (fst (e_run cfg g is)) (em || any_emits (snd (e_run cfg g is))).
Proof.
  intros Hs. induction is as [|i is IH]; intros g em Hg.
  - cbn. rewrite orb_false_r. exact Hg.
  - cbn [e_run]. pose proof (e_input_sec cfg g i em Hs Hg) as H1.
    destruct (e_input cfg g i) as [g1 o]. cbn [fst snd] in H1.
    specialize (IH g1 _ H1). destruct (e_run cfg g1 is) as [g2 os]. cbn [fst snd any_emits existsb] in *.
    rewrite orb_assoc. exact IH.
Qed.

Theorem no_bypass cfg is t :
  c_sec_enabled cfg = true ->
  any_emits (snd (e_run cfg (e_new t) is)) = true ->
  secure_done (g_st (fst (e_run cfg (e_new t) is))).
Proof.
  intros Hs He.
  assert (g_sec (e_new t) false) as H0.
  { split; [cbn; discriminate|discriminate]. }
  destruct (e_run_sec cfg Hs is (e_new t) false H0) as [_ H]. cbn [orb] in H. apply H. exact He.
Qed.

(* ---------- PLAIN: authentication only through a HELLO carrying the expected credentials ---------- *)
Definition plain_authed (st : estate) : bool :=
  match e_mech st with MPlain true PSSendWelcome | MPlain true PDone => true | _ => false end.

Lemma bytes_eqb_eq a : forall b, bytes_eqb a b = true -> a = b.
Proof.
  induction a as [|x a IH]; intros [|y b]; cbn; try discriminate; [reflexivity|].
  intros H. apply andb_true_iff in H. destruct H as [H1 H2]. apply N.eqb_eq in H1. subst. f_equal. auto.
Qed.

Definition valid_hello (cfg : ecfg) (tok : bytes) : Prop :=
  exists cl r u p, tok = cl :: r /\ firstn (N.to_nat cl) r = s_HELLO /\
    parse_hello (skipn (N.to_nat cl) r) = Some (u, p) /\
    c_plain_user cfg = Some u /\ c_plain_pass cfg = Some p.

Lemma process_auth cfg m tok m' e :
  m_process cfg m tok = (m', e) ->
  (match m with MPlain true PSSendWelcome | MPlain true PDone => false | _ => true end) = true ->
  (match m' with MPlain true PSSendWelcome | MPlain true PDone => true | _ => false end) = true ->
  valid_hello cfg tok.
Proof.
  destruct m as [|s ps|s snt f]; unfold m_process.
  - intros H; inversion H; subst; discriminate.
  - destruct tok as [|cl r]; [intros H; inversion H; subst; destruct s; discriminate|].
    destruct (length r <? N.to_nat cl)%nat; [intros H; inversion H; subst; destruct s; discriminate|].
    destruct s.
    + destruct ps; try (intros H; inversion H; subst; discriminate).
      destruct (bytes_eqb (firstn (N.to_nat cl) r) s_HELLO) eqn:En; [|intros H; inversion H; subst; discriminate].
      destruct (parse_hello _) as [[u p]|] eqn:Eh; [|intros H; inversion H; subst; discriminate].
      destruct (opt_bytes_eqb (c_plain_user cfg) u) eqn:Eu; [|intros H; inversion H; subst; discriminate].
      destruct (opt_bytes_eqb (c_plain_pass cfg) p) eqn:Epw; [|intros H; inversion H; subst; discriminate].
      intros _ _ _. exists cl, r, u, p. split; [reflexivity|]. split; [apply bytes_eqb_eq; exact En|].
      split; [exact Eh|].
      unfold opt_bytes_eqb in *.
      destruct (c_plain_user cfg) as [u'|]; [|discriminate]. destruct (c_plain_pass cfg) as [p'|]; [|discriminate].
      apply bytes_eqb_eq in Eu. apply bytes_eqb_eq in Epw. subst. auto.
    + destruct ps; try (intros H; inversion H; subst; discriminate).
      destruct (bytes_eqb _ s_WELCOME); [intros H; inversion H; subst; discriminate|].
      destruct (bytes_eqb _ s_ERROR); intros H; inversion H; subst; discriminate.
  - intros H; inversion H; subst; discriminate.
Qed.

Theorem plain_auth_only_by_valid_hello cfg st b st' n o :
  estep cfg st b = Step st' n o -> plain_authed st = false -> plain_authed st' = true ->
  exists f k, dec_buffer (c_maxsz cfg) b = DFrame f k /\ valid_hello cfg (f_payload f).
Proof.
  unfold estep, plain_authed. destruct (e_phase st) eqn:Ep; try discriminate.
  - destruct (negb (e_rev_sent st)).
    + destruct (length b <? 10)%nat; [discriminate|]. destruct (_ && _); intros; inv_step; cbn in *; congruence.
    + destruct (e_version st) as [[|]|]; try discriminate.
      * destruct (length b <? 64)%nat; [discriminate|].
        destruct (greeting_decode _) as [[fld ?]|]; [|intros; inv_step; cbn in *; congruence].
        destruct (negotiate cfg fld) as [m|e] eqn:En; [|intros; inv_step; cbn in *; congruence].
        assert (match m with MPlain true PSSendWelcome | MPlain true PDone => false | _ => true end = true) as Hm.
        { revert En. unfold negotiate.
          destruct (bytes_eqb fld (mech_field s_NULL)); [destruct (negb _); intros H; inversion H; reflexivity|].
          destruct (bytes_eqb fld (mech_field s_PLAIN)).
          { destruct (c_use_plain cfg); [|discriminate]. destruct (c_server cfg); intros H; inversion H; reflexivity. }
          destruct (bytes_eqb fld (mech_field s_CURVE)).
          { destruct (c_use_curve cfg); [|discriminate]. destruct (c_opaque_ok cfg); intros H; inversion H; reflexivity. }
          destruct (bytes_eqb fld (mech_field s_NOISE_XX)); [|discriminate].
          destruct (c_use_noise cfg); [|discriminate]. destruct (c_opaque_ok cfg); intros H; inversion H; reflexivity. }
        destruct (mech_complete m); intros; inv_step; cbn [set_phase set_mech e_mech] in *;
          destruct m as [|[] []|? ? ?]; congruence.
      * destruct (length b <? 11)%nat; [discriminate|].
        destruct (3 <=? nth 10 b 0); [intros; inv_step; cbn in *; congruence|].
        destruct (nth 10 b 0 =? 1); [|intros; inv_step; cbn in *; congruence].
        destruct (negb (c_allow_v2 cfg)); [intros; inv_step; cbn in *; congruence|].
        destruct (c_sec_enabled cfg); [intros; inv_step; cbn in *; congruence|].
        destruct (length b <? 12)%nat; [discriminate|].
        destruct (negb (v2_compat _ _)); [intros; inv_step; cbn in *; congruence|].
        destruct (stype_code _); intros; inv_step; cbn in *; congruence.
  - destruct (m_produce cfg (e_mech st)) as [m' p] eqn:Epr.
    destruct p as [ | tok | ].
    + apply produce_none in Epr. subst m'.
      destruct (mech_complete (e_mech st)); [intros; inv_step; cbn in *; congruence|].
      destruct (dec_buffer (c_maxsz cfg) b) as [| | |f k]; try discriminate; try (intros; inv_step; cbn in *; congruence).
      destruct (m_process cfg (e_mech st) (f_payload f)) as [m'' e] eqn:Epc.
      intros H Hb Ha. exists f, k. split; [reflexivity|].
      eapply process_auth; [exact Epc| |].
      * destruct (e_mech st) as [|[] []|]; cbn in *; congruence.
      * destruct e as [e|]; [inv_step; cbn [closed set_phase set_mech e_mech] in Ha; exact Ha|].
        destruct (mech_is_error m''); inv_step; cbn [closed set_phase set_mech e_mech] in Ha; exact Ha.
    + intros; inv_step. cbn [set_mech e_mech] in *.
      destruct (e_mech st) as [|s ps|s snt f]; cbn in Epr.
      * inversion Epr.
      * destruct ps; inversion Epr; subst; destruct s; cbn in *; congruence.
      * destruct s, snt; inversion Epr.
    + intros; inv_step. cbn [set_mech e_mech] in *.
      destruct (e_mech st) as [|s ps|s snt f]; cbn in Epr.
      * inversion Epr.
      * destruct ps; inversion Epr.
      * destruct s, snt; inversion Epr; subst; cbn in *; congruence.
  - destruct (dec_buffer (c_maxsz cfg) b) as [| | |f k]; try discriminate; try (intros; inv_step; cbn in *; congruence).
    destruct (parse_cmd f); try destruct (ready_incompatible _ _); intros; inv_step; cbn in *; congruence.
  - destruct (negb (e_v2_sent st)); try (intros; inv_step; cbn in *; congruence).
    destruct (dec_buffer (c_maxsz cfg) b) as [| | |f k]; try discriminate; try (intros; inv_step; cbn in *; congruence).
    destruct (f_cmd f || f_more f); [intros; inv_step; cbn in *; congruence|].
    destruct (255 <? length (f_payload f))%nat; intros; inv_step; cbn in *; congruence.
  - destruct (dec_buffer (c_maxsz cfg) b) as [| | |f k]; try discriminate; try (intros; inv_step; cbn in *; congruence).
    destruct (f_cmd f).
    + destruct (e_version st) as [[|]|]; try (intros; inv_step; cbn in *; congruence);
        destruct (parse_cmd f); try destruct (ready_incompatible _ _); intros; inv_step; cbn in *; congruence.
    + destruct (MAX_FRAMES <=? length (e_partial st))%nat; [intros; inv_step; cbn in *; congruence|].
      destruct (f_more f); intros; inv_step; cbn in *; congruence.
Qed.

(* a completed PLAIN server mechanism is an authenticated one *)
Theorem plain_done_is_authed st :
  secure_done st -> (exists ps, e_mech st = MPlain true ps) -> plain_authed st = true.
Proof.
  intros (_ & Hc & _) [ps Hm]. unfold plain_authed. rewrite Hm in *. destruct ps; cbn in Hc; congruence.
Qed.

