(* From the sender's FrameBatch to the receiver's batch: frames that leave a socket with MORE on all but the
   last are reassembled by the peer's engine into exactly one batch holding exactly those frames
   (data_phase_delivers), however the byte stream is cut; a wire of more than 255 frames is answered with
   PeerError and never delivered, not even in part (data_phase_refuses_overlong). *)
From RZ Require Import Base.Prelude Base.Stepper Model.Codec Proofs.CodecProofs Model.Engine Proofs.EngineProofs
  Proofs.EngineLimit Model.RouterMap Model.Envelope Model.FrameBatch Model.SendFlags Proofs.EnvelopeProofs
  Proofs.SendFlagsProofs.
Local Open Scope N_scope.

(* every frame fits the receiver's MAXMSGSIZE (and the 2^63 wire limit) *)
Definition wire_admitted (cfg : ecfg) (w : list Envelope.frame) : Prop :=
  Forall (fun f => admitted (c_maxsz cfg) (to_codec f)) w.
Definition sendable (cfg : ecfg) (w : list Envelope.frame) : Prop :=
  w <> [] /\ more_ok w /\ (length w <= MAX_FRAMES)%nat /\ wire_admitted cfg w.

Lemma wf_msg_of_wire cfg w : sendable cfg w -> wf_msg cfg (map to_codec w).
Proof.
  intros (Hn & M & L & A). constructor.
  - destruct (more_ok_split w Hn M) as (init & last & -> & Hi & Hl).
    exists (map to_codec init), (to_codec last). rewrite map_app. split; [reflexivity|]. split; [|exact Hl].
    apply Forall_map. eapply Forall_impl; [|exact Hi]. intros f Hf. exact Hf.
  - apply Forall_map. eapply Forall_impl; [|exact A]. intros f Hf. split; [reflexivity | exact Hf].
  - rewrite map_length. exact L.
Qed.

Theorem wire_reassembled cfg g ws cs :
  e_phase (g_st g) = PData -> e_partial (g_st g) = [] -> g_acc g = [] ->
  Forall (sendable cfg) ws ->
  concat (map fst cs) = concat (map enc_codec (concat (map (map to_codec) ws))) ->
  let '(g', o) := nets cfg g cs in
  o = map ODeliver (map (map to_codec) ws) /\ g_st g' = g_st g /\ g_acc g' = [].
Proof.
  intros Hph Hp Hacc Hall Hc.
  apply (data_phase_delivers cfg g (map (map to_codec) ws) cs Hph Hp Hacc); [|exact Hc].
  apply Forall_map. eapply Forall_impl; [|exact Hall]. intros w Hw. apply wf_msg_of_wire. exact Hw.
Qed.

(* a wire of more than 255 frames (only a sender other than rzmq's send_multipart can produce it: parts sent
   one by one, or a foreign peer): PeerError at the 256th frame, nothing of it delivered *)
Theorem overlong_wire_refused cfg g ws (w : list Envelope.frame) tail cs :
  e_phase (g_st g) = PData -> e_partial (g_st g) = [] -> g_acc g = [] ->
  Forall (sendable cfg) ws ->
  (MAX_FRAMES < length w)%nat -> wire_admitted cfg w ->
  Forall (fun f => fmore f = true) (firstn MAX_FRAMES w) ->
  concat (map fst cs) = concat (map enc_codec (concat (map (map to_codec) ws))) ++
                        concat (map enc_codec (map to_codec w)) ++ tail ->
  let '(g', o) := nets cfg g cs in
  o = map ODeliver (map (map to_codec) ws) ++ [OErr EProto] /\ e_phase (g_st g') = PClosed.
Proof.
  intros Hph Hp Hacc Hall L A Hm Hc.
  (* w = init (255 frames, all MORE) ++ f :: rest *)
  destruct (skipn MAX_FRAMES w) as [|f rest] eqn:Es.
  { apply (f_equal (@length _)) in Es. rewrite skipn_length in Es. cbn [length] in Es. lia. }
  remember (firstn MAX_FRAMES w) as init eqn:Ei.
  assert (w = init ++ f :: rest) as Ew by (rewrite Ei, <- Es; symmetry; apply firstn_skipn).
  assert (length init = MAX_FRAMES) as Li by (rewrite Ei; apply firstn_length_le; lia).
  clear Ei Es.
  assert (wire_admitted cfg init /\ admitted (c_maxsz cfg) (to_codec f)) as [Ai Af].
  { unfold wire_admitted in A. rewrite Ew in A. apply Forall_app in A. destruct A as [A1 A2].
    inversion A2; subst. split; assumption. }
  apply (data_phase_refuses_overlong cfg g (map (map to_codec) ws) (map to_codec init) (to_codec f)
           (concat (map enc_codec (map to_codec rest)) ++ tail) cs Hph Hp Hacc).
  - apply Forall_map. eapply Forall_impl; [|exact Hall]. intros x Hx. apply wf_msg_of_wire. exact Hx.
  - rewrite map_length. exact Li.
  - apply Forall_map. apply Forall_forall. intros x Hx. split.
    + rewrite Forall_forall in Hm. exact (Hm x Hx).
    + split; [reflexivity|]. unfold wire_admitted in Ai. rewrite Forall_forall in Ai. exact (Ai x Hx).
  - split; [reflexivity | exact Af].
  - rewrite Hc. f_equal. rewrite Ew, !map_app, !concat_app. cbn [map concat]. rewrite <- !app_assoc. reflexivity.
Qed.
