(* Proofs about the batch assembly model (Model/Batch.v). *)
From Coq Require Import Permutation.
From RZ Require Import Base.Prelude Model.Batch.

Set Implicit Arguments.

Section BatchProofs.
Variable M : Type.
Variable wsize : M -> N.

Notation drain_carry := (drain_carry wsize).
Notation scan_overflow := (scan_overflow wsize).
Notation top_up := (top_up wsize).
Notation assemble_carry_gen := (assemble_carry_gen wsize).
Notation assemble_carry := (assemble_carry wsize).
Notation assemble_recv := (assemble_recv wsize).
Notation assemble_gen := (assemble_gen wsize).
Notation assemble := (assemble wsize).
Notation assemble_legacy := (assemble_legacy wsize).
Notation run_gen := (run_gen wsize).
Notation run := (run wsize).
Notation run_legacy := (run_legacy wsize).
Notation run_clean := (run_clean wsize).
Notation topup_over_carry := (topup_over_carry wsize).
Notation sum_sizes := (sum_sizes wsize).

(* ---- the two loops ---- *)

Lemma sum_sizes_app a b : sum_sizes (a ++ b) = (sum_sizes a + sum_sizes b)%N.
Proof.
  induction a as [|x a IH].
  { change (sum_sizes ([] ++ b)) with (sum_sizes b). change (sum_sizes []) with 0%N. lia. }
  change (sum_sizes ((x :: a) ++ b)) with (wsize x + sum_sizes (a ++ b))%N.
  change (sum_sizes (x :: a)) with (wsize x + sum_sizes a)%N. rewrite IH. lia.
Qed.

Lemma drain_carry_split mc mb : forall carry batch total b t c,
  drain_carry mc mb batch total carry = (b, t, c) ->
  b ++ c = batch ++ carry /\ (exists d, b = batch ++ d) /\ length b <= Nat.max (length batch) mc.
Proof.
  induction carry as [|next rest IH]; intros batch total b t c H; cbn [Batch.drain_carry] in H.
  - inversion H; subst. rewrite app_nil_r. split; [reflexivity|]. split; [exists []; now rewrite app_nil_r | lia].
  - destruct (length batch <? mc) eqn:Hl.
    + destruct ((mb <? total + wsize next)%N && negb (match batch with [] => true | _ => false end)).
      * inversion H; subst. split; [reflexivity|]. split; [exists []; now rewrite app_nil_r | lia].
      * apply IH in H. destruct H as (H1 & (d & H2) & H3). split.
        { rewrite H1, <- app_assoc. reflexivity. }
        split. { exists (next :: d). rewrite H2, <- app_assoc. reflexivity. }
        rewrite app_length in H3. cbn [length] in H3. apply Nat.ltb_lt in Hl. lia.
    + inversion H; subst. split; [reflexivity|]. split; [exists []; now rewrite app_nil_r | lia].
Qed.

(* the first carried message is always taken when the batch is empty and max_count >= 1 *)
Lemma drain_carry_first mc mb next rest b t c :
  1 <= mc -> drain_carry mc mb [] 0%N (next :: rest) = (b, t, c) -> exists d, b = next :: d.
Proof.
  intros Hmc H. cbn [Batch.drain_carry] in H. cbn [length] in H.
  replace (0 <? mc) with true in H by (symmetry; apply Nat.ltb_lt; lia).
  rewrite andb_false_r in H. apply drain_carry_split in H. destruct H as (_ & (d & ->) & _).
  exists d. reflexivity.
Qed.

(* when the drain stops with messages left and room in the count, it stopped on the byte ceiling *)
Lemma drain_carry_total mc mb : forall carry batch total b t c,
  drain_carry mc mb batch total carry = (b, t, c) ->
  total = sum_sizes batch -> t = sum_sizes b.
Proof.
  induction carry as [|next rest IH]; intros batch total b t c H Ht; cbn [Batch.drain_carry] in H.
  - inversion H; subst. reflexivity.
  - destruct (length batch <? mc).
    + destruct ((mb <? total + wsize next)%N && negb (match batch with [] => true | _ => false end)).
      * inversion H; subst. reflexivity.
      * eapply IH; [exact H|]. subst total. rewrite sum_sizes_app. change (sum_sizes [next]) with (wsize next + 0)%N. lia.
    + inversion H; subst. reflexivity.
Qed.

Lemma scan_overflow_split mb : forall pulled kept total k t o,
  scan_overflow mb kept total pulled = (k, t, o) ->
  k ++ o = kept ++ pulled /\ (exists d, k = kept ++ d).
Proof.
  induction pulled as [|m rest IH]; intros kept total k t o H; cbn [Batch.scan_overflow] in H.
  - inversion H; subst. split; [reflexivity | exists []; now rewrite app_nil_r].
  - destruct ((mb <? total + wsize m)%N && (0 <? length kept)).
    + inversion H; subst. split; [reflexivity | exists []; now rewrite app_nil_r].
    + apply IH in H. destruct H as (H1 & d & H2). split.
      * rewrite H1, <- app_assoc. reflexivity.
      * exists (m :: d). rewrite H2, <- app_assoc. reflexivity.
Qed.

(* top_up: what is added to the batch plus the overflow is exactly a prefix of the pipe, at most
   `max_count - length batch` long *)
Lemma top_up_split c mc batch total pipe b o p :
  top_up c mc batch total pipe = (b, o, p) ->
  exists pulled, b ++ o = batch ++ pulled /\ pulled ++ p = pipe /\ (exists d, b = batch ++ d)
                 /\ length batch + length pulled <= Nat.max (length batch) mc
                 /\ (length p = length pipe -> pulled = []).
Proof.
  unfold Batch.top_up. intros H.
  assert (Hnone : (batch, @nil M, pipe) = (b, o, p) ->
     exists pulled, b ++ o = batch ++ pulled /\ pulled ++ p = pipe /\ (exists d, b = batch ++ d)
                 /\ length batch + length pulled <= Nat.max (length batch) mc
                 /\ (length p = length pipe -> pulled = [])).
  { intros E. inversion E; subst. exists []. rewrite !app_nil_r. repeat split; auto.
    - exists []. now rewrite app_nil_r.
    - cbn. lia. }
  destruct ((length batch <? mc) && (total <? b_logical c)%N) eqn:Hg; [|auto].
  match type of H with context [N.to_nat (N.min ?a ?b)] => set (needed := N.to_nat (N.min a b)) in * end.
  destruct (0 <? needed) eqn:Hn; [|auto].
  destruct (scan_overflow (b_physical c) batch total (firstn needed pipe)) as [[k t] ov] eqn:Hs.
  inversion H; subst. apply scan_overflow_split in Hs. destruct Hs as (H1 & d & H2).
  exists (firstn needed pipe). split; [exact H1|]. split; [apply firstn_skipn|]. split; [exists d; exact H2|].
  split.
  - rewrite firstn_length.
    assert (needed <= mc - length batch).
    { subst needed. match goal with |- context [N.min _ ?x] => generalize x end. intros; lia. }
    lia.
  - intros Hl. rewrite skipn_length in Hl. apply Nat.ltb_lt in Hn.
    destruct pipe; [now rewrite firstn_nil|]. cbn [length] in Hl. lia.
Qed.

(* ---- one activation ---- *)

(* Loss-free and duplication-free in EVERY case, including the failing class of the order
   theorem: batch, new carry-over and remaining pipe are a permutation of what was there. *)
Theorem assemble_perm g c pending st b st' :
  assemble_gen g c pending st = (b, st') ->
  Permutation (b ++ fst st' ++ snd st') (fst st ++ snd st).
Proof.
  unfold Batch.assemble_gen. destruct st as [carry pipe]. intros H.
  destruct (gate_open c pending); [|inversion H; subst; apply Permutation_refl].
  destruct carry as [|c0 carry].
  - destruct pipe as [|first rest]; [inversion H; subst; apply Permutation_refl|].
    unfold Batch.assemble_recv in H.
    destruct (top_up c (max_count_of c pending) [first] (wsize first) rest) as [[b' o] p'] eqn:Ht.
    inversion H; subst. apply top_up_split in Ht. destruct Ht as (pulled & H1 & H2 & _).
    cbn [fst snd]. rewrite app_assoc, H1, <- H2, <- app_assoc. apply Permutation_refl.
  - unfold Batch.assemble_carry_gen in H.
    destruct (drain_carry (max_count_of c pending) (b_physical c) [] 0%N (c0 :: carry)) as [[b0 t0] c1] eqn:Hd.
    apply drain_carry_split in Hd. destruct Hd as (Hd & _). cbn [app] in Hd.
    destruct (g && negb (match c1 with [] => true | _ => false end)).
    + inversion H; subst. cbn [fst snd]. rewrite app_assoc, Hd. apply Permutation_refl.
    + destruct (top_up c (max_count_of c pending) b0 t0 pipe) as [[b' o] p'] eqn:Ht.
      inversion H; subst. apply top_up_split in Ht. destruct Ht as (pulled & H1 & H2 & _).
      cbn [fst snd]. rewrite <- Hd, <- H2.
      (* b ++ (c1 ++ o) ++ p'  ~  (b0 ++ c1) ++ pulled ++ p' *)
      rewrite <- !app_assoc.
      transitivity (b ++ o ++ c1 ++ p').
      { apply Permutation_app_head. rewrite !app_assoc. apply Permutation_app_tail. apply Permutation_app_comm. }
      rewrite app_assoc, H1, <- app_assoc. apply Permutation_app_head.
      rewrite !app_assoc. apply Permutation_app_tail. apply Permutation_app_comm.
Qed.

(* ORDER: batch ++ carry' ++ rest_of_pipe = carry ++ pipe, for every size mix and every limit:
   unconditionally for the code (guard = true); for the pinned commit (guard = false) whenever the
   activation is not "top up from the pipe while older messages stay in carry-over". *)
Theorem assemble_order_gen g c pending st b st' :
  assemble_gen g c pending st = (b, st') ->
  g = true \/ topup_over_carry c pending st = false ->
  b ++ fst st' ++ snd st' = fst st ++ snd st.
Proof.
  unfold Batch.assemble_gen, Batch.topup_over_carry. destruct st as [carry pipe]. intros H Hc.
  destruct (gate_open c pending); [|inversion H; subst; reflexivity].
  destruct carry as [|c0 carry].
  - destruct pipe as [|first rest]; [inversion H; subst; reflexivity|].
    unfold Batch.assemble_recv in H.
    destruct (top_up c (max_count_of c pending) [first] (wsize first) rest) as [[b' o] p'] eqn:Ht.
    inversion H; subst. apply top_up_split in Ht. destruct Ht as (pulled & H1 & H2 & _).
    cbn [fst snd]. rewrite app_assoc, H1, <- H2, <- app_assoc. reflexivity.
  - unfold Batch.assemble_carry_gen in H. cbn [andb] in Hc.
    destruct (drain_carry (max_count_of c pending) (b_physical c) [] 0%N (c0 :: carry)) as [[b0 t0] c1] eqn:Hd.
    apply drain_carry_split in Hd. destruct Hd as (Hd & _). cbn [app] in Hd.
    destruct c1 as [|x c1].
    + rewrite andb_false_r in H.
      destruct (top_up c (max_count_of c pending) b0 t0 pipe) as [[b' o] p'] eqn:Ht.
      inversion H; subst. apply top_up_split in Ht. destruct Ht as (pulled & H1 & H2 & _).
      cbn [fst snd]. rewrite app_nil_r in Hd. rewrite app_assoc, H1, <- Hd, <- H2, <- app_assoc. reflexivity.
    + destruct g; cbn [andb negb] in H.
      * inversion H; subst. cbn [fst snd]. rewrite app_assoc, Hd. reflexivity.
      * destruct Hc as [Hc|Hc]; [discriminate|].
        destruct (top_up c (max_count_of c pending) b0 t0 pipe) as [[b' o] p'] eqn:Ht.
        inversion H; subst. apply top_up_split in Ht.
        destruct Ht as (pulled & H1 & H2 & (d & Hb) & _ & H5).
        apply negb_false_iff, Nat.eqb_eq in Hc. specialize (H5 Hc). subst pulled.
        rewrite app_nil_r in H1. cbn [app] in H2. subst p'.
        subst b. rewrite <- app_assoc in H1.
        assert (d ++ o = []) as Hdo.
        { apply (app_inv_head b0). rewrite app_nil_r. exact H1. }
        apply app_eq_nil in Hdo. destruct Hdo as [-> ->].
        cbn [fst snd]. rewrite !app_nil_r, app_assoc, Hd. reflexivity.
Qed.

Corollary assemble_order c pending st b st' :
  assemble c pending st = (b, st') -> b ++ fst st' ++ snd st' = fst st ++ snd st.
Proof. intros H. eapply assemble_order_gen; [exact H | left; reflexivity]. Qed.

Corollary assemble_order_legacy_outside c pending st b st' :
  assemble_legacy c pending st = (b, st') -> topup_over_carry c pending st = false ->
  b ++ fst st' ++ snd st' = fst st ++ snd st.
Proof. intros H Hc. eapply assemble_order_gen; [exact H | right; exact Hc]. Qed.

(* progress: with the gate open and something queued, the OLDEST queued message is sent in this
   batch whatever its size (also when it is larger than every ceiling), so nothing starves *)
Theorem batch_nonempty_progress g c pending carry pipe hd tl b st' :
  1 <= b_count c -> gate_open c pending = true -> carry ++ pipe = hd :: tl ->
  assemble_gen g c pending (carry, pipe) = (b, st') -> exists d, b = hd :: d.
Proof.
  unfold Batch.assemble_gen. intros Hcnt Hg Hq H. rewrite Hg in H.
  assert (Hmc : 1 <= max_count_of c pending) by (unfold Batch.max_count_of; lia).
  destruct carry as [|c0 carry].
  - cbn [app] in Hq. subst pipe. unfold Batch.assemble_recv in H.
    destruct (top_up c (max_count_of c pending) [hd] (wsize hd) tl) as [[b' o] p'] eqn:Ht.
    inversion H; subst. apply top_up_split in Ht. destruct Ht as (_ & _ & _ & (d & ->) & _).
    exists d. reflexivity.
  - cbn [app] in Hq. inversion Hq; subst. unfold Batch.assemble_carry_gen in H.
    destruct (drain_carry (max_count_of c pending) (b_physical c) [] 0%N (hd :: carry)) as [[b0 t0] c1] eqn:Hd.
    apply drain_carry_first in Hd; [|exact Hmc]. destruct Hd as (d0 & ->).
    destruct (g && negb (match c1 with [] => true | _ => false end)).
    + inversion H; subst. exists d0. reflexivity.
    + destruct (top_up c (max_count_of c pending) (hd :: d0) t0 pipe) as [[b' o] p'] eqn:Ht.
      inversion H; subst. apply top_up_split in Ht. destruct Ht as (_ & _ & _ & (d & ->) & _).
      exists (d0 ++ d). reflexivity.
Qed.

(* a message larger than every ceiling that heads the queue is sent ALONE when it comes from the
   carry-over... in general: the batch never exceeds the count limit (bound used by C14) *)
Theorem batch_count_bound g c pending st b st' :
  1 <= b_count c ->
  assemble_gen g c pending st = (b, st') -> length b <= max_count_of c pending.
Proof.
  unfold Batch.assemble_gen. destruct st as [carry pipe]. intros Hcnt H.
  assert (Hmc : 1 <= max_count_of c pending) by (unfold Batch.max_count_of; lia).
  destruct (gate_open c pending); [|inversion H; subst; cbn; lia].
  destruct carry as [|c0 carry].
  - destruct pipe as [|first rest]; [inversion H; subst; cbn; lia|].
    unfold Batch.assemble_recv in H.
    destruct (top_up c (max_count_of c pending) [first] (wsize first) rest) as [[b' o] p'] eqn:Ht.
    inversion H; subst. apply top_up_split in Ht. destruct Ht as (pulled & H1 & _ & _ & H4 & _).
    apply (f_equal (@length M)) in H1. rewrite !app_length in H1. cbn [length] in *. lia.
  - unfold Batch.assemble_carry_gen in H.
    destruct (drain_carry (max_count_of c pending) (b_physical c) [] 0%N (c0 :: carry)) as [[b0 t0] c1] eqn:Hd.
    apply drain_carry_split in Hd. destruct Hd as (_ & _ & Hl). cbn [length] in Hl.
    destruct (g && negb (match c1 with [] => true | _ => false end)).
    + inversion H; subst. lia.
    + destruct (top_up c (max_count_of c pending) b0 t0 pipe) as [[b' o] p'] eqn:Ht.
      inversion H; subst. apply top_up_split in Ht. destruct Ht as (pulled & H1 & _ & _ & H4 & _).
      apply (f_equal (@length M)) in H1. rewrite !app_length in H1. lia.
Qed.

(* ---- any number of cycles ---- *)

Lemma run_gen_order g c : forall evs st bs st',
  run_gen g c st evs = (bs, st') ->
  g = true \/ (g = false /\ run_clean c st evs = true) ->
  concat bs ++ fst st' ++ snd st' = fst st ++ snd st ++ accepted evs.
Proof.
  induction evs as [|e evs IH]; intros st bs st' H Hc.
  - cbn in H. inversion H; subst. cbn. now rewrite app_nil_r.
  - destruct e as [m|p]; cbn [Batch.run_gen] in H.
    + apply IH in H.
      * rewrite H. cbn [fst snd accepted]. rewrite <- !app_assoc. reflexivity.
      * destruct Hc as [Hc|[Hg Hc]]; [left; exact Hc | right; split; [exact Hg | exact Hc]].
    + destruct (assemble_gen g c p st) as [b st1] eqn:Ha.
      destruct (run_gen g c st1 evs) as [bs1 st2] eqn:Hr. inversion H; subst.
      assert (Hstep : b ++ fst st1 ++ snd st1 = fst st ++ snd st).
      { eapply assemble_order_gen; [exact Ha|]. destruct Hc as [Hc|[Hg Hc]]; [left; exact Hc|right].
        cbn [Batch.run_clean] in Hc. apply andb_prop in Hc. destruct Hc as [Hc _]. now apply negb_true_iff in Hc. }
      apply IH in Hr.
      * cbn [accepted].
        assert (concat (match b with [] => bs1 | _ :: _ => b :: bs1 end) = b ++ concat bs1) as ->
          by (destruct b; reflexivity).
        rewrite <- app_assoc, Hr, !app_assoc. f_equal. rewrite <- Hstep, <- !app_assoc. reflexivity.
      * destruct Hc as [Hc|[Hg Hc]]; [left; exact Hc|right]. split; [exact Hg|]. subst g.
        cbn [Batch.run_clean] in Hc. apply andb_prop in Hc. destruct Hc as [_ Hc].
        unfold Batch.assemble_legacy in Hc. rewrite Ha in Hc. exact Hc.
Qed.

(* concatenation of all emitted batches followed by what is still queued = the accepted sequence *)
Theorem assemble_run_order c evs bs st' :
  run c ([], []) evs = (bs, st') -> concat bs ++ fst st' ++ snd st' = accepted evs.
Proof. intros H. apply run_gen_order in H; [exact H | left; reflexivity]. Qed.

Theorem assemble_run_order_legacy_outside c evs bs st' :
  run_legacy c ([], []) evs = (bs, st') -> run_clean c ([], []) evs = true ->
  concat bs ++ fst st' ++ snd st' = accepted evs.
Proof. intros H Hc. apply run_gen_order in H; [exact H | right; split; [reflexivity | exact Hc]]. Qed.

(* loss-free and duplication-free for every run, clean or not *)
Theorem assemble_run_perm g c : forall evs st bs st',
  run_gen g c st evs = (bs, st') ->
  Permutation (concat bs ++ fst st' ++ snd st') (fst st ++ snd st ++ accepted evs).
Proof.
  induction evs as [|e evs IH]; intros st bs st' H.
  - cbn in H. inversion H; subst. cbn. rewrite app_nil_r. apply Permutation_refl.
  - destruct e as [m|p]; cbn [Batch.run_gen] in H.
    + apply IH in H. cbn [fst snd accepted] in *. rewrite <- !app_assoc in H. exact H.
    + destruct (assemble_gen g c p st) as [b st1] eqn:Ha.
      destruct (run_gen g c st1 evs) as [bs1 st2] eqn:Hr. inversion H; subst.
      apply assemble_perm in Ha. apply IH in Hr. cbn [accepted].
      assert (concat (match b with [] => bs1 | _ :: _ => b :: bs1 end) = b ++ concat bs1) as ->
        by (destruct b; reflexivity).
      rewrite <- app_assoc. etransitivity; [apply Permutation_app_head; exact Hr|].
      rewrite !app_assoc. apply Permutation_app_tail. rewrite <- app_assoc. exact Ha.
Qed.

End BatchProofs.

(* ---- the pinned commit (no `core_carryover.is_empty()` conjunct) violated the order ---- *)
Definition legacy_cfg : bcfg := {| b_sndhwm := 1000; b_count := 128; b_logical := 64; b_physical := 4096 |}.

(* one activation: carry-over [20; 5009; 20] (wire sizes), two newer messages in the pipe:
   the batch is [20; 21; 22] - the pipe's messages go out before 5009 and the second 20 *)
Theorem assemble_order_legacy_refuted :
  let '(b, (c', p')) := assemble_legacy (fun x : N => x) legacy_cfg 0 ([20; 5009; 20]%N, [21; 22]%N) in
  b = [20; 21; 22]%N /\ c' = [5009; 20]%N /\ p' = [] /\ b ++ c' ++ p' <> [20; 5009; 20; 21; 22]%N.
Proof. vm_compute. repeat split; congruence. Qed.

(* a whole run from an empty session: seven accepted sends, four activations *)
Theorem assemble_run_order_legacy_refuted :
  let evs := [BSend 20; BSend 5009; BSend 20; BSend 5009; BSend 20; BCycle N 0; BCycle N 0;
              BSend 21; BSend 22; BCycle N 0; BCycle N 0; BCycle N 0]%N in
  let '(bs, st) := run_legacy (fun x : N => x) legacy_cfg ([], []) evs in
  st = ([], []) /\ accepted evs = [20; 5009; 20; 5009; 20; 21; 22]%N
  /\ concat bs = [20; 5009; 20; 21; 22; 5009; 20]%N.
Proof. vm_compute. auto. Qed.

(* the same run on the code as it is now *)
Example assemble_run_fixed_example :
  let evs := [BSend 20; BSend 5009; BSend 20; BSend 5009; BSend 20; BCycle N 0; BCycle N 0;
              BSend 21; BSend 22; BCycle N 0; BCycle N 0; BCycle N 0; BCycle N 0]%N in
  let '(bs, st) := run (fun x : N => x) legacy_cfg ([], []) evs in
  st = ([], []) /\ concat bs = accepted evs.
Proof. vm_compute. auto. Qed.
