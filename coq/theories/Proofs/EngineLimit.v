(* The receiving engine and over-long messages: a message of 256 or more frames is answered with a protocol
   error (PeerError) at its 256th frame; nothing of it is ever delivered, however the bytes are cut. *)
From RZ Require Import Base.Prelude Base.Stepper Model.Codec Proofs.CodecProofs Model.Engine Proofs.EngineProofs.
Local Open Scope N_scope.

Definition more_data (cfg : ecfg) (f : frame) : Prop := f_more f = true /\ data_ok cfg f.

(* 255 frames with MORE are absorbed into partial_batch, the next data frame (MORE or not) is refused *)
Lemma run_overlong cfg st init f tail :
  e_phase st = PData -> e_partial st = [] ->
  length init = MAX_FRAMES -> Forall (more_data cfg) init -> data_ok cfg f ->
  Run (estep cfg) st (concat (map enc_codec (init ++ [f])) ++ tail)
      (closed (set_partial st init)) tail
      (concat (map (fun _ => [OActivity]) init) ++ [OActivity; OErr EProto]).
Proof.
  intros Hph Hp Hlen Hall [Hc Ha].
  (* split init = front ++ [l]: run_frames_more covers the first 254 *)
  destruct (@exists_last _ init) as (front & l & ->).
  { intros ->. cbn in Hlen. unfold MAX_FRAMES in Hlen. discriminate. }
  rewrite app_length in Hlen. cbn [length] in Hlen.
  apply Forall_app in Hall. destruct Hall as [Hfront Hl]. inversion Hl as [|? ? [Hlm [Hlc Hla]] _]; subst.
  rewrite !map_app, !concat_app. cbn [map concat]. rewrite !app_nil_r, <- !app_assoc.
  eapply (run_frames_more cfg st front []); auto.
  - cbn [length]. lia.
  - cbn [app].
    eapply RunStep with (o := [OActivity]) (n := length (enc_codec l)).
    + unfold estep. cbn [set_partial e_phase e_partial e_version]. rewrite Hph.
      rewrite dec_buffer_enc by exact Hla. rewrite Hlc.
      destruct (MAX_FRAMES <=? length front)%nat eqn:E; [apply Nat.leb_le in E; lia|].
      rewrite Hlm. reflexivity.
    + rewrite skipn_app, skipn_all, Nat.sub_diag. cbn [app skipn].
      eapply RunStep with (o := [OActivity; OErr EProto]) (n := length (enc_codec f)).
      * unfold estep. cbn [set_partial e_phase e_partial e_version]. rewrite Hph.
        rewrite dec_buffer_enc by exact Ha. rewrite Hc.
        destruct (MAX_FRAMES <=? length (front ++ [l]))%nat eqn:E; [reflexivity|].
        apply Nat.leb_gt in E. rewrite app_length in E. cbn [length] in E. lia.
      * rewrite skipn_app, skipn_all, Nat.sub_diag. cbn [app skipn].
        apply RunNeed. reflexivity.
Qed.

Lemma visible_acts_only (l : list frame) : visible (concat (map (fun _ : frame => [OActivity]) l)) = [].
Proof. induction l; cbn; auto. Qed.

(* complete messages `ms` followed by an over-long one: the complete ones are delivered, then PeerError;
   no batch containing a frame of the over-long message is delivered, the engine is closed *)
Theorem data_phase_refuses_overlong cfg g ms init f tail cs :
  e_phase (g_st g) = PData -> e_partial (g_st g) = [] -> g_acc g = [] ->
  Forall (wf_msg cfg) ms ->
  length init = MAX_FRAMES -> Forall (more_data cfg) init -> data_ok cfg f ->
  concat (map fst cs) = concat (map enc_codec (concat ms)) ++ concat (map enc_codec (init ++ [f])) ++ tail ->
  let '(g', o) := nets cfg g cs in
  o = map ODeliver ms ++ [OErr EProto] /\ e_phase (g_st g') = PClosed.
Proof.
  intros Hph Hp Hacc Hms Hlen Hall Hf Hc.
  assert (quiescent cfg g) as Hq.
  { unfold quiescent, estep. rewrite Hph, Hacc. reflexivity. }
  pose proof (nets_feed cfg cs g) as H1. destruct (nets cfg g cs) as [g' o].
  match type of H1 with context [feed ?a ?b ?c ?d ?e ?f1] =>
    assert (feed a b c d e f1 = pump a b c d (concat (map enc_codec (concat ms)) ++
                                         concat (map enc_codec (init ++ [f])) ++ tail)) as HE
      by (rewrite (sk_feed_quiescent_start (engine_ok cfg)) by exact Hq; rewrite Hacc; cbn [app]; f_equal; exact Hc);
    rewrite HE in H1; clear HE
  end.
  pose proof (run_overlong cfg (g_st g) init f tail Hph Hp Hlen Hall Hf) as HR2.
  pose proof (run_messages cfg (g_st g) ms _ _ _ _ Hph Hp Hms HR2) as HR.
  apply (sk_Run_pump (engine_ok cfg)) in HR. rewrite HR in H1.
  destruct H1 as (-> & _ & ->). split.
  - rewrite !visible_app, visible_acts, visible_acts_only. reflexivity.
  - reflexivity.
Qed.
