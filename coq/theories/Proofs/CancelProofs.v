(* Proofs about Model/Cancel.v (C09).

   Generic layer: `fwd P p0 q p` - an operation that started with program P in protocol state p0
   can be parked with remaining program q in protocol state p; `fin P p0 r p` - it can finish with
   result r in (pre-glue) state p.  Both are closed under everything the world does between polls
   (`inflight_fwd`, `finished_fin`): the world never writes the protocol state, it only decides
   which awaits are ready and which batch a pop returns.  `fset` / `finset` enumerate these sets
   for a concrete program (with the boolean guards passed on the way), so that the per-socket
   theorems are finite checks over the program text of every (socket type, operation). *)
From RZ Require Import Base.Prelude Model.Cancel.
Local Open Scope N_scope.

(* ------------------------------------------------------------------ generic layer *)
(* the part of `ready` that only reads the protocol state *)
Definition pready (w : wait) (p : Proto) : bool :=
  match w with WPermit => negb (p_perm p) | WTx => is_none (p_dtx p) | _ => true end.

Lemma ready_pready c w p e : ready c w p e = true -> pready w p = true.
Proof. destruct w; simpl; auto. Qed.

Inductive fwd : prog -> Proto -> prog -> Proto -> Prop :=
| F_refl q p : fwd q p q p
| F_act f r p q' p' : fwd r (f p) q' p' -> fwd (Act f :: r) p q' p'
| F_chk g e r p q' p' : g p = true -> fwd r p q' p' -> fwd (Chk g e :: r) p q' p'
| F_aw w h r p en q' p' : pready w p = true -> fwd r (peff w en p) q' p' -> fwd (Aw w h :: r) p q' p'
| F_skip w r p q' p' : fwd r p q' p' -> fwd (Aw w TSkip :: r) p q' p'.

Inductive fin : prog -> Proto -> N -> Proto -> Prop :=
| Fi_nil p : fin [] p 1 p
| Fi_ret x r p : fin (Ret x :: r) p x p
| Fi_act f r p x p' : fin r (f p) x p' -> fin (Act f :: r) p x p'
| Fi_chk g e r p x p' : g p = true -> fin r p x p' -> fin (Chk g e :: r) p x p'
| Fi_chk_fail g e r p : g p = false -> fin (Chk g e :: r) p e p
| Fi_aw w h r p en x p' : pready w p = true -> fin r (peff w en p) x p' -> fin (Aw w h :: r) p x p'
| Fi_skip w r p x p' : fin r p x p' -> fin (Aw w TSkip :: r) p x p'
| Fi_tret w f x r p : fin (Aw w (TRet f x) :: r) p x (f p).

Lemma fwd_trans P p0 q p q' p' : fwd P p0 q p -> fwd q p q' p' -> fwd P p0 q' p'.
Proof. induction 1; intros; eauto using fwd. Qed.

Lemma fwd_fin P p0 q p x p' : fwd P p0 q p -> fin q p x p' -> fin P p0 x p'.
Proof. induction 1; intros; eauto using fin. Qed.

Lemma exec_fwd c q : forall p e q' p' e',
  exec c q p e = (TPark q', p', e') -> fwd q p q' p' /\ exists w h r, q' = Aw w h :: r /\ w <> WLock.
Proof.
  induction q as [|i r IH]; intros p e q' p' e' H; simpl in H.
  - discriminate.
  - destruct i as [f|g err|w h|x].
    + apply IH in H. destruct H as [H1 H2]. split; [apply F_act; exact H1|exact H2].
    + destruct (g p) eqn:G; [|discriminate].
      apply IH in H. destruct H as [H1 H2]. split; [apply F_chk; assumption|exact H2].
    + destruct (ready c w p e) eqn:RD.
      * apply IH in H. destruct H as [H1 H2]. split; [eapply F_aw; [eapply ready_pready; exact RD|exact H1]|exact H2].
      * inversion H; subst. split; [apply F_refl|].
        exists w, h, r. split; [reflexivity|]. intros ->. discriminate RD.
    + discriminate.
Qed.

Lemma exec_fin c q : forall p e p' e',
  exec c q p e = (TIdle, p', e') -> exists x pp, fin q p x pp /\ p' = finish x pp.
Proof.
  induction q as [|i r IH]; intros p e p' e' H; simpl in H.
  - inversion H; subst. eauto using fin.
  - destruct i as [f|g err|w h|x].
    + apply IH in H. destruct H as (x & pp & H1 & H2). eauto using fin.
    + destruct (g p) eqn:G.
      * apply IH in H. destruct H as (x & pp & H1 & H2). eauto using fin.
      * inversion H; subst. eauto using fin.
    + destruct (ready c w p e) eqn:RD.
      * apply IH in H. destruct H as (x & pp & H1 & H2). apply ready_pready in RD. eauto using fin.
      * discriminate.
    + inversion H; subst. eauto using fin.
Qed.

Definition bg (es : list ev) : Prop := Forall (fun x => is_bg x = true) es.

(* the state of an operation in flight, relative to its start *)
Definition inflight (P : prog) (p0 : Proto) (s : state) : Prop :=
  match s with
  | (TPark q, p, _) => fwd P p0 q p /\ exists w h r, q = Aw w h :: r /\ w <> WLock
  | (TIdle, p, _) => exists x pp, fin P p0 x pp /\ p = finish x pp
  end.

Lemma step_inflight c t P p0 x s : is_bg x = true -> inflight P p0 s -> inflight P p0 (step c t x s).
Proof.
  intros B I. destruct s as [[th p] e]. destruct x; try discriminate; simpl.
  - (* Poll *) destruct th as [|q]; [exact I|].
    destruct I as [F _]. destruct (exec c q p e) as [[th' p'] e'] eqn:E.
    destruct th' as [|q'].
    + apply exec_fin in E. destruct E as (x & pp & E1 & E2). exists x, pp. split; [eapply fwd_fin; eauto|exact E2].
    + apply exec_fwd in E. destruct E as [E1 E2]. split; [eapply fwd_trans; eauto|exact E2].
  - (* Tmo *) destruct th as [|q]; [exact I|].
    destruct q as [|i r]; [exact I|]. destruct i as [f|g err|w h|y]; try exact I.
    destruct h as [| |f y]; [exact I| |].
    + destruct I as [F _].
      assert (F' : fwd P p0 r p) by (eapply fwd_trans; [exact F|apply F_skip, F_refl]).
      destruct (exec c r p e) as [[th' p'] e'] eqn:E.
      destruct th' as [|q'].
      * apply exec_fin in E. destruct E as (x & pp & E1 & E2). exists x, pp. split; [eapply fwd_fin; eauto|exact E2].
      * apply exec_fwd in E. destruct E as [E1 E2]. split; [eapply fwd_trans; eauto|exact E2].
    + destruct I as [F _]. exists y, (f p). split; [eapply fwd_fin; [exact F|apply Fi_tret]|reflexivity].
  - (* Drain *) destruct k; destruct th; exact I.
  - (* QDrain *) destruct (e_dq e); [destruct th; exact I|].
    destruct (e_peer e && Nat.ltb (length (e_out e)) (cap c)); destruct th; exact I.
  - (* Arrive *) destruct (Nat.ltb (length (e_in e)) (incap c)); destruct th; exact I.
  - (* PeerUp *) destruct th; exact I.
Qed.

Lemma run_inflight c t P p0 es : forall s, bg es -> inflight P p0 s -> inflight P p0 (run c t es s).
Proof.
  unfold run. induction es as [|x es IH]; intros s B I; simpl; [exact I|].
  inversion B; subst. apply IH; [assumption|]. apply step_inflight; assumption.
Qed.

Lemma call_inflight c t o p0 e0 : inflight (program c t o p0 e0) p0 (step c t (Call o) (TIdle, p0, e0)).
Proof.
  simpl. destruct (exec c (program c t o p0 e0) p0 e0) as [[th p] e] eqn:E. destruct th as [|q].
  - apply exec_fin in E. exact E.
  - apply exec_fwd in E. exact E.
Qed.

(* the operation is parked after any amount of world activity *)
Theorem inflight_fwd c t o p0 e0 es q p e :
  bg es -> run c t (Call o :: es) (TIdle, p0, e0) = (TPark q, p, e) ->
  fwd (program c t o p0 e0) p0 q p /\ exists w h r, q = Aw w h :: r /\ w <> WLock.
Proof.
  intros B R. pose proof (run_inflight c t _ p0 es _ B (call_inflight c t o p0 e0)) as I.
  change (run c t es (step c t (Call o) (TIdle, p0, e0)) = (TPark q, p, e)) in R.
  rewrite R in I. exact I.
Qed.

(* the operation has returned *)
Theorem finished_fin c t o p0 e0 es p e :
  bg es -> run c t (Call o :: es) (TIdle, p0, e0) = (TIdle, p, e) ->
  exists x pp, fin (program c t o p0 e0) p0 x pp /\ p = finish x pp.
Proof.
  intros B R. pose proof (run_inflight c t _ p0 es _ B (call_inflight c t o p0 e0)) as I.
  change (run c t es (step c t (Call o) (TIdle, p0, e0)) = (TIdle, p, e)) in R.
  rewrite R in I. exact I.
Qed.

(* ------------------------------------------------------------------ enumeration of a program *)
Definition edummy : Env := e0 false.
Definition not_pop (w : wait) : bool := match w with WItem => false | _ => true end.
Definition is_lock (w : wait) : bool := match w with WLock => true | _ => false end.

Lemma peff_nopop w en en' p : not_pop w = true -> peff w en p = peff w en' p.
Proof. destruct w; simpl; try reflexivity; discriminate. Qed.

(* every (guards passed, remaining program, protocol state) at which the operation can stand
   before any pop() has completed *)
Fixpoint fset (q : prog) (p : Proto) (gs : list bool) : list (list bool * prog * Proto) :=
  match q with
  | [] => []
  | i :: r => (gs, q, p) ::
      match i with
      | Act f => fset r (f p) gs
      | Chk g e => fset r p (g p :: gs)
      | Aw w h => (if not_pop w then fset r (peff w edummy p) (pready w p :: gs) else []) ++
                  (match h with TSkip => fset r p gs | _ => [] end)
      | Ret _ => []
      end
  end.

Fixpoint noaw (q : prog) : bool :=
  match q with [] => true | Aw _ _ :: _ => false | _ :: r => noaw r end.
(* nothing awaits after a pop() *)
Fixpoint popok (q : prog) : bool :=
  match q with
  | [] => true
  | i :: r => (match i with Aw WItem _ => noaw r | _ => true end) && popok r
  end.

Definition all_true (gs : list bool) : Prop := Forall (fun b => b = true) gs.

Lemma noaw_fwd r p q' p' : fwd r p q' p' -> noaw r = true -> noaw q' = true.
Proof.
  induction 1; intros N; simpl in *; auto; try discriminate.
Qed.

Lemma fwd_fset q1 p1 q p : fwd q1 p1 q p -> forall gs w h r,
  popok q1 = true -> q = Aw w h :: r -> all_true gs ->
  exists gs', In (gs', q, p) (fset q1 p1 gs) /\ all_true gs'.
Proof.
  induction 1 as [q p|f r p q' p' F IH|g e r p q' p' G F IH|w0 h0 r p en q' p' PR F IH|w0 r p q' p' F IH];
    intros gs w h r' PK E A.
  - subst. exists gs. split; [left; reflexivity|exact A].
  - simpl in PK. destruct (IH gs w h r' PK E A) as (gs' & I & A'). exists gs'. split; [right; exact I|exact A'].
  - simpl in PK. assert (A2 : all_true (g p :: gs)) by (constructor; assumption).
    destruct (IH _ w h r' PK E A2) as (gs' & I & A'). exists gs'. split; [right; exact I|exact A'].
  - simpl in PK. apply andb_true_iff in PK. destruct PK as [PK1 PK2].
    destruct (not_pop w0) eqn:NP.
    + assert (A2 : all_true (pready w0 p :: gs)) by (constructor; assumption).
      rewrite (peff_nopop w0 en edummy p NP) in F, IH.
      destruct (IH _ w h r' PK2 E A2) as (gs' & I & A'). exists gs'. split; [|exact A'].
      right. simpl. rewrite NP. apply in_or_app. left. exact I.
    + destruct w0; try discriminate NP. apply (noaw_fwd _ _ _ _ F) in PK1. subst q'. discriminate PK1.
  - simpl in PK. apply andb_true_iff in PK. destruct PK as [PK1 PK2].
    destruct (IH gs w h r' PK2 E A) as (gs' & I & A'). exists gs'. split; [|exact A'].
    right. simpl. apply in_or_app. right. exact I.
Qed.

(* every way the operation can return without having completed a pop(): (guards, result, pre-glue state) *)
Fixpoint finset (q : prog) (p : Proto) (gs : list bool) : list (list bool * N * Proto) :=
  match q with
  | [] => [(gs, 1, p)]
  | i :: r =>
      match i with
      | Act f => finset r (f p) gs
      | Chk g e => (negb (g p) :: gs, e, p) :: finset r p (g p :: gs)
      | Aw w h => (if not_pop w then finset r (peff w edummy p) (pready w p :: gs) else []) ++
                  (match h with TSkip => finset r p gs | TRet f x => [(gs, x, f p)] | TNone => [] end)
      | Ret x => [(gs, x, p)]
      end
  end.

Fixpoint nopop (q : prog) : bool :=
  match q with [] => true | Aw w _ :: r => not_pop w && nopop r | _ :: r => nopop r end.

Lemma fin_finset q1 p1 x pp : fin q1 p1 x pp -> forall gs,
  nopop q1 = true -> all_true gs -> exists gs', In (gs', x, pp) (finset q1 p1 gs) /\ all_true gs'.
Proof.
  induction 1 as [p|y r p|f r p y p' F IH|g e r p y p' G F IH|g e r p G|w h r p en y p' PR F IH|w r p y p' F IH|w f y r p];
    intros gs NP A; simpl in NP.
  - exists gs. split; [left; reflexivity|exact A].
  - exists gs. split; [left; reflexivity|exact A].
  - destruct (IH gs NP A) as (gs' & I & A'). exists gs'. split; [exact I|exact A'].
  - assert (A2 : all_true (g p :: gs)) by (constructor; assumption).
    destruct (IH _ NP A2) as (gs' & I & A'). exists gs'. split; [right; exact I|exact A'].
  - exists (negb (g p) :: gs). split; [left; reflexivity|]. constructor; [rewrite G; reflexivity|exact A].
  - apply andb_true_iff in NP. destruct NP as [NP1 NP2].
    assert (A2 : all_true (pready w p :: gs)) by (constructor; assumption).
    rewrite (peff_nopop w en edummy p NP1) in F, IH.
    destruct (IH _ NP2 A2) as (gs' & I & A'). exists gs'. split; [|exact A'].
    simpl. rewrite NP1. apply in_or_app. left. exact I.
  - apply andb_true_iff in NP. destruct NP as [NP1 NP2].
    destruct (IH gs NP2 A) as (gs' & I & A'). exists gs'. split; [|exact A'].
    simpl. apply in_or_app. right. exact I.
  - exists gs. split; [|exact A]. simpl. apply in_or_app. right. left. reflexivity.
Qed.

(* no operation in flight owns anything *)
Definition quiet (p : Proto) : Prop := p_fperm p = false /\ p_reg p = None.

(* a parked position: an await other than the (never parking) mutex *)
Definition parkpos (q : prog) : bool := match q with Aw w _ :: _ => negb (is_lock w) | _ => false end.

(* the property `phi` holds at every position of `P` where the operation can be parked *)
Definition at_parks (P : prog) (p0 : Proto) (phi : Proto -> Prop) : Prop :=
  Forall (fun x => let '(gs, q, p) := x in parkpos q = true -> all_true gs -> phi p) (fset P p0 []).

Lemma parked_phi c t o p0 e0 es q p e (phi : Proto -> Prop) :
  popok (program c t o p0 e0) = true ->
  at_parks (program c t o p0 e0) p0 phi ->
  bg es -> run c t (Call o :: es) (TIdle, p0, e0) = (TPark q, p, e) -> phi p.
Proof.
  intros PK AP B R. destruct (inflight_fwd c t o p0 e0 es q p e B R) as [F (w & h & r & E & NL)].
  destruct (fwd_fset _ _ _ _ F [] w h r PK E (Forall_nil _)) as (gs' & I & A).
  unfold at_parks in AP. rewrite Forall_forall in AP. specialize (AP _ I). simpl in AP.
  apply AP; [|exact A]. subst q. simpl. destruct w; try reflexivity. congruence.
Qed.

Definition at_ends (P : prog) (p0 : Proto) (phi : N -> Proto -> Prop) : Prop :=
  Forall (fun x => let '(gs, r, p) := x in all_true gs -> phi r p) (finset P p0 []).

Lemma finished_phi c t o p0 e0 es p e (phi : N -> Proto -> Prop) :
  nopop (program c t o p0 e0) = true ->
  at_ends (program c t o p0 e0) p0 phi ->
  bg es -> run c t (Call o :: es) (TIdle, p0, e0) = (TIdle, p, e) ->
  exists x pp, phi x pp /\ p = finish x pp.
Proof.
  intros NP AE B R. destruct (finished_fin c t o p0 e0 es p e B R) as (x & pp & F & E).
  destruct (fin_finset _ _ _ _ F [] NP (Forall_nil _)) as (gs' & I & A).
  unfold at_ends in AE. rewrite Forall_forall in AE. specialize (AE _ I). simpl in AE.
  exists x, pp. split; [apply AE; exact A|exact E].
Qed.

(* ------------------------------------------------------------------ per socket type and operation *)
Ltac unf := unfold program, recv_buffered, push_whole, dealer_route, pub_prog, to.
Ltac split_goal :=
  repeat (simpl;
    first [ match goal with |- context [match ?x with _ => _ end] => is_var x; destruct x end
          | match goal with |- context [match ?x with _ => _ end] =>
              lazymatch x with context [match _ with _ => _ end] => fail | _ => let T := type of x in lazymatch T with bool => destruct x eqn:? end end end ]);
  simpl.

Lemma program_popok c t o p0 e0 : popok (program c t o p0 e0) = true.
Proof.
  destruct p0 as [req rep dtx rtgt perm fperm buf reg pu pu2 tk app rets].
  destruct t, o; unf; split_goal; reflexivity.
Qed.

Definition plain (t : sock) (o : opk) (p0 : Proto) : bool :=
  match t, o with
  | ROUTER, OSend _ => p_rtgt p0
  | REP, OSend _ | REP, OSendMp _ => false
  | DEALER, OSend f => snd f || is_none (p_dtx p0)
  | PUB, OSend _ | PUB, OSendMp _ => false
  | _, _ => true
  end.

Ltac guards := repeat match goal with
  | H : all_true _ |- _ => unfold all_true in H
  | H : Forall _ (_ :: _) |- _ => inversion H; clear H; subst
  | H : Forall _ [] |- _ => clear H
  | H : negb _ = true |- _ => apply negb_true_iff in H
  | H : is_none ?x = true |- _ => destruct x; [discriminate H|clear H]
  end.

Ltac parks tac :=
  unfold at_parks; unf; split_goal;
  repeat (apply Forall_cons; [simpl; intros PP AA; try discriminate PP; guards; simpl in *; subst; tac|]);
  try apply Forall_nil.

Theorem cancel_is_noop c t o p0 e0 es q p e :
  quiet p0 -> plain t o p0 = true -> bg es ->
  run c t (Call o :: es) (TIdle, p0, e0) = (TPark q, p, e) ->
  core (glue p) = core p0.
Proof.
  intros [Q1 Q2] PL B R.
  refine (parked_phi c t o p0 e0 es q p e (fun p => core (glue p) = core p0) (program_popok _ _ _ _ _) _ B R).
  destruct p0 as [req rep dtx rtgt perm fperm buf reg pu pu2 tk app rets]. simpl in Q1, Q2. subst.
  clear R B.
  destruct t, o; simpl in PL; try discriminate PL.
  all: parks ltac:(try reflexivity; try discriminate).
Qed.

Definition pub_item (o : opk) : item :=
  match o with OSend f => [f] | OSendMp ts => norm (untag ts) | _ => [] end.

Definition ident_part (t : sock) (o : opk) (p0 : Proto) : bool :=
  match t, o with ROUTER, OSend _ => negb (p_rtgt p0) | _, _ => false end.

Definition aon_phi (t : sock) (o : opk) (p0 p : Proto) : Prop :=
  (p_pushed (glue p) = p_pushed p0 \/ (t = PUB /\ p_pushed (glue p) = p_pushed p0 ++ [pub_item o])) /\
  (p_pushed2 (glue p) = p_pushed2 p0 \/ (t = PUB /\ p_pushed2 (glue p) = p_pushed2 p0 ++ [pub_item o])).

(* T2 *)
Theorem cancel_all_or_nothing c t o p0 e0 es q p e :
  quiet p0 -> ident_part t o p0 = false -> bg es ->
  run c t (Call o :: es) (TIdle, p0, e0) = (TPark q, p, e) -> aon_phi t o p0 p.
Proof.
  intros [Q1 Q2] PL B R.
  refine (parked_phi c t o p0 e0 es q p e (aon_phi t o p0) (program_popok _ _ _ _ _) _ B R).
  destruct p0 as [req rep dtx rtgt perm fperm buf reg pu pu2 tk app rets]. simpl in Q1, Q2. subst.
  clear R B.
  destruct t, o; simpl in PL; try discriminate PL;
    parks ltac:(try discriminate; unfold aon_phi, glue; simpl; split; first [left; reflexivity | right; split; reflexivity]).
Qed.

Definition ident_phi (p0 p : Proto) : Prop :=
  (p_pushed (glue p) = p_pushed p0 \/ p_pushed (glue p) = p_pushed p0 ++ [[(IDENT, true)]]) /\
  p_rtgt (glue p) = false /\ p_perm (glue p) = p_perm p0 /\ quiet (glue p).

Theorem router_ident_cancel c f p0 e0 es q p e :
  quiet p0 -> p_rtgt p0 = false -> bg es ->
  run c ROUTER (Call (OSend f) :: es) (TIdle, p0, e0) = (TPark q, p, e) -> ident_phi p0 p.
Proof.
  intros [Q1 Q2] PL B R.
  refine (parked_phi c ROUTER (OSend f) p0 e0 es q p e (ident_phi p0) (program_popok _ _ _ _ _) _ B R).
  destruct p0 as [req rep dtx rtgt perm fperm buf reg pu pu2 tk app rets]. simpl in Q1, Q2, PL. subst.
  clear R B.
  parks ltac:(try discriminate; unfold ident_phi, glue, quiet; simpl; auto).
Qed.

Definition rep_send (t : sock) (o : opk) : bool :=
  match t, o with REP, OSend _ | REP, OSendMp _ => true | _, _ => false end.

Definition states_phi (t : sock) (o : opk) (p0 p : Proto) : Prop :=
  p_req (glue p) = p_req p0 /\ p_rtgt (glue p) = p_rtgt p0 /\ p_perm (glue p) = p_perm p0 /\
  quiet (glue p) /\ p_buf (glue p) = p_buf p0 /\
  (rep_send t o = false -> p_rep (glue p) = p_rep p0) /\
  (p_dtx (glue p) = p_dtx p0 \/ (t = DEALER /\ (exists tag, o = OSend (tag, false)) /\ p_dtx (glue p) = None)).

Theorem cancel_socket_states c t o p0 e0 es q p e :
  quiet p0 -> bg es ->
  run c t (Call o :: es) (TIdle, p0, e0) = (TPark q, p, e) -> states_phi t o p0 p.
Proof.
  intros [Q1 Q2] B R.
  refine (parked_phi c t o p0 e0 es q p e (states_phi t o p0) (program_popok _ _ _ _ _) _ B R).
  destruct p0 as [req rep dtx rtgt perm fperm buf reg pu pu2 tk app rets]. simpl in Q1, Q2. subst.
  clear R B.
  destruct t, o;
    parks ltac:(try discriminate; unfold states_phi, glue, quiet; simpl;
                repeat split; auto; try (intros; discriminate); try (right; repeat split; eauto);
                try match goal with |- exists tag, OSend ?f = _ => destruct f as [? ?]; simpl in *; subst; eexists; reflexivity end).
Qed.

(* ------------------------------------------------------------------ completed send-type calls *)
Theorem cancel_accepts_next c t o o' p0 e0 es q p e :
  quiet p0 -> bg es -> rep_send t o = false ->
  run c t (Call o :: es) (TIdle, p0, e0) = (TPark q, p, e) ->
  accepts t o' (glue p) = accepts t o' p0.
Proof.
  intros Q B RS R. destruct (cancel_socket_states c t o p0 e0 es q p e Q B R) as (A1 & A2 & A3 & A4 & A5 & A6 & A7).
  specialize (A6 RS). unfold accepts. destruct t, o'; try reflexivity; rewrite ?A1, ?A6; reflexivity.
Qed.

Ltac split_hyp H :=
  repeat (simpl in H;
    first [ match type of H with context [match ?x with _ => _ end] => is_var x; destruct x end
          | match type of H with context [match ?x with _ => _ end] =>
              lazymatch x with context [match _ with _ => _ end] => fail | _ => let T := type of x in lazymatch T with bool => destruct x eqn:? end end end ]);
  simpl in H.

Lemma program_nopop_send c t o p0 e0 :
  match o with OSend _ | OSendMp _ => nopop (program c t o p0 e0) = true | _ => True end.
Proof.
  destruct p0 as [req rep dtx rtgt perm fperm buf reg pu pu2 tk app rets].
  destruct t, o; try exact I; unf; split_goal; reflexivity.
Qed.

(* the pipe entry a one-entry send call commits *)
Definition wire_item (t : sock) (o : opk) (p0 : Proto) : option item :=
  match t, o with
  | PUSH, OSend f => Some [f]
  | PUSH, OSendMp (x :: r) => Some (norm (untag (x :: r)))
  | REQ, OSend f => Some [(DELIM, true); (fst f, false)]
  | REP, OSend f => match p_rep p0 with Some pre => Some (norm (pre ++ [(fst f, false)])) | None => None end
  | REP, OSendMp ts => match p_rep p0 with
                       | Some pre => Some (norm (pre ++ match ts with [] => [(0, false)] | _ => untag ts end))
                       | None => None end
  | DEALER, OSend f => if snd f then None
                       else Some (dealer_encode (match p_dtx p0 with Some parts => parts | None => [] end ++ [f]))
  | DEALER, OSendMp ts => Some (dealer_encode (untag ts))
  | ROUTER, OSendMp (idt :: pl) => if idt =? IDENT then Some (norm ((IDENT, true) :: (DELIM, true) :: untag pl)) else None
  | _, _ => None
  end.

Definition done_phi (c : Cfg) (t : sock) (it : item) (p0 : Proto) (x : N) (pp : Proto) : Prop :=
  (p_pushed (glue pp) = p_pushed p0 \/ p_pushed (glue pp) = p_pushed p0 ++ [it]) /\
  (x <> 1 -> p_pushed (glue pp) = p_pushed p0) /\
  ((t <> ROUTER \/ mand c = true) -> x = 1 -> p_pushed (glue pp) = p_pushed p0 ++ [it]) /\
  p_perm (glue pp) = p_perm p0 /\ p_rtgt (glue pp) = p_rtgt p0 /\ quiet (glue pp).

(* T6: a one-entry send call that RETURNS (Ok, error, or the internal time-out that drops the inner
   send future) has committed its whole message as one pipe entry or nothing; an error means nothing;
   Ok means the whole message (ROUTER without ROUTER_MANDATORY answers Ok for a dropped message) *)
Theorem send_returns_all_or_nothing c t o it p0 e0 es p e :
  quiet p0 -> wire_item t o p0 = Some it -> bg es ->
  run c t (Call o :: es) (TIdle, p0, e0) = (TIdle, p, e) ->
  exists x pp, done_phi c t it p0 x pp /\ p = finish x pp.
Proof.
  intros [Q1 Q2] W B R.
  assert (NP : nopop (program c t o p0 e0) = true).
  { pose proof (program_nopop_send c t o p0 e0) as H. destruct o; try exact H; destruct t; discriminate W. }
  refine (finished_phi c t o p0 e0 es p e (done_phi c t it p0) NP _ B R).
  destruct p0 as [req rep dtx rtgt perm fperm buf reg pu pu2 tk app rets]. simpl in Q1, Q2. subst.
  clear R B NP. unfold at_ends.
  destruct t, o; simpl in W; try discriminate W; split_hyp W; try discriminate W;
    inversion W; subst; clear W; unfold mand_err; destruct (mand c) eqn:MD;
    repeat match goal with H : ?x = _ |- context [?x] => rewrite H end;
    unf; split_goal;
    repeat (apply Forall_cons; [simpl; intros AA; guards; simpl in *; subst;
            unfold done_phi, glue, quiet; simpl; repeat split; auto; try congruence;
            try (intros [HH|HH]; congruence);
            try (intros ? HH; unfold mand_err in HH; match goal with M : mand _ = true |- _ => rewrite M in HH end; discriminate HH)|]); try apply Forall_nil.
Qed.

Theorem send_returns_all_or_nothing' c t o it p0 e0 es p e :
  quiet p0 -> wire_item t o p0 = Some it -> bg es ->
  run c t (Call o :: es) (TIdle, p0, e0) = (TIdle, p, e) ->
  exists x pp, p = finish x pp /\
    (p_pushed (glue pp) = p_pushed p0 \/ p_pushed (glue pp) = p_pushed p0 ++ [it]) /\
    (x <> 1 -> p_pushed (glue pp) = p_pushed p0) /\
    ((t <> ROUTER \/ mand c = true) -> x = 1 -> p_pushed (glue pp) = p_pushed p0 ++ [it]) /\
    p_perm (glue pp) = p_perm p0 /\ p_rtgt (glue pp) = p_rtgt p0 /\ quiet (glue pp).
Proof.
  intros Q W B R. destruct (send_returns_all_or_nothing c t o it p0 e0 es p e Q W B R) as (x & pp & D & E).
  exists x, pp. split; [exact E|exact D].
Qed.

(* ------------------------------------------------------------------ the ingress queue: exactly once, in order *)
Definition keeps (f : Proto -> Proto) : Prop := forall p, p_taken (f p) = p_taken p.
Definition okinstr (i : instr) : Prop :=
  match i with Act f => keeps f | Aw _ (TRet f _) => keeps f | _ => True end.

Ltac keeps_tac :=
  unfold keeps; intros pp; unfold deliver_first, deliver_all, same;
  repeat match goal with |- context [match ?x with _ => _ end] => destruct x end; reflexivity.

Lemma program_ok c t o p0 e0 : Forall okinstr (program c t o p0 e0).
Proof.
  destruct p0 as [req rep dtx rtgt perm fperm buf reg pu pu2 tk app rets].
  destruct t, o; unf; split_goal; repeat (apply Forall_cons; [simpl; try exact I; keeps_tac|]); apply Forall_nil.
Qed.

Definition qinv (s : state) : Prop :=
  let '(th, p, e) := s in
  p_taken p ++ e_in e = e_arrived e /\ match th with TPark q => Forall okinstr q | TIdle => True end.

Lemma taken_finish x p : p_taken (finish x p) = p_taken p.
Proof. unfold finish, glue. destruct (p_fperm p); reflexivity. Qed.

Lemma exec_qinv c q : forall p e,
  Forall okinstr q -> p_taken p ++ e_in e = e_arrived e -> qinv (exec c q p e).
Proof.
  induction q as [|i r IH]; intros p e OK Q; cbn [exec].
  - unfold qinv. split; [rewrite taken_finish; exact Q|exact I].
  - inversion OK as [|? ? OKi OKr]; subst. destruct i as [f|g err|w h|x].
    + apply IH; [exact OKr|]. cbn [okinstr] in OKi. rewrite OKi. exact Q.
    + destruct (g p); [apply IH; assumption|]. unfold qinv. split; [rewrite taken_finish; exact Q|exact I].
    + destruct (ready c w p e) eqn:RD.
      * apply IH; [exact OKr|]. destruct w as [| |k it|it| | |]; try exact Q.
        -- destruct k; exact Q.
        -- cbn [ready] in RD. cbn [peff eeff e_in e_arrived].
           destruct (e_in e) as [|x l]; [discriminate RD|]. cbn [add_taken p_taken tl]. rewrite <- app_assoc. exact Q.
      * unfold qinv. split; [exact Q|exact OK].
    + unfold qinv. split; [rewrite taken_finish; exact Q|exact I].
Qed.

Lemma step_qinv c t x s : qinv s -> qinv (step c t x s).
Proof.
  destruct s as [[th p] e]. intros [Q OK]. destruct x; cbn [step].
  - destruct th; [apply exec_qinv; [apply program_ok|exact Q]|split; assumption].
  - destruct th as [|q]; [split; assumption|apply exec_qinv; assumption].
  - destruct th as [|q]; [split; assumption|]. split; [|exact I]. unfold glue. destruct (p_fperm p); exact Q.
  - destruct th as [|q]; [split; assumption|]. destruct q as [|i r]; [split; assumption|].
    destruct i as [f|g err|w h|y]; try (split; assumption).
    inversion OK as [|? ? OKi OKr]; subst.
    destruct h as [| |f y]; [split; assumption|apply exec_qinv; assumption|].
    split; [|exact I]. rewrite taken_finish. cbn [okinstr] in OKi. rewrite OKi. exact Q.
  - destruct k; split; assumption.
  - destruct (e_dq e); [split; assumption|].
    destruct (e_peer e && Nat.ltb (length (e_out e)) (cap c)); split; assumption.
  - destruct (Nat.ltb (length (e_in e)) (incap c)); [|split; assumption].
    split; [cbn [e_in e_arrived]; rewrite app_assoc, Q; reflexivity|exact OK].
  - split; assumption.
Qed.

(* T5: for EVERY history of calls, polls, drops, time-outs and peer traffic: the batches taken so far,
   followed by the batches still queued, are exactly the batches that arrived, in arrival order *)
Theorem queue_exactly_once c t es s : qinv s -> qinv (run c t es s).
Proof.
  unfold run. revert s. induction es as [|x es IH]; intros s Q; simpl; [exact Q|].
  apply IH, step_qinv, Q.
Qed.

Lemma step_arrived c t x s : exists l, e_arrived (snd (step c t x s)) = e_arrived (snd s) ++ l.
Proof.
  destruct s as [[th p] e]. 
  assert (X : forall q p' e', exists l, e_arrived (snd (exec c q p' e')) = e_arrived e' ++ l).
  { induction q as [|i r IH]; intros p' e'; simpl.
    - exists []. rewrite app_nil_r. reflexivity.
    - destruct i as [f|g err|w h|y].
      + apply IH.
      + destruct (g p'); [apply IH|]. exists []. rewrite app_nil_r. reflexivity.
      + destruct (ready c w p' e').
        * destruct (IH (peff w e' p') (eeff w e')) as [l E]. exists l. rewrite E.
          destruct w as [| |k it|it| | |]; try reflexivity. destruct k; reflexivity.
        * exists []. rewrite app_nil_r. reflexivity.
      + exists []. rewrite app_nil_r. reflexivity. }
  assert (Z : exists l : list item, e_arrived e = e_arrived e ++ l) by (exists []; rewrite app_nil_r; reflexivity).
  destruct x; simpl.
  - destruct th; [apply X|exact Z].
  - destruct th; [exact Z|apply X].
  - destruct th; exact Z.
  - destruct th as [|q]; [exact Z|]. destruct q as [|i r]; [exact Z|]. destruct i as [f|g err|w h|y]; try exact Z.
    destruct h; [exact Z|apply X|exact Z].
  - destruct k; exact Z.
  - destruct (e_dq e); [exact Z|]. destruct (e_peer e && Nat.ltb (length (e_out e)) (cap c)); exact Z.
  - destruct (Nat.ltb (length (e_in e)) (incap c)); [|exact Z]. simpl. eauto.
  - exact Z.
Qed.

Lemma run_arrived c t es : forall s, exists l, e_arrived (snd (run c t es s)) = e_arrived (snd s) ++ l.
Proof.
  unfold run. induction es as [|x es IH]; intros s; simpl.
  - exists []. rewrite app_nil_r. reflexivity.
  - destruct (IH (step c t x s)) as [l1 E1]. destruct (step_arrived c t x s) as [l2 E2].
    exists (l2 ++ l1). rewrite E1, E2, app_assoc. reflexivity.
Qed.

(* T4: a dropped recv()/recv_multipart(): nothing taken, nothing delivered, buffer untouched; the
   queue holds what it held (plus what arrived meanwhile) *)
Theorem recv_cancel_keeps_message c t o p0 e0 es q p e :
  (o = ORecv \/ o = ORecvMp) -> quiet p0 -> p_taken p0 ++ e_in e0 = e_arrived e0 -> bg es ->
  run c t (Call o :: es) (TIdle, p0, e0) = (TPark q, p, e) ->
  p_taken (glue p) = p_taken p0 /\ p_buf (glue p) = p_buf p0 /\ p_app (glue p) = p_app p0 /\
  p_reg (glue p) = None /\
  exists l, e_in e = e_in e0 ++ l /\ e_arrived e = e_arrived e0 ++ l.
Proof.
  intros O Q QI B R.
  assert (PL : plain t o p0 = true) by (destruct O; subst; destruct t; reflexivity).
  pose proof (cancel_is_noop c t o p0 e0 es q p e Q PL B R) as C.
  pose proof (f_equal snd C) as CA. pose proof (f_equal (fun x => snd (fst x)) C) as CT.
  pose proof (f_equal (fun x => snd (fst (fst (fst x)))) C) as CR.
  pose proof (f_equal (fun x => snd (fst (fst (fst (fst x))))) C) as CB.
  unfold core in CA, CT, CR, CB. cbn [fst snd] in CA, CT, CR, CB.
  assert (QE : qinv (TPark q, p, e)).
  { rewrite <- R. apply queue_exactly_once. split; [exact QI|exact I]. }
  destruct QE as [QE _].
  destruct (run_arrived c t (Call o :: es) (TIdle, p0, e0)) as [l AR]. rewrite R in AR. cbn [snd] in AR.
  destruct Q as [_ Q2].
  split; [exact CT|]. split; [exact CB|]. split; [exact CA|]. split; [rewrite CR; exact Q2|].
  exists l. split; [|exact AR].
  assert (TK : p_taken p = p_taken p0). { unfold glue in CT. destruct (p_fperm p); exact CT. }
  rewrite TK, AR, <- QI, <- app_assoc in QE. apply app_inv_head in QE. exact QE.
Qed.

(* ------------------------------------------------------------------ witnesses: where the statement fails *)
Definition cfg1 (mandf tmo : bool) : Cfg := mkCfg 1 1 4 mandf tmo tmo true.
Definition st0 : state := (TIdle, p0, e0 true).
Definition pr (s : state) : Proto := snd (fst s).

(* frame-by-frame ROUTER send, identity part, capacity-1 pipe: the identity frame goes in, the delimiter
   has to wait, the future is dropped: the identity frame stays on the pipe alone and the NEXT message to
   that peer reaches it with the orphan in front *)
Lemma router_ident_cancel_refuted : exists c q p e,
  run c ROUTER [Call (OSend (IDENT, true))] st0 = (TPark q, p, e) /\
  p_pushed (glue p) = [[(IDENT, true)]] /\
  wire_msgs (p_pushed (pr (run c ROUTER [Cancel; Drain 0; Call (OSendMp [IDENT; tg 101 0 1])] (TPark q, p, e)))) =
    [[(IDENT, true); (IDENT, true); (DELIM, true); (tg 101 0 1, false)]].
Proof. exists (cfg1 true false). eexists. eexists. eexists. vm_compute. repeat split; reflexivity. Qed.

(* the same with SNDTIMEO and without ROUTER_MANDATORY: the call answers Ok *)
Lemma router_ident_timeout_refuted : exists c,
  let s := run c ROUTER [Call (OSend (IDENT, true)); Tmo] st0 in
  fst (fst s) = TIdle /\ p_rets (pr s) = [1] /\ p_pushed (pr s) = [[(IDENT, true)]] /\ p_rtgt (pr s) = false /\
  wire_tail (p_pushed (pr s)) = true.
Proof. exists (cfg1 false true). vm_compute. repeat split; reflexivity. Qed.

(* a later part times out on the full pipe: the target is cleared, the message stays unterminated *)
Lemma router_part_timeout_refuted : exists c,
  let s := run c ROUTER [Call (OSend (IDENT, true)); Drain 0; Poll; Call (OSend (tg 100 0 1, false)); Tmo] st0 in
  fst (fst s) = TIdle /\ p_rets (pr s) = [1; 2] /\ p_rtgt (pr s) = false /\ p_perm (pr s) = false /\
  wire_tail (p_pushed (pr s)) = true.
Proof. exists (cfg1 true true). vm_compute. repeat split; reflexivity. Qed.

(* DEALER: two parts buffered, the last part dropped on the full pipe: the buffered parts are gone; the
   retried last part goes out as a message of its own *)
Lemma dealer_parts_cancel_refuted : exists c,
  let s := run c DEALER [Call (OSendMp [tg 1 0 1]); Call (OSend (tg 100 0 3, true)); Call (OSend (tg 100 1 3, true));
                         Call (OSend (tg 100 2 3, false)); Cancel; Drain 0; Call (OSend (tg 100 2 3, false))] st0 in
  p_rets (pr s) = [1; 1; 1; 0; 1] /\ p_dtx (pr s) = None /\
  wire_msgs (p_pushed (pr s)) = [[(DELIM, true); (tg 1 0 1, false)]; [(DELIM, true); (tg 100 2 3, false)]].
Proof. exists (cfg1 true false). vm_compute. repeat split; reflexivity. Qed.

(* REP: the reply is dropped on the full pipe: nothing was sent, and the retry is refused *)
Lemma rep_send_cancel_refuted : exists c s0,
  accepts REP (OSendMp [tg 200 0 1]) (pr s0) = true /\
  let s := run c REP [Call (OSendMp [tg 200 0 1]); Cancel; Call (OSendMp [tg 200 0 1])] s0 in
  p_rets (pr s) = [0; 3] /\ p_pushed (pr s) = [] /\ accepts REP (OSendMp [tg 200 0 1]) (pr s) = false.
Proof.
  exists (cfg1 true false), (TIdle, set_rep (Some [(DELIM, true)]) p0, mkE [[(7, false)]] [] [] [] [] true).
  vm_compute. repeat split; reflexivity.
Qed.

(* REQ: recv() runs into RCVTIMEO: the socket forgets the outstanding request *)
Lemma req_recv_timeout_refuted : exists c,
  let s := run c REQ [Call (OSend (tg 150 0 1, false)); Call ORecv; Tmo; Call ORecv] st0 in
  p_rets (pr s) = [1; 2; 3] /\ p_pushed (pr s) = [[(DELIM, true); (tg 150 0 1, false)]] /\ p_taken (pr s) = [] /\
  accepts REQ ORecv (pr s) = false.
Proof. exists (cfg1 true true). vm_compute. repeat split; reflexivity. Qed.

(* non-vacuity of the positive theorems: a PUSH send_multipart parked on the full pipe and dropped *)
Lemma example_push_cancel :
  let c := cfg1 true false in
  let s1 := run c PUSH [Call (OSendMp [tg 1 0 2; tg 1 1 2]); Call (OSendMp [tg 100 0 3; tg 100 1 3; tg 100 2 3])] st0 in
  (exists q, fst (fst s1) = TPark q) /\
  let s2 := run c PUSH [Cancel; Drain 0; Call (OSendMp [tg 101 0 1])] s1 in
  p_rets (pr s2) = [1; 0; 1] /\ map (map fst) (wire_msgs (p_pushed (pr s2))) = [[tg 1 0 2; tg 1 1 2]; [tg 101 0 1]].
Proof. vm_compute. split; [eexists; reflexivity|split; reflexivity]. Qed.

(* ------------------------------------------------------------------ receive calls that return an error *)
Fixpoint acts_only (q : prog) : bool :=
  match q with [] => true | Act _ :: r => acts_only r | _ => false end.
Fixpoint popok2 (q : prog) : bool :=
  match q with
  | [] => true
  | i :: r => (match i with Aw WItem _ => acts_only r | _ => true end) && popok2 r
  end.

Lemma acts_only_fin r : forall p x pp, acts_only r = true -> fin r p x pp -> x = 1.
Proof.
  induction r as [|i r IH]; intros p x pp A F.
  - inversion F; reflexivity.
  - destruct i; simpl in A; try discriminate A. inversion F; subst. eapply IH; eauto.
Qed.

(* a call returns either before any pop() has completed (enumerated by finset) or with Ok *)
Lemma fin_finset_or_ok q1 p1 x pp : fin q1 p1 x pp -> forall gs,
  popok2 q1 = true -> all_true gs ->
  (exists gs', In (gs', x, pp) (finset q1 p1 gs) /\ all_true gs') \/ x = 1.
Proof.
  induction 1 as [p|y r p|f r p y p' F IH|g e r p y p' G F IH|g e r p G|w h r p en y p' PR F IH|w r p y p' F IH|w f y r p];
    intros gs PK A; simpl in PK.
  - left. exists gs. split; [left; reflexivity|exact A].
  - left. exists gs. split; [left; reflexivity|exact A].
  - destruct (IH gs PK A) as [(gs' & I & A')|E]; [left; exists gs'; split; assumption|right; exact E].
  - assert (A2 : all_true (g p :: gs)) by (constructor; assumption).
    destruct (IH _ PK A2) as [(gs' & I & A')|E]; [left; exists gs'; split; [right; exact I|exact A']|right; exact E].
  - left. exists (negb (g p) :: gs). split; [left; reflexivity|]. constructor; [rewrite G; reflexivity|exact A].
  - apply andb_true_iff in PK. destruct PK as [PK1 PK2].
    destruct (not_pop w) eqn:NP.
    + assert (A2 : all_true (pready w p :: gs)) by (constructor; assumption).
      rewrite (peff_nopop w en edummy p NP) in F, IH.
      destruct (IH _ PK2 A2) as [(gs' & I & A')|E]; [left|right; exact E].
      exists gs'. split; [|exact A']. simpl. rewrite NP. apply in_or_app. left. exact I.
    + destruct w; try discriminate NP. right. eapply acts_only_fin; eauto.
  - apply andb_true_iff in PK. destruct PK as [PK1 PK2].
    destruct (IH gs PK2 A) as [(gs' & I & A')|E]; [left|right; exact E].
    exists gs'. split; [|exact A']. simpl. apply in_or_app. right. exact I.
  - left. exists gs. split; [|exact A]. simpl. apply in_or_app. right. left. reflexivity.
Qed.

Lemma program_popok2 c t o p0 e0 : popok2 (program c t o p0 e0) = true.
Proof.
  destruct p0 as [req rep dtx rtgt perm fperm buf reg pu pu2 tk app rets].
  destruct t, o; unf; split_goal; reflexivity.
Qed.

Definition recv_err_phi (c : Cfg) (t : sock) (p0 : Proto) (x : N) (pp : Proto) : Prop :=
  x <> 1 ->
  p_taken (glue pp) = p_taken p0 /\ p_app (glue pp) = p_app p0 /\ p_buf (glue pp) = p_buf p0 /\
  p_rep (glue pp) = p_rep p0 /\ p_pushed (glue pp) = p_pushed p0 /\
  (p_req (glue pp) = p_req p0 \/ (t = REQ /\ rcvto c = true /\ x = 2 /\ p_req p0 = true /\ p_req (glue pp) = false)).

(* a recv()/recv_multipart() that returns an error - the state check, or RCVTIMEO dropping the inner
   pop() - has taken nothing, delivered nothing and left the buffer alone; the ONE state change is REQ
   forgetting its outstanding request on a time-out (recorded finding) *)
Theorem recv_error_takes_nothing c t o p0 e0 es p e :
  (o = ORecv \/ o = ORecvMp) -> quiet p0 -> bg es ->
  run c t (Call o :: es) (TIdle, p0, e0) = (TIdle, p, e) ->
  exists x pp, p = finish x pp /\ recv_err_phi c t p0 x pp.
Proof.
  intros O [Q1 Q2] B R.
  destruct (finished_fin c t o p0 e0 es p e B R) as (x & pp & F & E).
  exists x, pp. split; [exact E|].
  destruct (fin_finset_or_ok _ _ _ _ F [] (program_popok2 _ _ _ _ _) (Forall_nil _)) as [(gs' & I & A)|OK];
    [|intros NE; contradiction].
  clear F R B E. revert gs' I A.
  destruct p0 as [req rep dtx rtgt perm fperm buf reg pu pu2 tk app rets]. simpl in Q1, Q2. subst.
  assert (G : Forall (fun y => let '(gs, r, q) := y in all_true gs ->
              recv_err_phi c t {| p_req := req; p_rep := rep; p_dtx := dtx; p_rtgt := rtgt; p_perm := perm; p_fperm := false;
                                  p_buf := buf; p_reg := None; p_pushed := pu; p_pushed2 := pu2; p_taken := tk; p_app := app; p_rets := rets |} r q)
            (finset (program c t o {| p_req := req; p_rep := rep; p_dtx := dtx; p_rtgt := rtgt; p_perm := perm; p_fperm := false;
                                  p_buf := buf; p_reg := None; p_pushed := pu; p_pushed2 := pu2; p_taken := tk; p_app := app; p_rets := rets |} e0)
                    {| p_req := req; p_rep := rep; p_dtx := dtx; p_rtgt := rtgt; p_perm := perm; p_fperm := false;
                                  p_buf := buf; p_reg := None; p_pushed := pu; p_pushed2 := pu2; p_taken := tk; p_app := app; p_rets := rets |} [])).
  { destruct O; subst o; destruct t; unf; split_goal;
      repeat (apply Forall_cons; [simpl; intros AA NE; guards; simpl in *; subst;
              unfold glue; simpl; repeat split; auto; try congruence;
              try (right; repeat split; auto; congruence)|]); try apply Forall_nil. }
  intros gs' I A. rewrite Forall_forall in G. specialize (G _ I). simpl in G. apply G, A.
Qed.

(* ------------------------------------------------------------------ DEALER: a second task waiting for the transaction *)
Definition dwinv (s : dw) : Prop :=
  owed s = true /\
  (forall k, w_tx s = Some k -> (k < w_next s)%nat /\ w_last s = None) /\
  (forall k, w_last s = Some k -> (k < w_next s)%nat).

Ltac dw_crush :=
  repeat (simpl in *; subst;
    match goal with
    | |- _ /\ _ => split
    | |- forall _, _ => intro
    | H : Some _ = Some _ |- _ => inversion H; clear H
    | H : None = Some _ |- _ => discriminate H
    | H : Some _ = None |- _ => discriminate H
    | H : true = false |- _ => discriminate H
    | H : false = true |- _ => discriminate H
    | H : context [Nat.eqb ?a ?b] |- _ => destruct (Nat.eqb_spec a b)
    | |- context [Nat.eqb ?a ?b] => destruct (Nat.eqb_spec a b)
    | H : forall k, Some ?j = Some k -> _ |- _ => specialize (H j eq_refl)
    | H : forall k, None = Some k -> _ |- _ => clear H
    | H : _ /\ _ |- _ => destruct H
    end); simpl in *; subst; try reflexivity; try lia; try congruence; auto.

Lemma dwstep_inv s x : x <> DLastDrop -> dwinv s -> dwinv (dwstep s x).
Proof.
  intros ND (O & T & L). destruct s as [tx nx la wa wo dn]. unfold dwinv, owed, b_check in *.
  destruct x; try congruence; destruct tx as [t|], la as [l|], wa as [w|], wo, dn; dw_crush.
Qed.

(* as long as no last part is dropped, B's notification is always owed by somebody ... *)
Theorem dealer_waiter_owed es : forall s, dwinv s -> no_drop es = true -> dwinv (dwrun es s).
Proof.
  unfold dwrun. induction es as [|x es IH]; intros s I ND; simpl; [exact I|].
  simpl in ND. apply andb_true_iff in ND. destruct ND as [N1 N2].
  apply IH; [|exact N2]. apply dwstep_inv; [intros ->; discriminate N1|exact I].
Qed.

(* ... and A finishing its message (at most: start the last part, return from it) wakes B *)
Theorem dealer_waiter_served s k : dwinv s -> w_wait s = Some k ->
  exists es, no_drop es = true /\ (forall x, In x es -> x = DLast \/ x = DLastDone) /\
             w_woken (dwrun es s) = true.
Proof.
  intros (O & T & L) W. destruct s as [tx nx la wa wo dn]. unfold owed in O. simpl in *. subst wa.
  destruct wo.
  - exists []. repeat split; auto. intros x [].
  - destruct tx as [j|].
    + destruct (T j eq_refl) as [_ T2]. subst la. simpl in O. rewrite orb_false_r in O.
      exists [DLast; DLastDone]. split; [reflexivity|]. split; [intros x [<-|[<-|[]]]; auto|].
      unfold dwrun. simpl. rewrite Nat.eqb_sym. exact O.
    + destruct la as [j|]; [|discriminate O]. simpl in O.
      exists [DLastDone]. split; [reflexivity|]. split; [intros x [<-|[]]; auto|].
      unfold dwrun. simpl. rewrite Nat.eqb_sym. exact O.
Qed.

(* KNOWN FINDING: A's last part is dropped: B is parked on a notifier nobody holds any more; whatever
   happens afterwards (new transactions have new notifiers), B is never woken and never served *)
Definition dw_bad : dw := dwrun [DPart; DCallB; DLast; DLastDrop] dw0.

Lemma dw_bad_stays es : forall s,
  w_wait s = Some 0%nat -> w_woken s = false -> w_done s = false -> (1 <= w_next s)%nat ->
  (forall k, w_tx s = Some k -> (1 <= k < w_next s)%nat) -> (forall k, w_last s = Some k -> (1 <= k < w_next s)%nat) ->
  w_wait (dwrun es s) = Some 0%nat /\ w_woken (dwrun es s) = false /\ w_done (dwrun es s) = false.
Proof.
  unfold dwrun. induction es as [|x es IH]; intros s W WO DN NX T L; simpl; [auto|].
  destruct s as [tx nx la wa wo dn]. simpl in W, WO, DN, NX, T, L. subst.
  apply IH; unfold b_check; destruct x, tx as [t|], la as [l|]; dw_crush.
  all: match goal with |- match ?n with _ => _ end = _ => destruct n; [lia|reflexivity] end.
Qed.

Theorem dealer_waiter_refuted :
  w_tx dw_bad = None /\ w_last dw_bad = None /\
  forall es, w_wait (dwrun es dw_bad) = Some 0%nat /\ w_woken (dwrun es dw_bad) = false /\ w_done (dwrun es dw_bad) = false.
Proof.
  split; [reflexivity|]. split; [reflexivity|]. intros es.
  apply dw_bad_stays; try reflexivity; simpl; try lia; intros k E; discriminate E.
Qed.
