From RZ Require Import Base.Prelude Base.Stepper Model.Codec Proofs.CodecProofs Model.Engine
  Proofs.EngineProofs Model.Actor Proofs.ActorProofs Proofs.EngineSafety Model.Spill Proofs.SpillProofs
  Model.UringShell.
Local Open Scope N_scope.

(* ---------- network input never makes the engine schedule a close ---------- *)
Definition no_close (o : list eout) : Prop := forall d, ~ In (OClose d) o.

Lemma no_close_app a b : no_close a -> no_close b -> no_close (a ++ b).
Proof. unfold no_close. intros Ha Hb d H. apply in_app_or in H. destruct H; [eapply Ha|eapply Hb]; eauto. Qed.

Ltac nc := unfold no_close; intros ?d; cbn; intuition discriminate.

Lemma estep_no_close cfg st b st' n o : estep cfg st b = Step st' n o -> no_close o.
Proof.
  unfold estep. destruct (e_phase st); try discriminate.
  - destruct (negb (e_rev_sent st)).
    + destruct (length b <? 10)%nat; [discriminate|]. destruct (_ && _); intros; inv_step; nc.
    + destruct (e_version st) as [[|]|]; try discriminate.
      * destruct (length b <? 64)%nat; [discriminate|].
        destruct (greeting_decode _) as [[fld ?]|]; [|intros; inv_step; nc].
        destruct (negotiate cfg fld); [|intros; inv_step; nc].
        destruct (mech_complete _); [destruct (c_server cfg)|]; intros; inv_step; nc.
      * destruct (length b <? 11)%nat; [discriminate|].
        destruct (3 <=? nth 10 b 0); [intros; inv_step; nc|].
        destruct (nth 10 b 0 =? 1); [|intros; inv_step; nc].
        destruct (negb (c_allow_v2 cfg)); [intros; inv_step; nc|].
        destruct (c_sec_enabled cfg); [intros; inv_step; nc|].
        destruct (length b <? 12)%nat; [discriminate|].
        destruct (negb (v2_compat _ _)); [intros; inv_step; nc|].
        destruct (stype_code _); intros; inv_step; nc.
  - destruct (m_produce cfg (e_mech st)) as [m' [ | tok | ]]; try (intros; inv_step; nc).
    destruct (mech_complete (e_mech st)); [destruct (c_server cfg); intros; inv_step; nc|].
    destruct (dec_buffer (c_maxsz cfg) b) as [| | |f k]; try discriminate; try (intros; inv_step; nc).
    destruct (m_process cfg (e_mech st) (f_payload f)) as [m'' [e|]]; [intros; inv_step; nc|].
    destruct (mech_is_error m''); intros; inv_step; nc.
  - destruct (dec_buffer (c_maxsz cfg) b) as [| | |f k]; try discriminate; try (intros; inv_step; nc).
    destruct (parse_cmd f); try destruct (ready_incompatible _ _); try (intros; inv_step; nc).
    intros; inv_step. unfold no_close, cork_out. intros d. destruct (c_server cfg); destruct (_ && _); cbn; intuition discriminate.
  - destruct (negb (e_v2_sent st)); try (intros; inv_step; nc).
    destruct (dec_buffer (c_maxsz cfg) b) as [| | |f k]; try discriminate; try (intros; inv_step; nc).
    destruct (f_cmd f || f_more f); [intros; inv_step; nc|].
    destruct (255 <? length (f_payload f))%nat; [intros; inv_step; nc|].
    intros; inv_step. unfold no_close, cork_out. intros d. destruct (_ && _); cbn; intuition discriminate.
  - destruct (dec_buffer (c_maxsz cfg) b) as [| | |f k]; try discriminate; try (intros; inv_step; nc).
    destruct (f_cmd f).
    + destruct (e_version st) as [[|]|]; try (intros; inv_step; nc);
        destruct (parse_cmd f); try destruct (ready_incompatible _ _); intros; inv_step; nc.
    + destruct (MAX_FRAMES <=? length (e_partial st))%nat; [intros; inv_step; nc|].
      destruct (f_more f); intros; inv_step; nc.
Qed.

Lemma Run_no_close cfg st b st' r o : Run (estep cfg) st b st' r o -> no_close o.
Proof.
  induction 1 as [|s b0 s1 n o1 s2 r0 o2 Hs HR IH]; [nc|].
  apply no_close_app; auto. eapply estep_no_close; eauto.
Qed.

Lemma e_net_no_close cfg g d t : no_close (snd (e_net cfg g d t)).
Proof.
  unfold e_net.
  pose proof (sk_pump_Run (engine_ok cfg) (g_st g) (g_acc g ++ d)) as HR.
  destruct (pump (estep cfg) emu EMU_MAX (g_st g) (g_acc g ++ d)) as [[st' r] o]. cbn [snd].
  pose proof (Run_no_close _ _ _ _ _ _ HR) as H. unfold no_close, visible in *.
  intros d0 Hin. apply filter_In in Hin. eapply H. apply Hin.
Qed.

Lemma no_close_some o : no_close o -> close_some o = false.
Proof.
  intros H. unfold close_some. apply not_true_is_false. intros E. apply existsb_exists in E.
  destruct E as (x & Hx & Hm). destruct x; try discriminate. eapply H. exact Hx.
Qed.
Lemma no_close_none o : no_close o -> close_none o = false.
Proof.
  intros H. unfold close_none. apply not_true_is_false. intros E. apply existsb_exists in E.
  destruct E as (x & Hx & Hm). destruct x; try discriminate. eapply H. exact Hx.
Qed.
Lemma no_panic_has o : no_panic o -> UringShell.has_panic o = false.
Proof.
  intros H. unfold UringShell.has_panic. apply not_true_is_false. intros E. apply existsb_exists in E.
  destruct E as (x & Hx & Hm). destruct x; try discriminate. apply H. exact Hx.
Qed.

(* ---------- the delivery path inside one read ---------- *)
Lemma deliver_all_conserves : forall ms s rs, forallb res_open rs = true ->
  let '(s1, o, _) := deliver_all s ms rs in
  o ++ s_q s1 = s_q s ++ ms /\ s_closing s1 = s_closing s /\ s_deadline s1 = s_deadline s.
Proof.
  induction ms as [|m ms IH]; intros s rs Hrs.
  - cbn. rewrite app_nil_r. auto.
  - cbn [deliver_all].
    assert (Hr : res_open (hd TFull rs) = true) by (destruct rs; [reflexivity|cbn in *; apply andb_true_iff in Hrs; tauto]).
    assert (Ht : forallb res_open (tl rs) = true) by (destruct rs; [reflexivity|cbn in *; apply andb_true_iff in Hrs; tauto]).
    pose proof (sp_step_conserves s (SDeliver m (hd TFull rs)) Hr) as H1.
    pose proof (sp_step_closing s (SDeliver m (hd TFull rs)) ltac:(reflexivity)) as H2.
    cbn [sp_step ev_msgs] in H1, H2.
    assert (H3 : s_deadline (fst (sp_deliver s m (hd TFull rs))) = s_deadline s).
    { unfold sp_deliver. destruct (s_attached s); [|reflexivity]. destruct (s_q s); [destruct (hd TFull rs)|]; reflexivity. }
    destruct (sp_deliver s m (hd TFull rs)) as [s1 o1]. cbn [fst snd] in *.
    specialize (IH s1 (tl rs) Ht). destruct (deliver_all s1 ms (tl rs)) as [[s2 o2] c2].
    destruct IH as (I1 & I2 & I3). repeat split; try congruence.
    rewrite <- app_assoc, I1, app_assoc, H1, <- app_assoc. reflexivity.
Qed.

(* ---------- simulation: both shells make the same decisions for the same peer bytes ---------- *)
Definition plain_run (tick : bool) (is : list uin) : bool :=
  forallb (if tick then uin_plain_tick else uin_plain) is.

Lemma e_tick_disabled cfg g t :
  c_hb_ivl cfg = None -> h_last_ping (g_hb g) = None -> e_tick cfg g t = (g, []).
Proof.
  intros Hi Hp. unfold e_tick. destruct (e_phase (g_st g)); try reflexivity.
  destruct (e_version (g_st g)) as [[|]|]; try reflexivity;
    rewrite Hp, Hi; destruct (c_hb_timeout cfg); reflexivity.
Qed.
Lemma e_net_last_ping cfg g d t : h_last_ping (g_hb (fst (e_net cfg g d t))) = h_last_ping (g_hb g).
Proof. unfold e_net. destruct (pump _ _ _ _ _) as [[st r] o]. reflexivity. Qed.

Ltac split4 := split; [|split; [|split; [|split]]].
Ltac split3 := split; [|split; [|split]].
Ltac split3' := split; [|split].

(* what relates the two shells: while the tokio session is alive both hold the same engine and the handler is not
   closing; once the session has given up (fatal error) the handler is closing or its engine is Closed - since the
   PeerError arm no longer sets is_closing itself, the handler may still be handed reads before the worker's
   close_initiated pass, and a Closed engine ignores them *)
Definition sim_inv (h : ush) (k : tsh) : Prop :=
  if t_fatal k then s_closing (u_sp h) = true \/ e_phase (g_st (u_eng h)) = PClosed
  else u_eng h = t_eng k /\ s_closing (u_sp h) = false.

Lemma sim_inv_same h h1 k :
  u_eng h1 = u_eng h -> s_closing (u_sp h1) = s_closing (u_sp h) -> sim_inv h k -> sim_inv h1 k.
Proof. unfold sim_inv. intros -> ->. auto. Qed.

Section Sim.
Variable cfg : ecfg.
(* `tick = true`: heartbeat ticks may occur, but the heartbeat is switched off in the configuration *)
Variable tick : bool.
Hypothesis tick_off : tick = true -> c_hb_ivl cfg = None.

Lemma shell_sim : forall is h k,
  plain_run tick is = true ->
  u_dead h = false -> sim_inv h k ->
  h_last_ping (g_hb (u_eng h)) = None ->
  let '(h', l) := u_run cfg h is in
  let k' := t_run cfg k (peer_of is) in
  u_dead h' = false /\ sim_inv h' k' /\
  exists D, t_ingress k' = t_ingress k ++ D /\ s_q (u_sp h) ++ D = l_pipe l ++ s_q (u_sp h') /\
  t_ctrl k' = t_ctrl k ++ l_ctrl l.
Proof.
  induction is as [|i is IH]; intros h k Hp Hd Hs Hlp.
  - cbn. split; [|split]; auto. exists []. rewrite !app_nil_r. auto.
  - unfold plain_run in Hp. cbn [forallb] in Hp. apply andb_true_iff in Hp. destruct Hp as [Hi Hp].
    cbn [u_run peer_of map concat]. fold (peer_of is).
    assert (Hstep : let '(h1, o1) := u_step cfg h i in
              let k1 := t_run cfg k (to_sin i) in
              u_dead h1 = false /\ sim_inv h1 k1 /\
              h_last_ping (g_hb (u_eng h1)) = None /\
              exists D, t_ingress k1 = t_ingress k ++ D /\ s_q (u_sp h) ++ D = uo_pipe o1 ++ s_q (u_sp h1) /\
              t_ctrl k1 = t_ctrl k ++ uo_ctrl o1).
    { unfold u_step. rewrite Hd.
      destruct i as [|d t rs| | | |rs dd|dr| | |t|]; cbn [to_sin t_run];
        try (destruct tick; cbn in Hi; discriminate).
      - (* UStart *) split; [first [reflexivity|exact Hd]|]; split; [exact Hs|]; split; [exact Hlp|]. exists []. cbn. rewrite !app_nil_r. auto.
      - (* UNet *)
        assert (Hrs : forallb res_open rs = true) by (destruct tick; exact Hi).
        unfold t_step. unfold sim_inv in Hs. destruct (t_fatal k) eqn:Ef.
        + (* the session has already given up *)
          destruct (s_closing (u_sp h)) eqn:Ecl.
          * split; [first [reflexivity|exact Hd]|]; split; [unfold sim_inv; rewrite Ef; left; exact Ecl|]; split; [first [exact Hlp|congruence|cbn; congruence]|].
            exists []. cbn. rewrite !app_nil_r. auto.
          * destruct Hs as [Hs|Hs]; [discriminate|].
            destruct (e_net_closed cfg (u_eng h) d t Hs) as [Ho Hph].
            pose proof (e_net_last_ping cfg (u_eng h) d t) as Hl.
            destruct (e_net cfg (u_eng h) d t) as [g' o]. cbn [fst snd] in *. subst o.
            cbn [UringShell.has_panic existsb]. unfold u_apply.
            cbn [close_some close_none existsb deliveries map concat deliver_all has_err ctrls sends filter app].
            cbn [u_eng u_sp u_dead uo_pipe uo_ctrl].
            split; [first [reflexivity|exact Hd]|]; split; [unfold sim_inv; rewrite Ef; right; exact Hph|]; split; [first [exact Hlp|congruence|cbn; congruence]|].
            exists []. cbn. rewrite !app_nil_r. auto.
        + destruct Hs as [He Hc]. rewrite Hc. rewrite <- He.
          pose proof (e_net_no_close cfg (u_eng h) d t) as Hnc.
          pose proof (e_input_no_panic cfg (u_eng h) (INet d t)) as Hnp. cbn [e_input] in Hnp.
          pose proof (e_net_last_ping cfg (u_eng h) d t) as Hl.
          pose proof (e_net_err_closed cfg (u_eng h) d t) as Hec.
          destruct (e_net cfg (u_eng h) d t) as [g' o]. cbn [fst snd] in *.
          rewrite (no_panic_has o Hnp). unfold u_apply. rewrite (no_close_some o Hnc), (no_close_none o Hnc).
          pose proof (deliver_all_conserves (deliveries o) (u_sp h) rs Hrs) as Hda.
          destruct (deliver_all (u_sp h) (deliveries o) rs) as [[sp1 piped] pc].
          destruct Hda as (D1 & D2 & D3). cbn [u_eng u_sp u_dead uo_pipe uo_ctrl t_absorb t_eng t_fatal t_ingress t_ctrl].
          split; [first [reflexivity|exact Hd]|]; split; [|split; [congruence|]].
          * unfold sim_inv, t_absorb. cbn [t_fatal t_eng u_eng u_sp]. destruct (has_err o); cbv beta iota.
            { right. apply Hec. reflexivity. }
            { split; [reflexivity|congruence]. }
          * exists (deliveries o). split; [reflexivity|]. split; [|reflexivity]. symmetry; exact D1.
      - (* UAttach *) split; [first [reflexivity|exact Hd]|]; split; [eapply sim_inv_same; [| |exact Hs]; reflexivity|]; split; [first [exact Hlp|congruence|cbn; congruence]|].
        exists []. cbn. rewrite !app_nil_r. auto.
      - (* UResume *) split; [first [reflexivity|exact Hd]|]; split; [eapply sim_inv_same; [| |exact Hs]; reflexivity|]; split; [first [exact Hlp|congruence|cbn; congruence]|].
        exists []. cbn. rewrite !app_nil_r. auto.
      - (* UPrepare *)
        assert (Hrs : forallb res_open rs = true) by (destruct tick; exact Hi).
        pose proof (sp_step_conserves (u_sp h) (SPrepare rs dd) Hrs) as H1.
        pose proof (sp_step_closing (u_sp h) (SPrepare rs dd) ltac:(reflexivity)) as H2.
        cbn [sp_step ev_msgs] in H1, H2. destruct (sp_prepare (u_sp h) rs dd) as [sp1 piped].
        cbn [fst snd] in *. cbn [u_eng u_sp u_dead uo_pipe uo_ctrl].
        split; [first [reflexivity|exact Hd]|]; split; [eapply sim_inv_same; [| |exact Hs]; [reflexivity|exact H2]|]; split; [first [exact Hlp|congruence|cbn; congruence]|].
        exists []. rewrite !app_nil_r in *. auto.
      - (* UPoll *)
        pose proof (sp_step_conserves (u_sp h) (SPoll dr) ltac:(reflexivity)) as H1.
        pose proof (sp_step_closing (u_sp h) (SPoll dr) ltac:(reflexivity)) as H2.
        cbn [sp_step ev_msgs fst snd] in H1, H2. cbn [u_eng u_sp u_dead uo_pipe uo_ctrl uo_nil].
        split; [first [reflexivity|exact Hd]|]; split; [eapply sim_inv_same; [| |exact Hs]; [reflexivity|exact H2]|]; split; [first [exact Hlp|congruence|cbn; congruence]|].
        exists []. rewrite !app_nil_r in *. cbn. auto.
      - (* UTick: only when tick = true, and then the heartbeat is off *)
        destruct tick eqn:Et; [|cbn in Hi; discriminate].
        unfold t_step. unfold sim_inv in Hs. destruct (t_fatal k) eqn:Ef.
        + split; [first [reflexivity|exact Hd]|]; split; [unfold sim_inv; rewrite Ef; exact Hs|]; split; [first [exact Hlp|congruence|cbn; congruence]|]. exists []. cbn. rewrite !app_nil_r. auto.
        + destruct Hs as [He Hc]. rewrite <- He, (e_tick_disabled cfg (u_eng h) t (tick_off eq_refl) Hlp).
          unfold t_absorb. cbn [has_err existsb deliveries ctrls map concat sends filter].
          rewrite !app_nil_r. cbn [t_eng t_fatal t_ingress t_ctrl].
          split; [first [reflexivity|exact Hd]|]; split; [unfold sim_inv; cbn [t_fatal t_eng]; split; auto|]; split; [first [exact Hlp|congruence|cbn; congruence]|]. exists []. cbn. rewrite !app_nil_r. auto. }
    destruct (u_step cfg h i) as [h1 o1].
    destruct Hstep as (S1 & S2 & S4 & D & S5 & S6 & S7).
    assert (Hrun : forall l0 k0, t_run cfg k0 (l0 ++ peer_of is) = t_run cfg (t_run cfg k0 l0) (peer_of is)).
    { clear. induction l0 as [|x l0 IHl]; intros k0; [reflexivity|]. cbn. apply IHl. }
    rewrite Hrun.
    specialize (IH h1 (t_run cfg k (to_sin i)) Hp S1 S2 S4).
    destruct (u_run cfg h1 is) as [h2 l]. cbn zeta in IH.
    destruct IH as (I1 & I2 & D' & I4 & I5 & I6).
    split; [|split]; auto.
    exists (D ++ D'). cbn [l_pipe l_ctrl]. split; [|split].
    + rewrite I4, S5, app_assoc. reflexivity.
    + rewrite app_assoc, S6, <- !app_assoc, I5. reflexivity.
    + rewrite I6, S7, app_assoc. reflexivity.
Qed.
End Sim.

(* closed form of the tokio shell over network reads: everything is a function of the byte stream *)
Lemma t_run_nets cfg : forall cs k,
  t_fatal k = false \/ e_phase (g_st (t_eng k)) = PClosed ->
  let '(g', o) := nets cfg (t_eng k) cs in
  let k' := t_run cfg k (map (fun '(d, t) => SNet d t) cs) in
  t_ingress k' = t_ingress k ++ deliveries o /\ t_ctrl k' = t_ctrl k ++ ctrls o.
Proof.
  induction cs as [|[d t] cs IH]; intros k Hf.
  - cbn. rewrite !app_nil_r. auto.
  - cbn [nets map t_run].
    destruct (t_fatal k) eqn:Ef.
    + assert (Hst : t_step cfg k (SNet d t) = k) by (unfold t_step; rewrite Ef; reflexivity).
      rewrite Hst. clear Hst.
      destruct Hf as [Hf|Hcl]; [discriminate|].
      destruct (e_net_closed cfg (t_eng k) d t Hcl) as [Ho Hp].
      destruct (e_net cfg (t_eng k) d t) as [g1 o1]. cbn [fst snd] in *. subst o1.
      assert (forall cs g, e_phase (g_st g) = PClosed -> snd (nets cfg g cs) = []) as Hnone.
      { clear. induction cs as [|[d t] cs IH]; intros g Hc; [reflexivity|].
        cbn [nets]. destruct (e_net_closed cfg g d t Hc) as [Ho Hp].
        destruct (e_net cfg g d t) as [g1 o1]. cbn [fst snd] in *. subst.
        specialize (IH g1 Hp). destruct (nets cfg g1 cs). cbn [snd] in *. exact IH. }
      pose proof (Hnone cs g1 Hp) as H1. pose proof (Hnone cs (t_eng k) Hcl) as H2.
      specialize (IH k (or_intror Hcl)).
      destruct (nets cfg g1 cs) as [g2 o2]. destruct (nets cfg (t_eng k) cs) as [g3 o3].
      cbn [snd app] in *. subst. exact IH.
    + assert (Hst : t_step cfg k (SNet d t) = let '(g', o) := e_net cfg (t_eng k) d t in t_absorb k g' o)
        by (unfold t_step; rewrite Ef; reflexivity).
      rewrite Hst. clear Hst.
      pose proof (e_net_err_closed cfg (t_eng k) d t) as Hcl.
      destruct (e_net cfg (t_eng k) d t) as [g1 o1]. cbn [fst snd] in Hcl.
      specialize (IH (t_absorb k g1 o1)). cbn [t_absorb t_eng t_fatal t_ingress t_ctrl] in IH.
      destruct (nets cfg g1 cs) as [g2 o2].
      destruct IH as [I1 I2]; [destruct (has_err o1); [right; auto|left; reflexivity]|].
      unfold deliveries, ctrls in *. rewrite !map_app, !concat_app. rewrite I1, I2, <- !app_assoc. auto.
Qed.

Definition reads_of (is : list uin) : list (bytes * N) :=
  concat (map (fun i => match i with UNet d t _ => [(d, t)] | _ => [] end) is).

Lemma peer_of_reads : forall is, forallb uin_plain is = true ->
  peer_of is = map (fun '(d, t) => SNet d t) (reads_of is) /\ concat (map fst (reads_of is)) = bytes_of is.
Proof.
  induction is as [|i is IH]; intros H; [split; reflexivity|].
  cbn [forallb] in H. apply andb_true_iff in H. destruct H as [Hi H]. destruct (IH H) as [I1 I2].
  unfold peer_of, reads_of, bytes_of in *. cbn [map concat].
  destruct i; cbn in Hi; try discriminate; cbn [to_sin app map concat fst]; rewrite ?I1, ?I2; split; reflexivity.
Qed.

(* backend_equiv *)
Theorem backend_equiv_thm : forall cfg t is,
  forallb uin_plain is = true ->
  let '(h, l) := u_run cfg (u_new t) is in
  let k := t_run cfg (t_new t) (peer_of is) in
  let o := snd (e_net cfg (e_new t) (bytes_of is) 0) in
  (* delivered messages: what has entered the socket's pipe, followed by what is stashed for it *)
  l_pipe l ++ s_q (u_sp h) = t_ingress k /\ t_ingress k = deliveries o /\
  (* handshake outcome and error class reported to the socket *)
  l_ctrl l = t_ctrl k /\ t_ctrl k = ctrls o /\
  sim_inv h k.
Proof.
  intros cfg t is Hp.
  pose proof (shell_sim cfg false (fun H => False_ind _ (Bool.diff_false_true H)) is (u_new t) (t_new t) Hp eq_refl (conj eq_refl eq_refl) eq_refl) as HS.
  destruct (u_run cfg (u_new t) is) as [h l]. cbn zeta in HS.
  destruct HS as (_ & S3 & D & S4 & S5 & S6). cbn [t_new t_ingress t_ctrl u_new u_sp sp_init s_q app] in S4, S5, S6.
  destruct (peer_of_reads is Hp) as [P1 P2].
  pose proof (t_run_nets cfg (reads_of is) (t_new t) (or_introl eq_refl)) as HT.
  cbn [t_new t_eng t_ingress t_ctrl app] in HT.
  pose proof (engine_chunk_independent cfg (e_new t) (reads_of is) [(concat (map fst (reads_of is)), 0)]
                (e_new_quiescent cfg t)) as HI.
  cbn [map fst concat] in HI. rewrite app_nil_r in HI. specialize (HI eq_refl).
  destruct (nets cfg (e_new t) (reads_of is)) as [g1 o1].
  cbn [nets] in HI. rewrite P2 in HI. destruct (e_net cfg (e_new t) (bytes_of is) 0) as [g2 o2].
  rewrite app_nil_r in HI. destruct HI as (_ & _ & ->). cbn [snd].
  rewrite <- P1 in HT. destruct HT as [T1 T2].
  repeat split; try congruence.
Qed.

(* with the heartbeat switched off, ticks do not separate the backends either *)
Theorem backend_equiv_ticks_thm : forall cfg t is,
  c_hb_ivl cfg = None -> forallb uin_plain_tick is = true ->
  let '(h, l) := u_run cfg (u_new t) is in
  let k := t_run cfg (t_new t) (peer_of is) in
  l_pipe l ++ s_q (u_sp h) = t_ingress k /\ l_ctrl l = t_ctrl k /\ sim_inv h k.
Proof.
  intros cfg t is Hoff Hp.
  pose proof (shell_sim cfg true (fun _ => Hoff) is (u_new t) (t_new t) Hp eq_refl (conj eq_refl eq_refl) eq_refl) as HS.
  destruct (u_run cfg (u_new t) is) as [h l]. cbn zeta in HS.
  destruct HS as (_ & S3 & D & S4 & S5 & S6). cbn [t_new t_ingress t_ctrl u_new u_sp sp_init s_q app] in S4, S5, S6.
  repeat split; congruence.
Qed.

(* ---------- configurations in which the two shells are NOT equivalent ---------- *)
Definition hb_cfg : ecfg :=
  {| c_server := true; c_stype := s_PULL; c_rid := None; c_sec_enabled := false; c_allow_v2 := true;
     c_use_plain := false; c_use_curve := false; c_use_noise := false; c_plain_user := None; c_plain_pass := None;
     c_opaque_ok := false; c_hb_ivl := Some 100000000; c_hb_timeout := Some 300000000; c_cork := false; c_zc := false;
     c_maxsz := (-1)%Z |}.
(* the peer completes the handshake, sends one message and then stays silent; ticks at 200 ms and 600 ms *)
Definition hb_history : list uin := [UNet legacy_witness_stream 0 [TOk]; UTick 200000000; UTick 600000000].

Definition is_ping (x : eout) : bool :=
  match x with OSend b _ => match b with 4 :: _ :: 4 :: 80 :: 73 :: 78 :: 71 :: _ => true | _ => false end | _ => false end.

Theorem heartbeat_refuted_thm :
  let k := t_run hb_cfg (t_new 0) (peer_of hb_history) in
  let '(h, l) := u_run hb_cfg (u_new 0) hb_history in
  (* tokio: PING on the wire, then Timeout and the connection is given up *)
  existsb is_ping (t_net k) = true /\ t_ctrl k = [KEstablished None; KError ETimeout] /\ t_fatal k = true /\
  (* io_uring: no PING, no error, connection kept *)
  existsb is_ping (l_net l) = false /\ l_ctrl l = [KEstablished None] /\ s_closing (u_sp h) = false /\
  (* deliveries are the same *)
  l_pipe l ++ s_q (u_sp h) = t_ingress k.
Proof. vm_compute. repeat split. Qed.

Theorem handshake_timeout_refuted_thm : forall cfg,
  let k := t_run cfg (t_new 0) (peer_of [UHsTimeout]) in
  let '(h, l) := u_run cfg (u_new 0) [UHsTimeout] in
  t_ctrl k = [KError ETimeout] /\ t_fatal k = true /\
  l_ctrl l = [] /\ s_closing (u_sp h) = false.
Proof. intros cfg. vm_compute. repeat split. Qed.
