(* FrameBatch as a list: every operation either panics - exactly at the stated condition - or acts as the
   corresponding list operation on `fb_list`. *)
From RZ Require Import Base.Prelude Model.FrameBatch.

Global Opaque VEC_MAX.
Lemma vec_max_eq : VEC_MAX = 255%nat.
Proof. reflexivity. Qed.
Ltac vmax := rewrite ?vec_max_eq in *.

Section P.
Context {A : Type}.
Implicit Types (b : fb A) (v l xs : list A) (x : A).

Lemma bind_ok {X Y} (o : out X) (f : X -> out Y) y :
  bind o f = Ok y -> exists z, o = Ok z /\ f z = Ok y.
Proof. destruct o; cbn; [eauto | discriminate]. Qed.
Lemma bind_panic {X Y} (o : out X) (f : X -> out Y) :
  bind o f = Panic <-> o = Panic \/ exists z, o = Ok z /\ f z = Panic.
Proof.
  destruct o; cbn; split; intros H; eauto.
  - destruct H as [H | (x0 & [= <-] & H)]; [discriminate | exact H].
Qed.

(* ---------------------------------------------------------------- VecU8 *)
Lemma vec_push_ok v x : (length v < 255)%nat -> vec_push v x = Ok (v ++ [x]).
Proof. intros H. unfold vec_push. vmax. destruct (length v =? 255)%nat eqn:E; [apply Nat.eqb_eq in E; lia | reflexivity]. Qed.
Lemma vec_push_panic v x : length v = 255%nat -> vec_push v x = Panic.
Proof. intros H. unfold vec_push. vmax. rewrite H. reflexivity. Qed.
Lemma vec_with_capacity_ok n : (n <= 255)%nat -> @vec_with_capacity A n = Ok [].
Proof. intros H. unfold vec_with_capacity. vmax. destruct (255 <? n)%nat eqn:E; [apply Nat.ltb_lt in E; lia | reflexivity]. Qed.
Lemma vec_with_capacity_panic n : (255 < n)%nat -> @vec_with_capacity A n = Panic.
Proof. intros H. unfold vec_with_capacity. vmax. apply Nat.ltb_lt in H. rewrite H. reflexivity. Qed.

Lemma vec_push_all_ok xs : forall v, (length v + length xs <= 255)%nat -> vec_push_all v xs = Ok (v ++ xs).
Proof.
  induction xs as [|x t IH]; intros v H; cbn [vec_push_all].
  - rewrite app_nil_r. reflexivity.
  - cbn [length] in H. rewrite vec_push_ok by lia. cbn [bind]. rewrite IH.
    + rewrite <- app_assoc. reflexivity.
    + rewrite app_length. cbn [length]. lia.
Qed.

(* ---------------------------------------------------------------- well-formedness *)
Lemma fb_wf_le b : fb_wf b <-> (length (fb_list b) <= 255)%nat.
Proof. unfold fb_wf. vmax. tauto. Qed.
Lemma fb_len_list b : fb_len b = length (fb_list b).
Proof. reflexivity. Qed.

Lemma demote_list v : fb_list (demote v) = v.
Proof. destruct v as [|a [|c [|d t]]]; reflexivity. Qed.

(* ---------------------------------------------------------------- push *)
Lemma fb_push_ok b x : (length (fb_list b) < 255)%nat ->
  exists b', fb_push b x = Ok b' /\ fb_list b' = fb_list b ++ [x].
Proof.
  intros H. destruct b as [|a|a c|v]; cbn [fb_push fb_list] in *.
  - eexists; split; reflexivity.
  - eexists; split; reflexivity.
  - rewrite vec_with_capacity_ok by lia. cbn [bind].
    rewrite vec_push_ok by (cbn; lia). cbn [bind app].
    rewrite vec_push_ok by (cbn; lia). cbn [bind app].
    rewrite vec_push_ok by (cbn; lia). cbn [bind app].
    eexists; split; reflexivity.
  - rewrite vec_push_ok by exact H. cbn [bind]. eexists; split; reflexivity.
Qed.
Lemma fb_push_panic b x : length (fb_list b) = 255%nat -> fb_push b x = Panic.
Proof.
  intros H. destruct b as [|a|a c|v]; cbn [fb_push fb_list length] in *; try lia.
  rewrite vec_push_panic by exact H. reflexivity.
Qed.
(* the exact panic condition of push *)
Lemma fb_push_panic_iff b x : fb_wf b -> (fb_push b x = Panic <-> length (fb_list b) = 255%nat).
Proof.
  intros W. apply (proj1 (fb_wf_le b)) in W. split.
  - intros P. destruct (Nat.eq_dec (length (fb_list b)) 255) as [E|E]; [exact E|].
    destruct (fb_push_ok b x) as (b' & Hb & _); [lia | congruence].
  - apply fb_push_panic.
Qed.

(* ---------------------------------------------------------------- extend *)
Lemma fb_extend_ok xs : forall b, (length (fb_list b) + length xs <= 255)%nat ->
  exists b', fb_extend b xs = Ok b' /\ fb_list b' = fb_list b ++ xs.
Proof.
  induction xs as [|x t IH]; intros b H; cbn [fb_extend].
  - exists b. rewrite app_nil_r. auto.
  - cbn [length] in H. destruct (fb_push_ok b x) as (b1 & -> & L1); [lia|]. cbn [bind].
    destruct (IH b1) as (b2 & -> & L2).
    + rewrite L1, app_length. cbn [length]. lia.
    + exists b2. split; [reflexivity|]. rewrite L2, L1, <- app_assoc. reflexivity.
Qed.
Lemma fb_extend_panic xs : forall b, fb_wf b -> (255 < length (fb_list b) + length xs)%nat ->
  fb_extend b xs = Panic.
Proof.
  induction xs as [|x t IH]; intros b W H; cbn [fb_extend].
  - apply (proj1 (fb_wf_le b)) in W. cbn [length] in H. lia.
  - pose proof (proj1 (fb_wf_le b) W) as W'.
    destruct (Nat.eq_dec (length (fb_list b)) 255) as [E|E].
    + rewrite fb_push_panic by exact E. reflexivity.
    + destruct (fb_push_ok b x) as (b1 & -> & L1); [lia|]. cbn [bind]. apply IH.
      * apply (proj2 (fb_wf_le b1)). rewrite L1, app_length. cbn [length]. lia.
      * rewrite L1, app_length. cbn [length] in *. lia.
Qed.

(* ---------------------------------------------------------------- From<Vec<Msg>> *)
Lemma fb_from_vec_ok xs : (length xs <= 255)%nat -> exists b, fb_from_vec xs = Ok b /\ fb_list b = xs.
Proof.
  intros H. destruct xs as [|a [|c [|d t]]]; try (eexists; split; reflexivity).
  unfold fb_from_vec. rewrite vec_with_capacity_ok by exact H. cbn [bind].
  rewrite vec_push_all_ok by (cbn [length app] in *; lia). cbn [bind app].
  eexists; split; reflexivity.
Qed.
Lemma fb_from_vec_panic xs : (255 < length xs)%nat -> fb_from_vec xs = Panic.
Proof.
  intros H. destruct xs as [|a [|c [|d t]]]; cbn [length] in H; try lia.
  unfold fb_from_vec. rewrite vec_with_capacity_panic by (cbn [length]; lia). reflexivity.
Qed.
Lemma fb_from_vec_panic_iff xs : fb_from_vec xs = Panic <-> (255 < length xs)%nat.
Proof.
  split; [|apply fb_from_vec_panic].
  intros P. destruct (le_lt_dec (length xs) 255) as [L|L]; [|exact L].
  destruct (fb_from_vec_ok xs L) as (b & Hb & _). congruence.
Qed.
Lemma fb_from_vec_nonempty xs b : fb_from_vec xs = Ok b -> fb_is_empty b = match xs with [] => true | _ => false end.
Proof.
  destruct xs as [|a [|c [|d t]]]; cbn; try (intros [= <-]; reflexivity).
  intros H. apply bind_ok in H. destruct H as (v0 & _ & H). apply bind_ok in H. destruct H as (v & _ & [= <-]). reflexivity.
Qed.

(* ---------------------------------------------------------------- with_capacity *)
Lemma fb_with_capacity_ok n : (n <= 255)%nat -> exists b, @fb_with_capacity A n = Ok b /\ fb_list b = [].
Proof.
  intros H. unfold fb_with_capacity. destruct (n <=? 2)%nat; [eexists; split; reflexivity|].
  rewrite vec_with_capacity_ok by exact H. eexists; split; reflexivity.
Qed.
Lemma fb_with_capacity_panic n : (255 < n)%nat -> @fb_with_capacity A n = Panic.
Proof.
  intros H. unfold fb_with_capacity. destruct (n <=? 2)%nat eqn:E; [apply Nat.leb_le in E; lia|].
  rewrite vec_with_capacity_panic by exact H. reflexivity.
Qed.

(* ---------------------------------------------------------------- insert / remove / pop *)
Lemma firstn_skipn_len i x l : (i <= length l)%nat -> length (firstn i l ++ x :: skipn i l) = S (length l).
Proof. intros H. rewrite app_length, firstn_length_le by exact H. cbn [length]. rewrite skipn_length. lia. Qed.

Lemma fb_insert_ok i x b : (i <= length (fb_list b))%nat -> (length (fb_list b) < 255)%nat ->
  exists b', fb_insert i x b = Ok b' /\ fb_list b' = firstn i (fb_list b) ++ x :: skipn i (fb_list b).
Proof.
  intros Hi Hl. destruct b as [|a|a c|v]; cbn [fb_insert fb_list length] in *.
  - assert (i = 0)%nat as -> by lia. eexists; split; reflexivity.
  - destruct i as [|[|i]]; [| |lia]; eexists; split; reflexivity.
  - destruct i as [|[|[|i]]]; [| | |lia]; eexists; split; reflexivity.
  - unfold vec_insert. vmax.
    destruct (length v <? i)%nat eqn:E1; [apply Nat.ltb_lt in E1; lia|].
    destruct (length v =? 255)%nat eqn:E2; [apply Nat.eqb_eq in E2; lia|].
    cbn [bind]. eexists; split; reflexivity.
Qed.
Lemma fb_insert_panic i x b : length (fb_list b) = 255%nat -> fb_insert i x b = Panic.
Proof.
  intros H. destruct b as [|a|a c|v]; cbn [fb_insert fb_list length] in *; try lia.
  unfold vec_insert. vmax. destruct (length v <? i)%nat; [reflexivity|]. rewrite H. reflexivity.
Qed.
Lemma fb_insert_range_panic i x b : (length (fb_list b) < i)%nat -> fb_insert i x b = Panic.
Proof.
  intros H. destruct b as [|a|a c|v]; cbn [fb_insert fb_list length] in *.
  - destruct i; [lia | reflexivity].
  - destruct i as [|[|i]]; [lia | lia | reflexivity].
  - destruct i as [|[|[|i]]]; [lia | lia | lia | reflexivity].
  - unfold vec_insert. apply Nat.ltb_lt in H. rewrite H. reflexivity.
Qed.

Lemma fb_remove_ok i b x : nth_error (fb_list b) i = Some x ->
  exists b', fb_remove i b = Ok (x, b') /\ fb_list b' = firstn i (fb_list b) ++ skipn (S i) (fb_list b).
Proof.
  intros H. destruct b as [|a|a c|v]; cbn [fb_remove fb_list] in *.
  - destruct i; discriminate.
  - destruct i as [|i]; [injection H as <-; eexists; split; reflexivity | destruct i; discriminate].
  - destruct i as [|[|i]]; [injection H as <- | injection H as <- | destruct i; discriminate];
      eexists; split; reflexivity.
  - unfold vec_remove. rewrite H. cbn [bind]. eexists; split; [reflexivity|]. apply demote_list.
Qed.
Lemma fb_remove_panic i b : (length (fb_list b) <= i)%nat -> fb_remove i b = Panic.
Proof.
  intros H. destruct b as [|a|a c|v]; cbn [fb_remove fb_list length] in *.
  - reflexivity.
  - destruct i; [lia | reflexivity].
  - destruct i as [|[|i]]; [lia | lia | reflexivity].
  - unfold vec_remove. apply nth_error_None in H. rewrite H. reflexivity.
Qed.
Lemma fb_remove0 f t b : fb_list b = f :: t -> exists b', fb_remove 0 b = Ok (f, b') /\ fb_list b' = t.
Proof.
  intros H. destruct (fb_remove_ok 0 b f) as (b' & E & L); [rewrite H; reflexivity|].
  exists b'. split; [exact E|]. rewrite L, H. reflexivity.
Qed.

Lemma vec_pop_spec v : vec_pop v = match rev v with [] => (None, v) | x :: r => (Some x, rev r) end.
Proof. reflexivity. Qed.
Lemma fb_pop_snoc b l x : fb_list b = l ++ [x] -> exists b', fb_pop b = (Some x, b') /\ fb_list b' = l.
Proof.
  intros H. destruct b as [|a|a c|v]; cbn [fb_pop fb_list] in *.
  - destruct l; discriminate.
  - destruct l as [|y l]; [injection H as <-; eexists; split; reflexivity|].
    destruct l; discriminate.
  - destruct l as [|y [|z l]]; try discriminate.
    + injection H as <- <-. eexists; split; reflexivity.
    + destruct l; discriminate.
  - unfold vec_pop. rewrite H, rev_app_distr. cbn [rev app]. rewrite rev_involutive.
    eexists; split; [reflexivity|]. apply demote_list.
Qed.
Lemma fb_pop_nil b : fb_list b = [] -> fst (fb_pop b) = None.
Proof. destruct b as [|a|a c|v]; cbn; try discriminate; [reflexivity|]. intros ->. reflexivity. Qed.


(* ---------------------------------------------------------------- soundness: whenever an operation answers Ok *)
Lemma fb_push_sound b x b' : fb_push b x = Ok b' -> fb_list b' = fb_list b ++ [x].
Proof.
  intros H. destruct b as [|a|a c|v].
  - injection H as <-. reflexivity.
  - injection H as <-. reflexivity.
  - destruct (fb_push_ok (FTwo a c) x) as (b1 & E & L); [cbn; lia|]. rewrite E in H. injection H as <-. exact L.
  - cbn [fb_push] in H. unfold vec_push in H. destruct (length v =? VEC_MAX)%nat; [discriminate|].
    cbn [bind] in H. injection H as <-. reflexivity.
Qed.
Lemma fb_extend_sound xs : forall b b', fb_extend b xs = Ok b' -> fb_list b' = fb_list b ++ xs.
Proof.
  induction xs as [|x t IH]; intros b b' H; cbn [fb_extend] in H.
  - injection H as <-. rewrite app_nil_r. reflexivity.
  - apply bind_ok in H. destruct H as (b1 & H1 & H2). apply fb_push_sound in H1. apply IH in H2.
    rewrite H2, H1, <- app_assoc. reflexivity.
Qed.
Lemma fb_with_capacity_sound n b : @fb_with_capacity A n = Ok b -> fb_list b = [].
Proof.
  unfold fb_with_capacity. destruct (n <=? 2)%nat; [intros [= <-]; reflexivity|].
  unfold vec_with_capacity. destruct (VEC_MAX <? n)%nat; [discriminate|]. cbn [bind]. intros [= <-]. reflexivity.
Qed.
Lemma fb_insert_sound i x b b' : fb_insert i x b = Ok b' ->
  fb_list b' = firstn i (fb_list b) ++ x :: skipn i (fb_list b).
Proof.
  intros H. destruct b as [|a|a c|v]; cbn [fb_insert fb_list] in *.
  - destruct i; [injection H as <-; reflexivity | discriminate].
  - destruct i as [|[|i]]; [injection H as <-; reflexivity | injection H as <-; reflexivity | discriminate].
  - destruct i as [|[|[|i]]]; try discriminate; injection H as <-; reflexivity.
  - unfold vec_insert in H. destruct (length v <? i)%nat; [discriminate|].
    destruct (length v =? VEC_MAX)%nat; [discriminate|]. cbn [bind] in H. injection H as <-. reflexivity.
Qed.
Lemma fb_remove_sound i b x b' : fb_remove i b = Ok (x, b') ->
  nth_error (fb_list b) i = Some x /\ fb_list b' = firstn i (fb_list b) ++ skipn (S i) (fb_list b).
Proof.
  intros H. destruct (nth_error (fb_list b) i) as [y|] eqn:E.
  - destruct (fb_remove_ok i b y E) as (b1 & E1 & L1). rewrite E1 in H. injection H as <- <-. auto.
  - apply nth_error_None in E. rewrite fb_remove_panic in H by exact E. discriminate.
Qed.
Lemma fb_from_vec_sound xs b : fb_from_vec xs = Ok b -> fb_list b = xs /\ (length xs <= 255)%nat.
Proof.
  intros H. destruct (le_lt_dec (length xs) 255) as [L|L].
  - destruct (fb_from_vec_ok xs L) as (b1 & E & L1). rewrite E in H. injection H as <-. auto.
  - rewrite fb_from_vec_panic in H by exact L. discriminate.
Qed.

(* ---------------------------------------------------------------- index / set *)
Lemma fb_index_ok b i x : nth_error (fb_list b) i = Some x -> fb_index b i = Ok x.
Proof. intros H. unfold fb_index. rewrite H. reflexivity. Qed.
Lemma fb_index0 b f t : fb_list b = f :: t -> fb_index b 0 = Ok f.
Proof. intros H. unfold fb_index. rewrite H. reflexivity. Qed.
Lemma fb_set_list b l : length l = length (fb_list b) -> fb_list (fb_set b l) = l.
Proof.
  destruct b as [|a|a c|v]; cbn [fb_set fb_list length].
  - destruct l; [reflexivity | discriminate].
  - destruct l as [|y [|z l]]; try discriminate. reflexivity.
  - destruct l as [|y [|z [|w l]]]; try discriminate. reflexivity.
  - reflexivity.
Qed.
Lemma fb_set_is_empty b l : fb_is_empty (fb_set b l) = fb_is_empty b.
Proof.
  destruct b as [|a|a c|v]; cbn; try reflexivity.
  - destruct l as [|y [|z l]]; reflexivity.
  - destruct l as [|y [|z [|w l]]]; reflexivity.
Qed.
Lemma fb_is_empty_list b : fb_is_empty b = true -> fb_list b = [].
Proof. destruct b; cbn; congruence. Qed.
(* combined statements *)
Lemma fb_push_spec b x : fb_wf b ->
  (fb_push b x = Panic <-> length (fb_list b) = 255%nat) /\
  (forall b', fb_push b x = Ok b' -> fb_list b' = fb_list b ++ [x]).
Proof. intros W. split; [exact (fb_push_panic_iff b x W) | exact (fb_push_sound b x)]. Qed.
Lemma fb_from_vec_spec xs :
  (fb_from_vec xs = Panic <-> (255 < length xs)%nat) /\ (forall b, fb_from_vec xs = Ok b -> fb_list b = xs).
Proof. split; [exact (fb_from_vec_panic_iff xs) | intros b H; exact (proj1 (fb_from_vec_sound xs b H))]. Qed.
Lemma fb_insert_spec i x b :
  (length (fb_list b) = 255%nat -> fb_insert i x b = Panic) /\
  (forall b', fb_insert i x b = Ok b' -> fb_list b' = firstn i (fb_list b) ++ x :: skipn i (fb_list b)).
Proof. split; [exact (fb_insert_panic i x b) | exact (fb_insert_sound i x b)]. Qed.
(* a batch obtained by pushes / From<Vec> / the engine is empty exactly when it holds no frame *)
Definition fb_canon b : Prop := fb_is_empty b = match fb_list b with [] => true | _ => false end.
End P.
