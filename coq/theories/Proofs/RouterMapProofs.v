(* Lemmas about Model/RouterMap.v: association-list facts, the ownership guard, the general
   invariant, what holds for every history (the latest claimant of an identity is reachable), exact
   correspondence with the specification under distinct identities, and the exact behaviour under
   colliding identities. *)
From RZ Require Import Base.Prelude Model.RouterMap.
Local Open Scope N_scope.

(* ------------------------------------------------------------------ association lists *)
Section AlistFacts.
  Context {K V : Type} (eqb : K -> K -> bool).
  Hypothesis eqb_eq : forall a b, eqb a b = true <-> a = b.

  Lemma eqb_refl' a : eqb a a = true.
  Proof. apply eqb_eq. reflexivity. Qed.
  Lemma eqb_neq a b : a <> b -> eqb a b = false.
  Proof. intros H. destruct (eqb a b) eqn:E; [|reflexivity]. apply eqb_eq in E. contradiction. Qed.

  Lemma aget_aremove_eq k (l : list (K * V)) : aget eqb k (aremove eqb k l) = None.
  Proof.
    induction l as [|[k' v] t IH]; simpl; [reflexivity|].
    destruct (eqb k k') eqn:E; [exact IH|]. simpl. rewrite E. exact IH.
  Qed.
  Lemma aget_aremove_neq k k' (l : list (K * V)) : k <> k' -> aget eqb k (aremove eqb k' l) = aget eqb k l.
  Proof.
    intros N. induction l as [|[k2 v] t IH]; simpl; [reflexivity|].
    destruct (eqb k' k2) eqn:E.
    - apply eqb_eq in E. subst k2. rewrite (eqb_neq _ _ N). exact IH.
    - simpl. destruct (eqb k k2); [reflexivity|exact IH].
  Qed.
  Lemma aget_aset_eq k v (l : list (K * V)) : aget eqb k (aset eqb k v l) = Some v.
  Proof. unfold aset. simpl. rewrite eqb_refl'. reflexivity. Qed.
  Lemma aget_aset_neq k k' v (l : list (K * V)) : k <> k' -> aget eqb k (aset eqb k' v l) = aget eqb k l.
  Proof. intros N. unfold aset. simpl. rewrite (eqb_neq _ _ N). apply aget_aremove_neq. exact N. Qed.

  Lemma in_keys_aremove k k' (l : list (K * V)) :
    In k' (map fst (aremove eqb k l)) -> In k' (map fst l) /\ k' <> k.
  Proof.
    induction l as [|[k2 v] t IH]; simpl; [tauto|].
    destruct (eqb k k2) eqn:E.
    - intros H. destruct (IH H). tauto.
    - simpl. intros [H|H].
      + subst k2. split; [tauto|]. intros ->. rewrite eqb_refl' in E. discriminate.
      + destruct (IH H). tauto.
  Qed.
  Lemma nodup_aremove k (l : list (K * V)) : NoDup (map fst l) -> NoDup (map fst (aremove eqb k l)).
  Proof.
    induction l as [|[k2 v] t IH]; simpl; intros H; [constructor|].
    inversion H; subst. destruct (eqb k k2); [auto|]. simpl. constructor; [|auto].
    intros C. apply in_keys_aremove in C. tauto.
  Qed.
  Lemma nodup_aset k v (l : list (K * V)) : NoDup (map fst l) -> NoDup (map fst (aset eqb k v l)).
  Proof.
    intros H. unfold aset. simpl. constructor; [|apply nodup_aremove; exact H].
    intros C. apply in_keys_aremove in C. tauto.
  Qed.

  Lemma aget_in k v (l : list (K * V)) : aget eqb k l = Some v -> In (k, v) l.
  Proof.
    induction l as [|[k2 v2] t IH]; simpl; [discriminate|].
    destruct (eqb k k2) eqn:E.
    - intros [= ->]. apply eqb_eq in E. subst. left. reflexivity.
    - intros H. right. auto.
  Qed.
  Lemma in_aget k v (l : list (K * V)) : NoDup (map fst l) -> In (k, v) l -> aget eqb k l = Some v.
  Proof.
    induction l as [|[k2 v2] t IH]; simpl; [tauto|].
    intros ND [H|H]; inversion ND; subst.
    - inversion H; subst. rewrite eqb_refl'. reflexivity.
    - destruct (eqb k k2) eqn:E.
      + apply eqb_eq in E. subst k2. exfalso. apply H2. apply (in_map fst) in H. exact H.
      + auto.
  Qed.
  Lemma aget_none_notin k (l : list (K * V)) : aget eqb k l = None -> ~ In k (map fst l).
  Proof.
    induction l as [|[k2 v2] t IH]; simpl; [tauto|].
    destruct (eqb k k2) eqn:E; [discriminate|]. intros H [C|C].
    - subst. rewrite eqb_refl' in E. discriminate.
    - exact (IH H C).
  Qed.

  Lemma aget_filter (f : K * V -> bool) k (l : list (K * V)) :
    NoDup (map fst l) ->
    aget eqb k (filter f l) = match aget eqb k l with
                              | Some v => if f (k, v) then Some v else None
                              | None => None
                              end.
  Proof.
    induction l as [|[k2 v2] t IH]; simpl; [reflexivity|].
    intros ND. inversion ND; subst. specialize (IH H2).
    destruct (eqb k k2) eqn:E.
    - apply eqb_eq in E. subst k2. destruct (f (k, v2)) eqn:F.
      + simpl. rewrite eqb_refl'. reflexivity.
      + rewrite IH. destruct (aget eqb k t) eqn:G; [|reflexivity].
        apply aget_in in G. exfalso. apply H1. apply (in_map fst) in G. exact G.
    - destruct (f (k2, v2)); [simpl; rewrite E|]; exact IH.
  Qed.
  Lemma nodup_filter (f : K * V -> bool) (l : list (K * V)) :
    NoDup (map fst l) -> NoDup (map fst (filter f l)).
  Proof.
    induction l as [|[k2 v2] t IH]; simpl; intros ND; [constructor|].
    inversion ND; subst. destruct (f (k2, v2)); [|auto]. simpl. constructor; [|auto].
    intros C. apply H1. apply in_map_iff in C. destruct C as [[a b] [E C]]. simpl in E. subst.
    apply filter_In in C. destruct C as [C _]. apply (in_map fst) in C. exact C.
  Qed.
End AlistFacts.

Lemma ident_eqb_eq a b : ident_eqb a b = true <-> a = b.
Proof.
  revert b. induction a as [|x a IH]; intros [|y b]; simpl; try (split; [discriminate|discriminate]).
  - tauto.
  - rewrite andb_true_iff, N.eqb_eq, IH. split; [intros [-> ->]; reflexivity|intros [= -> ->]; tauto].
Qed.
Lemma ident_eqb_refl a : ident_eqb a a = true.
Proof. apply ident_eqb_eq. reflexivity. Qed.
Lemma ident_eqb_neq a b : a <> b -> ident_eqb a b = false.
Proof. apply (eqb_neq ident_eqb ident_eqb_eq). Qed.
Lemma ident_eq_dec (a b : ident) : {a = b} + {a <> b}.
Proof. destruct (ident_eqb a b) eqn:E; [left; apply ident_eqb_eq; exact E|right; intros ->; rewrite ident_eqb_refl in E; discriminate]. Qed.

(* instantiated rewriting lemmas *)
Definition fget_set_eq := @aget_aset_eq ident info ident_eqb ident_eqb_eq.
Definition fget_set_neq := @aget_aset_neq ident info ident_eqb ident_eqb_eq.
Definition fget_rm_eq := @aget_aremove_eq ident info ident_eqb.
Definition fget_rm_neq := @aget_aremove_neq ident info ident_eqb ident_eqb_eq.
Definition rget_set_eq := @aget_aset_eq pipe ident N.eqb N.eqb_eq.
Definition rget_set_neq := @aget_aset_neq pipe ident N.eqb N.eqb_eq.
Definition rget_rm_eq := @aget_aremove_eq pipe ident N.eqb.
Definition rget_rm_neq := @aget_aremove_neq pipe ident N.eqb N.eqb_eq.
Definition sget_set_eq := @aget_aset_eq pipe (ident * strat) N.eqb N.eqb_eq.
Definition sget_set_neq := @aget_aset_neq pipe (ident * strat) N.eqb N.eqb_eq.
Definition sget_rm_eq := @aget_aremove_eq pipe (ident * strat) N.eqb.
Definition sget_rm_neq := @aget_aremove_neq pipe (ident * strat) N.eqb N.eqb_eq.

(* ------------------------------------------------------------------ the ownership guard *)
Lemma owned_by_fget p j m :
  owned_by p j (fwd m) = match fget j m with Some (_, o) => o =? p | None => false end.
Proof. unfold owned_by, fget, owner. destruct (aget ident_eqb j (fwd m)) as [[[u s] o]|]; reflexivity. Qed.
Lemma owned_by_set_neq p j id v f : j <> id -> owned_by p j (aset ident_eqb id v f) = owned_by p j f.
Proof. intros N. unfold owned_by. rewrite fget_set_neq by exact N. reflexivity. Qed.
Lemma rio_aget p id f j :
  aget ident_eqb j (remove_if_owner p id f) = if ident_eqb id j && owned_by p id f then None else aget ident_eqb j f.
Proof.
  unfold remove_if_owner. destruct (owned_by p id f); [|rewrite andb_false_r; reflexivity].
  rewrite andb_true_r. destruct (ident_eqb id j) eqn:F.
  - apply ident_eqb_eq in F. subst. apply fget_rm_eq.
  - apply fget_rm_neq. intros ->. rewrite ident_eqb_refl in F. discriminate.
Qed.
Lemma nodup_rio p id (f : list (ident * info)) : NoDup (map fst f) -> NoDup (map fst (remove_if_owner p id f)).
Proof. intros H. unfold remove_if_owner. destruct (owned_by p id f); [apply (nodup_aremove ident_eqb ident_eqb_eq)|]; exact H. Qed.

(* The forward entry a pipe-driven operation of pipe p takes away: the entry of the identity p is
   recorded under, and only if p owns it. *)
Definition releases (p : pipe) (m : rmap) (j : ident) : bool :=
  match rget p m with Some o => ident_eqb o j && owned_by p j (fwd m) | None => false end.
Lemma releases_true_iff p m j :
  releases p m j = true <-> rget p m = Some j /\ exists u st, fget j m = Some (u, st, p).
Proof.
  unfold releases. rewrite owned_by_fget. destruct (rget p m) as [o|]; [|split; [discriminate|intros [H _]; discriminate]].
  rewrite andb_true_iff, ident_eqb_eq. split.
  - intros [-> H]. split; [reflexivity|]. destruct (fget j m) as [[[u st] o']|]; [|discriminate].
    apply N.eqb_eq in H. subst. eauto.
  - intros [E (u & st & F)]. inversion E; subst. rewrite F. split; [reflexivity|apply N.eqb_refl].
Qed.
Lemma releases_nonowner p m j u st o : fget j m = Some (u, st, o) -> o <> p -> releases p m j = false.
Proof.
  intros F N. destruct (releases p m j) eqn:E; [|reflexivity].
  apply releases_true_iff in E. destruct E as (_ & u' & st' & F'). congruence.
Qed.
Lemma releases_absent p m j : fget j m = None -> releases p m j = false.
Proof.
  intros F. destruct (releases p m j) eqn:E; [|reflexivity].
  apply releases_true_iff in E. destruct E as (_ & u' & st' & F'). congruence.
Qed.
Lemma releases_other_identity p m i j : rget p m = Some i -> j <> i -> releases p m j = false.
Proof.
  intros R N. destruct (releases p m j) eqn:E; [|reflexivity].
  apply releases_true_iff in E. destruct E as (R' & _). congruence.
Qed.

(* ------------------------------------------------------------------ point-wise behaviour of the four operations *)
Lemma add_peer_fget_same id p u m : fget id (add_peer id p u m) = Some (u, SDefault, p).
Proof.
  unfold add_peer, fget. destruct (aget N.eqb p (rev m)) as [oid|]; cbn [fwd rev]; [|apply fget_set_eq].
  destruct (ident_eqb oid id) eqn:E; cbn [fwd rev]; [apply fget_set_eq|].
  rewrite rio_aget, E. cbn [andb]. apply fget_set_eq.
Qed.
Lemma add_peer_fget_other id p u m j :
  j <> id -> fget j (add_peer id p u m) = if releases p m j then None else fget j m.
Proof.
  intros N. unfold add_peer, fget, releases, rget. destruct (aget N.eqb p (rev m)) as [oid|]; cbn [fwd rev].
  - destruct (ident_eqb oid id) eqn:E; cbn [fwd rev].
    + apply ident_eqb_eq in E. subst oid. rewrite (ident_eqb_neq id j) by congruence. cbn [andb].
      apply fget_set_neq. exact N.
    + rewrite rio_aget. destruct (ident_eqb oid j) eqn:F; cbn [andb].
      * apply ident_eqb_eq in F. subst j. rewrite owned_by_set_neq by exact N.
        rewrite fget_set_neq by exact N. reflexivity.
      * apply fget_set_neq. exact N.
  - apply fget_set_neq. exact N.
Qed.
Lemma add_peer_rget id p u m q : rget q (add_peer id p u m) = if q =? p then Some id else rget q m.
Proof.
  unfold rget.
  assert (rev (add_peer id p u m) = aset N.eqb p id (rev m)) as ->.
  { unfold add_peer. destruct (aget N.eqb p (rev m)); [destruct (ident_eqb _ _)|]; reflexivity. }
  destruct (N.eqb_spec q p); [subst; apply rget_set_eq|apply rget_set_neq; assumption].
Qed.

Lemma upd_fget_same p id u t m : fget id (update_peer_identity p id u t m) = Some (u, strat_of_type t, p).
Proof. unfold update_peer_identity, fget. cbn [fwd rev]. apply fget_set_eq. Qed.
Lemma upd_fget_other p id u t m j :
  j <> id -> fget j (update_peer_identity p id u t m) = if releases p m j then None else fget j m.
Proof.
  intros N. unfold update_peer_identity, fget, releases, rget. cbn [fwd rev]. rewrite fget_set_neq by exact N.
  destruct (aget N.eqb p (rev m)) as [oid|]; [|reflexivity].
  destruct (ident_eqb oid id) eqn:E.
  - apply ident_eqb_eq in E. subst. rewrite (ident_eqb_neq id j) by congruence. reflexivity.
  - rewrite rio_aget. destruct (ident_eqb oid j) eqn:F; cbn [andb]; [|reflexivity].
    apply ident_eqb_eq in F. subst. reflexivity.
Qed.
Lemma upd_rget p id u t m q : rget q (update_peer_identity p id u t m) = if q =? p then Some id else rget q m.
Proof.
  unfold update_peer_identity, rget. cbn [fwd rev].
  destruct (N.eqb_spec q p); [subst; apply rget_set_eq|apply rget_set_neq; assumption].
Qed.

Lemma rmp_fget p m j :
  fget j (remove_peer_by_read_pipe p m) = if releases p m j then None else fget j m.
Proof.
  unfold remove_peer_by_read_pipe, fget, releases, rget. destruct (aget N.eqb p (rev m)) as [oid|]; [|reflexivity].
  cbn [fwd rev]. rewrite rio_aget. destruct (ident_eqb oid j) eqn:F; cbn [andb]; [|reflexivity].
  apply ident_eqb_eq in F. subst. reflexivity.
Qed.
Lemma rmp_rget p m q : rget q (remove_peer_by_read_pipe p m) = if q =? p then None else rget q m.
Proof.
  unfold remove_peer_by_read_pipe, rget. destruct (aget N.eqb p (rev m)) as [oid|] eqn:G; cbn [fwd rev].
  - destruct (N.eqb_spec q p); [subst; apply rget_rm_eq|apply rget_rm_neq; assumption].
  - destruct (N.eqb_spec q p); [subst; exact G|reflexivity].
Qed.

Lemma candidates_spec id m k :
  NoDup (map fst (rev m)) -> (In k (candidates id m) <-> rget k m = Some id).
Proof.
  intros ND. unfold candidates, rget. rewrite in_map_iff. split.
  - intros [[k' v] [E H]]. simpl in E. subst k'. apply filter_In in H. destruct H as [H F].
    simpl in F. apply ident_eqb_eq in F. subst v. apply (in_aget N.eqb N.eqb_eq); assumption.
  - intros H. exists (k, id). split; [reflexivity|]. apply filter_In. split.
    + apply (aget_in N.eqb N.eqb_eq). exact H.
    + simpl. apply ident_eqb_refl.
Qed.
Lemma pick_some h c k : pick h c = Some k -> In k c.
Proof.
  unfold pick. destruct (existsb (N.eqb h) c) eqn:E.
  - intros [= <-]. apply existsb_exists in E. destruct E as [x [I E]]. apply N.eqb_eq in E. subst. exact I.
  - destruct c; simpl; [discriminate|]. intros [= <-]. left. reflexivity.
Qed.
Lemma pick_none h c : pick h c = None -> c = [].
Proof. unfold pick. destruct (existsb (N.eqb h) c); [discriminate|]. destruct c; [reflexivity|discriminate]. Qed.
Lemma pick_hint h c : In h c -> pick h c = Some h.
Proof.
  intros I. unfold pick. replace (existsb (N.eqb h) c) with true; [reflexivity|].
  symmetry. apply existsb_exists. exists h. split; [exact I|apply N.eqb_refl].
Qed.

Lemma rmi_fget h id m j :
  fget j (remove_peer_by_identity h id m) = if ident_eqb id j then None else fget j m.
Proof.
  unfold remove_peer_by_identity, fget. destruct (aget ident_eqb id (fwd m)) eqn:G; simpl.
  - destruct (ident_eqb id j) eqn:F.
    + apply ident_eqb_eq in F. subst. apply fget_rm_eq.
    + apply fget_rm_neq. intros ->. rewrite ident_eqb_refl in F. discriminate.
  - destruct (ident_eqb id j) eqn:F; [|reflexivity]. apply ident_eqb_eq in F. subst. exact G.
Qed.
(* the reverse map loses at most one entry, and only one that carried id *)
Lemma rmi_rget h id m :
  NoDup (map fst (rev m)) ->
  (forall q, rget q (remove_peer_by_identity h id m) = rget q m) \/
  (exists k, rget k m = Some id /\ fget id m <> None /\
             forall q, rget q (remove_peer_by_identity h id m) = if q =? k then None else rget q m).
Proof.
  intros ND. unfold remove_peer_by_identity. unfold fget. destruct (aget ident_eqb id (fwd m)) eqn:G; [|left; reflexivity].
  destruct (pick h (candidates id m)) as [k|] eqn:P; [|left; reflexivity].
  right. exists k. apply pick_some in P. apply candidates_spec in P; [|exact ND].
  split; [exact P|]. split; [discriminate|]. intros q. unfold rget. simpl.
  destruct (N.eqb_spec q k); [subst; apply rget_rm_eq|apply rget_rm_neq; assumption].
Qed.

Lemma nodup_ops :
  forall m, NoDup (map fst (fwd m)) -> NoDup (map fst (rev m)) ->
  (forall id p u, NoDup (map fst (fwd (add_peer id p u m))) /\ NoDup (map fst (rev (add_peer id p u m)))) /\
  (forall p id u t, NoDup (map fst (fwd (update_peer_identity p id u t m))) /\
                    NoDup (map fst (rev (update_peer_identity p id u t m)))) /\
  (forall p, NoDup (map fst (fwd (remove_peer_by_read_pipe p m))) /\ NoDup (map fst (rev (remove_peer_by_read_pipe p m)))) /\
  (forall h id, NoDup (map fst (fwd (remove_peer_by_identity h id m))) /\
                NoDup (map fst (rev (remove_peer_by_identity h id m)))).
Proof.
  intros m F R. repeat split.
  - unfold add_peer. destruct (aget N.eqb p (rev m)); [destruct (ident_eqb _ _)|]; cbn [fwd rev];
      try apply nodup_rio; apply (nodup_aset ident_eqb ident_eqb_eq); exact F.
  - unfold add_peer. destruct (aget N.eqb p (rev m)); [destruct (ident_eqb _ _)|]; cbn [fwd rev];
      apply (nodup_aset N.eqb N.eqb_eq); exact R.
  - unfold update_peer_identity. cbn [fwd rev]. apply (nodup_aset ident_eqb ident_eqb_eq).
    destruct (aget N.eqb p (rev m)); [destruct (ident_eqb _ _)|]; try exact F.
    apply nodup_rio. exact F.
  - unfold update_peer_identity. cbn [fwd rev]. apply (nodup_aset N.eqb N.eqb_eq). exact R.
  - unfold remove_peer_by_read_pipe. destruct (aget N.eqb p (rev m)); cbn [fwd rev]; [|exact F].
    apply nodup_rio. exact F.
  - unfold remove_peer_by_read_pipe. destruct (aget N.eqb p (rev m)); cbn [fwd rev]; [|exact R].
    apply (nodup_aremove N.eqb N.eqb_eq). exact R.
  - unfold remove_peer_by_identity. destruct (aget ident_eqb id (fwd m)); cbn [fwd rev]; [|exact F].
    apply (nodup_aremove ident_eqb ident_eqb_eq). exact F.
  - unfold remove_peer_by_identity. destruct (aget ident_eqb id (fwd m)); cbn [fwd rev]; [|exact R].
    destruct (pick h (candidates id m)); [|exact R]. apply (nodup_aremove N.eqb N.eqb_eq). exact R.
Qed.

(* ------------------------------------------------------------------ general invariant *)
Local Arguments aset : simpl never.
Local Arguments aremove : simpl never.
Local Arguments aget : simpl never.
Local Arguments add_peer : simpl never.
Local Arguments update_peer_identity : simpl never.
Local Arguments remove_peer_by_read_pipe : simpl never.
Local Arguments remove_peer_by_identity : simpl never.
Local Arguments others_with : simpl never.
Local Arguments eff_id : simpl never.
Section Inv.
  Variable uri_of : pipe -> uri.
  Variable placeholder : pipe -> ident.
  Notation ev_step := (ev_step uri_of placeholder).
  Notation spec_step := (spec_step placeholder).
  Notation run := (run uri_of placeholder).
  Notation spec_run := (spec_run placeholder).

  Definition sget (p : pipe) (s : spec) : option (ident * strat) := aget N.eqb p s.

  (* The strongest relation between the maps and the live-pipe specification that holds after
     EVERY history (colliding identities included):
       - keys are unique in all three;
       - every live pipe has its reverse entry, carrying its latest identity;
       - every forward entry is backed BY ITS RECORDED OWNER: the owner pipe is live, its latest
         identity is the entry's key, and the entry holds exactly that pipe's uri and strategy.
     What does NOT hold in general is the converse of the last point: of several live pipes that
     carry the same identity only one - the latest claimant - owns the entry (see collisions below). *)
  Definition RInv (m : rmap) (s : spec) : Prop :=
    NoDup (map fst (fwd m)) /\ NoDup (map fst (rev m)) /\ NoDup (map fst s) /\
    (forall p i st, sget p s = Some (i, st) -> rget p m = Some i) /\
    (forall i u st o, fget i m = Some (u, st, o) ->
        rget o m = Some i /\ sget o s = Some (i, st) /\ u = uri_of o).

  Lemma sget_filter (f : pipe * (ident * strat) -> bool) p s :
    NoDup (map fst s) ->
    sget p (filter f s) = match sget p s with Some v => if f (p, v) then Some v else None | None => None end.
  Proof. apply (aget_filter N.eqb N.eqb_eq). Qed.

  (* an entry that survives a pipe-driven operation of pipe p is not owned by p *)
  Lemma kept_owner_differs m s p i u st o :
    RInv m s -> releases p m i = false -> fget i m = Some (u, st, o) -> o <> p.
  Proof.
    intros (_ & _ & _ & _ & BK) RL H ->. destruct (BK _ _ _ _ H) as (Q1 & _ & _).
    rewrite (proj2 (releases_true_iff p m i)) in RL; [discriminate|]. split; [exact Q1|eauto].
  Qed.

  Lemma RInv_step m s e : RInv m s -> RInv (ev_step m e) (spec_step s e).
  Proof.
    intros RI. pose proof RI as (NF & NR & NS & SR & BK).
    destruct (nodup_ops m NF NR) as (Na & Nu & Np & Ni).
    destruct e as [p ido|p ido t|p|h id]; simpl.
    - (* attach *)
      set (id := eff_id placeholder p ido).
      destruct (Na id p (uri_of p)) as [A1 A2].
      split; [exact A1|]. split; [exact A2|]. split; [apply (nodup_aset N.eqb N.eqb_eq); exact NS|].
      split.
      + intros q i st. unfold sget. rewrite add_peer_rget. destruct (N.eqb_spec q p).
        * subst. rewrite sget_set_eq. intros [= <- <-]. reflexivity.
        * rewrite sget_set_neq by assumption. apply SR.
      + intros i u st o. destruct (ident_eq_dec i id) as [->|N].
        * rewrite add_peer_fget_same. intros [= <- <- <-]. rewrite add_peer_rget, N.eqb_refl.
          unfold sget. rewrite sget_set_eq. auto.
        * rewrite add_peer_fget_other by exact N.
          destruct (releases p m i) eqn:RL; [discriminate|]. intros H.
          pose proof (kept_owner_differs m s p i u st o RI RL H) as NQ.
          destruct (BK _ _ _ _ H) as (Q1 & Q2 & Q3).
          rewrite add_peer_rget. replace (o =? p) with false by (symmetry; apply N.eqb_neq; exact NQ).
          unfold sget. rewrite sget_set_neq by exact NQ. auto.
    - (* announce *)
      set (id := eff_id placeholder p ido).
      destruct (Nu p id (uri_of p) t) as [A1 A2].
      split; [exact A1|]. split; [exact A2|]. split; [apply (nodup_aset N.eqb N.eqb_eq); exact NS|].
      split.
      + intros q i st. unfold sget. rewrite upd_rget. destruct (N.eqb_spec q p).
        * subst. rewrite sget_set_eq. intros [= <- <-]. reflexivity.
        * rewrite sget_set_neq by assumption. apply SR.
      + intros i u st o. destruct (ident_eq_dec i id) as [->|N].
        * rewrite upd_fget_same. intros [= <- <- <-]. rewrite upd_rget, N.eqb_refl.
          unfold sget. rewrite sget_set_eq. auto.
        * rewrite upd_fget_other by exact N.
          destruct (releases p m i) eqn:RL; [discriminate|]. intros H.
          pose proof (kept_owner_differs m s p i u st o RI RL H) as NQ.
          destruct (BK _ _ _ _ H) as (Q1 & Q2 & Q3).
          rewrite upd_rget. replace (o =? p) with false by (symmetry; apply N.eqb_neq; exact NQ).
          unfold sget. rewrite sget_set_neq by exact NQ. auto.
    - (* detach *)
      destruct (Np p) as [A1 A2].
      split; [exact A1|]. split; [exact A2|]. split; [apply (nodup_aremove N.eqb N.eqb_eq); exact NS|].
      split.
      + intros q i st. unfold sget. rewrite rmp_rget. destruct (N.eqb_spec q p).
        * subst. rewrite sget_rm_eq. discriminate.
        * rewrite sget_rm_neq by assumption. apply SR.
      + intros i u st o. rewrite rmp_fget.
        destruct (releases p m i) eqn:RL; [discriminate|]. intros H.
        pose proof (kept_owner_differs m s p i u st o RI RL H) as NQ.
        destruct (BK _ _ _ _ H) as (Q1 & Q2 & Q3).
        rewrite rmp_rget. replace (o =? p) with false by (symmetry; apply N.eqb_neq; exact NQ).
        unfold sget. rewrite sget_rm_neq by exact NQ. auto.
    - (* stale cleanup *)
      destruct (Ni h id) as [A1 A2].
      split; [exact A1|]. split; [exact A2|]. split; [apply nodup_filter; exact NS|].
      split.
      + intros q i st. rewrite sget_filter by exact NS. destruct (sget q s) as [[i' st']|] eqn:G; [|discriminate].
        simpl. destruct (ident_eqb i' id) eqn:F; simpl; [discriminate|]. intros [= <- <-].
        specialize (SR _ _ _ G).
        destruct (rmi_rget h id m NR) as [E|(k & K1 & _ & E)]; rewrite E; [exact SR|].
        destruct (N.eqb_spec q k); [|exact SR]. subst. rewrite K1 in SR. inversion SR; subst.
        rewrite ident_eqb_refl in F. discriminate.
      + intros i u st o. rewrite rmi_fget. destruct (ident_eqb id i) eqn:F; [discriminate|]. intros H.
        destruct (BK _ _ _ _ H) as (Q1 & Q2 & Q3).
        assert (i <> id) as NI. { intros ->. rewrite ident_eqb_refl in F. discriminate. }
        split; [|split; [|exact Q3]].
        * destruct (rmi_rget h id m NR) as [E|(k & K1 & _ & E)]; rewrite E; [exact Q1|].
          destruct (N.eqb_spec o k); [|exact Q1]. subst. rewrite K1 in Q1. inversion Q1. congruence.
        * rewrite sget_filter by exact NS. rewrite Q2. simpl. rewrite (ident_eqb_neq i id NI). reflexivity.
  Qed.

  Lemma RInv_run_from m s h : RInv m s -> RInv (run_from uri_of placeholder m h) (spec_run_from placeholder s h).
  Proof.
    revert m s. induction h as [|e h IH]; intros m s H; simpl; [exact H|].
    apply IH. apply RInv_step. exact H.
  Qed.
  Lemma RInv_empty : RInv rm_empty [].
  Proof. repeat split; try constructor; intros; discriminate. Qed.
  Theorem router_inv_holds h : RInv (run h) (spec_run h).
  Proof. apply RInv_run_from. apply RInv_empty. Qed.

  (* ---------------------------------------------------------------- every history: the latest claimant *)
  (* No distinctness premise.  Whatever forward entry identity i has after a history, it leads to a
     pipe that is attached right now, whose latest attach/announcement carried i, with that pipe's
     uri and strategy - and that pipe is the recorded owner. *)
  Theorem latest_claimant_reachable h :
    let m := run h in let s := spec_run h in
    forall i u st o, fget i m = Some (u, st, o) ->
      u = uri_of o /\ rget o m = Some i /\ sget o s = Some (i, st).
  Proof.
    intros m s i u st o H. destruct (router_inv_holds h) as (_ & _ & _ & _ & BK).
    destruct (BK _ _ _ _ H) as (Q1 & Q2 & Q3). auto.
  Qed.
  (* ... and it stays so until the owner itself leaves or somebody claims i anew: an attach,
     announcement or detach of a pipe q that is NOT the owner of i's forward entry leaves that entry
     alone - unless q takes identity i itself, in which case q becomes the owner.  (Any map, so in
     particular any reachable one.) *)
  Theorem nonowner_step_keeps_entry m i u st o q :
    fget i m = Some (u, st, o) -> q <> o ->
    fget i (ev_step m (EDetach q)) = Some (u, st, o) /\
    (forall ido, fget i (ev_step m (EAttach q ido)) =
                 if ident_eqb (eff_id placeholder q ido) i then Some (uri_of q, SDefault, q) else Some (u, st, o)) /\
    (forall ido t, fget i (ev_step m (EAnnounce q ido t)) =
                   if ident_eqb (eff_id placeholder q ido) i then Some (uri_of q, strat_of_type t, q) else Some (u, st, o)).
  Proof.
    intros H NQ. assert (releases q m i = false) as RL by (apply (releases_nonowner q m i u st o H); congruence).
    split; [|split].
    - simpl. rewrite rmp_fget, RL. exact H.
    - intros ido. simpl. destruct (ident_eqb (eff_id placeholder q ido) i) eqn:E.
      + apply ident_eqb_eq in E. rewrite <- E. apply add_peer_fget_same.
      + rewrite add_peer_fget_other, RL; [exact H|]. intros EQ. rewrite EQ, ident_eqb_refl in E. discriminate.
    - intros ido t. simpl. destruct (ident_eqb (eff_id placeholder q ido) i) eqn:E.
      + apply ident_eqb_eq in E. rewrite <- E. apply upd_fget_same.
      + rewrite upd_fget_other, RL; [exact H|]. intros EQ. rewrite EQ, ident_eqb_refl in E. discriminate.
  Qed.

  (* ---------------------------------------------------------------- distinct identities: exact *)
  (* additionally: identities of live pipes are pairwise distinct, the reverse map has no entry
     beyond the live pipes, and every live pipe is REACHABLE under its identity with ITS uri (and
     is the owner of that entry). *)
  Definition Exact (m : rmap) (s : spec) : Prop :=
    RInv m s /\
    (forall p q i st st', sget p s = Some (i, st) -> sget q s = Some (i, st') -> p = q) /\
    (forall p i, rget p m = Some i -> exists st, sget p s = Some (i, st)) /\
    (forall p i st, sget p s = Some (i, st) -> fget i m = Some (uri_of p, st, p)).

  Lemma others_with_nil id p s :
    NoDup (map fst s) -> others_with id p s = [] ->
    forall q st, q <> p -> sget q s <> Some (id, st).
  Proof.
    intros ND E q st NQ H. unfold others_with in E.
    assert (In q (map fst (filter (fun pv => negb (fst pv =? p) && ident_eqb (fst (snd pv)) id) s))) as I.
    { apply in_map_iff. exists (q, (id, st)). split; [reflexivity|]. apply filter_In. split.
      - apply (aget_in N.eqb N.eqb_eq). exact H.
      - simpl. rewrite ident_eqb_refl. replace (q =? p) with false by (symmetry; apply N.eqb_neq; exact NQ). reflexivity. }
    rewrite E in I. destruct I.
  Qed.

  Lemma Exact_set m s p id st m' :
    Exact m s ->
    (forall q st', q <> p -> sget q s <> Some (id, st')) ->
    (forall q, rget q m' = if q =? p then Some id else rget q m) ->
    fget id m' = Some (uri_of p, st, p) ->
    (forall j, j <> id -> fget j m' = if releases p m j then None else fget j m) ->
    RInv m' (aset N.eqb p (id, st) s) ->
    Exact m' (aset N.eqb p (id, st) s).
  Proof.
    intros (RI & INJ & RS & TP) FR HR HF HO RI'. split; [exact RI'|]. split; [|split].
    - intros a b i sa sb. unfold sget. destruct (N.eqb_spec a p), (N.eqb_spec b p); subst.
      + reflexivity.
      + rewrite sget_set_eq, sget_set_neq by assumption. intros [= <- <-] H. exfalso. exact (FR _ _ n H).
      + rewrite sget_set_eq, sget_set_neq by assumption. intros H [= <- <-]. exfalso. exact (FR _ _ n H).
      + rewrite !sget_set_neq by assumption. apply INJ.
    - intros q i. rewrite HR. unfold sget. destruct (N.eqb_spec q p).
      + subst. intros [= <-]. rewrite sget_set_eq. eauto.
      + rewrite sget_set_neq by assumption. apply RS.
    - intros q i sq. unfold sget. destruct (N.eqb_spec q p).
      + subst. rewrite sget_set_eq. intros [= <- <-]. exact HF.
      + rewrite sget_set_neq by assumption. intros H.
        assert (i <> id) as NI. { intros ->. exact (FR _ _ n H). }
        rewrite HO by exact NI. destruct (releases p m i) eqn:RL; [|apply TP; exact H].
        apply releases_true_iff in RL. destruct RL as (G & _). destruct (RS _ _ G) as [sp SP].
        exfalso. apply n. exact (INJ _ _ _ _ _ H SP).
  Qed.

  Lemma Exact_step m s e :
    Exact m s ->
    match e with
    | EAttach p ido | EAnnounce p ido _ => others_with (eff_id placeholder p ido) p s = []
    | _ => True
    end ->
    Exact (ev_step m e) (spec_step s e).
  Proof.
    intros EX D. pose proof EX as (RI & INJ & RS & TP).
    pose proof (RInv_step m s e RI) as RI'.
    pose proof RI as (NF & NR & NS & SR & BK).
    destruct e as [p ido|p ido t|p|h id]; simpl in *.
    - apply (Exact_set m s p _ _ _ EX).
      + intros q st' NQ. exact (others_with_nil _ p s NS D q st' NQ).
      + intros q. apply add_peer_rget.
      + apply add_peer_fget_same.
      + intros j NJ. apply add_peer_fget_other. exact NJ.
      + exact RI'.
    - apply (Exact_set m s p _ _ _ EX).
      + intros q st' NQ. exact (others_with_nil _ p s NS D q st' NQ).
      + intros q. apply upd_rget.
      + apply upd_fget_same.
      + intros j NJ. apply upd_fget_other. exact NJ.
      + exact RI'.
    - split; [exact RI'|]. split; [|split].
      + intros a b i sa sb. unfold sget. destruct (N.eqb_spec a p); [subst; rewrite sget_rm_eq; discriminate|].
        destruct (N.eqb_spec b p); [subst; rewrite (sget_rm_eq p); discriminate|].
        rewrite !sget_rm_neq by assumption. apply INJ.
      + intros q i. rewrite rmp_rget. unfold sget. destruct (N.eqb_spec q p); [discriminate|].
        rewrite sget_rm_neq by assumption. apply RS.
      + intros q i sq. unfold sget. destruct (N.eqb_spec q p); [subst; rewrite sget_rm_eq; discriminate|].
        rewrite sget_rm_neq by assumption. intros H. rewrite rmp_fget.
        destruct (releases p m i) eqn:RL; [|apply TP; exact H].
        apply releases_true_iff in RL. destruct RL as (G & _). destruct (RS _ _ G) as [sp SP].
        exfalso. apply n. exact (INJ _ _ _ _ _ H SP).
    - split; [exact RI'|]. split; [|split].
      + intros a b i sa sb. rewrite !sget_filter by exact NS.
        destruct (sget a s) as [[ia sa']|] eqn:GA; [|discriminate].
        destruct (sget b s) as [[ib sb']|] eqn:GB; [|intros _; discriminate].
        simpl. destruct (negb (ident_eqb ia id)); [|discriminate]. destruct (negb (ident_eqb ib id)); [|intros _; discriminate].
        intros [= -> ->] [= -> ->]. exact (INJ _ _ _ _ _ GA GB).
      + intros q i H.
        assert (rget q m = Some i /\ i <> id) as [Q NI].
        { destruct (rmi_rget h id m NR) as [E|(k & K1 & K2 & E)].
          - rewrite E in H. split; [exact H|]. intros ->.
            (* forward entry for id must then be absent, else a candidate would have been removed *)
            destruct (RS _ _ H) as [sq SQ]. pose proof (TP _ _ _ SQ) as FQ.
            unfold remove_peer_by_identity in E. unfold fget in FQ. rewrite FQ in E.
            destruct (pick h (candidates id m)) as [k|] eqn:P.
            + apply pick_some in P. apply candidates_spec in P; [|exact NR].
              specialize (E k). unfold rget in E, P. simpl in E. rewrite rget_rm_eq in E. rewrite P in E. discriminate.
            + apply pick_none in P. assert (In q (candidates id m)) as I by (apply candidates_spec; assumption).
              rewrite P in I. destruct I.
          - rewrite E in H. destruct (N.eqb_spec q k); [discriminate|]. split; [exact H|]. intros ->.
            destruct (RS _ _ H) as [sq SQ]. destruct (RS _ _ K1) as [sk SK]. apply n. exact (INJ _ _ _ _ _ SQ SK). }
        destruct (RS _ _ Q) as [sq SQ]. exists sq. rewrite sget_filter by exact NS. rewrite SQ. simpl.
        rewrite (ident_eqb_neq i id NI). reflexivity.
      + intros q i sq. rewrite sget_filter by exact NS. destruct (sget q s) as [[i' s']|] eqn:G; [|discriminate].
        simpl. destruct (ident_eqb i' id) eqn:F; simpl; [discriminate|]. intros [= <- <-].
        rewrite rmi_fget. destruct (ident_eqb id i') eqn:F2.
        * apply ident_eqb_eq in F2. subst. rewrite ident_eqb_refl in F. discriminate.
        * apply TP. exact G.
  Qed.

  Lemma Exact_run_from m s h :
    Exact m s -> distinct_from placeholder s h = true ->
    Exact (run_from uri_of placeholder m h) (spec_run_from placeholder s h).
  Proof.
    revert m s. induction h as [|e h IH]; intros m s EX D; simpl; [exact EX|].
    simpl in D. apply andb_true_iff in D. destruct D as [D1 D2].
    apply IH; [|exact D2]. apply Exact_step; [exact EX|].
    destruct e; auto; destruct (others_with _ _ _); auto; discriminate.
  Qed.
  Lemma Exact_empty : Exact rm_empty [].
  Proof. split; [apply RInv_empty|]. repeat split; intros; discriminate. Qed.

  Theorem lookup_true_peer_holds h :
    distinct_hist placeholder h = true ->
    let m := run h in let s := spec_run h in
    (forall p i st, sget p s = Some (i, st) -> rget p m = Some i /\ fget i m = Some (uri_of p, st, p)) /\
    (forall p i, rget p m = Some i -> exists st, sget p s = Some (i, st)) /\
    (forall i u st o, fget i m = Some (u, st, o) -> sget o s = Some (i, st) /\ u = uri_of o) /\
    (forall p q i, rget p m = Some i -> rget q m = Some i -> p = q).
  Proof.
    intros D m s. destruct (Exact_run_from rm_empty [] h Exact_empty D) as (RI & INJ & RS & TP).
    fold m s in RI, INJ, RS, TP. destruct RI as (NF & NR & NS & SR & BK).
    split; [|split; [|split]].
    - intros p i st H. split; [exact (SR _ _ _ H)|exact (TP _ _ _ H)].
    - exact RS.
    - intros i u st o H. destruct (BK _ _ _ _ H) as (_ & P2 & P3). auto.
    - intros p q i HP HQ. destruct (RS _ _ HP) as [sp SP]. destruct (RS _ _ HQ) as [sq SQ].
      exact (INJ _ _ _ _ _ SP SQ).
  Qed.
End Inv.

(* ------------------------------------------------------------------ colliding identities: exact behaviour *)
(* A second pipe taking an identity that another pipe already carries: the forward entry now
   leads to the newcomer, who becomes its owner ("last wins"); the other pipe keeps its reverse entry. *)
Lemma collision_last_wins_add id p u m :
  fget id (add_peer id p u m) = Some (u, SDefault, p) /\
  forall q, q <> p -> rget q (add_peer id p u m) = rget q m.
Proof.
  split; [apply add_peer_fget_same|]. intros q N. rewrite add_peer_rget.
  replace (q =? p) with false by (symmetry; apply N.eqb_neq; exact N). reflexivity.
Qed.
Lemma collision_last_wins_upd id p u t m :
  fget id (update_peer_identity p id u t m) = Some (u, strat_of_type t, p) /\
  forall q, q <> p -> rget q (update_peer_identity p id u t m) = rget q m.
Proof.
  split; [apply upd_fget_same|]. intros q N. rewrite upd_rget.
  replace (q =? p) with false by (symmetry; apply N.eqb_neq; exact N). reflexivity.
Qed.
(* Two pipes p, q carry identity id and the forward entry of id belongs to p.  Detaching q takes
   away q's reverse entry and NOTHING else: p keeps its reverse entry, the forward entry of id still
   leads to p, no other forward entry changes. *)
Lemma collision_detach_keeps_live p q id u st m :
  p <> q -> rget p m = Some id -> rget q m = Some id -> fget id m = Some (u, st, p) ->
  let m' := remove_peer_by_read_pipe q m in
  rget p m' = Some id /\ fget id m' = Some (u, st, p) /\
  (forall j, fget j m' = fget j m) /\
  (forall k, rget k m' = if k =? q then None else rget k m).
Proof.
  intros N P Q F m'. unfold m'.
  assert (forall j, fget j (remove_peer_by_read_pipe q m) = fget j m) as FJ.
  { intros j. rewrite rmp_fget. destruct (ident_eq_dec j id) as [->|NJ].
    - rewrite (releases_nonowner q m id u st p F N). reflexivity.
    - rewrite (releases_other_identity q m id j Q NJ). reflexivity. }
  split; [|split; [|split]].
  - rewrite rmp_rget. replace (p =? q) with false by (symmetry; apply N.eqb_neq; exact N). exact P.
  - rewrite FJ. exact F.
  - exact FJ.
  - intros k. apply rmp_rget.
Qed.
(* Same when q, which shared the identity, re-announces under a different one: q's own new entry
   appears, everything else stays. *)
Lemma collision_reannounce_keeps_live p q id id' u st u' t m :
  p <> q -> id' <> id -> rget p m = Some id -> rget q m = Some id -> fget id m = Some (u, st, p) ->
  let m' := update_peer_identity q id' u' t m in
  rget p m' = Some id /\ fget id m' = Some (u, st, p) /\
  fget id' m' = Some (u', strat_of_type t, q) /\
  (forall j, j <> id' -> fget j m' = fget j m) /\
  (forall k, rget k m' = if k =? q then Some id' else rget k m).
Proof.
  intros N NI P Q F m'. unfold m'.
  assert (forall j, j <> id' -> fget j (update_peer_identity q id' u' t m) = fget j m) as FJ.
  { intros j NJ'. rewrite upd_fget_other by exact NJ'. destruct (ident_eq_dec j id) as [->|NJ].
    - rewrite (releases_nonowner q m id u st p F N). reflexivity.
    - rewrite (releases_other_identity q m id j Q NJ). reflexivity. }
  split; [|split; [|split; [|split]]].
  - rewrite upd_rget. replace (p =? q) with false by (symmetry; apply N.eqb_neq; exact N). exact P.
  - rewrite FJ by congruence. exact F.
  - apply upd_fget_same.
  - exact FJ.
  - intros k. apply upd_rget.
Qed.
(* ... and when q is attached anew (add_peer) under a different identity. *)
Lemma collision_reattach_keeps_live p q id id' u st u' m :
  p <> q -> id' <> id -> rget p m = Some id -> rget q m = Some id -> fget id m = Some (u, st, p) ->
  let m' := add_peer id' q u' m in
  rget p m' = Some id /\ fget id m' = Some (u, st, p) /\
  fget id' m' = Some (u', SDefault, q) /\
  (forall j, j <> id' -> fget j m' = fget j m) /\
  (forall k, rget k m' = if k =? q then Some id' else rget k m).
Proof.
  intros N NI P Q F m'. unfold m'.
  assert (forall j, j <> id' -> fget j (add_peer id' q u' m) = fget j m) as FJ.
  { intros j NJ'. rewrite add_peer_fget_other by exact NJ'. destruct (ident_eq_dec j id) as [->|NJ].
    - rewrite (releases_nonowner q m id u st p F N). reflexivity.
    - rewrite (releases_other_identity q m id j Q NJ). reflexivity. }
  split; [|split; [|split; [|split]]].
  - rewrite add_peer_rget. replace (p =? q) with false by (symmetry; apply N.eqb_neq; exact N). exact P.
  - rewrite FJ by congruence. exact F.
  - apply add_peer_fget_same.
  - exact FJ.
  - intros k. apply add_peer_rget.
Qed.
(* The dual: the detaching pipe q IS the owner.  Its entry goes (and only that one); the other pipe
   p keeps its reverse entry but is then not addressable - nothing is delivered to the wrong peer. *)
Lemma collision_owner_detach_removes p q id u st m :
  p <> q -> rget p m = Some id -> rget q m = Some id -> fget id m = Some (u, st, q) ->
  let m' := remove_peer_by_read_pipe q m in
  rget p m' = Some id /\ fget id m' = None /\
  (forall j, j <> id -> fget j m' = fget j m) /\
  (forall k, rget k m' = if k =? q then None else rget k m).
Proof.
  intros N P Q F m'. unfold m'. split; [|split; [|split]].
  - rewrite rmp_rget. replace (p =? q) with false by (symmetry; apply N.eqb_neq; exact N). exact P.
  - rewrite rmp_fget. rewrite (proj2 (releases_true_iff q m id)); [reflexivity|]. split; [exact Q|eauto].
  - intros j NJ. rewrite rmp_fget. rewrite (releases_other_identity q m id j Q NJ). reflexivity.
  - intros k. apply rmp_rget.
Qed.
(* remove_peer_by_identity with several candidates: any of them may lose its reverse entry;
   with at most one candidate the oracle is irrelevant. *)
Lemma rmi_any_candidate k id m :
  NoDup (map fst (rev m)) -> fget id m <> None -> rget k m = Some id ->
  forall q, rget q (remove_peer_by_identity k id m) = if q =? k then None else rget q m.
Proof.
  intros ND F K q. unfold remove_peer_by_identity. unfold fget in F.
  destruct (aget ident_eqb id (fwd m)); [|congruence].
  rewrite pick_hint by (apply candidates_spec; assumption). unfold rget. simpl.
  destruct (N.eqb_spec q k); [subst; apply rget_rm_eq|apply rget_rm_neq; assumption].
Qed.
Lemma rmi_hint_irrelevant h1 h2 id m :
  NoDup (map fst (rev m)) ->
  (forall p q, rget p m = Some id -> rget q m = Some id -> p = q) ->
  forall q, rget q (remove_peer_by_identity h1 id m) = rget q (remove_peer_by_identity h2 id m).
Proof.
  intros ND U q.
  destruct (rmi_rget h1 id m ND) as [E1|(k1 & K1 & F1 & E1)];
  destruct (rmi_rget h2 id m ND) as [E2|(k2 & K2 & F2 & E2)]; rewrite E1, E2; try reflexivity.
  - (* h1 removed nothing although the forward entry exists: there is no candidate at all *)
    destruct (N.eqb_spec q k2); [|reflexivity]. subst q. exfalso.
    unfold remove_peer_by_identity, fget in *. destruct (aget ident_eqb id (fwd m)); [|congruence].
    destruct (pick h1 (candidates id m)) as [k|] eqn:P.
    + apply pick_some in P. apply candidates_spec in P; [|exact ND]. specialize (E1 k).
      unfold rget in *. simpl in E1. rewrite rget_rm_eq in E1. congruence.
    + apply pick_none in P. assert (In k2 (candidates id m)) as I by (apply candidates_spec; assumption).
      rewrite P in I. destruct I.
  - destruct (N.eqb_spec q k1); [|reflexivity]. subst q. exfalso.
    unfold remove_peer_by_identity, fget in *. destruct (aget ident_eqb id (fwd m)); [|congruence].
    destruct (pick h2 (candidates id m)) as [k|] eqn:P.
    + apply pick_some in P. apply candidates_spec in P; [|exact ND]. specialize (E2 k).
      unfold rget in *. simpl in E2. rewrite rget_rm_eq in E2. congruence.
    + apply pick_none in P. assert (In k1 (candidates id m)) as I by (apply candidates_spec; assumption).
      rewrite P in I. destruct I.
  - rewrite (U _ _ K1 K2). reflexivity.
Qed.
