From RZ Require Import Base.Prelude Base.Stepper Model.Codec Proofs.CodecProofs Model.Engine
  Proofs.EngineProofs Model.Actor Proofs.ActorProofs Model.RxSession.
Local Open Scope N_scope.

Lemma nets_snoc cfg : forall cs g d t,
  nets cfg g (cs ++ [(d, t)]) =
  let '(g1, o1) := nets cfg g cs in let '(g2, o2) := e_net cfg g1 d t in (g2, o1 ++ o2).
Proof.
  induction cs as [|[d0 t0] cs IH]; intros g d t.
  - cbn [app nets]. destruct (e_net cfg g d t) as [g2 o2]. rewrite app_nil_r. reflexivity.
  - cbn [app nets]. destruct (e_net cfg g d0 t0) as [g1 o1]. rewrite IH.
    destruct (nets cfg g1 cs) as [g2 o2]. destruct (e_net cfg g2 d t) as [g3 o3]. rewrite app_assoc. reflexivity.
Qed.

(* what every state of the receiving session satisfies, for ANY gate on the read arm *)
Definition rx_inv (cfg : ecfg) (g0 : engine) (input : list (bytes * N)) (s : rx) : Prop :=
  x_seen s ++ x_in s = input /\
  fst (nets cfg g0 (x_seen s)) = x_eng s /\
  deliveries (snd (nets cfg g0 (x_seen s))) = x_pipe s ++ x_buf s ++ x_dropped s /\
  (x_over s = false -> x_dropped s = [] /\ has_err (snd (nets cfg g0 (x_seen s))) = false) /\
  (has_err (snd (nets cfg g0 (x_seen s))) = true -> x_over s = true).

Lemma rx_inv_new cfg t g0 input : rx_inv cfg g0 input (x_new t g0 input).
Proof. unfold rx_inv, x_new. cbn. repeat split; auto; discriminate. Qed.

Lemma firstn_skipn_app3 {A} (k : nat) (p b : list A) : (p ++ firstn k b) ++ skipn k b = p ++ b.
Proof. rewrite <- app_assoc, firstn_skipn. reflexivity. Qed.

Lemma rx_step_inv gate cfg g0 input s e : rx_inv cfg g0 input s -> rx_inv cfg g0 input (x_step gate cfg s e).
Proof.
  intros Hinv. unfold x_step. destruct (x_over s) eqn:Eo; [exact Hinv|].
  destruct Hinv as (H1 & H2 & H3 & H4 & H5).
  destruct (H4 Eo) as [Hd Hne].
  destruct e as [|k].
  - destruct (gate s); [|repeat split; auto].
    destruct (x_in s) as [|[d t] rest] eqn:Ei.
    + unfold rx_inv. cbn [x_seen x_in x_eng x_pipe x_buf x_dropped x_over].
      repeat split; auto; try discriminate.
      rewrite H3, Hd, app_nil_r. reflexivity.
    + pose proof (nets_snoc cfg (x_seen s) g0 d t) as Hs.
      destruct (nets cfg g0 (x_seen s)) as [g1 o1] eqn:En. cbn [fst snd] in *. subst g1.
      destruct (e_net cfg (x_eng s) d t) as [g o] eqn:Ee.
      destruct (has_err o) eqn:Eh; unfold rx_inv; cbn [x_seen x_in x_eng x_pipe x_buf x_dropped x_over];
        rewrite Hs; cbn [fst snd]; rewrite deliveries_app, has_err_app, Hne, Eh; cbn [orb];
        (split; [rewrite <- app_assoc; cbn [app]; exact H1|]);
        (split; [reflexivity|]); rewrite H3, Hd, app_nil_r.
      * split; [rewrite <- !app_assoc; reflexivity|]. split; [discriminate|auto].
      * split; [rewrite app_nil_r, <- !app_assoc; reflexivity|]. split; [auto|discriminate].
  - unfold rx_inv. cbn [x_seen x_in x_eng x_pipe x_buf x_dropped x_over].
    repeat split; auto; [|rewrite Hne; discriminate].
    rewrite H3, Hd, !app_nil_r. symmetry. apply firstn_skipn_app3.
Qed.

Lemma rx_run_inv gate cfg g0 input : forall es s, rx_inv cfg g0 input s -> rx_inv cfg g0 input (x_run gate cfg s es).
Proof. induction es as [|e es IH]; intros s H; [exact H|]. cbn [x_run]. apply IH. apply rx_step_inv. exact H. Qed.

(* conservation, for every gate and every schedule: handed to the pipe ++ still buffered ++ dropped with the loop =
   the engine's deliveries for the chunks read so far, in order *)
Theorem rx_conservation gate cfg t g0 input es :
  let s := x_run gate cfg (x_new t g0 input) es in
  x_pipe s ++ x_buf s ++ x_dropped s = deliveries (snd (nets cfg g0 (x_seen s))) /\ x_seen s ++ x_in s = input.
Proof.
  cbn zeta. destruct (rx_run_inv gate cfg g0 input es _ (rx_inv_new cfg t g0 input)) as (H1 & _ & H3 & _).
  split; [symmetry; exact H3|exact H1].
Qed.

(* with the code's gate (read arm only while ingress_buffer is empty) the buffer is empty whenever EOF can be seen *)
Lemma rx_gate_empty_eof cfg g0 input s e :
  rx_inv cfg g0 input s -> x_over s = false -> x_over (x_step gate_empty cfg s e) = true ->
  has_err (snd (nets cfg g0 (x_seen (x_step gate_empty cfg s e)))) = false ->
  x_dropped (x_step gate_empty cfg s e) = [] /\ x_in (x_step gate_empty cfg s e) = [] /\ x_buf (x_step gate_empty cfg s e) = [].
Proof.
  intros (H1 & H2 & H3 & H4 & H5) Eo. unfold x_step. rewrite Eo. destruct e as [|k]; [|cbn; discriminate].
  unfold gate_empty. destruct (x_buf s) eqn:Eb; [|rewrite Eo; discriminate].
  destruct (x_in s) as [|[d t] rest] eqn:Ei.
  - cbn. auto.
  - pose proof (nets_snoc cfg (x_seen s) g0 d t) as Hs.
    destruct (nets cfg g0 (x_seen s)) as [g1 o1] eqn:En. cbn [fst snd] in *. subst g1.
    destruct (e_net cfg (x_eng s) d t) as [g o] eqn:Ee.
    destruct (has_err o) eqn:Eh; cbn [x_over x_seen x_dropped x_in x_buf]; [|discriminate].
    intros _. rewrite Hs. cbn [snd]. rewrite has_err_app, Eh, orb_true_r. discriminate.
Qed.

(* no message is lost to the peer's EOF: for an error-free stream, every schedule, every segmentation - once the
   loop has been left, everything the engine decoded from the WHOLE stream has been handed to the pipe *)
Theorem rx_eof_loses_nothing cfg t g0 input : has_err (snd (nets cfg g0 input)) = false ->
  forall es, let s := x_run gate_empty cfg (x_new t g0 input) es in
  x_dropped s = [] /\ (x_over s = true -> x_pipe s = deliveries (snd (nets cfg g0 input))).
Proof.
  intros Hok.
  assert (Hpre : forall seen rest, seen ++ rest = input -> has_err (snd (nets cfg g0 seen)) = false).
  { intros seen rest E. subst input. clear -Hok. revert g0 Hok.
    induction seen as [|[d t0] seen IH]; intros g0 Hok; [reflexivity|].
    cbn [app nets] in *. destruct (e_net cfg g0 d t0) as [g1 o1].
    specialize (IH g1). destruct (nets cfg g1 (seen ++ rest)) as [g2 o2]. destruct (nets cfg g1 seen) as [g3 o3].
    cbn [snd] in *. rewrite has_err_app in *. apply orb_false_iff in Hok. destruct Hok as [Ha Hb].
    rewrite Ha, (IH Hb). reflexivity. }
  (* strengthened invariant along the run *)
  assert (Hrun : forall es s, rx_inv cfg g0 input s ->
            (x_dropped s = [] /\ (x_over s = true -> x_in s = [] /\ x_buf s = [])) ->
            let s' := x_run gate_empty cfg s es in
            rx_inv cfg g0 input s' /\ x_dropped s' = [] /\ (x_over s' = true -> x_in s' = [] /\ x_buf s' = [])).
  { induction es as [|e es IH]; intros s Hi Hs; [cbn; auto|].
    cbn [x_run]. apply IH; [apply rx_step_inv; exact Hi|].
    destruct (x_over s) eqn:Eo.
    - unfold x_step. rewrite Eo. destruct Hs as [A B]. split; [exact A|]. intros _. apply B. reflexivity.
    - pose proof (rx_step_inv gate_empty cfg g0 input s e Hi) as Hi'.
      destruct (x_over (x_step gate_empty cfg s e)) eqn:Eo'.
      + destruct Hi' as (H1' & _).
        destruct (rx_gate_empty_eof cfg g0 input s e Hi Eo Eo' (Hpre _ _ H1')) as (A & B & C). auto.
      + destruct Hi' as (_ & _ & _ & H4' & _). destruct (H4' Eo') as [A _]. split; [exact A|discriminate]. }
  intros es. cbn zeta.
  destruct (Hrun es (x_new t g0 input) (rx_inv_new cfg t g0 input)) as (Hi & Hd & Ho).
  { cbn. split; [reflexivity|discriminate]. }
  split; [exact Hd|]. intros Hov. destruct (Ho Hov) as [Hin Hb].
  destruct Hi as (H1 & _ & H3 & _). rewrite Hin, app_nil_r in H1. rewrite H1 in H3.
  rewrite H3, Hb, Hd, !app_nil_r. reflexivity.
Qed.

(* ... and that sequence does not depend on how the stream was cut into reads *)
Corollary rx_eof_segmentation_independent cfg t input1 input2 :
  concat (map fst input1) = concat (map fst input2) ->
  has_err (snd (nets cfg (e_new t) input1)) = false ->
  forall es1 es2,
  let s1 := x_run gate_empty cfg (x_new t (e_new t) input1) es1 in
  let s2 := x_run gate_empty cfg (x_new t (e_new t) input2) es2 in
  x_over s1 = true -> x_over s2 = true -> x_pipe s1 = x_pipe s2.
Proof.
  intros Hc Hok es1 es2. cbn zeta. intros O1 O2.
  pose proof (engine_chunk_independent cfg (e_new t) input1 input2 (e_new_quiescent cfg t) Hc) as HI.
  destruct (nets cfg (e_new t) input1) as [g1 o1] eqn:E1. destruct (nets cfg (e_new t) input2) as [g2 o2] eqn:E2.
  destruct HI as (_ & _ & ->).
  destruct (rx_eof_loses_nothing cfg t (e_new t) input1 ltac:(rewrite E1; exact Hok) es1) as [_ P1].
  destruct (rx_eof_loses_nothing cfg t (e_new t) input2 ltac:(rewrite E2; cbn [snd] in *; exact Hok) es2) as [_ P2].
  rewrite (P1 O1), (P2 O2), E1, E2. reflexivity.
Qed.

(* ---------- witnesses ---------- *)
Definition two_msgs : bytes :=
  legacy_witness_stream ++ enc_codec (data_frame false [4; 5; 6]).
Definition gate_lwm2 (s : rx) : bool := (length (x_buf s) <? 2)%nat.

(* a gate that lets the read arm run while messages are still buffered (a refill threshold) loses the buffered
   tail to the peer's EOF *)
Theorem rx_refill_gate_loses_refuted :
  let s := x_run gate_lwm2 legacy_witness_cfg (x_new 0 (e_new 0) [(legacy_witness_stream, 0)]) [XRead; XRead] in
  has_err (snd (nets legacy_witness_cfg (e_new 0) [(legacy_witness_stream, 0)])) = false /\
  x_over s = true /\ x_pipe s = [] /\ x_dropped s = [[data_frame false [1; 2; 3]]] /\
  (* the code's gate leaves the second poll of the read arm disabled until the message has been handed over *)
  x_over (x_run gate_empty legacy_witness_cfg (x_new 0 (e_new 0) [(legacy_witness_stream, 0)]) [XRead; XRead]) = false.
Proof. vm_compute. repeat split; reflexivity. Qed.

(* with the code's gate: messages decoded in the same read as a later protocol error are dropped with the loop, so for
   a stream that ENDS IN AN ERROR what the application gets does depend on the segmentation *)
Definition error_tail : bytes := enc_codec (cmd_frame (5 :: s_ERROR ++ [0])).
Theorem rx_error_tail_depends_on_cuts_refuted :
  let one := x_run gate_empty legacy_witness_cfg (x_new 0 (e_new 0) [(two_msgs ++ error_tail, 0)]) [XRead; XDrain 5] in
  let two := x_run gate_empty legacy_witness_cfg (x_new 0 (e_new 0) [(two_msgs, 0); (error_tail, 0)]) [XRead; XDrain 5; XRead] in
  x_over one = true /\ x_over two = true /\ x_pipe one = [] /\ length (x_pipe two) = 2%nat.
Proof. vm_compute. repeat split; reflexivity. Qed.
