From RZ Require Import Base.Prelude Model.UringPool.
From Coq Require Import Permutation.

(* ------------------------------------------------------------------ generic list facts *)

Lemma set_nth_length {X} (l : list X) i v : length (set_nth l i v) = length l.
Proof. revert i. induction l as [|h t IH]; intros [|i]; cbn; auto. Qed.

Lemma memb_In i l : memb i l = true <-> In i l.
Proof.
  unfold memb. rewrite existsb_exists. split.
  - intros (x & Hx & He). apply Nat.eqb_eq in He. subst. exact Hx.
  - intros H. exists i. split; [exact H | apply Nat.eqb_refl].
Qed.
Lemma memb_false i l : memb i l = false <-> ~ In i l.
Proof. rewrite <- memb_In. destruct (memb i l); split; congruence. Qed.

Lemma remove1_perm i l : In i l -> Permutation l (i :: remove1 i l).
Proof.
  induction l as [|h t IH]; [contradiction|]. intros H. cbn.
  destruct (Nat.eqb i h) eqn:E.
  - apply Nat.eqb_eq in E. subst. reflexivity.
  - destruct H as [->|H]; [rewrite Nat.eqb_refl in E; discriminate|].
    rewrite (IH H) at 1. apply perm_swap.
Qed.

Lemma NoDup_snoc {X} (l : list X) x : NoDup l -> ~ In x l -> NoDup (l ++ [x]).
Proof.
  induction l as [|h t IH]; intros Hn Hx; cbn.
  - constructor; [intros []|constructor].
  - inversion Hn; subst. constructor.
    + intros Hi. apply in_app_or in Hi. destruct Hi as [Hi|[->|[]]]; [auto|]. apply Hx. left. reflexivity.
    + apply IH; [assumption|]. intros Hi. apply Hx. right. exact Hi.
Qed.
Lemma NoDup_app_disjoint {X} (a b : list X) x : NoDup (a ++ b) -> In x a -> In x b -> False.
Proof.
  induction a as [|h t IH]; intros Hn Ha Hb; [contradiction|].
  cbn in Hn. inversion Hn; subst. destruct Ha as [->|Ha].
  - apply H1. apply in_or_app. right. exact Hb.
  - eapply IH; eauto.
Qed.

Lemma tk_eqb_eq a b : tk_eqb a b = true <-> a = b.
Proof.
  unfold tk_eqb. rewrite andb_true_iff, !Nat.eqb_eq. destruct a, b; cbn. split.
  - intros [-> ->]. reflexivity.
  - intros H. inversion H. auto.
Qed.
Lemma hmem_In x l : hmem x l = true <-> In x l.
Proof.
  unfold hmem. rewrite existsb_exists. split.
  - intros (y & Hy & He). apply tk_eqb_eq in He. subst. exact Hy.
  - intros H. exists x. split; [exact H | apply tk_eqb_eq; reflexivity].
Qed.
Lemma hremove_perm x l : In x l -> Permutation (map snd l) (snd x :: map snd (hremove x l)).
Proof.
  induction l as [|h t IH]; [contradiction|]. intros H. cbn [hremove].
  destruct (tk_eqb x h) eqn:E.
  - apply tk_eqb_eq in E. subst. reflexivity.
  - destruct H as [->|H]; [assert (tk_eqb x x = true) by (apply tk_eqb_eq; reflexivity); congruence|].
    cbn [map]. rewrite (IH H) at 1. apply perm_swap.
Qed.

(* ------------------------------------------------------------------ send buffer pool *)

Definition pool_wf (p : pool) : Prop :=
  NoDup (p_free p) /\ Forall (fun i => i < length (p_inuse p)) (p_free p).

Lemma pool_new_wf count cap : pool_wf (pool_new count cap).
Proof.
  unfold pool_new, pool_wf. destruct count as [|c]; [cbn; split; constructor|].
  destruct cap as [|k]; [cbn; split; constructor|]. cbn [p_free p_inuse].
  rewrite repeat_length. split; [apply seq_NoDup|].
  apply Forall_forall. intros x Hx. apply in_seq in Hx. lia.
Qed.

Lemma pool_release_wf p id : pool_wf p -> pool_wf (pool_release p id).
Proof.
  intros [Hn Hf]. unfold pool_release. destruct (id <? length (p_inuse p)) eqn:E; [|split; assumption].
  apply Nat.ltb_lt in E. unfold pool_wf. cbn [p_free p_inuse]. rewrite set_nth_length.
  destruct (memb id (p_free p)) eqn:M; [split; assumption|].
  apply memb_false in M. split.
  - apply NoDup_snoc; assumption.
  - apply Forall_app. split; [exact Hf|]. constructor; [exact E|constructor].
Qed.

Lemma pool_take_wf p id rest :
  pool_wf p -> p_free p = id :: rest ->
  pool_wf {| p_cap := p_cap p; p_inuse := set_nth (p_inuse p) id true; p_free := rest |}.
Proof.
  intros [Hn Hf] E. rewrite E in *. unfold pool_wf. cbn [p_free p_inuse]. rewrite set_nth_length.
  inversion Hn; subst. inversion Hf; subst. split; assumption.
Qed.

Lemma pool_step_wf p o : pool_wf p -> pool_wf (fst (pool_step p o)).
Proof.
  intros H. destruct o as [len| |id|id fl]; cbn [pool_step].
  - unfold pool_acquire. destruct len; [exact H|]. destruct (p_inuse p) eqn:Ei; [exact H|].
    destruct (p_free p) as [|id rest] eqn:Ef; [exact H|].
    destruct (p_cap p <? S len); [exact H|]. cbn [fst]. rewrite <- Ei. apply pool_take_wf; assumption.
  - unfold pool_lease. destruct (p_free p) as [|id rest] eqn:Ef; [exact H|]. cbn [fst].
    apply pool_take_wf; assumption.
  - apply pool_release_wf. exact H.
  - destruct fl; [exact H|]. apply pool_release_wf. exact H.
Qed.

Lemma pool_step_len p o : length (p_inuse (fst (pool_step p o))) = length (p_inuse p).
Proof.
  destruct p as [cap inuse free].
  destruct o as [len| |id|id fl]; cbn [pool_step].
  - unfold pool_acquire. cbn [p_inuse p_free p_cap]. destruct len; [reflexivity|]. destruct inuse as [|b0 bs]; [reflexivity|].
    destruct free; [reflexivity|]. destruct (cap <? S len); [reflexivity|].
    cbn [fst p_inuse]. apply set_nth_length.
  - unfold pool_lease. cbn [p_inuse p_free p_cap]. destruct free; [reflexivity|]. cbn [fst p_inuse]. apply set_nth_length.
  - cbn [fst]. unfold pool_release. cbn [p_inuse p_free p_cap]. destruct (id <? _); [cbn [p_inuse]; apply set_nth_length|reflexivity].
  - destruct fl; [reflexivity|]. cbn [fst]. unfold pool_release. cbn [p_inuse p_free p_cap].
    destruct (id <? _); [cbn [p_inuse]; apply set_nth_length|reflexivity].
Qed.

Lemma pool_run_wf : forall os p, pool_wf p ->
  pool_wf (fst (pool_run p os)) /\ length (p_inuse (fst (pool_run p os))) = length (p_inuse p).
Proof.
  induction os as [|o os IH]; intros p H; [split; [exact H|reflexivity]|].
  cbn [pool_run]. pose proof (pool_step_wf p o H) as H1. pose proof (pool_step_len p o) as L1.
  destruct (pool_step p o) as [p1 r]. cbn [fst] in *.
  destruct (IH p1 H1) as [H2 L2]. destruct (pool_run p1 os) as [p2 rs]. cbn [fst] in *.
  split; [exact H2|congruence].
Qed.

(* for EVERY order of acquire / lease / release / drop - double, stale and unknown releases
   included - an id is never twice in the free list and only real ids are in it *)
Theorem pool_free_nodup_thm : forall count cap os,
  let p := fst (pool_run (pool_new count cap) os) in
  NoDup (p_free p) /\ Forall (fun i => i < length (p_inuse p)) (p_free p) /\
  length (p_inuse p) = length (p_inuse (pool_new count cap)).
Proof.
  intros count cap os p. destruct (pool_run_wf os _ (pool_new_wf count cap)) as [[H1 H2] H3].
  repeat split; assumption.
Qed.

Definition pool_cons (p : pool) (held : list (nat * nat)) : Prop :=
  Permutation (p_free p ++ map snd held) (seq 0 (length (p_inuse p))).

Lemma cons_take p held id rest k :
  pool_cons p held -> p_free p = id :: rest ->
  pool_cons {| p_cap := p_cap p; p_inuse := set_nth (p_inuse p) id true; p_free := rest |} ((k, id) :: held).
Proof.
  unfold pool_cons. intros H E. rewrite E in H. cbn [p_free p_inuse map snd]. rewrite set_nth_length.
  rewrite <- H. cbn. symmetry. apply Permutation_middle.
Qed.

Lemma cons_release p held t id :
  pool_cons p held -> In (t, id) held -> pool_cons (pool_release p id) (hremove (t, id) held).
Proof.
  unfold pool_cons. intros H Hin.
  assert (Hid : In id (map snd held)) by (apply (in_map snd) in Hin; exact Hin).
  assert (Hnd : NoDup (p_free p ++ map snd held)).
  { eapply Permutation_NoDup; [symmetry; exact H|apply seq_NoDup]. }
  assert (Hlt : id < length (p_inuse p)).
  { assert (In id (seq 0 (length (p_inuse p)))) as Hs.
    { eapply Permutation_in; [exact H|]. apply in_or_app. right. exact Hid. }
    apply in_seq in Hs. lia. }
  assert (Hnf : ~ In id (p_free p)).
  { intros Hf. exact (NoDup_app_disjoint _ _ id Hnd Hf Hid). }
  unfold pool_release. apply Nat.ltb_lt in Hlt. rewrite Hlt. cbn [p_free p_inuse]. rewrite set_nth_length.
  apply memb_false in Hnf. rewrite Hnf.
  rewrite <- H. rewrite <- app_assoc. apply Permutation_app_head. cbn [app].
  symmetry. apply (hremove_perm (t, id) held Hin).
Qed.

Lemma pool_conservation_gen : forall os p held k,
  pool_cons p held -> snd (pool_ghost p held k os) = true ->
  pool_cons (fst (pool_run p (map fst os))) (fst (pool_ghost p held k os)).
Proof.
  induction os as [|[o t] os IH]; intros p held k Hc Hok; [exact Hc|].
  cbn [map fst pool_run pool_ghost] in *.
  destruct o as [len| |id|id fl].
  - (* acquire *)
    cbn [pool_step] in *. unfold pool_acquire in *.
    destruct len as [|len].
    { specialize (IH p held (S k) Hc). destruct (pool_run p (map fst os)). apply IH. exact Hok. }
    destruct (p_inuse p) as [|b0 bs] eqn:Ei.
    { specialize (IH p held (S k) Hc). destruct (pool_run p (map fst os)). apply IH. exact Hok. }
    destruct (p_free p) as [|id rest] eqn:Ef.
    { specialize (IH p held (S k) Hc). destruct (pool_run p (map fst os)). apply IH. exact Hok. }
    destruct (p_cap p <? S len).
    { specialize (IH p held (S k) Hc). destruct (pool_run p (map fst os)). apply IH. exact Hok. }
    rewrite <- Ei in *.
    pose proof (cons_take p held id rest k Hc Ef) as Hc1.
    specialize (IH _ _ (S k) Hc1).
    destruct (pool_run _ (map fst os)). apply IH. exact Hok.
  - cbn [pool_step] in *. unfold pool_lease in *.
    destruct (p_free p) as [|id rest] eqn:Ef.
    { specialize (IH p held (S k) Hc). destruct (pool_run p (map fst os)). apply IH. exact Hok. }
    pose proof (cons_take p held id rest k Hc Ef) as Hc1.
    specialize (IH _ _ (S k) Hc1).
    destruct (pool_run _ (map fst os)). apply IH. exact Hok.
  - cbn [pool_step] in *.
    destruct (pool_ghost (pool_release p id) (hremove (t, id) held) (S k) os) as [h ok] eqn:Eg.
    cbn [fst snd] in *. apply andb_true_iff in Hok. destruct Hok as [Hm Hok].
    apply hmem_In in Hm. pose proof (cons_release p held t id Hc Hm) as Hc1.
    specialize (IH _ _ (S k) Hc1). rewrite Eg in IH. cbn [fst snd] in IH.
    destruct (pool_run (pool_release p id) (map fst os)). apply IH. exact Hok.
  - destruct fl.
    + cbn [pool_step] in *.
      destruct (pool_ghost p held (S k) os) as [h ok] eqn:Eg.
      cbn [fst snd] in *. apply andb_true_iff in Hok. destruct Hok as [Hm Hok].
      specialize (IH p held (S k) Hc). rewrite Eg in IH. cbn [fst snd] in IH.
      destruct (pool_run p (map fst os)). apply IH. exact Hok.
    + cbn [pool_step] in *.
      destruct (pool_ghost (pool_release p id) (hremove (t, id) held) (S k) os) as [h ok] eqn:Eg.
      cbn [fst snd] in *. apply andb_true_iff in Hok. destruct Hok as [Hm Hok].
      apply hmem_In in Hm. pose proof (cons_release p held t id Hc Hm) as Hc1.
      specialize (IH _ _ (S k) Hc1). rewrite Eg in IH. cbn [fst snd] in IH.
      destruct (pool_run (pool_release p id) (map fst os)). apply IH. exact Hok.
Qed.

Lemma pool_new_cons count cap : pool_cons (pool_new count cap) [].
Proof.
  unfold pool_cons, pool_new. destruct count as [|c]; [cbn; constructor|].
  destruct cap; [cbn; constructor|]. cbn [p_free p_inuse map]. rewrite repeat_length, app_nil_r. reflexivity.
Qed.

(* free (+) held = all ids, for every disciplined history *)
Theorem pool_conservation_thm : forall count cap os,
  snd (pool_ghost (pool_new count cap) [] 0 os) = true ->
  let p := fst (pool_run (pool_new count cap) (map fst os)) in
  let held := fst (pool_ghost (pool_new count cap) [] 0 os) in
  Permutation (p_free p ++ map snd held) (seq 0 (length (p_inuse p))).
Proof. intros count cap os H. apply pool_conservation_gen; [apply pool_new_cons|exact H]. Qed.

(* ... hence when every holder has given its buffer back the pool is full again *)
Theorem pool_refills_thm : forall count cap os,
  snd (pool_ghost (pool_new count cap) [] 0 os) = true ->
  fst (pool_ghost (pool_new count cap) [] 0 os) = [] ->
  length (p_free (fst (pool_run (pool_new count cap) (map fst os)))) = length (p_inuse (pool_new count cap)).
Proof.
  intros count cap os H He. pose proof (pool_conservation_thm count cap os H) as P. cbn zeta in P.
  rewrite He in P. cbn [map] in P. rewrite app_nil_r in P.
  apply Permutation_length in P. rewrite seq_length in P. rewrite P.
  apply (pool_run_wf (map fst os) _ (pool_new_wf count cap)).
Qed.

(* a double release (the first holder's id released once more after the buffer has been handed to
   a second holder): the free list stays duplicate-free, but the id is free AND held, and the next
   acquisition gives the same registered buffer to a second holder *)
Definition double_release_history : list (pop * nat) :=
  [(PAcquire 4, 0); (PRelease 0, 0); (PAcquire 4, 0); (PRelease 0, 0); (PAcquire 4, 0)].
Theorem pool_double_release_refuted_thm :
  snd (pool_ghost (pool_new 1 8) [] 0 double_release_history) = false /\
  map snd (fst (pool_ghost (pool_new 1 8) [] 0 double_release_history)) = [0; 0] /\
  snd (pool_run (pool_new 1 8) (map fst double_release_history)) = [Some 0; None; Some 0; None; Some 0].
Proof. vm_compute. repeat split. Qed.
