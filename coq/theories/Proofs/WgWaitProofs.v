(* WaitGroup::wait vs done(): the lost wake-up, and where it cannot happen. *)
From RZ Require Import Base.Prelude Model.WgWait.

(* no notify_waiters() lands between the check and the creation of the Notified future *)
Fixpoint ggap_free (s : gst) (xs : list gsch) : Prop :=
  match xs with
  | [] => True
  | x :: xs' => match x with GE ENotify => g_pc s <> GCreate | _ => True end /\ ggap_free (gsstep s x) xs'
  end.

(* "the count is non-zero, or a done() that zeroed it has still to notify" *)
Definition gpending (s : gst) : Prop := 0 < g_count s \/ 0 < g_pend s.

Definition GJ (s : gst) : Prop :=
  (g_fixed s = true -> g_pc s <> GCreate /\ g_pc s <> GCheck) /\
  match g_pc s with
  | GCreate => gpending s
  | GFCheck seen => seen <= g_calls s
  | GAwait seen => seen <= g_calls s /\ (g_calls s = seen -> gpending s)
  | _ => True
  end.

Lemma GJ_init f : GJ (g0 f).
Proof. split; [intros _; split; discriminate|exact I]. Qed.

Lemma GJ_gstep s s' : GJ s -> gstep s = Some s' -> GJ s'.
Proof.
  destruct s as [n k pd f pc pn]. unfold GJ, gstep, gset_pc, gpending.
  cbn [g_pc g_fixed g_calls g_count g_pend]. intros [Hf HJ] H.
  destruct pc as [| |seen| | |seen|].
  - inversion H; subst; clear H. cbn [g_pc g_fixed g_count g_pend g_calls]. destruct (Nat.eqb_spec n 0).
    + split; [intros _; split; discriminate|exact I].
    + destruct f; cbn [g_pc g_count g_pend].
      * split; [intros _; split; discriminate|exact I].
      * split; [intros E; discriminate|]. left. lia.
  - inversion H; subst; clear H. cbn [g_pc g_fixed g_count g_pend g_calls]. split.
    + intros E. destruct (Hf E) as [Hc _]. congruence.
    + split; [lia|]. intros _. exact HJ.
  - destruct (Nat.eqb_spec k seen); [discriminate|]. inversion H; subst; clear H. cbn [g_pc g_fixed].
    destruct f; (split; [intros E; try discriminate; split; discriminate|]); exact I.
  - inversion H; subst; clear H. cbn [g_pc g_fixed g_count g_pend g_calls]. split.
    + intros E. destruct (Hf E) as [_ Hc]. congruence.
    + destruct (Nat.eqb_spec n 0); [exact I|]. cbn [g_pc g_count g_pend]. left. lia.
  - inversion H; subst; clear H. cbn [g_pc g_fixed g_calls]. split; [intros _; split; discriminate|lia].
  - inversion H; subst; clear H. cbn [g_pc g_fixed g_count g_pend g_calls]. split.
    + intros _. destruct (n =? 0); split; discriminate.
    + destruct (Nat.eqb_spec n 0); [exact I|]. cbn [g_pc g_count g_pend g_calls]. split; [exact HJ|]. intros _. left. lia.
  - discriminate.
Qed.

Lemma GJ_gestep s e : GJ s -> (e = ENotify -> g_pc s <> GCreate) -> GJ (gestep s e).
Proof.
  destruct s as [n k pd f pc pn]. unfold GJ, gpending. cbn [g_pc g_fixed g_calls g_count g_pend].
  intros [Hf HJ] Hne. destruct e as [d| |]; cbn [gestep g_pc g_fixed g_calls g_count g_pend].
  - split; [exact Hf|]. destruct pc; auto; [lia|]. destruct HJ as [H1 H2]. split; [exact H1|]. intros E. specialize (H2 E). lia.
  - destruct n as [|n']; cbn [g_pc g_fixed g_calls g_count g_pend]; (split; [exact Hf|]).
    + destruct pc; auto.
    + destruct pc; auto.
      * destruct (Nat.eqb_spec n' 0); lia.
      * destruct HJ as [H1 H2]. split; [exact H1|]. intros E. specialize (H2 E). destruct (Nat.eqb_spec n' 0); lia.
  - destruct pd as [|pd']; cbn [g_pc g_fixed g_calls g_count g_pend]; (split; [exact Hf|]); [exact HJ|].
    destruct pc; auto; try lia. exfalso. apply Hne; reflexivity.
Qed.

Lemma GJ_grun xs : forall s, GJ s -> ggap_free s xs -> GJ (grun xs s).
Proof.
  induction xs as [|x xs IH]; intros s HJ Hg; [exact HJ|]. simpl in *. destruct Hg as [Hx Hg].
  apply IH; [|exact Hg]. destruct x as [|e]; simpl.
  - destruct (gstep s) as [s'|] eqn:E; [eapply GJ_gstep; eauto|exact HJ].
  - apply GJ_gestep; [exact HJ|]. intros ->. exact Hx.
Qed.

Lemma GJ_not_lost s : GJ s -> glost s = false.
Proof.
  unfold GJ, glost, gpending. intros [_ HJ]. destruct (g_pc s); auto.
  destruct (Nat.eqb_spec (g_calls s) seen) as [E|]; [|reflexivity]. destruct HJ as [_ HJ]. specialize (HJ E).
  destruct (Nat.eqb_spec (g_count s) 0); [|reflexivity]. destruct (Nat.eqb_spec (g_pend s) 0); [lia|reflexivity].
Qed.

(* the defect: the count is checked (1), done() brings it to 0 and notifies nobody, then
   notified() is created and awaited: the waiter sleeps with count = 0 *)
Theorem wg_lost_wakeup_refuted :
  exists xs, glost (grun xs (g0 false)) = true /\ gstep (grun xs (g0 false)) = None /\
             g_count (grun xs (g0 false)) = 0.
Proof. exists [GE (EAdd 1); GW; GE EDec; GE ENotify; GW]. repeat split; reflexivity. Qed.

(* once lost, only a later done() that zeroes the count again (after an add) wakes the waiter *)
Theorem wg_lost_stays_lost s e : glost s = true -> g_panic s = false ->
  match e with EAdd _ => True | EDec => False | ENotify => True end ->
  match g_pc (gestep s e) with GAwait seen => g_calls (gestep s e) = seen | _ => False end.
Proof.
  unfold glost. destruct s as [n k pd f pc pn]. cbn [g_pc g_calls g_count g_pend]. destruct pc; try discriminate.
  intros H _ He. apply andb_true_iff in H as [H H3]. apply andb_true_iff in H as [H1 H2].
  apply Nat.eqb_eq in H1, H2, H3. subst. destruct e; try tauto; cbn [gestep g_pc g_calls g_pend]; reflexivity.
Qed.

(* the property holds on every schedule outside that window ... *)
Theorem wg_safe_outside xs : ggap_free (g0 false) xs -> glost (grun xs (g0 false)) = false.
Proof. intros H. apply GJ_not_lost, GJ_grun; [apply GJ_init|exact H]. Qed.

(* ... and on every schedule at all when the future is created before the check *)
Lemma gfixed_gap_free xs : forall s, GJ s -> g_fixed s = true -> ggap_free s xs.
Proof.
  induction xs as [|x xs IH]; intros s HJ Hf; simpl; [exact I|]. split.
  - destruct x as [|e]; [exact I|]. destruct e; try exact I. destruct HJ as [H _]. apply H. exact Hf.
  - assert (Hf' : g_fixed (gsstep s x) = true).
    { destruct x as [|e]; simpl.
      - unfold gstep. destruct (g_pc s); try exact Hf; simpl; try exact Hf.
        destruct (g_calls s =? seen); exact Hf.
      - destruct e; simpl; try exact Hf; [destruct (g_count s)|destruct (g_pend s)]; exact Hf. }
    apply IH; [|exact Hf'].
    destruct x as [|e]; simpl.
    + destruct (gstep s) as [s'|] eqn:E; [eapply GJ_gstep; eauto|exact HJ].
    + apply GJ_gestep; [exact HJ|]. intros _. destruct HJ as [H _]. apply H. exact Hf.
Qed.

Theorem wg_fixed_safe xs : glost (grun xs (g0 true)) = false.
Proof.
  apply GJ_not_lost, GJ_grun; [apply GJ_init|]. apply gfixed_gap_free; [apply GJ_init|reflexivity].
Qed.

(* liveness of the code as it is now: a parked waiter returns as soon as the count is zero and the
   zeroing done() has notified - it is runnable, and its next three steps (wake, create, check) return *)
Theorem wg_proceeds s seen : GJ s -> g_fixed s = true -> g_pc s = GAwait seen ->
  g_count s = 0 -> g_pend s = 0 -> g_pc (grun [GW; GW; GW] s) = GDone.
Proof.
  destruct s as [n k pd f pc pn]. unfold GJ, gpending. cbn [g_pc g_fixed g_calls g_count g_pend].
  intros [_ HJ] -> -> -> ->. destruct HJ as [H1 H2].
  cbv beta iota zeta delta [grun fold_left gsstep gstep g_pc g_calls g_fixed gset_pc g_count g_pend].
  destruct (Nat.eqb_spec k seen) as [E|_]; [specialize (H2 E); lia|].
  cbv beta iota zeta delta [gstep g_pc g_calls g_fixed gset_pc g_count g_pend]. reflexivity.
Qed.

(* every poll of the fixed code that ends parked leaves a waiter that has not lost its wake-up;
   a poll that finds the count at zero with no notify outstanding returns *)
Theorem wg_fixed_poll_returns xs : let s := grun xs (g0 true) in
  g_count s = 0 -> g_pend s = 0 -> gstep s = None -> g_pc s = GDone.
Proof.
  intros s H0 Hp Hn. assert (HJ : GJ s).
  { apply GJ_grun; [apply GJ_init|]. apply gfixed_gap_free; [apply GJ_init|reflexivity]. }
  unfold gstep in Hn. destruct HJ as [_ HJ]. unfold gpending in HJ.
  destruct (g_pc s) eqn:E; try discriminate; try reflexivity.
  destruct (Nat.eqb_spec (g_calls s) seen) as [Ec|]; [|discriminate]. destruct HJ as [_ HJ]. specialize (HJ Ec). lia.
Qed.
