(* Lemmas about Model/Isolation.v (property C17, isolation part). *)
From RZ Require Import Base.Prelude Model.Backoff Model.Isolation Proofs.BackoffProofs.
Local Open Scope N_scope.

Lemma phase_eqb_spec a b : phase_eqb a b = true <-> a = b.
Proof. destruct a, b; cbn; split; intros H; try reflexivity; try discriminate. Qed.

Lemma initiate_shutdown_not_running s : ph (initiate_shutdown s) <> Running.
Proof. unfold initiate_shutdown. destruct (ph s) eqn:E; cbn; rewrite ?E; discriminate. Qed.
Lemma initiate_shutdown_eps s : eps (initiate_shutdown s) = eps s.
Proof. unfold initiate_shutdown. destruct (ph s); reflexivity. Qed.
Lemma initiate_shutdown_names s : inproc_names (initiate_shutdown s) = inproc_names s.
Proof. unfold initiate_shutdown. destruct (ph s); reflexivity. Qed.

(* ---------- the decision table: exactly which inputs take a Running socket out of Running ---------- *)

Lemma handle_names c s i : inproc_names (fst (handle c s i)) = inproc_names s.
Proof.
  destruct i; cbn [handle]; repeat match goal with
  | |- context [if ?b then _ else _] => destruct b
  | |- context [match ?x with _ => _ end] => destruct x
  end; cbn [fst inproc_names]; try reflexivity; try apply initiate_shutdown_names.
  unfold connect_failed. destruct (ivl_positive c && negb (is_fatal_connect_error err)); reflexivity.
Qed.

Lemma step_names c s i : inproc_names (step c s i) = inproc_names s.
Proof.
  unfold step. pose proof (handle_names c s i) as H. destruct (handle c s i) as [s' f]. cbn [fst] in H.
  destruct f; [rewrite initiate_shutdown_names|]; exact H.
Qed.

Lemma stays_running_iff c s i : ph s = Running ->
  (ph (step c s i) = Running <-> keeps_running (inproc_names s) i = true).
Proof.
  intros Hr. unfold step.
  destruct i; cbn [handle keeps_running]; rewrite ?Hr; cbn [phase_eqb];
  repeat match goal with
  | |- context [if ?b then _ else _] => destruct b eqn:?
  | |- context [match ?x with _ => _ end] => destruct x eqn:?
  end; cbn [ph actor_stopping connect_failed add_endpoint negb andb orb]; rewrite ?Hr;
  try (split; [reflexivity|]; intros _; try reflexivity; assumption);
  try (split; intros H; try discriminate; exfalso; revert H; apply initiate_shutdown_not_running);
  try (unfold connect_failed; repeat match goal with |- context [if ?b then _ else _] => destruct b end; cbn [ph]; rewrite ?Hr; split; reflexivity).
  all: destruct compatible, mailbox_open; cbn [negb andb] in *; try discriminate;
    split; intros H; try reflexivity; try discriminate; exfalso; revert H; apply initiate_shutdown_not_running.
Qed.

(* ---------- endpoints other than the failed one are untouched ---------- *)

Lemma remove_by_id_keeps id l e : In e l -> e_id e <> id -> In e (remove_by_id id l).
Proof.
  induction l as [|x r IH]; cbn [remove_by_id In]; [tauto|]. intros [->|H] Hn.
  - destruct (e_id e =? id) eqn:E; [lia|]. left. reflexivity.
  - destruct (e_id x =? id); [exact H|]. right. apply IH; assumption.
Qed.
Lemma remove_by_id_subset id l e : In e (remove_by_id id l) -> In e l.
Proof.
  induction l as [|x r IH]; cbn [remove_by_id In]; [tauto|].
  destruct (e_id x =? id); [tauto|]. cbn [In]. intros [H|H]; [tauto|]. right. apply IH, H.
Qed.
Lemma remove_by_uri_keeps u l e : In e l -> e_uri e <> u -> In e (remove_by_uri u l).
Proof. intros H Hn. unfold remove_by_uri. apply filter_In. split; [exact H|]. lia. Qed.

Lemma step_keeps_endpoint c s i e :
  In e (eps s) -> stopped_id i <> Some (e_id e) -> added_uri i <> Some (e_uri e) -> In e (eps (step c s i)).
Proof.
  intros Hin Hs Ha. unfold step.
  destruct i; cbn [handle stopped_id added_uri] in *;
  repeat match goal with
  | |- context [if ?b then _ else _] => destruct b eqn:?
  | |- context [match ?x with _ => _ end] => destruct x eqn:?
  end; rewrite ?initiate_shutdown_eps; cbn [eps actor_stopping add_endpoint]; try exact Hin;
  try (unfold connect_failed; repeat match goal with |- context [if ?b then _ else _] => destruct b end; cbn [eps]; exact Hin).
  all: try (apply remove_by_id_keeps; [exact Hin|]; intros Heq; apply Hs; rewrite Heq; reflexivity).
  all: try (right; apply remove_by_uri_keeps; [exact Hin|]; intros Heq; apply Ha; rewrite Heq; reflexivity).
Qed.

(* ---------- runs ---------- *)

Lemma run_cons c s i r : run c s (i :: r) = run c (step c s i) r.
Proof. reflexivity. Qed.

Lemma run_stays_running c is : forall s, ph s = Running ->
  Forall (fun i => keeps_running (inproc_names s) i = true) is ->
  ph (run c s is) = Running /\ inproc_names (run c s is) = inproc_names s.
Proof.
  induction is as [|i r IH]; intros s Hr HF; [split; [exact Hr|reflexivity]|].
  rewrite run_cons. inversion HF as [|? ? Hi HF']; subst.
  assert (Hs : ph (step c s i) = Running) by (apply stays_running_iff; assumption).
  destruct (IH (step c s i) Hs) as [H1 H2]; [rewrite step_names; exact HF'|].
  split; [exact H1|]. rewrite H2. apply step_names.
Qed.

Lemma run_keeps_endpoint c is : forall s e, In e (eps s) ->
  (forall i, In i is -> stopped_id i <> Some (e_id e)) ->
  (forall i, In i is -> added_uri i <> Some (e_uri e)) ->
  In e (eps (run c s is)).
Proof.
  induction is as [|i r IH]; intros s e Hin Hs Ha; [exact Hin|].
  rewrite run_cons. apply IH.
  - apply step_keeps_endpoint; [exact Hin|apply Hs; left; reflexivity|apply Ha; left; reflexivity].
  - intros j Hj. apply Hs. right. exact Hj.
  - intros j Hj. apply Ha. right. exact Hj.
Qed.

(* connection faults never make a handler return Err, never touch the phase *)
Lemma conn_fault_keeps_running names i : is_conn_fault i = true -> keeps_running names i = true.
Proof. destruct i; cbn; try discriminate; reflexivity. Qed.
Lemma conn_fault_adds_nothing i : is_conn_fault i = true -> added_uri i = None.
Proof. destruct i; cbn; try discriminate; reflexivity. Qed.

(* fault_is_local: any sequence of connection faults (protocol violation, failed authentication,
   incompatible type, reset, EOF, timeout, refused / failed connection attempts ...) on a Running socket:
   the socket stays Running, its inproc bindings stay, and every endpoint (listener or connection)
   that is not itself reported as stopped is still there, unchanged. *)
Lemma fault_is_local c s is :
  ph s = Running -> Forall (fun i => is_conn_fault i = true) is ->
  ph (run c s is) = Running /\ inproc_names (run c s is) = inproc_names s /\
  forall e, In e (eps s) -> (forall i, In i is -> stopped_id i <> Some (e_id e)) -> In e (eps (run c s is)).
Proof.
  intros Hr HF.
  destruct (run_stays_running c is s Hr) as [H1 H2].
  { eapply Forall_impl; [|exact HF]. intros i Hi. apply conn_fault_keeps_running, Hi. }
  split; [exact H1|]. split; [exact H2|]. intros e Hin Hs. apply run_keeps_endpoint; [exact Hin|exact Hs|].
  intros i Hi. rewrite Forall_forall in HF. rewrite (conn_fault_adds_nothing i (HF i Hi)). discriminate.
Qed.

(* no endpoint appears out of a fault either *)
Lemma step_fault_subset c s i e : is_conn_fault i = true -> In e (eps (step c s i)) -> In e (eps s).
Proof.
  intros Hf. unfold step. destruct i; cbn in Hf; try discriminate.
  - destruct parent_is_me; [|discriminate]. destruct err; [|discriminate]. cbn [handle eps actor_stopping].
    apply remove_by_id_subset.
  - destruct parent_is_me; [|discriminate]. cbn [handle]. unfold connect_failed.
    destruct (ivl_positive c && negb (is_fatal_connect_error err)); cbn [eps]; tauto.
Qed.

(* ---------- reconnect bookkeeping ---------- *)

Lemma recon_get_set u v m : recon_get u (recon_set u v m) = Some v.
Proof.
  induction m as [|[k w] r IH]; cbn [recon_set recon_get]; [rewrite N.eqb_refl; reflexivity|].
  destruct (k =? u) eqn:E; cbn [recon_get]; rewrite E; [reflexivity|exact IH].
Qed.
Lemma recon_get_set_other u u' v m : u' <> u -> recon_get u' (recon_set u v m) = recon_get u' m.
Proof.
  intros Hn. induction m as [|[k w] r IH]; cbn [recon_set recon_get].
  - replace (u =? u') with false by lia. reflexivity.
  - destruct (k =? u) eqn:E; cbn [recon_get]; [replace (k =? u') with false by lia; reflexivity|].
    destruct (k =? u'); [reflexivity|exact IH].
Qed.

Definition cfg_base (c : cfg) : N := match reconnect_ivl c with Some b => b | None => 100000000 end.
Definition cfg_max (c : cfg) : N := match reconnect_ivl_max c with Some x => x | None => 60000000000 end.
Definition attempts_of (u : N) (s : core) : N := match recon_get u (recon s) with Some (a, _) => a | None => 0 end.

(* an outbound connection that fails with a non-fatal error while the socket runs is scheduled for a
   retry after exactly the back-off delay of Model/Backoff.v, and the attempt counter advances *)
Lemma reconnect_scheduled c s child u e er :
  ph s = Running -> find_by_id child (eps s) = Some e -> e_kind e = Session -> e_outbound e = true ->
  ivl_positive c = true -> is_fatal_connect_error er = false ->
  let s' := step c s (EvActorStopping true child (Some u) (Some er)) in
  ph s' = Running /\
  recon_get u (recon s') = Some (u32_sat_add (attempts_of u s) 1, Some (delay (cfg_base c) (cfg_max c) (attempts_of u s))) /\
  (forall u', u' <> u -> recon_get u' (recon s') = recon_get u' (recon s)).
Proof.
  intros Hr Hf Hk Ho Hi He. cbn zeta. unfold step. cbn [handle]. unfold actor_stopping.
  rewrite Hf, Hk, Ho, Hi, He, Hr. cbn [andb negb ph recon]. split; [reflexivity|].
  unfold recon_fail, attempts_of, cfg_base, cfg_max. split; [apply recon_get_set|].
  intros u' Hn. apply recon_get_set_other, Hn.
Qed.

(* the same for a failed connection attempt (connect refused, handshake failure reported by the connecter) *)
Lemma reconnect_scheduled_attempt c s u er :
  ivl_positive c = true -> is_fatal_connect_error er = false ->
  let s' := step c s (EvConnAttemptFailed true u er) in
  ph s' = ph s /\ eps s' = eps s /\
  recon_get u (recon s') = Some (u32_sat_add (attempts_of u s) 1, Some (delay (cfg_base c) (cfg_max c) (attempts_of u s))).
Proof.
  intros Hi He. cbn zeta. unfold step. cbn [handle]. unfold connect_failed. rewrite Hi, He. cbn [andb negb ph eps recon].
  split; [reflexivity|]. split; [reflexivity|]. apply recon_get_set.
Qed.

(* a completed handshake resets the back-off of that URI *)
Lemma handshake_resets_backoff c s u v :
  ph s = Running -> recon_get u (recon s) = Some v ->
  recon_get u (recon (step c s (EvPeerIdentity true (Some u)))) = Some (0, None).
Proof.
  intros Hr Hg. unfold step. cbn [handle]. rewrite Hr. cbn [phase_eqb andb recon].
  unfold recon_success. rewrite Hg. apply recon_get_set.
Qed.

(* consecutive failures of one URI: the scheduled delays are the fail_delays sequence of Backoff *)
Lemma repeated_failures_follow_backoff c u er k : ivl_positive c = true -> is_fatal_connect_error er = false ->
  forall s, attempts_of u (run c s (repeat (EvConnAttemptFailed true u er) k)) = att_after k (attempts_of u s).
Proof.
  intros Hi He. induction k as [|k IH]; intros s; [reflexivity|].
  cbn [repeat]. rewrite run_cons, IH. cbn [att_after]. f_equal.
  destruct (reconnect_scheduled_attempt c s u er Hi He) as (_ & _ & Hg).
  unfold attempts_of at 1. rewrite Hg. reflexivity.
Qed.

(* ---------- where the code does NOT keep a fault local ---------- *)

Definition demo_core : core :=
  {| ph := Running;
     eps := [ {| e_id := 1; e_uri := 100; e_kind := Listener; e_outbound := false |};
              {| e_id := 2; e_uri := 200; e_kind := Session; e_outbound := false |} ];
     recon := []; inproc_names := [7] |}.
Definition demo_cfg : cfg := {| reconnect_ivl := Some 100000000; reconnect_ivl_max := Some 400000000 |}.
Definition bad_conn : endpoint := {| e_id := 9; e_uri := 900; e_kind := Session; e_outbound := false |}.

(* an inproc connector of an incompatible socket type is refused through the reply channel and the
   BINDER keeps running (the code at the pinned commit returned the error into the binder's event
   loop and shut the binder down; repaired by a fix: commit) *)
Lemma inproc_incompatible_stays_local :
  ph (step demo_cfg demo_core (EvInprocRequest 7 false false true bad_conn)) = Running.
Proof. vm_compute. reflexivity. Qed.
(* a lagging event-bus receiver (other sockets' event bursts) shuts the socket down *)
Lemma lagged_shuts_socket_down : ph (step demo_cfg demo_core EvLagged) <> Running.
Proof. vm_compute. discriminate. Qed.
(* a session that is already gone when the core attaches its pipes shuts the socket down *)
Lemma dead_sca_attach_shuts_socket_down : ph (step demo_cfg demo_core (CmdNewConnSca bad_conn false)) <> Running.
Proof. vm_compute. discriminate. Qed.

(* The ActorStopping event of a session can be handled BEFORE the NewConnectionEstablished command
   that registers that session (the loop's select! is biased towards system events, and the peer may
   close right after accepting). Then no endpoint is found, no retry is scheduled, and the dead
   session is registered afterwards: the outbound connection is never retried. *)
Definition out_conn : endpoint := {| e_id := 200; e_uri := 300; e_kind := Session; e_outbound := true |}.
Lemma stop_before_attach_loses_reconnect :
  let s := run demo_cfg demo_core [EvActorStopping true 200 (Some 300) (Some ErrClosed); CmdNewConnSca out_conn true] in
  ph s = Running /\ recon_get 300 (recon s) = None /\ In out_conn (eps s).
Proof. vm_compute. repeat split. left. reflexivity. Qed.
(* in the intended order the retry IS scheduled (first delay = RECONNECT_IVL) and the endpoint is gone *)
Lemma attach_before_stop_schedules_reconnect :
  let s := run demo_cfg demo_core [CmdNewConnSca out_conn true; EvActorStopping true 200 (Some 300) (Some ErrClosed)] in
  ph s = Running /\ recon_get 300 (recon s) = Some (1, Some 100000000) /\ eps s = eps demo_core.
Proof. vm_compute. repeat split. Qed.
