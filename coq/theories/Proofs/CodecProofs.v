From RZ Require Import Base.Prelude Base.Stepper Model.Codec.
Local Open Scope N_scope.

(* ---------- big-endian ---------- *)
Lemma be_val_snoc l b : be_val (l ++ [b]) = be_val l * 256 + b.
Proof. unfold be_val. rewrite fold_left_app. reflexivity. Qed.

Lemma be_bytes_length k x : length (be_bytes k x) = k.
Proof. revert x. induction k as [|k IH]; intros x; cbn [be_bytes]; [reflexivity|].
  rewrite app_length, IH. simpl. lia. Qed.

Lemma be_roundtrip k x : be_val (be_bytes k x) = x mod 256 ^ N.of_nat k.
Proof.
  revert x. induction k as [|k IH]; intros x.
  - cbn [be_bytes]. change (N.of_nat 0) with 0. rewrite N.pow_0_r, N.mod_1_r. reflexivity.
  - cbn [be_bytes]. rewrite be_val_snoc, IH.
    replace (N.of_nat (S k)) with (N.succ (N.of_nat k)) by lia.
    rewrite N.pow_succ_r'.
    assert (0 < 256 ^ N.of_nat k) as Hp by (apply N.neq_0_lt_0, N.pow_nonzero; lia).
    rewrite N.mod_mul_r by lia.
    rewrite N.add_comm, (N.mul_comm 256). reflexivity.
Qed.

Lemma be_bytes_wf k x : wf_bytes (be_bytes k x) = true.
Proof.
  revert x. induction k as [|k IH]; intros x; cbn [be_bytes]; [reflexivity|].
  rewrite wf_bytes_app, IH. cbn [wf_bytes forallb]. rewrite andb_true_r.
  apply N.ltb_lt. apply N.mod_lt. lia.
Qed.

Lemma be_bytes8 x : be_bytes 8 x =
  [x / 72057594037927936 mod 256; x / 281474976710656 mod 256; x / 1099511627776 mod 256;
   x / 4294967296 mod 256; x / 16777216 mod 256; x / 65536 mod 256; x / 256 mod 256; x mod 256].
Proof.
  cbn [be_bytes app]. rewrite !N.div_div by lia.
  reflexivity.
Qed.

(* ---------- flags ---------- *)
Lemma flags_long m c l : is_long (flags_byte m c l) = l.
Proof. destruct m, c, l; reflexivity. Qed.
Lemma flags_more m c l : has_more (flags_byte m c l) = m.
Proof. destruct m, c, l; reflexivity. Qed.
Lemma flags_cmd m c l : has_cmd (flags_byte m c l) = c.
Proof. destruct m, c, l; reflexivity. Qed.
Lemma flags_rfc m c l : flags_byte m c l = rfc_flags m c l.
Proof. destruct m, c, l; reflexivity. Qed.
Lemma flags_lt m c l : flags_byte m c l < 8.
Proof. destruct m, c, l; vm_compute; reflexivity. Qed.

(* ---------- encoders agree with the RFC rule ---------- *)
Definition fits (f : frame) : Prop := len (f_payload f) < U64.

Lemma enc_codec_rfc f : fits f -> enc_codec f = rfc_frame f.
Proof.
  unfold fits, enc_codec, enc_header_only, enc_header, rfc_frame. intros Hf.
  set (n := len (f_payload f)) in *.
  destruct (n <=? 255) eqn:Hle.
  - assert (n <? 256 = true) as -> by lia. rewrite flags_rfc. reflexivity.
  - assert (n <? 256 = false) as -> by lia. rewrite flags_rfc.
    rewrite N.mod_small by exact Hf. rewrite be_bytes8. reflexivity.
Qed.

Lemma enc_header_payload_rfc f : fits f -> enc_header_only f ++ f_payload f = rfc_frame f.
Proof. apply enc_codec_rfc. Qed.

Lemma fits_nocmd f : fits f -> fits (nocmd f).
Proof. auto. Qed.

Lemma enc_split_rfc f : fits f -> fst (enc_split f) ++ snd (enc_split f) = rfc_frame (nocmd f).
Proof. intros Hf. rewrite <- enc_codec_rfc by exact Hf. reflexivity. Qed.

Lemma enc_contiguous_rfc bs : Forall fits (concat bs) ->
  enc_contiguous bs = concat (map rfc_frame (concat bs)).
Proof.
  unfold enc_contiguous. induction (concat bs) as [|f fs IH]; intros H; [reflexivity|].
  inversion H; subst. cbn [map concat]. rewrite IH by assumption. rewrite enc_codec_rfc by assumption.
  reflexivity.
Qed.

Lemma enc_vectored_rfc bs : Forall fits (concat bs) ->
  concat (enc_vectored bs) = concat (map (fun f => rfc_frame (nocmd f)) (concat bs)).
Proof.
  unfold enc_vectored. induction (concat bs) as [|f fs IH]; intros H; [reflexivity|].
  inversion H; subst. cbn [map concat]. rewrite concat_app, IH by assumption.
  f_equal. rewrite <- enc_codec_rfc by (apply fits_nocmd; assumption).
  unfold enc_codec, enc_header_only, enc_header_nocmd, nocmd. cbn [f_more f_cmd f_payload].
  destruct (f_payload f); cbn [concat]; rewrite ?app_nil_r; reflexivity.
Qed.

Lemma enc_batch_vectored_rfc bs : Forall fits (concat bs) ->
  (forall f, In f (concat bs) -> f_cmd f = false) ->
  concat (enc_batch_vectored bs) = concat (map rfc_frame (concat bs)).
Proof.
  intros Hf Hc. unfold enc_batch_vectored. destruct (total_payload bs <? FLAT_THRESHOLD).
  - cbn [concat]. rewrite app_nil_r. apply enc_contiguous_rfc. exact Hf.
  - rewrite enc_vectored_rfc by exact Hf. f_equal. apply map_ext_in. intros f Hin.
    f_equal. destruct f as [m c p]. unfold nocmd. cbn. specialize (Hc _ Hin). cbn in Hc. subst. reflexivity.
Qed.

(* header rule: 0..255 => 2-byte header, otherwise LONG flag + 8-byte big-endian length *)
Lemma header_rule_short f : len (f_payload f) <= 255 ->
  enc_header_only f = [rfc_flags (f_more f) (f_cmd f) false; len (f_payload f)].
Proof. unfold enc_header_only, enc_header. intros H. assert (len (f_payload f) <=? 255 = true) as -> by lia.
  rewrite flags_rfc. reflexivity. Qed.
Lemma header_rule_long f : 255 < len (f_payload f) -> fits f ->
  exists l8, enc_header_only f = rfc_flags (f_more f) (f_cmd f) true :: l8 /\ length l8 = 8%nat
             /\ be_val l8 = len (f_payload f) /\ wf_bytes l8 = true.
Proof.
  unfold enc_header_only, enc_header, fits. intros H Hf.
  assert (len (f_payload f) <=? 255 = false) as -> by lia.
  exists (be_bytes 8 (len (f_payload f) mod U64)). rewrite flags_rfc. split; [reflexivity|].
  split; [apply be_bytes_length|]. split; [|apply be_bytes_wf].
  rewrite be_roundtrip. change (256 ^ N.of_nat 8) with U64.
  rewrite (N.mod_small (len (f_payload f)) U64) by exact Hf. apply N.mod_small. exact Hf.
Qed.

(* ---------- decoding an encoded frame ---------- *)
Definition admitted (maxsz : Z) (f : frame) : Prop :=
  fits f /\ over_limit maxsz (len (f_payload f)) = false.

Lemma mk_frame_flags m c l p : mk_frame (flags_byte m c l) p = {| f_more := m; f_cmd := c; f_payload := p |}.
Proof. unfold mk_frame. rewrite flags_more, flags_cmd. reflexivity. Qed.

Lemma dec_buffer_enc maxsz f rest : admitted maxsz f ->
  dec_buffer maxsz (enc_codec f ++ rest) = DFrame f (length (enc_codec f)).
Proof.
  intros [Hf Hlim]. destruct f as [m c p]. unfold fits in Hf. cbn [f_payload] in *.
  unfold enc_codec, enc_header_only, enc_header. cbn [f_more f_cmd f_payload].
  destruct (len p <=? 255) eqn:Hle.
  - cbn [app]. unfold dec_buffer. unfold hdr_len, raw_size. rewrite flags_long.
    cbn [length nth]. rewrite app_length.
    destruct (S (S (length p + length rest)) <? 2)%nat eqn:E; [lia|].
    rewrite Hlim. cbn [skipn].
    replace (S (S (length p + length rest)) - 2)%nat with (length p + length rest)%nat by lia.
    unfold len in *.
    destruct (N.of_nat (length p + length rest) <? N.of_nat (length p)) eqn:E2; [lia|].
    rewrite Nat2N.id. rewrite firstn_app_le, firstn_all by lia.
    rewrite mk_frame_flags. reflexivity.
  - rewrite N.mod_small by exact Hf.
    cbn [app]. unfold dec_buffer. unfold hdr_len, raw_size. rewrite flags_long.
    rewrite <- app_assoc.
    assert (length (be_bytes 8 (len p)) = 8%nat) as H8 by apply be_bytes_length.
    cbn [length]. rewrite !app_length, H8.
    destruct (S (8 + (length p + length rest)) <? 9)%nat eqn:E; [lia|].
    rewrite (skipn_cons 0), skipn_O.
    rewrite firstn_app_le, firstn_all2 by lia.
    rewrite be_roundtrip. change (256 ^ N.of_nat 8) with U64. rewrite N.mod_small by exact Hf.
    rewrite Hlim.
    replace (S (8 + (length p + length rest)) - 9)%nat with (length p + length rest)%nat by lia.
    unfold len in *.
    destruct (N.of_nat (length p + length rest) <? N.of_nat (length p)) eqn:E2; [lia|].
    rewrite Nat2N.id.
    rewrite (skipn_cons 8).
    replace (skipn 8 (be_bytes 8 (N.of_nat (length p)) ++ p ++ rest)) with (p ++ rest).
    2:{ rewrite skipn_app, H8, Nat.sub_diag, skipn_all2 by lia. reflexivity. }
    rewrite firstn_app_le, firstn_all by lia.
    rewrite mk_frame_flags. reflexivity.
Qed.

(* ---------- stepper obligations ---------- *)
Lemma raw_size_app fl t d : (hdr_len fl <= length (fl :: t))%nat ->
  raw_size fl ((fl :: t) ++ d) = raw_size fl (fl :: t).
Proof.
  unfold raw_size, hdr_len. destruct (is_long fl); intros H.
  - cbn [app skipn]. rewrite firstn_app_le by (cbn [length] in H; lia). reflexivity.
  - cbn [length] in H. destruct t; [cbn [length] in H; lia|]. reflexivity.
Qed.

Lemma dec_buffer_mono maxsz b d f n :
  dec_buffer maxsz b = DFrame f n -> dec_buffer maxsz (b ++ d) = DFrame f n /\ (n <= length b)%nat /\ (0 < n)%nat.
Proof.
  destruct b as [|fl t]; [discriminate|]. unfold dec_buffer.
  change ((fl :: t) ++ d) with (fl :: (t ++ d)).
  destruct (length (fl :: t) <? hdr_len fl)%nat eqn:E1; [discriminate|].
  assert (length (fl :: t ++ d) <? hdr_len fl = false)%nat as ->.
  { cbn [length] in *. rewrite app_length. lia. }
  change (fl :: t ++ d) with ((fl :: t) ++ d).
  rewrite raw_size_app by lia.
  destruct (over_limit maxsz (raw_size fl (fl :: t))); [discriminate|].
  destruct (N.of_nat (length (fl :: t) - hdr_len fl) <? raw_size fl (fl :: t)) eqn:E2; [discriminate|].
  intros H. inversion H; subst. clear H.
  assert (N.of_nat (length ((fl :: t) ++ d) - hdr_len fl) <? raw_size fl (fl :: t) = false) as ->.
  { rewrite app_length. lia. }
  rewrite skipn_app_le by lia.
  rewrite firstn_app_le by (rewrite skipn_length; lia).
  split; [reflexivity|]. split; [lia|]. unfold hdr_len. destruct (is_long fl); lia.
Qed.

Lemma dec_buffer_err_mono maxsz b d :
  dec_buffer maxsz b = DErr -> dec_buffer maxsz (b ++ d) = DErr.
Proof.
  destruct b as [|fl t]; [discriminate|]. unfold dec_buffer.
  change ((fl :: t) ++ d) with (fl :: (t ++ d)).
  destruct (length (fl :: t) <? hdr_len fl)%nat eqn:E1; [discriminate|].
  assert (length (fl :: t ++ d) <? hdr_len fl = false)%nat as ->.
  { cbn [length] in *. rewrite app_length. lia. }
  change (fl :: t ++ d) with ((fl :: t) ++ d).
  rewrite raw_size_app by lia.
  destruct (over_limit maxsz (raw_size fl (fl :: t))); [reflexivity|].
  destruct (N.of_nat (length (fl :: t) - hdr_len fl) <? raw_size fl (fl :: t)); discriminate.
Qed.

Lemma dec_buffer_no_panic maxsz b : dec_buffer maxsz b <> DPanic.
Proof.
  destruct b as [|fl t]; [discriminate|]. unfold dec_buffer.
  destruct (length (fl :: t) <? hdr_len fl)%nat; [discriminate|].
  destruct (over_limit maxsz (raw_size fl (fl :: t))); [discriminate|].
  destruct (N.of_nat (length (fl :: t) - hdr_len fl) <? raw_size fl (fl :: t)); discriminate.
Qed.

Lemma buffer_step_mono maxsz : step_mono (buffer_step maxsz).
Proof.
  intros s b d s' n o. unfold buffer_step. destruct s; [discriminate|].
  destruct (dec_buffer maxsz b) as [| | |f k] eqn:E; try discriminate.
  - rewrite (dec_buffer_err_mono _ _ d E). auto.
  - destruct (dec_buffer_mono _ _ d _ _ E) as (-> & _). auto.
Qed.
Lemma buffer_step_bounded maxsz : step_bounded (buffer_step maxsz).
Proof.
  intros s b s' n o. unfold buffer_step. destruct s; [discriminate|].
  destruct (dec_buffer maxsz b) as [| | |f k] eqn:E; try discriminate; intros H; inversion H; subst.
  - lia.
  - destruct (dec_buffer_mono _ _ [] _ _ E) as (_ & ? & _). assumption.
Qed.
Lemma buffer_step_measure maxsz : step_measure (buffer_step maxsz) buffer_mu 1.
Proof.
  intros s b s' n o. unfold buffer_step. destruct s; [discriminate|].
  destruct (dec_buffer maxsz b) as [| | |f k] eqn:E; try discriminate; intros H; inversion H; subst.
  - right. cbn. lia.
  - left. destruct (dec_buffer_mono _ _ [] _ _ E) as (_ & _ & ?). cbn. lia.
Qed.

Lemma tokio_step_mono : step_mono tokio_step.
Proof.
  intros s b d s' n o. unfold tokio_step. destruct s as [|fl size|]; [| |discriminate].
  - destruct b as [|fl t]; [discriminate|].
    change ((fl :: t) ++ d) with (fl :: (t ++ d)).
    destruct (length (fl :: t) <? hdr_len fl)%nat eqn:E1; [discriminate|].
    assert (length (fl :: t ++ d) <? hdr_len fl = false)%nat as ->.
    { cbn [length] in *. rewrite app_length. lia. }
    change (fl :: t ++ d) with ((fl :: t) ++ d).
    rewrite raw_size_app by lia. auto.
  - unfold len. destruct (N.of_nat (length b) <? size) eqn:E; [discriminate|].
    rewrite app_length.
    assert (N.of_nat (length b + length d) <? size = false) as -> by lia.
    rewrite firstn_app_le by lia. auto.
Qed.
Lemma tokio_step_bounded : step_bounded tokio_step.
Proof.
  intros s b s' n o. unfold tokio_step. destruct s as [|fl size|]; [| |discriminate].
  - destruct b as [|fl t]; [discriminate|].
    destruct (length (fl :: t) <? hdr_len fl)%nat eqn:E1; [discriminate|].
    destruct (CODEC_MAX_FRAME_SIZE <? _); intros H; inversion H; subst; lia.
  - unfold len. destruct (N.of_nat (length b) <? size) eqn:E; [discriminate|].
    intros H; inversion H; subst. lia.
Qed.
Lemma tokio_step_measure : step_measure tokio_step tokio_mu 1.
Proof.
  intros s b s' n o. unfold tokio_step. destruct s as [|fl size|]; [| |discriminate].
  - destruct b as [|fl t]; [discriminate|].
    destruct (length (fl :: t) <? hdr_len fl)%nat eqn:E1; [discriminate|].
    destruct (CODEC_MAX_FRAME_SIZE <? _); intros H; inversion H; subst; left; cbn;
      unfold hdr_len; destruct (is_long fl); lia.
  - unfold len. destruct (N.of_nat (length b) <? size) eqn:E; [discriminate|].
    intros H; inversion H; subst.
    destruct (N.to_nat size) eqn:Es; [right|left]; cbn; lia.
Qed.

Lemma buffer_ok m : stepper_ok (buffer_step m) buffer_mu 1.
Proof. constructor; [apply buffer_step_mono | apply buffer_step_bounded | apply buffer_step_measure]. Qed.
Lemma tokio_ok : stepper_ok tokio_step tokio_mu 1.
Proof. constructor; [apply tokio_step_mono | apply tokio_step_bounded | apply tokio_step_measure]. Qed.

(* ---------- streaming round trip, live decoder ---------- *)
Lemma run_buffer_frames m fs : Forall (admitted m) fs -> forall rest s' r o,
  Run (buffer_step m) false rest s' r o ->
  Run (buffer_step m) false (concat (map enc_codec fs) ++ rest) s' r (map Some fs ++ o).
Proof.
  induction 1 as [|f fs Hf Hfs IH]; intros rest s' r o HR; [exact HR|].
  cbn [map concat]. rewrite <- app_assoc.
  change (map Some (f :: fs) ++ o) with ([Some f] ++ (map Some fs ++ o)).
  eapply RunStep with (o := [Some f]).
  - unfold buffer_step. rewrite dec_buffer_enc by exact Hf. reflexivity.
  - rewrite skipn_app, skipn_all, Nat.sub_diag. cbn [app skipn]. apply IH. exact HR.
Qed.

Theorem roundtrip_buffer m fs cs :
  Forall (admitted m) fs -> concat cs = concat (map enc_codec fs) ->
  run_buffer m cs = (false, [], map Some fs).
Proof.
  intros Hf Hc. unfold run_buffer.
  rewrite (sk_feed_quiescent_start (buffer_ok m)) by reflexivity.
  cbn [app]. rewrite Hc. apply (sk_Run_pump (buffer_ok m)).
  rewrite <- (app_nil_r (concat _)), <- (app_nil_r (map Some fs)).
  apply run_buffer_frames; [exact Hf|]. apply RunNeed. reflexivity.
Qed.

Theorem cut_independence_buffer m cs1 cs2 :
  concat cs1 = concat cs2 -> run_buffer m cs1 = run_buffer m cs2.
Proof.
  intros Hc. unfold run_buffer.
  apply (sk_feed_chunk_independent (buffer_ok m)); [reflexivity | exact Hc].
Qed.

Theorem buffer_never_stuck m cs :
  let '(st, r, _) := run_buffer m cs in buffer_step m st r = Need.
Proof.
  unfold run_buffer.
  rewrite (sk_feed_quiescent_start (buffer_ok m)) by reflexivity.
  apply (sk_pump_quiescent (buffer_ok m)).
Qed.

(* ---------- streaming round trip, tokio codec ---------- *)
Definition admitted_tokio (f : frame) : Prop := len (f_payload f) <= CODEC_MAX_FRAME_SIZE.

Lemma tokio_header f rest : admitted_tokio f ->
  tokio_step TReadHeader (enc_codec f ++ rest) =
  Step (TReadBody (flags_byte (f_more f) (f_cmd f) (negb (len (f_payload f) <=? 255))) (len (f_payload f)))
       (length (enc_header_only f)) [].
Proof.
  intros Ha. unfold admitted_tokio in Ha. destruct f as [m c p]. cbn [f_payload f_more f_cmd] in *.
  assert (len p < U64) as Hf by (unfold CODEC_MAX_FRAME_SIZE, U64 in *; lia).
  unfold enc_codec, enc_header_only, enc_header. cbn [f_more f_cmd f_payload].
  destruct (len p <=? 255) eqn:Hle; cbn [negb].
  - cbn [app]. unfold tokio_step, hdr_len, raw_size. rewrite flags_long. cbn [length nth].
    destruct (S (S (length (p ++ rest))) <? 2)%nat eqn:E; [lia|].
    assert (CODEC_MAX_FRAME_SIZE <? len p = false) as -> by lia. reflexivity.
  - rewrite N.mod_small by exact Hf. cbn [app]. unfold tokio_step, hdr_len, raw_size. rewrite flags_long.
    rewrite <- app_assoc.
    assert (length (be_bytes 8 (len p)) = 8%nat) as H8 by apply be_bytes_length.
    cbn [length]. rewrite !app_length, H8.
    destruct (S (8 + (length p + length rest)) <? 9)%nat eqn:E; [lia|].
    rewrite (skipn_cons 0), skipn_O.
    rewrite firstn_app_le, firstn_all2 by lia.
    rewrite be_roundtrip. change (256 ^ N.of_nat 8) with U64. rewrite N.mod_small by exact Hf.
    assert (CODEC_MAX_FRAME_SIZE <? len p = false) as -> by lia. reflexivity.
Qed.

Lemma run_tokio_frames fs : Forall admitted_tokio fs -> forall rest s' r o,
  Run tokio_step TReadHeader rest s' r o ->
  Run tokio_step TReadHeader (concat (map enc_codec fs) ++ rest) s' r (map Some fs ++ o).
Proof.
  induction 1 as [|f fs Hf Hfs IH]; intros rest s' r o HR; [exact HR|].
  cbn [map concat]. rewrite <- app_assoc.
  change (map Some (f :: fs) ++ o) with ([] ++ [Some f] ++ (map Some fs ++ o)).
  eapply RunStep with (o := []).
  - apply tokio_header. exact Hf.
  - unfold enc_codec at 1. rewrite <- app_assoc.
    rewrite skipn_app, skipn_all, Nat.sub_diag. cbn [app skipn].
    eapply RunStep with (o := [Some f]).
    + unfold tokio_step, len. rewrite app_length.
      assert (N.of_nat (length (f_payload f) + length (concat (map enc_codec fs) ++ rest))
              <? N.of_nat (length (f_payload f)) = false) as -> by lia.
      rewrite Nat2N.id, firstn_app_le, firstn_all by lia.
      rewrite mk_frame_flags. destruct f; reflexivity.
    + rewrite skipn_app, skipn_all, Nat.sub_diag. cbn [app skipn]. apply IH. exact HR.
Qed.

Theorem roundtrip_tokio pre fs c cs :
  Forall admitted_tokio fs -> pre ++ concat (c :: cs) = concat (map enc_codec fs) ->
  run_tokio pre (c :: cs) = (TReadHeader, [], map Some fs).
Proof.
  intros Hf Hc. unfold run_tokio.
  rewrite (sk_feed_cons tokio_ok).
  match goal with |- pump _ _ _ _ ?x = _ =>
    replace x with (concat (map enc_codec fs)) by (symmetry; exact Hc) end.
  apply (sk_Run_pump tokio_ok).
  rewrite <- (app_nil_r (concat _)), <- (app_nil_r (map Some fs)).
  apply run_tokio_frames; [exact Hf|]. apply RunNeed. reflexivity.
Qed.

Theorem cut_independence_tokio pre c1 cs1 c2 cs2 :
  concat (c1 :: cs1) = concat (c2 :: cs2) -> run_tokio pre (c1 :: cs1) = run_tokio pre (c2 :: cs2).
Proof.
  intros Hc. unfold run_tokio.
  rewrite !(sk_feed_cons tokio_ok).
  do 2 f_equal. exact Hc.
Qed.

(* ---------- the slice decoders and the length peek agree with the live decoder ---------- *)
Definition no_overflow (buf : bytes) : Prop :=
  match buf with
  | [] => True
  | fl :: _ => (length buf < hdr_len fl)%nat \/ N.of_nat (hdr_len fl) + raw_size fl buf < U64
  end.

Theorem dec_slice_agrees chk m buf : no_overflow buf -> dec_slice chk m buf = dec_buffer m buf.
Proof.
  unfold no_overflow, dec_slice, dec_buffer. destruct buf as [|fl t]; [reflexivity|].
  intros Hno.
  destruct (length (fl :: t) <? 2)%nat eqn:E2.
  { assert (length (fl :: t) <? hdr_len fl = true)%nat as ->; [|reflexivity].
    unfold hdr_len. destruct (is_long fl); lia. }
  destruct (length (fl :: t) <? hdr_len fl)%nat eqn:E; [reflexivity|].
  destruct Hno as [Hno|Hno]; [lia|].
  destruct (over_limit m (raw_size fl (fl :: t))); [reflexivity|].
  set (raw := raw_size fl (fl :: t)) in *.
  destruct (U64 <=? N.of_nat (hdr_len fl) + raw) eqn:EU; [lia|].
  unfold len.
  destruct (N.of_nat (length (fl :: t)) <? N.of_nat (hdr_len fl) + raw) eqn:E3;
  destruct (N.of_nat (length (fl :: t) - hdr_len fl) <? raw) eqn:E4; try lia; try reflexivity.
  f_equal. lia.
Qed.

(* outside the guard: the checked build panics, the unchecked build wraps and then either
   asks for more or panics on the slice; it never yields a frame *)
Theorem dec_slice_overflow chk m buf fl t :
  buf = fl :: t -> (hdr_len fl <= length buf)%nat -> len buf < U64 ->
  U64 <= N.of_nat (hdr_len fl) + raw_size fl buf -> over_limit m (raw_size fl buf) = false ->
  dec_slice chk m buf = (if chk then DPanic else
     if len buf <? (N.of_nat (hdr_len fl) + raw_size fl buf) mod U64 then DNeed else DPanic)
  /\ dec_buffer m buf = DNeed.
Proof.
  intros -> Hh Hlen Ho Hl. unfold dec_slice, dec_buffer.
  assert (length (fl :: t) <? 2 = false)%nat as ->.
  { unfold hdr_len in Hh. destruct (is_long fl); lia. }
  assert (length (fl :: t) <? hdr_len fl = false)%nat as -> by lia.
  rewrite Hl. assert (U64 <=? N.of_nat (hdr_len fl) + raw_size fl (fl :: t) = true) as -> by lia.
  split; [reflexivity|].
  unfold len in Hlen.
  assert (N.of_nat (length (fl :: t) - hdr_len fl) <? raw_size fl (fl :: t) = true) as -> by lia.
  reflexivity.
Qed.

(* the length peek: header complete and within the limit => header + payload length *)
Theorem peek_len_agrees chk m buf f k : no_overflow buf ->
  dec_buffer m buf = DFrame f k -> peek_len chk m buf = PLen (N.of_nat k).
Proof.
  unfold no_overflow, peek_len, dec_buffer. destruct buf as [|fl t]; [discriminate|].
  intros Hno.
  destruct (length (fl :: t) <? hdr_len fl)%nat eqn:E; [discriminate|].
  destruct Hno as [Hno|Hno]; [lia|].
  destruct (over_limit m (raw_size fl (fl :: t))); [discriminate|].
  set (raw := raw_size fl (fl :: t)) in *.
  destruct (N.of_nat (length (fl :: t) - hdr_len fl) <? raw) eqn:E4; [discriminate|].
  intros H; inversion H; subst.
  destruct (U64 <=? N.of_nat (hdr_len fl) + raw) eqn:EU; [lia|]. f_equal. lia.
Qed.

Theorem peek_len_need_err chk m buf : no_overflow buf ->
  (peek_len chk m buf = PErr <-> dec_buffer m buf = DErr) /\
  (peek_len chk m buf = PNeed -> dec_buffer m buf = DNeed) /\
  peek_len chk m buf <> PPanic.
Proof.
  unfold no_overflow, peek_len, dec_buffer. destruct buf as [|fl t].
  { intros _. repeat split; try discriminate; auto. }
  intros Hno.
  destruct (length (fl :: t) <? hdr_len fl)%nat eqn:E.
  { repeat split; try discriminate; auto. }
  destruct Hno as [Hno|Hno]; [lia|].
  destruct (over_limit m (raw_size fl (fl :: t))).
  { repeat split; try discriminate; auto. }
  set (raw := raw_size fl (fl :: t)) in *.
  destruct (U64 <=? N.of_nat (hdr_len fl) + raw) eqn:EU; [lia|].
  destruct (N.of_nat (length (fl :: t) - hdr_len fl) <? raw) eqn:E4; repeat split; try discriminate; auto.
Qed.
