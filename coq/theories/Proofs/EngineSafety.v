From RZ Require Import Base.Prelude Base.Stepper Model.Codec Proofs.CodecProofs Model.Engine
  Proofs.EngineProofs Model.Actor Proofs.ActorProofs.
Local Open Scope N_scope.

(* ---------- no panic ---------- *)
Definition no_panic (o : list eout) : Prop := ~ In OPanic o.

Lemma no_panic_app a b : no_panic a -> no_panic b -> no_panic (a ++ b).
Proof. unfold no_panic. intros Ha Hb H. apply in_app_or in H. tauto. Qed.

Ltac np := unfold no_panic; cbn; intuition discriminate.

Lemma cork_out_np cfg : no_panic (cork_out cfg).
Proof. unfold cork_out. destruct (_ && _); np. Qed.

Lemma estep_no_panic cfg st b st' n o : estep cfg st b = Step st' n o -> no_panic o.
Proof.
  unfold estep. destruct (e_phase st); try discriminate.
  - destruct (negb (e_rev_sent st)).
    + destruct (length b <? 10)%nat; [discriminate|]. destruct (_ && _); intros; inv_step; np.
    + destruct (e_version st) as [[|]|]; try discriminate.
      * destruct (length b <? 64)%nat; [discriminate|].
        destruct (greeting_decode _) as [[fld ?]|]; [|intros; inv_step; np].
        destruct (negotiate cfg fld); [|intros; inv_step; np].
        destruct (mech_complete _); [destruct (c_server cfg)|]; intros; inv_step; np.
      * destruct (length b <? 11)%nat; [discriminate|].
        destruct (3 <=? nth 10 b 0); [intros; inv_step; np|].
        destruct (nth 10 b 0 =? 1); [|intros; inv_step; np].
        destruct (negb (c_allow_v2 cfg)); [intros; inv_step; np|].
        destruct (c_sec_enabled cfg); [intros; inv_step; np|].
        destruct (length b <? 12)%nat; [discriminate|].
        destruct (negb (v2_compat _ _)); [intros; inv_step; np|].
        destruct (stype_code _); intros; inv_step; np.
  - destruct (m_produce cfg (e_mech st)) as [m' [ | tok | ]]; try (intros; inv_step; np).
    destruct (mech_complete (e_mech st)); [destruct (c_server cfg); intros; inv_step; np|].
    destruct (dec_buffer (c_maxsz cfg) b) as [| | |f k]; try discriminate; try (intros; inv_step; np).
    destruct (m_process cfg (e_mech st) (f_payload f)) as [m'' [e|]]; [intros; inv_step; np|].
    destruct (mech_is_error m''); intros; inv_step; np.
  - destruct (dec_buffer (c_maxsz cfg) b) as [| | |f k]; try discriminate; try (intros; inv_step; np).
    destruct (parse_cmd f); try destruct (ready_incompatible _ _); try (intros; inv_step; np).
    intros; inv_step. unfold no_panic, cork_out. destruct (c_server cfg); destruct (_ && _); cbn; intuition discriminate.
  - destruct (negb (e_v2_sent st)); try (intros; inv_step; np).
    destruct (dec_buffer (c_maxsz cfg) b) as [| | |f k]; try discriminate; try (intros; inv_step; np).
    destruct (f_cmd f || f_more f); [intros; inv_step; np|].
    destruct (255 <? length (f_payload f))%nat; [intros; inv_step; np|].
    intros; inv_step. unfold no_panic, cork_out. destruct (_ && _); cbn; intuition discriminate.
  - destruct (dec_buffer (c_maxsz cfg) b) as [| | |f k]; try discriminate; try (intros; inv_step; np).
    destruct (f_cmd f).
    + destruct (e_version st) as [[|]|]; try (intros; inv_step; np);
        destruct (parse_cmd f); try destruct (ready_incompatible _ _); intros; inv_step; np.
    + destruct (MAX_FRAMES <=? length (e_partial st))%nat; [intros; inv_step; np|].
      destruct (f_more f); intros; inv_step; np.
Qed.

Lemma Run_no_panic cfg st b st' r o : Run (estep cfg) st b st' r o -> no_panic o.
Proof.
  induction 1 as [|s b0 s1 n o1 s2 r0 o2 Hs HR IH]; [np|].
  apply no_panic_app; auto. eapply estep_no_panic; eauto.
Qed.

Lemma visible_no_panic o : no_panic o -> no_panic (visible o).
Proof. unfold no_panic, visible. intros H Hin. apply filter_In in Hin. tauto. Qed.

Lemma e_input_no_panic cfg g i : no_panic (snd (e_input cfg g i)).
Proof.
  destruct i as [d t|m|t| |w]; cbn [e_input].
  - unfold e_net.
    pose proof (sk_pump_Run (engine_ok cfg) (g_st g) (g_acc g ++ d)) as HR.
    destruct (pump (estep cfg) emu EMU_MAX (g_st g) (g_acc g ++ d)) as [[st' r] o]. cbn [snd].
    apply visible_no_panic. eapply Run_no_panic; eauto.
  - unfold e_app. destruct (e_phase (g_st g)); np.
  - unfold e_tick. destruct (e_phase (g_st g)); try np.
    destruct (e_version (g_st g)) as [[|]|]; try np;
    (destruct (match c_hb_timeout cfg with Some _ => _ | None => _ end); [np|];
     destruct (c_hb_ivl cfg); [|np]; destruct (_ && _); np).
  - np.
  - np.
Qed.

Theorem engine_never_panics cfg : forall is g, Forall no_panic (snd (e_run cfg g is)).
Proof.
  induction is as [|i is IH]; intros g; [constructor|].
  cbn [e_run]. pose proof (e_input_no_panic cfg g i) as H.
  destruct (e_input cfg g i) as [g1 o]. specialize (IH g1). destruct (e_run cfg g1 is) as [g2 os].
  cbn [snd] in *. constructor; auto.
Qed.

(* the fuelled pump never runs out of fuel: every network input ends quiescent *)
Theorem engine_never_out_of_fuel cfg g d t : quiescent cfg (fst (e_net cfg g d t)).
Proof. apply e_net_quiescent. Qed.

(* ---------- errors close; closed is absorbing ---------- *)
Theorem engine_error_closes cfg g d t :
  has_err (snd (e_net cfg g d t)) = true -> e_phase (g_st (fst (e_net cfg g d t))) = PClosed.
Proof. apply e_net_err_closed. Qed.

Theorem engine_closed_absorbing cfg g i :
  e_phase (g_st g) = PClosed ->
  e_phase (g_st (fst (e_input cfg g i))) = PClosed /\
  (forall x, In x (snd (e_input cfg g i)) -> match x with OCork _ | OClose _ => True | _ => False end).
Proof.
  intros Hc. destruct i as [d t|m|t| |w]; cbn [e_input].
  - destruct (e_net_closed cfg g d t Hc) as [Ho Hp]. rewrite Ho. split; [exact Hp|]. intros x [].
  - unfold e_app. rewrite Hc. cbn. split; [exact Hc|]. intros x [].
  - unfold e_tick. rewrite Hc. cbn. split; [exact Hc|]. intros x [].
  - cbn. split; [reflexivity|]. intros x [<-|[<-|[]]]; exact I.
  - cbn. split; [exact Hc|]. intros x [].
Qed.

(* ---------- bounded buffering ---------- *)
Definition st_inv (st : estate) : Prop := e_phase st = PGreeting -> e_version st <> Some V2.

Lemma st_inv_init : st_inv e_init.
Proof. intros _. discriminate. Qed.

Lemma estep_inv cfg st b st' n o : estep cfg st b = Step st' n o -> st_inv st -> st_inv st'.
Proof.
  unfold estep, st_inv. destruct (e_phase st) eqn:Ep; try discriminate.
  - destruct (negb (e_rev_sent st)).
    + destruct (length b <? 10)%nat; [discriminate|]. destruct (_ && _); intros; inv_step; cbn in *; auto; discriminate.
    + destruct (e_version st) as [[|]|] eqn:Ev; try discriminate.
      * destruct (length b <? 64)%nat; [discriminate|].
        destruct (greeting_decode _) as [[fld ?]|]; [|intros; inv_step; cbn in *; discriminate].
        destruct (negotiate cfg fld); [|intros; inv_step; cbn in *; discriminate].
        destruct (mech_complete _); intros; inv_step; cbn in *; discriminate.
      * destruct (length b <? 11)%nat; [discriminate|].
        destruct (3 <=? nth 10 b 0); [intros; inv_step; cbn in *; discriminate|].
        destruct (nth 10 b 0 =? 1); [|intros; inv_step; cbn in *; discriminate].
        destruct (negb (c_allow_v2 cfg)); [intros; inv_step; cbn in *; discriminate|].
        destruct (c_sec_enabled cfg); [intros; inv_step; cbn in *; discriminate|].
        destruct (length b <? 12)%nat; [discriminate|].
        destruct (negb (v2_compat _ _)); [intros; inv_step; cbn in *; discriminate|].
        destruct (stype_code _); intros; inv_step; cbn in *; discriminate.
  - destruct (m_produce cfg (e_mech st)) as [m' [ | tok | ]]; try (intros; inv_step; cbn in *; congruence).
    destruct (mech_complete (e_mech st)); [intros; inv_step; cbn in *; discriminate|].
    destruct (dec_buffer (c_maxsz cfg) b) as [| | |f k]; try discriminate; try (intros; inv_step; cbn in *; discriminate).
    destruct (m_process cfg (e_mech st) (f_payload f)) as [m'' [e|]]; [intros; inv_step; cbn in *; discriminate|].
    destruct (mech_is_error m''); intros; inv_step; cbn in *; congruence.
  - destruct (dec_buffer (c_maxsz cfg) b) as [| | |f k]; try discriminate; try (intros; inv_step; cbn in *; discriminate).
    destruct (parse_cmd f); try destruct (ready_incompatible _ _); intros; inv_step; cbn in *; discriminate.
  - destruct (negb (e_v2_sent st)); try (intros; inv_step; cbn in *; congruence).
    destruct (dec_buffer (c_maxsz cfg) b) as [| | |f k]; try discriminate; try (intros; inv_step; cbn in *; discriminate).
    destruct (f_cmd f || f_more f); [intros; inv_step; cbn in *; discriminate|].
    destruct (255 <? length (f_payload f))%nat; intros; inv_step; cbn in *; discriminate.
  - destruct (dec_buffer (c_maxsz cfg) b) as [| | |f k]; try discriminate; try (intros; inv_step; cbn in *; discriminate).
    destruct (f_cmd f).
    + destruct (e_version st) as [[|]|]; try (intros; inv_step; cbn in *; discriminate);
        destruct (parse_cmd f); try destruct (ready_incompatible _ _); intros; inv_step; cbn in *; congruence.
    + destruct (MAX_FRAMES <=? length (e_partial st))%nat; [intros; inv_step; cbn in *; discriminate|].
      destruct (f_more f); intros; inv_step; cbn in *; congruence.
Qed.

Lemma Run_inv cfg st b st' r o : Run (estep cfg) st b st' r o -> st_inv st -> st_inv st'.
Proof. induction 1; auto. intros. apply IHRun. eapply estep_inv; eauto. Qed.

Definition buf_bound (cfg : ecfg) : N := N.max 64 (9 + Z.to_N (c_maxsz cfg)).

Lemma be_val_lt_pow l : wf_bytes l = true -> be_val l < 256 ^ N.of_nat (length l).
Proof.
  induction l as [|x l IH] using rev_ind; intros H.
  - cbn. lia.
  - rewrite wf_bytes_app in H. apply andb_true_iff in H. destruct H as [Hl Hx].
    cbn [wf_bytes forallb] in Hx. rewrite andb_true_r in Hx. apply N.ltb_lt in Hx.
    rewrite be_val_snoc, app_length. cbn [length].
    replace (N.of_nat (length l + 1)) with (N.succ (N.of_nat (length l))) by lia.
    rewrite N.pow_succ_r'. specialize (IH Hl). nia.
Qed.

Lemma dec_need_bound m b : dec_buffer m b = DNeed -> (0 <= m)%Z -> len b < 9 + Z.to_N m.
Proof.
  unfold dec_buffer, len. destruct b as [|fl t]; [cbn; lia|].
  destruct (length (fl :: t) <? hdr_len fl)%nat eqn:E.
  { intros _ _. unfold hdr_len in E. destruct (is_long fl); lia. }
  unfold over_limit. destruct (0 <=? m)%Z eqn:Em; [|lia]. cbn [andb].
  destruct (Z.to_N m <? raw_size fl (fl :: t)) eqn:El; [discriminate|].
  destruct (N.of_nat (length (fl :: t) - hdr_len fl) <? raw_size fl (fl :: t)) eqn:E2; [|discriminate].
  intros _ _. unfold hdr_len in *. destruct (is_long fl); lia.
Qed.

Lemma estep_need_bound cfg st r :
  estep cfg st r = Need -> st_inv st -> e_phase st <> PClosed -> (0 <= c_maxsz cfg)%Z ->
  len r < buf_bound cfg.
Proof.
  unfold estep, buf_bound, len. intros H Hinv Hnc Hm.
  destruct (e_phase st) eqn:Ep; try congruence.
  - destruct (negb (e_rev_sent st)).
    + destruct (length r <? 10)%nat eqn:E; [lia|]. destruct (_ && _); discriminate.
    + destruct (e_version st) as [[|]|] eqn:Ev.
      * exfalso. apply Hinv; auto.
      * destruct (length r <? 64)%nat eqn:E; [lia|].
        destruct (greeting_decode _) as [[fld ?]|]; [|discriminate].
        destruct (negotiate cfg fld); [|discriminate]. destruct (mech_complete _); discriminate.
      * destruct (length r <? 11)%nat eqn:E; [lia|].
        destruct (3 <=? nth 10 r 0); [discriminate|].
        destruct (nth 10 r 0 =? 1); [|discriminate].
        destruct (negb (c_allow_v2 cfg)); [discriminate|].
        destruct (c_sec_enabled cfg); [discriminate|].
        destruct (length r <? 12)%nat eqn:E12; [lia|].
        destruct (negb (v2_compat _ _)); [discriminate|]. destruct (stype_code _); discriminate.
  - destruct (m_produce cfg (e_mech st)) as [m' [ | tok | ]]; try discriminate.
    destruct (mech_complete (e_mech st)); [discriminate|].
    destruct (dec_buffer (c_maxsz cfg) r) as [| | |f k] eqn:E; try discriminate.
    + pose proof (dec_need_bound _ _ E Hm). unfold len in *. lia.
    + exfalso. eapply dec_buffer_no_panic; eauto.
    + destruct (m_process cfg (e_mech st) (f_payload f)) as [m'' [e|]]; [discriminate|].
      destruct (mech_is_error m''); discriminate.
  - destruct (dec_buffer (c_maxsz cfg) r) as [| | |f k] eqn:E; try discriminate.
    + pose proof (dec_need_bound _ _ E Hm). unfold len in *. lia.
    + exfalso. eapply dec_buffer_no_panic; eauto.
    + destruct (parse_cmd f); try destruct (ready_incompatible _ _); discriminate.
  - destruct (negb (e_v2_sent st)); [discriminate|].
    destruct (dec_buffer (c_maxsz cfg) r) as [| | |f k] eqn:E; try discriminate.
    + pose proof (dec_need_bound _ _ E Hm). unfold len in *. lia.
    + exfalso. eapply dec_buffer_no_panic; eauto.
    + destruct (f_cmd f || f_more f); [discriminate|].
      destruct (255 <? length (f_payload f))%nat; discriminate.
  - destruct (dec_buffer (c_maxsz cfg) r) as [| | |f k] eqn:E; try discriminate.
    + pose proof (dec_need_bound _ _ E Hm). unfold len in *. lia.
    + exfalso. eapply dec_buffer_no_panic; eauto.
    + destruct (f_cmd f).
      * destruct (e_version st) as [[|]|]; try discriminate; destruct (parse_cmd f); try destruct (ready_incompatible _ _); discriminate.
      * destruct (MAX_FRAMES <=? length (e_partial st))%nat; [discriminate|]. destruct (f_more f); discriminate.
Qed.

Definition g_inv (g : engine) : Prop := st_inv (g_st g).

Lemma e_input_inv cfg g i : g_inv g -> g_inv (fst (e_input cfg g i)).
Proof.
  unfold g_inv. intros H. destruct i as [d t|m|t| |w]; cbn [e_input].
  - unfold e_net.
    pose proof (sk_pump_Run (engine_ok cfg) (g_st g) (g_acc g ++ d)) as HR.
    destruct (pump (estep cfg) emu EMU_MAX (g_st g) (g_acc g ++ d)) as [[st' r] o]. cbn [fst g_st].
    eapply Run_inv; eauto.
  - unfold e_app. destruct (e_phase (g_st g)); exact H.
  - unfold e_tick. destruct (e_phase (g_st g)) eqn:Ep; try exact H.
    destruct (e_version (g_st g)) as [[|]|]; try exact H;
    (destruct (match c_hb_timeout cfg with Some _ => _ | None => _ end); [intros ?; discriminate|];
     destruct (c_hb_ivl cfg); [|exact H]; destruct (_ && _); exact H).
  - intros ?. discriminate.
  - exact H.
Qed.

Theorem engine_buffer_bound cfg g d t :
  g_inv g -> (0 <= c_maxsz cfg)%Z ->
  let g' := fst (e_net cfg g d t) in
  e_phase (g_st g') <> PClosed -> len (g_acc g') < buf_bound cfg.
Proof.
  intros Hinv Hm g' Hnc.
  pose proof (e_net_quiescent cfg g d t) as Hq. fold g' in Hq.
  pose proof (e_input_inv cfg g (INet d t) Hinv) as Hi. cbn [e_input] in Hi. fold g' in Hi.
  apply (estep_need_bound cfg (g_st g') (g_acc g')); auto.
Qed.

Theorem fresh_engine_inv t : g_inv (e_new t).
Proof. apply st_inv_init. Qed.

Theorem e_run_inv cfg : forall is g, g_inv g -> g_inv (fst (e_run cfg g is)).
Proof.
  induction is as [|i is IH]; intros g H; [exact H|].
  cbn [e_run]. pose proof (e_input_inv cfg g i H) as H1.
  destruct (e_input cfg g i) as [g1 o]. specialize (IH g1 H1). destruct (e_run cfg g1 is). exact IH.
Qed.

(* ---------- MAXMSGSIZE edge ---------- *)
Lemma dec_buffer_enc_reject m f rest : fits f -> over_limit m (len (f_payload f)) = true ->
  dec_buffer m (enc_codec f ++ rest) = DErr.
Proof.
  intros Hf Hlim. destruct f as [mo c p]. unfold fits in Hf. cbn [f_payload] in *.
  unfold enc_codec, enc_header_only, enc_header. cbn [f_more f_cmd f_payload].
  destruct (len p <=? 255) eqn:Hle.
  - cbn [app]. unfold dec_buffer. unfold hdr_len, raw_size. rewrite flags_long.
    cbn [length nth]. rewrite app_length.
    destruct (S (S (length p + length rest)) <? 2)%nat eqn:E; [lia|].
    rewrite Hlim. reflexivity.
  - rewrite N.mod_small by exact Hf.
    cbn [app]. unfold dec_buffer. unfold hdr_len, raw_size. rewrite flags_long.
    rewrite <- app_assoc.
    assert (length (be_bytes 8 (len p)) = 8%nat) as H8 by apply be_bytes_length.
    cbn [length]. rewrite !app_length, H8.
    destruct (S (8 + (length p + length rest)) <? 9)%nat eqn:E; [lia|].
    rewrite (skipn_cons 0), skipn_O.
    rewrite firstn_app_le, firstn_all2 by lia.
    rewrite be_roundtrip. change (256 ^ N.of_nat 8) with U64. rewrite N.mod_small by exact Hf.
    rewrite Hlim. reflexivity.
Qed.

Theorem limit_accepts_exact m f rest :
  (0 <= m)%Z -> fits f -> len (f_payload f) = Z.to_N m ->
  dec_buffer m (enc_codec f ++ rest) = DFrame f (length (enc_codec f)).
Proof.
  intros Hm Hf Hl. apply dec_buffer_enc. split; [exact Hf|].
  unfold over_limit. rewrite Hl. destruct (0 <=? m)%Z; cbn [andb]; [|reflexivity]. lia.
Qed.

Theorem limit_rejects_above m f rest :
  (0 <= m)%Z -> fits f -> Z.to_N m < len (f_payload f) ->
  dec_buffer m (enc_codec f ++ rest) = DErr.
Proof.
  intros Hm Hf Hl. apply dec_buffer_enc_reject; [exact Hf|].
  unfold over_limit. destruct (0 <=? m)%Z eqn:E; [|lia]. cbn [andb]. lia.
Qed.
