(* Proofs about Model/Shutdown.v (property C15; the termination part is also used by C16). *)
From Coq Require Import Permutation.
From RZ Require Import Base.Prelude Base.Stepper Model.Codec Proofs.CodecProofs Model.Engine Proofs.EngineProofs
  Model.Actor Model.Batch Proofs.BatchProofs Model.Egress Proofs.EgressProofs
  Model.IngressDriver Proofs.IngressDriverProofs Model.Pipeline Proofs.PipelineProofs Model.Shutdown.
Local Open Scope N_scope.

(* ================================================================ the coordinator ============== *)

Lemma sphase_eqb_eq a b : sphase_eqb a b = true <-> a = b.
Proof. destruct a, b; cbn; split; intros H; try reflexivity; try discriminate. Qed.

Lemma sphase_eqb_refl a : sphase_eqb a a = true.
Proof. destruct a; reflexivity. Qed.

Lemma start_linger_ph l now c : c_ph (start_linger l now c) = c_ph c.
Proof.
  unfold start_linger. destruct (negb (sphase_eqb (c_ph c) SLingering)); [reflexivity|].
  destruct (_ && _); [reflexivity|]. destruct l as [|d]; [reflexivity|]. destruct d; reflexivity.
Qed.

Lemma finish_if_done_ph c pe now :
  c_ph (finish_if_done c pe now) = if linger_done c pe now then SFinished else c_ph c.
Proof. unfold finish_if_done. destruct (linger_done c pe now); reflexivity. Qed.

Lemma linger_done_lingering c pe now : linger_done c pe now = true -> c_ph c = SLingering.
Proof.
  unfold linger_done. destruct (sphase_eqb (c_ph c) SLingering) eqn:E; cbn; [|discriminate].
  intros _. apply sphase_eqb_eq. exact E.
Qed.

(* phases only move forward *)
Lemma rank_finish_if_done c pe now : (rank (c_ph c) <= rank (c_ph (finish_if_done c pe now)))%nat.
Proof.
  rewrite finish_if_done_ph. destruct (linger_done c pe now) eqn:E; [|lia].
  apply linger_done_lingering in E. rewrite E. cbn. lia.
Qed.

Lemma rank_initiate l now now' pe c : (rank (c_ph c) <= rank (c_ph (initiate l now now' pe c)))%nat.
Proof.
  unfold initiate. destruct (sphase_eqb (c_ph c) SRunning) eqn:E; cbn [negb]; [|lia].
  apply sphase_eqb_eq in E. rewrite E.
  eapply Nat.le_trans; [|apply rank_finish_if_done]. rewrite start_linger_ph. cbn. lia.
Qed.

Lemma rank_check l now now' pe c : (rank (c_ph c) <= rank (c_ph (check_and_advance l now now' pe c)))%nat.
Proof.
  unfold check_and_advance. destruct (sphase_eqb (c_ph c) SLingering) eqn:E; cbn [negb]; [|lia].
  eapply Nat.le_trans; [|apply rank_finish_if_done].
  destruct (_ && _); [rewrite start_linger_ph|]; lia.
Qed.

Lemma check_finished l now now' pe c : c_ph c = SFinished -> check_and_advance l now now' pe c = c.
Proof. intros H. unfold check_and_advance. rewrite H. reflexivity. Qed.

Lemma initiate_not_running l now now' pe c : c_ph c <> SRunning -> initiate l now now' pe c = c.
Proof.
  intros H. unfold initiate. destruct (sphase_eqb (c_ph c) SRunning) eqn:E; [|reflexivity].
  apply sphase_eqb_eq in E. contradiction.
Qed.

Lemma run_ticks_finished l ts : forall c, c_ph c = SFinished -> run_ticks l c ts = c.
Proof.
  unfold run_ticks. induction ts as [|[[t t'] pe] ts IH]; intros c H; [reflexivity|].
  cbn [fold_left]. rewrite check_finished by exact H. apply IH. exact H.
Qed.

Lemma run_ticks_app l c a b : run_ticks l c (a ++ b) = run_ticks l (run_ticks l c a) b.
Proof. unfold run_ticks. apply fold_left_app. Qed.

(* the deadline the code computes for LINGER = d at time t0 (LINGER 0: "now"; now + 0 = now) *)
Definition dl_of (l : linger) (t0 : N) : option N :=
  match l with LInf => None | LMs d => Some (t0 + d) end.

(* after initiate_core_shutdown on a running socket: Finished, or Lingering with exactly that deadline *)
Definition CI (l : linger) (t0 : N) (c : coord) : Prop :=
  c_ph c = SFinished \/ (c_ph c = SLingering /\ c_dl c = dl_of l t0).

Lemma start_linger_fresh l t0 :
  start_linger l t0 {| c_ph := SLingering; c_dl := None |} = {| c_ph := SLingering; c_dl := dl_of l t0 |}.
Proof.
  unfold start_linger. cbn. destruct l as [|d]; [reflexivity|]. destruct d; cbn; [|reflexivity].
  rewrite N.add_0_r. reflexivity.
Qed.

Lemma CI_initiate l t0 t0' pe : CI l t0 (initiate l t0 t0' pe coord0).
Proof.
  unfold initiate, coord0, set_ph. cbn [c_ph c_dl sphase_eqb negb].
  rewrite start_linger_fresh. unfold CI. rewrite finish_if_done_ph.
  destruct (linger_done _ pe t0') eqn:E; [left; reflexivity|].
  right. unfold finish_if_done. rewrite E. cbn. auto.
Qed.

Lemma CI_check l t0 t t' pe c : CI l t0 c -> CI l t0 (check_and_advance l t t' pe c).
Proof.
  intros [H|[Hp Hd]]; [rewrite check_finished by exact H; left; exact H|].
  unfold check_and_advance. rewrite Hp. cbn [sphase_eqb negb].
  assert ((if (match c_dl c with None => true | Some _ => false end) && negb (linger_is_zero l)
           then start_linger l t c else c) = c) as ->.
  { rewrite Hd. destruct l as [|d]; cbn [dl_of andb].
    - cbn. unfold start_linger. rewrite Hp, Hd. cbn. destruct c; cbn in *; subst; reflexivity.
    - reflexivity. }
  unfold CI. rewrite finish_if_done_ph. destruct (linger_done c pe t') eqn:E; [left; reflexivity|].
  right. unfold finish_if_done. rewrite E. auto.
Qed.

Lemma CI_run l t0 ts : forall c, CI l t0 c -> CI l t0 (run_ticks l c ts).
Proof.
  unfold run_ticks. induction ts as [|[[t t'] pe] ts IH]; intros c H; [exact H|].
  cbn [fold_left]. apply IH. apply CI_check. exact H.
Qed.

(* a tick whose (second) clock read is at or after the deadline finishes the shutdown, whatever is queued *)
Lemma check_past_deadline d t0 t t' pe c :
  CI (LMs d) t0 c -> t0 + d <= t' -> c_ph (check_and_advance (LMs d) t t' pe c) = SFinished.
Proof.
  intros [H|[Hp Hd]] Ht; [rewrite check_finished by exact H; exact H|].
  unfold check_and_advance. rewrite Hp. cbn [sphase_eqb negb]. rewrite Hd. cbn [dl_of andb].
  rewrite finish_if_done_ph. unfold linger_done. rewrite Hp, Hd. cbn [sphase_eqb negb dl_of].
  destruct pe; [reflexivity|]. destruct (t0 + d <=? t') eqn:E; [reflexivity|]. lia.
Qed.

(* a tick that finds every pipe empty finishes it as well - for every LINGER, -1 included *)
Lemma check_pipes_empty l t0 t t' c :
  CI l t0 c -> c_ph (check_and_advance l t t' true c) = SFinished.
Proof.
  intros [H|[Hp Hd]]; [rewrite check_finished by exact H; exact H|].
  unfold check_and_advance. rewrite Hp. cbn [sphase_eqb negb].
  rewrite finish_if_done_ph. unfold linger_done.
  destruct (_ && _); [rewrite start_linger_ph|]; rewrite Hp; reflexivity.
Qed.

Definition tk2 (tk : tick) : N := snd (fst tk).

(* the maintenance ticks are at most P apart (100 ms interval + the time one loop iteration takes) *)
Fixpoint spaced (P prev : N) (ts : list tick) : Prop :=
  match ts with
  | [] => True
  | tk :: r => tk2 tk <= prev + P /\ spaced P (tk2 tk) r
  end.

Theorem coord_linger_bounds_close d P t0 t0' pe0 ts :
  t0 <= t0' -> spaced P t0' ts -> Exists (fun tk => t0 + d <= tk2 tk) ts ->
  let c0 := initiate (LMs d) t0 t0' pe0 coord0 in
  c_ph c0 = SFinished \/
  exists pre tk post, ts = pre ++ tk :: post /\ tk2 tk < t0 + d + P /\
    c_ph (run_ticks (LMs d) c0 (pre ++ [tk])) = SFinished.
Proof.
  intros Ht0 Hsp Hex c0.
  destruct (t0 + d <=? t0') eqn:Elate.
  { (* the deadline had passed by the time initiate looked: finished on the spot *)
    left. subst c0. unfold initiate, coord0, set_ph. cbn [c_ph c_dl sphase_eqb negb].
    rewrite start_linger_fresh, finish_if_done_ph. unfold linger_done. cbn [c_ph c_dl sphase_eqb negb dl_of].
    destruct pe0; [reflexivity|]. rewrite Elate. reflexivity. }
  right.
  assert (HCI : CI (LMs d) t0 c0) by apply CI_initiate.
  assert (Hprev : t0' < t0 + d) by lia.
  clearbody c0. clear Elate Ht0.
  revert t0' c0 Hsp Hprev HCI. induction ts as [|tk ts IH]; intros prev c Hsp Hprev HCI; [inversion Hex|].
  destruct Hsp as [Hle Hsp].
  destruct (t0 + d <=? tk2 tk) eqn:E.
  - exists [], tk, ts. split; [reflexivity|]. split; [lia|].
    cbn [app]. unfold run_ticks. cbn [fold_left]. destruct tk as [[t t'] pe]. unfold tk2 in *. cbn [fst snd] in *.
    apply (check_past_deadline d t0); [exact HCI | lia].
  - assert (Hex' : Exists (fun tk => t0 + d <= tk2 tk) ts).
    { inversion Hex; subst; [lia | assumption]. }
    destruct tk as [[t t'] pe]. unfold tk2 in *. cbn [fst snd] in *.
    destruct (IH Hex' t' (check_and_advance (LMs d) t t' pe c) Hsp ltac:(lia) (CI_check _ _ _ _ _ _ HCI))
      as (pre & tk' & post & -> & Hlt & Hfin).
    exists ((t, t', pe) :: pre), tk', post. split; [reflexivity|]. split; [exact Hlt|].
    cbn [app]. unfold run_ticks in *. cbn [fold_left]. exact Hfin.
Qed.

(* ... and it stays finished *)
Theorem coord_finished_stays l c ts : c_ph c = SFinished -> c_ph (run_ticks l c ts) = SFinished.
Proof. intros H. rewrite run_ticks_finished by exact H. exact H. Qed.

Theorem coord_linger_zero_prompt now now' pe :
  now <= now' -> c_ph (initiate (LMs 0) now now' pe coord0) = SFinished.
Proof.
  intros H. unfold initiate, coord0, set_ph. cbn [c_ph c_dl sphase_eqb negb].
  rewrite start_linger_fresh, finish_if_done_ph. unfold linger_done. cbn [c_ph c_dl sphase_eqb negb dl_of].
  destruct pe; [reflexivity|]. destruct (now + 0 <=? now') eqn:E; [reflexivity|]. lia.
Qed.

(* with LINGER -1 nothing but empty pipes ends Lingering: the phase after any ticks that all saw a non-empty pipe *)
Theorem coord_infinite_linger_waits t0 t0' ts :
  Forall (fun tk => snd tk = false) ts ->
  c_ph (run_ticks LInf (initiate LInf t0 t0' false coord0) ts) = SLingering.
Proof.
  intros Hall.
  assert (H0 : c_ph (initiate LInf t0 t0' false coord0) = SLingering /\ c_dl (initiate LInf t0 t0' false coord0) = None)
    by (split; reflexivity).
  revert H0. generalize (initiate LInf t0 t0' false coord0).
  induction ts as [|[[t t'] pe] ts IH]; intros c [Hp Hd]; [exact Hp|].
  inversion Hall as [|? ? Hpe Hall']; subst. cbn [snd] in Hpe. subst pe.
  unfold run_ticks. cbn [fold_left]. apply IH; [exact Hall'|].
  unfold check_and_advance. rewrite Hp, Hd. cbn. unfold start_linger. rewrite Hp, Hd. cbn.
  unfold finish_if_done, linger_done. cbn. auto.
Qed.

(* ================================================================ the composition ============== *)

Section Sys.
Variable bc : bcfg.
Variable ec : ecfg.
Variable cap : nat.
Variable g0 : engine.
Notation ystep := (y_step bc ec cap).

(* what survives a stop: the history of what was accepted, batched, written and read *)
Record SInv (p : pstate) : Prop := {
  w_batch : prefix (concat (p_batches p)) (p_accepted p);
  w_written : prefix (p_written p) (concat (map enc_contiguous (p_batches p)));
  w_wire : concat (map fst (p_reads p)) ++ p_wire p = p_written p;
  w_eng : p_eng p = fst (nets ec g0 (p_reads p));
  w_ent : i_entered (p_in p) = deliveries (snd (nets ec g0 (p_reads p)));
  w_in : i_delivered (p_in p) ++ i_q (p_in p) ++ i_ib (p_in p) = i_entered (p_in p)
}.

Lemma PInv_SInv p : PInv ec g0 p -> SInv p.
Proof.
  intros [Hb Heg Hw Hen Hent Hin]. constructor; try assumption.
  - exists (p_carry p ++ p_pipe p). symmetry. exact Hb.
  - destruct Heg as (done & hd & HI & Hhd). exists (eg_flat (p_eg p)). rewrite <- Hhd. symmetry.
    apply (einv_flat _ _ _ _ HI).
Qed.

(* the peer's side keeps working after the sender's session is gone *)
Lemma SInv_peer_step p e :
  (match e with PRead _ _ | PIn _ => True | _ => False end) -> SInv p -> SInv (p_step bc ec cap p e).
Proof.
  intros He [Hb Hwr Hw Hen Hent Hin]. destruct e as [m | | n | k t | ie]; try contradiction; cbn [p_step].
  - assert (HP : SInv p) by (constructor; assumption).
    destruct (i_ib (p_in p)) eqn:Hib; [|exact HP].
    destruct (i_pc (p_in p)) eqn:Hpc; try exact HP.
    destruct (e_net ec (p_eng p) (firstn k (p_wire p)) t) as [g' o] eqn:Hnet.
    assert (Hn : nets ec g0 (p_reads p ++ [(firstn k (p_wire p), t)]) =
                 (g', snd (nets ec g0 (p_reads p)) ++ o)).
    { rewrite nets_app. destruct (nets ec g0 (p_reads p)) as [g1 o1] eqn:Hn1. cbn [fst snd] in *.
      subst g1. cbn [nets]. rewrite Hnet. now rewrite app_nil_r. }
    set (s1 := i_step mweight cap true (p_in p) (DCancel msg)).
    assert (Hs1 : i_pc s1 = POut /\ i_fut s1 = false /\ i_entered s1 = i_entered (p_in p)
                  /\ i_delivered s1 ++ i_q s1 ++ i_ib s1 = i_entered s1).
    { subst s1. split; [|split; [|split]].
      - destruct (p_in p); cbn in *. subst. reflexivity.
      - destruct (p_in p); cbn in *. subst. reflexivity.
      - apply i_step_entered. intros x; discriminate.
      - apply i_step_conserves. exact (w_in _ HP). }
    destruct Hs1 as (Hp1 & Hf1 & He1 & Hc1).
    constructor; cbn [p_carry p_pipe p_eg p_wire p_eng p_in p_accepted p_batches p_written p_reads]; try assumption.
    + rewrite map_app, concat_app. cbn [map concat fst]. rewrite app_nil_r, <- app_assoc, firstn_skipn. exact Hw.
    + rewrite Hn. reflexivity.
    + rewrite Hn. cbn [snd]. rewrite deliveries_app, enq_all_spec by assumption. rewrite He1, Hent. reflexivity.
    + apply enq_all_conserves. exact Hc1.
  - destruct ie as [x| | | |]; try (constructor; assumption);
      constructor; cbn [p_carry p_pipe p_eg p_wire p_eng p_in p_accepted p_batches p_written p_reads]; try assumption;
      try (rewrite i_step_entered by (intros x; discriminate); exact Hent);
      apply i_step_conserves; exact Hin.
Qed.

Lemma SInv_drop p : SInv p -> SInv (drop_session_buffers p).
Proof. intros [Hb Hwr Hw Hen Hent Hin]. constructor; assumption. Qed.

(* invariant of the composition *)
Record YInv (s : sys) : Prop := {
  yi_full : y_sess s = SOperational -> PInv ec g0 (y_p s);
  yi_weak : SInv (y_p s)
}.

Lemma yinv_init l : YInv (y_init l g0).
Proof.
  constructor; cbn; intros; [apply pinv_init|]. apply PInv_SInv. apply pinv_init.
Qed.

Lemma yinv_step s e : YInv s -> YInv (ystep s e).
Proof.
  intros [Hf Hw]. destruct e as [pe | now now' | | | now now']; cbn [y_step].
  - destruct pe as [m | | n | k t | ie].
    + destruct (y_running s); [|constructor; assumption].
      destruct (y_sess s) eqn:Es.
      * assert (HP : PInv ec g0 (p_step bc ec cap (y_p s) (PSend m))) by (apply pinv_step; auto).
        constructor; cbn; intros; [exact HP | apply PInv_SInv; exact HP].
      * (* a send that slips in after the session stopped: the message sits in a pipe nobody reads *)
        constructor; cbn [set_p y_sess y_p]; [rewrite Es; discriminate|].
        destruct Hw as [Hb Hwr Hw' Hen Hent Hin]. cbn [p_step].
        constructor; cbn [p_carry p_pipe p_eg p_wire p_eng p_in p_accepted p_batches p_written p_reads]; try assumption.
        destruct Hb as [dd Hdd]. exists (dd ++ [m]). rewrite Hdd, app_assoc. reflexivity.
    + destruct (y_sess s) eqn:Es; [|constructor; [rewrite Es; discriminate | assumption]].
      assert (HP : PInv ec g0 (p_step bc ec cap (y_p s) PCycle)) by (apply pinv_step; auto).
      constructor; cbn; intros; [exact HP | apply PInv_SInv; exact HP].
    + destruct (y_sess s) eqn:Es; [|constructor; [rewrite Es; discriminate | assumption]].
      assert (HP : PInv ec g0 (p_step bc ec cap (y_p s) (PWrite n))) by (apply pinv_step; auto).
      constructor; cbn; intros; [exact HP | apply PInv_SInv; exact HP].
    + constructor; cbn [set_p y_sess y_p]; [intros Es; apply pinv_step; auto|].
      apply SInv_peer_step; [exact I | exact Hw].
    + constructor; cbn [set_p y_sess y_p]; [intros Es; apply pinv_step; auto|].
      apply SInv_peer_step; [exact I | exact Hw].
  - constructor; cbn; assumption.
  - destruct (y_sess s) eqn:Es; [|constructor; [rewrite Es; discriminate | assumption]].
    destruct (stop_visible s); [|constructor; [rewrite Es; auto | assumption]].
    constructor; cbn; [discriminate|]. apply SInv_drop. exact Hw.
  - destruct (y_sess s) eqn:Es; constructor; cbn; try assumption; rewrite ?Es; auto; discriminate.
  - constructor; cbn; assumption.
Qed.

Lemma yinv_run l evs : YInv (y_run bc ec cap l g0 evs).
Proof.
  unfold y_run. generalize (yinv_init l). generalize (y_init l g0).
  induction evs as [|e evs IH]; intros s H; cbn [fold_left]; [exact H|]. apply IH. apply yinv_step. exact H.
Qed.

End Sys.

(* ================================================================ no truncation ================ *)

Lemma prefix_map_firstn {A B} (f : A -> B) (o : list B) (ms : list A) :
  prefix o (map f ms) -> exists k, o = map f (firstn k ms).
Proof.
  intros [d Hd]. exists (length o). rewrite <- firstn_map, Hd.
  rewrite firstn_app, Nat.sub_diag, firstn_all. cbn. now rewrite app_nil_r.
Qed.

Lemma enc_contiguous_stream (bs : list (list msg)) :
  concat (map enc_contiguous bs) = stream_of (concat bs).
Proof.
  unfold stream_of, enc_contiguous. induction bs as [|b l IH]; [reflexivity|].
  cbn [map concat]. rewrite IH, !concat_app, map_app, concat_app. reflexivity.
Qed.

(* ENGINE LEMMA. The peer reads any prefix p of a valid data-phase byte stream, in any chunks, and then
   EOF: the messages delivered are the first k of those encoded, each one whole and unmodified; the
   engine's close() delivers nothing more. *)
Theorem engine_close_never_truncates cfg g ms p rest cs :
  e_phase (g_st g) = PData -> e_partial (g_st g) = [] -> g_acc g = [] ->
  Forall (wf_msg cfg) ms ->
  concat (map enc_codec (concat ms)) = p ++ rest ->
  concat (map fst cs) = p ->
  (exists k, snd (nets cfg g cs) = map ODeliver (firstn k ms)) /\
  deliveries (snd (e_close cfg (fst (nets cfg g cs)))) = [].
Proof.
  intros Hph Hpa Hacc Hwf HE Hcs. split; [|reflexivity].
  assert (Hq : quiescent cfg g) by (unfold quiescent, estep; rewrite Hph, Hacc; reflexivity).
  assert (Hone : snd (nets cfg g cs) = snd (e_net cfg g p 0)).
  { pose proof (engine_chunk_independent cfg g cs [(p, 0)] Hq) as H.
    cbn [map fst concat] in H. rewrite app_nil_r in H. specialize (H Hcs).
    destruct (nets cfg g cs) as [g1 o1]. cbn [nets] in H.
    destruct (e_net cfg g p 0) as [g2 o2]. rewrite app_nil_r in H. cbn. tauto. }
  assert (Hfull : snd (e_net cfg g (p ++ rest) 0) = map ODeliver ms).
  { pose proof (data_phase_delivers cfg g ms [(p ++ rest, 0)] Hph Hpa Hacc Hwf) as H.
    cbn [map fst concat] in H. rewrite app_nil_r in H. specialize (H (eq_sym HE)).
    cbn [nets] in H. destruct (e_net cfg g (p ++ rest) 0) as [g2 o2]. rewrite app_nil_r in H. cbn. tauto. }
  apply prefix_map_firstn. rewrite Hone, <- Hfull. apply engine_outputs_prefix_monotone. exact Hq.
Qed.

Section Sys2.
Variable bc : bcfg.
Variable ec : ecfg.
Variable cap : nat.
Variable g0 : engine.
Notation ystep := (y_step bc ec cap).
Notation yrun := (y_run bc ec cap).

(* SYSTEM LEVEL, for every LINGER and every schedule - the session may be stopped at any point, with
   anything in its buffers, and the peer may read the wire in any pieces: what recv() has returned on the
   peer is a prefix of what send() accepted (whole messages, unmodified, in order, no duplicates). *)
Theorem sys_never_truncates l evs :
  e_phase (g_st g0) = PData -> e_partial (g_st g0) = [] -> g_acc g0 = [] ->
  let s := yrun l g0 evs in
  Forall (wf_msg ec) (p_accepted (y_p s)) ->
  prefix (p_received (y_p s)) (p_accepted (y_p s)).
Proof.
  intros Hph Hpa Hacc s Hwf.
  destruct (yinv_run bc ec cap g0 l evs) as [_ [Hb Hwr Hw Hen Hent Hin]]. fold s in Hb, Hwr, Hw, Hen, Hent, Hin.
  set (p := y_p s) in *.
  assert (Hq : quiescent ec g0) by (unfold quiescent, estep; rewrite Hph, Hacc; reflexivity).
  set (ms := concat (p_batches p)).
  assert (Hwfms : Forall (wf_msg ec) ms).
  { destruct Hb as [d Hd]. rewrite Hd in Hwf. apply Forall_app in Hwf. tauto. }
  set (E := stream_of ms).
  rewrite enc_contiguous_stream in Hwr. fold ms E in Hwr.
  set (B := concat (map fst (p_reads p))).
  assert (HBE : exists rest, E = B ++ rest).
  { destruct Hwr as [d Hd]. exists (p_wire p ++ d). rewrite app_assoc. fold B in Hw. rewrite Hw. exact Hd. }
  destruct HBE as [rest HBE].
  destruct (engine_close_never_truncates ec g0 ms B rest (p_reads p) Hph Hpa Hacc Hwfms HBE eq_refl) as [[k Hk] _].
  eapply prefix_trans; [|exact Hb]. fold ms.
  eapply prefix_trans with (b := i_entered (p_in p)).
  - unfold p_received. exists (i_q (p_in p) ++ i_ib (p_in p)). symmetry. exact Hin.
  - rewrite Hent, Hk, deliveries_deliver. exists (skipn k ms). symmetry. apply firstn_skipn.
Qed.

(* ================================================================ termination ================== *)

Definition co_inv (s : sys) : Prop :=
  (c_ph (y_co s) = SRunning /\ c_dl (y_co s) = None) \/ (exists t0, CI (y_l s) t0 (y_co s) /\ y_bus s = true).

Lemma co_inv_step s e : co_inv s -> co_inv (ystep s e) /\ y_l (ystep s e) = y_l s.
Proof.
  intros H. destruct e as [pe | now now' | | | now now']; cbn [y_step].
  - destruct pe as [m | | n | k t | ie]; try (split; [exact H | reflexivity]).
    + destruct (y_running s); split; auto.
    + destruct (y_sess s); split; auto.
    + destruct (y_sess s); split; auto.
  - split; [|reflexivity]. unfold co_inv. cbn. right. destruct H as [[Hp Hd]|(t0 & HC & _)].
    + exists now. split; [|reflexivity].
      assert (y_co s = coord0) as -> by (destruct (y_co s); cbn in *; subst; reflexivity).
      apply CI_initiate.
    + exists t0. split; [|reflexivity]. rewrite initiate_not_running; [exact HC|].
      destruct HC as [HC|[HC _]]; rewrite HC; discriminate.
  - destruct (y_sess s); [destruct (stop_visible s)|]; split; auto.
  - destruct (y_sess s); split; auto.
  - split; [|reflexivity]. unfold co_inv. cbn. destruct H as [[Hp Hd]|(t0 & HC & Hb)].
    + left. unfold check_and_advance. rewrite Hp. cbn. auto.
    + right. exists t0. split; [apply CI_check; exact HC | exact Hb].
Qed.

Lemma co_inv_run l evs : co_inv (yrun l g0 evs) /\ y_l (yrun l g0 evs) = l.
Proof.
  unfold y_run.
  assert (H0 : co_inv (y_init l g0) /\ y_l (y_init l g0) = l) by (split; [left; split; reflexivity | reflexivity]).
  revert H0. generalize (y_init l g0).
  induction evs as [|e evs IH]; intros s [H Hl]; cbn [fold_left]; [split; assumption|].
  apply IH. destruct (co_inv_step s e H) as [H1 H2]. split; [exact H1 | congruence].
Qed.

(* phases only move forward, along every schedule *)
Theorem sys_phase_monotone s e : (rank (c_ph (y_co s)) <= rank (c_ph (y_co (ystep s e))))%nat.
Proof.
  destruct e as [pe | now now' | | | now now']; cbn [y_step].
  - destruct pe as [m | | n | k t | ie]; cbn; try lia.
    + destruct (y_running s); cbn; lia.
    + destruct (y_sess s); cbn; lia.
    + destruct (y_sess s); cbn; lia.
  - cbn. apply rank_initiate.
  - destruct (y_sess s); [destruct (stop_visible s)|]; cbn; lia.
  - destruct (y_sess s); cbn; lia.
  - cbn. apply rank_check.
Qed.

(* The shutdown state machine always terminates, for EVERY LINGER (-1 included) and from every reachable
   state: once close()/term() has been called, the session stops (the bus event is visible to it), the
   core removes its pipe, and the next maintenance tick reaches Finished. *)
Theorem sys_close_reaches_finished l evs now now' t t' :
  c_ph (y_co (yrun l g0 (evs ++ [YClose now now'; YSessStop; YSessGone; YTick t t']))) = SFinished.
Proof.
  unfold y_run. rewrite fold_left_app. fold (yrun l g0 evs).
  pose proof (co_inv_run l evs) as [H0 Hl0]. set (s0 := yrun l g0 evs) in *. clearbody s0.
  cbn [fold_left].
  pose proof (co_inv_step s0 (YClose now now') H0) as [H1 Hl1]. set (s1 := ystep s0 (YClose now now')) in *.
  assert (Hb1 : y_bus s1 = true) by reflexivity.
  destruct H1 as [[Hp _]|(t0 & HC1 & _)].
  { exfalso. subst s1. cbn [y_step y_co] in Hp. destruct H0 as [[Hq Hd]|(t0 & HC & _)].
    - assert (y_co s0 = coord0) as E by (destruct (y_co s0); cbn in *; subst; reflexivity).
      rewrite E in Hp. destruct (CI_initiate (y_l s0) now now' (pipes_empty s0)) as [HH|[HH _]]; rewrite HH in Hp; discriminate.
    - rewrite initiate_not_running in Hp; destruct HC as [HC|[HC _]]; rewrite HC in *; discriminate. }
  clearbody s1.
  set (s2 := ystep s1 YSessStop).
  assert (H2 : y_sess s2 = SShutting /\ y_co s2 = y_co s1 /\ y_l s2 = y_l s1).
  { subst s2. cbn [y_step]. destruct (y_sess s1) eqn:Es; [|cbn; rewrite Es; auto].
    unfold stop_visible. rewrite Hb1. cbn. auto. }
  destruct H2 as (Hs2 & Hc2 & Hl2). clearbody s2.
  set (s3 := ystep s2 YSessGone).
  assert (H3 : y_pipe_alive s3 = false /\ y_co s3 = y_co s1 /\ y_l s3 = y_l s1).
  { subst s3. cbn [y_step]. rewrite Hs2. cbn. rewrite Hc2, Hl2. auto. }
  destruct H3 as (Hp3 & Hc3 & Hl3). clearbody s3.
  cbn [y_step y_co set_co]. unfold pipes_empty. rewrite Hp3, Hc3, Hl3. cbn [negb orb].
  apply (check_pipes_empty _ t0). exact HC1.
Qed.

Theorem sys_finished_stays s e : c_ph (y_co s) = SFinished -> c_ph (y_co (ystep s e)) = SFinished.
Proof.
  intros H. pose proof (sys_phase_monotone s e) as Hm. rewrite H in Hm.
  destruct (c_ph (y_co (ystep s e))); cbn in Hm; try lia. reflexivity.
Qed.

End Sys2.

(* ================================================================ LINGER and what gets transmitted *)

(* The property as one would like it: LINGER = -1, so whenever the write half has been shut, everything
   send() accepted has been handed to the transport. It FAILS for the code: the session reacts to the
   bus event (or to Stop) by leaving its loop with its buffers unwritten, and the linger test cannot see
   those buffers anyway. *)
Theorem sys_linger_transmits_all_refuted :
  exists evs,
    let s := y_run ex_bc ex_cfg 4 LInf ex_g0 evs in
    c_ph (y_co s) = SFinished /\ y_eof s = true /\ p_accepted (y_p s) = [ex_m2] /\
    p_written (y_p s) = [] /\ snd (y_lost s) = enc_contiguous [ex_m2] /\ ~ all_transmitted s.
Proof.
  exists wit_evs. vm_compute. repeat split; try reflexivity. discriminate.
Qed.

(* not even a message that is still in the socket-to-session pipe is safe: the session hears of the
   shutdown on the event bus, whatever the coordinator's linger test says *)
Theorem sys_linger_pipe_message_lost :
  exists evs,
    let s := y_run ex_bc ex_cfg 4 LInf ex_g0 evs in
    c_ph (y_co s) = SFinished /\ y_eof s = true /\ p_accepted (y_p s) = [ex_m2] /\
    fst (y_lost s) = [ex_m2] /\ p_written (y_p s) = [].
Proof. exists wit_pipe_evs. vm_compute. repeat split; reflexivity. Qed.

Section Sys3.
Variable bc : bcfg.
Variable ec : ecfg.
Variable cap : nat.
Variable g0 : engine.
Notation ystep := (y_step bc ec cap).
Notation yrun := (y_run bc ec cap).

Lemma assemble_pipe_nil c pending carry b c' p' :
  assemble wsize c pending (carry, []) = (b, (c', p')) -> p' = [].
Proof.
  unfold assemble, assemble_gen. destruct (gate_open c pending); [|intros H; inversion H; reflexivity].
  destruct carry as [|c0 carry]; [intros H; inversion H; reflexivity|].
  unfold assemble_carry_gen.
  destruct (drain_carry _ _ _ _ _ _) as [[b0 t0] c1].
  destruct (true && negb _); [intros H; inversion H; reflexivity|].
  destruct (top_up wsize c (max_count_of c pending) b0 t0 []) as [[b1 o] p1] eqn:Ht.
  intros H. inversion H; subst. apply top_up_split in Ht. destruct Ht as (pulled & _ & H2 & _).
  apply app_eq_nil in H2. tauto.
Qed.

Lemma p_cycle_pipe_nil p : p_pipe p = [] -> p_pipe (p_step bc ec cap p PCycle) = [].
Proof.
  intros H. cbn [p_step]. rewrite H.
  destruct (assemble wsize bc (N.to_nat (e_msgs (p_eg p))) (p_carry p, [])) as [b [c' p']] eqn:Ha.
  apply assemble_pipe_nil in Ha. subst p'. destruct b; [exact H | reflexivity].
Qed.

Lemma eg_flat_nil e : e_chunks e = [] -> eg_flat e = [].
Proof. intros H. unfold eg_flat. rewrite H. cbn. apply skipn_nil. Qed.

(* invariant for LINGER = -1 along schedules in which the session stops only after Lingering is over
   and with empty local buffers *)
Record JInv (s : sys) : Prop := {
  j_l : y_l s = LInf;
  j_run : c_ph (y_co s) = SRunning \/ y_running s = false;
  j_co : (c_ph (y_co s) = SRunning /\ c_dl (y_co s) = None) \/ CI LInf 0 (y_co s);
  j_alive : y_sess s = SOperational -> y_pipe_alive s = true;
  j_pipe : y_sess s = SOperational -> c_ph (y_co s) = SFinished -> p_pipe (y_p s) = [];
  j_done : y_sess s = SShutting -> all_transmitted s;
  j_stopped : y_sess s = SShutting -> y_running s = false;
  j_eof : y_eof s = true -> y_sess s = SShutting
}.

Lemma jinv_init : JInv (y_init LInf g0).
Proof.
  constructor; cbn; auto; try discriminate.
Qed.

Lemma linger_done_inf c pe now :
  c_ph c = SLingering -> c_dl c = None -> linger_done c pe now = pe.
Proof. intros Hp Hd. unfold linger_done. rewrite Hp, Hd. cbn. destruct pe; reflexivity. Qed.

Lemma initiate_inf now now' pe :
  initiate LInf now now' pe coord0 =
  if pe then {| c_ph := SFinished; c_dl := None |} else {| c_ph := SLingering; c_dl := None |}.
Proof. destruct pe; reflexivity. Qed.

Lemma check_inf now now' pe c :
  c_ph c = SLingering -> c_dl c = None ->
  check_and_advance LInf now now' pe c = if pe then {| c_ph := SFinished; c_dl := None |} else c.
Proof.
  intros Hp Hd. unfold check_and_advance. rewrite Hp, Hd. cbn [sphase_eqb negb linger_is_zero andb].
  unfold start_linger. rewrite Hp, Hd. cbn [sphase_eqb negb andb].
  unfold finish_if_done, linger_done. cbn [c_ph c_dl sphase_eqb negb].
  destruct pe; [reflexivity|]. destruct c; cbn in *; subst; reflexivity.
Qed.

Lemma jinv_step s e :
  YInv ec g0 s -> JInv s ->
  (match e with
   | YSessStop => y_sess s = SOperational ->
                  (2 < rank (c_ph (y_co s)))%nat /\ p_carry (y_p s) = [] /\ e_chunks (p_eg (y_p s)) = []
   | _ => True end) ->
  JInv (ystep s e).
Proof.
  intros [Hfull Hweak] HJ Hhyp. pose proof HJ as [Hl Hrun Hco Hal Hpipe Hdone Hstop Heof].
  destruct e as [pe | now now' | | | now now']; cbn [y_step].
  - destruct pe as [m | | n | k t | ie].
    + destruct (y_running s) eqn:Er; [|exact HJ].
      destruct Hrun as [Hph|]; [|discriminate].
      assert (Hop : y_sess s = SOperational).
      { destruct (y_sess s) eqn:Es; [reflexivity|]. specialize (Hstop eq_refl). discriminate. }
      constructor; cbn [set_p y_l y_co y_running y_sess y_pipe_alive y_p y_eof]; auto.
      * intros _ Hf. rewrite Hph in Hf. discriminate.
      * intros Hs. rewrite Hop in Hs. discriminate.
      * intros Hs. rewrite Hop in Hs. discriminate.
    + destruct (y_sess s) eqn:Es; [|exact HJ].
      constructor; cbn [set_p y_l y_co y_running y_sess y_pipe_alive y_p y_eof]; rewrite ?Es; auto; try discriminate.
      intros _ Hf. apply p_cycle_pipe_nil. auto.
    + destruct (y_sess s) eqn:Es; [|exact HJ].
      constructor; cbn [set_p y_l y_co y_running y_sess y_pipe_alive y_p y_eof]; rewrite ?Es; auto; try discriminate.
    + constructor; cbn [set_p y_l y_co y_running y_sess y_pipe_alive y_p y_eof]; auto.
      * intros Ho Hf. specialize (Hpipe Ho Hf). cbn [p_step].
        destruct (i_ib (p_in (y_p s))); [|exact Hpipe]. destruct (i_pc (p_in (y_p s))); try exact Hpipe.
        destruct (e_net ec (p_eng (y_p s)) (firstn k (p_wire (y_p s))) t). exact Hpipe.
      * intros Hs. specialize (Hdone Hs). unfold all_transmitted in *. cbn [set_p y_p p_step].
        destruct (i_ib (p_in (y_p s))); [|exact Hdone]. destruct (i_pc (p_in (y_p s))); try exact Hdone.
        destruct (e_net ec (p_eng (y_p s)) (firstn k (p_wire (y_p s))) t). exact Hdone.
    + constructor; cbn [set_p y_l y_co y_running y_sess y_pipe_alive y_p y_eof]; auto.
      * intros Ho Hf. specialize (Hpipe Ho Hf). destruct ie; exact Hpipe.
      * intros Hs. specialize (Hdone Hs). unfold all_transmitted in *. cbn [set_p y_p]. destruct ie; exact Hdone.
  - (* close *)
    rewrite Hl.
    destruct Hco as [[Hp Hd]|HC].
    + assert (y_co s = coord0) as E by (destruct (y_co s); cbn in *; subst; reflexivity).
      rewrite E, initiate_inf.
      constructor; cbn [y_l y_co y_running y_sess y_pipe_alive y_p y_eof]; auto.
      * right. destruct (pipes_empty s); [left|right; split]; reflexivity.
      * intros Ho Hf. unfold pipes_empty in Hf. rewrite (Hal Ho) in Hf. cbn [negb orb] in Hf.
        destruct (p_pipe (y_p s)); [reflexivity|]. cbn in Hf. discriminate.
    + rewrite initiate_not_running by (destruct HC as [HC|[HC _]]; rewrite HC; discriminate).
      constructor; cbn [y_l y_co y_running y_sess y_pipe_alive y_p y_eof]; auto.
  - (* the session stops *)
    destruct (y_sess s) eqn:Es; [|exact HJ].
    destruct (stop_visible s); [|exact HJ].
    destruct (Hhyp eq_refl) as (Hrank & Hcarry & Hchunks).
    assert (Hfin : c_ph (y_co s) = SFinished).
    { destruct Hco as [[Hp _]|[HC|[HC _]]]; rewrite ?Hp, ?HC in *; cbn in Hrank; try lia. reflexivity. }
    constructor; cbn [y_l y_co y_running y_sess y_pipe_alive y_p y_eof]; auto; try discriminate.
    + intros _. unfold all_transmitted. cbn [y_p drop_session_buffers p_written p_accepted].
      destruct (Hfull eq_refl) as [Hb Heg Hw Hen Hent Hin]. destruct Heg as (done & hd & HI & Hhd).
      pose proof (einv_flat _ _ _ _ HI) as Hflat. rewrite (eg_flat_nil _ Hchunks), app_nil_r in Hflat.
      rewrite Hflat, Hhd, enc_contiguous_stream. f_equal.
      rewrite Hcarry, (Hpipe eq_refl Hfin), !app_nil_r in Hb. exact Hb.
    + intros _. destruct Hrun as [Hr|Hr]; [rewrite Hfin in Hr; discriminate | exact Hr].
  - (* the core forgets the pipe *)
    destruct (y_sess s) eqn:Es; constructor; cbn [y_l y_co y_running y_sess y_pipe_alive y_p y_eof]; rewrite ?Es; auto; discriminate.
  - (* tick *)
    rewrite Hl.
    destruct Hco as [[Hp Hd]|[HC|[HC Hd]]].
    + assert (check_and_advance LInf now now' (pipes_empty s) (y_co s) = y_co s) as ->
        by (unfold check_and_advance; rewrite Hp; reflexivity).
      constructor; cbn [set_co y_l y_co y_running y_sess y_pipe_alive y_p y_eof]; auto.
    + rewrite check_finished by exact HC.
      constructor; cbn [set_co y_l y_co y_running y_sess y_pipe_alive y_p y_eof]; auto.
      right; left; exact HC.
    + cbn [dl_of] in Hd. rewrite check_inf by assumption.
      destruct (pipes_empty s) eqn:Epe.
      * constructor; cbn [set_co y_l y_co y_running y_sess y_pipe_alive y_p y_eof]; auto.
        -- destruct Hrun as [Hr|Hr]; [rewrite HC in Hr; discriminate | right; exact Hr].
        -- right. left. reflexivity.
        -- intros Ho _. unfold pipes_empty in Epe. rewrite (Hal Ho) in Epe. cbn [negb orb] in Epe.
           destruct (p_pipe (y_p s)); [reflexivity | discriminate].
      * constructor; cbn [set_co y_l y_co y_running y_sess y_pipe_alive y_p y_eof]; auto.
        right. right. split; assumption.
Qed.

(* OUTSIDE the failing class. LINGER = -1; the session hears of the shutdown only from the coordinator
   (after Lingering, as initiate_core_shutdown intends) and holds nothing in core_carryover / EgressBuffer
   at that moment. Then the linger test has kept the session alive until the socket-to-session pipe was
   drained, and everything accepted has been handed to the transport before the write half is shut. *)
Theorem sys_linger_transmits_all_outside evs :
  stop_after_linger bc ec cap (y_init LInf g0) evs ->
  local_buffers_empty_at_stop bc ec cap (y_init LInf g0) evs ->
  let s := yrun LInf g0 evs in
  y_eof s = true -> all_transmitted s.
Proof.
  intros H1 H2 s. subst s. unfold y_run.
  assert (HY : YInv ec g0 (y_init LInf g0)) by apply yinv_init.
  assert (HJ : JInv (y_init LInf g0)) by apply jinv_init.
  revert H1 H2 HY HJ. generalize (y_init LInf g0).
  induction evs as [|e evs IH]; intros s H1 H2 HY HJ; cbn [fold_left].
  - intros He. apply (j_done _ HJ). apply (j_eof _ HJ). exact He.
  - cbn [stop_after_linger local_buffers_empty_at_stop] in H1, H2.
    destruct H1 as [H1a H1]. destruct H2 as [H2a H2].
    apply IH; [exact H1 | exact H2 | apply yinv_step; exact HY |].
    apply jinv_step; [exact HY | exact HJ |].
    destruct e; auto.
Qed.

Lemma shutting_stays s e : y_sess s = SShutting -> y_sess (ystep s e) = SShutting.
Proof.
  intros H. destruct e as [pe | now now' | | | now now']; cbn [y_step]; rewrite ?H; cbn; try exact H; try reflexivity.
  destruct pe as [m | | n | k t | ie]; rewrite ?H; cbn; try exact H; try reflexivity.
  destruct (y_running s); cbn; exact H.
Qed.

(* the part of it that concerns the pipe alone, for EVERY schedule: with LINGER = -1 the coordinator
   does not leave Lingering while the pipe of a live session still holds a message - every message
   that was in the socket-to-session pipe at close() is taken over by the session (unless the session
   is stopped first, which is the failing class above) *)
Theorem sys_linger_drains_pipe evs :
  let s := yrun LInf g0 evs in
  y_sess s = SOperational -> c_ph (y_co s) = SFinished -> p_pipe (y_p s) = [].
Proof.
  intros s. subst s. unfold y_run.
  assert (H0 : YInv ec g0 (y_init LInf g0) /\ (JInv (y_init LInf g0) \/ y_sess (y_init LInf g0) = SShutting))
    by (split; [apply yinv_init | left; apply jinv_init]).
  revert H0. generalize (y_init LInf g0).
  induction evs as [|e evs IH]; intros s [HY HJ]; cbn [fold_left].
  - intros Ho Hf. destruct HJ as [HJ|Hs]; [exact (j_pipe _ HJ Ho Hf) | rewrite Hs in Ho; discriminate].
  - apply IH. split; [apply yinv_step; exact HY|].
    destruct HJ as [HJ|Hs]; [|right; apply shutting_stays; exact Hs].
    destruct e as [pe | now now' | | | now now']; try (left; apply jinv_step; [exact HY | exact HJ | exact I]).
    cbn [y_step]. destruct (y_sess s) eqn:Es; [|left; exact HJ].
    destruct (stop_visible s); [right; reflexivity | left; exact HJ].
Qed.

End Sys3.
