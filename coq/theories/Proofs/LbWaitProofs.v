(* wait_for_connection vs add_connection: the lost wake-up, and where it cannot happen. *)
From RZ Require Import Base.Prelude Model.Balancer Model.LbWait Proofs.BalancerProofs.

(* no operation of another task lands between the check and the creation of the Notified future *)
Fixpoint gap_free (s : wst) (xs : list sch) : Prop :=
  match xs with
  | [] => True
  | x :: xs' => match x with SE _ => w_pc s <> PCreate | SW => True end /\ gap_free (sstep s x) xs'
  end.

Definition J (s : wst) : Prop :=
  (w_fixed s = true -> w_pc s <> PCreate /\ w_pc s <> PCheck) /\
  match w_pc s with
  | PCreate => peers (w_bal s) = [] /\ w_deact s = false
  | PFCheck seen => seen <= w_calls s
  | PAwait seen => seen <= w_calls s /\ (w_calls s = seen -> peers (w_bal s) = [] /\ w_deact s = false)
  | _ => True
  end.

Lemma J_init f : J (w0 f).
Proof. split; [intros _; split; discriminate|exact I]. Qed.

Lemma check_cases s e : check s e = PDone false /\ w_deact s = true \/
                        check s e = PDone true /\ w_deact s = false /\ peers (w_bal s) <> [] \/
                        check s e = e /\ w_deact s = false /\ peers (w_bal s) = [].
Proof.
  unfold check. destruct (w_deact s); [tauto|]. destruct (peers (w_bal s)); [tauto|].
  right. left. repeat split; discriminate.
Qed.

Lemma J_wstep s s' : J s -> wstep s = Some s' -> J s'.
Proof.
  destruct s as [b c d f pc]. unfold J, wstep, set_pc. cbn [w_pc w_fixed w_calls w_deact w_bal].
  intros [Hf HJ] H. destruct pc as [| | | |seen|seen|ok].
  - inversion H; subst; clear H. cbn [w_pc w_fixed]. destruct f; (split; [intros E; try discriminate; split; discriminate|]); simpl; auto.
  - inversion H; subst; clear H. cbn [w_pc w_fixed]. split.
    + intros E. destruct (Hf E) as [_ Hc]. congruence.
    + destruct (check_cases (mkW b c d f PCheck) PCreate) as [[-> _]|[[-> _]|[-> [H1 H2]]]]; simpl; auto.
  - inversion H; subst; clear H. cbn [w_pc w_fixed w_calls w_bal w_deact]. split.
    + intros E. destruct (Hf E) as [Hc _]. congruence.
    + split; [lia|]. intros _. exact HJ.
  - inversion H; subst; clear H. cbn [w_pc w_fixed w_calls]. split; [intros _; split; discriminate|lia].
  - inversion H; subst; clear H. cbn [w_pc w_fixed w_calls w_bal w_deact]. split.
    + intros _. destruct (check_cases (mkW b c d f (PFCheck seen)) (PAwait seen)) as [[-> _]|[[-> _]|[-> _]]]; split; discriminate.
    + destruct (check_cases (mkW b c d f (PFCheck seen)) (PAwait seen)) as [[-> _]|[[-> _]|[-> [H1 H2]]]]; simpl; auto.
  - destruct (Nat.eqb_spec c seen); [discriminate|]. inversion H; subst; clear H. cbn [w_pc w_fixed].
    destruct f; (split; [intros E; try discriminate; split; discriminate|]); simpl; auto; lia.
  - discriminate.
Qed.

Lemma add_to_empty_notifies u b : peers b = [] -> add_notifies u b = true.
Proof. intros E. unfold add_notifies. rewrite E. reflexivity. Qed.

Lemma remove_empty u b : peers b = [] -> peers (remove u b) = [].
Proof. intros E. unfold remove. rewrite E. simpl. exact E. Qed.

Lemma J_estep s e : J s -> w_pc s <> PCreate -> J (estep s e).
Proof.
  destruct s as [b c d f pc]. unfold J. cbn [w_pc w_fixed w_calls w_deact w_bal].
  intros [Hf HJ] Hne. destruct e as [u|u|]; cbn [estep w_pc w_fixed w_calls w_deact w_bal]; (split; [exact Hf|]);
    destruct pc as [| | | |seen|seen|ok]; auto; try congruence.
  - destruct (add_notifies u b); lia.
  - destruct HJ as [H1 H2]. destruct (add_notifies u b) eqn:E.
    + split; [lia|]. intros; lia.
    + split; [exact H1|]. intros Hc. destruct (H2 Hc) as [Hp _].
      rewrite add_to_empty_notifies in E by exact Hp. discriminate.
  - destruct HJ as [H1 H2]. split; [exact H1|]. intros Hc. destruct (H2 Hc) as [Hp Hd].
    split; [apply remove_empty; exact Hp|exact Hd].
  - destruct HJ as [H1 _]. split; [lia|]. intros; lia.
Qed.

Lemma J_srun xs : forall s, J s -> gap_free s xs -> J (srun xs s).
Proof.
  induction xs as [|x xs IH]; intros s HJ Hg; [exact HJ|]. simpl in *. destruct Hg as [Hx Hg].
  apply IH; [|exact Hg]. destruct x as [|e]; simpl.
  - destruct (wstep s) as [s'|] eqn:E; [eapply J_wstep; eauto|exact HJ].
  - apply J_estep; assumption.
Qed.

Lemma J_not_lost s : J s -> lost s = false.
Proof.
  unfold J, lost. intros [_ HJ]. destruct (w_pc s); auto.
  destruct (Nat.eqb_spec (w_calls s) seen) as [E|]; [|reflexivity]. destruct HJ as [_ HJ].
  destruct (HJ E) as [-> _]. reflexivity.
Qed.

(* the defect: check; add_connection (+ notify_waiters); notified() created afterwards *)
Theorem wait_lost_wakeup_refuted :
  exists xs, lost (srun xs (w0 false)) = true /\ wstep (srun xs (w0 false)) = None.
Proof. exists [SW; SW; SE (EAdd 1%N); SW]. split; reflexivity. Qed.

(* once lost, only a further notify_waiters (a NEW uri, or deactivate) helps: re-adding a known
   peer or removing peers leaves the waiter asleep *)
Theorem lost_stays_lost s e : lost s = true ->
  match e with EAdd u => In u (peers (w_bal s)) | ERemove _ => False | EDeact => False end ->
  lost (estep s e) = true.
Proof.
  unfold lost. destruct s as [b c d f pc]. cbn [w_pc w_calls w_bal]. destruct pc; try discriminate.
  intros H He. destruct e as [u|u|]; try tauto. cbn [estep w_pc w_calls w_bal].
  rewrite add_dup_noop by exact He. unfold add_notifies. apply has_true in He. rewrite He. exact H.
Qed.

(* the property holds on every schedule outside that window ... *)
Theorem wait_safe_outside xs : gap_free (w0 false) xs -> lost (srun xs (w0 false)) = false.
Proof. intros H. apply J_not_lost, J_srun; [apply J_init|exact H]. Qed.

(* ... and on every schedule at all when the future is created before the check *)
Lemma fixed_gap_free xs : forall s, J s -> w_fixed s = true -> gap_free s xs.
Proof.
  induction xs as [|x xs IH]; intros s HJ Hf; simpl; [exact I|]. split.
  - destruct x; [exact I|]. destruct HJ as [H _]. apply H. exact Hf.
  - assert (Hf' : w_fixed (sstep s x) = true).
    { destruct x as [|e]; simpl.
      - unfold wstep. destruct (w_pc s); try exact Hf; simpl; try exact Hf.
        destruct (w_calls s =? seen); exact Hf.
      - destruct e; exact Hf. }
    apply IH; [|exact Hf'].
    destruct x as [|e]; simpl.
    + destruct (wstep s) as [s'|] eqn:E; [eapply J_wstep; eauto|exact HJ].
    + apply J_estep; [exact HJ|]. destruct HJ as [H _]. apply H. exact Hf.
Qed.

Theorem wait_fixed_safe xs : lost (srun xs (w0 true)) = false.
Proof.
  apply J_not_lost, J_srun; [apply J_init|]. apply fixed_gap_free; [apply J_init|reflexivity].
Qed.

(* a parked waiter that has not lost its wake-up proceeds as soon as a peer is there: it is
   runnable, and its next two steps (wake, check) return Ok (Err if deactivated meanwhile) *)
Theorem wait_proceeds s seen : J s -> w_fixed s = false -> w_pc s = PAwait seen ->
  peers (w_bal s) <> [] ->
  w_pc (srun [SW; SW] s) = PDone (negb (w_deact s)).
Proof.
  destruct s as [b c d f pc]. unfold J. cbn [w_pc w_fixed w_calls w_deact w_bal].
  intros [_ HJ] -> -> Hne. destruct HJ as [H1 H2].
  cbv beta iota zeta delta [srun fold_left sstep wstep w_pc w_calls w_fixed set_pc w_bal w_deact].
  destruct (Nat.eqb_spec c seen) as [E|_]; [destruct (H2 E); congruence|].
  cbv beta iota zeta delta [wstep w_pc w_calls w_fixed set_pc w_bal w_deact check].
  destruct d; [reflexivity|]. destruct (peers b); [congruence|reflexivity].
Qed.

(* ---------- several waiters ---------- *)
Lemma nth_set_nth_same {A} (d : A) : forall l i x, (i < length l)%nat -> nth i (set_nth i x l) d = x.
Proof. induction l as [|h t IH]; intros [|i] x H; cbn in *; try lia; [reflexivity|apply IH; lia]. Qed.
Lemma nth_set_nth_other {A} (d : A) : forall l i j x, i <> j -> nth j (set_nth i x l) d = nth j l d.
Proof.
  induction l as [|h t IH]; intros [|i] [|j] x H; cbn; try reflexivity; try congruence. apply IH. congruence.
Qed.
Lemma set_nth_length {A} : forall (l : list A) i x, length (set_nth i x l) = length l.
Proof. induction l as [|h t IH]; intros [|i] x; cbn; auto. Qed.

Lemma estep_indep_pc s e : forall p,
  w_bal (estep (set_pc s p) e) = w_bal (estep s e) /\ w_calls (estep (set_pc s p) e) = w_calls (estep s e) /\
  w_deact (estep (set_pc s p) e) = w_deact (estep s e).
Proof. intros p. destruct e; cbn; auto. Qed.

(* waiter i of the shared system behaves exactly like the single-waiter model under the part of the schedule it sees *)
Lemma mproj_step m x i : (i < length (m_pcs m))%nat ->
  mproj (mstep m x) i = fold_left sstep (msched_of i x) (mproj m i) /\ length (m_pcs (mstep m x)) = length (m_pcs m).
Proof.
  intros Hi. destruct x as [j|e]; cbn [mstep msched_of].
  - destruct (Nat.ltb_spec j (length (m_pcs m))) as [Hj|Hj].
    + destruct (wstep (mproj m j)) as [s'|] eqn:Ew.
      * destruct (Nat.eqb_spec j i) as [->|Hne].
        { cbn [fold_left sstep]. rewrite Ew. unfold mproj at 1. cbn [m_bal m_calls m_deact m_pcs].
          rewrite nth_set_nth_same by exact Hi. rewrite set_nth_length. split; [|reflexivity].
          unfold wstep in Ew. unfold mproj in *. cbn [w_pc w_fixed w_calls] in Ew.
          destruct (nth i (m_pcs m) (PDone true)) as [| | | |seen|seen|ok]; try (inversion Ew; subst; reflexivity);
            try (destruct (m_calls m =? seen)%nat; inversion Ew; subst; reflexivity); try discriminate. }
        { cbn [fold_left]. unfold mproj. cbn [m_bal m_calls m_deact m_pcs].
          rewrite nth_set_nth_other by exact Hne. rewrite set_nth_length. split; reflexivity. }
      * destruct (Nat.eqb_spec j i) as [->|Hne]; cbn [fold_left sstep]; [rewrite Ew|]; split; reflexivity.
    + destruct (Nat.eqb_spec j i) as [->|Hne]; [lia|]. cbn. split; reflexivity.
  - cbn [fold_left sstep]. unfold mproj. cbn [m_bal m_calls m_deact m_pcs]. split; [|reflexivity].
    destruct e; cbn; reflexivity.
Qed.

Lemma mproj_run : forall xs m i, (i < length (m_pcs m))%nat ->
  mproj (mrun xs m) i = srun (concat (map (msched_of i) xs)) (mproj m i) /\ length (m_pcs (mrun xs m)) = length (m_pcs m).
Proof.
  induction xs as [|x xs IH]; intros m i Hi; [cbn; auto|].
  cbn [mrun fold_left map concat]. destruct (mproj_step m x i Hi) as [H1 H2].
  fold (mrun xs (mstep m x)). destruct (IH (mstep m x) i ltac:(rewrite H2; exact Hi)) as [I1 I2].
  rewrite I1, H1, I2, H2. unfold srun. rewrite fold_left_app. split; reflexivity.
Qed.

Lemma nth_repeat_lt {A} (x d : A) : forall n i, (i < n)%nat -> nth i (repeat x n) d = x.
Proof. induction n as [|n IH]; intros [|i] H; cbn; try lia; [reflexivity|apply IH; lia]. Qed.

Definition mlost (m : mwst) (i : nat) : bool := lost (mproj m i).

(* no waiter of any number of concurrently waiting tasks is ever left asleep next to a connected peer, for every
   interleaving of their steps with add_connection / remove_connection / deactivate *)
Theorem wait_all_waiters_safe n xs i : (i < n)%nat -> mlost (mrun xs (mw0 n)) i = false.
Proof.
  intros Hi. unfold mlost.
  destruct (mproj_run xs (mw0 n) i) as [H _]; [cbn; rewrite repeat_length; exact Hi|].
  rewrite H. replace (mproj (mw0 n) i) with (w0 true).
  - apply wait_fixed_safe.
  - unfold mproj, mw0, w0. cbn. f_equal. symmetry. apply nth_repeat_lt. exact Hi.
Qed.
