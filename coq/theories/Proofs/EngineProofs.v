From RZ Require Import Base.Prelude Base.Stepper Model.Codec Proofs.CodecProofs Model.Engine.
Local Open Scope N_scope.

(* ---------- append-stability helpers ---------- *)
Lemma ltb_app_false (b d : bytes) k : (length b <? k)%nat = false -> (length (b ++ d) <? k)%nat = false.
Proof. rewrite app_length. intros H. apply Nat.ltb_ge in H. apply Nat.ltb_ge. lia. Qed.
Lemma nth_app_small (b d : bytes) k : (length b <? S k)%nat = false -> nth k (b ++ d) 0 = nth k b 0.
Proof. intros H. apply Nat.ltb_ge in H. apply app_nth1. lia. Qed.
Lemma firstn_app_small (b d : bytes) k : (length b <? k)%nat = false -> firstn k (b ++ d) = firstn k b.
Proof. intros H. apply Nat.ltb_ge in H. apply firstn_app_le. lia. Qed.

Inductive dclass := KNeed | KErr | KFrame (f : frame) (n : nat).
Definition dclass_of (r : dres) : dclass :=
  match r with DNeed | DPanic => KNeed | DErr => KErr | DFrame f n => KFrame f n end.

Lemma dec_buffer_stable m b d :
  dclass_of (dec_buffer m b) <> KNeed -> dec_buffer m (b ++ d) = dec_buffer m b.
Proof.
  destruct (dec_buffer m b) as [| | |f n] eqn:E; cbn [dclass_of]; intros H; try congruence.
  - apply dec_buffer_err_mono. exact E.
  - apply (dec_buffer_mono _ _ d _ _ E).
Qed.

Lemma dec_buffer_consumed m b f n : dec_buffer m b = DFrame f n -> (0 < n <= length b)%nat.
Proof. intros E. destruct (dec_buffer_mono _ _ [] _ _ E) as (_ & ? & ?). lia. Qed.

(* ---------- estep is a well-behaved stepper ---------- *)
Ltac len_test H :=
  match goal with
  | |- context [(length ?b <? ?k)%nat] =>
      destruct (length b <? k)%nat eqn:H; [try discriminate | ]
  end.

Lemma estep_mono cfg : step_mono (estep cfg).
Proof.
  intros st b d st' n o. unfold estep.
  destruct (e_phase st); try discriminate.
  - (* Greeting *)
    destruct (negb (e_rev_sent st)).
    + len_test H10. rewrite (ltb_app_false _ d _ H10).
      rewrite !(nth_app_small b d) by (apply Nat.ltb_ge in H10; apply Nat.ltb_ge; lia). auto.
    + destruct (e_version st) as [[|]|]; try discriminate.
      * len_test H64. rewrite (ltb_app_false _ d _ H64), (firstn_app_small b d 64 H64). auto.
      * len_test H11. rewrite (ltb_app_false _ d _ H11).
        rewrite (nth_app_small b d 10) by exact H11.
        destruct (3 <=? nth 10 b 0); [auto|].
        destruct (nth 10 b 0 =? 1); [|auto].
        destruct (negb (c_allow_v2 cfg)); [auto|].
        destruct (c_sec_enabled cfg); [auto|].
        len_test H12. rewrite (ltb_app_false _ d _ H12).
        rewrite (nth_app_small b d 11) by exact H12. auto.
  - (* Security *)
    destruct (m_produce cfg (e_mech st)) as [m' [ | tok | ]]; auto.
    destruct (mech_complete (e_mech st)); auto.
    destruct (dec_buffer (c_maxsz cfg) b) as [| | |f k] eqn:E; try discriminate;
      rewrite dec_buffer_stable by (rewrite E; discriminate); rewrite E; auto.
  - (* Ready *)
    destruct (dec_buffer (c_maxsz cfg) b) as [| | |f k] eqn:E; try discriminate;
      rewrite dec_buffer_stable by (rewrite E; discriminate); rewrite E; auto.
  - (* V2Identity *)
    destruct (negb (e_v2_sent st)); auto.
    destruct (dec_buffer (c_maxsz cfg) b) as [| | |f k] eqn:E; try discriminate;
      rewrite dec_buffer_stable by (rewrite E; discriminate); rewrite E; auto.
  - (* Data *)
    destruct (dec_buffer (c_maxsz cfg) b) as [| | |f k] eqn:E; try discriminate;
      rewrite dec_buffer_stable by (rewrite E; discriminate); rewrite E; auto.
Qed.

Ltac inv_step :=
  match goal with
  | H : Step _ _ _ = Step _ _ _ |- _ => inversion H; subst; clear H
  | H : fail0 _ _ = Step _ _ _ |- _ => unfold fail0 in H; inversion H; subst; clear H
  end.

Lemma estep_bounded cfg : step_bounded (estep cfg).
Proof.
  intros st b st' n o. unfold estep.
  destruct (e_phase st); try discriminate.
  - destruct (negb (e_rev_sent st)).
    + len_test H10. destruct (_ && _); intros; inv_step; lia.
    + destruct (e_version st) as [[|]|]; try discriminate.
      * len_test H64. apply Nat.ltb_ge in H64.
        destruct (greeting_decode _) as [[fld ?]|]; [|intros; inv_step; lia].
        destruct (negotiate cfg fld); [|intros; inv_step; lia].
        destruct (mech_complete _); intros; inv_step; lia.
      * len_test H11.
        destruct (3 <=? nth 10 b 0); [intros; inv_step; lia|].
        destruct (nth 10 b 0 =? 1); [|intros; inv_step; lia].
        destruct (negb (c_allow_v2 cfg)); [intros; inv_step; lia|].
        destruct (c_sec_enabled cfg); [intros; inv_step; lia|].
        len_test H12. apply Nat.ltb_ge in H12.
        destruct (negb (v2_compat _ _)); [intros; inv_step; lia|].
        destruct (stype_code _); intros; inv_step; lia.
  - destruct (m_produce cfg (e_mech st)) as [m' [ | tok | ]]; try (intros; inv_step; lia).
    destruct (mech_complete (e_mech st)); try (intros; inv_step; lia).
    destruct (dec_buffer (c_maxsz cfg) b) as [| | |f k] eqn:E; try discriminate; try (intros; inv_step; lia).
    pose proof (dec_buffer_consumed _ _ _ _ E).
    destruct (m_process cfg (e_mech st) (f_payload f)) as [m'' [e|]]; [intros; inv_step; lia|].
    destruct (mech_is_error m''); intros; inv_step; lia.
  - destruct (dec_buffer (c_maxsz cfg) b) as [| | |f k] eqn:E; try discriminate; try (intros; inv_step; lia).
    pose proof (dec_buffer_consumed _ _ _ _ E).
    destruct (parse_cmd f); try destruct (ready_incompatible _ _); intros; inv_step; lia.
  - destruct (negb (e_v2_sent st)); try (intros; inv_step; lia).
    destruct (dec_buffer (c_maxsz cfg) b) as [| | |f k] eqn:E; try discriminate; try (intros; inv_step; lia).
    pose proof (dec_buffer_consumed _ _ _ _ E).
    destruct (f_cmd f || f_more f); [intros; inv_step; lia|].
    destruct (255 <? length (f_payload f))%nat; intros; inv_step; lia.
  - destruct (dec_buffer (c_maxsz cfg) b) as [| | |f k] eqn:E; try discriminate; try (intros; inv_step; lia).
    pose proof (dec_buffer_consumed _ _ _ _ E).
    destruct (f_cmd f).
    + destruct (e_version st) as [[|]|]; try (intros; inv_step; lia);
        destruct (parse_cmd f); try destruct (ready_incompatible _ _); intros; inv_step; lia.
    + destruct (MAX_FRAMES <=? length (e_partial st))%nat; [intros; inv_step; lia|].
      destruct (f_more f); intros; inv_step; lia.
Qed.

Lemma emu_le st : (emu st <= EMU_MAX)%nat.
Proof.
  unfold emu, EMU_MAX. destruct (e_phase st), (e_rev_sent st), (e_version st), (e_v2_sent st);
    destruct (e_mech st) as [|? []|[] [] ?]; cbn; lia.
Qed.

Lemma emu_closed st : emu (closed st) = 0%nat.
Proof. reflexivity. Qed.
Lemma emu_pos st : e_phase st <> PClosed -> (0 < emu st)%nat.
Proof. unfold emu. destruct (e_phase st); try congruence; intros; lia. Qed.

Lemma produce_mu cfg m m' : forall p, m_produce cfg m = (m', p) -> p <> PrNone -> (mech_mu m' < mech_mu m)%nat.
Proof.
  intros p H Hp. destruct m as [|s ps|s snt f]; cbn in H.
  - inversion H; subst; congruence.
  - destruct ps; inversion H; subst; try congruence; cbn; lia.
  - destruct s, snt; inversion H; subst; try congruence; cbn; lia.
Qed.
Lemma produce_none cfg m m' : m_produce cfg m = (m', PrNone) -> m' = m.
Proof.
  destruct m as [|s ps|s snt f]; cbn.
  - intros H; inversion H; reflexivity.
  - destruct ps; intros H; inversion H; reflexivity.
  - destruct s, snt; intros H; inversion H; reflexivity.
Qed.

Lemma estep_measure cfg : step_measure (estep cfg) emu EMU_MAX.
Proof.
  intros st b st' n o. unfold estep.
  destruct (e_phase st) eqn:Ep; try discriminate.
  - destruct (negb (e_rev_sent st)) eqn:Er.
    + len_test H10. destruct (_ && _); intros; inv_step; right; split; auto.
      * unfold emu; cbn [e_phase e_rev_sent e_version e_v2_sent e_mech]. rewrite Ep.
        apply negb_true_iff in Er. rewrite Er. lia.
      * rewrite emu_closed. apply emu_pos. congruence.
    + destruct (e_version st) as [[|]|] eqn:Ev; try discriminate.
      * len_test H64.
        destruct (greeting_decode _) as [[fld ?]|]; [|intros; inv_step; left; rewrite emu_closed; lia].
        destruct (negotiate cfg fld); [|intros; inv_step; left; rewrite emu_closed; lia].
        destruct (mech_complete _); intros; inv_step; left; (split; [lia|apply emu_le]).
      * len_test H11.
        destruct (3 <=? nth 10 b 0).
        { intros; inv_step; right; split; auto.
          unfold emu; cbn [e_phase e_rev_sent e_version e_v2_sent e_mech]. rewrite Ep, Ev.
          apply negb_false_iff in Er. rewrite Er. lia. }
        destruct (nth 10 b 0 =? 1); [|intros; inv_step; right; split; auto; rewrite emu_closed; apply emu_pos; congruence].
        destruct (negb (c_allow_v2 cfg)); [intros; inv_step; right; split; auto; rewrite emu_closed; apply emu_pos; congruence|].
        destruct (c_sec_enabled cfg); [intros; inv_step; right; split; auto; rewrite emu_closed; apply emu_pos; congruence|].
        len_test H12.
        destruct (negb (v2_compat _ _)); [intros; inv_step; right; split; auto; rewrite emu_closed; apply emu_pos; congruence|].
        destruct (stype_code _); intros; inv_step.
        { left. split; [lia|apply emu_le]. }
        { right; split; auto; rewrite emu_closed; apply emu_pos; congruence. }
  - destruct (m_produce cfg (e_mech st)) as [m' p] eqn:Epr.
    destruct p as [ | tok | ].
    + apply produce_none in Epr. subst m'.
      destruct (mech_complete (e_mech st)).
      { intros; inv_step. right; split; auto.
        unfold emu; cbn [set_phase e_phase e_rev_sent e_version e_v2_sent e_mech]. rewrite Ep. lia. }
      destruct (dec_buffer (c_maxsz cfg) b) as [| | |f k] eqn:E; try discriminate.
      { intros; inv_step. right; split; auto. rewrite emu_closed. apply emu_pos. congruence. }
      pose proof (dec_buffer_consumed _ _ _ _ E).
      destruct (m_process cfg (e_mech st) (f_payload f)) as [m'' [e|]]; [intros; inv_step; left; split; [lia|apply emu_le]|].
      destruct (mech_is_error m''); intros; inv_step; left; (split; [lia|apply emu_le]).
    + intros; inv_step. right; split; auto.
      pose proof (produce_mu _ _ _ _ Epr ltac:(discriminate)).
      unfold emu; cbn [set_mech e_phase e_rev_sent e_version e_v2_sent e_mech]. rewrite Ep. lia.
    + intros; inv_step. right; split; auto.
      pose proof (produce_mu _ _ _ _ Epr ltac:(discriminate)).
      unfold emu; cbn [set_mech e_phase e_rev_sent e_version e_v2_sent e_mech]. rewrite Ep. lia.
  - destruct (dec_buffer (c_maxsz cfg) b) as [| | |f k] eqn:E; try discriminate.
    { intros; inv_step. right; split; auto. rewrite emu_closed. apply emu_pos. congruence. }
    pose proof (dec_buffer_consumed _ _ _ _ E).
    destruct (parse_cmd f); try destruct (ready_incompatible _ _); intros; inv_step; left; (split; [lia|apply emu_le]).
  - destruct (negb (e_v2_sent st)) eqn:Es.
    { intros; inv_step. right; split; auto.
      unfold emu; cbn [e_phase e_rev_sent e_version e_v2_sent e_mech]. rewrite Ep.
      apply negb_true_iff in Es. rewrite Es. lia. }
    destruct (dec_buffer (c_maxsz cfg) b) as [| | |f k] eqn:E; try discriminate.
    { intros; inv_step. right; split; auto. rewrite emu_closed. apply emu_pos. congruence. }
    pose proof (dec_buffer_consumed _ _ _ _ E).
    destruct (f_cmd f || f_more f); [intros; inv_step; left; split; [lia|apply emu_le]|].
    destruct (255 <? length (f_payload f))%nat; intros; inv_step; left; (split; [lia|apply emu_le]).
  - destruct (dec_buffer (c_maxsz cfg) b) as [| | |f k] eqn:E; try discriminate.
    { intros; inv_step. right; split; auto. rewrite emu_closed. apply emu_pos. congruence. }
    pose proof (dec_buffer_consumed _ _ _ _ E).
    destruct (f_cmd f).
    + destruct (e_version st) as [[|]|]; try (intros; inv_step; left; split; [lia|apply emu_le]);
        destruct (parse_cmd f); try destruct (ready_incompatible _ _); intros; inv_step; left; (split; [lia|apply emu_le]).
    + destruct (MAX_FRAMES <=? length (e_partial st))%nat; [intros; inv_step; left; split; [lia|apply emu_le]|].
      destruct (f_more f); intros; inv_step; left; (split; [lia|apply emu_le]).
Qed.

Lemma engine_ok cfg : stepper_ok (estep cfg) emu EMU_MAX.
Proof. constructor; [apply estep_mono | apply estep_bounded | apply estep_measure]. Qed.

(* ---------- network inputs as a feed over the stepper ---------- *)
Definition quiescent (cfg : ecfg) (g : engine) : Prop := estep cfg (g_st g) (g_acc g) = Need.

Fixpoint nets (cfg : ecfg) (g : engine) (cs : list (bytes * N)) : engine * list eout :=
  match cs with
  | [] => (g, [])
  | (d, t) :: rest =>
      let '(g1, o1) := e_net cfg g d t in
      let '(g2, o2) := nets cfg g1 rest in (g2, o1 ++ o2)
  end.

Lemma visible_app a b : visible (a ++ b) = visible a ++ visible b.
Proof. unfold visible. apply filter_app. Qed.

Lemma e_net_quiescent cfg g d t : quiescent cfg (fst (e_net cfg g d t)).
Proof.
  unfold e_net, quiescent.
  pose proof (sk_pump_quiescent (engine_ok cfg) (g_st g) (g_acc g ++ d)) as H.
  destruct (pump (estep cfg) emu EMU_MAX (g_st g) (g_acc g ++ d)) as [[st' r] o]. exact H.
Qed.

Lemma nets_feed cfg : forall cs g,
  let '(g', o) := nets cfg g cs in
  let '(st, r, o') := feed (estep cfg) emu EMU_MAX (g_st g) (g_acc g) (map fst cs) in
  g_st g' = st /\ g_acc g' = r /\ o = visible o'.
Proof.
  induction cs as [|[d t] cs IH]; intros g.
  - cbn. auto.
  - cbn [nets map fst feed]. unfold e_net at 1.
    destruct (pump (estep cfg) emu EMU_MAX (g_st g) (g_acc g ++ d)) as [[st1 r1] o1].
    match goal with |- context [nets cfg ?g1 cs] => specialize (IH g1) end.
    cbn [g_st g_acc] in IH.
    destruct (nets cfg _ cs) as [g2 o2].
    destruct (feed (estep cfg) emu EMU_MAX st1 r1 (map fst cs)) as [[st2 r2] o2'].
    destruct IH as (-> & -> & ->). rewrite visible_app. auto.
Qed.

Theorem engine_chunk_independent cfg g cs1 cs2 :
  quiescent cfg g -> concat (map fst cs1) = concat (map fst cs2) ->
  let '(g1, o1) := nets cfg g cs1 in
  let '(g2, o2) := nets cfg g cs2 in
  g_st g1 = g_st g2 /\ g_acc g1 = g_acc g2 /\ o1 = o2.
Proof.
  intros Hq Hc.
  pose proof (nets_feed cfg cs1 g) as H1. pose proof (nets_feed cfg cs2 g) as H2.
  destruct (nets cfg g cs1) as [g1 o1]. destruct (nets cfg g cs2) as [g2 o2].
  match type of H1 with context [feed ?a ?b ?c ?d ?e ?f1] =>
    match type of H2 with context [feed _ _ _ _ _ ?f2] =>
      assert (feed a b c d e f1 = feed a b c d e f2) as HE
        by (apply (sk_feed_chunk_independent (engine_ok cfg)); [exact Hq | exact Hc]);
      rewrite HE in H1; destruct (feed a b c d e f2) as [[st r] o]
    end end.
  destruct H1 as (-> & -> & ->). destruct H2 as (-> & -> & ->). auto.
Qed.

Lemma e_new_quiescent cfg t : quiescent cfg (e_new t).
Proof. reflexivity. Qed.

(* the outputs produced for a byte stream are a prefix of those produced for any extension *)
Theorem engine_outputs_prefix_monotone cfg g d1 t1 d2 t2 :
  quiescent cfg g ->
  prefix (snd (e_net cfg g d1 t1)) (snd (e_net cfg g (d1 ++ d2) t2)).
Proof.
  intros Hq. unfold e_net. rewrite app_assoc.
  rewrite (sk_pump_app (engine_ok cfg) (g_st g) (g_acc g ++ d1) d2).
  destruct (pump (estep cfg) emu EMU_MAX (g_st g) (g_acc g ++ d1)) as [[s1 r1] o1].
  destruct (pump (estep cfg) emu EMU_MAX s1 (r1 ++ d2)) as [[s2 r2] o2].
  cbn [snd]. rewrite visible_app. apply prefix_app.
Qed.

(* ---------- the data phase groups frames by MORE and delivers whole messages ---------- *)
Definition data_ok (cfg : ecfg) (f : frame) : Prop := f_cmd f = false /\ admitted (c_maxsz cfg) f.
Record wf_msg (cfg : ecfg) (m : list frame) : Prop := {
  wm_split : exists init l, m = init ++ [l] /\ Forall (fun f => f_more f = true) init /\ f_more l = false;
  wm_data : Forall (data_ok cfg) m;
  wm_len : (length m <= MAX_FRAMES)%nat
}.

Definition act_out (m : list frame) : list eout :=
  concat (map (fun _ => [OActivity]) (removelast m)) ++ [OActivity; ODeliver m].

Lemma run_frames_more cfg st init : forall p rest s' r o,
  e_phase st = PData ->
  Forall (fun f => f_more f = true /\ data_ok cfg f) init ->
  (length p + length init < MAX_FRAMES)%nat -> e_partial st = p ->
  Run (estep cfg) (set_partial st (p ++ init)) rest s' r o ->
  Run (estep cfg) st (concat (map enc_codec init) ++ rest) s' r (concat (map (fun _ => [OActivity]) init) ++ o).
Proof.
  revert st. induction init as [|f init IH]; intros st p rest s' r o Hph Hall Hlen Hp HR.
  - cbn. rewrite app_nil_r in HR. destruct st; cbn in *; subst; exact HR.
  - inversion Hall as [|? ? [Hm [Hc Ha]] Hall']; subst.
    cbn [map concat]. rewrite <- !app_assoc.
    eapply RunStep with (o := [OActivity]) (n := length (enc_codec f)).
    + unfold estep. rewrite Hph. rewrite dec_buffer_enc by exact Ha. rewrite Hc.
      cbn [length] in Hlen.
      destruct (MAX_FRAMES <=? length (e_partial st))%nat eqn:E; [apply Nat.leb_le in E; lia|].
      rewrite Hm. reflexivity.
    + rewrite skipn_app, skipn_all, Nat.sub_diag. cbn [app skipn].
      apply (IH (set_partial st (e_partial st ++ [f])) (e_partial st ++ [f])); auto.
      * rewrite app_length. cbn [length] in *. lia.
      * cbn [set_partial e_partial]. rewrite <- app_assoc.
        replace (set_partial (set_partial st (e_partial st ++ [f])) (e_partial st ++ [f] ++ init))
          with (set_partial st (e_partial st ++ f :: init)); [exact HR|].
        reflexivity.
Qed.

Lemma removelast_snoc {A} (l : list A) x : removelast (l ++ [x]) = l.
Proof. apply removelast_last. Qed.

Lemma run_message cfg st m rest s' r o :
  e_phase st = PData -> e_partial st = [] -> wf_msg cfg m ->
  Run (estep cfg) st rest s' r o ->
  Run (estep cfg) st (concat (map enc_codec m) ++ rest) s' r (act_out m ++ o).
Proof.
  intros Hph Hp [(init & l & -> & Hmore & Hl) Hdata Hlen] HR.
  apply Forall_app in Hdata. destruct Hdata as [Hdi Hdl]. inversion Hdl as [|? ? [Hlc Hla] _]; subst.
  rewrite app_length in Hlen. cbn [length] in Hlen.
  unfold act_out. rewrite removelast_snoc, map_app, concat_app. cbn [map concat].
  rewrite <- !app_assoc.
  eapply (run_frames_more cfg st init []); auto.
  - rewrite Forall_forall in *. intros f Hf. split; auto.
  - cbn [length]. lia.
  - cbn [app].
    eapply RunStep with (o := [OActivity; ODeliver (init ++ [l])]) (n := length (enc_codec l)).
    + unfold estep. cbn [set_partial e_phase e_partial e_version]. rewrite Hph.
      rewrite dec_buffer_enc by exact Hla. rewrite Hlc.
      destruct (MAX_FRAMES <=? length init)%nat eqn:E; [apply Nat.leb_le in E; lia|].
      rewrite Hl. reflexivity.
    + rewrite skipn_app, skipn_all, Nat.sub_diag. cbn [app skipn].
      replace (set_partial (set_partial st init) []) with st; [exact HR|].
      destruct st; cbn in *; subst; reflexivity.
Qed.

Lemma run_messages cfg st ms : forall rest s' r o,
  e_phase st = PData -> e_partial st = [] -> Forall (wf_msg cfg) ms ->
  Run (estep cfg) st rest s' r o ->
  Run (estep cfg) st (concat (map enc_codec (concat ms)) ++ rest) s' r (concat (map act_out ms) ++ o).
Proof.
  induction ms as [|m ms IH]; intros rest s' r o Hph Hp Hall HR; [exact HR|].
  inversion Hall; subst. cbn [concat map]. rewrite map_app, concat_app, <- !app_assoc.
  apply run_message; auto.
Qed.

Lemma visible_act_out m : visible (act_out m) = [ODeliver m].
Proof.
  unfold act_out. rewrite visible_app. 
  assert (visible (concat (map (fun _ : frame => [OActivity]) (removelast m))) = []) as ->.
  { induction (removelast m); cbn; auto. }
  reflexivity.
Qed.
Lemma visible_acts ms : visible (concat (map act_out ms)) = map ODeliver ms.
Proof.
  induction ms as [|m ms IH]; [reflexivity|]. cbn [map concat]. rewrite visible_app, visible_act_out, IH. reflexivity.
Qed.

(* in the Data phase, whole well-formed messages are delivered one batch each, in order,
   however the bytes are cut *)
Theorem data_phase_delivers cfg g ms cs :
  e_phase (g_st g) = PData -> e_partial (g_st g) = [] -> g_acc g = [] ->
  Forall (wf_msg cfg) ms ->
  concat (map fst cs) = concat (map enc_codec (concat ms)) ->
  let '(g', o) := nets cfg g cs in
  o = map ODeliver ms /\ g_st g' = g_st g /\ g_acc g' = [].
Proof.
  intros Hph Hp Hacc Hall Hc.
  assert (quiescent cfg g) as Hq.
  { unfold quiescent, estep. rewrite Hph, Hacc. reflexivity. }
  pose proof (nets_feed cfg cs g) as H1. destruct (nets cfg g cs) as [g' o].
  match type of H1 with context [feed ?a ?b ?c ?d ?e ?f1] =>
    assert (feed a b c d e f1 = pump a b c d (concat (map enc_codec (concat ms)))) as HE
      by (rewrite (sk_feed_quiescent_start (engine_ok cfg)) by exact Hq; rewrite Hacc; cbn [app]; f_equal; exact Hc);
    rewrite HE in H1; clear HE
  end.
  assert (Run (estep cfg) (g_st g) (concat (map enc_codec (concat ms)) ++ []) (g_st g) []
              (concat (map act_out ms) ++ [])) as HR.
  { apply run_messages; auto. apply RunNeed. unfold estep. rewrite Hph. reflexivity. }
  rewrite !app_nil_r in HR. apply (sk_Run_pump (engine_ok cfg)) in HR. rewrite HR in H1.
  destruct H1 as (-> & -> & ->). rewrite visible_acts. auto.
Qed.
