(* Proofs about Model/ReqRep.v (C10).  All statements quantify over every number of tasks, every
   program and every schedule; the ones named *_outside additionally require that calls do not
   overlap (`nonoverlap`), the ones named *_refuted exhibit a racing schedule. *)
From RZ Require Import Base.Prelude Model.Balancer Model.ReqRep.

(* ------------------------------------------------------------------ lists *)

Lemma upd_length {A} n (x : A) l : length (upd n x l) = length l.
Proof. revert n; induction l as [|y l IH]; intros [|n]; simpl; auto. Qed.

Lemma nth_error_upd_same {A} n (x : A) l y : nth_error l n = Some y -> nth_error (upd n x l) n = Some x.
Proof. revert n; induction l as [|z l IH]; intros [|n]; simpl; try discriminate; auto. Qed.

Lemma nth_error_upd_other {A} n m (x : A) l : n <> m -> nth_error (upd n x l) m = nth_error l m.
Proof.
  revert n m; induction l as [|z l IH]; intros [|n] [|m] H; simpl; auto; try congruence.
Qed.

Lemma list_eqb_refl {A} (eqb : A -> A -> bool) (R : forall x, eqb x x = true) l : list_eqb eqb l l = true.
Proof. induction l; simpl; auto. rewrite R, IHl. reflexivity. Qed.

Lemma list_eqb_sound {A} (eqb : A -> A -> bool) (S : forall x y, eqb x y = true -> x = y) a b :
  list_eqb eqb a b = true -> a = b.
Proof.
  revert b; induction a as [|x a IH]; intros [|y b]; simpl; try discriminate; auto.
  intros H. apply andb_true_iff in H as [H1 H2]. f_equal; auto.
Qed.

Lemma Neqb_sound x y : N.eqb x y = true -> x = y.
Proof. apply N.eqb_eq. Qed.

Lemma pair_eqb_refl {A B} (ea : A -> A -> bool) (eb : B -> B -> bool)
  (Ra : forall x, ea x x = true) (Rb : forall x, eb x x = true) p : pair_eqb ea eb p p = true.
Proof. unfold pair_eqb. rewrite Ra, Rb. reflexivity. Qed.

Lemma pair_eqb_sound {A B} (ea : A -> A -> bool) (eb : B -> B -> bool)
  (Sa : forall x y, ea x y = true -> x = y) (Sb : forall x y, eb x y = true -> x = y) p q :
  pair_eqb ea eb p q = true -> p = q.
Proof.
  unfold pair_eqb. destruct p, q; simpl. intros H. apply andb_true_iff in H as [H1 H2].
  f_equal; auto.
Qed.

Lemma listN_eqb_refl l : list_eqb N.eqb l l = true.
Proof. apply list_eqb_refl, N.eqb_refl. Qed.
Lemma listN_eqb_sound a b : list_eqb N.eqb a b = true -> a = b.
Proof. apply list_eqb_sound, Neqb_sound. Qed.

Lemma out_eqb_refl (l : list (N * msg)) : list_eqb (pair_eqb N.eqb (list_eqb N.eqb)) l l = true.
Proof. apply list_eqb_refl. intros. apply pair_eqb_refl; [apply N.eqb_refl | apply listN_eqb_refl]. Qed.
Lemma out_eqb_sound (a b : list (N * msg)) : list_eqb (pair_eqb N.eqb (list_eqb N.eqb)) a b = true -> a = b.
Proof. apply list_eqb_sound. intros x y. apply pair_eqb_sound; [apply Neqb_sound | apply listN_eqb_sound]. Qed.

Lemma inq_eqb_refl q : inq_eqb q q = true.
Proof.
  unfold inq_eqb. rewrite listN_eqb_refl. simpl. apply list_eqb_refl. intros.
  apply pair_eqb_refl; [apply N.eqb_refl|]. intros. apply list_eqb_refl, listN_eqb_refl.
Qed.
Lemma inq_eqb_sound a b : inq_eqb a b = true -> a = b.
Proof.
  unfold inq_eqb. intros H. apply andb_true_iff in H as [H1 H2].
  apply listN_eqb_sound in H1.
  apply list_eqb_sound in H2.
  - destruct a, b; simpl in *; congruence.
  - intros x y. apply pair_eqb_sound; [apply Neqb_sound|]. apply list_eqb_sound, listN_eqb_sound.
Qed.

Lemma pinfo_eqb_refl i : pinfo_eqb i i = true.
Proof. apply pair_eqb_refl; [apply N.eqb_refl | apply listN_eqb_refl]. Qed.
Lemma pinfo_eqb_sound i j : pinfo_eqb i j = true -> i = j.
Proof. apply pair_eqb_sound; [apply Neqb_sound | apply listN_eqb_sound]. Qed.

(* ------------------------------------------------------------------ the generic machine *)

Section MachineFacts.
  Context {Sh Pc Ev Env : Type}.
  Variable pc0 : Pc.
  Variable tstep : nat -> call -> Pc -> Sh -> option (Sh * list Ev * (Pc + res)).
  Variable estep : Env -> Sh -> Sh * list Ev.
  Variable obs_eqb : Sh -> Sh -> bool.

  Notation step_task := (step_task pc0 tstep obs_eqb).
  Notation step := (step pc0 tstep estep obs_eqb).
  Notation run := (run pc0 tstep estep obs_eqb).
  Notation nonoverlap := (nonoverlap pc0 tstep estep obs_eqb).

  Definition pc_of (tk : task Pc) : Pc := match t_pc tk with Some pc => pc | None => pc0 end.

  (* what one step of task t can do *)
  Inductive tstep_spec (t : nat) (s s' : sys Sh Pc Ev) : Prop :=
  | TS_stay : s' = s -> tstep_spec t s s'
  | TS_move tk c rest sh' evs pc' :
      nth_error (s_tasks s) t = Some tk -> t_prog tk = c :: rest ->
      tstep t c (pc_of tk) (s_sh s) = Some (sh', evs, inl pc') ->
      s' = mkSys sh' (upd t (mkTask (c :: rest) (Some pc') (t_dirty tk || negb (obs_eqb (s_sh s) sh'))) (s_tasks s))
                 (s_trace s ++ evs) (s_log s) ->
      tstep_spec t s s'
  | TS_done tk c rest sh' evs r :
      nth_error (s_tasks s) t = Some tk -> t_prog tk = c :: rest ->
      tstep t c (pc_of tk) (s_sh s) = Some (sh', evs, inr r) ->
      s' = mkSys sh' (upd t (mkTask rest None false) (s_tasks s)) (s_trace s ++ evs)
                 (s_log s ++ [mkEntry t c r (t_dirty tk || negb (obs_eqb (s_sh s) sh'))]) ->
      tstep_spec t s s'.

  Lemma step_task_spec t s : tstep_spec t s (step_task t s).
  Proof.
    unfold ReqRep.step_task.
    destruct (nth_error (s_tasks s) t) as [tk|] eqn:Et; [|now apply TS_stay].
    destruct (t_prog tk) as [|c rest] eqn:Ep; [now apply TS_stay|].
    fold (pc_of tk).
    destruct (tstep t c (pc_of tk) (s_sh s)) as [[[sh' evs] [pc'|r]]|] eqn:Es.
    - eapply TS_move; eauto.
    - eapply TS_done; eauto.
    - now apply TS_stay.
  Qed.

  Lemma run_cons x xs s : run (x :: xs) s = run xs (step s x).
  Proof. reflexivity. Qed.
  Lemma run_app xs ys s : run (xs ++ ys) s = run ys (run xs s).
  Proof. unfold ReqRep.run. apply fold_left_app. Qed.

  Lemma others_idle_from_spec i t (l : list (task Pc)) :
    others_idle_from i t l = true ->
    forall j tk, nth_error l j = Some tk -> i + j <> t -> t_pc tk = None.
  Proof.
    revert i; induction l as [|x l IH]; intros i H j tk Hn Hne.
    - destruct j; discriminate.
    - simpl in H. apply andb_true_iff in H as [H1 H2].
      destruct j as [|j]; simpl in Hn.
      + inversion Hn; subst. apply orb_true_iff in H1 as [H1|H1].
        * apply Nat.eqb_eq in H1. lia.
        * unfold idleb in H1. destruct (t_pc tk); [discriminate|reflexivity].
      + eapply IH; eauto. lia.
  Qed.

  Lemma others_idle_spec t (s : sys Sh Pc Ev) :
    others_idle t s = true -> forall j tk, nth_error (s_tasks s) j = Some tk -> j <> t -> t_pc tk = None.
  Proof. intros H j tk Hn Hne. eapply (others_idle_from_spec 0); eauto. Qed.

  (* a property of (shared state, trace) and of every task that is mid-call, kept by every step in
     which the moving task is the only one that is mid-call *)
  Section Invariant.
    Variable G : Sh -> list Ev -> Prop.                 (* global part *)
    Variable L : Sh -> list Ev -> Pc -> bool -> Prop.   (* per task: pc and dirty bit of a task that is mid-call *)
    Hypothesis L_idle_start : forall sh tr, G sh tr -> L sh tr pc0 false.
    Hypothesis tstep_keeps : forall t c pc d sh tr sh' evs nxt,
      G sh tr -> L sh tr pc d -> tstep t c pc sh = Some (sh', evs, nxt) ->
      G sh' (tr ++ evs) /\
      match nxt with
      | inl pc' => L sh' (tr ++ evs) pc' (d || negb (obs_eqb sh sh'))
      | inr _ => True
      end.
    Hypothesis estep_keeps : forall e sh tr sh' evs,
      G sh tr -> estep e sh = (sh', evs) ->
      G sh' (tr ++ evs) /\ forall pc d, L sh tr pc d -> L sh' (tr ++ evs) pc d.

    Definition task_inv (sh : Sh) (tr : list Ev) (tk : task Pc) : Prop :=
      match t_pc tk with
      | None => t_dirty tk = false
      | Some pc => L sh tr pc (t_dirty tk)
      end.
    Definition sys_inv (s : sys Sh Pc Ev) : Prop :=
      G (s_sh s) (s_trace s) /\
      forall j tk, nth_error (s_tasks s) j = Some tk -> task_inv (s_sh s) (s_trace s) tk.

    Lemma sys_inv_init sh progs : G sh [] -> sys_inv (init sh progs).
    Proof.
      intros HG. split; [exact HG|]. intros j tk Hn. unfold init in Hn; simpl in Hn.
      apply nth_error_In, in_map_iff in Hn as [p [<- _]]. reflexivity.
    Qed.

    Lemma L_of_task sh tr tk : G sh tr -> task_inv sh tr tk -> L sh tr (pc_of tk) (t_dirty tk).
    Proof.
      unfold task_inv, pc_of. intros HG H. destruct (t_pc tk); [exact H|].
      rewrite H. apply L_idle_start, HG.
    Qed.

    Lemma sys_inv_step_task t s :
      sys_inv s -> others_idle t s = true -> sys_inv (step_task t s).
    Proof.
      intros [HG HT] Hidle. destruct (step_task_spec t s) as [->|tk c rest sh' evs pc' Hn Hp Hs ->|tk c rest sh' evs r Hn Hp Hs ->].
      - split; assumption.
      - destruct (tstep_keeps _ _ _ _ _ _ _ _ _ HG (L_of_task _ _ _ HG (HT _ _ Hn)) Hs) as [HG' HL'].
        split; [exact HG'|]. simpl. intros j tk' Hj.
        destruct (Nat.eq_dec t j) as [<-|Hne].
        + rewrite (nth_error_upd_same _ _ _ _ Hn) in Hj. inversion Hj; subst. exact HL'.
        + rewrite nth_error_upd_other in Hj by exact Hne.
          unfold task_inv. rewrite (others_idle_spec _ _ Hidle _ _ Hj) by congruence.
          specialize (HT _ _ Hj). unfold task_inv in HT.
          rewrite (others_idle_spec _ _ Hidle _ _ Hj) in HT by congruence. exact HT.
      - destruct (tstep_keeps _ _ _ _ _ _ _ _ _ HG (L_of_task _ _ _ HG (HT _ _ Hn)) Hs) as [HG' _].
        split; [exact HG'|]. simpl. intros j tk' Hj.
        destruct (Nat.eq_dec t j) as [<-|Hne].
        + rewrite (nth_error_upd_same _ _ _ _ Hn) in Hj. inversion Hj; subst. reflexivity.
        + rewrite nth_error_upd_other in Hj by exact Hne.
          unfold task_inv. rewrite (others_idle_spec _ _ Hidle _ _ Hj) by congruence.
          specialize (HT _ _ Hj). unfold task_inv in HT.
          rewrite (others_idle_spec _ _ Hidle _ _ Hj) in HT by congruence. exact HT.
    Qed.

    Lemma sys_inv_step_env e s : sys_inv s -> sys_inv (step_env estep e s).
    Proof.
      intros [HG HT]. unfold step_env. destruct (estep e (s_sh s)) as [sh' evs] eqn:E.
      destruct (estep_keeps _ _ _ _ _ HG E) as [HG' HL']. split; [exact HG'|].
      simpl. intros j tk Hj. specialize (HT _ _ Hj). unfold task_inv in *.
      destruct (t_pc tk); [apply HL', HT | exact HT].
    Qed.

    Lemma sys_inv_run xs : forall s, sys_inv s -> nonoverlap xs s = true -> sys_inv (run xs s).
    Proof.
      induction xs as [|x xs IH]; intros s Hs Hno; [exact Hs|].
      simpl in Hno. apply andb_true_iff in Hno as [H1 H2]. rewrite run_cons. apply IH; [|exact H2].
      destruct x as [t|e]; simpl; [apply sys_inv_step_task | apply sys_inv_step_env]; assumption.
    Qed.
  End Invariant.

  (* the same for ALL schedules, when the per-task part does not depend on what other tasks do *)
  Section InvariantAll.
    Variable G : Sh -> list Ev -> Prop.
    Variable L : Sh -> list Ev -> Pc -> bool -> Prop.
    Hypothesis L_idle_start : forall sh tr, G sh tr -> L sh tr pc0 false.
    Hypothesis tstep_keeps : forall t c pc d sh tr sh' evs nxt,
      G sh tr -> L sh tr pc d -> tstep t c pc sh = Some (sh', evs, nxt) ->
      G sh' (tr ++ evs) /\
      (forall pc2 d2, L sh tr pc2 d2 -> L sh' (tr ++ evs) pc2 d2) /\
      match nxt with
      | inl pc' => L sh' (tr ++ evs) pc' (d || negb (obs_eqb sh sh'))
      | inr _ => True
      end.
    Hypothesis estep_keeps : forall e sh tr sh' evs,
      G sh tr -> estep e sh = (sh', evs) ->
      G sh' (tr ++ evs) /\ forall pc d, L sh tr pc d -> L sh' (tr ++ evs) pc d.

    Notation sys_inv := (sys_inv G L).

    Lemma sys_inv_all_step_task t s : sys_inv s -> sys_inv (step_task t s).
    Proof.
      intros [HG HT]. destruct (step_task_spec t s) as [->|tk c rest sh' evs pc' Hn Hp Hs ->|tk c rest sh' evs r Hn Hp Hs ->].
      - split; assumption.
      - destruct (tstep_keeps _ _ _ _ _ _ _ _ _ HG (L_of_task G L L_idle_start _ _ _ HG (HT _ _ Hn)) Hs) as [HG' [HO HL']].
        split; [exact HG'|]. simpl. intros j tk' Hj.
        destruct (Nat.eq_dec t j) as [<-|Hne].
        + rewrite (nth_error_upd_same _ _ _ _ Hn) in Hj. inversion Hj; subst. exact HL'.
        + rewrite nth_error_upd_other in Hj by exact Hne.
          specialize (HT _ _ Hj). unfold task_inv in *. destruct (t_pc tk'); [apply HO, HT|exact HT].
      - destruct (tstep_keeps _ _ _ _ _ _ _ _ _ HG (L_of_task G L L_idle_start _ _ _ HG (HT _ _ Hn)) Hs) as [HG' [HO _]].
        split; [exact HG'|]. simpl. intros j tk' Hj.
        destruct (Nat.eq_dec t j) as [<-|Hne].
        + rewrite (nth_error_upd_same _ _ _ _ Hn) in Hj. inversion Hj; subst. reflexivity.
        + rewrite nth_error_upd_other in Hj by exact Hne.
          specialize (HT _ _ Hj). unfold task_inv in *. destruct (t_pc tk'); [apply HO, HT|exact HT].
    Qed.

    Lemma sys_inv_all_run xs : forall s, sys_inv s -> sys_inv (run xs s).
    Proof.
      induction xs as [|x xs IH]; intros s Hs; [exact Hs|].
      rewrite run_cons. apply IH.
      destruct x as [t|e]; simpl; [apply sys_inv_all_step_task | apply (sys_inv_step_env G L estep_keeps)]; assumption.
    Qed.
  End InvariantAll.

  (* every finished call in the log satisfies P, if every finishing step produces an entry with P *)
  Section LogInvariant.
    Variable G : Sh -> list Ev -> Prop.
    Variable L : Sh -> list Ev -> Pc -> bool -> Prop.
    Variable P : entry -> Prop.
    Hypothesis finish_P : forall t c pc d sh tr sh' evs r,
      G sh tr -> L sh tr pc d -> tstep t c pc sh = Some (sh', evs, inr r) ->
      P (mkEntry t c r (d || negb (obs_eqb sh sh'))).
    Hypothesis L_idle_start : forall sh tr, G sh tr -> L sh tr pc0 false.

    Lemma log_step_task t s :
      sys_inv G L s -> Forall P (s_log s) -> Forall P (s_log (step_task t s)).
    Proof.
      intros [HG HT] HP. destruct (step_task_spec t s) as [->|tk c rest sh' evs pc' Hn Hp Hs ->|tk c rest sh' evs r Hn Hp Hs ->].
      - exact HP.
      - exact HP.
      - simpl. apply Forall_app; split; [exact HP|]. constructor; [|constructor].
        eapply finish_P; [exact HG| |exact Hs]. apply (L_of_task G L L_idle_start); [exact HG|]. eapply HT; exact Hn.
    Qed.
  End LogInvariant.
End MachineFacts.

(* ================================================================== REQ *)

Lemma arun_none tr : arun tr None = None.
Proof. induction tr; simpl; auto. Qed.
Lemma arun_app tr evs a : arun (tr ++ evs) a = arun evs (arun tr a).
Proof. unfold arun. apply fold_left_app. Qed.

Definition cur (tr : list aev) : option ast := arun tr (Some A0).
Lemma cur_app tr evs : cur (tr ++ evs) = arun evs (cur tr).
Proof. apply arun_app. Qed.

Lemma first_frame_ok p : is_ok (first_frame p) = true.
Proof. destruct p as [|x [|y p]]; reflexivity. Qed.
Lemma first_frame_not_invalid p b : first_frame p <> RInvalid b.
Proof. destruct p as [|x [|y p]]; discriminate. Qed.

Lemma qobs_eqb_fields a b :
  q_st a = q_st b -> q_lb a = q_lb b -> q_att a = q_att b -> q_closed a = q_closed b ->
  q_in a = q_in b -> q_out a = q_out b -> qobs_eqb a b = true.
Proof.
  intros H1 H2 H3 H4 H5 H6. unfold qobs_eqb. rewrite H1, H2, H3, H4, H5, H6.
  rewrite !listN_eqb_refl, Nat.eqb_refl, inq_eqb_refl, out_eqb_refl.
  destruct (q_st b); simpl; [rewrite N.eqb_refl|]; reflexivity.
Qed.
Lemma qobs_eqb_refl a : qobs_eqb a a = true.
Proof. apply qobs_eqb_fields; reflexivity. Qed.

Lemma qobs_eqb_sound a b : qobs_eqb a b = true ->
  q_st a = q_st b /\ q_lb a = q_lb b /\ q_att a = q_att b /\ q_closed a = q_closed b /\
  q_in a = q_in b /\ q_out a = q_out b.
Proof.
  unfold qobs_eqb. intros H.
  repeat (apply andb_true_iff in H as [H ?]).
  repeat split.
  - destruct (q_st a), (q_st b); simpl in H; try discriminate; auto. apply N.eqb_eq in H. congruence.
  - destruct (q_lb a), (q_lb b); simpl in *. f_equal; [apply listN_eqb_sound; assumption | apply Nat.eqb_eq; assumption].
  - apply listN_eqb_sound; assumption.
  - apply listN_eqb_sound; assumption.
  - apply inq_eqb_sound; assumption.
  - apply out_eqb_sound; assumption.
Qed.

(* automaton state vs. socket state *)
Definition st_match (a : ast) (sh : qsh) : Prop :=
  match a, q_st sh with
  | A1, Some _ => True
  | A0, None => True
  | A2, None => True
  | _, _ => False
  end.

Definition qG (sh : qsh) (tr : list aev) : Prop :=
  match cur tr with Some a => st_match a sh | None => False end.

(* what is known about a task that is inside a call while no other task is *)
Definition pc_okq (a : ast) (sh : qsh) (pc : qpc) (d : bool) : Prop :=
  match pc with
  | QStart => d = false
  | QSendChecked | QSendPushed _ => q_st sh = None
  | QRecvChecked | QRecvParked _ | QRecvNbEmpty => a <> A0 /\ d = false
  | QRecvMChecked | QRecvMParked => a <> A0
  | QRecvGot r =>
      r <> RInvalid false /\ (is_ok r = true -> a <> A0) /\ (r = RInvalid true -> d = false /\ q_st sh = None)
  | QRecvMGot r => (forall b, r <> RInvalid b) /\ (forall x, r <> ROkMore x) /\ (is_ok r = true -> a <> A0)
  end.
Definition qL (sh : qsh) (tr : list aev) (pc : qpc) (d : bool) : Prop :=
  match cur tr with Some a => pc_okq a sh pc d | None => False end.

Lemma q_nb_cases t s :
  (exists p m q', iq_pop (q_in s) = Some (p, m, q') /\
                  q_nb t s = (qset_in (qleave t s) q', [], inl (QRecvGot (first_frame (req_payload m))))) \/
  (iq_pop (q_in s) = None /\ q_nb t s = (qleave t s, [], inl QRecvNbEmpty)).
Proof.
  unfold q_nb. change (q_in (qleave t s)) with (q_in s).
  destruct (iq_pop (q_in s)) as [[[p m] q']|]; [left; eauto | right; auto].
Qed.

Ltac inv_some H := inversion H; subst; clear H.

Lemma qL_idle_start sh tr : qG sh tr -> qL sh tr QStart false.
Proof. unfold qG, qL. destruct (cur tr); [reflexivity | auto]. Qed.

Lemma qstep_keeps t c pc d sh tr sh' evs nxt :
  qG sh tr -> qL sh tr pc d -> qstep t c pc sh = Some (sh', evs, nxt) ->
  qG sh' (tr ++ evs) /\
  match nxt with
  | inl pc' => qL sh' (tr ++ evs) pc' (d || negb (qobs_eqb sh sh'))
  | inr _ => True
  end.
Proof.
  unfold qG, qL. rewrite cur_app. destruct (cur tr) as [a|]; [|contradiction].
  intros HG HL H.
  destruct pc; simpl in H.
  - (* QStart *)
    simpl in HL. subst d.
    destruct (c_op c); destruct (q_st sh) eqn:E; simpl in H; inv_some H; simpl;
      (split; [exact HG|]); rewrite ?qobs_eqb_refl; simpl; auto;
      unfold st_match in HG; rewrite E in HG; destruct a; try contradiction; try (split; [discriminate|reflexivity]); try discriminate.
  - (* QSendChecked *)
    destruct (get_next (q_lb sh)) as [[p|] b'] eqn:En; [|discriminate].
    destruct (memN p (q_closed sh)); inv_some H; simpl; (split; [exact HG|]); auto.
  - (* QSendPushed *)
    inv_some H. simpl in HL. unfold st_match in *. rewrite HL in HG. simpl.
    destruct a; try contradiction; simpl; auto.
  - (* QRecvChecked *)
    destruct HL as [Ha Hd]. subst d.
    destruct (q_permit sh).
    + inv_some H.
      destruct (q_nb_cases t (qset_notify sh false (q_gen sh) (q_waiters sh) (q_woken sh))) as [[p [m [q' [E1 E2]]]]|[E1 E2]];
        rewrite E2 in H1; inv_some H1; simpl; (split; [exact HG|]).
      * split; [apply first_frame_not_invalid|]. split; [auto|]. intros X. exfalso. eapply first_frame_not_invalid; eauto.
      * split; [exact Ha|]. rewrite qobs_eqb_fields; reflexivity.
    + destruct (iq_pop (q_in sh)) as [[[p m] q']|] eqn:E; inv_some H; simpl; (split; [exact HG|]).
      * split; [apply first_frame_not_invalid|]. split; [auto|]. intros X. exfalso. eapply first_frame_not_invalid; eauto.
      * split; [exact Ha|]. rewrite qobs_eqb_fields; reflexivity.
  - (* QRecvParked *)
    destruct HL as [Ha Hd]. subst d.
    destruct (negb (q_gen sh =? seen)%nat || memn t (q_woken sh)).
    + inv_some H.
      destruct (q_nb_cases t sh) as [[p [m [q' [E1 E2]]]]|[E1 E2]];
        rewrite E2 in H1; inv_some H1; simpl; (split; [exact HG|]).
      * split; [apply first_frame_not_invalid|]. split; [auto|]. intros X. exfalso. eapply first_frame_not_invalid; eauto.
      * split; [exact Ha|]. rewrite qobs_eqb_fields; reflexivity.
    + destruct (iq_pop (q_in sh)) as [[[p m] q']|] eqn:E.
      * inv_some H. simpl. (split; [exact HG|]).
        split; [apply first_frame_not_invalid|]. split; [auto|]. intros X. exfalso. eapply first_frame_not_invalid; eauto.
      * destruct (memn t (q_tmo sh)); inv_some H. simpl. (split; [exact HG|]).
        split; [discriminate|]. split; [discriminate|]. discriminate.
  - (* QRecvNbEmpty *)
    destruct HL as [Ha Hd]. subst d. inv_some H. simpl. split; [exact HG|].
    rewrite qobs_eqb_refl. simpl.
    destruct (q_st sh') eqn:E; simpl.
    + split; [discriminate|]. split; [discriminate|]. discriminate.
    + split; [discriminate|]. split; [discriminate|]. auto.
  - (* QRecvGot *)
    destruct HL as [Hr1 [Hr2 Hr3]]. unfold st_match in HG.
    destruct (q_st sh) eqn:E; simpl in H.
    + destruct (finished r) eqn:F; inv_some H; destruct a; try contradiction;
        destruct r; simpl in *; try discriminate; unfold st_match; simpl; rewrite ?E; auto.
    + inv_some H. destruct a; try contradiction; destruct r; simpl in *; unfold st_match; simpl; rewrite ?E; auto;
        exfalso; apply Hr2; auto.
  - (* QRecvMChecked *)
    destruct (iq_pop (q_in sh)) as [[[p m] q']|] eqn:E; inv_some H; simpl; (split; [exact HG|]).
    + split; [discriminate|]. split; [discriminate|]. auto.
    + exact HL.
  - (* QRecvMParked *)
    destruct (iq_pop (q_in sh)) as [[[p m] q']|] eqn:E.
    + inv_some H; simpl; (split; [exact HG|]). split; [discriminate|]. split; [discriminate|]. auto.
    + destruct (memn t (q_tmo sh)); inv_some H. simpl. (split; [exact HG|]).
      split; [discriminate|]. split; [discriminate|]. discriminate.
  - (* QRecvMGot *)
    destruct HL as [Hr1 [Hr0 Hr2]]. unfold st_match in HG.
    destruct (q_st sh) eqn:E; simpl in H; inv_some H.
    + destruct a; try contradiction; destruct r; simpl in *; unfold st_match; simpl; rewrite ?E; auto;
        exfalso; eapply Hr0; eauto.
    + destruct a; try contradiction; destruct r; simpl in *; unfold st_match; simpl; rewrite ?E; auto;
        exfalso; apply Hr2; auto.
Qed.

Lemma pc_okq_st a sh sh' pc d : q_st sh' = q_st sh -> pc_okq a sh pc d -> pc_okq a sh' pc d.
Proof. intros E. destruct pc; simpl; rewrite ?E; auto. Qed.

Lemma pc_okq_reset sh sh' pc d : q_st sh' = None -> pc_okq A1 sh pc d -> pc_okq A2 sh' pc d.
Proof.
  intros E. destruct pc; simpl; rewrite ?E; auto; try (intros [H1 H2]; split; [discriminate|auto]); try discriminate.
  - intros [H1 [H2 H3]]. split; [auto|]. split; [discriminate|]. intros X. destruct (H3 X). auto.
  - intros [H1 [H2 H3]]. split; [auto|]. split; [auto|]. discriminate.
Qed.

Lemma qestep_keeps e sh tr sh' evs :
  qG sh tr -> qestep e sh = (sh', evs) ->
  qG sh' (tr ++ evs) /\ forall pc d, qL sh tr pc d -> qL sh' (tr ++ evs) pc d.
Proof.
  unfold qG, qL. rewrite cur_app. destruct (cur tr) as [a|]; [|contradiction].
  intros HG H.
  assert (Same : forall s2, q_st s2 = q_st sh -> (sh', evs) = (s2, []) ->
            match arun evs (Some a) with Some a0 => st_match a0 sh' | None => False end /\
            forall pc d, pc_okq a sh pc d ->
              match arun evs (Some a) with Some a0 => pc_okq a0 sh' pc d | None => False end).
  { intros s2 E X. inv_some X. simpl. split.
    - unfold st_match in *. rewrite E. exact HG.
    - intros pc d. apply pc_okq_st, E. }
  destruct e; simpl in H.
  - destruct (memN p (q_att sh)); (eapply Same; [|symmetry; exact H]; simpl; auto).
  - (eapply Same; [|symmetry; exact H]; simpl; auto).
  - destruct (memN p (q_att sh)); [|(eapply Same; [|symmetry; exact H]; simpl; auto)].
    simpl in H. destruct (q_st sh) as [u|] eqn:E.
    + destruct (N.eqb u p).
      * inv_some H. unfold st_match in HG. rewrite E in HG. destruct a; try contradiction. simpl.
        assert (Q : q_st (q_notify_one (qset_st (qset_peers sh (remove p (q_lb sh)) (remN p (q_att sh)) (q_closed sh)) None)) = None).
        { unfold q_notify_one. simpl. destruct (q_waiters sh); reflexivity. }
        split.
        -- unfold st_match. rewrite Q. exact I.
        -- intros pc d. apply pc_okq_reset, Q.
      * (eapply Same; [|symmetry; exact H]; simpl; auto).
    + (eapply Same; [|symmetry; exact H]; simpl; auto).
  - destruct (memN p (q_att sh)); (eapply Same; [|symmetry; exact H]; simpl; auto).
  - destruct (q_rcvtimeo sh && memn t (q_parked sh) && negb (memn t (q_tmo sh))); (eapply Same; [|symmetry; exact H]; simpl; auto).
Qed.

(* ---- REQ theorems ---- *)

Lemma qG_init n tmo : qG (qsh0 n tmo) [].
Proof. exact I. Qed.

Definition qinv := sys_inv qG qL.

Lemma qinv_run n tmo progs xs :
  qnonoverlap xs (qinit n tmo progs) = true -> qinv (qrun xs (qinit n tmo progs)).
Proof.
  intros H. apply (sys_inv_run QStart qstep qestep qobs_eqb qG qL qL_idle_start qstep_keeps qestep_keeps).
  - apply sys_inv_init, qG_init.
  - exact H.
Qed.

(* the successful calls, in commit order, follow the alternation automaton whenever calls do not overlap *)
Theorem req_alternates_outside n tmo progs xs :
  qnonoverlap xs (qinit n tmo progs) = true ->
  req_accepts (s_trace (qrun xs (qinit n tmo progs))) = true.
Proof.
  intros H. destruct (qinv_run _ _ _ _ H) as [HG _]. unfold qG in HG. unfold req_accepts.
  fold (cur (s_trace (qrun xs (qinit n tmo progs)))). destruct (cur _); [reflexivity|contradiction].
Qed.

(* a single task never overlaps with itself *)
Lemma single_task_others_idle {Sh Pc Ev} (s : sys Sh Pc Ev) : length (s_tasks s) <= 1 -> others_idle 0 s = true.
Proof.
  unfold others_idle. destruct (s_tasks s) as [|tk [|tk2 l]]; simpl; auto. lia.
Qed.

Section SingleTask.
  Context {Sh Pc Ev Env : Type}.
  Variable pc0 : Pc.
  Variable tstep : nat -> call -> Pc -> Sh -> option (Sh * list Ev * (Pc + res)).
  Variable estep : Env -> Sh -> Sh * list Ev.
  Variable obs_eqb : Sh -> Sh -> bool.

  Lemma step_keeps_ntasks (s : sys Sh Pc Ev) x : length (s_tasks (step pc0 tstep estep obs_eqb s x)) = length (s_tasks s).
  Proof.
    destruct x as [t|e]; simpl.
    - destruct (step_task_spec pc0 tstep obs_eqb t s) as [->| ? ? ? ? ? ? ? ? ? ->| ? ? ? ? ? ? ? ? ? ->]; simpl;
        rewrite ?upd_length; reflexivity.
    - unfold step_env. destruct (estep e (s_sh s)). reflexivity.
  Qed.

  Definition only_task0 (xs : list (sched Env)) : Prop :=
    Forall (fun x => match x with ST t => t = 0 | SE _ => True end) xs.

  Lemma single_task_nonoverlap xs : forall (s : sys Sh Pc Ev),
    length (s_tasks s) <= 1 -> only_task0 xs -> nonoverlap pc0 tstep estep obs_eqb xs s = true.
  Proof.
    induction xs as [|x xs IH]; intros s Hl Ho; [reflexivity|].
    inversion Ho; subst. simpl. rewrite IH; auto.
    - destruct x as [t|e]; [subst; rewrite single_task_others_idle by exact Hl|]; reflexivity.
    - rewrite step_keeps_ntasks. exact Hl.
  Qed.
End SingleTask.

Corollary req_alternates_single_task n tmo prog xs :
  only_task0 xs -> req_accepts (s_trace (qrun xs (qinit n tmo [prog]))) = true.
Proof.
  intros H. apply req_alternates_outside. apply single_task_nonoverlap; [simpl; lia | exact H].
Qed.

(* without resets and multi-frame replies the automaton is literally send, recv, send, ... *)
Fixpoint alternates (send_due : bool) (tr : list aev) : bool :=
  match tr with
  | [] => true
  | AS :: r => send_due && alternates false r
  | AR :: r => negb send_due && alternates true r
  | _ :: _ => false
  end.
Definition plain (tr : list aev) : Prop := Forall (fun e => e = AS \/ e = AR) tr.

Lemma alternates_of_accepts tr : forall a, plain tr -> arun tr (Some a) <> None -> a <> A2 ->
  alternates (match a with A0 => true | _ => false end) tr = true.
Proof.
  induction tr as [|e tr IH]; intros a Hp Hr Ha; [reflexivity|].
  inversion Hp as [|? ? He Hp']; subst. simpl in Hr.
  destruct He as [->| ->]; destruct a; simpl in *; try congruence;
    try (rewrite arun_none in Hr; congruence).
  - apply (IH A1); auto; discriminate.
  - apply (IH A0); auto; discriminate.
Qed.

Theorem req_strict_alternation tr : req_accepts tr = true -> plain tr -> alternates true tr = true.
Proof.
  unfold req_accepts. intros H Hp. apply (alternates_of_accepts tr A0); auto; try discriminate.
  destruct (arun tr (Some A0)); [discriminate|discriminate].
Qed.

(* the race: two tasks, each one send(), six steps *)
Definition race_req_progs : list (list call) := [[mkCall OSend 11]; [mkCall OSend 13]].
Definition race_req_sched : list qsched := [ST 0; ST 1; ST 0; ST 1; ST 0; ST 1].

Theorem req_alternates_refuted :
  exists n tmo progs xs,
    req_accepts (s_trace (qrun xs (qinit n tmo progs))) = false /\
    ok_ops (s_log (qrun xs (qinit n tmo progs))) = [OSend; OSend] /\
    map fst (q_out (s_sh (qrun xs (qinit n tmo progs)))) = [0%N; 0%N].
Proof. exists 1, false, race_req_progs, race_req_sched. vm_compute. auto. Qed.

(* two racing recvs both succeed when two replies are queued (late reply of an abandoned exchange,
   or a peer that answers twice) *)
Theorem req_recv_race_refuted :
  exists n tmo progs xs,
    req_accepts (s_trace (qrun xs (qinit n tmo progs))) = false /\
    ok_ops (s_log (qrun xs (qinit n tmo progs))) = [OSend; ORecv; ORecv].
Proof.
  exists 1, false, [[mkCall OSend 11; mkCall ORecv 0]; [mkCall ORecv 0]],
    [ST 0; ST 0; ST 0; SE (QReply 0 [0; 21]); SE (QReply 0 [0; 22]); ST 0; ST 1; ST 0; ST 1; ST 0; ST 1]%N.
  vm_compute. auto.
Qed.

(* ---- the log of finished calls ---- *)

Section LogRuns.
  Context {Sh Pc Ev Env : Type}.
  Variable pc0 : Pc.
  Variable tstep : nat -> call -> Pc -> Sh -> option (Sh * list Ev * (Pc + res)).
  Variable estep : Env -> Sh -> Sh * list Ev.
  Variable obs_eqb : Sh -> Sh -> bool.
  Variable G : Sh -> list Ev -> Prop.
  Variable L : Sh -> list Ev -> Pc -> bool -> Prop.
  Variable P : entry -> Prop.
  Hypothesis finish_P : forall t c pc d sh tr sh' evs r,
    G sh tr -> L sh tr pc d -> tstep t c pc sh = Some (sh', evs, inr r) ->
    P (mkEntry t c r (d || negb (obs_eqb sh sh'))).
  Hypothesis L_idle_start : forall sh tr, G sh tr -> L sh tr pc0 false.
  Hypothesis estep_keeps : forall e sh tr sh' evs,
    G sh tr -> estep e sh = (sh', evs) ->
    G sh' (tr ++ evs) /\ forall pc d, L sh tr pc d -> L sh' (tr ++ evs) pc d.

  Notation run := (run pc0 tstep estep obs_eqb).
  Notation step := (step pc0 tstep estep obs_eqb).

  Lemma log_step_env e (s : sys Sh Pc Ev) : s_log (step_env estep e s) = s_log s.
  Proof. unfold step_env. destruct (estep e (s_sh s)). reflexivity. Qed.

  (* schedules without overlap *)
  Hypothesis tstep_keeps : forall t c pc d sh tr sh' evs nxt,
    G sh tr -> L sh tr pc d -> tstep t c pc sh = Some (sh', evs, nxt) ->
    G sh' (tr ++ evs) /\
    match nxt with
    | inl pc' => L sh' (tr ++ evs) pc' (d || negb (obs_eqb sh sh'))
    | inr _ => True
    end.

  Lemma log_run xs : forall s,
    sys_inv G L s -> Forall P (s_log s) -> nonoverlap pc0 tstep estep obs_eqb xs s = true ->
    Forall P (s_log (run xs s)).
  Proof.
    induction xs as [|x xs IH]; intros s Hs HP Hno; [exact HP|].
    simpl in Hno. apply andb_true_iff in Hno as [H1 H2].
    change (run (x :: xs) s) with (run xs (step s x)). apply IH; [| |exact H2].
    - destruct x as [t|e]; simpl.
      + apply (sys_inv_step_task pc0 tstep obs_eqb G L L_idle_start tstep_keeps); assumption.
      + apply (sys_inv_step_env estep G L estep_keeps); assumption.
    - destruct x as [t|e]; simpl.
      + apply (log_step_task pc0 tstep obs_eqb G L P finish_P L_idle_start); assumption.
      + rewrite log_step_env. exact HP.
  Qed.
End LogRuns.

Section LogRunsAll.
  Context {Sh Pc Ev Env : Type}.
  Variable pc0 : Pc.
  Variable tstep : nat -> call -> Pc -> Sh -> option (Sh * list Ev * (Pc + res)).
  Variable estep : Env -> Sh -> Sh * list Ev.
  Variable obs_eqb : Sh -> Sh -> bool.
  Variable G : Sh -> list Ev -> Prop.
  Variable L : Sh -> list Ev -> Pc -> bool -> Prop.
  Variable P : entry -> Prop.
  Hypothesis finish_P : forall t c pc d sh tr sh' evs r,
    G sh tr -> L sh tr pc d -> tstep t c pc sh = Some (sh', evs, inr r) ->
    P (mkEntry t c r (d || negb (obs_eqb sh sh'))).
  Hypothesis L_idle_start : forall sh tr, G sh tr -> L sh tr pc0 false.
  Hypothesis estep_keeps : forall e sh tr sh' evs,
    G sh tr -> estep e sh = (sh', evs) ->
    G sh' (tr ++ evs) /\ forall pc d, L sh tr pc d -> L sh' (tr ++ evs) pc d.
  Hypothesis tstep_keeps : forall t c pc d sh tr sh' evs nxt,
    G sh tr -> L sh tr pc d -> tstep t c pc sh = Some (sh', evs, nxt) ->
    G sh' (tr ++ evs) /\
    (forall pc2 d2, L sh tr pc2 d2 -> L sh' (tr ++ evs) pc2 d2) /\
    match nxt with
    | inl pc' => L sh' (tr ++ evs) pc' (d || negb (obs_eqb sh sh'))
    | inr _ => True
    end.

  Notation run := (run pc0 tstep estep obs_eqb).
  Notation step := (step pc0 tstep estep obs_eqb).

  Lemma log_run_all xs : forall s,
    sys_inv G L s -> Forall P (s_log s) -> Forall P (s_log (run xs s)).
  Proof.
    induction xs as [|x xs IH]; intros s Hs HP; [exact HP|].
    change (run (x :: xs) s) with (run xs (step s x)). apply IH.
    - destruct x as [t|e]; simpl.
      + apply (sys_inv_all_step_task pc0 tstep obs_eqb G L L_idle_start tstep_keeps); assumption.
      + apply (sys_inv_step_env estep G L estep_keeps); assumption.
    - destruct x as [t|e]; simpl.
      + apply (log_step_task pc0 tstep obs_eqb G L P finish_P L_idle_start); assumption.
      + rewrite (log_step_env estep). exact HP.
  Qed.
End LogRunsAll.

(* a call that fails the state check that opens it changes nothing - for EVERY schedule *)
Definition qL0 (sh : qsh) (tr : list aev) (pc : qpc) (d : bool) : Prop :=
  match pc with
  | QStart => d = false
  | QRecvGot r | QRecvMGot r => r <> RInvalid false
  | _ => True
  end.
Definition G_true {Sh Ev} (sh : Sh) (tr : list Ev) : Prop := True.

Lemma qstep_keeps0 t c pc d sh tr sh' evs nxt :
  @G_true qsh aev sh tr -> qL0 sh tr pc d -> qstep t c pc sh = Some (sh', evs, nxt) ->
  @G_true qsh aev sh' (tr ++ evs) /\
  (forall pc2 d2, qL0 sh tr pc2 d2 -> qL0 sh' (tr ++ evs) pc2 d2) /\
  match nxt with
  | inl pc' => qL0 sh' (tr ++ evs) pc' (d || negb (qobs_eqb sh sh'))
  | inr _ => True
  end.
Proof.
  intros _ HL H. split; [exact I|]. split; [auto|].
  destruct nxt as [pc'|r]; [|exact I].
  destruct pc; simpl in H.
  - destruct (c_op c); destruct (q_st sh); simpl in H; inv_some H; exact I.
  - destruct (get_next (q_lb sh)) as [[p|] b']; [|discriminate]. destruct (memN p (q_closed sh)); inv_some H; exact I.
  - discriminate.
  - destruct (q_permit sh).
    + inv_some H. destruct (q_nb_cases t (qset_notify sh false (q_gen sh) (q_waiters sh) (q_woken sh))) as [[p [m [q' [E1 E2]]]]|[E1 E2]];
        rewrite E2 in H1; inv_some H1; simpl; [apply first_frame_not_invalid|exact I].
    + destruct (iq_pop (q_in sh)) as [[[p m] q']|]; inv_some H; simpl; [apply first_frame_not_invalid|exact I].
  - destruct (negb (q_gen sh =? seen)%nat || memn t (q_woken sh)).
    + inv_some H. destruct (q_nb_cases t sh) as [[p [m [q' [E1 E2]]]]|[E1 E2]];
        rewrite E2 in H1; inv_some H1; simpl; [apply first_frame_not_invalid|exact I].
    + destruct (iq_pop (q_in sh)) as [[[p m] q']|].
      * inv_some H; simpl; apply first_frame_not_invalid.
      * destruct (memn t (q_tmo sh)); inv_some H. simpl. discriminate.
  - inv_some H. simpl. destruct (is_some (q_st sh')); discriminate.
  - destruct (is_some (q_st sh)); [destruct (finished r)|]; discriminate.
  - destruct (iq_pop (q_in sh)) as [[[p m] q']|]; inv_some H; simpl; [discriminate|exact I].
  - destruct (iq_pop (q_in sh)) as [[[p m] q']|].
    + inv_some H; simpl; discriminate.
    + destruct (memn t (q_tmo sh)); inv_some H. simpl. discriminate.
  - destruct (is_some (q_st sh)); discriminate.
Qed.

Lemma qestep_keeps0 e sh tr sh' evs :
  @G_true qsh aev sh tr -> qestep e sh = (sh', evs) ->
  @G_true qsh aev sh' (tr ++ evs) /\ forall pc d, qL0 sh tr pc d -> qL0 sh' (tr ++ evs) pc d.
Proof. intros _ _. split; [exact I|auto]. Qed.

Definition check_failed_clean (e : entry) : Prop := e_res e = RInvalid false -> e_dirty e = false.

Lemma qfinish0 t c pc d sh tr sh' evs r :
  @G_true qsh aev sh tr -> qL0 sh tr pc d -> qstep t c pc sh = Some (sh', evs, inr r) ->
  check_failed_clean (mkEntry t c r (d || negb (qobs_eqb sh sh'))).
Proof.
  intros _ HL H. unfold check_failed_clean. simpl. intros ->.
  destruct pc; simpl in H.
  - simpl in HL. subst d. destruct (c_op c); destruct (q_st sh); simpl in H; inv_some H; rewrite qobs_eqb_refl; reflexivity.
  - destruct (get_next (q_lb sh)) as [[p|] b']; [|discriminate]. destruct (memN p (q_closed sh)); inv_some H.
  - inv_some H.
  - destruct (q_permit sh).
    + inv_some H. destruct (q_nb_cases t (qset_notify sh false (q_gen sh) (q_waiters sh) (q_woken sh))) as [[p [m [q' [E1 E2]]]]|[E1 E2]];
        rewrite E2 in H1; inv_some H1.
    + destruct (iq_pop (q_in sh)) as [[[p m] q']|]; inv_some H.
  - destruct (negb (q_gen sh =? seen)%nat || memn t (q_woken sh)).
    + inv_some H. destruct (q_nb_cases t sh) as [[p [m [q' [E1 E2]]]]|[E1 E2]]; rewrite E2 in H1; inv_some H1.
    + destruct (iq_pop (q_in sh)) as [[[p m] q']|]; [inv_some H|]. destruct (memn t (q_tmo sh)); inv_some H.
  - inv_some H.
  - simpl in HL. destruct (is_some (q_st sh)); [destruct (finished r)|]; inv_some H; congruence.
  - destruct (iq_pop (q_in sh)) as [[[p m] q']|]; inv_some H.
  - destruct (iq_pop (q_in sh)) as [[[p m] q']|]; [inv_some H|]. destruct (memn t (q_tmo sh)); inv_some H.
  - simpl in HL. destruct (is_some (q_st sh)); inv_some H; congruence.
Qed.

Theorem req_check_failed_changes_nothing n tmo progs xs :
  Forall check_failed_clean (s_log (qrun xs (qinit n tmo progs))).
Proof.
  apply (log_run_all QStart qstep qestep qobs_eqb G_true qL0 check_failed_clean qfinish0
           (fun _ _ _ => eq_refl) qestep_keeps0 qstep_keeps0).
  - apply sys_inv_init. exact I.
  - constructor.
Qed.

(* ... and so does a recv that is woken up with InvalidState("state changed while waiting"), as long as
   calls do not overlap *)
Definition failed_clean (e : entry) : Prop := (exists b, e_res e = RInvalid b) -> e_dirty e = false.

Lemma qfinish t c pc d sh tr sh' evs r :
  qG sh tr -> qL sh tr pc d -> qstep t c pc sh = Some (sh', evs, inr r) ->
  failed_clean (mkEntry t c r (d || negb (qobs_eqb sh sh'))).
Proof.
  unfold qG, qL, failed_clean. destruct (cur tr) as [a|]; [|contradiction]. simpl.
  intros HG HL H [b ->].
  destruct pc; simpl in H.
  - simpl in HL. subst d. destruct (c_op c); destruct (q_st sh); simpl in H; inv_some H; rewrite qobs_eqb_refl; reflexivity.
  - destruct (get_next (q_lb sh)) as [[p|] b']; [|discriminate]. destruct (memN p (q_closed sh)); inv_some H.
  - inv_some H.
  - destruct (q_permit sh).
    + inv_some H. destruct (q_nb_cases t (qset_notify sh false (q_gen sh) (q_waiters sh) (q_woken sh))) as [[p [m [q' [E1 E2]]]]|[E1 E2]];
        rewrite E2 in H1; inv_some H1.
    + destruct (iq_pop (q_in sh)) as [[[p m] q']|]; inv_some H.
  - destruct (negb (q_gen sh =? seen)%nat || memn t (q_woken sh)).
    + inv_some H. destruct (q_nb_cases t sh) as [[p [m [q' [E1 E2]]]]|[E1 E2]]; rewrite E2 in H1; inv_some H1.
    + destruct (iq_pop (q_in sh)) as [[[p m] q']|]; [inv_some H|]. destruct (memn t (q_tmo sh)); inv_some H.
  - inv_some H.
  - destruct HL as [Hr1 [Hr2 Hr3]].
    assert (X : r = RInvalid b).
    { destruct (is_some (q_st sh)); [destruct (finished r)|]; inv_some H; reflexivity. }
    subst r. destruct b; [|exfalso; apply Hr1; reflexivity].
    destruct (Hr3 eq_refl) as [-> Est]. rewrite Est in H. simpl in H. inv_some H.
    rewrite qobs_eqb_refl. reflexivity.
  - destruct (iq_pop (q_in sh)) as [[[p m] q']|]; inv_some H.
  - destruct (iq_pop (q_in sh)) as [[[p m] q']|]; [inv_some H|]. destruct (memn t (q_tmo sh)); inv_some H.
  - destruct HL as [Hr1 _]. exfalso.
    assert (X : r = RInvalid b) by (destruct (is_some (q_st sh)); inv_some H; reflexivity).
    eapply Hr1; exact X.
Qed.

Theorem req_failed_calls_change_nothing_outside n tmo progs xs :
  qnonoverlap xs (qinit n tmo progs) = true ->
  Forall failed_clean (s_log (qrun xs (qinit n tmo progs))).
Proof.
  intros H.
  apply (log_run QStart qstep qestep qobs_eqb qG qL failed_clean qfinish qL_idle_start qestep_keeps qstep_keeps).
  - apply sys_inv_init, qG_init.
  - constructor.
  - exact H.
Qed.

(* with overlap: task 0's recv is woken by the detach of its peer and decides "InvalidState"; before it
   takes the final lock task 1 completes a send; the failing recv then resets ExpectingReply *)
Theorem req_failed_calls_change_nothing_refuted :
  exists n tmo progs xs e,
    In e (s_log (qrun xs (qinit n tmo progs))) /\ e_res e = RInvalid true /\ e_dirty e = true /\
    (* task 1: send Ok, then its own recv is refused although nothing but task 0's failing call intervened *)
    map (fun e => (e_task e, c_op (e_call e), e_res e)) (s_log (qrun xs (qinit n tmo progs)))
    = [(0, OSend, ROk []); (1, OSend, ROk []); (0, ORecv, RInvalid true); (1, ORecv, RInvalid false)].
Proof.
  exists 2, false, [[mkCall OSend 11; mkCall ORecv 0]; [mkCall OSend 13; mkCall ORecv 0]],
    ([ST 0; ST 0; ST 0; ST 0; ST 0; SE (QDetachCore 0); SE (QDetachSock 0); ST 0; ST 0;
      ST 1; ST 1; ST 1; ST 0; SE (QReply 1 [0; 21]); ST 1])%N,
    (mkEntry 0 (mkCall ORecv 0) (RInvalid true) true).
  vm_compute. intuition.
Qed.

(* the ghost bit means what it says *)
Lemma dirty_false_means_unchanged (s : qsys) t :
  match nth_error (s_tasks (qstep_sys s (ST t))) t with
  | Some tk' => t_pc tk' <> None -> t_dirty tk' = false
  | None => False
  end ->
  s_sh (qstep_sys s (ST t)) = s_sh s \/
  (q_st (s_sh (qstep_sys s (ST t))) = q_st (s_sh s) /\ q_lb (s_sh (qstep_sys s (ST t))) = q_lb (s_sh s) /\
   q_att (s_sh (qstep_sys s (ST t))) = q_att (s_sh s) /\ q_closed (s_sh (qstep_sys s (ST t))) = q_closed (s_sh s) /\
   q_in (s_sh (qstep_sys s (ST t))) = q_in (s_sh s) /\ q_out (s_sh (qstep_sys s (ST t))) = q_out (s_sh s)) \/
  t_pc (nth t (s_tasks (qstep_sys s (ST t))) (mkTask [] None false)) = None.
Proof.
  unfold qstep_sys. simpl.
  destruct (step_task_spec QStart qstep qobs_eqb t s) as [->|tk c rest sh' evs pc' Hn Hp Hs ->|tk c rest sh' evs r Hn Hp Hs ->].
  - auto.
  - simpl. rewrite (nth_error_upd_same _ _ _ _ Hn). simpl. intros H.
    assert (D : t_dirty tk || negb (qobs_eqb (s_sh s) sh') = false) by (apply H; discriminate).
    apply orb_false_iff in D as [_ D]. apply negb_false_iff in D.
    apply qobs_eqb_sound in D. right; left. intuition congruence.
  - simpl. intros _. right; right.
    rewrite (nth_error_nth _ _ _ (nth_error_upd_same _ _ _ _ Hn)). reflexivity.
Qed.

(* ================================================================== REP *)

Lemma pobs_eqb_refl a : pobs_eqb a a = true.
Proof.
  unfold pobs_eqb. rewrite !listN_eqb_refl, inq_eqb_refl, out_eqb_refl.
  destruct (p_st a); simpl; [rewrite pinfo_eqb_refl|]; reflexivity.
Qed.

Lemma prunA_none tr : prunA tr None = None.
Proof. induction tr; simpl; auto. Qed.
Lemma prunA_app tr evs a : prunA (tr ++ evs) a = prunA evs (prunA tr a).
Proof. unfold prunA. apply fold_left_app. Qed.

(* ---- no overlap: recv only ever commits in ReadyToReceive ---- *)

Definition pG (sh : psh) (tr : list pev) : Prop := prunA tr (Some None) = Some (p_st sh).
Definition pL (sh : psh) (tr : list pev) (pc : ppc) (d : bool) : Prop :=
  match pc with
  | PStart => d = false
  | PRecvChecked | PRecvParked | PRecvPopped _ _ | PRecvGot _ _ => p_st sh = None
  | PSendTaken _ => True
  end.

Lemma pL_idle_start sh tr : pG sh tr -> pL sh tr PStart false.
Proof. reflexivity. Qed.

Lemma pstep_keeps t c pc d sh tr sh' evs nxt :
  pG sh tr -> pL sh tr pc d -> pstep t c pc sh = Some (sh', evs, nxt) ->
  pG sh' (tr ++ evs) /\
  match nxt with
  | inl pc' => pL sh' (tr ++ evs) pc' (d || negb (pobs_eqb sh sh'))
  | inr _ => True
  end.
Proof.
  unfold pG. rewrite prunA_app. intros HG HL H. rewrite HG.
  destruct pc; simpl in H.
  - destruct (c_op c); destruct (p_st sh) eqn:E; simpl in H; inv_some H; simpl; rewrite ?E, ?pinfo_eqb_refl; auto.
  - destruct (iq_pop (p_in sh)) as [[[p m] q']|]; inv_some H; simpl; auto.
  - destruct (iq_pop (p_in sh)) as [[[p m] q']|]; [inv_some H; simpl; auto|].
    destruct (memn t (p_tmo sh)); inv_some H. simpl. auto.
  - destruct (memN p (p_eps sh)); [destruct (extract_routing_prefix raw)|]; inv_some H; simpl; auto.
  - inv_some H. simpl in HL. simpl. rewrite HL. auto.
  - destruct (memN (fst i) (p_eps sh)); inv_some H; simpl; auto.
Qed.

Lemma pestep_keeps e sh tr sh' evs :
  pG sh tr -> pestep e sh = (sh', evs) ->
  pG sh' (tr ++ evs) /\ forall pc d, pL sh tr pc d -> pL sh' (tr ++ evs) pc d.
Proof.
  unfold pG. rewrite prunA_app. intros HG H. rewrite HG.
  assert (Same : forall s2, p_st s2 = p_st sh -> (sh', evs) = (s2, []) ->
            prunA evs (Some (p_st sh)) = Some (p_st sh') /\ forall pc d, pL sh tr pc d -> pL sh' (tr ++ evs) pc d).
  { intros s2 E X. inv_some X. simpl. split; [congruence|]. intros pc d. destruct pc; simpl; rewrite ?E; auto. }
  destruct e; simpl in H.
  - destruct (memN p (p_att sh)); (eapply Same; [|symmetry; exact H]; simpl; auto).
  - (eapply Same; [|symmetry; exact H]; simpl; auto).
  - destruct (memN p (p_att sh)); [|(eapply Same; [|symmetry; exact H]; simpl; auto)].
    destruct (p_st sh) as [i|] eqn:E; simpl in H; rewrite ?E in H.
    + destruct (N.eqb (fst i) p).
      * inv_some H. simpl. split; [reflexivity|]. intros pc d. destruct pc; simpl; auto.
      * (eapply Same; [|symmetry; exact H]; simpl; auto).
    + (eapply Same; [|symmetry; exact H]; simpl; auto).
  - destruct (memN p (p_att sh)); (eapply Same; [|symmetry; exact H]; simpl; auto).
  - destruct (p_rcvtimeo sh && memn t (p_parked sh) && negb (memn t (p_tmo sh))); (eapply Same; [|symmetry; exact H]; simpl; auto).
Qed.

Theorem rep_alternates_outside n tmo progs xs :
  pnonoverlap xs (pinit n tmo progs) = true ->
  rep_accepts (s_trace (prun xs (pinit n tmo progs))) = true.
Proof.
  intros H.
  destruct (sys_inv_run PStart pstep pestep pobs_eqb pG pL pL_idle_start pstep_keeps pestep_keeps xs
              (pinit n tmo progs)) as [HG _]; [apply sys_inv_init; reflexivity | exact H |].
  unfold rep_accepts. unfold pG in HG. unfold prun. rewrite HG. reflexivity.
Qed.

Corollary rep_alternates_single_task n tmo prog xs :
  only_task0 xs -> rep_accepts (s_trace (prun xs (pinit n tmo [prog]))) = true.
Proof.
  intros H. apply rep_alternates_outside. apply single_task_nonoverlap; [simpl; lia | exact H].
Qed.

(* without resets the commit events are literally recv i, send i, recv j, send j, ... *)
Fixpoint palternates (pending : option pinfo) (tr : list pev) : bool :=
  match tr, pending with
  | [], _ => true
  | PERecv i :: r, None => palternates (Some i) r
  | PETake i :: r, Some j => pinfo_eqb i j && palternates None r
  | _, _ => false
  end.
Definition pplain (tr : list pev) : Prop := Forall (fun e => e <> PEReset) tr.

Lemma palternates_of_accepts tr : forall a, pplain tr -> prunA tr (Some a) <> None -> palternates a tr = true.
Proof.
  induction tr as [|e tr IH]; intros a Hp Hr; [reflexivity|].
  inversion Hp as [|? ? He Hp']; subst. simpl in Hr.
  destruct e as [i|i|]; [| |congruence]; destruct a as [j|]; simpl in *;
    try (rewrite prunA_none in Hr; congruence).
  - apply IH; auto.
  - destruct (pinfo_eqb i j); [|rewrite prunA_none in Hr; congruence]. simpl. apply IH; auto.
Qed.

Theorem rep_strict_alternation tr : rep_accepts tr = true -> pplain tr -> palternates None tr = true.
Proof.
  unfold rep_accepts. intros H Hp. apply palternates_of_accepts; auto.
  destruct (prunA tr (Some None)); discriminate.
Qed.

(* the race: two tasks, each one recv(); both succeed; the first requester is never answered *)
Theorem rep_alternates_refuted :
  exists n tmo progs xs,
    rep_accepts (s_trace (prun xs (pinit n tmo progs))) = false /\
    ok_ops (s_log (prun xs (pinit n tmo progs))) = [ORecv; ORecv; OSend] /\
    (* requests came from peers 0 and 1; the only reply goes to peer 1, task 1's send is refused *)
    p_out (s_sh (prun xs (pinit n tmo progs))) = [(1, [0; 51])]%N /\
    map (fun e => (e_task e, e_res e)) (s_log (prun xs (pinit n tmo progs)))
    = [(0, ROk [31%N]); (1, ROk [33%N]); (0, ROk []); (1, RInvalid false)].
Proof.
  exists 2, false, [[mkCall ORecv 0; mkCall OSend 51]; [mkCall ORecv 0; mkCall OSend 53]]%N,
    ([SE (PReq 0 [0; 31]); SE (PReq 1 [0; 33]); ST 0; ST 1; ST 0; ST 1; ST 0; ST 1; ST 0; ST 1;
      ST 0; ST 0; ST 1])%N.
  vm_compute. auto.
Qed.

(* ---- every schedule: a reply is addressed to the request stored by the immediately preceding recv ---- *)

Definition bstep (b : option pinfo) (e : pev) : option (option pinfo) :=
  match e with
  | PERecv i => Some (Some i)
  | PETake i => match b with Some j => if pinfo_eqb i j then Some None else None | None => None end
  | PEReset => Some None
  end.
Definition brun (tr : list pev) (b : option (option pinfo)) : option (option pinfo) :=
  fold_left (fun o e => match o with Some b => bstep b e | None => None end) tr b.
Lemma brun_none tr : brun tr None = None.
Proof. induction tr; simpl; auto. Qed.
Lemma brun_app tr evs b : brun (tr ++ evs) b = brun evs (brun tr b).
Proof. unfold brun. apply fold_left_app. Qed.

Definition out_ok (tr : list pev) (o : N * msg) : Prop :=
  exists pre c, snd o = pre ++ rep_payload c /\ In (PETake (fst o, pre)) tr.
Definition pGB (sh : psh) (tr : list pev) : Prop :=
  brun tr (Some None) = Some (p_st sh) /\ Forall (out_ok tr) (p_out sh).
Definition pLB (sh : psh) (tr : list pev) (pc : ppc) (d : bool) : Prop :=
  match pc with PSendTaken i => In (PETake i) tr | _ => True end.

Lemma out_ok_mono tr evs o : out_ok tr o -> out_ok (tr ++ evs) o.
Proof. intros [pre [c [H1 H2]]]. exists pre, c. split; [exact H1|]. apply in_or_app; auto. Qed.

Lemma pstep_keepsB t c pc d sh tr sh' evs nxt :
  pGB sh tr -> pLB sh tr pc d -> pstep t c pc sh = Some (sh', evs, nxt) ->
  pGB sh' (tr ++ evs) /\
  (forall pc2 d2, pLB sh tr pc2 d2 -> pLB sh' (tr ++ evs) pc2 d2) /\
  match nxt with
  | inl pc' => pLB sh' (tr ++ evs) pc' (d || negb (pobs_eqb sh sh'))
  | inr _ => True
  end.
Proof.
  unfold pGB. rewrite brun_app. intros [HG HO] HL H. rewrite HG.
  assert (Mono : forall pc2 d2, pLB sh tr pc2 d2 -> pLB sh' (tr ++ evs) pc2 d2).
  { intros pc2 d2. destruct pc2; simpl; auto. intros X. apply in_or_app; auto. }
  assert (HO' : Forall (out_ok (tr ++ evs)) (p_out sh)).
  { eapply Forall_impl; [|exact HO]. intros o. apply out_ok_mono. }
  destruct pc; simpl in H.
  - destruct (c_op c); destruct (p_st sh) eqn:E; simpl in H; inv_some H; simpl; rewrite ?E, ?pinfo_eqb_refl;
      repeat split; auto; apply in_or_app; right; left; reflexivity.
  - destruct (iq_pop (p_in sh)) as [[[p m] q']|]; inv_some H; simpl; repeat split; auto.
  - destruct (iq_pop (p_in sh)) as [[[p m] q']|]; [inv_some H; simpl; repeat split; auto|].
    destruct (memn t (p_tmo sh)); inv_some H. simpl. repeat split; auto.
  - destruct (memN p (p_eps sh)); [destruct (extract_routing_prefix raw)|]; inv_some H; simpl; repeat split; auto.
  - inv_some H. simpl. repeat split; auto.
  - destruct (memN (fst i) (p_eps sh)); inv_some H; simpl; repeat split; auto.
    apply Forall_app; split; [exact HO'|]. constructor; [|constructor].
    exists (snd i), c. simpl. split; [reflexivity|]. simpl in HL. rewrite app_nil_r. destruct i; exact HL.
Qed.

Lemma pestep_keepsB e sh tr sh' evs :
  pGB sh tr -> pestep e sh = (sh', evs) ->
  pGB sh' (tr ++ evs) /\ forall pc d, pLB sh tr pc d -> pLB sh' (tr ++ evs) pc d.
Proof.
  unfold pGB. rewrite brun_app. intros [HG HO] H. rewrite HG.
  assert (Mono : forall pc2 d2, pLB sh tr pc2 d2 -> pLB sh' (tr ++ evs) pc2 d2).
  { intros pc2 d2. destruct pc2; simpl; auto. intros X. apply in_or_app; auto. }
  assert (HO' : Forall (out_ok (tr ++ evs)) (p_out sh)).
  { eapply Forall_impl; [|exact HO]. intros o. apply out_ok_mono. }
  split; [|exact Mono].
  destruct e; simpl in H.
  - destruct (memN p (p_att sh)); inv_some H; simpl; auto.
  - inv_some H; simpl; auto.
  - destruct (memN p (p_att sh)); [|inv_some H; simpl; auto].
    destruct (p_st sh) as [i|] eqn:E; simpl in H; rewrite ?E in H.
    + destruct (N.eqb (fst i) p); inv_some H; simpl; rewrite ?E; auto.
    + inv_some H; simpl; rewrite ?E; auto.
  - destruct (memN p (p_att sh)); inv_some H; simpl; auto.
  - destruct (p_rcvtimeo sh && memn t (p_parked sh) && negb (memn t (p_tmo sh))); inv_some H; simpl; auto.
Qed.

Lemma brun_last_recv tr i : brun tr (Some None) = Some (Some i) -> exists tr0, tr = tr0 ++ [PERecv i].
Proof.
  induction tr as [|x tr _] using rev_ind; [discriminate|].
  rewrite brun_app. simpl. destruct (brun tr (Some None)) as [b|]; [|discriminate].
  destruct x as [j|j|]; simpl.
  - intros H. inv_some H. eauto.
  - destruct b as [k|]; [destruct (pinfo_eqb j k)|]; discriminate.
  - discriminate.
Qed.

Lemma brun_take_pred tr1 i tr2 :
  brun (tr1 ++ PETake i :: tr2) (Some None) <> None -> exists tr0, tr1 = tr0 ++ [PERecv i].
Proof.
  rewrite brun_app. simpl. destruct (brun tr1 (Some None)) as [[j|]|] eqn:E; simpl.
  - destruct (pinfo_eqb i j) eqn:Eij.
    + apply pinfo_eqb_sound in Eij. subst j. intros _. apply brun_last_recv, E.
    + rewrite brun_none. congruence.
  - rewrite brun_none. congruence.
  - rewrite brun_none. congruence.
Qed.

Theorem rep_reply_to_requester n tmo progs xs :
  let s := prun xs (pinit n tmo progs) in
  (forall tr1 i tr2, s_trace s = tr1 ++ PETake i :: tr2 -> exists tr0, tr1 = tr0 ++ [PERecv i]) /\
  Forall (out_ok (s_trace s)) (p_out (s_sh s)).
Proof.
  intros s.
  destruct (sys_inv_all_run PStart pstep pestep pobs_eqb pGB pLB (fun _ _ _ => I) pstep_keepsB pestep_keepsB xs
              (pinit n tmo progs)) as [[HG HO] _].
  { apply sys_inv_init. split; [reflexivity|constructor]. }
  split; [|exact HO].
  intros tr1 i tr2 E. apply (brun_take_pred tr1 i tr2). rewrite <- E. unfold s, prun. rewrite HG. discriminate.
Qed.

(* ---- every schedule: a REP call refused with InvalidState has changed nothing ---- *)

Definition pL0 (sh : psh) (tr : list pev) (pc : ppc) (d : bool) : Prop :=
  match pc with PStart => d = false | _ => True end.

Lemma pstep_keeps0 t c pc d sh tr sh' evs nxt :
  @G_true psh pev sh tr -> pL0 sh tr pc d -> pstep t c pc sh = Some (sh', evs, nxt) ->
  @G_true psh pev sh' (tr ++ evs) /\
  (forall pc2 d2, pL0 sh tr pc2 d2 -> pL0 sh' (tr ++ evs) pc2 d2) /\
  match nxt with
  | inl pc' => pL0 sh' (tr ++ evs) pc' (d || negb (pobs_eqb sh sh'))
  | inr _ => True
  end.
Proof.
  intros _ HL H. split; [exact I|]. split; [auto|].
  destruct nxt as [pc'|r]; [|exact I].
  destruct pc; simpl in H.
  - destruct (c_op c); destruct (p_st sh); simpl in H; inv_some H; exact I.
  - destruct (iq_pop (p_in sh)) as [[[p m] q']|]; inv_some H; exact I.
  - destruct (iq_pop (p_in sh)) as [[[p m] q']|]; [inv_some H; exact I|]. destruct (memn t (p_tmo sh)); inv_some H.
  - destruct (memN p (p_eps sh)); [destruct (extract_routing_prefix raw)|]; inv_some H; exact I.
  - inv_some H.
  - destruct (memN (fst i) (p_eps sh)); inv_some H.
Qed.

Lemma pfinish0 t c pc d sh tr sh' evs r :
  @G_true psh pev sh tr -> pL0 sh tr pc d -> pstep t c pc sh = Some (sh', evs, inr r) ->
  failed_clean (mkEntry t c r (d || negb (pobs_eqb sh sh'))).
Proof.
  intros _ HL H. unfold failed_clean. simpl. intros [b ->].
  destruct pc; simpl in H.
  - simpl in HL. subst d. destruct (c_op c); destruct (p_st sh); simpl in H; inv_some H; rewrite pobs_eqb_refl; reflexivity.
  - destruct (iq_pop (p_in sh)) as [[[p m] q']|]; inv_some H.
  - destruct (iq_pop (p_in sh)) as [[[p m] q']|]; [inv_some H|]. destruct (memn t (p_tmo sh)); inv_some H.
  - destruct (memN p (p_eps sh)); [destruct (extract_routing_prefix raw)|]; inv_some H.
  - inv_some H. destruct (is_multi c); [discriminate|]. exfalso. eapply first_frame_not_invalid; eauto.
  - destruct (memN (fst i) (p_eps sh)); inv_some H.
Qed.

Theorem rep_failed_calls_change_nothing n tmo progs xs :
  Forall failed_clean (s_log (prun xs (pinit n tmo progs))).
Proof.
  apply (log_run_all PStart pstep pestep pobs_eqb G_true pL0 failed_clean pfinish0
           (fun _ _ _ => eq_refl) (fun e sh tr sh' evs _ _ => conj I (fun pc d H => H)) pstep_keeps0).
  - apply sys_inv_init. exact I.
  - constructor.
Qed.
