(* Lemmas about Model/Backoff.v (property C17, arithmetic part). *)
From RZ Require Import Base.Prelude Model.Backoff.
Local Open Scope N_scope.

(* ---------- constants ---------- *)
Lemma U32MAX_val : U32MAX = 2 ^ 32 - 1. Proof. reflexivity. Qed.
Lemma U64MAX_val : U64MAX = 2 ^ 64 - 1. Proof. reflexivity. Qed.
Lemma I64MAX_val : I64MAX = 2 ^ 63 - 1. Proof. reflexivity. Qed.
Lemma DUR_MAX_val : DUR_MAX = 2 ^ 64 * 10 ^ 9 - 1. Proof. reflexivity. Qed.
Lemma pow2_31 : 2 ^ 31 = 2147483648. Proof. reflexivity. Qed.

(* ---------- std primitives ---------- *)

Lemma pow2_le_31 e : e <= 31 -> 2 ^ e <= 2147483648.
Proof. intros H. rewrite <- pow2_31. apply N.pow_le_mono_r; lia. Qed.

Lemma pow2_pos e : 1 <= 2 ^ e.
Proof. assert (2 ^ e <> 0) by (apply N.pow_nonzero; lia). lia. Qed.

(* saturating_pow: the exponent test is the mathematical saturation *)
Lemma sat_pow2_spec e : sat_pow2_u32 e = N.min (2 ^ e) U32MAX.
Proof.
  unfold sat_pow2_u32. destruct (e <? 32) eqn:E.
  - assert (2 ^ e <= 2147483648) by (apply pow2_le_31; lia).
    unfold U32MAX. lia.
  - assert (2 ^ 32 <= 2 ^ e) by (apply N.pow_le_mono_r; lia).
    change (2 ^ 32) with 4294967296 in H. unfold U32MAX. lia.
Qed.

(* the multiplier used by the code never saturates: it is an exact power of two <= 2^31 < 2^32 *)
Lemma multiplier_exact att : sat_pow2_u32 (N.min att 31) = 2 ^ (N.min att 31).
Proof. unfold sat_pow2_u32. replace (N.min att 31 <? 32) with true by lia. reflexivity. Qed.

Lemma multiplier_bounds att :
  1 <= sat_pow2_u32 (N.min att 31) /\ sat_pow2_u32 (N.min att 31) <= 2147483648 /\
  sat_pow2_u32 (N.min att 31) < U32MAX.
Proof.
  rewrite multiplier_exact. pose proof (pow2_pos (N.min att 31)).
  assert (2 ^ N.min att 31 <= 2147483648) by (apply pow2_le_31; lia). unfold U32MAX. lia.
Qed.

Lemma multiplier_never_overflows att :
  sat_pow2_u32 (N.min att 31) = 2 ^ N.min att 31 /\
  1 <= sat_pow2_u32 (N.min att 31) /\ sat_pow2_u32 (N.min att 31) <= 2147483648 /\
  sat_pow2_u32 (N.min att 31) < U32MAX.
Proof. split; [apply multiplier_exact|apply multiplier_bounds]. Qed.

(* consecutive multipliers at most double; they are monotone *)
Lemma multiplier_step att :
  sat_pow2_u32 (N.min (att + 1) 31) <= 2 * sat_pow2_u32 (N.min att 31) /\
  sat_pow2_u32 (N.min att 31) <= sat_pow2_u32 (N.min (att + 1) 31).
Proof.
  rewrite !multiplier_exact. destruct (att <? 31) eqn:E.
  - replace (N.min (att + 1) 31) with (att + 1) by lia. replace (N.min att 31) with att by lia.
    rewrite N.pow_add_r. change (2 ^ 1) with 2. lia.
  - replace (N.min (att + 1) 31) with 31 by lia. replace (N.min att 31) with 31 by lia. lia.
Qed.

Lemma multiplier_mono a b : a <= b -> sat_pow2_u32 (N.min a 31) <= sat_pow2_u32 (N.min b 31).
Proof. intros H. rewrite !multiplier_exact. apply N.pow_le_mono_r; lia. Qed.

(* Duration::saturating_mul on (secs, nanos) is min (d*m) DUR_MAX on nanoseconds *)
Lemma std_dur_sat_mul_ns secs nanos rhs :
  nanos < NS -> dur_ns (std_dur_sat_mul secs nanos rhs) = dur_sat_mul (dur_ns (secs, nanos)) rhs.
Proof.
  intros Hn. unfold std_dur_sat_mul, std_dur_checked_mul, dur_sat_mul, dur_ns, DUR_MAX. cbn [fst snd].
  set (t := nanos * rhs). set (s := secs * rhs).
  assert (Ht : t = NS * (t / NS) + t mod NS) by (apply N.div_mod; unfold NS; lia).
  assert (Hm : t mod NS < NS) by (apply N.mod_lt; unfold NS; lia).
  replace ((secs * NS + nanos) * rhs) with (s * NS + t) by (unfold s, t; lia).
  generalize dependent (t / NS). generalize dependent (t mod NS). intros r Hr q Hq.
  unfold NS in *.
  destruct (U64MAX <? s) eqn:E1; cbn [fst snd].
  - unfold U64MAX in *. lia.
  - destruct (U64MAX <? s + q) eqn:E2; cbn [fst snd]; unfold U64MAX in *; lia.
Qed.

Lemma std_dur_sat_mul_wf secs nanos rhs :
  secs <= U64MAX -> nanos < NS ->
  fst (std_dur_sat_mul secs nanos rhs) <= U64MAX /\ snd (std_dur_sat_mul secs nanos rhs) < NS.
Proof.
  intros Hs Hn. unfold std_dur_sat_mul, std_dur_checked_mul.
  assert (Hm : (nanos * rhs) mod NS < NS) by (apply N.mod_lt; unfold NS; lia).
  destruct (U64MAX <? secs * rhs) eqn:E1; cbn [fst snd]; [unfold U64MAX, NS; lia|].
  destruct (U64MAX <? secs * rhs + nanos * rhs / NS) eqn:E2; cbn [fst snd]; [unfold U64MAX, NS; lia|].
  split; [lia|exact Hm].
Qed.

Lemma dur_sat_mul_le d m : dur_sat_mul d m <= DUR_MAX.
Proof. unfold dur_sat_mul. lia. Qed.

(* ---------- delay ---------- *)

Definition capped (max d : N) : N := if 0 <? max then N.min d max else d.

Lemma delay_unfold base max att :
  delay base max att = capped max (N.min (base * 2 ^ (N.min att 31)) DUR_MAX).
Proof. unfold delay, capped, dur_sat_mul. rewrite multiplier_exact. reflexivity. Qed.

Lemma capped_mono max a b : a <= b -> capped max a <= capped max b.
Proof. unfold capped. destruct (0 <? max); lia. Qed.
Lemma capped_double max a b : a <= 2 * b -> capped max a <= 2 * capped max b.
Proof. unfold capped. destruct (0 <? max); lia. Qed.

(* first delay *)
Lemma delay0 base max : base <= DUR_MAX ->
  delay base max 0 = if 0 <? max then N.min base max else base.
Proof.
  intros H. rewrite delay_unfold. change (N.min 0 31) with 0. change (2 ^ 0) with 1.
  unfold capped. rewrite N.mul_1_r. replace (N.min base DUR_MAX) with base by lia. reflexivity.
Qed.

(* exact value while the product fits a Duration *)
Lemma delay_exact base max att : base * 2 ^ (N.min att 31) <= DUR_MAX ->
  delay base max att = capped max (base * 2 ^ (N.min att 31)).
Proof. intros H. rewrite delay_unfold. f_equal. lia. Qed.

(* grows at most geometrically (factor 2) *)
Lemma delay_next_le_double base max att :
  delay base max (att + 1) <= 2 * delay base max att.
Proof.
  rewrite !delay_unfold. apply capped_double.
  pose proof (multiplier_step att) as [H1 _]. rewrite !multiplier_exact in H1.
  set (p' := 2 ^ N.min (att + 1) 31) in *. set (p := 2 ^ N.min att 31) in *.
  assert (base * p' <= 2 * (base * p)) by nia. lia.
Qed.

(* the same along the real state update (saturating increment of the counter) *)
Lemma delay_next_le_double_sat base max att :
  delay base max (u32_sat_add att 1) <= 2 * delay base max att.
Proof.
  unfold u32_sat_add. destruct (att + 1 <=? U32MAX) eqn:E.
  - replace (N.min (att + 1) U32MAX) with (att + 1) by lia. apply delay_next_le_double.
  - replace (N.min (att + 1) U32MAX) with U32MAX by lia.
    rewrite !delay_unfold. apply capped_double.
    replace (N.min U32MAX 31) with 31 by (unfold U32MAX; lia).
    replace (N.min att 31) with 31 by (unfold U32MAX in *; lia). lia.
Qed.

(* non-decreasing in the number of attempts *)
Lemma delay_monotone base max a b : a <= b -> delay base max a <= delay base max b.
Proof.
  intros H. rewrite !delay_unfold. apply capped_mono.
  pose proof (multiplier_mono a b H) as Hm. rewrite !multiplier_exact in Hm.
  assert (base * 2 ^ N.min a 31 <= base * 2 ^ N.min b 31) by nia. lia.
Qed.

(* never above RECONNECT_IVL_MAX when that is set *)
Lemma delay_le_max base max att : 0 < max -> delay base max att <= max.
Proof. intros H. rewrite delay_unfold. unfold capped. replace (0 <? max) with true by lia. lia. Qed.

Lemma delay_le_durmax base max att : delay base max att <= DUR_MAX.
Proof. rewrite delay_unfold. unfold capped. destruct (0 <? max); lia. Qed.

(* never below the first delay: min base max when max is set, base otherwise *)
Lemma delay_ge_first base max att : base <= DUR_MAX -> delay base max 0 <= delay base max att.
Proof. intros _. apply delay_monotone. lia. Qed.
Lemma delay_ge_base_or_max base max att : base <= DUR_MAX ->
  (if 0 <? max then N.min base max else base) <= delay base max att.
Proof. intros H. rewrite <- (delay0 base max H). apply delay_ge_first, H. Qed.

(* the delay is exactly base * 2^min(att,31), cut at DUR_MAX and at max *)
Lemma delay_closed_form base max att :
  delay base max att =
    (if 0 <? max then N.min (N.min (base * 2 ^ N.min att 31) DUR_MAX) max
     else N.min (base * 2 ^ N.min att 31) DUR_MAX).
Proof. rewrite delay_unfold. reflexivity. Qed.

(* from attempt 31 on the delay is stationary *)
Lemma delay_stationary base max att : 31 <= att -> delay base max att = delay base max 31.
Proof.
  intros H. rewrite !delay_unfold. replace (N.min att 31) with 31 by lia. reflexivity.
Qed.

(* with a cap that can be reached, the delay reaches it and stays there *)
Lemma delay_reaches_max base max att :
  0 < max -> max <= DUR_MAX -> max <= base * 2 ^ N.min att 31 -> delay base max att = max.
Proof.
  intros H0 H1 H2. rewrite delay_unfold. unfold capped. replace (0 <? max) with true by lia. lia.
Qed.

(* ---------- attempts counter ---------- *)

Lemma u32_sat_add_1 a : a <= U32MAX ->
  u32_sat_add a 1 <= U32MAX /\ a <= u32_sat_add a 1 /\
  (a < U32MAX -> u32_sat_add a 1 = a + 1) /\ (a = U32MAX -> u32_sat_add a 1 = U32MAX).
Proof. unfold u32_sat_add. lia. Qed.

(* ---------- on_failure / on_success ---------- *)

Lemma on_failure_done base max now st d st' :
  on_failure base max now st = Done (d, st') ->
  d = delay base max (attempts st) /\ attempts st' = u32_sat_add (attempts st) 1 /\
  instant_add now d = next_at st' /\ next_at st' <> None.
Proof.
  unfold on_failure. destruct (instant_add now _) eqn:E; [|discriminate].
  intros H. injection H as <- <-. cbn [attempts next_at]. repeat split; try assumption. discriminate.
Qed.

Lemma attempts_saturate base max now st d st' :
  attempts st <= U32MAX -> on_failure base max now st = Done (d, st') ->
  attempts st' <= U32MAX /\ attempts st <= attempts st' /\
  (attempts st < U32MAX -> attempts st' = attempts st + 1).
Proof.
  intros Ha H. apply on_failure_done in H as (_ & -> & _).
  pose proof (u32_sat_add_1 _ Ha). tauto.
Qed.

Lemma success_resets base max now st :
  on_success st = rstate_default /\
  (base <= DUR_MAX ->
   forall d st', on_failure base max now (on_success st) = Done (d, st') ->
     d = (if 0 <? max then N.min base max else base) /\ attempts st' = 1).
Proof.
  split; [reflexivity|]. intros Hb d st' H. apply on_failure_done in H as (-> & -> & _).
  cbn [on_success attempts]. rewrite delay0 by assumption. split; reflexivity.
Qed.

(* Instant arithmetic: no panic while the sum of seconds stays below i64::MAX *)
Lemma instant_add_ok now d : snd now < NS -> fst now + d / NS < I64MAX ->
  exists t, instant_add now d = Some t /\ snd t < NS /\
            fst t * NS + snd t = fst now * NS + snd now + d.
Proof.
  destruct now as [s ns]. cbn [fst snd]. intros Hn Hs. unfold instant_add.
  assert (Hd : d = NS * (d / NS) + d mod NS) by (apply N.div_mod; unfold NS; lia).
  assert (Hm : d mod NS < NS) by (apply N.mod_lt; unfold NS; lia).
  generalize dependent (d / NS). generalize dependent (d mod NS). intros r Hr q Hq Hd.
  replace (I64MAX <? s + q) with false by lia.
  destruct (NS <=? ns + r) eqn:E.
  - replace (I64MAX <? s + q + 1) with false by lia. eexists. split; [reflexivity|].
    cbn [fst snd]. unfold NS in *. lia.
  - eexists. split; [reflexivity|]. cbn [fst snd]. unfold NS in *. lia.
Qed.

Lemma on_failure_no_panic base max now st :
  snd now < NS -> fst now + delay base max (attempts st) / NS < I64MAX ->
  exists st', on_failure base max now st = Done (delay base max (attempts st), st').
Proof.
  intros Hn Hs. unfold on_failure.
  destruct (instant_add_ok now _ Hn Hs) as (t & -> & _). eexists. reflexivity.
Qed.

(* Every interval that can come out of the option parser (i32 milliseconds) is far from the panic:
   base <= (2^31-1) ms, so delay <= base * 2^31 < 2^62 * 10^6 ns, i.e. < 4.7 * 10^15 s. *)
Definition OPT_MAX_NS : N := 2147483647 * 1000000.
Lemma on_failure_no_panic_option_range base max now st :
  base <= OPT_MAX_NS -> snd now < NS -> fst now < 4611686018427387904 (* 2^62 s of uptime *) ->
  exists st', on_failure base max now st = Done (delay base max (attempts st), st').
Proof.
  intros Hb Hn Hs. apply on_failure_no_panic; [assumption|].
  assert (Hd : delay base max (attempts st) <= base * 2147483648).
  { rewrite delay_unfold. unfold capped.
    assert (2 ^ N.min (attempts st) 31 <= 2147483648) by (apply pow2_le_31; lia).
    assert (base * 2 ^ N.min (attempts st) 31 <= base * 2147483648) by nia.
    destruct (0 <? max); lia. }
  assert (delay base max (attempts st) / NS <= base * 2147483648 / NS) by (apply N.div_le_mono; unfold NS; lia).
  assert (base * 2147483648 / NS <= OPT_MAX_NS * 2147483648 / NS).
  { apply N.div_le_mono; [unfold NS; lia|]. nia. }
  change (OPT_MAX_NS * 2147483648 / NS) with 4611686016279904 in *. unfold I64MAX. lia.
Qed.

(* ---------- sequences of failures / successes ---------- *)

(* attempts counter reached after k failures from a *)
Fixpoint att_after (k : nat) (a : N) : N :=
  match k with O => a | S k' => att_after k' (u32_sat_add a 1) end.

Lemma att_after_small k a : a + N.of_nat k <= U32MAX -> att_after k a = a + N.of_nat k.
Proof.
  revert a. induction k as [|k IH]; intros a H; cbn [att_after]; [lia|].
  unfold u32_sat_add. replace (N.min (a + 1) U32MAX) with (a + 1) by lia. rewrite IH; lia.
Qed.

(* n consecutive failures starting from `st`: the delays are delay(att), delay(att+1), ... *)
Fixpoint fail_delays (base max : N) (k : nat) (a : N) : list N :=
  match k with O => [] | S k' => delay base max a :: fail_delays base max k' (u32_sat_add a 1) end.

Lemma run_fail_seq base max now k : forall st ds st',
  run_ops base max now st (repeat OpFail k) = Done (ds, st') ->
  ds = fail_delays base max k (attempts st) /\ attempts st' = att_after k (attempts st).
Proof.
  induction k as [|k IH]; intros st ds st' H; cbn [repeat run_ops] in H.
  - injection H as <- <-. split; reflexivity.
  - destruct (on_failure base max now st) as [[d st1]|] eqn:E1; [|discriminate].
    destruct (run_ops base max now st1 (repeat OpFail k)) as [[ds1 st2]|] eqn:E2; [|discriminate].
    injection H as <- <-. apply on_failure_done in E1 as (-> & Ha & _).
    apply IH in E2 as (-> & ->). rewrite Ha. split; reflexivity.
Qed.

(* adjacent-pairs predicate *)
Fixpoint chain (R : N -> N -> Prop) (l : list N) : Prop :=
  match l with
  | a :: ((b :: _) as t) => R a b /\ chain R t
  | _ => True
  end.

Lemma delay_monotone_sat base max a : delay base max a <= delay base max (u32_sat_add a 1).
Proof.
  unfold u32_sat_add. rewrite !delay_unfold. apply capped_mono.
  assert (2 ^ N.min a 31 <= 2 ^ N.min (N.min (a + 1) U32MAX) 31)
    by (apply N.pow_le_mono_r; unfold U32MAX; lia).
  assert (base * 2 ^ N.min a 31 <= base * 2 ^ N.min (N.min (a + 1) U32MAX) 31) by nia. lia.
Qed.

Lemma fail_delays_chain base max k a :
  chain (fun x y => x <= y /\ y <= 2 * x) (fail_delays base max k a).
Proof.
  revert a. induction k as [|k IH]; intros a; cbn [fail_delays chain]; [exact I|].
  specialize (IH (u32_sat_add a 1)). destruct k as [|k]; cbn [fail_delays] in *; [exact I|].
  split; [|exact IH]. split.
  - apply delay_monotone_sat.
  - apply delay_next_le_double_sat.
Qed.

Lemma fail_delays_bounds base max k a : base <= DUR_MAX ->
  Forall (fun d => (if 0 <? max then N.min base max else base) <= d /\ d <= DUR_MAX /\ (0 < max -> d <= max))
         (fail_delays base max k a).
Proof.
  intros Hb. revert a. induction k as [|k IH]; intros a; cbn [fail_delays]; constructor; [|apply IH].
  split; [apply delay_ge_base_or_max, Hb|]. split; [apply delay_le_durmax|]. apply delay_le_max.
Qed.

(* general op sequences: every delay handed out is within [first delay, max]; the counter equals
   the number of failures since the last success (saturating) *)
Fixpoint count_att (a : N) (ops : list rop) : N :=
  match ops with
  | [] => a
  | OpFail :: r => count_att (u32_sat_add a 1) r
  | OpSucc :: r => count_att 0 r
  end.

Lemma run_ops_bounds base max now ops : base <= DUR_MAX -> forall st ds st',
  run_ops base max now st ops = Done (ds, st') ->
  Forall (fun d => (if 0 <? max then N.min base max else base) <= d /\ d <= DUR_MAX /\ (0 < max -> d <= max)) ds
  /\ attempts st' = count_att (attempts st) ops.
Proof.
  intros Hb. induction ops as [|o r IH]; intros st ds st' H; cbn [run_ops] in H.
  - injection H as <- <-. split; [constructor|reflexivity].
  - destruct o.
    + destruct (on_failure base max now st) as [[d st1]|] eqn:E1; [|discriminate].
      destruct (run_ops base max now st1 r) as [[ds1 st2]|] eqn:E2; [|discriminate].
      injection H as <- <-. apply on_failure_done in E1 as (-> & Ha & _).
      apply IH in E2 as (HF & ->). cbn [count_att]. rewrite Ha. split; [|reflexivity].
      constructor; [|exact HF].
      split; [apply delay_ge_base_or_max, Hb|]. split; [apply delay_le_durmax|]. apply delay_le_max.
    + apply IH in H as (HF & ->). split; [exact HF|reflexivity].
Qed.

(* a success anywhere in the history makes the next failure start again from the first delay *)
Lemma run_ops_after_success base max now pre : base <= DUR_MAX -> forall st ds st',
  run_ops base max now st (pre ++ [OpSucc; OpFail]) = Done (ds, st') ->
  exists ds0, ds = ds0 ++ [if 0 <? max then N.min base max else base] /\ attempts st' = 1.
Proof.
  intros Hb. induction pre as [|o r IH]; intros st ds st' H.
  - cbn [app run_ops] in H.
    destruct (on_failure base max now (on_success st)) as [[d st1]|] eqn:E1; [|discriminate].
    injection H as <- <-. destruct (success_resets base max now st) as [_ Hs].
    destruct (Hs Hb _ _ E1) as (-> & Ha). exists []. split; [reflexivity|exact Ha].
  - cbn [app run_ops] in H. fold (@app rop) in H. destruct o.
    + destruct (on_failure base max now st) as [[d st1]|] eqn:E1; [|discriminate].
      destruct (run_ops base max now st1 (r ++ [OpSucc; OpFail])) as [[ds1 st2]|] eqn:E2; [|discriminate].
      injection H as <- <-. apply IH in E2 as (ds0 & -> & Ha). exists (d :: ds0). split; [reflexivity|exact Ha].
    + apply IH in H. exact H.
Qed.

(* there ARE (non-option-reachable) inputs on which `Instant::now() + delay` panics *)
Lemma on_failure_panics_extreme :
  on_failure DUR_MAX 0 (1000, 0) rstate_default = Panic.
Proof. vm_compute. reflexivity. Qed.

(* ---------- TcpConnecter's own loop ---------- *)

Lemma conn_next_spec base cur m : 0 < cur -> 0 < m -> cur * 2 <= DUR_MAX ->
  conn_next base cur (Some m) = Some (N.min (cur * 2) m).
Proof.
  intros Hc Hm Hd. unfold conn_next, dur_mul2.
  replace (0 <? cur) with true by lia. replace (0 <? m) with true by lia. cbn [andb].
  replace (DUR_MAX <? cur * 2) with false by lia. reflexivity.
Qed.

Lemma conn_next_bounds base cur m c' : 0 < cur -> 0 < m -> cur * 2 <= DUR_MAX ->
  conn_next base cur (Some m) = Some c' -> c' <= m /\ c' <= 2 * cur /\ (cur <= m -> cur <= c').
Proof. intros Hc Hm Hd H. rewrite conn_next_spec in H by assumption. injection H as <-. lia. Qed.

(* RECONNECT_IVL_MAX = 0 (the default): the connecter retries at the constant interval *)
Lemma conn_next_nomax base cur : conn_next base cur (Some 0) = Some cur.
Proof. unfold conn_next. change (0 <? 0) with false. rewrite andb_false_r. reflexivity. Qed.

Lemma conn_ff_bounds k : forall cur m r, 0 < m -> m * 2 <= DUR_MAX -> cur <= m ->
  conn_ff k cur m = Some r -> cur <= r /\ r <= m.
Proof.
  induction k as [|k IH]; intros cur m r Hm Hd Hc H; cbn [conn_ff] in H.
  - injection H as <-. lia.
  - unfold dur_mul2 in H. replace (DUR_MAX <? cur * 2) with false in H by lia.
    apply IH in H; lia.
Qed.

Lemma conn_ff_total k : forall cur m, 0 < m -> m * 2 <= DUR_MAX -> cur <= m ->
  exists r, conn_ff k cur m = Some r.
Proof.
  induction k as [|k IH]; intros cur m Hm Hd Hc; cbn [conn_ff]; [eexists; reflexivity|].
  unfold dur_mul2. replace (DUR_MAX <? cur * 2) with false by lia. apply IH; lia.
Qed.

Lemma conn_initial_le_max base m ia r : 0 < base -> base <= m -> m * 2 <= DUR_MAX ->
  conn_initial base (Some m) ia = Some r -> base <= r /\ r <= m.
Proof.
  intros Hb Hm Hd H. unfold conn_initial in H.
  replace (0 <? base) with true in H by lia. replace (0 <? m) with true in H by lia.
  apply conn_ff_bounds in H; lia.
Qed.

(* when RECONNECT_IVL > RECONNECT_IVL_MAX > 0 the connecter's first wait is RECONNECT_IVL, above the cap
   (libzmq documents that a max smaller than the interval is ignored) *)
Lemma conn_first_wait_exceeds_max_refuted :
  exists base m, 0 < m /\ m < base /\ conn_initial base (Some m) 0 = Some base.
Proof. exists 200, 100. repeat split; reflexivity. Qed.
