(* Lemmas about Model/RouterGate.v: nothing is delivered before its pipe is finalized, every delivery is
   labelled with the identity in force for the pipe (never a placeholder for a peer that announced one),
   per-pipe FIFO for schedules without a finalization inside the check/pop window, and the schedule that
   breaks FIFO inside that window. *)
From RZ Require Import Base.Prelude Model.RouterMap Model.RouterGate Proofs.RouterMapProofs.
Local Open Scope N_scope.
Local Arguments aset : simpl never.
Local Arguments aremove : simpl never.
Local Arguments aget : simpl never.
Local Arguments eff_id : simpl never.

Section GateFacts.
  Variable B : Type.
  Variable placeholder : pipe -> ident.
  Notation gate := (gate B).
  Notation gstep := (gstep B placeholder).
  Notation grun_from := (grun_from B placeholder).
  Notation label := (label B placeholder).

  (* ---------------------------------------------------------------- list facts *)
  Lemma of_pipe_app {A} p (l1 l2 : list (pipe * A)) : of_pipe p (l1 ++ l2) = of_pipe p l1 ++ of_pipe p l2.
  Proof. unfold of_pipe. rewrite filter_app, map_app. reflexivity. Qed.
  Lemma of_pipe_single {A} p q (b : A) : of_pipe p [(q, b)] = if q =? p then [b] else [].
  Proof. unfold of_pipe. simpl. destruct (q =? p); reflexivity. Qed.
  Lemma of_pipe_drop_other {A} p q (l : list (pipe * A)) : p <> q -> of_pipe p (drop_pipe q l) = of_pipe p l.
  Proof.
    intros N. unfold of_pipe, drop_pipe. induction l as [|[r b] t IH]; simpl; [reflexivity|].
    destruct (N.eqb_spec r q); simpl.
    - subst r. replace (q =? p) with false by (symmetry; apply N.eqb_neq; congruence). exact IH.
    - destruct (r =? p); simpl; rewrite IH; reflexivity.
  Qed.
  Lemma take_first_some {A} p (l l' : list (pipe * A)) b :
    take_first p l = (Some b, l') ->
    of_pipe p l = b :: of_pipe p l' /\ forall q, q <> p -> of_pipe q l = of_pipe q l'.
  Proof.
    revert l'. induction l as [|[r c] t IH]; intros l'; simpl; [discriminate|].
    destruct (N.eqb_spec r p).
    - subst r. intros [= <- <-]. split.
      + unfold of_pipe. simpl. rewrite N.eqb_refl. reflexivity.
      + intros q N. unfold of_pipe. simpl. replace (p =? q) with false by (symmetry; apply N.eqb_neq; congruence). reflexivity.
    - destruct (take_first p t) as [r' t'] eqn:E. intros [= -> <-]. destruct (IH t' eq_refl) as [I1 I2]. split.
      + unfold of_pipe in *. simpl. replace (r =? p) with false by (symmetry; apply N.eqb_neq; assumption). exact I1.
      + intros q N. specialize (I2 q N). unfold of_pipe in *. simpl. destruct (r =? q); simpl; rewrite I2; reflexivity.
  Qed.
  Lemma take_first_none {A} p (l l' : list (pipe * A)) : take_first p l = (None, l') -> of_pipe p l = [].
  Proof.
    revert l'. induction l as [|[r c] t IH]; intros l'; simpl; [reflexivity|].
    destruct (N.eqb_spec r p); [discriminate|]. destruct (take_first p t) as [r' t'] eqn:E. intros [= -> <-].
    unfold of_pipe in *. simpl. replace (r =? p) with false by (symmetry; apply N.eqb_neq; assumption). exact (IH t' eq_refl).
  Qed.
  Lemma of_pipe_nil_notin {A} p (l : list (pipe * A)) : of_pipe p l = [] -> ~ In p (map fst l).
  Proof.
    unfold of_pipe. induction l as [|[r c] t IH]; simpl; [tauto|].
    destruct (N.eqb_spec r p); simpl; [discriminate|]. intros H [C|C]; [contradiction|exact (IH H C)].
  Qed.

  (* ---------------------------------------------------------------- one step appends at most one labelled record *)
  Lemma gstep_out g e :
    g_out (gstep g e) = g_out g \/
    exists p b, g_out (gstep g e) = g_out g ++ [(p, label p g, b)] /\ is_final B p g = true.
  Proof.
    destruct e as [p ido inproc|p ido known|p|p b|first|p]; simpl; try (left; reflexivity).
    - destruct (releasable B g) as [|q rl] eqn:R; [left; reflexivity|].
      set (target := if existsb (N.eqb first) (q :: rl) then first else q).
      assert (In target (releasable B g)) as IT.
      { rewrite R. unfold target. destruct (existsb (N.eqb first) (q :: rl)) eqn:E; [|left; reflexivity].
        apply existsb_exists in E. destruct E as [x [I E]]. apply N.eqb_eq in E. subst. exact I. }
      destruct (take_first target (g_held g)) as [[b|] held'] eqn:T; [|left; reflexivity].
      right. exists target, b. split; [reflexivity|]. unfold releasable in IT. apply filter_In in IT. tauto.
    - destruct (g_window g); [|left; reflexivity].
      destruct (take_first p (g_queue g)) as [[b|] q'] eqn:T; [|left; reflexivity].
      destruct (is_final B p g) eqn:F; [|left; reflexivity]. right. exists p, b. auto.
  Qed.

  (* ---------------------------------------------------------------- never a placeholder for a peer that announced *)
  Definition labelled_with (p : pipe) (id : ident) (g : gate) : Prop :=
    (is_final B p g = true -> aget N.eqb p (g_shared g) = Some id) /\
    (forall q lbl b, In (q, lbl, b) (g_out g) -> q = p -> lbl = id).

  Lemma is_final_cons p q fin : existsb (N.eqb p) (q :: fin) = (p =? q) || existsb (N.eqb p) fin.
  Proof. reflexivity. Qed.
  Lemma is_final_filter p q fin :
    existsb (N.eqb p) (filter (fun r => negb (r =? q)) fin) = negb (p =? q) && existsb (N.eqb p) fin.
  Proof.
    induction fin as [|r t IH]; simpl; [rewrite andb_false_r; reflexivity|].
    destruct (N.eqb_spec r q); simpl.
    - subst r. rewrite IH. destruct (N.eqb_spec p q); simpl; reflexivity.
    - rewrite IH. destruct (N.eqb_spec p r); simpl; [|reflexivity]. subst r.
      replace (p =? q) with false by (symmetry; apply N.eqb_neq; assumption). reflexivity.
  Qed.

  Lemma labelled_step p id g e :
    labelled_with p id g ->
    handshaking_pipe B placeholder p id g [e] = true ->
    labelled_with p id (gstep g e).
  Proof.
    intros [L1 L2] W. simpl in W. rewrite andb_true_r in W.
    assert (forall g', g_out g' = g_out g -> (forall q lbl b, In (q, lbl, b) (g_out g') -> q = p -> lbl = id)) as KeepOut.
    { intros g' E q lbl b I. rewrite E in I. exact (L2 q lbl b I). }
    split.
    - (* finalized => shared identity is id *)
      destruct e as [q ido inproc|q ido known|q|q b|first|q]; simpl.
      + destruct (N.eqb_spec q p).
        * subst q. cbn [negb orb] in W. apply orb_true_iff in W. destruct W as [W|W].
          { apply ident_eqb_eq in W. intros _. rewrite rget_set_eq. congruence. }
          apply andb_true_iff in W. destruct W as [W1 W3]. apply andb_true_iff in W1. destruct W1 as [W1 W2].
          apply negb_true_iff in W1, W2. subst inproc.
          assert ((match ido with Some (_ :: _) => true | _ => false end) = false) as R.
          { destruct ido as [[|x r]|]; simpl in *; congruence. }
          rewrite R. simpl. unfold is_final. simpl. unfold is_final in W1. rewrite W1. discriminate.
        * unfold is_final. simpl. rewrite (rget_set_neq p q) by congruence.
          destruct (_ || inproc); simpl; [|exact L1].
          replace (p =? q) with false by (symmetry; apply N.eqb_neq; congruence). exact L1.
      + destruct (N.eqb_spec q p).
        * subst q. simpl in W. apply andb_true_iff in W. destruct W as [W1 W2]. subst known.
          apply ident_eqb_eq in W2. intros _. rewrite rget_set_eq. congruence.
        * unfold is_final. simpl. replace (p =? q) with false by (symmetry; apply N.eqb_neq; congruence). simpl.
          intros F. destruct known; [rewrite (rget_set_neq p q) by congruence|]; exact (L1 F).
      + unfold is_final. simpl. rewrite is_final_filter. destruct (N.eqb_spec p q); simpl; [discriminate|].
        rewrite (rget_rm_neq p q) by assumption. exact L1.
      + exact L1.
      + destruct (releasable B g) as [|r rl]; [exact L1|].
        destruct (take_first _ (g_held g)) as [[b|] held']; exact L1.
      + destruct (g_window g); [|exact L1]. destruct (take_first q (g_queue g)) as [[b|] q']; [|exact L1].
        destruct (is_final B q g); exact L1.
    - (* every record of p carries id *)
      destruct (gstep_out g e) as [E|(q & b & E & F)].
      + apply KeepOut. exact E.
      + intros r lbl c I R. rewrite E in I. apply in_app_or in I. destruct I as [I|[I|[]]]; [exact (L2 _ _ _ I R)|].
        inversion I; subst. unfold label. rewrite (L1 F). reflexivity.
  Qed.

  Lemma handshaking_cons p id g e t :
    handshaking_pipe B placeholder p id g (e :: t) =
    handshaking_pipe B placeholder p id g [e] && handshaking_pipe B placeholder p id (gstep g e) t.
  Proof. simpl. rewrite andb_true_r. reflexivity. Qed.

  Lemma labelled_run p id g h :
    labelled_with p id g -> handshaking_pipe B placeholder p id g h = true -> labelled_with p id (grun_from g h).
  Proof.
    revert g. induction h as [|e t IH]; intros g L W; [exact L|].
    rewrite handshaking_cons in W. apply andb_true_iff in W. destruct W as [W1 W2].
    simpl. apply IH; [apply labelled_step; assumption|exact W2].
  Qed.

  Theorem gate_labelled_holds p id h :
    handshaking_pipe B placeholder p id (gate0 B) h = true ->
    forall lbl b, In (p, lbl, b) (g_out (grun B placeholder h)) -> lbl = id.
  Proof.
    intros W lbl b I. assert (labelled_with p id (gate0 B)) as L0.
    { split; [unfold is_final; simpl; discriminate|intros ? ? ? []]. }
    destruct (labelled_run p id _ h L0 W) as [_ L2]. exact (L2 _ _ _ I eq_refl).
  Qed.

  (* ---------------------------------------------------------------- never before finalization *)
  (* every record in the output was appended by a step taken in a state where its pipe was finalized *)
  Theorem gate_not_before_final g e p lbl b :
    ~ In (p, lbl, b) (g_out g) -> In (p, lbl, b) (g_out (gstep g e)) ->
    is_final B p g = true /\ lbl = label p g.
  Proof.
    intros NI I. destruct (gstep_out g e) as [E|(q & c & E & F)]; rewrite E in I; [contradiction|].
    apply in_app_or in I. destruct I as [I|[I|[]]]; [contradiction|]. inversion I; subst. auto.
  Qed.

  (* ---------------------------------------------------------------- per-pipe FIFO *)
  Definition fifo_inv (p : pipe) (arr : list B) (g : gate) : Prop :=
    arr = delivered B p g ++ of_pipe p (g_held g) ++ of_pipe p (g_queue g) /\
    (g_window g = true -> forall q, is_final B q g = true -> of_pipe q (g_held g) = []).

  Lemma delivered_app p g g' q lbl b :
    g_out g' = g_out g ++ [(q, lbl, b)] ->
    delivered B p g' = delivered B p g ++ (if q =? p then [b] else []).
  Proof. intros E. unfold delivered. rewrite E, filter_app, map_app. simpl. destruct (q =? p); reflexivity. Qed.
  Lemma delivered_same p g g' : g_out g' = g_out g -> delivered B p g' = delivered B p g.
  Proof. intros E. unfold delivered. rewrite E. reflexivity. Qed.

  Lemma releasable_nil g : releasable B g = [] -> forall q, is_final B q g = true -> of_pipe q (g_held g) = [].
  Proof.
    intros R q F. unfold releasable in R. destruct (of_pipe q (g_held g)) as [|b t] eqn:E; [reflexivity|].
    assert (In q (map fst (g_held g))) as I.
    { unfold of_pipe in E. clear R. induction (g_held g) as [|[r c] l IH]; simpl in *; [discriminate|].
      destruct (N.eqb_spec r q); [left; assumption|right; apply IH; exact E]. }
    assert (In q (filter (fun p0 => is_final B p0 g) (map fst (g_held g)))) as I2 by (apply filter_In; auto).
    rewrite R in I2. destruct I2.
  Qed.

  Lemma fifo_step p arr g e :
    fifo_inv p arr g ->
    (match e with GDetach q => q <> p | _ => True end) ->
    (match e with GAttach _ _ _ | GAnnounce _ _ _ => g_window g = false | _ => True end) ->
    fifo_inv p (arr ++ arrivals B p [e]) (gstep g e).
  Proof.
    intros [I1 I2] ND NW.
    destruct e as [q ido inproc|q ido known|q|q b|first|q]; simpl arrivals; try rewrite app_nil_r.
    - split; [exact I1|]. simpl. rewrite NW. discriminate.
    - split; [exact I1|]. simpl. rewrite NW. discriminate.
    - split.
      + simpl. unfold delivered. simpl. rewrite !of_pipe_drop_other by congruence. exact I1.
      + simpl. intros W r F. unfold is_final in F. simpl in F. rewrite is_final_filter in F.
        apply andb_true_iff in F. destruct F as [F1 F2]. apply negb_true_iff in F1. apply N.eqb_neq in F1.
        rewrite of_pipe_drop_other by assumption. exact (I2 W r F2).
    - split.
      + simpl. unfold delivered. simpl. rewrite of_pipe_app, of_pipe_single, I1, <- !app_assoc.
        destruct (q =? p); simpl; rewrite ?app_nil_r; reflexivity.
      + exact I2.
    - simpl. destruct (releasable B g) as [|r rl] eqn:R.
      + split; [exact I1|]. intros _. apply releasable_nil. exact R.
      + set (target := if existsb (N.eqb first) (r :: rl) then first else r).
        destruct (take_first target (g_held g)) as [[b|] held'] eqn:T.
        * split; [|discriminate]. simpl. destruct (take_first_some _ _ _ _ T) as [T1 T2].
          rewrite (delivered_app p g {| g_shared := g_shared g; g_final := g_final g; g_held := held'; g_queue := g_queue g; g_window := false; g_out := g_out g ++ [(target, label target g, b)] |} target (label target g) b eq_refl). cbn [g_held g_queue].
          destruct (N.eqb_spec target p).
          -- subst p. rewrite I1, T1, <- !app_assoc. reflexivity.
          -- rewrite app_nil_r, I1, (T2 p) by congruence. reflexivity.
        * split; [exact I1|discriminate].
    - simpl. destruct (g_window g) eqn:W; [|split; [exact I1|rewrite W; discriminate]].
      destruct (take_first q (g_queue g)) as [[b|] queue'] eqn:T; [|split; [exact I1|intros _; exact (I2 eq_refl)]].
      destruct (take_first_some _ _ _ _ T) as [T1 T2].
      destruct (is_final B q g) eqn:F.
      + split; [|discriminate]. simpl. rewrite (delivered_app p g {| g_shared := g_shared g; g_final := g_final g; g_held := g_held g; g_queue := queue'; g_window := false; g_out := g_out g ++ [(q, label q g, b)] |} q (label q g) b eq_refl). cbn [g_held g_queue].
        destruct (N.eqb_spec q p).
        * subst q. rewrite I1, T1, (I2 eq_refl p F), <- !app_assoc. reflexivity.
        * rewrite app_nil_r, I1, (T2 p) by congruence. reflexivity.
      + split; [|discriminate]. simpl. unfold delivered. simpl. rewrite of_pipe_app, of_pipe_single.
        destruct (N.eqb_spec q p).
        * subst q. rewrite I1, T1, <- !app_assoc. reflexivity.
        * rewrite app_nil_r, I1, (T2 p) by congruence. reflexivity.
  Qed.

  Lemma arrivals_cons p e t : arrivals B p (e :: t) = arrivals B p [e] ++ arrivals B p t.
  Proof. unfold arrivals. simpl. rewrite app_nil_r. reflexivity. Qed.

  Lemma fifo_run p arr g h :
    fifo_inv p arr g -> detach_free B p h = true -> no_final_in_window B placeholder g h = true ->
    fifo_inv p (arr ++ arrivals B p h) (grun_from g h).
  Proof.
    revert arr g. induction h as [|e t IH]; intros arr g I D W.
    - simpl. rewrite app_nil_r. exact I.
    - simpl in D, W. apply andb_true_iff in D, W. destruct D as [D1 D2], W as [W1 W2].
      rewrite arrivals_cons, app_assoc. simpl grun_from. apply IH; [|exact D2|exact W2].
      apply fifo_step; [exact I| |].
      + destruct e; auto. apply negb_true_iff in D1. apply N.eqb_neq in D1. exact D1.
      + destruct e; auto; apply negb_true_iff in W1; exact W1.
  Qed.

  Theorem gate_fifo_holds p h :
    detach_free B p h = true -> no_final_in_window B placeholder (gate0 B) h = true ->
    let g := grun B placeholder h in
    arrivals B p h = delivered B p g ++ of_pipe p (g_held g) ++ of_pipe p (g_queue g).
  Proof.
    intros D W g. assert (fifo_inv p [] (gate0 B)) as I0 by (split; [reflexivity|discriminate]).
    destruct (fifo_run p [] _ h I0 D W) as [I _]. exact I.
  Qed.
End GateFacts.

(* a finalization landing between the failed take_finalized_held and the pop lets the second message of a
   pipe overtake the first (which is still held) *)
Definition wit_gate_reorder : list (gev N) :=
  [GAttach 1 None false; GArrive 1 10; GCheck 0; GPop 1;      (* first message held: pipe pending *)
   GArrive 1 20; GCheck 0;                                        (* nothing releasable: recv goes on to pop *)
   GAnnounce 1 (Some [65]) true;                                    (* identity event lands here *)
   GPop 1;                                                          (* second message delivered first *)
   GCheck 1].                                                       (* next recv: the held first message *)
Lemma gate_fifo_window_refuted :
  exists h p, detach_free N p h = true /\
              arrivals N p h = [10; 20] /\
              delivered N p (grun N placeholder_id h) = [20; 10] /\
              forall lbl b, In (p, lbl, b) (g_out (grun N placeholder_id h)) -> lbl = [65].
Proof.
  exists wit_gate_reorder, 1. split; [reflexivity|]. split; [reflexivity|]. split; [reflexivity|].
  vm_compute. intros lbl b [H|[H|[]]]; inversion H; reflexivity.
Qed.
