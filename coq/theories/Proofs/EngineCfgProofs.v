(* Proofs about the engine configuration derived from the options (Model/EngineCfg.v). *)
From RZ Require Import Base.Prelude Model.Engine Model.Options Model.EngineCfg Proofs.OptionsProofs.
Local Open Scope N_scope.

(* ---------- the physical ceiling admits every batch the logical limits admit ---------- *)
Fixpoint longs (l : list N) : nat :=
  match l with [] => O | n :: r => ((if (n <? LONG_FROM)%N then O else 1%nat) + longs r)%nat end.

Lemma sum_framed l : sum (map framed l) = sum l + 2 * N.of_nat (length l) + 7 * N.of_nat (longs l).
Proof.
  induction l as [|n r IH]; [reflexivity|].
  cbn [map sum fold_right length longs]. fold (sum (map framed r)). fold (sum r). rewrite IH.
  unfold framed, LONG_FROM, SHORT_OVERHEAD, LONG_OVERHEAD. destruct (N.ltb_spec n 256); lia.
Qed.
Lemma longs_weight l : 256 * N.of_nat (longs l) <= sum l.
Proof.
  induction l as [|n r IH]; [cbn; lia|]. cbn [sum fold_right longs]. fold (sum r). unfold LONG_FROM.
  destruct (N.ltb_spec n 256); lia.
Qed.
Lemma longs_le_length l : (longs l <= length l)%nat.
Proof. induction l as [|n r IH]; cbn [longs length]; [lia|]. destruct (n <? LONG_FROM)%N; lia. Qed.
Lemma round_up_ge page x : 0 < page -> x <= round_up page x.
Proof. unfold round_up. intros H. nia. Qed.
Lemma round_up_multiple page x : 0 < page -> (round_up page x) mod page = 0.
Proof. unfold round_up. intros H. apply N.mod_mul. lia. Qed.

Theorem slot_holds_batch page target count (sizes : list N) :
  0 < page -> N.of_nat (length sizes) <= count -> sum sizes <= target ->
  sum (map framed sizes) <= slot_size page target count.
Proof.
  intros Hp Hl Hs. unfold slot_size. eapply N.le_trans; [|apply round_up_ge; exact Hp].
  rewrite sum_framed. unfold slot_raw, LONG_FROM, LONG_OVERHEAD, SHORT_OVERHEAD.
  pose proof (longs_weight sizes) as Hw. pose proof (longs_le_length sizes) as Hk.
  set (k := N.of_nat (longs sizes)) in *. set (n := N.of_nat (length sizes)) in *.
  assert (Hk' : k <= n) by (subst k n; lia).
  assert (Hkt : k <= target / 256) by (apply N.div_le_lower_bound; lia).
  destruct (N.min_spec count (target / 256)) as [[_ ->]|[_ ->]]; nia.
Qed.

(* ---------- security_enabled ---------- *)
Lemma security_enabled_iff o :
  security_enabled o = true <->
  o F_plain_options_enabled = VB true \/ o F_noise_xx_options_enabled = VB true \/ o F_curve_options_enabled = VB true.
Proof.
  unfold security_enabled, sec_fields, existsb, bool_of. split.
  - intros H. destruct (o F_plain_options_enabled) as [| |[]| |]; auto;
      destruct (o F_noise_xx_options_enabled) as [| |[]| |]; auto;
      destruct (o F_curve_options_enabled) as [| |[]| |]; auto; discriminate.
  - intros [-> | [-> | ->]]; cbn; rewrite ?orb_true_r; reflexivity.
Qed.

(* the option ids that configure PLAIN or CURVE *)
Definition mech_ids : list Z :=
  [PLAIN_SERVER; PLAIN_USERNAME; PLAIN_PASSWORD; CURVE_SERVER; CURVE_SECRET_KEY; CURVE_SERVER_KEY].

(* setting ANY PLAIN / CURVE option successfully switches the mechanism on *)
Theorem mech_option_enables_security o id b o' :
  In id mech_ids -> apply_opt o id b = inl o' -> security_enabled o' = true.
Proof.
  intros Hin H. pose proof (apply_with_inv apply_rules apply_unsupported o id b) as P.
  unfold apply_opt in H. rewrite H in P. destruct P as (r & v & Hr & _ & ->).
  apply security_enabled_iff.
  unfold mech_ids in Hin. cbn [In] in Hin.
  destruct Hin as [<-|[<-|[<-|[<-|[<-|[<-|[]]]]]]]; vm_compute in Hr; injection Hr as <-; cbn [r_also r_field fold_left];
    rewrite ?oset_same; auto.
Qed.
(* NOISE_XX is switched by its own flag: value 1 on, any other 4-byte value off *)
Theorem noise_flag_semantics o b :
  match apply_opt o NOISE_XX_ENABLED b with
  | inl o' => exists v, i32_of b = Some v /\ o' F_noise_xx_options_enabled = VB (v =? 1)%Z
                        /\ (forall g, g <> F_noise_xx_options_enabled -> o' g = o g)
  | inr e => e = EVal 0 /\ i32_of b = None
  end.
Proof.
  rule_of NOISE_XX_ENABLED (R NOISE_XX_ENABLED (KBool false) F_noise_xx_options_enabled []).
  destruct (i32_of b) as [v|]; cbv beta iota; [|auto]. exists v. split; [reflexivity|]. split.
  - now rewrite oset_same.
  - intros g Hg. now apply oset_other.
Qed.

(* no rule ever writes `false` into plain.enabled or curve.enabled: once PLAIN or CURVE is configured, no later
   set_option call - of any id, with any bytes - unconfigures it *)
Definition pc_enabled (o : opts) : bool := bool_of (o F_plain_options_enabled) || bool_of (o F_curve_options_enabled).
Lemma rules_never_clear_pc :
  forallb (fun r => negb (field_beq (r_field r) F_plain_options_enabled) && negb (field_beq (r_field r) F_curve_options_enabled))
          apply_rules = true.
Proof. vm_compute. reflexivity. Qed.
Lemma fold_also_keeps_true (l : list field) o g : o g = VB true ->
  fold_left (fun o' f => oset o' f (VB true)) l o g = VB true.
Proof.
  revert o. induction l as [|f l IH]; intros o H; cbn [fold_left]; [exact H|]. apply IH.
  unfold oset. destruct (field_beq g f); auto.
Qed.
Theorem pc_enabled_step o id b o' : apply_opt o id b = inl o' -> pc_enabled o = true -> pc_enabled o' = true.
Proof.
  intros H Hp. pose proof (apply_with_inv apply_rules apply_unsupported o id b) as P.
  unfold apply_opt in H. rewrite H in P. destruct P as (r & v & Hr & _ & ->).
  pose proof rules_never_clear_pc as A. rewrite forallb_forall in A.
  assert (Hin : In r apply_rules).
  { unfold find_rule in Hr. apply find_some in Hr. tauto. }
  specialize (A r Hin). apply andb_prop in A. destruct A as [A1 A2].
  apply negb_true_iff in A1, A2.
  assert (N1 : F_plain_options_enabled <> r_field r) by (intros E; rewrite <- E, field_beq_refl in A1; discriminate).
  assert (N2 : F_curve_options_enabled <> r_field r) by (intros E; rewrite <- E, field_beq_refl in A2; discriminate).
  unfold pc_enabled in *. apply orb_prop in Hp. apply orb_true_iff.
  destruct Hp as [Hp|Hp]; [left|right].
  - assert (E : o F_plain_options_enabled = VB true) by (destruct (o F_plain_options_enabled) as [| |[]| |]; cbn in Hp; congruence).
    rewrite fold_also_keeps_true; [reflexivity|]. now rewrite oset_other.
  - assert (E : o F_curve_options_enabled = VB true) by (destruct (o F_curve_options_enabled) as [| |[]| |]; cbn in Hp; congruence).
    rewrite fold_also_keeps_true; [reflexivity|]. now rewrite oset_other.
Qed.
Theorem pc_enabled_history ops : forall o, pc_enabled o = true -> pc_enabled (fst (apply_all o ops)) = true.
Proof.
  induction ops as [|[id b] r IH]; intros o H; [exact H|]. cbn [apply_all].
  destruct (apply_opt o id b) as [o'|e] eqn:E.
  - specialize (IH o' (pc_enabled_step o id b o' E H)). destruct (apply_all o' r). exact IH.
  - specialize (IH o H). destruct (apply_all o r). exact IH.
Qed.
Lemma pc_enabled_security o : pc_enabled o = true -> security_enabled o = true.
Proof.
  unfold pc_enabled, security_enabled, sec_fields, existsb. intros H. apply orb_prop in H.
  destruct H as [-> | ->]; rewrite ?orb_true_r; reflexivity.
Qed.
(* a history in which some PLAIN / CURVE option was set successfully ends with security_enabled, whatever follows *)
Theorem configured_mechanism_stays o pre id b o1 post :
  In id mech_ids -> apply_opt (fst (apply_all o pre)) id b = inl o1 ->
  security_enabled (fst (apply_all o1 post)) = true.
Proof.
  intros Hin H. apply pc_enabled_security, pc_enabled_history.
  pose proof (mech_option_enables_security _ id b o1 Hin H) as S.
  pose proof (apply_with_inv apply_rules apply_unsupported (fst (apply_all o pre)) id b) as P.
  unfold apply_opt in H. rewrite H in P. destruct P as (r & v & Hr & _ & ->).
  unfold mech_ids in Hin. cbn [In] in Hin. unfold pc_enabled.
  destruct Hin as [<-|[<-|[<-|[<-|[<-|[<-|[]]]]]]]; vm_compute in Hr; injection Hr as <-; cbn [r_also r_field fold_left];
    rewrite ?oset_same; cbn [bool_of orb]; rewrite ?orb_true_r; reflexivity.
Qed.

(* the copied configuration fields: what the engine reads IS the option's value *)
Theorem cfg_reads_options o :
  cfg_heartbeat_ivl o = heartbeat_ivl_of o /\ cfg_heartbeat_timeout o = heartbeat_timeout_of o
  /\ cfg_handshake_timeout o = handshake_ivl_of o /\ cfg_max_msg_size o = maxmsgsize_of o
  /\ cfg_allow_zmtp2 o = bool_of (o F_allow_zmtp2).
Proof. repeat split; reflexivity. Qed.
Theorem defaults_not_secured : security_enabled default_opts = false /\ cfg_allow_zmtp2 default_opts = true.
Proof. split; reflexivity. Qed.
