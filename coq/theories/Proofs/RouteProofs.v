(* Proofs about try_route_sync / route_message (Model/Route.v). *)
From RZ Require Import Base.Prelude Model.Balancer Model.Route Proofs.BalancerProofs.

Definition all_full (l : list att) : Prop := Forall (fun a => at_res a = Full) l.
Definition all_fast (l : list att) : Prop := Forall (fun a => at_slow a = false) l.

(* what a call did with the message, read off the log of send calls it made *)
Definition one_spec (r : rres) : Prop :=
  match r_out r with
  | Delivered p => exists pre tk, r_log r = pre ++ [mkAtt tk p false Accept] /\ all_full pre /\ all_fast pre
  | DeliveredSlow p => exists pre tk, r_log r = pre ++ [mkAtt tk p true Accept] /\ all_full pre /\ all_fast pre
  | Returned | WaitForPeer => all_full (r_log r)
  | ReturnedErr p | Dropped p => exists pre tk s, r_log r = pre ++ [mkAtt tk p s Closed] /\ all_full pre
  end.

(* every logged answer is the oracle's answer for that attempt number and peer; attempt numbers are consecutive *)
Fixpoint faithful (o : oracle) (t : nat) (log : list att) : Prop :=
  match log with
  | [] => True
  | a :: l => at_t a = t /\ at_res a = (if at_slow a then o_slow o else o_fast o) t (at_peer a) /\ faithful o (S t) l
  end.

Lemma faithful_app o l1 : forall t l2,
  faithful o t (l1 ++ l2) <-> faithful o t l1 /\ faithful o (t + length l1) l2.
Proof.
  induction l1 as [|a l1 IH]; intros t l2; simpl.
  - rewrite Nat.add_0_r. tauto.
  - rewrite IH. replace (S t + length l1) with (t + S (length l1)) by lia. tauto.
Qed.

Lemma all_full_snoc l a : all_full l -> at_res a = Full -> all_full (l ++ [a]).
Proof. intros H1 H2. apply Forall_app. split; [exact H1|]. constructor; [exact H2|constructor]. Qed.
Lemma all_fast_snoc l a : all_fast l -> at_slow a = false -> all_fast (l ++ [a]).
Proof. intros H1 H2. apply Forall_app. split; [exact H1|]. constructor; [exact H2|constructor]. Qed.

(* ---------- route_exactly_one: any count, any oracle, any interference ---------- *)
Lemma sync_loop_one o k : forall b t log, all_full log -> all_fast log ->
  one_spec (sync_loop o k b t log).
Proof.
  induction k as [|k IH]; intros b t log Hf Hs; simpl.
  - exact Hf.
  - destruct (get_next b) as [[p|] b']; [|exact Hf].
    destruct (o_fast o t p) eqn:E.
    + unfold one_spec. simpl. exists log, t. tauto.
    + apply IH; [apply all_full_snoc|apply all_fast_snoc]; auto.
    + unfold one_spec. simpl. exists log, t, false. tauto.
Qed.

Lemma msg_loop_one o w more : forall b t log, all_full log -> all_fast log ->
  one_spec (msg_loop o w more b t log).
Proof.
  induction more as [|more IH]; intros b t log Hf Hs; simpl.
  - destruct (get_next b) as [[p|] b']; [|destruct w; exact Hf].
    destruct (o_fast o t p) eqn:E.
    + unfold one_spec. simpl. exists log, t. tauto.
    + destruct (get_next (apply_mops (o_env o t) b')) as [[q|] b3].
      2:{ unfold one_spec. simpl. apply all_full_snoc; auto. }
      assert (Hf' : all_full (log ++ [mkAtt t p false Full])) by (apply all_full_snoc; auto).
      assert (Hs' : all_fast (log ++ [mkAtt t p false Full])) by (apply all_fast_snoc; auto).
      destruct (o_slow o (S t) q) eqn:E2; unfold one_spec; simpl.
      * eexists _, (S t). split; [reflexivity|]. tauto.
      * apply all_full_snoc; auto.
      * eexists _, (S t), true. split; [reflexivity|]. tauto.
    + unfold one_spec. simpl. exists log, t, false. tauto.
  - destruct (get_next b) as [[p|] b']; [|destruct w; exact Hf].
    destruct (o_fast o t p) eqn:E.
    + unfold one_spec. simpl. exists log, t. tauto.
    + apply IH; [apply all_full_snoc|apply all_fast_snoc]; auto.
    + unfold one_spec. simpl. exists log, t, false. tauto.
Qed.

Lemma nil_full : all_full []. Proof. constructor. Qed.
Lemma nil_fast : all_fast []. Proof. constructor. Qed.

Theorem try_route_sync_one cnt o b t : one_spec (try_route_sync_with cnt o b t).
Proof.
  unfold try_route_sync_with. destruct (cnt =? 0); [exact nil_full|].
  apply sync_loop_one; [exact nil_full|exact nil_fast].
Qed.

Theorem route_message_one cnt o w b t : one_spec (route_message_with cnt o w b t).
Proof. apply msg_loop_one; [exact nil_full|exact nil_fast]. Qed.

Lemma accepts_app l1 l2 : accepts (l1 ++ l2) = accepts l1 + accepts l2.
Proof. unfold accepts. rewrite filter_app, app_length. reflexivity. Qed.

Lemma all_full_accepts l : all_full l -> accepts l = 0.
Proof.
  unfold accepts. induction 1 as [|a l Ha _ IH]; [reflexivity|]. simpl. unfold is_accept at 1. rewrite Ha. exact IH.
Qed.

(* the number of peers whose send returned Ok(()) is 1 if the call reported success and 0 otherwise *)
Theorem one_spec_accepts r : one_spec r ->
  accepts (r_log r) = match r_out r with Delivered _ | DeliveredSlow _ => 1 | _ => 0 end.
Proof.
  unfold one_spec. destruct (r_out r).
  1,2: intros (pre & tk & -> & Hf & _); rewrite accepts_app, all_full_accepts by exact Hf; reflexivity.
  1,4: apply all_full_accepts.
  1,2: intros (pre & tk & s & -> & Hf); rewrite accepts_app, all_full_accepts by exact Hf; reflexivity.
Qed.

(* ---------- the log is the oracle's, attempt numbers are consecutive ---------- *)
Lemma sync_loop_faithful o k : forall b t t0 log, faithful o t0 log -> t = t0 + length log ->
  let r := sync_loop o k b t log in faithful o t0 (r_log r) /\ r_time r = t0 + length (r_log r).
Proof.
  induction k as [|k IH]; intros b t t0 log Hf Ht; simpl.
  - tauto.
  - destruct (get_next b) as [[p|] b']; [|simpl; tauto].
    assert (Hf' : faithful o t0 (log ++ [mkAtt t p false (o_fast o t p)])).
    { apply faithful_app. split; [exact Hf|]. simpl. subst t. tauto. }
    assert (Ht' : S t = t0 + length (log ++ [mkAtt t p false (o_fast o t p)])).
    { rewrite app_length. simpl. lia. }
    destruct (o_fast o t p) eqn:E; simpl; try tauto.
    apply IH; assumption.
Qed.

Lemma msg_loop_faithful o w more : forall b t t0 log, faithful o t0 log -> t = t0 + length log ->
  let r := msg_loop o w more b t log in faithful o t0 (r_log r) /\ r_time r = t0 + length (r_log r).
Proof.
  induction more as [|more IH]; intros b t t0 log Hf Ht; simpl;
    (destruct (get_next b) as [[p|] b']; [|simpl; tauto]);
    assert (Hf' : faithful o t0 (log ++ [mkAtt t p false (o_fast o t p)]))
      by (apply faithful_app; split; [exact Hf|]; simpl; subst t; tauto);
    assert (Ht' : S t = t0 + length (log ++ [mkAtt t p false (o_fast o t p)]))
      by (rewrite app_length; simpl; lia);
    destruct (o_fast o t p) eqn:E; simpl; try tauto.
  - destruct (get_next (apply_mops (o_env o t) b')) as [[q|] b3]; simpl; [|tauto].
    split.
    + apply faithful_app. split; [exact Hf'|]. simpl. rewrite <- Ht'. tauto.
    + rewrite app_length. simpl. lia.
  - apply IH; assumption.
Qed.

Theorem route_log_faithful cnt o w b t :
  let r1 := try_route_sync_with cnt o b t in
  let r2 := route_message_with cnt o w b t in
  faithful o t (r_log r1) /\ r_time r1 = t + length (r_log r1) /\
  faithful o t (r_log r2) /\ r_time r2 = t + length (r_log r2).
Proof.
  cbv zeta. unfold try_route_sync_with, route_message_with. split; [|split].
  - destruct (cnt =? 0); [exact I|]. apply (sync_loop_faithful o cnt b t t []); simpl; [exact I|lia].
  - destruct (cnt =? 0); [simpl; lia|]. apply (sync_loop_faithful o cnt b t t []); simpl; [exact I|lia].
  - apply (msg_loop_faithful o w _ b t t []); simpl; [exact I|lia].
Qed.

(* ---------- the blocking send happens only after max_attempts full answers ---------- *)
Lemma sync_loop_fast o k : forall b t log, all_fast log ->
  let r := sync_loop o k b t log in all_fast (r_log r) /\ length (r_log r) <= length log + k.
Proof.
  induction k as [|k IH]; intros b t log Hs; simpl.
  - split; [exact Hs|lia].
  - destruct (get_next b) as [[p|] b']; [|simpl; split; [exact Hs|lia]].
    assert (Hs' : all_fast (log ++ [mkAtt t p false (o_fast o t p)])) by (apply all_fast_snoc; auto).
    assert (Hl : length (log ++ [mkAtt t p false (o_fast o t p)]) = S (length log)) by (rewrite app_length; simpl; lia).
    destruct (o_fast o t p) eqn:E; simpl; try (split; [exact Hs'|lia]).
    destruct (IH b' (S t) _ Hs') as [H1 H2]. cbv zeta in H1, H2.
    split; [apply IH; exact Hs'|]. specialize (IH (apply_mops (o_env o t) b') (S t) _ Hs'). cbv zeta in IH. lia.
Qed.

Lemma msg_loop_slow o w more : forall b t log, all_fast log -> all_full log ->
  let r := msg_loop o w more b t log in
  (all_fast (r_log r) /\ length (r_log r) <= length log + more + 1) \/
  (exists pre a, r_log r = pre ++ [a] /\ at_slow a = true /\ all_fast pre /\ all_full pre /\
                 length pre = length log + more + 1).
Proof.
  induction more as [|more IH]; intros b t log Hs Hf; simpl;
    (destruct (get_next b) as [[p|] b']; [|left; simpl; split; [exact Hs|lia]]);
    assert (Hs' : all_fast (log ++ [mkAtt t p false (o_fast o t p)])) by (apply all_fast_snoc; auto);
    assert (Hl : length (log ++ [mkAtt t p false (o_fast o t p)]) = S (length log)) by (rewrite app_length; simpl; lia);
    destruct (o_fast o t p) eqn:E; simpl; try (left; split; [exact Hs'|lia]).
  - destruct (get_next (apply_mops (o_env o t) b')) as [[q|] b3]; simpl.
    + right. eexists _, _. split; [reflexivity|]. simpl. repeat split; auto.
      * apply all_full_snoc; auto.
      * lia.
    + left. split; [exact Hs'|lia].
  - assert (Hf' : all_full (log ++ [mkAtt t p false Full])) by (apply all_full_snoc; auto).
    destruct (IH (apply_mops (o_env o t) b') (S t) _ Hs' Hf') as [[H1 H2]|(pre & a & H1 & H2 & H3 & H4 & H5)].
    + left. split; [exact H1|lia].
    + right. exists pre, a. repeat split; auto. lia.
Qed.

Theorem slow_only_after_full_sweep cnt o w b t :
  let r := route_message_with cnt o w b t in
  (all_fast (r_log r) /\ length (r_log r) <= Nat.max cnt 1) \/
  (exists pre a, r_log r = pre ++ [a] /\ at_slow a = true /\ all_fast pre /\ all_full pre /\
                 length pre = Nat.max cnt 1).
Proof.
  cbv zeta. unfold route_message_with.
  destruct (msg_loop_slow o w (Nat.max cnt 1 - 1) b t [] nil_fast nil_full) as [[H1 H2]|(pre & a & H1 & H2 & H3 & H4 & H5)].
  - left. split; [exact H1|]. simpl in H2. lia.
  - right. exists pre, a. repeat split; auto. simpl in H5. lia.
Qed.

Theorem sync_never_blocks cnt o b t :
  let r := try_route_sync_with cnt o b t in all_fast (r_log r) /\ length (r_log r) <= cnt.
Proof.
  cbv zeta. unfold try_route_sync_with. destruct (cnt =? 0).
  - simpl. split; [exact nil_fast|lia].
  - apply (sync_loop_fast o cnt b t [] nil_fast).
Qed.

(* ---------- invariants are kept, whatever interferes ---------- *)
Lemma apply_mops_inv ops : forall b, inv b -> inv (apply_mops ops b).
Proof.
  induction ops as [|x ops IH]; intros b Hb; [exact Hb|]. simpl. apply IH.
  destruct x; [apply add_inv|apply remove_inv]; exact Hb.
Qed.
Lemma apply_mops_nodup ops : forall b, NoDup (peers b) -> NoDup (peers (apply_mops ops b)).
Proof.
  induction ops as [|x ops IH]; intros b Hb; [exact Hb|]. simpl. apply IH.
  destruct x; [apply add_nodup|apply remove_nodup]; exact Hb.
Qed.

Definition good (b : bal) : Prop := inv b /\ NoDup (peers b).

Lemma get_next_good b : good b -> good (snd (get_next b)).
Proof. intros [H1 H2]. split; [apply get_next_inv; exact H1|rewrite get_next_peers; exact H2]. Qed.
Lemma apply_mops_good ops b : good b -> good (apply_mops ops b).
Proof. intros [H1 H2]. split; [apply apply_mops_inv|apply apply_mops_nodup]; assumption. Qed.

Lemma sync_loop_good o k : forall b t log, good b -> good (r_bal (sync_loop o k b t log)).
Proof.
  induction k as [|k IH]; intros b t log Hb; simpl; [exact Hb|].
  pose proof (get_next_good b Hb) as Hg. destruct (get_next b) as [[p|] b']; simpl in Hg; [|exact Hg].
  pose proof (apply_mops_good (o_env o t) b' Hg).
  destruct (o_fast o t p); simpl; auto.
Qed.

Lemma msg_loop_good o w more : forall b t log, good b -> good (r_bal (msg_loop o w more b t log)).
Proof.
  induction more as [|more IH]; intros b t log Hb; simpl;
    pose proof (get_next_good b Hb) as Hg; (destruct (get_next b) as [[p|] b']; simpl in Hg; [|exact Hg]);
    pose proof (apply_mops_good (o_env o t) b' Hg) as Hg2;
    destruct (o_fast o t p); simpl; auto.
  pose proof (get_next_good _ Hg2) as Hg3.
  destruct (get_next (apply_mops (o_env o t) b')) as [[q|] b3]; simpl in *; [|exact Hg3].
  apply apply_mops_good. exact Hg3.
Qed.

Theorem route_keeps_invariants cnt o w b t : good b ->
  good (r_bal (try_route_sync_with cnt o b t)) /\ good (r_bal (route_message_with cnt o w b t)).
Proof.
  intros Hb. split.
  - unfold try_route_sync_with. destruct (cnt =? 0); [exact Hb|]. apply sync_loop_good. exact Hb.
  - apply msg_loop_good. exact Hb.
Qed.

(* ---------- sweeps without interference ---------- *)
Section NoEnv.
Variable o : oracle.
Hypothesis Henv : forall t, o_env o t = [].

(* the peers of l, asked in this order starting at attempt t, all answer Full *)
Fixpoint all_full_at (t : nat) (l : list N) : Prop :=
  match l with [] => True | q :: l' => o_fast o t q = Full /\ all_full_at (S t) l' end.
Fixpoint full_atts (t : nat) (l : list N) : list att :=
  match l with [] => [] | q :: l' => mkAtt t q false Full :: full_atts (S t) l' end.

Lemma full_atts_length t l : length (full_atts t l) = length l.
Proof. revert t. induction l; intros; simpl; auto. Qed.

Lemma picks_snd_step m b q b1 : get_next b = (Some q, b1) -> snd (picks (S m) b) = snd (picks m b1).
Proof. intros H. cbn [picks]. rewrite H. destruct (picks m b1). reflexivity. Qed.

Lemma sync_loop_prefix pre : forall post k b t log, inv b -> view b = pre ++ post ->
  all_full_at t pre -> length pre <= k ->
  sync_loop o k b t log =
  sync_loop o (k - length pre) (snd (picks (length pre) b)) (t + length pre) (log ++ full_atts t pre).
Proof.
  induction pre as [|q pre IH]; intros post k b t log Hi Hv Hf Hk.
  - simpl. rewrite Nat.sub_0_r, Nat.add_0_r, !app_nil_r. reflexivity.
  - simpl in Hk. destruct k as [|k]; [lia|]. simpl in Hf. destruct Hf as [Hq Hf].
    destruct (get_next_view b q (pre ++ post) Hi Hv) as (b1 & Hg & Hp1 & Hi1 & Hv1).
    rewrite <- app_assoc in Hv1. cbn [length]. rewrite (picks_snd_step _ _ _ _ Hg).
    cbn [sync_loop]. rewrite Hg, Hq, Henv. cbn [apply_mops fold_left].
    rewrite (IH (post ++ [q]) k b1 (S t) _ Hi1 Hv1 Hf) by lia.
    replace (S t + length pre) with (t + S (length pre)) by lia. rewrite <- !app_assoc. reflexivity.
Qed.

Lemma msg_loop_prefix w pre : forall post more b t log, inv b -> view b = pre ++ post ->
  all_full_at t pre -> length pre <= more ->
  msg_loop o w more b t log =
  msg_loop o w (more - length pre) (snd (picks (length pre) b)) (t + length pre) (log ++ full_atts t pre).
Proof.
  induction pre as [|q pre IH]; intros post more b t log Hi Hv Hf Hk.
  - simpl. rewrite Nat.sub_0_r, Nat.add_0_r, !app_nil_r. reflexivity.
  - simpl in Hk. destruct more as [|more]; [lia|]. simpl in Hf. destruct Hf as [Hq Hf].
    destruct (get_next_view b q (pre ++ post) Hi Hv) as (b1 & Hg & Hp1 & Hi1 & Hv1).
    rewrite <- app_assoc in Hv1. cbn [length]. rewrite (picks_snd_step _ _ _ _ Hg).
    cbn [msg_loop]. rewrite Hg, Hq, Henv. cbn [apply_mops fold_left].
    rewrite (IH (post ++ [q]) more b1 (S t) _ Hi1 Hv1 Hf) by lia.
    replace (S t + length pre) with (t + S (length pre)) by lia. rewrite <- !app_assoc. reflexivity.
Qed.

Lemma picks_prefix_state b pre post : inv b -> view b = pre ++ post ->
  let b' := snd (picks (length pre) b) in inv b' /\ peers b' = peers b /\ view b' = post ++ pre.
Proof.
  intros Hi Hv. destruct (picks_view (length pre) b Hi) as (b' & Hpk & Hp & Hi' & Hv').
  { rewrite Hv, app_length. lia. }
  cbv zeta. rewrite Hpk. simpl. repeat split; auto.
  rewrite Hv' , Hv. destruct (firstn_skipn_app (length pre) pre post eq_refl) as [-> ->]. reflexivity.
Qed.

Lemma count_view b : count b = length (view b).
Proof. unfold count, view. symmetry. apply rot_length. Qed.

(* what the peer q answers when its turn comes decides the call *)
Definition fast_outcome (sync : bool) (r : ready) (q : N) : outcome :=
  match r with Accept => Delivered q | Closed => if sync then ReturnedErr q else Dropped q | Full => Returned end.

(* route_skips_full, exact form: the sweep asks the peers in view order and stops at the first one
   that does not answer Full; outcome, log, attempt count and next cursor are determined *)
Theorem sweep_stops_at_first_nonfull w b t pre q post :
  inv b -> view b = pre ++ q :: post -> all_full_at t pre -> o_fast o (t + length pre) q <> Full ->
  let ans := o_fast o (t + length pre) q in
  let log := full_atts t pre ++ [mkAtt (t + length pre) q false ans] in
  let b' := snd (picks (S (length pre)) b) in
  inv b' /\ peers b' = peers b /\ view b' = post ++ pre ++ [q] /\
  try_route_sync o b t = mkRes (fast_outcome true ans q) log b' (S (t + length pre)) /\
  route_message o w b t = mkRes (fast_outcome false ans q) log b' (S (t + length pre)).
Proof.
  intros Hi Hv Hf Hq. cbv zeta.
  assert (Hc : count b = length pre + S (length post)) by (rewrite count_view, Hv, app_length; reflexivity).
  destruct (picks_prefix_state b pre (q :: post) Hi Hv) as (Hi1 & Hp1 & Hv1). simpl in Hv1.
  set (b1 := snd (picks (length pre) b)) in *.
  destruct (get_next_view b1 q (post ++ pre) Hi1 Hv1) as (b2 & Hg & Hp2 & Hi2 & Hv2).
  assert (Hb2 : snd (picks (S (length pre)) b) = b2).
  { replace (S (length pre)) with (length pre + 1) by lia. rewrite picks_app.
    2:{ intros E. apply view_nil in E; [|exact Hi]. rewrite Hv in E. destruct pre; discriminate. }
    fold b1. destruct (picks (length pre) b) as [l1 bx] eqn:E1. simpl in b1. subst b1.
    cbn [picks]. rewrite Hg. reflexivity. }
  rewrite Hb2. split; [exact Hi2|]. split; [congruence|]. split; [rewrite Hv2, <- app_assoc; reflexivity|].
  split.
  - unfold try_route_sync, try_route_sync_with. destruct (Nat.eqb_spec (count b) 0) as [E|_]; [lia|].
    rewrite (sync_loop_prefix pre (q :: post) (count b) b t [] Hi Hv Hf) by lia. fold b1.
    replace (count b - length pre) with (S (length post)) by lia. cbn [sync_loop]. rewrite Hg, Henv.
    cbn [apply_mops fold_left app]. destruct (o_fast o (t + length pre) q); try congruence; reflexivity.
  - unfold route_message, route_message_with.
    rewrite (msg_loop_prefix w pre (q :: post) _ b t [] Hi Hv Hf) by lia. fold b1.
    destruct (Nat.max (count b) 1 - 1 - length pre); cbn [msg_loop]; rewrite Hg, Henv;
      cbn [apply_mops fold_left app]; destruct (o_fast o (t + length pre) q); try congruence; reflexivity.
Qed.

(* the form asked for: some peer has room when its turn comes => delivered during the sweep, to the
   first such peer, by both entry points, without the blocking send *)
Theorem route_skips_full w b t pre q post :
  inv b -> view b = pre ++ q :: post -> all_full_at t pre -> o_fast o (t + length pre) q = Accept ->
  r_out (try_route_sync o b t) = Delivered q /\ r_out (route_message o w b t) = Delivered q /\
  all_fast (r_log (route_message o w b t)).
Proof.
  intros Hi Hv Hf Hq.
  destruct (sweep_stops_at_first_nonfull w b t pre q post Hi Hv Hf) as (_ & _ & _ & -> & ->); [congruence|].
  rewrite Hq. simpl. repeat split. apply Forall_app. split.
  - clear. generalize t. induction pre; intros; simpl; constructor; auto.
  - constructor; [reflexivity|constructor].
Qed.

(* every peer full during the sweep: try_route_sync gives the message back after exactly one pass
   (cursor unchanged); route_message blocks on ONE peer - the first of the pass - and its answer
   alone decides; the cursor has advanced by one *)
Theorem sweep_all_full w b t v :
  inv b -> view b = v -> v <> [] -> all_full_at t v ->
  try_route_sync o b t = mkRes Returned (full_atts t v) b (t + length v) /\
  exists q rest b', v = q :: rest /\ inv b' /\ peers b' = peers b /\ view b' = rest ++ [q] /\
    let ans := o_slow o (t + length v) q in
    route_message o w b t =
    mkRes (match ans with Accept => DeliveredSlow q | Full => Returned | Closed => Dropped q end)
          (full_atts t v ++ [mkAtt (t + length v) q true ans]) b' (S (S (t + length v - 1))).
Proof.
  intros Hi Hv Hne Hf.
  assert (Hc : count b = length v) by (rewrite count_view, Hv; reflexivity).
  assert (Hl : length v <> 0) by (destruct v; simpl; congruence).
  assert (Hvn : view b = v ++ []) by (rewrite app_nil_r; exact Hv).
  assert (Hst : snd (picks (length v) b) = b).
  { rewrite <- Hc. unfold count. rewrite picks_pass by exact Hi. reflexivity. }
  split.
  - unfold try_route_sync, try_route_sync_with. destruct (Nat.eqb_spec (count b) 0) as [E|_]; [lia|].
    rewrite (sync_loop_prefix v [] (count b) b t [] Hi Hvn Hf) by lia.
    rewrite Hc, Nat.sub_diag, Hst. reflexivity.
  - destruct v as [|q rest]; [congruence|]. exists q, rest.
    (* all but the last answer of the pass *)
    destruct (@exists_last _ (q :: rest)) as (v' & z & Ev); [discriminate|].
    rewrite Ev in Hvn, Hf. rewrite <- app_assoc in Hvn. simpl in Hvn.
    assert (Hlen : length (q :: rest) = S (length v')) by (rewrite Ev, app_length; simpl; lia).
    assert (Hf' : all_full_at t v' /\ o_fast o (t + length v') z = Full).
    { clear - Hf. revert t Hf. induction v' as [|a v' IH]; intros t Hf; simpl in *.
      - rewrite Nat.add_0_r. tauto.
      - destruct Hf as [H1 H2]. destruct (IH (S t) H2) as [H3 H4]. replace (t + S (length v')) with (S t + length v') by lia. tauto. }
    destruct Hf' as [Hf1 Hz].
    destruct (picks_prefix_state b v' [z] Hi) as (Hi1 & Hp1 & Hv1); [exact Hvn|].
    simpl in Hv1. set (b1 := snd (picks (length v') b)) in *.
    destruct (get_next_view b1 z v' Hi1 Hv1) as (b2 & Hg & Hp2 & Hi2 & Hv2).
    assert (Hb2 : b2 = b).
    { rewrite <- Hst, Hlen. replace (S (length v')) with (length v' + 1) by lia. rewrite picks_app.
      2:{ intros E. apply view_nil in E; [|exact Hi]. rewrite Hv in E. discriminate. }
      fold b1. destruct (picks (length v') b) as [l1 bx] eqn:E1. simpl in b1. subst b1.
      cbn [picks]. rewrite Hg. reflexivity. }
    subst b2.
    destruct (get_next_view b q rest Hi Hv) as (b3 & Hg3 & Hp3 & Hi3 & Hv3).
    exists b3. repeat split; auto. cbv zeta.
    unfold route_message, route_message_with.
    rewrite (msg_loop_prefix w v' [z] _ b t [] Hi) ; [|exact Hvn|exact Hf1|lia].
    fold b1. replace (Nat.max (count b) 1 - 1 - length v') with 0 by lia.
    cbn [msg_loop]. rewrite Hg, Hz, Henv. cbn [apply_mops fold_left]. rewrite Hg3, Henv. cbn [fold_left app].
    rewrite Hlen. replace (S (t + length v')) with (t + S (length v')) by lia.
    assert (El : full_atts t (q :: rest) = full_atts t v' ++ [mkAtt (t + length v') z false Full]).
    { rewrite Ev. clear. revert t. induction v' as [|a v' IH]; intros t; simpl.
      - rewrite Nat.add_0_r. reflexivity.
      - rewrite IH. replace (S t + length v') with (t + S (length v')) by lia. reflexivity. }
    rewrite El. f_equal. lia.
Qed.
End NoEnv.

(* ---------- no starvation ---------- *)
Lemma position_mid p l1 l2 : ~ In p l1 -> position p (l1 ++ p :: l2) = Some (length l1).
Proof.
  induction l1 as [|x l1 IH]; simpl; intros H.
  - rewrite N.eqb_refl. reflexivity.
  - destruct (N.eqb_spec x p) as [->|_]; [tauto|]. rewrite IH by tauto. reflexivity.
Qed.

Lemma first_nonfull o pre : forall t,
  all_full_at o t pre \/
  exists pre1 q pre2, pre = pre1 ++ q :: pre2 /\ all_full_at o t pre1 /\ o_fast o (t + length pre1) q <> Full.
Proof.
  induction pre as [|a pre IH]; intros t; simpl; [tauto|].
  destruct (o_fast o t a) eqn:E.
  1,3: right; exists [], a, pre; simpl; rewrite Nat.add_0_r, E; repeat split; congruence.
  destruct (IH (S t)) as [H|(pre1 & q & pre2 & -> & H1 & H2)]; [left; tauto|].
  right. exists (a :: pre1), q, pre2. simpl. replace (t + S (length pre1)) with (S t + length pre1) by lia. tauto.
Qed.

Lemma run_calls_length o cs : forall b t, length (run_calls o cs b t) = length cs.
Proof. induction cs; intros; simpl; auto. Qed.

Fixpoint end_state (o : oracle) (cs : list call) (b : bal) (t : nat) : bal * nat :=
  match cs with
  | [] => (b, t)
  | c :: cs' => let r := do_call o c b t in end_state o cs' (r_bal r) (r_time r)
  end.

Lemma run_calls_app o c1 : forall c2 b t,
  run_calls o (c1 ++ c2) b t =
  run_calls o c1 b t ++ run_calls o c2 (fst (end_state o c1 b t)) (snd (end_state o c1 b t)).
Proof. induction c1 as [|c c1 IH]; intros; simpl; [reflexivity|]. rewrite IH. reflexivity. Qed.

Section Starvation.
Variable o : oracle.
Hypothesis Henv : forall t, o_env o t = [].
Variable p : N.
Hypothesis Hp : forall t, o_fast o t p = Accept.

(* one routed message either goes to p or moves the cursor strictly closer to p *)
Lemma call_progress c b t d : inv b -> position p (view b) = Some d ->
  let r := do_call o c b t in
  inv (r_bal r) /\ peers (r_bal r) = peers b /\
  (r_out r = Delivered p \/ exists d', position p (view (r_bal r)) = Some d' /\ d' < d).
Proof.
  intros Hi Hpos. destruct (position_some _ _ _ Hpos) as (pre & post & Hv & Hl & Hn & _).
  destruct (first_nonfull o pre t) as [Hf|(pre1 & q & pre2 & -> & Hf & Hq)].
  - assert (Ha : o_fast o (t + length pre) p <> Full) by (rewrite Hp; discriminate).
    destruct (sweep_stops_at_first_nonfull o Henv (match c with CMsg w => w | CSync => false end)
                b t pre p post Hi Hv Hf Ha) as (H1 & H2 & _ & H4 & H5).
    rewrite Hp in H4, H5. cbv zeta. destruct c as [|w]; simpl; [rewrite H4|rewrite H5]; simpl; auto.
  - rewrite <- app_assoc in Hv. simpl in Hv.
    destruct (sweep_stops_at_first_nonfull o Henv (match c with CMsg w => w | CSync => false end)
                b t pre1 q (pre2 ++ p :: post) Hi Hv Hf Hq) as (H1 & H2 & H3 & H4 & H5).
    assert (Hpos' : position p (view (snd (picks (S (length pre1)) b))) = Some (length pre2)).
    { rewrite H3, <- app_assoc. simpl. apply position_mid. rewrite in_app_iff in Hn. simpl in Hn. tauto. }
    assert (Hlt : length pre2 < d) by (subst d; rewrite app_length; simpl; lia).
    cbv zeta. destruct c as [|w]; simpl; [rewrite H4|rewrite H5]; simpl; repeat split; eauto.
Qed.

Lemma starvation_aux cs : forall d b t, inv b -> position p (view b) = Some d -> d < length cs ->
  exists r, In r (run_calls o cs b t) /\ r_out r = Delivered p.
Proof.
  induction cs as [|c cs IH]; intros d b t Hi Hpos Hd; simpl in Hd; [lia|].
  destruct (call_progress c b t d Hi Hpos) as (Hi' & _ & [Hdel|(d' & Hpos' & Hlt)]).
  - eexists. split; [left; reflexivity|exact Hdel].
  - destruct (IH d' _ (r_time (do_call o c b t)) Hi' Hpos') as (r & Hin & Hr); [lia|].
    exists r. split; [right; exact Hin|exact Hr].
Qed.

Lemma end_state_keeps cs : forall b t, inv b ->
  inv (fst (end_state o cs b t)) /\ peers (fst (end_state o cs b t)) = peers b.
Proof.
  induction cs as [|c cs IH]; intros b t Hi; simpl; [tauto|].
  assert (H : inv (r_bal (do_call o c b t)) /\ peers (r_bal (do_call o c b t)) = peers b).
  { destruct (view b) as [|q rest] eqn:Ev.
    - (* no peers: nothing is touched *)
      apply view_nil in Ev; [|exact Hi].
      destruct c as [|w]; simpl; unfold try_route_sync, try_route_sync_with, route_message, route_message_with, count;
        rewrite Ev; simpl; rewrite ?get_next_none by exact Ev; simpl; auto.
    - (* use the sweep lemmas through a trivial case split on the first non-full answer *)
      destruct (first_nonfull o (q :: rest) t) as [Hf|(pre1 & x & pre2 & E & Hf & Hq)].
      + assert (Hne : q :: rest <> []) by discriminate.
        destruct (sweep_all_full o Henv (match c with CMsg w => w | CSync => false end) b t (q :: rest) Hi Ev Hne Hf)
          as (H1 & q' & rest' & b' & _ & Hi' & Hp' & _ & H2).
        destruct c as [|w]; simpl; [rewrite H1|rewrite H2]; simpl; auto.
      + rewrite E in Ev.
        destruct (sweep_stops_at_first_nonfull o Henv (match c with CMsg w => w | CSync => false end)
                    b t pre1 x pre2 Hi Ev Hf Hq) as (H1 & H2 & _ & H4 & H5).
        destruct c as [|w]; simpl; [rewrite H4|rewrite H5]; simpl; auto. }
  destruct H as [H1 H2]. destruct (IH _ (r_time (do_call o c b t)) H1) as [H3 H4]. split; congruence.
Qed.

(* route_no_starvation: with a fixed membership of n peers and no interference, a peer that accepts
   whenever it is asked receives at least one of any n consecutive routed messages (whatever mix of
   try_route_sync / route_message, whatever the other peers answer) *)
Theorem route_no_starvation c1 win c2 b t : inv b -> In p (peers b) ->
  length win = length (peers b) ->
  exists r, In r (firstn (length win) (skipn (length c1) (run_calls o (c1 ++ win ++ c2) b t))) /\
            r_out r = Delivered p.
Proof.
  intros Hi Hin Hw.
  rewrite !run_calls_app.
  rewrite skipn_app, skipn_all2 by (rewrite run_calls_length; lia).
  rewrite run_calls_length, Nat.sub_diag. simpl.
  rewrite firstn_app, run_calls_length, Nat.sub_diag, firstn_O, app_nil_r.
  rewrite firstn_all2 by (rewrite run_calls_length; lia).
  destruct (end_state_keeps c1 b t Hi) as [Hi1 Hp1].
  set (b1 := fst (end_state o c1 b t)) in *. 
  destruct (position p (view b1)) as [d|] eqn:Epos.
  - apply (starvation_aux win d); auto.
    destruct (position_some _ _ _ Epos) as (l1 & l2 & Hv & Hl & _).
    rewrite Hw, <- Hp1, <- (rot_length (next_idx b1)). fold (view b1). rewrite Hv, app_length. simpl. lia.
  - apply position_none in Epos. exfalso. apply Epos. unfold view. rewrite rot_in, Hp1. exact Hin.
Qed.
End Starvation.

(* ---------- witnesses ---------- *)
(* n cannot be improved: three peers that always accept, two consecutive messages, peer 2 gets none *)
Lemma starvation_bound_tight :
  exists o b cs, (forall t, o_env o t = []) /\ (forall t q, o_fast o t q = Accept) /\ inv b /\ In 2%N (peers b) /\
    S (length cs) = length (peers b) /\
    forall r, In r (run_calls o cs b 0) -> r_out r <> Delivered 2%N.
Proof.
  exists (mkOracle (fun _ _ => Accept) (fun _ _ => Accept) (fun _ => [])), (mkBal [0; 1; 2]%N 0), [CSync; CMsg false].
  repeat split; auto.
  - left. simpl. lia.
  - simpl. tauto.
  - intros r [<-|[<-|[]]]; vm_compute; discriminate.
Qed.

(* the blocking send waits on ONE peer: peer 1 has room at every moment after the sweep, yet the
   message is dropped when peer 0 (the fresh peer) times out *)
Lemma route_waits_on_any_refuted :
  exists o b, (forall t, o_env o t = []) /\ inv b /\ peers b = [0; 1]%N /\
    (forall t, 2 <= t -> o_fast o t 1%N = Accept /\ o_slow o t 1%N = Accept) /\
    r_out (route_message o false b 0) = Dropped 0%N.
Proof.
  exists (mkOracle (fun t q => if (t <? 2) then Full else if N.eqb q 1 then Accept else Full)
                   (fun t q => if N.eqb q 1 then Accept else Closed) (fun _ => [])),
         (mkBal [0; 1]%N 0).
  split; [reflexivity|]. split; [left; simpl; lia|]. split; [reflexivity|]. split; [|reflexivity].
  intros t Ht. simpl. destruct (Nat.ltb_spec t 2); [lia|]. split; reflexivity.
Qed.

(* ---------- DEALER: what send_logical_message does with route_message's error ---------- *)
Lemma msg_loop_false_outcomes o more : forall b t log,
  match r_out (msg_loop o false more b t log) with ReturnedErr _ | WaitForPeer => False | _ => True end.
Proof.
  induction more as [|more IH]; intros b t log; simpl;
    (destruct (get_next b) as [[p|] b']; [|exact I]); destruct (o_fast o t p); simpl; try exact I; try apply IH.
  destruct (get_next (apply_mops (o_env o t) b')) as [[q|] b3]; simpl; [|exact I].
  destruct (o_slow o (S t) q); exact I.
Qed.

Lemma faithful_last o t pre a : faithful o t (pre ++ [a]) ->
  at_res a = (if at_slow a then o_slow o else o_fast o) (t + length pre) (at_peer a).
Proof. intros H. apply faithful_app in H. destruct H as [_ H]. simpl in H. tauto. Qed.

(* for EVERY readiness/closure behaviour of the peers: Ok means exactly one peer has the message,
   "queued" means nobody has it and it is queued intact, and an error answer means nobody has it *)
Theorem dealer_send_sound o b t :
  let '(r, a) := dealer_send o b t in
  match a with
  | AnsOk => accepts (r_log r) = 1
  | AnsQueued => accepts (r_log r) = 0 /\ r_out r = Returned
  | AnsErr => accepts (r_log r) = 0
  end.
Proof.
  unfold dealer_send, route_message.
  pose proof (route_message_one (count b) o false b t) as H1.
  pose proof (one_spec_accepts _ H1) as Ha.
  pose proof (msg_loop_false_outcomes o (Nat.max (count b) 1 - 1) b t []) as Ho.
  fold (route_message_with (count b) o false b t) in Ho.
  set (r := route_message_with (count b) o false b t) in *.
  destruct (r_out r) eqn:E; try tauto; auto.
Qed.
