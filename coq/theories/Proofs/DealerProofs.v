(* Proofs about DEALER's outgoing path (Model/Dealer.v). *)
From Coq Require Import Permutation.
From RZ Require Import Base.Prelude Model.Dealer.

Set Implicit Arguments.

Section DealerProofs.
Variable M : Type.

(* nothing is dropped or duplicated by the queue: routed ++ pending is a permutation of accepted,
   for the code and for the repair sketch *)
Lemma d_step_perm ser hwm (s : dstate M) e :
  Permutation (d_routed s ++ d_pend s) (d_accepted s) ->
  Permutation (d_routed (d_step ser hwm s e) ++ d_pend (d_step ser hwm s e)) (d_accepted (d_step ser hwm s e)).
Proof.
  destruct s as [pend conn qa pa routed acc]. cbn [d_routed d_pend d_accepted]. intros H.
  assert (Hbody : forall qa' pa',
    Permutation (d_routed (proc_body ser (Build_dstate pend conn qa' pa' routed acc)) ++
                 d_pend (proc_body ser (Build_dstate pend conn qa' pa' routed acc)))
                (d_accepted (proc_body ser (Build_dstate pend conn qa' pa' routed acc)))).
  { intros qa' pa'. unfold proc_body. cbn [d_conn d_pend]. destruct conn; [|exact H].
    destruct pend as [|m r]; [exact H|]. destruct ser; cbn [d_routed d_pend d_accepted].
    - rewrite app_nil_r. exact H.
    - rewrite <- app_assoc. exact H. }
  destruct e; cbn [d_step d_conn d_pend d_qa d_pa d_routed d_accepted].
  - destruct (conn && negb (ser && negb (match pend with [] => true | _ => false end))).
    + cbn. rewrite <- app_assoc. etransitivity; [apply Permutation_app_head; apply Permutation_app_comm|].
      rewrite app_assoc. apply Permutation_app_tail. exact H.
    + destruct (length pend <? hwm); cbn; [|exact H]. rewrite app_assoc. apply Permutation_app_tail. exact H.
  - exact H.
  - destruct qa; [apply Hbody | exact H].
  - destruct pa; [apply Hbody | exact H].
Qed.

Theorem dealer_no_loss_no_dup ser hwm evs :
  let s := d_run ser hwm evs in Permutation (d_routed s ++ d_pend s) (@d_accepted M s).
Proof.
  unfold d_run.
  assert (G : forall evs s0, Permutation (d_routed s0 ++ d_pend s0) (@d_accepted M s0) ->
            let s := fold_left (d_step ser hwm) evs s0 in Permutation (d_routed s ++ d_pend s) (d_accepted s)).
  { clear evs. induction evs as [|e evs IH]; intros s0 H; cbn [fold_left]; [exact H|].
    apply IH. apply d_step_perm. exact H. }
  apply G. cbn. constructor.
Qed.

(* The code: as long as nothing was accepted before the connection existed, the queue stays empty
   and DEALER hands messages over in send order. *)
Lemma d_step_direct hwm (s : dstate M) e :
  d_pend s = [] -> d_routed s = d_accepted s ->
  (match e with DSend _ => d_conn s = true | _ => True end) ->
  d_pend (d_step false hwm s e) = [] /\ d_routed (d_step false hwm s e) = d_accepted (d_step false hwm s e)
  /\ (d_conn s = true -> d_conn (d_step false hwm s e) = true).
Proof.
  destruct s as [pend conn qa pa routed acc]. cbn [d_routed d_pend d_accepted d_conn]. intros -> -> Hc.
  destruct e; cbn [d_step d_conn d_pend d_qa d_pa d_routed d_accepted].
  - rewrite Hc. cbn. auto.
  - auto.
  - destruct qa; cbn; [|auto]. unfold proc_body. cbn. destruct conn; cbn; auto.
  - destruct pa; cbn; [|auto]. unfold proc_body. cbn. destruct conn; cbn; auto.
Qed.

Theorem dealer_direct_order hwm evs :
  sends_after_attach false evs = true ->
  let s := d_run false hwm evs in d_pend s = [] /\ d_routed s = @d_accepted M s.
Proof.
  unfold d_run. intros Hs.
  assert (G : forall evs (s0 : dstate M), d_pend s0 = [] -> d_routed s0 = d_accepted s0 ->
            sends_after_attach (d_conn s0) evs = true ->
            let s := fold_left (d_step false hwm) evs s0 in d_pend s = [] /\ d_routed s = d_accepted s).
  { clear. induction evs as [|e evs IH]; intros s0 H1 H2 H3; cbn [fold_left]; [auto|].
    assert (Hc : match e with DSend _ => d_conn s0 = true | _ => True end).
    { destruct e; auto. cbn in H3. apply andb_prop in H3. tauto. }
    destruct (d_step_direct hwm s0 e H1 H2 Hc) as (E1 & E2 & E3).
    apply IH; [exact E1 | exact E2 |].
    destruct e; cbn [sends_after_attach] in H3.
    - apply andb_prop in H3. destruct H3 as [Hc' H3]. rewrite E3 by exact Hc'. rewrite Hc' in H3. exact H3.
    - cbn. exact H3.
    - destruct s0 as [pend conn qa pa routed acc]. cbn in *. destruct qa; cbn; [|exact H3].
      unfold proc_body. cbn. destruct conn; [destruct pend|]; cbn; exact H3.
    - destruct s0 as [pend conn qa pa routed acc]. cbn in *. destruct pa; cbn; [|exact H3].
      unfold proc_body. cbn. destruct conn; [destruct pend|]; cbn; exact H3. }
  apply G; auto.
Qed.

(* The repair sketch keeps send order in every history, and at quiescence nothing is left queued. *)
Lemma d_step_ser hwm (s : dstate M) e :
  d_routed s ++ d_pend s = d_accepted s -> (d_pend s <> [] -> d_conn s = true -> d_qa s = true) ->
  let s' := d_step true hwm s e in
  d_routed s' ++ d_pend s' = d_accepted s' /\ (d_pend s' <> [] -> d_conn s' = true -> d_qa s' = true).
Proof.
  destruct s as [pend conn qa pa routed acc]. cbn [d_routed d_pend d_accepted d_conn d_qa]. intros H Hq.
  destruct e; cbn [d_step d_conn d_pend d_qa d_pa d_routed d_accepted].
  - destruct conn; cbn [andb negb].
    + destruct pend as [|x r]; cbn [negb andb].
      * cbn. rewrite !app_nil_r in *. subst. split; [reflexivity|congruence].
      * destruct (length (x :: r) <? hwm); cbn [d_routed d_pend d_accepted d_conn d_qa]; [|auto]. split; [|auto].
        rewrite app_assoc, H. reflexivity.
    + destruct (length pend <? hwm); cbn [d_routed d_pend d_accepted d_conn d_qa]; [|auto]. split; [|auto].
      rewrite app_assoc, H. reflexivity.
  - cbn. auto.
  - destruct qa; cbn; [|auto]. unfold proc_body. cbn. destruct conn; cbn; [|split; [exact H|congruence]].
    destruct pend as [|m r]; cbn; [split; [exact H|congruence]|].
    rewrite app_nil_r. split; [exact H|congruence].
  - destruct pa; cbn; [|auto]. unfold proc_body. cbn. destruct conn; cbn; [|split; [exact H|congruence]].
    destruct pend as [|m r]; cbn; [split; [exact H|auto]|].
    rewrite app_nil_r. split; [exact H|congruence].
Qed.

Theorem dealer_serialised_order hwm evs :
  let s := d_run true hwm evs in
  d_routed s ++ d_pend s = @d_accepted M s /\ (d_quiescent s = true -> d_routed s = d_accepted s).
Proof.
  unfold d_run.
  assert (G : forall evs (s0 : dstate M), d_routed s0 ++ d_pend s0 = d_accepted s0 ->
            (d_pend s0 <> [] -> d_conn s0 = true -> d_qa s0 = true) ->
            let s := fold_left (d_step true hwm) evs s0 in
            d_routed s ++ d_pend s = d_accepted s /\ (d_pend s <> [] -> d_conn s = true -> d_qa s = true)).
  { clear. induction evs as [|e evs IH]; intros s0 H1 H2; cbn [fold_left]; [auto|].
    destruct (d_step_ser hwm s0 e H1 H2) as [E1 E2]. apply IH; assumption. }
  destruct (G evs (d_new M)) as [E1 E2]; [reflexivity | cbn; congruence |].
  split; [exact E1|]. intros Hq. unfold d_quiescent in Hq.
  apply andb_prop in Hq. destruct Hq as [Hq Hpa]. apply andb_prop in Hq. destruct Hq as [Hc Hqa].
  destruct (d_pend (fold_left (d_step true hwm) evs (d_new M))) eqn:Hp.
  - rewrite app_nil_r in E1. exact E1.
  - exfalso. rewrite E2 in Hqa; [discriminate | congruence | exact Hc].
Qed.

End DealerProofs.

(* The code: messages accepted while the connection was being established are handed over one per
   wake-up (two wake-ups at attach) and later sends overtake them; the rest stays queued although
   the socket is connected and idle. Witness: three sends, attach, both wake-ups, one more send. *)
Theorem dealer_queue_refuted :
  let s := d_run false 1000 [DSend 0; DSend 1; DSend 2; DAttach nat; DWakeQ nat; DWakeP nat; DSend 3] in
  d_quiescent s = true /\ d_accepted s = [0; 1; 2; 3] /\ d_routed s = [0; 1; 3] /\ d_pend s = [2].
Proof. vm_compute. auto. Qed.
