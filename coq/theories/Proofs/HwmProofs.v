(* Proofs about Model/Hwm.v (property C14). *)
From RZ Require Import Base.Prelude Base.Stepper Model.Codec Model.Engine Model.Actor
  Model.Batch Model.Egress Model.IngressDriver Model.Pipeline Model.Inproc Model.Dealer Model.Hwm.
From RZ Require Import Proofs.BatchProofs Proofs.IngressDriverProofs.
Local Open Scope N_scope.

(* ================================================================== PART 1: send paths *)

Section Timed.
Variable fire : N -> N.
Variable slack : N.
(* tokio's timer: fires no earlier than asked, and within `slack` *)
Hypothesis fire_law : forall d, d <= fire d /\ fire d <= d + slack.

Ltac leb_cases :=
  repeat match goal with
  | |- context [?a <=? ?b] => destruct (N.leb_spec a b)
  | H : context [?a <=? ?b] |- _ => destruct (N.leb_spec a b)
  end.

(* ---- the tables of Hwm.v are what the functions do ---- *)

(* SNDTIMEO = 0 on a full pipe: would-block, at once, nothing enqueued; the `_owned` / `_sync`
   methods hand the message back, the others consume it *)
Lemma snd0_path v w :
  send_path fire v TsFull (Some 0) w = Ret AWouldBlock 0 (if can_return v then Returned else Dropped).
Proof. destruct v; reflexivity. Qed.

(* the synchronous fast path never looks at SNDTIMEO and never waits *)
Lemma sync_path v ts s w : is_sync v = true ->
  send_path fire v ts s w =
  match ts with TsOk => Ret AOk 0 Enqueued | TsFull => Ret AWouldBlock 0 Returned | TsClosed => Ret AClosed 0 Returned end.
Proof. destruct v; try discriminate; intros _; destruct ts; reflexivity. Qed.

(* a positive SNDTIMEO on a full pipe, arm by arm *)
Lemma positive_path v d w : is_sync v = false -> 0 < d ->
  send_path fire v TsFull (Some d) w =
  match tokio_timeout fire d w with
  | FutOk t => Ret AOk t Enqueued
  | FutErr t => Ret AClosed t Dropped
  | Elapsed t => Ret (expiry_answer v) t Dropped
  end.
Proof.
  intros Hs Hd. destruct d as [|p]; [lia|].
  destruct v; try discriminate;
    unfold send_path, inproc_send_message, uring_send_message, default_send_message, inproc_send_multipart;
    cbn -[tokio_timeout]; destruct (tokio_timeout fire (N.pos p) w); reflexivity.
Qed.

(* SNDTIMEO = -1 on a full pipe: every variant but ScaConnectionIface::send_multipart_owned is a
   timed wait of `fallback v` *)
Lemma minus1_path_fallback v F w : is_sync v = false -> fallback v = Some F ->
  send_path fire v TsFull None w =
  match tokio_timeout fire F w with
  | FutOk t => Ret AOk t Enqueued
  | FutErr t => Ret AClosed t Dropped
  | Elapsed t => Ret (expiry_answer v) t Dropped
  end.
Proof.
  intros Hs HF. destruct v; try discriminate; inversion HF; subst;
    unfold send_path, inproc_send_message, uring_send_message, default_send_message, inproc_send_multipart;
    cbn -[tokio_timeout];
    match goal with |- context [tokio_timeout fire ?x w] => destruct (tokio_timeout fire x w) end; reflexivity.
Qed.

Lemma minus1_path_sca_owned w :
  sca_send_multipart_owned fire TsFull None w =
  match w with WRoom t => Ret AOk t Enqueued | WClosed t => Ret AClosed t Dropped | WNever => Hang end.
Proof. reflexivity. Qed.

Lemma timeout_elapsed_window d w t : tokio_timeout fire d w = Elapsed t -> d <= t /\ t <= d + slack.
Proof.
  unfold tokio_timeout. intros Hq. destruct w; leb_cases; inversion Hq; subst; apply fire_law.
Qed.
Lemma timeout_ok d w t : tokio_timeout fire d w = FutOk t -> w = WRoom t /\ t <= fire d.
Proof. unfold tokio_timeout. intros Hq. destruct w; leb_cases; inversion Hq; subst; auto. Qed.
Lemma timeout_err d w t : tokio_timeout fire d w = FutErr t -> w = WClosed t /\ t <= fire d.
Proof. unfold tokio_timeout. intros Hq. destruct w; leb_cases; inversion Hq; subst; auto. Qed.

(* ---- the property statements ---- *)

(* SNDTIMEO = 0 at the high-water mark: the pipe holds `len >= cap` items *)
Theorem snd0_immediate_all {M} v (cap len : nat) w (q : list M) (m : M) :
  (cap <= len)%nat ->
  let o := send_path fire v (try_of cap len false) (Some 0) w in
  (exists f, o = Ret AWouldBlock 0 f /\ f <> Enqueued /\ (f = Returned <-> can_return v = true))
  /\ after_send q m o = q.
Proof.
  clear fire_law slack.
  intros Hl. assert (Ht : try_of cap len false = TsFull).
  { unfold try_of. destruct (len <? cap)%nat eqn:E; [apply Nat.ltb_lt in E; lia | reflexivity]. }
  cbv zeta. rewrite Ht, snd0_path. split.
  - eexists. split; [reflexivity|]. destruct (can_return v); split; try discriminate; split; congruence.
  - destruct (can_return v); reflexivity.
Qed.

(* what a call with SNDTIMEO = d > 0 on a full pipe may do *)
Definition positive_spec (v : variant) (d : N) (w : waitres) (o : outcome) : Prop :=
  match o with
  | Hang => False
  | Ret AOk t f => f = Enqueued /\ w = WRoom t /\ t <= d + slack
  | Ret AClosed t f => f = Dropped /\ w = WClosed t /\ t <= d + slack
  | Ret (ATimeout as a) t f | Ret (AWouldBlock as a) t f =>
      (a = ATimeout \/ a = AWouldBlock) /\ a = expiry_answer v /\ f = Dropped /\ d <= t /\ t <= d + slack
  end.

Theorem snd_positive_all v d w : is_sync v = false -> 0 < d ->
  positive_spec v d w (send_path fire v TsFull (Some d) w).
Proof.
  intros Hs Hd. rewrite positive_path by assumption.
  destruct (tokio_timeout fire d w) eqn:E; cbn [positive_spec].
  - apply timeout_ok in E. destruct E. pose proof (fire_law d). repeat split; auto; lia.
  - apply timeout_err in E. destruct E. pose proof (fire_law d). repeat split; auto; lia.
  - apply timeout_elapsed_window in E. destruct E.
    destruct v; try discriminate; cbn; repeat split; auto.
Qed.

(* SNDTIMEO = -1: "no failure while the peer may still drain" *)
Definition minus1_spec (v : variant) : Prop :=
  forall w, (forall t, w <> WClosed t) ->
  match send_path fire v TsFull None w with Ret a _ _ => a = AOk | Hang => True end.

Theorem snd_minus1_sca_owned : minus1_spec VScaOwned.
Proof. intros w Hw. cbn. destruct w; auto. exfalso. eapply Hw. reflexivity. Qed.

(* every other waiting variant gives up after its fall-back although the peer is alive and would
   have drained one millisecond later *)
Theorem snd_minus1_fallback_refuted v : is_sync v = false -> v <> VScaOwned ->
  exists F w, fallback v = Some F /\ (forall t, w <> WClosed t) /\
              send_path fire v TsFull None w = Ret (expiry_answer v) (fire F) Dropped
              /\ expiry_answer v <> AOk.
Proof.
  intros Hs Hv.
  assert (HF : exists F, fallback v = Some F) by (destruct v; try discriminate; try congruence; eexists; reflexivity).
  destruct HF as [F HF]. exists F, (WRoom (fire F + 1)). split; [exact HF|]. split; [discriminate|].
  rewrite (minus1_path_fallback v F) by assumption. unfold tokio_timeout.
  destruct (N.leb_spec (fire F + 1) (fire F)); [lia|]. split; [reflexivity|]. destruct v; discriminate.
Qed.
Corollary snd_minus1_refuted v : is_sync v = false -> v <> VScaOwned -> ~ minus1_spec v.
Proof.
  intros Hs Hv Hm. destruct (snd_minus1_fallback_refuted v Hs Hv) as (F & w & _ & Hw & E & Hne).
  specialize (Hm w Hw). rewrite E in Hm. contradiction.
Qed.

(* outside the failing class (the peer makes room within the fall-back) -1 does wait, for every
   variant; and no variant fails before its fall-back has run out *)
Theorem snd_minus1_outside v F t : is_sync v = false -> fallback v = Some F -> t <= F ->
  send_path fire v TsFull None (WRoom t) = Ret AOk t Enqueued.
Proof.
  intros Hs HF Ht. rewrite (minus1_path_fallback v F) by assumption. unfold tokio_timeout.
  pose proof (fire_law F). destruct (N.leb_spec t (fire F)); [reflexivity | lia].
Qed.
Theorem snd_minus1_not_before_fallback v F w a t f : is_sync v = false -> fallback v = Some F ->
  send_path fire v TsFull None w = Ret a t f -> a <> AOk -> a <> AClosed -> F <= t /\ t <= F + slack.
Proof.
  intros Hs HF E Ha Hc. rewrite (minus1_path_fallback v F) in E by assumption.
  destruct (tokio_timeout fire F w) eqn:T; inversion E; subst; try congruence.
  eapply timeout_elapsed_window; eauto.
Qed.

(* no spurious success, nothing half-done: for EVERY variant, pipe state, SNDTIMEO and oracle *)
Definition immediate_refusal (v : variant) (ts : trysend) (s : timeo) : bool :=
  match ts with
  | TsOk => false
  | TsClosed => true
  | TsFull => is_sync v || is_zero s
  end.

Definition no_spurious_spec (v : variant) (ts : trysend) (s : timeo) (w : waitres) (o : outcome) : Prop :=
  match o with
  | Ret AOk t f => f = Enqueued /\ ((ts = TsOk /\ t = 0) \/ (ts = TsFull /\ w = WRoom t))
  | Ret _ t f => f <> Enqueued /\ ts <> TsOk
                 /\ (f = Returned <-> (can_return v = true /\ immediate_refusal v ts s = true))
                 /\ (f = Returned -> t = 0)
  | Hang => v = VScaOwned /\ ts = TsFull /\ s = None /\ w = WNever
  end.

Theorem no_spurious_all v ts s w : no_spurious_spec v ts s w (send_path fire v ts s w).
Proof.
  destruct ts.
  - destruct v; cbn; auto.
  - destruct s as [[|p]|].
    + rewrite snd0_path. cbn. destruct v; cbn; repeat split; try discriminate; try tauto; intros [? ?]; congruence.
    + destruct (is_sync v) eqn:Hs.
      * rewrite sync_path by assumption. cbn. rewrite Hs. destruct v; try discriminate; cbn;
          repeat split; try discriminate; tauto.
      * rewrite positive_path by (auto; lia).
        destruct (tokio_timeout fire (N.pos p) w) eqn:E; cbn.
        -- apply timeout_ok in E. destruct E. auto.
        -- rewrite Hs. cbn. repeat split; try discriminate. intros [_ ?]; discriminate.
        -- rewrite Hs. cbn. destruct v; try discriminate; cbn; repeat split; try discriminate; intros [_ ?]; discriminate.
    + destruct (is_sync v) eqn:Hs.
      * rewrite sync_path by assumption. cbn. rewrite Hs. destruct v; try discriminate; cbn;
          repeat split; try discriminate; tauto.
      * destruct (fallback v) as [F|] eqn:HF.
        -- rewrite (minus1_path_fallback v F) by assumption.
           destruct (tokio_timeout fire F w) eqn:E; cbn.
           ++ apply timeout_ok in E. destruct E. auto.
           ++ rewrite Hs. cbn. repeat split; try discriminate. intros [_ ?]; discriminate.
           ++ rewrite Hs. cbn. destruct v; try discriminate; cbn; repeat split; try discriminate; intros [_ ?]; discriminate.
        -- destruct v; try discriminate. cbn. destruct w; cbn; auto.
           repeat split; try discriminate. intros [_ ?]; discriminate.
  - destruct v; cbn; repeat split; try discriminate; try tauto; intros [? ?]; congruence.
Qed.

(* the pipe afterwards: exactly one more item on Ok, untouched otherwise *)
Theorem enqueued_exactly_once {M} v ts s w (q : list M) (m : M) :
  after_send q m (send_path fire v ts s w) =
  match send_path fire v ts s w with Ret AOk _ _ => q ++ [m] | _ => q end.
Proof.
  pose proof (no_spurious_all v ts s w) as H. destruct (send_path fire v ts s w) as [a t f|]; [|reflexivity].
  destruct a; cbn in *.
  - destruct H as [-> _]. reflexivity.
  - destruct H as [H _]. destruct f; try reflexivity; congruence.
  - destruct H as [H _]. destruct f; try reflexivity; congruence.
  - destruct H as [H _]. destruct f; try reflexivity; congruence.
Qed.

(* send_message and send_multipart of one implementation are the same function *)
Lemma sca_message_is_multipart ts s w : sca_send_message fire ts s w = sca_send_multipart fire ts s w.
Proof. reflexivity. Qed.

(* ================================================================== PART 2: socket wrappers *)

(* the three implementations as (fast path, blocking path) pairs *)
Inductive iface := ISca | IInproc | IUring.
Definition sync_of (i : iface) : trysend -> outcome :=
  match i with ISca => sca_try_sync | IInproc => inproc_try_sync | IUring => uring_try_sync end.
Definition owned_of (i : iface) : trysend -> timeo -> waitres -> outcome :=
  match i with
  | ISca => sca_send_multipart_owned fire
  | IInproc => inproc_send_multipart_owned fire
  | IUring => uring_send_multipart_owned fire
  end.
Definition owned_variant (i : iface) : variant :=
  match i with ISca => VScaOwned | IInproc => VInprocOwned | IUring => VUringOwned end.
Lemma owned_of_path i ts s w : owned_of i ts s w = send_path fire (owned_variant i) ts s w.
Proof. destruct i; reflexivity. Qed.

(* PUSH / DEALER with one peer whose pipe is full at both try_sends *)
Definition route_full (i : iface) (s : timeo) (w : waitres) : outcome :=
  route_one (sync_of i) (owned_of i) TsFull TsFull s w.

Lemma route_full_eq i s w :
  route_full i s w =
  match owned_of i TsFull s w with
  | Ret AOk t f => Ret AOk t f
  | Ret AWouldBlock t f => Ret AWouldBlock t f
  | Ret a t _ => Ret a t Dropped
  | Hang => Hang
  end.
Proof. unfold route_full, route_one. destruct i; reflexivity. Qed.

Variable fire_o : N -> N.
Hypothesis fire_o_law : forall d, d <= fire_o d /\ fire_o d <= d + slack.

Definition push_full (i : iface) (s : timeo) (w : waitres) : outcome :=
  push_send fire_o (fun s' => route_full i s' w) s.

Theorem push_snd0_immediate i w : push_full i (Some 0) w = Ret AWouldBlock 0 Dropped.
Proof. destruct i; reflexivity. Qed.

Theorem push_positive i d w : 0 < d ->
  match push_full i (Some d) w with
  | Hang => False
  | Ret AOk t f => f = Enqueued /\ w = WRoom t /\ t <= d + slack
  | Ret AClosed t f => f = Dropped /\ w = WClosed t /\ t <= d + slack
  | Ret a t f => a = ATimeout /\ f = Dropped /\ d <= t /\ t <= d + slack
  end.
Proof.
  intros Hd. unfold push_full, push_send. destruct d as [|p]; [lia|].
  replace (N.pos p =? 0) with false by (symmetry; apply N.eqb_neq; lia).
  rewrite route_full_eq, owned_of_path, positive_path by (destruct i; auto; lia).
  pose proof (fire_o_law (N.pos p)) as Ho. pose proof (fire_law (N.pos p)) as Hi.
  destruct (tokio_timeout fire (N.pos p) w) eqn:E.
  - apply timeout_ok in E. destruct E as [-> Ht]. destruct (N.leb_spec t (fire_o (N.pos p))); cbn; repeat split; auto; lia.
  - apply timeout_err in E. destruct E as [-> Ht]. destruct (N.leb_spec t (fire_o (N.pos p))); cbn; repeat split; auto; lia.
  - apply timeout_elapsed_window in E. destruct E.
    destruct i; cbn [owned_variant expiry_answer]; destruct (N.leb_spec t (fire_o (N.pos p))); cbn; repeat split; auto; lia.
Qed.

(* PUSH over a tcp/ipc session with SNDTIMEO = -1 really waits ... *)
Theorem push_minus1_waits_sca w :
  push_full ISca None w =
  match w with WRoom t => Ret AOk t Enqueued | WClosed t => Ret AClosed t Dropped | WNever => Hang end.
Proof. destruct w; reflexivity. Qed.
(* ... over inproc / io_uring it reports Timeout after the fall-back although the peer is alive *)
Theorem push_minus1_refuted i : i <> ISca ->
  exists F w, (forall t, w <> WClosed t) /\ push_full i None w = Ret ATimeout (fire F) Dropped
              /\ (F = INPROC_FALLBACK_MS \/ F = URING_FALLBACK_MS).
Proof.
  intros Hi. destruct i; [congruence| |].
  - exists INPROC_FALLBACK_MS, (WRoom (fire INPROC_FALLBACK_MS + 1)). split; [discriminate|]. split; [|auto].
    unfold push_full, push_send. rewrite route_full_eq. cbn. unfold tokio_timeout.
    destruct (N.leb_spec (fire INPROC_FALLBACK_MS + 1) (fire INPROC_FALLBACK_MS)); [lia | reflexivity].
  - exists URING_FALLBACK_MS, (WRoom (fire URING_FALLBACK_MS + 1)). split; [discriminate|]. split; [|auto].
    unfold push_full, push_send. rewrite route_full_eq. cbn. unfold tokio_timeout.
    destruct (N.leb_spec (fire URING_FALLBACK_MS + 1) (fire URING_FALLBACK_MS)); [lia | reflexivity].
Qed.

(* Every connection object snapshots SNDTIMEO when the connection is made (command_processor.rs,
   inproc/mod.rs, pipe_manager.rs, main_loop.rs); PUSH and DEALER read the socket's CURRENT value for
   their own wrapper. `s_conn` = the value at connect time, `s_now` = the value at send time. *)
Definition push_late (i : iface) (s_conn s_now : timeo) (w : waitres) : outcome :=
  push_send fire_o (fun _ => route_full i s_conn w) s_now.
Lemma push_late_same i s w : push_late i s s w = push_full i s w.
Proof. reflexivity. Qed.
(* connected with -1, then SNDTIMEO set to 0: send() on a full pipe never returns (tcp/ipc) *)
Theorem sndtimeo_snapshot_refuted : push_late ISca None (Some 0) WNever = Hang.
Proof. reflexivity. Qed.
(* connected with 0, then SNDTIMEO set to d > 0 (or -1): still refused at once *)
Theorem sndtimeo_snapshot_refuted' i s_now w : s_now <> Some 0 ->
  exists a, push_late i (Some 0) s_now w = Ret AWouldBlock 0 a.
Proof.
  clear fire_law fire_o_law slack. intros Hs. unfold push_late, push_send.
  replace (route_full i (Some 0) w) with (Ret AWouldBlock 0 Returned) by (destruct i; reflexivity).
  destruct s_now as [d|]; [|eexists; reflexivity].
  destruct (N.eqb_spec d 0); [subst; congruence|].
  destruct (N.leb_spec 0 (fire_o d)); [|lia]. eexists. reflexivity.
Qed.

(* DEALER: a refusal by the pipe with the message handed back puts it on pending_outgoing_queue
   while that holds fewer than SNDHWM; with SNDTIMEO = 0 a full queue is a would-block at once *)
Theorem dealer_snd0 i hwm pend wakes w :
  dealer_send fire (route_full i (Some 0) w) hwm (Some 0) pend wakes =
  if (pend <? hwm)%nat then Ret AOk 0 Enqueued else Ret AWouldBlock 0 Dropped.
Proof.
  replace (route_full i (Some 0) w) with (Ret AWouldBlock 0 Returned) by (destruct i; reflexivity).
  cbn [dealer_send]. destruct wakes; cbn; destruct (pend <? hwm)%nat; reflexivity.
Qed.

(* DEALER, positive SNDTIMEO, peer's pipe full: the error is that of the blocking send *)
Theorem dealer_positive i d hwm pend wakes w : 0 < d ->
  match dealer_send fire (route_full i (Some d) w) hwm (Some d) pend wakes with
  | Hang => False
  | Ret AOk t f => f = Enqueued /\ w = WRoom t /\ t <= d + slack
  | Ret AClosed t f => f = Dropped /\ w = WClosed t /\ t <= d + slack
  | Ret a t f => a = ATimeout /\ f = Dropped /\ d <= t /\ t <= d + slack
  end.
Proof.
  clear fire_o_law fire_o.
  intros Hd. rewrite route_full_eq, owned_of_path, positive_path by (destruct i; auto).
  pose proof (fire_law d).
  destruct (tokio_timeout fire d w) eqn:E.
  - apply timeout_ok in E. destruct E as [-> ?]. cbn. repeat split; auto; lia.
  - apply timeout_err in E. destruct E as [-> ?]. cbn. repeat split; auto; lia.
  - apply timeout_elapsed_window in E. destruct i; cbn; repeat split; auto; lia.
Qed.

(* DEALER with no peer at all: the queue absorbs SNDHWM messages, then a positive SNDTIMEO waits
   on the queue's notifier. Never early; on time when no futile wake-up arrives ... *)
Theorem dealer_queue_not_early hwm d : 0 < d -> forall wakes e pend a t f,
  dealer_queue fire hwm (Some d) e pend wakes = Ret a t f -> a <> AOk -> a = ATimeout /\ e + d <= t /\ f = Dropped.
Proof.
  clear fire_o_law fire_o.
  intros Hd. induction wakes as [|[tw p] rest IH]; intros e pend a t f H Ha; cbn [dealer_queue] in H;
    destruct (pend <? hwm)%nat; try (inversion H; subst; congruence);
    replace (d =? 0) with false in H by (symmetry; apply N.eqb_neq; lia); pose proof (fire_law d).
  - inversion H; subst. repeat split; auto; lia.
  - destruct (N.leb_spec tw (fire d)).
    + apply IH in H; [|exact Ha]. destruct H as (? & ? & ?). repeat split; auto.
      (* the wake-up came after tw >= 0, and the re-armed wait lasts a full d again *) lia.
    + inversion H; subst. repeat split; auto; lia.
Qed.
Theorem dealer_queue_on_time hwm d e pend : 0 < d -> (hwm <= pend)%nat ->
  exists t, dealer_queue fire hwm (Some d) e pend [] = Ret ATimeout t Dropped /\ e + d <= t /\ t <= e + d + slack.
Proof.
  clear fire_o_law fire_o.
  intros Hd Hp. cbn [dealer_queue].
  assert (E1 : (pend <? hwm)%nat = false) by (apply Nat.ltb_ge; lia). rewrite E1.
  assert (E2 : (d =? 0) = false) by (apply N.eqb_neq; lia). rewrite E2. pose proof (fire_law d).
  eexists. split; [reflexivity|]. lia.
Qed.
(* ... but every wake-up that finds the queue still full re-arms the FULL interval *)
Theorem dealer_queue_late_refuted hwm d : 0 < d -> slack < d -> (0 < hwm)%nat ->
  exists wakes t, dealer_queue fire hwm (Some d) 0 hwm wakes = Ret ATimeout t Dropped /\ d + slack < t.
Proof.
  clear fire_o_law fire_o.
  intros Hd Hs Hh. exists [(d, hwm)]. cbn [dealer_queue].
  assert (E1 : (hwm <? hwm)%nat = false) by (apply Nat.ltb_ge; lia). rewrite !E1.
  assert (E2 : (d =? 0) = false) by (apply N.eqb_neq; lia). rewrite !E2.
  pose proof (fire_law d). destruct (N.leb_spec d (fire d)); [|lia].
  eexists. split; [reflexivity|]. lia.
Qed.

(* DEALER's queue processor: whatever route_message answers, the popped message is handed over, back at the
   front of the queue, or still held by the suspended call - never replaced by an empty batch *)
Theorem dealer_processor_keeps {M} (route : outcome) (m : M) rest : proc_keeps route m rest.
Proof.
  clear. destruct route as [a t f|]; [|exact I].
  destruct a, f; cbn; auto.
Qed.
(* in particular with a positive SNDTIMEO against a pipe that stays full (the case that used to lose it) *)
Theorem dealer_processor_timeout_requeues {M} i d (m : M) rest : 0 < d ->
  proc_route (route_full i (Some d) WNever) m rest = (QMsg m :: rest, false).
Proof.
  clear fire_o fire_o_law. intros Hd. rewrite route_full_eq, owned_of_path, positive_path by (destruct i; auto).
  unfold tokio_timeout. destruct i; reflexivity.
Qed.

(* ================================================================== PART 3: recv *)

Lemma timed_pop_cases d w :
  match timed_pop fire d w with
  | RRet AOk t p => p = true /\ w = PAt t /\ t <= d + slack
  | RRet AClosed t p => p = false /\ w = PClosedAt t /\ t <= d + slack
  | RRet ATimeout t p => p = false /\ d <= t /\ t <= d + slack
  | _ => False
  end.
Proof.
  clear fire_o_law fire_o.
  pose proof (fire_law d). unfold timed_pop. destruct w; leb_cases; repeat split; auto; lia.
Qed.

(* RCVTIMEO = 0, nothing queued (and nothing cached / held): would-block at once, nothing popped *)
Theorem rcv0_immediate_all v w :
  recv_path fire v false (Some 0) (try_pop_of 0) w = RRet AWouldBlock 0 false.
Proof. destruct v; reflexivity. Qed.
(* ... and with something queued it is taken at once *)
Theorem rcv0_takes v n w :
  recv_path fire v false (Some 0) (try_pop_of (S n)) w = RRet AOk 0 true.
Proof. destruct v; reflexivity. Qed.

Theorem rcv_positive_all v d tp w : 0 < d ->
  match recv_path fire v false (Some d) tp w with
  | RHang => False
  | RRet AOk t p => p = true /\ w = PAt t /\ t <= d + slack
  | RRet AClosed t p => p = false /\ w = PClosedAt t /\ t <= d + slack
  | RRet ATimeout t p => p = false /\ d <= t /\ t <= d + slack
  | RRet AWouldBlock _ _ => False
  end.
Proof.
  clear fire_o_law fire_o.
  intros Hd. assert (E : recv_path fire v false (Some d) tp w = timed_pop fire d w).
  { destruct v; cbn; unfold anon_recv, anon_recv_multipart, addr_recv, router_recv; cbn;
      replace (d =? 0) with false by (symmetry; apply N.eqb_neq; lia); reflexivity. }
  rewrite E. pose proof (timed_pop_cases d w) as H. destruct (timed_pop fire d w) as [a t p|]; [|exact H].
  destruct a; auto.
Qed.

(* RCVTIMEO = -1: every recv path waits for as long as it takes; there is no fall-back *)
Theorem rcv_minus1_all v tp w :
  recv_path fire v false None tp w =
  match w with PAt t => RRet AOk t true | PClosedAt t => RRet AClosed t false | PNever => RHang end.
Proof. destruct v; destruct w; reflexivity. Qed.

(* Ok => exactly one batch was taken off the queue, or none and the frame came from the message
   being read (cache / held batch); Err => nothing was taken *)
Theorem rcv_no_spurious_all v pre r tp w :
  match recv_path fire v pre r tp w with
  | RRet AOk t p => (p = false /\ pre = true /\ t = 0 /\ v <> RAddr)
                    \/ (p = true /\ ((tp = PItem /\ t = 0 /\ r = Some 0) \/ w = PAt t))
  | RRet _ _ p => p = false
  | RHang => r = None /\ w = PNever
  end.
Proof.
  clear fire_o_law fire_o.
  destruct v, pre; cbn; unfold anon_recv, anon_recv_multipart, addr_recv, router_recv;
    try (left; repeat split; auto; discriminate);
    (destruct r as [d|]; [destruct (N.eqb_spec d 0); [subst; destruct tp; cbn; intuition auto |
       pose proof (timed_pop_cases d w) as H; destruct (timed_pop fire d w) as [a t p|]; [|contradiction];
       destruct a; try tauto; destruct H as (-> & -> & _); intuition auto ] |
     destruct w; cbn; intuition auto ]).
Qed.

End Timed.

(* ================================================================== PART 4: buffers *)

(* ---- the tcp / ipc session (Pipeline.v) ---- *)

Lemma adv_loop_msgs_le : forall chunks off msgs popped n ch off' msgs' popped',
  adv_loop chunks off msgs popped n = (ch, off', msgs', popped') -> msgs' <= msgs.
Proof.
  induction chunks as [|h t IH]; intros off msgs popped n ch off' msgs' popped' H.
  - destruct n; cbn in H; inversion H; subst; lia.
  - destruct n as [|k]; cbn [adv_loop] in H; [inversion H; subst; lia|].
    destruct (length (c_data h) - off <=? S k)%nat.
    + apply IH in H. lia.
    + inversion H; subst. lia.
Qed.

Lemma eg_advance_msgs_le e n : e_msgs (fst (eg_advance e n)) <= e_msgs e.
Proof.
  unfold eg_advance. destruct (adv_loop (e_chunks e) (e_off e) (e_msgs e) 0 n) as [[[ch off] msgs] popped] eqn:E.
  cbn. eapply adv_loop_msgs_le. exact E.
Qed.

Lemma eg_push_msgs_le e d c : e_msgs (eg_push e d c) <= e_msgs e + c.
Proof. unfold eg_push. destruct d; cbn; lia. Qed.

(* the HWM budget: what the egress buffer holds plus the carry-over never exceeds SNDHWM, and the
   pipe only shrinks *)
Lemma assemble_budget (c : bcfg) (pending : nat) (carry pipe b c' p' : list msg) :
  assemble_gen wsize true c pending (carry, pipe) = (b, (c', p')) ->
  (pending + length carry <= hwm_of c)%nat ->
  (pending + length b + length c' <= hwm_of c)%nat /\ (length p' <= length pipe)%nat.
Proof.
  unfold assemble_gen. intros H Hinv.
  destruct (gate_open c pending) eqn:Hg; [|inversion H; subst; cbn; lia].
  unfold gate_open in Hg. apply Nat.ltb_lt in Hg.
  assert (Hmc : (pending + max_count_of c pending <= hwm_of c)%nat) by (unfold max_count_of; lia).
  destruct carry as [|c0 carry].
  - destruct pipe as [|first rest]; [inversion H; subst; cbn; lia|].
    unfold assemble_recv in H.
    destruct (top_up wsize c (max_count_of c pending) [first] (wsize first) rest) as [[b' o] q'] eqn:Ht.
    inversion H; subst. apply top_up_split in Ht. destruct Ht as (pulled & H1 & H2 & _ & H4 & _).
    apply (f_equal (@length msg)) in H1. apply (f_equal (@length msg)) in H2.
    rewrite !app_length in *. cbn [length] in *. lia.
  - unfold assemble_carry_gen in H.
    destruct (drain_carry wsize (max_count_of c pending) (b_physical c) [] 0 (c0 :: carry)) as [[b0 t0] c1] eqn:Hd.
    apply drain_carry_split in Hd. destruct Hd as (Hs & _ & Hl).
    apply (f_equal (@length msg)) in Hs. rewrite app_length in Hs. cbn [length app] in *.
    destruct c1 as [|c10 c1t]; cbn [andb negb] in H.
    + destruct (top_up wsize c (max_count_of c pending) b0 t0 pipe) as [[b' o] q'] eqn:Ht.
      inversion H; subst. apply top_up_split in Ht. destruct Ht as (pulled & H1 & H2 & _ & H4 & _).
      apply (f_equal (@length msg)) in H1. apply (f_equal (@length msg)) in H2.
      rewrite !app_length in *. cbn [length app] in *. lia.
    + inversion H; subst. cbn [length] in *. lia.
Qed.

Section Ingress.
Variable cap : nat.
Notation istep := (i_step mweight cap true).

Lemma i_step_ib_le (s : istate msg) e : (forall x, e <> DEnq x) ->
  (length (i_ib (istep s e)) <= length (i_ib s))%nat.
Proof.
  intros Hne. destruct s as [ib q fut pc last del ent].
  destruct e; cbn [IngressDriver.i_step i_pc i_ib i_q i_fut i_last i_delivered i_entered].
  - exfalso. eapply Hne. reflexivity.
  - destruct pc; cbn; try lia; destruct ib; cbn; lia.
  - destruct pc as [| |t|t|t]; [cbn; lia| | | |]; destruct ib as [|x r]; cbn [length]; try (cbn; lia);
      unfold finish; repeat match goal with |- context [if ?c then _ else _] => destruct c end; cbn; lia.
  - destruct pc; cbn; lia.
  - destruct q; cbn; lia.
Qed.

Lemma enq_all_sizes : forall ms (s : istate msg),
  (length (i_ib (enq_all cap s ms)) <= length (i_ib s) + length ms)%nat
  /\ i_q (enq_all cap s ms) = i_q s.
Proof.
  unfold enq_all. induction ms as [|m ms IH]; intros s; cbn [fold_left length]; [split; [lia | reflexivity]|].
  destruct (IH (istep s (DEnq m))) as [H1 H2]. rewrite H2.
  destruct s as [ib q fut pc last del ent]. cbn in *.
  destruct pc; cbn in *; try (split; [lia | reflexivity]).
  destruct fut; cbn in *; [split; [lia | reflexivity]|]. rewrite app_length in H1. cbn in H1. split; [lia | reflexivity].
Qed.
End Ingress.

Section Buffers.
Variable bc : bcfg.
Variable ec : ecfg.
Variable cap : nat.     (* RCVHWM of the receiving socket: capacity of the per-pipe queue *)
Variable rd : nat.      (* messages decoded from one read *)
Variable g0 : engine.

Record HInv (s : pstate) : Prop := {
  h_pipe : (length (p_pipe s) <= hwm_of bc)%nat;
  h_egress : (N.to_nat (e_msgs (p_eg s)) + length (p_carry s) <= hwm_of bc)%nat;
  h_q : (length (i_q (p_in s)) <= cap)%nat;
  h_ib : (length (i_ib (p_in s)) <= rd)%nat
}.

Lemma hinv_init : HInv (p_init g0).
Proof. constructor; cbn; lia. Qed.

Lemma hinv_step s e : HInv s -> hadm bc ec rd s e -> HInv (p_step bc ec cap s e).
Proof.
  intros Hinv Ha. pose proof Hinv as [Hp He Hq Hi]. destruct e as [m| |n|k t|ie]; cbn [p_step].
  - cbn in Ha. constructor; cbn; auto. rewrite app_length. cbn. lia.
  - destruct (assemble wsize bc (N.to_nat (e_msgs (p_eg s))) (p_carry s, p_pipe s)) as [b [c' p']] eqn:E.
    destruct b as [|b0 bt]; [constructor; assumption|].
    unfold assemble in E. apply assemble_budget in E; [|exact He]. destruct E as [E1 E2].
    constructor; cbn; auto; [lia|].
    match goal with |- context [eg_push ?e ?d ?c] => pose proof (eg_push_msgs_le e d c) end.
    cbn [length] in *. lia.
  - constructor; cbn; auto.
    match goal with |- context [eg_advance ?e ?k] => pose proof (eg_advance_msgs_le e k) end. lia.
  - destruct (i_ib (p_in s)) eqn:Eib; [|constructor; cbn; rewrite ?Eib; auto].
    destruct (i_pc (p_in s)) eqn:Epc; try (constructor; cbn; rewrite ?Eib; auto; fail).
    cbn in Ha.
    destruct (e_net ec (p_eng s) (firstn k (p_wire s)) t) as [g' o] eqn:En. cbn [snd] in Ha.
    constructor; cbn [p_pipe p_eg p_carry p_in]; auto.
    + destruct (enq_all_sizes cap (deliveries o) (i_step mweight cap true (p_in s) (DCancel msg))) as [_ ->].
      assert (Ec : i_q (i_step mweight cap true (p_in s) (DCancel msg)) = i_q (p_in s)).
      { destruct (p_in s) as [ib q fut pc last del ent]. cbn in Eib, Epc. subst ib pc. reflexivity. }
      rewrite Ec. exact Hq.
    + destruct (enq_all_sizes cap (deliveries o) (i_step mweight cap true (p_in s) (DCancel msg))) as [H _].
      assert (Ec : i_ib (i_step mweight cap true (p_in s) (DCancel msg)) = []).
      { destruct (p_in s) as [ib q fut pc last del ent]. cbn in Eib, Epc. subst ib pc. reflexivity. }
      rewrite Ec in H. cbn [length] in H. eapply Nat.le_trans; [exact H|]. cbn. exact Ha.
  - destruct ie as [x| | | |]; [exact Hinv| | | |];
      (constructor; cbn [p_pipe p_eg p_carry p_in];
       [exact Hp | exact He | apply i_step_bounded; exact Hq |
        eapply Nat.le_trans; [apply i_step_ib_le; discriminate | exact Hi]]).
Qed.

Theorem hreach_inv s : hreach bc ec cap rd g0 s -> HInv s.
Proof. induction 1; [apply hinv_init | apply hinv_step; assumption]. Qed.

Lemma hrun_reach : forall evs s, hreach bc ec cap rd g0 s -> hrun_ok bc ec cap rd s evs = true ->
  hreach bc ec cap rd g0 (fold_left (p_step bc ec cap) evs s).
Proof.
  induction evs as [|e r IH]; intros s Hs Hok; cbn [fold_left]; [exact Hs|].
  cbn [hrun_ok] in Hok. apply andb_true_iff in Hok. destruct Hok as [Ha Hr].
  apply IH; [|exact Hr]. apply hr_step; [exact Hs|].
  destruct e; cbn [hadm hadm_b] in *; auto.
  - apply Nat.ltb_lt. exact Ha.
  - apply Nat.leb_le. exact Ha.
Qed.

(* BUFFER BOUND. In every reachable state of the connection - whatever the order and number of
   sends, batch activations, partial writes, reads, driver polls, cancellations and recv()s -
   rzmq holds at most 2*max(SNDHWM,1) + (one read's worth) + RCVHWM messages for it; no batching
   allowance is needed: carry-over is charged to the same SNDHWM budget as the egress buffer. *)
Theorem buffer_bound_all s : hreach bc ec cap rd g0 s ->
  (length (p_pipe s) <= hwm_of bc)%nat /\
  (N.to_nat (e_msgs (p_eg s)) + length (p_carry s) <= hwm_of bc)%nat /\
  (length (i_q (p_in s)) <= cap)%nat /\ (length (i_ib (p_in s)) <= rd)%nat /\
  (buffered s <= 2 * hwm_of bc + rd + cap)%nat.
Proof.
  intros H. apply hreach_inv in H. destruct H as [H1 H2 H3 H4]. unfold buffered. repeat split; auto; lia.
Qed.

Corollary buffer_bound_run evs : hrun_ok bc ec cap rd (p_init g0) evs = true ->
  (buffered (p_run bc ec cap g0 evs) <= 2 * hwm_of bc + rd + cap)%nat.
Proof.
  intros H. apply (hrun_reach evs (p_init g0) (hr_init bc ec cap rd g0)) in H.
  apply buffer_bound_all in H. unfold p_run. tauto.
Qed.

End Buffers.

(* ---- the inproc path (Inproc.v) ---- *)

Lemma regroup_out_le : forall bs acc out acc' out',
  regroup acc out bs = (acc', out') -> (length out' <= length out + length bs)%nat.
Proof.
  induction bs as [|b rest IH]; intros acc out acc' out' H; cbn [regroup] in H.
  - inversion H; subst. cbn. lia.
  - destruct (last_not_more (acc ++ b)); apply IH in H; rewrite ?app_length in H; cbn [length] in *; lia.
Qed.

Lemma bulk_sizes cap : forall out q q' out',
  bulk cap q out = (q', out') ->
  (length q' + length out' = length q + length out)%nat /\ (length q' <= Nat.max (length q) cap)%nat
  /\ (length out' <= length out)%nat.
Proof.
  induction out as [|x r IH]; intros q q' out' H; cbn [bulk] in H.
  - inversion H; subst. cbn. lia.
  - destruct (length q <? cap)%nat eqn:E.
    + apply IH in H. rewrite app_length in H. cbn [length] in *. apply Nat.ltb_lt in E. lia.
    + inversion H; subst. cbn. lia.
Qed.

Section InprocBuffers.
Variable chan_cap cap rcvbatch : nat.

Definition n_staged (s : nstate) : nat := (length (n_out s) + length (fly_list s))%nat.

Record NInvB (s : nstate) : Prop := {
  nb_rx : (length (n_rx s) <= chan_cap)%nat;
  nb_staged : (n_staged s <= Nat.min (Nat.max rcvbatch 1) chan_cap)%nat;
  nb_q : (length (n_q s) <= cap)%nat
}.

Lemma ninvb_step s e : NInvB s -> NInvB (n_step chan_cap cap rcvbatch s e).
Proof.
  intros Hinv. pose proof Hinv as [Hr Hs Hq]. unfold n_staged, fly_list in Hs.
  destruct e as [b|extra| |]; cbn [n_step].
  - destruct (length (n_rx s) <? chan_cap)%nat eqn:E; [|exact Hinv].
    apply Nat.ltb_lt in E. constructor; unfold n_staged, fly_list; cbn [n_rx n_out n_fly n_q]; auto.
    rewrite app_length. cbn. lia.
  - destruct (n_out s) eqn:Eo; [|exact Hinv].
    destruct (n_fly s) eqn:Ef; [exact Hinv|].
    destruct (n_rx s) as [|b rest] eqn:Er; [exact Hinv|].
    set (k := Nat.min extra (rcvbatch - 1)).
    destruct (regroup (n_acc s) [] (b :: firstn k rest)) as [acc' out'] eqn:Eg.
    destruct (bulk cap (n_q s) out') as [q' out''] eqn:Eb.
    apply regroup_out_le in Eg. apply bulk_sizes in Eb. destruct Eb as (B1 & B2 & B3).
    cbn [length] in *. rewrite firstn_length in Eg.
    constructor; unfold n_staged, fly_list; cbn [n_rx n_out n_fly n_q length].
    + rewrite skipn_length. lia.
    + subst k. lia.
    + lia.
  - destruct (n_fly s) as [x|] eqn:Ef.
    + destruct (length (n_q s) <? cap)%nat eqn:E; [|exact Hinv].
      destruct (bulk cap (n_q s ++ [x]) (n_out s)) as [q' out'] eqn:Eb.
      apply bulk_sizes in Eb. destruct Eb as (B1 & B2 & B3). rewrite app_length in *. cbn [length] in *.
      apply Nat.ltb_lt in E.
      constructor; unfold n_staged, fly_list; cbn [n_rx n_out n_fly n_q length]; auto; lia.
    + destruct (n_out s) as [|x r] eqn:Eo; [exact Hinv|].
      constructor; unfold n_staged, fly_list; cbn [n_rx n_out n_fly n_q length] in *; auto; lia.
  - destruct (n_q s) as [|x r] eqn:Eq; [exact Hinv|].
    constructor; unfold n_staged, fly_list; cbn [n_rx n_out n_fly n_q length] in *; auto; lia.
Qed.

(* over inproc the sender's SNDHWM plays no part: the channel has the RECEIVER's RCVHWM slots, the
   reader task stages at most min(max(RCVBATCH_COUNT,1), RCVHWM) batches, the per-pipe queue holds RCVHWM *)
Theorem inproc_buffer_bound_all evs :
  let s := n_run chan_cap cap rcvbatch evs in
  (length (n_rx s) <= chan_cap)%nat /\ (n_staged s <= Nat.min (Nat.max rcvbatch 1) chan_cap)%nat
  /\ (length (n_q s) <= cap)%nat
  /\ (length (n_rx s) + n_staged s + length (n_q s) <= 2 * chan_cap + cap)%nat.
Proof.
  cbv zeta. unfold n_run.
  assert (H : forall evs s0, NInvB s0 -> NInvB (fold_left (n_step chan_cap cap rcvbatch) evs s0)).
  { induction evs0 as [|e r IH]; intros s0 H0; cbn [fold_left]; [exact H0|]. apply IH, ninvb_step, H0. }
  specialize (H evs n_new). destruct H as [H1 H2 H3].
  { constructor; unfold n_staged, fly_list; cbn; lia. }
  repeat split; auto; lia.
Qed.

End InprocBuffers.

(* ---- DEALER's pending_outgoing_queue (Dealer.v) ---- *)
Lemma proc_body_pend {M} ser (s : dstate M) : (length (d_pend (proc_body ser s)) <= length (d_pend s))%nat.
Proof.
  unfold proc_body. destruct (d_conn s); [|lia]. destruct (d_pend s) eqn:Ep; [rewrite Ep; lia|].
  destruct ser; cbn; lia.
Qed.
Theorem dealer_pending_bound_all {M} ser hwm (evs : list (dev M)) :
  (length (d_pend (d_run ser hwm evs)) <= hwm)%nat.
Proof.
  unfold d_run.
  assert (H : forall evs (s0 : dstate M), (length (d_pend s0) <= hwm)%nat ->
              (length (d_pend (fold_left (d_step ser hwm) evs s0)) <= hwm)%nat).
  { induction evs0 as [|e r IH]; intros s0 H0; cbn [fold_left]; [exact H0|]. apply IH.
    destruct e; cbn [d_step].
    - destruct (d_conn s0 && negb (ser && negb (match d_pend s0 with [] => true | _ => false end))); [exact H0|].
      destruct (length (d_pend s0) <? hwm)%nat eqn:E; [|exact H0]. apply Nat.ltb_lt in E.
      cbn [d_pend]. rewrite app_length. cbn [length]. lia.
    - exact H0.
    - destruct (d_qa s0); [|exact H0]. eapply Nat.le_trans; [apply proc_body_pend | exact H0].
    - destruct (d_pa s0); [|exact H0]. eapply Nat.le_trans; [apply proc_body_pend | exact H0]. }
  apply H. cbn. lia.
Qed.

(* ---- the inproc reader with the sender interleaved inside the drain (Hwm.r_step) ---- *)
Section InprocInterleaved.
Variable chan_cap cap rcvbatch : nat.

Record RInv (s : rstate) : Prop := {
  ri_rx : (r_rx s <= chan_cap)%nat;
  ri_buf : (r_buf s + r_left s <= Nat.max rcvbatch 1)%nat;
  ri_staged : (r_staged s <= Nat.max rcvbatch 1)%nat;
  ri_excl : (0 < r_buf s -> r_staged s = 0)%nat;
  ri_q : (r_q s <= cap)%nat
}.

Lemma rinv_step s e : RInv s -> RInv (r_step chan_cap cap rcvbatch s e).
Proof.
  intros Hinv. pose proof Hinv as [H1 H2 H3 H4 H5]. destruct e; cbn [r_step].
  - destruct (r_rx s <? chan_cap)%nat eqn:E; [|exact Hinv]. apply Nat.ltb_lt in E. constructor; cbn; auto; lia.
  - destruct (r_rx s) as [|k] eqn:E1; [exact Hinv|]. destruct (r_buf s) eqn:E2; [|exact Hinv].
    destruct (r_staged s) eqn:E3; [|exact Hinv]. constructor; cbn; auto; lia.
  - destruct (r_rx s) as [|k] eqn:E1; [exact Hinv|]. destruct (r_left s) as [|l] eqn:E2; [exact Hinv|].
    destruct (r_buf s) as [|b] eqn:E3; [exact Hinv|]. constructor; cbn; try lia.
  - destruct (r_buf s) as [|b] eqn:E; [exact Hinv|]. constructor; cbn; try lia.
  - destruct (r_staged s) as [|k] eqn:E; [exact Hinv|]. destruct (r_q s <? cap)%nat eqn:E2; [|exact Hinv].
    apply Nat.ltb_lt in E2. constructor; cbn; try lia.
  - constructor; cbn; auto; lia.
Qed.

Theorem inproc_interleaved_bound_all evs :
  let s := r_run chan_cap cap rcvbatch evs in
  (r_rx s <= chan_cap)%nat /\ (r_buf s + r_staged s <= Nat.max rcvbatch 1)%nat /\ (r_q s <= cap)%nat
  /\ (r_total s <= chan_cap + Nat.max rcvbatch 1 + cap)%nat.
Proof.
  cbv zeta. unfold r_run.
  assert (H : forall evs s0, RInv s0 -> RInv (fold_left (r_step chan_cap cap rcvbatch) evs s0)).
  { induction evs0 as [|e r IH]; intros s0 H0; cbn [fold_left]; [exact H0|]. apply IH, rinv_step, H0. }
  specialize (H evs r_new). destruct H as [H1 H2 H3 H4 H5].
  { constructor; cbn; lia. }
  assert (r_buf (fold_left (r_step chan_cap cap rcvbatch) evs r_new)
          + r_staged (fold_left (r_step chan_cap cap rcvbatch) evs r_new) <= Nat.max rcvbatch 1)%nat.
  { destruct (r_buf (fold_left (r_step chan_cap cap rcvbatch) evs r_new)) eqn:E; [lia|]. rewrite H4; lia. }
  unfold r_total. repeat split; auto; lia.
Qed.
End InprocInterleaved.

(* the reader stages more than the channel can hold: RCVHWM = 1, RCVBATCH_COUNT = 128, a sender
   that refills between the reader's takes *)
Theorem inproc_staging_exceeds_channel :
  exists evs, let s := r_run 1 1 128 evs in r_buf s = 5%nat /\ r_total s = 6%nat.
Proof.
  exists [RSend; RRecv; RSend; RMore; RSend; RMore; RSend; RMore; RSend; RMore; RSend]. vm_compute. split; reflexivity.
Qed.
