(* Translator tie: the definitions REGENERATED from /repo/core/src/socket/options.rs (Extracted/OptionsX.v) are the
   model's (Model/Options.v): constants and tables by computation, the integer parsers for EVERY i32 (i64 for
   MAXMSGSIZE).  Re-proved on every run; a change of the source that alters the meaning of an option breaks a lemma. *)
From RZ Require Import Base.Prelude Model.Engine Model.Options Model.EngineCfg Extracted.OptionsX Proofs.OptionsProofs.
Local Open Scope Z_scope.

Lemma x_consts_ok : forallb (fun '(a, b) => a =? b) x_consts = true.
Proof. vm_compute. reflexivity. Qed.

Ltac small := unfold as_u64, as_u32; change (2 ^ 64) with 18446744073709551616; change (2 ^ 32) with 4294967296;
              rewrite ?Z.mod_small by lia.
Ltac parser_eq :=
  unfold i32r, i64r, i32_max; intros;
  repeat match goal with
         | |- context [if ?c then _ else _] => let E := fresh "E" in destruct c eqn:E
         end;
  try reflexivity; try lia; try (small; reflexivity); try (small; repeat f_equal; lia).

Lemma x_duration_ms_ok v id : i32r v -> x_parse_duration_ms v id = parse_duration_ms v.
Proof. unfold x_parse_duration_ms, parse_duration_ms. parser_eq. Qed.
Lemma x_secs_duration_ok v id : i32r v -> x_parse_secs_duration v id = parse_secs_duration v.
Proof. unfold x_parse_secs_duration, parse_secs_duration. parser_eq. Qed.
Lemma x_timeout_ok v id : i32r v -> x_parse_timeout v id = parse_timeout v id.
Proof. unfold x_parse_timeout, parse_timeout. parser_eq. Qed.
Lemma x_linger_ok v id : i32r v -> x_parse_linger v id = parse_linger v.
Proof. unfold x_parse_linger, parse_linger, LINGER. parser_eq. Qed.
Lemma x_u32_ok v id : i32r v -> x_parse_u32 v id = parse_u32 v.
Proof. unfold x_parse_u32, parse_u32. parser_eq. Qed.
Lemma x_heartbeat_ok v id : i32r v -> x_parse_heartbeat v id = parse_heartbeat v id.
Proof. unfold x_parse_heartbeat, parse_heartbeat. parser_eq. Qed.
Lemma x_handshake_ok v id : i32r v -> x_parse_handshake v id = parse_handshake v id.
Proof. unfold x_parse_handshake, parse_handshake. parser_eq. Qed.
Lemma x_reconnect_ivl_ok v id : i32r v -> x_parse_reconnect_ivl v id = parse_reconnect_ivl v.
Proof. unfold x_parse_reconnect_ivl, parse_reconnect_ivl, RECONNECT_IVL. parser_eq. Qed.
Lemma x_reconnect_ivl_max_ok v id : i32r v -> x_parse_reconnect_ivl_max v id = parse_reconnect_ivl_max v.
Proof. unfold x_parse_reconnect_ivl_max, parse_reconnect_ivl_max, RECONNECT_IVL_MAX. parser_eq. Qed.
Lemma x_max_connections_ok v id : i32r v -> x_parse_max_connections v id = parse_max_connections v id.
Proof. unfold x_parse_max_connections, parse_max_connections. parser_eq. Qed.
Lemma x_keepalive_mode_ok v id : i32r v -> x_parse_keepalive_mode v id = parse_keepalive_mode v.
Proof. unfold x_parse_keepalive_mode, parse_keepalive_mode, TCP_KEEPALIVE. parser_eq. Qed.
Lemma x_maxmsgsize_ok v id : i64r v -> x_parse_maxmsgsize v id = parse_maxmsgsize v.
Proof. unfold x_parse_maxmsgsize, parse_maxmsgsize, MAXMSGSIZE. parser_eq. Qed.

(* which id a wrong-length value is reported under, value widths, the bool / blob helpers: as run_pk has them *)
Lemma x_helpers_ok :
  x_i32_len = 4%nat /\ x_i32_lenerr = 0 /\ x_maxmsgsize_len = 8%nat /\ x_maxmsgsize_lenerr = MAXMSGSIZE
  /\ x_bool_true = 1 /\ x_blob_max = 255%nat /\ x_blob_err = ROUTING_ID
  /\ x_lenerr_id_timeout = true /\ x_lenerr_id_heartbeat = true /\ x_lenerr_id_handshake = true
  /\ x_lenerr_id_max_connections = true
  /\ x_lenerr_id_linger = false /\ x_lenerr_id_reconnect_ivl = false /\ x_lenerr_id_reconnect_ivl_max = false
  /\ x_lenerr_id_secs_duration = false /\ x_lenerr_id_u32 = false /\ x_lenerr_id_duration_ms = false.
Proof. repeat split; reflexivity. Qed.

(* the two dispatch tables and the defaults *)
Lemma x_apply_rules_ok : x_apply_rules = apply_rules.
Proof. reflexivity. Qed.
Lemma x_apply_unsupported_ok : x_apply_unsupported = apply_unsupported.
Proof. reflexivity. Qed.
Lemma x_get_rules_ok : x_get_rules = get_rules.
Proof. reflexivity. Qed.
Lemma x_get_unsupported_ok : x_get_unsupported = get_unsupported.
Proof. reflexivity. Qed.
Lemma x_defaults_ok : Forall (fun '(f, v) => default_opts f = v) x_defaults.
Proof. repeat constructor. Qed.
(* hence the extracted tables give the model's apply / retrieve on every input *)
Theorem x_apply_ok o id b : apply_with x_apply_rules x_apply_unsupported o id b = apply_opt o id b.
Proof. now rewrite x_apply_rules_ok, x_apply_unsupported_ok. Qed.
Theorem x_retrieve_ok o id : retrieve_with x_get_rules x_get_unsupported o id = retrieve_opt o id.
Proof. now rewrite x_get_rules_ok, x_get_unsupported_ok. Qed.

(* impl From<&SocketOptions> for ZmtpEngineConfig and calculate_required_slot_size (Model/EngineCfg.v) *)
Lemma x_sec_fields_ok : x_sec_fields = sec_fields.
Proof. reflexivity. Qed.
Lemma x_cfg_copies_ok : x_cfg_copies = cfg_copies.
Proof. reflexivity. Qed.
Lemma x_uring_snd_buffer_ok : x_uring_snd_buffer = URING_SND_BUFFER.
Proof. reflexivity. Qed.
Lemma x_slot_raw_ok target count : x_slot_raw target count = slot_raw target count.
Proof. reflexivity. Qed.
