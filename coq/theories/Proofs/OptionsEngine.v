(* The option layer composed with the engine model: heartbeat interval and message-size limit as the application sets
   them.  The engine model counts nanoseconds; options are milliseconds (Duration::from_millis). *)
From RZ Require Import Base.Prelude Base.Stepper Model.Codec Proofs.CodecProofs Model.Engine
  Proofs.EngineProofs Proofs.EngineHeartbeat.
From RZ Require Import Model.Options Model.EngineCfg Proofs.OptionsProofs Proofs.EngineCfgProofs.
Local Open Scope N_scope.

Definition ms_to_ns (o : option N) : option N := option_map (fun ms => ms * 1000000) o.

Lemma set_heartbeat_ivl (o : opts) (d : Z) : (0 <= d <= 2147483647)%Z ->
  exists o', apply_opt o HEARTBEAT_IVL (i32_bytes d) = inl o' /\ cfg_heartbeat_ivl o' = ivl_decode d.
Proof.
  intros H. pose proof (proj1 (heartbeat_semantics o (i32_bytes d))) as P.
  rewrite i32_roundtrip in P by (unfold i32r; lia).
  destruct (apply_opt o HEARTBEAT_IVL (i32_bytes d)) as [o'|e].
  - destruct P as (v & [= <-] & _ & Hv & _). exists o'. split; [reflexivity|].
    rewrite (proj1 (cfg_reads_options o')). exact Hv.
  - destruct P as (_ & [Hx|(v & [= <-] & Hx)]); [discriminate | lia].
Qed.

(* HEARTBEAT_IVL = d > 0 set through set_option: a tick emits a PING only when none is outstanding and at least d ms have
   passed since the last activity *)
Theorem heartbeat_option_ping_not_early (o : opts) (d : Z) cfg g now x : (0 < d <= 2147483647)%Z ->
  exists o', apply_opt o HEARTBEAT_IVL (i32_bytes d) = inl o' /\
    (c_hb_ivl cfg = ms_to_ns (cfg_heartbeat_ivl o') ->
     In x (snd (e_tick cfg g now)) -> (exists b z, x = OSend b z) ->
     h_waiting (g_hb g) = false /\ Z.to_N d * 1000000 <= now - h_last_activity (g_hb g)).
Proof.
  intros Hd. destruct (set_heartbeat_ivl o d ltac:(lia)) as (o' & Ha & Hc). exists o'. split; [exact Ha|].
  intros Hcfg Hin Hs. destruct (ping_not_early cfg g now x Hin Hs) as (ivl & Hi & Hw & Hle).
  rewrite Hcfg, Hc in Hi. unfold ivl_decode in Hi. destruct (Z.eqb_spec d 0); [lia|].
  cbn [ms_to_ns option_map] in Hi. injection Hi as <-. split; assumption.
Qed.
(* HEARTBEAT_IVL = 0: no tick ever emits anything to send *)
Theorem heartbeat_option_zero_never_pings (o : opts) cfg g now x :
  exists o', apply_opt o HEARTBEAT_IVL (i32_bytes 0) = inl o' /\
    (c_hb_ivl cfg = ms_to_ns (cfg_heartbeat_ivl o') -> In x (snd (e_tick cfg g now)) -> ~ exists b z, x = OSend b z).
Proof.
  destruct (set_heartbeat_ivl o 0 ltac:(lia)) as (o' & Ha & Hc). exists o'. split; [exact Ha|].
  intros Hcfg Hin Hs. destruct (ping_not_early cfg g now x Hin Hs) as (ivl & Hi & _).
  rewrite Hcfg, Hc in Hi. discriminate.
Qed.

(* MAXMSGSIZE = m >= 0 set through set_option (an 8-byte value): the live decoder accepts a frame of exactly m bytes and
   rejects one of m + 1 or more, whatever follows it in the buffer *)
From RZ Require Import Proofs.EngineSafety.
Theorem maxmsgsize_option_limit (o : opts) (m : Z) : (0 <= m <= 9223372036854775807)%Z ->
  exists o', apply_opt o MAXMSGSIZE (i64_bytes m) = inl o' /\ cfg_max_msg_size o' = m /\
    (forall f rest, fits f -> len (f_payload f) = Z.to_N m ->
       dec_buffer (cfg_max_msg_size o') (enc_codec f ++ rest) = DFrame f (length (enc_codec f))) /\
    (forall f rest, fits f -> Z.to_N m < len (f_payload f) ->
       dec_buffer (cfg_max_msg_size o') (enc_codec f ++ rest) = DErr).
Proof.
  intros H. pose proof (maxmsgsize_semantics o (i64_bytes m)) as P. rewrite i64_roundtrip in P by (unfold i64r; lia).
  destruct (apply_opt o MAXMSGSIZE (i64_bytes m)) as [o'|e].
  - destruct P as (v & [= <-] & _ & Hv & _). exists o'. split; [reflexivity|].
    assert (Hc : cfg_max_msg_size o' = m) by (rewrite (proj1 (proj2 (proj2 (proj2 (cfg_reads_options o'))))); exact Hv).
    rewrite Hc. split; [reflexivity|]. split.
    + intros f rest Hf Hl. apply limit_accepts_exact; [lia | assumption | assumption].
    + intros f rest Hf Hl. apply limit_rejects_above; [lia | assumption | assumption].
  - destruct P as (_ & [Hx|(v & [= <-] & Hx)]); [discriminate | lia].
Qed.
