(* Proofs about the IngressDriver model (Model/IngressDriver.v). *)
From RZ Require Import Base.Prelude Model.IngressDriver.

Set Implicit Arguments.

Section IngressProofs.
Variable T : Type.
Variable weight : T -> nat.
Variable cap : nat.

Notation i_step := (i_step weight cap true).
Notation i_run := (i_run weight cap true).

(* the conservation equation is preserved by EVERY atomic step: driver attempt, consumer pop,
   cancellation, new decoded batch - at every program point of the driver *)
Lemma finish_eq (s : istate T) ib q fut t :
  i_delivered (finish s ib q fut t) = i_delivered s /\ i_q (finish s ib q fut t) = q
  /\ i_ib (finish s ib q fut t) = ib /\ i_entered (finish s ib q fut t) = i_entered s.
Proof. unfold finish. destruct (0 <? t); cbn; auto. Qed.

Ltac fin :=
  match goal with
  | |- context [finish ?s ?ib ?q ?f ?t] =>
      let E := fresh in destruct (finish_eq s ib q f t) as (E & ? & ? & ?);
      repeat match goal with H : _ (finish s ib q f t) = _ |- _ => rewrite H; clear H end
  end.

Lemma i_step_conserves s e :
  i_delivered s ++ i_q s ++ i_ib s = i_entered s ->
  i_delivered (i_step s e) ++ i_q (i_step s e) ++ i_ib (i_step s e) = i_entered (i_step s e).
Proof.
  destruct s as [ib q fut pc last del ent]. cbn [i_delivered i_q i_ib i_entered]. intros H.
  destruct e; cbn [IngressDriver.i_step i_pc i_ib i_q i_fut i_last i_delivered i_entered].
  - destruct pc; try exact H. destruct fut; [exact H|]. cbn. rewrite <- H, <- !app_assoc. reflexivity.
  - destruct pc; try exact H. destruct ib; exact H.
  - destruct pc as [| |t|t|t]; [exact H| | | |]; destruct ib as [|x r]; try exact H;
      try (fin; cbn; exact H);
      destruct (length q <? cap); try (fin; cbn); cbn; try exact H;
      rewrite <- H, <- !app_assoc; reflexivity.
  - destruct pc; exact H.
  - destruct q as [|x r]; [exact H|]. cbn. rewrite <- H, <- !app_assoc. reflexivity.
Qed.

(* the queue never holds more than its capacity *)
Lemma i_step_bounded s e : length (i_q s) <= cap -> length (i_q (i_step s e)) <= cap.
Proof.
  destruct s as [ib q fut pc last del ent]. cbn [i_q]. intros H.
  destruct e; cbn [IngressDriver.i_step i_pc i_ib i_q i_fut i_last i_delivered i_entered].
  - destruct pc; try exact H. destruct fut; exact H.
  - destruct pc; try exact H. destruct ib; exact H.
  - destruct pc as [| |t|t|t]; [exact H| | | |]; destruct ib as [|x r]; try exact H;
      try (fin; cbn; exact H);
      destruct (length q <? cap) eqn:Hr; try (fin; cbn); cbn; try exact H;
      apply Nat.ltb_lt in Hr; rewrite app_length; cbn; lia.
  - destruct pc; exact H.
  - destruct q as [|x r]; [exact H|]. cbn in *. lia.
Qed.

(* INGRESS EXACTLY ONCE. For every interleaving of driver attempts, consumer pops, cancellations
   of the driver future at any point where it is not being polled, and newly decoded batches:
   what the application has popped, followed by what sits in the per-pipe queue, followed by
   what is still in the ingress buffer, is exactly the sequence that was decoded - at every
   moment, hence no loss, no duplicate and no reordering however the future is dropped. *)
Theorem ingress_exactly_once evs :
  let s := i_run (i_new T) evs in
  i_delivered s ++ i_q s ++ i_ib s = i_entered s /\ length (i_q s) <= cap.
Proof.
  unfold IngressDriver.i_run.
  assert (G : forall evs s0, i_delivered s0 ++ i_q s0 ++ i_ib s0 = i_entered s0 -> length (i_q s0) <= cap ->
     let s := fold_left i_step evs s0 in
     i_delivered s ++ i_q s ++ i_ib s = i_entered s /\ length (i_q s) <= cap).
  { clear evs. induction evs as [|e evs IH]; intros s0 H1 H2; cbn [fold_left]; [auto|].
    apply IH; [apply i_step_conserves; exact H1 | apply i_step_bounded; exact H2]. }
  apply G; cbn; [reflexivity | lia].
Qed.

Corollary ingress_quiescent evs :
  let s := i_run (i_new T) evs in
  i_q s = [] -> i_ib s = [] -> i_delivered s = i_entered s.
Proof.
  intros s Hq Hib. destruct (ingress_exactly_once evs) as [H _]. fold s in H.
  rewrite Hq, Hib, !app_nil_r in H. exact H.
Qed.

End IngressProofs.
