From RZ Require Import Base.Prelude Base.Stepper Model.Codec Proofs.CodecProofs Model.Engine
  Proofs.EngineProofs Proofs.EngineHeartbeat Model.HbActor.
Local Open Scope N_scope.

(* HEARTBEAT_TIMEOUT as the session's backstop timer sees it (30 s when the option is unset) *)
Definition hb_window (cfg : ecfg) : N := match c_hb_timeout cfg with Some t => t | None => 30000000000 end.

Lemma first_err_in o e : first_err o = Some e -> In (OErr e) o.
Proof.
  unfold first_err. intros H.
  destruct (filter (fun x => match x with OErr _ => true | _ => false end) o) as [|x l] eqn:E; [discriminate|].
  assert (Hin : In x (x :: l)) by (left; reflexivity). rewrite <- E in Hin. apply filter_In in Hin.
  destruct x; try discriminate. inversion H; subst. apply Hin.
Qed.

Lemma first_err_app_none m cfg g : first_err (snd (e_app cfg g m)) = None.
Proof. unfold e_app. destruct (e_phase (g_st g)); reflexivity. Qed.

(* the heartbeat logic of the session gives up with Timeout only at a tick or at the backstop timer, and only when a
   PING has been outstanding for the whole window *)
Theorem a_timeout_not_early cfg s e :
  a_fatal s = None -> a_fatal (fst (a_step cfg s e)) = Some ETimeout ->
  exists now p, (e = ATick now \/ e = ADeadline now) /\
    h_waiting (g_hb (a_eng s)) = true /\ h_last_ping (g_hb (a_eng s)) = Some p /\
    (match e with ATick _ => exists t, c_hb_timeout cfg = Some t /\ t <= now - p | _ => hb_window cfg <= now - p end).
Proof.
  intros Hs. unfold a_step. rewrite Hs. destruct e as [now|now|d now|now|m].
  - destruct (e_tick cfg (a_eng s) now) as [g o] eqn:Et. cbn [fst a_fatal]. intros Hf.
    apply first_err_in in Hf.
    assert (Hin : In (OErr ETimeout) (snd (e_tick cfg (a_eng s) now))) by (rewrite Et; exact Hf).
    destruct (timeout_only_when_unanswered _ _ _ Hin) as (t & p & Ht & Hw & Hp & Hl).
    exists now, p. split; [left; reflexivity|]. split; [exact Hw|]. split; [exact Hp|]. exists t. split; assumption.
  - unfold e_pong_deadline, hb_window.
    destruct (h_waiting (g_hb (a_eng s))) eqn:Ew; [|cbn; rewrite Hs; discriminate].
    destruct (h_last_ping (g_hb (a_eng s))) as [p|] eqn:Ep; [|cbn; rewrite Hs; discriminate].
    destruct (N.leb_spec (p + match c_hb_timeout cfg with Some t => t | None => 30000000000 end) now) as [Hle|Hgt];
      cbn [fst a_fatal]; [|rewrite Hs; discriminate].
    intros _. exists now, p. split; [right; reflexivity|]. split; [reflexivity|]. split; [reflexivity|]. lia.
  - destruct (e_net cfg (a_eng s) d now) as [g o] eqn:En. cbn [fst a_fatal]. intros Hf.
    apply first_err_in in Hf. exfalso.
    pose proof (e_net_no_timeout cfg (a_eng s) d now) as Hn. rewrite En in Hn. apply Hn. exact Hf.
  - cbn. discriminate.
  - destruct (e_app cfg (a_eng s) m) as [g o] eqn:Ea. cbn [fst a_fatal]. discriminate.
Qed.

(* the backstop: polled at or after PING + window while the PING is still unanswered, the session gives up *)
Theorem a_dead_peer_closed_at_deadline cfg s p now :
  a_fatal s = None -> h_waiting (g_hb (a_eng s)) = true -> h_last_ping (g_hb (a_eng s)) = Some p ->
  p + hb_window cfg <= now ->
  a_fatal (fst (a_step cfg s (ADeadline now))) = Some ETimeout /\ snd (a_step cfg s (ADeadline now)) = [OErr ETimeout].
Proof.
  intros Hs Hw Hp Hl. unfold a_step. rewrite Hs. rewrite (pong_deadline_from_ping cfg (a_eng s) p Hw Hp).
  fold (hb_window cfg). assert (p + hb_window cfg <=? now = true) as -> by lia. split; reflexivity.
Qed.
(* ... and before that it does nothing *)
Theorem a_deadline_not_due cfg s p now :
  a_fatal s = None -> h_waiting (g_hb (a_eng s)) = true -> h_last_ping (g_hb (a_eng s)) = Some p ->
  now < p + hb_window cfg -> a_step cfg s (ADeadline now) = (s, []).
Proof.
  intros Hs Hw Hp Hl. unfold a_step. rewrite Hs. rewrite (pong_deadline_from_ping cfg (a_eng s) p Hw Hp).
  fold (hb_window cfg). assert (p + hb_window cfg <=? now = false) as -> by lia. reflexivity.
Qed.
Theorem a_deadline_idle cfg s now :
  a_fatal s = None -> h_waiting (g_hb (a_eng s)) = false -> a_step cfg s (ADeadline now) = (s, []).
Proof.
  intros Hs Hw. unfold a_step. rewrite Hs. rewrite (pong_deadline_none_when_not_waiting cfg _ Hw). reflexivity.
Qed.

(* a tick at or after PING + HEARTBEAT_TIMEOUT does the same *)
Theorem a_dead_peer_closed_at_tick cfg s t p now :
  a_fatal s = None -> hb_active (a_eng s) -> c_hb_timeout cfg = Some t ->
  h_waiting (g_hb (a_eng s)) = true -> h_last_ping (g_hb (a_eng s)) = Some p -> p + t <= now ->
  a_fatal (fst (a_step cfg s (ATick now))) = Some ETimeout.
Proof.
  intros Hs Ha Ht Hw Hp Hl. unfold a_step. rewrite Hs.
  destruct (dead_peer_closed cfg (a_eng s) now t p Ha Ht Hw Hp Hl) as [Ho _].
  destruct (e_tick cfg (a_eng s) now) as [g o]. cbn [snd] in Ho. subst o. reflexivity.
Qed.

(* events after which the PING is still unanswered: no PONG is parsed, no tick / backstop poll reaches its deadline *)
Definition a_unanswered (cfg : ecfg) (s : ast) (e : aev) : bool :=
  match e with
  | ANet d _ => let '(_, _, o) := pump (estep cfg) emu EMU_MAX (g_st (a_eng s)) (g_acc (a_eng s) ++ d) in negb (has_pong o)
  | ATick now => negb (timed_out cfg (a_eng s) now)
  | ADeadline now => match e_pong_deadline cfg (a_eng s) with Some d => now <? d | None => true end
  | AWrote _ | AApp _ => true
  end.
Fixpoint a_unanswered_run (cfg : ecfg) (s : ast) (es : list aev) : bool :=
  match es with
  | [] => true
  | e :: rest => a_unanswered cfg s e && a_unanswered_run cfg (fst (a_step cfg s e)) rest
  end.

Lemma a_step_keeps_ping cfg s e p :
  a_fatal s = None -> h_waiting (g_hb (a_eng s)) = true -> h_last_ping (g_hb (a_eng s)) = Some p ->
  a_unanswered cfg s e = true ->
  h_waiting (g_hb (a_eng (fst (a_step cfg s e)))) = true /\ h_last_ping (g_hb (a_eng (fst (a_step cfg s e)))) = Some p.
Proof.
  intros Hs Hw Hp Hu. unfold a_step. rewrite Hs. destruct e as [now|now|d now|now|m]; cbn [a_unanswered] in Hu.
  - pose proof (unanswered_keeps_ping cfg (a_eng s) (ITick now) p Hw Hp Hu) as H. cbn [e_input] in H.
    destruct (e_tick cfg (a_eng s) now) as [g o]. cbn [fst a_eng] in *. exact H.
  - destruct (e_pong_deadline cfg (a_eng s)) as [d|]; [|cbn; auto].
    apply N.ltb_lt in Hu. assert (d <=? now = false) as -> by lia. cbn. auto.
  - pose proof (unanswered_keeps_ping cfg (a_eng s) (INet d now) p Hw Hp Hu) as H. cbn [e_input] in H.
    destruct (e_net cfg (a_eng s) d now) as [g o]. cbn [fst a_eng] in *. exact H.
  - cbn. auto.
  - pose proof (unanswered_keeps_ping cfg (a_eng s) (IApp m) p Hw Hp eq_refl) as H. cbn [e_input] in H.
    destruct (e_app cfg (a_eng s) m) as [g o]. cbn [fst a_eng] in *. exact H.
Qed.

Lemma fst_a_run_cons cfg s e es : fst (a_run cfg s (e :: es)) = fst (a_run cfg (fst (a_step cfg s e)) es).
Proof. cbn [a_run]. destruct (a_step cfg s e) as [s1 o]. cbn [fst]. destruct (a_run cfg s1 es). reflexivity. Qed.

Lemma a_fatal_absorbing cfg : forall es s e0, a_fatal s = Some e0 -> a_fatal (fst (a_run cfg s es)) = Some e0.
Proof.
  induction es as [|e es IH]; intros s e0 H; [exact H|].
  rewrite fst_a_run_cons. apply IH. unfold a_step. rewrite H. exact H.
Qed.

(* "closed if no PONG arrives within HEARTBEAT_TIMEOUT of that PING", for the session: whatever happens after the PING
   at p - writes of the local application, inbound frames that are not a PONG, ticks and backstop polls before their
   deadlines - either the session has already given up for another reason, or the backstop poll at or after
   p + window ends it with Timeout; the window is anchored at the PING *)
Theorem a_dead_peer_closed_despite_traffic cfg p now : forall es s,
  a_fatal s = None -> h_waiting (g_hb (a_eng s)) = true -> h_last_ping (g_hb (a_eng s)) = Some p ->
  a_unanswered_run cfg s es = true -> p + hb_window cfg <= now ->
  a_fatal (fst (a_run cfg s (es ++ [ADeadline now]))) <> None.
Proof.
  induction es as [|e es IH]; intros s Hs Hw Hp Hu Hl.
  - cbn [app]. rewrite fst_a_run_cons. cbn [a_run fst].
    destruct (a_dead_peer_closed_at_deadline cfg s p now Hs Hw Hp Hl) as [Hf _]. rewrite Hf. discriminate.
  - cbn [a_unanswered_run] in Hu. apply andb_true_iff in Hu. destruct Hu as [Hu1 Hu2].
    cbn [app]. rewrite fst_a_run_cons.
    destruct (a_step_keeps_ping cfg s e p Hs Hw Hp Hu1) as [Hw' Hp'].
    destruct (a_fatal (fst (a_step cfg s e))) as [e0|] eqn:Ef.
    + rewrite (a_fatal_absorbing cfg _ _ e0 Ef). discriminate.
    + apply IH; assumption.
Qed.
