(* The ready-pipe-queue protocol: invariant over every schedule, and its consequences
   (no stale pop, exactly-once in order, no lost wake-up / deadlock freedom, cancel safety). *)
From RZ Require Import Base.Prelude Model.Rpq.

(* ------------------------------------------------------------------ small lemmas *)
Lemma upd_eq {A} (f : nat -> A) i v : upd f i v i = v.
Proof. unfold upd. rewrite Nat.eqb_refl. reflexivity. Qed.
Lemma upd_neq {A} (f : nat -> A) i j v : j <> i -> upd f i v j = f j.
Proof. unfold upd. intros H. destruct (Nat.eqb_spec j i); congruence. Qed.

Lemma csum_upd_ge f cs i v n : n <= i -> csum f (upd cs i v) n = csum f cs n.
Proof.
  induction n as [|n IH]; intros H; [reflexivity|]. cbn [csum]. rewrite IH by lia.
  rewrite upd_neq by lia. reflexivity.
Qed.
Lemma csum_upd f cs i v n : i < n -> csum f (upd cs i v) n = (csum f cs n - f (cs i) + f v)%Z.
Proof.
  induction n as [|n IH]; intros H; [lia|]. cbn [csum]. destruct (Nat.eq_dec i n) as [->|Hne].
  - rewrite csum_upd_ge by lia. rewrite upd_eq. lia.
  - rewrite IH by lia. rewrite upd_neq by lia. lia.
Qed.
Lemma csum_nonneg f cs n : (forall c, 0 <= f c)%Z -> (0 <= csum f cs n)%Z.
Proof. intros H. induction n; cbn [csum]; [lia|]. specialize (H (cs n)). lia. Qed.
Lemma csum_ge_term f cs n i : (forall c, 0 <= f c)%Z -> i < n -> (f (cs i) <= csum f cs n)%Z.
Proof.
  intros H. induction n as [|n IH]; intros Hi; [lia|]. cbn [csum].
  destruct (Nat.eq_dec i n) as [->|Hne].
  - pose proof (csum_nonneg f cs n H). lia.
  - specialize (IH ltac:(lia)). specialize (H (cs n)). lia.
Qed.
Lemma csum_zero f cs n : (forall k, k < n -> f (cs k) = 0%Z) -> csum f cs n = 0%Z.
Proof. induction n as [|n IH]; intros H; cbn [csum]; [reflexivity|]. rewrite IH, H by auto. reflexivity. Qed.

Lemma b2z_range b : (0 <= b2z b <= 1)%Z.
Proof. destruct b; simpl; lia. Qed.
Lemma c_tok_nonneg p c : (0 <= c_tok p c)%Z.
Proof. destruct c; simpl; try lia; apply b2z_range. Qed.
Lemma c_tns_nonneg p c : (0 <= c_tns p c)%Z.
Proof. destruct c; simpl; try lia; apply b2z_range. Qed.
Lemma c_c3_nonneg p c : (0 <= c_c3 p c)%Z.
Proof. destruct c; simpl; try lia; apply b2z_range. Qed.
Lemma c_tns_le_tok p c : (c_tns p c <= c_tok p c)%Z.
Proof. destruct c; simpl; try lia; apply b2z_range. Qed.
(* the consumers other than i that have taken an item hold a token each *)
Lemma csum_tns_le p cs n i : i < n ->
  (csum (c_tns p) cs n + (c_tok p (cs i) - c_tns p (cs i)) <= csum (c_tok p) cs n)%Z.
Proof.
  induction n as [|n IH]; intros Hi; [lia|]. cbn [csum].
  destruct (Nat.eq_dec i n) as [->|Hne].
  - assert (csum (c_tns p) cs n <= csum (c_tok p) cs n)%Z.
    { clear. induction n; cbn [csum]; [lia|]. pose proof (c_tns_le_tok p (cs n)). lia. }
    lia.
  - specialize (IH ltac:(lia)). pose proof (c_tns_le_tok p (cs n)). lia.
Qed.
Lemma p_arm_range pc : (0 <= p_arm pc <= 1)%Z.
Proof. destruct pc; simpl; try lia; destruct hz; lia. Qed.
Lemma p_unc_range pc : (0 <= p_unc pc <= 1)%Z.
Proof. destruct pc; simpl; lia. Qed.
Lemma p_infl_nonneg pc : (0 <= p_infl pc)%Z.
Proof. destruct pc; simpl; lia. Qed.
Lemma p_unc_le_infl pc : (p_unc pc <= p_infl pc)%Z.
Proof. destruct pc; simpl; lia. Qed.

Lemma cnt_nonneg p l : (0 <= cnt p l)%Z.
Proof. induction l as [|q l IH]; cbn [cnt]; [lia|]. pose proof (b2z_range (q =? p)). lia. Qed.
Lemma cnt_app p l q : cnt p (l ++ [q]) = (cnt p l + b2z (Nat.eqb q p))%Z.
Proof. induction l as [|r l IH]; cbn [cnt app]; [lia|]. rewrite IH. lia. Qed.
Lemma cnt_in p l : In p l -> (1 <= cnt p l)%Z.
Proof.
  induction l as [|q l IH]; intros H; [destruct H|]. cbn [cnt]. destruct H as [->|H].
  - rewrite Nat.eqb_refl. pose proof (cnt_nonneg p l). cbn [b2z]. lia.
  - specialize (IH H). pose proof (b2z_range (q =? p)). lia.
Qed.
Lemma cnt_notin p l : cnt p l = 0%Z -> ~ In p l.
Proof. intros H Hi. apply cnt_in in Hi. lia. Qed.
Lemma cnt_nodup l : (forall p, cnt p l <= 1)%Z -> NoDup l.
Proof.
  induction l as [|q l IH]; intros H; constructor.
  - intros Hi. apply cnt_in in Hi. specialize (H q). cbn [cnt] in H. rewrite Nat.eqb_refl in H. cbn [b2z] in H. pose proof (cnt_nonneg q l). lia.
  - apply IH. intros p. specialize (H p). cbn [cnt] in H. pose proof (b2z_range (q =? p)). lia.
Qed.
Lemma existsb_eqb_cnt p l : existsb (Nat.eqb p) l = false -> cnt p l = 0%Z.
Proof.
  induction l as [|q l IH]; cbn [existsb cnt]; [reflexivity|]. intros H. apply orb_false_iff in H as [H1 H2].
  rewrite (Nat.eqb_sym q p), H1, IH by exact H2. reflexivity.
Qed.

(* a duplicate-free list of numbers below n that misses q < n is shorter than n *)
Lemma short_ready (l : list nat) n q :
  (forall p, cnt p l <= 1)%Z -> (forall r, In r l -> r < n) -> q < n -> cnt q l = 0%Z -> length l < n.
Proof.
  intros Hc Hr Hq H0.
  assert (Hnd : NoDup (q :: l)). { constructor; [apply cnt_notin; exact H0|apply cnt_nodup; exact Hc]. }
  assert (Hincl : incl (q :: l) (seq 0 n)).
  { intros r [<-|Hi]; apply in_seq; [lia|]. specialize (Hr r Hi). lia. }
  pose proof (NoDup_incl_length Hnd Hincl) as H. rewrite seq_length in H. simpl in H. lia.
Qed.

Lemma taken_of_app p s qx :
  taken_of p (set_taken s (taken s ++ [qx])) = taken_of p s ++ (if fst qx =? p then [snd qx] else []).
Proof.
  unfold taken_of. cbn [taken set_taken]. rewrite filter_app, map_app. cbn [filter].
  destruct (fst qx =? p); reflexivity.
Qed.

(* ------------------------------------------------------------------ the invariant *)
Record RpqInv (c : cfg) (s : st) : Prop := mkInv {
  (* the counter lags the channel by the in-flight steps only *)
  i_q : forall p, queued s p = (Z.of_nat (length (chan s p)) - p_unc (prod s p) + csum (c_tns p) (cons s) (nc c))%Z;
  (* at most one ready token per pipe, and it exists exactly while queued > 0 (no underflow) *)
  i_tok : forall p, (queued s p = 0 /\ tokens c s p = 0)%Z \/ (0 < queued s p /\ tokens c s p = 1)%Z;
  i_res : forall p, reserved s p = (queued s p + p_infl (prod s p) + csum (c_c3 p) (cons s) (nc c))%Z;
  i_cap : forall p, length (chan s p) <= cap c p;
  i_fifo : forall p, pushed s p = taken_of p s ++ chan s p;
  i_rng : forall q, In q (ready s) -> q < np c;
  i_crng : forall i q, c_pipe (cons s i) = Some q -> q < np c;
  (* the arming sends never find the ready list full *)
  i_nopark_p : forall p, prod s p <> SArm true;
  i_nopark_c : forall i b q x, cons s i <> CArm b q x true
}.

Lemma inv_init c pp cp : RpqInv c (init pp cp).
Proof.
  constructor; cbn [init chan queued reserved ready prod cons pushed taken In c_pipe]; intros; try discriminate; try tauto.
  - cbn [p_unc length]. rewrite csum_zero by reflexivity. reflexivity.
  - left. unfold tokens. cbn [ready prod cons init cnt p_arm]. rewrite csum_zero by reflexivity. lia.
  - cbn [p_infl]. rewrite csum_zero by reflexivity. reflexivity.
  - simpl. lia.
Qed.

Lemma inv_cnt_le1 c s : RpqInv c s -> forall p, (cnt p (ready s) <= 1)%Z.
Proof.
  intros HI p. destruct (i_tok _ _ HI p) as [[_ H]|[_ H]]; unfold tokens in H;
    pose proof (p_arm_range (prod s p)); pose proof (csum_nonneg (c_tok p) (cons s) (nc c) (c_tok_nonneg p));
    pose proof (cnt_nonneg p (ready s)); lia.
Qed.

Lemma ready_room c s q : RpqInv c s -> np c <= rcap c -> q < np c -> cnt q (ready s) = 0%Z -> rroom c s = true.
Proof.
  intros HI Hcap Hq H0. unfold rroom. apply Nat.ltb_lt.
  pose proof (short_ready (ready s) (np c) q (inv_cnt_le1 c s HI) (i_rng _ _ HI) Hq H0). lia.
Qed.

(* ------------------------------------------------------------------ tactics *)
Ltac simp_st :=
  cbn [chan queued reserved reg ready prod pprog cons cprog pushed taken out
       set_chan set_queued set_reserved set_reg set_ready set_prod set_pprog set_cons set_cprog
       set_pushed set_taken set_out write add_res add_q arm pto cto pdone cdone] in *.

Ltac eqb_cases :=
  repeat match goal with
         | |- context [Nat.eqb ?a ?b] => destruct (Nat.eqb_spec a b); try subst; try lia; try congruence
         | H : context [Nat.eqb ?a ?b] |- _ => destruct (Nat.eqb_spec a b); try subst; try lia; try congruence
         end.

Ltac zb_cases :=
  repeat match goal with
         | |- context [Z.eqb ?a ?b] => destruct (Z.eqb_spec a b)
         | |- context [Z.ltb ?a ?b] => destruct (Z.ltb_spec a b)
         | H : context [Z.ltb ?a ?b] |- _ => destruct (Z.ltb_spec a b)
         end.

Lemma parm_room c s p : RpqInv c s -> np c <= rcap c -> p < np c -> p_arm (prod s p) = 1%Z -> rroom c s = true.
Proof.
  intros HI Hcap Hp Ha. apply (ready_room c s p HI Hcap Hp).
  pose proof (cnt_nonneg p (ready s)). pose proof (csum_nonneg (c_tok p) (cons s) (nc c) (c_tok_nonneg p)).
  destruct (i_tok _ _ HI p) as [[_ Hk]|[_ Hk]]; unfold tokens in Hk; lia.
Qed.

Lemma ctok_room c s i q : RpqInv c s -> np c <= rcap c -> i < nc c -> c_tok q (cons s i) = 1%Z -> q < np c ->
  rroom c s = true.
Proof.
  intros HI Hcap Hi Ha Hq. apply (ready_room c s q HI Hcap Hq).
  pose proof (cnt_nonneg q (ready s)). pose proof (p_arm_range (prod s q)).
  pose proof (csum_ge_term (c_tok q) (cons s) (nc c) i (c_tok_nonneg q) Hi).
  destruct (i_tok _ _ HI q) as [[_ Hk]|[_ Hk]]; unfold tokens in Hk; lia.
Qed.

Ltac use_inv HI p0 :=
  pose proof (i_q _ _ HI p0) as Hq_; pose proof (i_tok _ _ HI p0) as Ht_; pose proof (i_res _ _ HI p0) as Hr_;
  pose proof (i_cap _ _ HI p0) as Hc_; pose proof (i_fifo _ _ HI p0) as Hf_; pose proof (i_nopark_p _ _ HI p0) as Hn_.

(* per-pipe conjuncts after a step of producer p (E : prod s p = ...) *)
Ltac pipe_p HI E p :=
  let p0 := fresh "p0" in
  intros p0; use_inv HI p0; unfold tokens, taken_of in *; simp_st; unfold upd in *;
  match goal with
  | s0 : st |- _ =>
      pose proof (cnt_nonneg p0 (ready s0));
      match goal with c0 : cfg |- _ => pose proof (csum_nonneg (c_tok p0) (cons s0) (nc c0) (c_tok_nonneg p0)) end
  end;
  rewrite ?cnt_app in *;
  destruct (Nat.eqb_spec p0 p);
  [subst p0; rewrite ?E in *; rewrite ?Nat.eqb_refl in *|eqb_cases];
  cbn [p_arm p_unc p_infl orb b2z] in *; rewrite ?app_length in *; cbn [length] in *;
  first [ lia | assumption | discriminate | congruence
        | match goal with H : pushed _ _ = _ |- _ => rewrite H; rewrite <- app_assoc; reflexivity end ].

Ltac inv_p HI E p Hp :=
  constructor; simp_st;
  [ pipe_p HI E p | pipe_p HI E p | pipe_p HI E p | pipe_p HI E p | pipe_p HI E p
  | first [ exact (i_rng _ _ HI)
          | let q := fresh "q" in let Hin := fresh "Hin" in
            intros q Hin; apply in_app_or in Hin as [Hin|[<-|[]]]; [exact (i_rng _ _ HI _ Hin)|exact Hp] ]
  | exact (i_crng _ _ HI)
  | pipe_p HI E p
  | exact (i_nopark_c _ _ HI) ].

Lemma inv_pstep c s p s' : np c <= rcap c -> RpqInv c s -> p < np c -> pstep c s p = Some s' -> RpqInv c s'.
Proof.
  intros Hcap HI Hp Hs. unfold pstep in Hs.
  destruct (prod s p) eqn:E.
  - (* PIdle *)
    unfold pstart in Hs. destruct (pprog s p) as [|o r]; [discriminate|]. injection Hs as <-.
    destruct o as [x|x|xs]; destruct (alive c s p); try destruct xs; inv_p HI E p Hp.
  - injection Hs as <-. inv_p HI E p Hp.
  - injection Hs as <-. destruct (room c s p) eqn:R; [apply Nat.ltb_lt in R|]; inv_p HI E p Hp.
  - destruct (room c s p) eqn:R; [apply Nat.ltb_lt in R|destruct parked; [discriminate|]]; injection Hs as <-; inv_p HI E p Hp.
  - injection Hs as <-. destruct (Z.eqb_spec (queued s p) 0); inv_p HI E p Hp.
  - rewrite (parm_room c s p HI Hcap Hp) in Hs by (rewrite E; reflexivity). injection Hs as <-. inv_p HI E p Hp.
  - injection Hs as <-. inv_p HI E p Hp.
  - injection Hs as <-. destruct (room c s p) eqn:R; [apply Nat.ltb_lt in R|]; inv_p HI E p Hp.
  - injection Hs as <-. destruct (Z.eqb_spec (queued s p) 0); inv_p HI E p Hp.
  - rewrite (parm_room c s p HI Hcap Hp) in Hs by (rewrite E; reflexivity). injection Hs as <-. inv_p HI E p Hp.
  - destruct xs as [|x r]; injection Hs as <-; inv_p HI E p Hp.
  - injection Hs as <-. destruct (room c s p) eqn:R; [apply Nat.ltb_lt in R|]; inv_p HI E p Hp.
  - injection Hs as <-. destruct (Z.eqb_spec (queued s p) 0); destruct hz; destruct r; cbn [orb]; inv_p HI E p Hp.
  - injection Hs as <-. destruct hz; inv_p HI E p Hp.
  - rewrite (parm_room c s p HI Hcap Hp) in Hs by (rewrite E; reflexivity). injection Hs as <-. inv_p HI E p Hp.
Qed.

(* a consumer that holds a pipe's token finds an item in its channel *)
Lemma no_stale c s i b q : RpqInv c s -> i < nc c -> cons s i = CRecv b q -> chan s q <> [].
Proof.
  intros HI Hi E Hnil.
  pose proof (i_q _ _ HI q) as Hq. pose proof (i_tok _ _ HI q) as Ht. unfold tokens in Ht.
  pose proof (csum_tns_le q (cons s) (nc c) i Hi) as Hle. rewrite E in Hle. cbn [c_tok c_tns] in Hle.
  rewrite Nat.eqb_refl in Hle. cbn [b2z] in Hle. rewrite Hnil in Hq. cbn [length] in Hq.
  pose proof (cnt_nonneg q (ready s)). pose proof (p_arm_range (prod s q)). pose proof (p_unc_range (prod s q)).
  pose proof (csum_nonneg (c_tns q) (cons s) (nc c) (c_tns_nonneg q)). lia.
Qed.

(* per-pipe conjuncts after a step of consumer i (E : cons s i = ...) *)
Ltac pipe_c HI E i Hi :=
  let p0 := fresh "p0" in
  intros p0; use_inv HI p0; unfold tokens, taken_of in *; simp_st;
  match goal with
  | s0 : st |- _ =>
      match goal with c0 : cfg |- _ =>
        pose proof (cnt_nonneg p0 (ready s0)); pose proof (p_arm_range (prod s0 p0)); pose proof (p_unc_range (prod s0 p0));
        pose proof (csum_ge_term (c_tok p0) (cons s0) (nc c0) i (c_tok_nonneg p0) Hi);
        pose proof (csum_ge_term (c_tns p0) (cons s0) (nc c0) i (c_tns_nonneg p0) Hi);
        pose proof (csum_ge_term (c_c3 p0) (cons s0) (nc c0) i (c_c3_nonneg p0) Hi);
        pose proof (csum_tns_le p0 (cons s0) (nc c0) i Hi)
      end
  end;
  rewrite ?(csum_upd _ _ i _ _ Hi); rewrite ?E in *;
  try match goal with Hrd : ready _ = _ |- _ => rewrite ?Hrd in * end;
  rewrite ?cnt_app; rewrite ?filter_app, ?map_app;
  cbn [c_tok c_tns c_c3 cnt filter map fst snd] in *; unfold upd in *;
  eqb_cases;
  try match goal with Hch : chan _ _ = _ |- _ => rewrite ?Hch in * end;
  cbn [b2z andb app] in *; zb_cases; cbn [b2z andb] in *; rewrite ?app_length in *; cbn [length] in *; rewrite ?app_nil_r;
  first [ lia | assumption
        | match goal with H : pushed _ _ = _ |- _ => rewrite H; rewrite <- ?app_assoc; reflexivity end ].

Ltac rng_c HI i :=
  let i0 := fresh "i0" in let q0 := fresh "q0" in
  intros i0 q0; simp_st; unfold upd; destruct (Nat.eqb_spec i0 i);
  [cbn [c_pipe]; intros [=]; subst; assumption | apply (i_crng _ _ HI)].

Ltac nopark_c HI i :=
  let i0 := fresh "i0" in
  intros i0 ? ? ?; simp_st; unfold upd; destruct (Nat.eqb_spec i0 i); [discriminate | apply (i_nopark_c _ _ HI)].

(* Hrd proves the i_rng conjunct *)
Ltac inv_c HI E i Hi rdtac :=
  constructor; simp_st;
  [ pipe_c HI E i Hi | pipe_c HI E i Hi | pipe_c HI E i Hi | pipe_c HI E i Hi | pipe_c HI E i Hi
  | rdtac
  | rng_c HI i
  | exact (i_nopark_p _ _ HI)
  | nopark_c HI i ].

Ltac rd_same HI := exact (i_rng _ _ HI).
Ltac rd_tail HI Er :=
  let r := fresh "r" in let Hin := fresh "Hin" in
  intros r Hin; apply (i_rng _ _ HI); rewrite Er; right; exact Hin.
Ltac rd_push HI :=
  let r := fresh "r" in let Hin := fresh "Hin" in
  intros r Hin; apply in_app_or in Hin as [Hin|[<-|[]]]; [exact (i_rng _ _ HI _ Hin)|assumption].

Lemma inv_cstep c s i s' : np c <= rcap c -> RpqInv c s -> i < nc c -> cstep c s i = Some s' -> RpqInv c s'.
Proof.
  intros Hcap HI Hi Hs. unfold cstep in Hs.
  destruct (cons s i) eqn:E.
  - (* CIdle *)
    unfold cstart, crecv_first in Hs. destruct (cprog s i) as [|o r]; [discriminate|]. injection Hs as <-.
    simp_st. destruct o; destruct (ready s) as [|q rd] eqn:Er.
    + inv_c HI E i Hi ltac:(rd_same HI).
    + assert (Hqn : q < np c) by (apply (i_rng _ _ HI); rewrite Er; left; reflexivity).
      inv_c HI E i Hi ltac:(rd_tail HI Er).
    + inv_c HI E i Hi ltac:(rd_same HI).
    + assert (Hqn : q < np c) by (apply (i_rng _ _ HI); rewrite Er; left; reflexivity).
      inv_c HI E i Hi ltac:(rd_tail HI Er).
  - (* CWait *)
    destruct (ready s) as [|q rd] eqn:Er; [discriminate|]. injection Hs as <-.
    assert (Hqn : q < np c) by (apply (i_rng _ _ HI); rewrite Er; left; reflexivity).
    inv_c HI E i Hi ltac:(rd_tail HI Er).
  - (* CStale *)
    injection Hs as <-. unfold crecv_first. destruct (ready s) as [|q rd] eqn:Er.
    + inv_c HI E i Hi ltac:(rd_same HI).
    + assert (Hqn : q < np c) by (apply (i_rng _ _ HI); rewrite Er; left; reflexivity).
      inv_c HI E i Hi ltac:(rd_tail HI Er).
  - (* CRecv *)
    assert (Hqn : q < np c) by (apply (i_crng _ _ HI i); rewrite E; reflexivity).
    destruct (chan s q) as [|x l] eqn:Ec; [exfalso; exact (no_stale c s i b q HI Hi E Ec)|].
    injection Hs as <-. inv_c HI E i Hi ltac:(rd_same HI).
  - (* CDecQ *)
    assert (Hqn : q < np c) by (apply (i_crng _ _ HI i); rewrite E; reflexivity).
    injection Hs as <-. inv_c HI E i Hi ltac:(rd_same HI).
  - (* CDecR *)
    assert (Hqn : q < np c) by (apply (i_crng _ _ HI i); rewrite E; reflexivity).
    injection Hs as <-. destruct (Z.ltb_spec 1 prev); inv_c HI E i Hi ltac:(rd_same HI).
  - (* CArm *)
    assert (Hqn : q < np c) by (apply (i_crng _ _ HI i); rewrite E; reflexivity).
    rewrite (ctok_room c s i q HI Hcap Hi) in Hs by (try rewrite E; cbn [c_tok]; try rewrite Nat.eqb_refl; try reflexivity; exact Hqn).
    injection Hs as <-. inv_c HI E i Hi ltac:(rd_push HI).
Qed.

Lemma inv_pcancel c s p s' : RpqInv c s -> pcancel s p = Some s' -> RpqInv c s'.
Proof.
  intros HI Hs. unfold pcancel in Hs. destruct (prod s p) eqn:E; try discriminate; destruct parked; try discriminate.
  - injection Hs as <-. inv_p HI E p I.
  - exfalso. exact (i_nopark_p _ _ HI p E).
Qed.

Lemma inv_ccancel c s i s' : RpqInv c s -> i < nc c -> ccancel s i = Some s' -> RpqInv c s'.
Proof.
  intros HI Hi Hs. unfold ccancel in Hs. destruct (cons s i) eqn:E; try discriminate.
  - injection Hs as <-. inv_c HI E i Hi ltac:(rd_same HI).
  - exfalso. destruct b; [|discriminate]. destruct parked; [|discriminate]. exact (i_nopark_c _ _ HI i _ _ _ E).
Qed.

Lemma inv_dereg c s p : RpqInv c s -> RpqInv c (set_reg s (upd (reg s) p false)).
Proof. intros HI. destruct HI. constructor; assumption. Qed.

Lemma inv_step c s e s' : np c <= rcap c -> RpqInv c s -> step c s e = Some s' -> RpqInv c s'.
Proof.
  intros Hcap HI Hs. destruct e as [p|i|p|i|p]; cbn [step] in Hs.
  - destruct (Nat.ltb_spec p (np c)); [|discriminate]. eapply inv_pstep; eauto.
  - destruct (Nat.ltb_spec i (nc c)); [|discriminate]. eapply inv_cstep; eauto.
  - destruct (Nat.ltb_spec p (np c)); [|discriminate]. eapply inv_pcancel; eauto.
  - destruct (Nat.ltb_spec i (nc c)); [|discriminate]. eapply inv_ccancel; eauto.
  - injection Hs as <-. apply inv_dereg. exact HI.
Qed.

Lemma inv_step' c s e : np c <= rcap c -> RpqInv c s -> RpqInv c (step' c s e).
Proof. intros Hcap HI. unfold step'. destruct (step c s e) eqn:E; [eapply inv_step; eauto|exact HI]. Qed.

Lemma inv_run c es : forall s, np c <= rcap c -> RpqInv c s -> RpqInv c (run c es s).
Proof.
  induction es as [|e es IH]; intros s Hcap HI; [exact HI|]. cbn [run fold_left].
  apply IH; [exact Hcap|]. apply inv_step'; assumption.
Qed.

(* ------------------------------------------------------------------ the theorems *)
(* every state reached by ANY schedule from ANY programs satisfies the invariant *)
Theorem rpq_inv_reachable c pp cp es : np c <= rcap c -> RpqInv c (run c es (init pp cp)).
Proof. intros Hcap. apply inv_run; [exact Hcap|apply inv_init]. Qed.

Definition reach (c : cfg) (s : st) : Prop := exists pp cp es, s = run c es (init pp cp).

Lemma reach_inv c s : np c <= rcap c -> reach c s -> RpqInv c s.
Proof. intros Hcap (pp & cp & es & ->). apply rpq_inv_reachable. exact Hcap. Qed.

Lemma reach_step c s e : reach c s -> reach c (step' c s e).
Proof.
  intros (pp & cp & es & ->). exists pp, cp, (es ++ [e]). unfold run. rewrite fold_left_app. reflexivity.
Qed.

(* a taken token always finds an item; and queued never underflows *)
Theorem rpq_no_stale_pop c s i b q : np c <= rcap c -> reach c s -> i < nc c ->
  cons s i = CRecv b q -> exists x l, chan s q = x :: l.
Proof.
  intros Hcap Hr Hi E. pose proof (no_stale c s i b q (reach_inv c s Hcap Hr) Hi E) as H.
  destruct (chan s q) as [|x l]; [congruence|eauto].
Qed.

Theorem rpq_no_underflow c s : np c <= rcap c -> reach c s ->
  (forall p, (0 <= queued s p <= reserved s p)%Z) /\
  (forall i b q x, i < nc c -> cons s i = CDecQ b q x -> (1 <= queued s q)%Z) /\
  (forall i b q x prev, i < nc c -> cons s i = CDecR b q x prev -> (1 <= reserved s q)%Z).
Proof.
  intros Hcap Hr. pose proof (reach_inv c s Hcap Hr) as HI. split; [|split].
  - intros p. pose proof (i_res _ _ HI p). pose proof (p_infl_nonneg (prod s p)).
    pose proof (csum_nonneg (c_c3 p) (cons s) (nc c) (c_c3_nonneg p)).
    destruct (i_tok _ _ HI p) as [[? _]|[? _]]; lia.
  - intros i b q x Hi E.
    pose proof (csum_ge_term (c_tok q) (cons s) (nc c) i (c_tok_nonneg q) Hi) as H. rewrite E in H.
    cbn [c_tok] in H. rewrite Nat.eqb_refl in H. cbn [b2z] in H.
    pose proof (cnt_nonneg q (ready s)). pose proof (p_arm_range (prod s q)).
    destruct (i_tok _ _ HI q) as [[_ Ht]|[? _]]; unfold tokens in *; lia.
  - intros i b q x prev Hi E.
    pose proof (csum_ge_term (c_c3 q) (cons s) (nc c) i (c_c3_nonneg q) Hi) as H. rewrite E in H.
    cbn [c_c3] in H. rewrite Nat.eqb_refl in H. cbn [b2z] in H.
    pose proof (i_res _ _ HI q). pose proof (p_infl_nonneg (prod s q)).
    destruct (i_tok _ _ HI q) as [[? _]|[? _]]; lia.
Qed.

Lemma nodup_app_l {A} (a b : list A) : NoDup (a ++ b) -> NoDup a.
Proof.
  induction a as [|x a IH]; intros H; [constructor|]. inversion H as [|? ? Hn Hd]; subst.
  constructor; [intros Hi; apply Hn; apply in_or_app; left; exact Hi|apply IH; exact Hd].
Qed.

(* per pipe: what the consumers took, in the order they took it, followed by what is still in
   the channel, is exactly what was written: nothing lost, nothing duplicated, order kept *)
Theorem rpq_exactly_once_in_order c s p : np c <= rcap c -> reach c s ->
  pushed s p = taken_of p s ++ chan s p /\ prefix (taken_of p s) (pushed s p) /\
  (NoDup (pushed s p) -> NoDup (taken_of p s)).
Proof.
  intros Hcap Hr. pose proof (i_fifo _ _ (reach_inv c s Hcap Hr) p) as H. split; [exact H|split].
  - rewrite H. apply prefix_app.
  - rewrite H. apply nodup_app_l.
Qed.

(* the arming sends never find the ready list full: they never block, never spin, and the
   try_pop re-arm never drops its token *)
Theorem rpq_arm_never_blocks c s : np c <= rcap c -> reach c s ->
  (forall p, prod s p <> SArm true) /\ (forall i b q x, cons s i <> CArm b q x true) /\
  (forall p, p < np c -> p_arm (prod s p) = 1%Z -> rroom c s = true) /\
  (forall i b q x k, i < nc c -> cons s i = CArm b q x k -> rroom c s = true).
Proof.
  intros Hcap Hr. pose proof (reach_inv c s Hcap Hr) as HI. repeat split.
  - exact (i_nopark_p _ _ HI).
  - exact (i_nopark_c _ _ HI).
  - intros p Hp Ha. exact (parm_room c s p HI Hcap Hp Ha).
  - intros i b q x k Hi E. apply (ctok_room c s i q HI Hcap Hi).
    + rewrite E. cbn [c_tok]. rewrite Nat.eqb_refl. reflexivity.
    + apply (i_crng _ _ HI i). rewrite E. reflexivity.
Qed.

Lemma csum_pos_exists f cs n : (0 < csum f cs n)%Z -> exists i, i < n /\ (0 < f (cs i))%Z.
Proof.
  induction n as [|n IH]; cbn [csum]; intros H; [lia|].
  destruct (Z.ltb_spec 0 (f (cs n))); [exists n; split; [lia|assumption]|].
  destruct IH as (i & Hi & Hf); [lia|]. exists i. split; [lia|exact Hf].
Qed.

Lemma cnt_pos_in p l : (0 < cnt p l)%Z -> In p l.
Proof.
  induction l as [|q l IH]; cbn [cnt]; intros H; [lia|]. destruct (Nat.eqb_spec q p); [left; assumption|].
  right. apply IH. cbn [b2z] in H. lia.
Qed.

Lemma c_tok_holds p pc : (0 < c_tok p pc)%Z -> c_holds p pc = true.
Proof.
  unfold c_holds. destruct pc; cbn [c_tok c_pipe]; try lia; try (destruct (q =? p); cbn [b2z]; [reflexivity|lia]).
  destruct (q =? p); cbn [andb b2z]; [reflexivity|lia].
Qed.

(* an item in a channel always has a thread, or a ready entry, that answers for it *)
Theorem rpq_item_has_owner c s p : np c <= rcap c -> reach c s -> chan s p <> [] ->
  In p (ready s) \/ p_arm (prod s p) = 1%Z \/ p_unc (prod s p) = 1%Z \/
  exists i, i < nc c /\ c_holds p (cons s i) = true.
Proof.
  intros Hcap Hr Hne. pose proof (reach_inv c s Hcap Hr) as HI.
  pose proof (i_q _ _ HI p) as Hq. pose proof (p_unc_range (prod s p)). pose proof (p_arm_range (prod s p)).
  pose proof (csum_nonneg (c_tns p) (cons s) (nc c) (c_tns_nonneg p)).
  assert (1 <= Z.of_nat (length (chan s p)))%Z by (destruct (chan s p); [congruence|cbn [length]; lia]).
  destruct (Z.eq_dec (p_unc (prod s p)) 1) as [Hu|Hu]; [right; right; left; exact Hu|].
  destruct (i_tok _ _ HI p) as [[Hz _]|[_ Ht]]; [lia|]. unfold tokens in Ht.
  pose proof (cnt_nonneg p (ready s)). pose proof (csum_nonneg (c_tok p) (cons s) (nc c) (c_tok_nonneg p)).
  destruct (Z.ltb_spec 0 (cnt p (ready s))); [left; apply cnt_pos_in; assumption|].
  destruct (Z.eq_dec (p_arm (prod s p)) 1) as [Ha|Ha]; [right; left; exact Ha|].
  right; right; right. destruct (csum_pos_exists (c_tok p) (cons s) (nc c)) as (i & Hi & Hf); [lia|].
  exists i. split; [exact Hi|apply c_tok_holds; exact Hf].
Qed.

(* no lost wake-up, first form: if nothing is in flight and the ready list is empty, every
   channel is empty (so a consumer parked on the empty ready list is not missing anything) *)
Theorem rpq_no_lost_wakeup_quiescent c s : np c <= rcap c -> reach c s ->
  (forall p, p < np c -> prod s p = PIdle) ->
  (forall i, i < nc c -> cons s i = CIdle \/ cons s i = CWait) ->
  ready s = [] ->
  forall p, p < np c -> chan s p = [] /\ queued s p = 0%Z /\ reserved s p = 0%Z.
Proof.
  intros Hcap Hr Hp Hc Hrd p Hlt. pose proof (reach_inv c s Hcap Hr) as HI.
  pose proof (i_q _ _ HI p) as Hq. pose proof (i_res _ _ HI p) as Hre. rewrite (Hp p Hlt) in *. cbn [p_unc p_infl] in *.
  assert (Z1 : forall f, (f CIdle = 0 -> f CWait = 0 -> csum f (cons s) (nc c) = 0)%Z).
  { intros f F1 F2. apply csum_zero. intros k Hk. destruct (Hc k Hk) as [-> | ->]; assumption. }
  rewrite (Z1 (c_tns p)) in Hq by reflexivity. rewrite (Z1 (c_c3 p)) in Hre by reflexivity.
  destruct (i_tok _ _ HI p) as [[Hz _]|[Hpos Ht]].
  - destruct (chan s p); [|cbn [length] in Hq; lia]. repeat split; lia.
  - unfold tokens in Ht. rewrite Hrd, (Hp p Hlt), (Z1 (c_tok p)) in Ht by reflexivity. cbn [cnt p_arm] in Ht. lia.
Qed.

(* a consumer inside an operation (not parked on the ready list) can always take its next step *)
Lemma c_midop_enabled c s i : np c <= rcap c -> RpqInv c s -> i < nc c -> c_midop (cons s i) = true ->
  exists s', cstep c s i = Some s'.
Proof.
  intros Hcap HI Hi Hm. unfold cstep. destruct (cons s i) eqn:E; try discriminate; try (eexists; reflexivity).
  - destruct (chan s q); eexists; reflexivity.
  - rewrite (ctok_room c s i q HI Hcap Hi); [eexists; reflexivity| |].
    + rewrite E. cbn [c_tok]. rewrite Nat.eqb_refl. reflexivity.
    + apply (i_crng _ _ HI i). rewrite E. reflexivity.
Qed.

Lemma c_wants_enabled c s i : np c <= rcap c -> RpqInv c s -> i < nc c -> c_wants s i = true -> ready s <> [] ->
  exists s', cstep c s i = Some s'.
Proof.
  intros Hcap HI Hi Hw Hrd. destruct (c_midop (cons s i)) eqn:Hm; [apply c_midop_enabled; assumption|].
  unfold cstep, c_wants in *. destruct (cons s i) eqn:E; try discriminate.
  - unfold cstart. destruct (cprog s i); [discriminate|eexists; reflexivity].
  - destruct (ready s); [congruence|eexists; reflexivity].
Qed.

(* no lost wake-up, second form (deadlock freedom): whenever an item sits in some channel and
   some consumer is receiving (parked in pop(), inside an operation, or with operations left),
   some thread has an enabled step *)
Theorem rpq_no_lost_wakeup c s p : np c <= rcap c -> reach c s -> p < np c -> chan s p <> [] ->
  (exists i, i < nc c /\ c_wants s i = true) ->
  exists e s', (exists t, e = RunP t \/ e = RunC t) /\ step c s e = Some s'.
Proof.
  intros Hcap Hr Hp Hne (i & Hi & Hw). pose proof (reach_inv c s Hcap Hr) as HI.
  destruct (rpq_item_has_owner c s p Hcap Hr Hne) as [Hin|[Ha|[Hu|(j & Hj & Hh)]]].
  - destruct (c_wants_enabled c s i Hcap HI Hi Hw) as (s' & Hs); [intros E; rewrite E in Hin; destruct Hin|].
    exists (RunC i), s'. split; [eauto|]. cbn [step]. apply Nat.ltb_lt in Hi. rewrite Hi. exact Hs.
  - assert (exists s', pstep c s p = Some s') as (s' & Hs).
    { unfold pstep. pose proof (parm_room c s p HI Hcap Hp Ha) as Hr'.
      destruct (prod s p); cbn [p_arm] in Ha; try lia; try rewrite Hr'; try (eexists; reflexivity);
        destruct hz; try lia; eexists; reflexivity. }
    exists (RunP p), s'. split; [eauto|]. cbn [step]. apply Nat.ltb_lt in Hp. rewrite Hp. exact Hs.
  - assert (exists s', pstep c s p = Some s') as (s' & Hs).
    { unfold pstep. destruct (prod s p); cbn [p_unc] in Hu; try lia; eexists; reflexivity. }
    exists (RunP p), s'. split; [eauto|]. cbn [step]. apply Nat.ltb_lt in Hp. rewrite Hp. exact Hs.
  - destruct (c_midop_enabled c s j Hcap HI Hj) as (s' & Hs).
    { unfold c_holds in Hh. destruct (cons s j); cbn [c_pipe] in Hh; try discriminate; reflexivity. }
    exists (RunC j), s'. split; [eauto|]. cbn [step]. apply Nat.ltb_lt in Hj. rewrite Hj. exact Hs.
Qed.

(* a consumer that has taken an item cannot be cancelled and is never blocked before it returns *)
Theorem rpq_taken_is_returned c s i : np c <= rcap c -> reach c s -> i < nc c -> c_midop (cons s i) = true ->
  ccancel s i = None /\ exists s', step c s (RunC i) = Some s'.
Proof.
  intros Hcap Hr Hi Hm. pose proof (reach_inv c s Hcap Hr) as HI. split.
  - unfold ccancel. destruct (cons s i) eqn:E; try reflexivity; try discriminate.
    destruct b; [|reflexivity]. destruct parked; [|reflexivity]. exfalso. exact (i_nopark_c _ _ HI i _ _ _ E).
  - destruct (c_midop_enabled c s i Hcap HI Hi Hm) as (s' & Hs). exists s'. cbn [step].
    apply Nat.ltb_lt in Hi. rewrite Hi. exact Hs.
Qed.

(* cancellation at any await point: the invariant holds afterwards, no item is lost or
   duplicated (channels, counters of committed items, ready list, logs untouched), and the
   reservation of the cancelled send is returned *)
Theorem rpq_cancel_safe c s e s' : np c <= rcap c -> reach c s ->
  (exists t, e = CancelP t \/ e = CancelC t) -> step c s e = Some s' ->
  RpqInv c s' /\ ready s' = ready s /\ taken s' = taken s /\
  (forall q, chan s' q = chan s q /\ queued s' q = queued s q /\ pushed s' q = pushed s q) /\
  match e with
  | CancelP p => (exists x, prod s p = SBlock x true) /\ prod s' p = PIdle /\
                 reserved s' p = (reserved s p - 1)%Z /\ (forall q, q <> p -> reserved s' q = reserved s q) /\
                 reserved s' p = (queued s' p + csum (c_c3 p) (cons s') (nc c))%Z
  | CancelC i => cons s i = CWait /\ cons s' i = CIdle /\ forall q, reserved s' q = reserved s q
  | _ => True
  end.
Proof.
  intros Hcap Hr (t & He) Hs. pose proof (reach_inv c s Hcap Hr) as HI.
  split; [eapply inv_step; eauto|].
  destruct He as [-> | ->]; cbn [step] in Hs.
  - destruct (Nat.ltb_spec t (np c)); [|discriminate]. unfold pcancel in Hs.
    destruct (prod s t) eqn:E; try discriminate; destruct parked; try discriminate.
    + injection Hs as <-. simp_st. repeat split; eauto; try (rewrite upd_eq; lia).
      * rewrite upd_eq. reflexivity.
      * intros q Hq. rewrite upd_neq by exact Hq. reflexivity.
      * rewrite upd_eq. pose proof (i_res _ _ HI t) as H1. rewrite E in H1. cbn [p_infl] in H1. lia.
    + exfalso. exact (i_nopark_p _ _ HI t E).
  - destruct (Nat.ltb_spec t (nc c)); [|discriminate]. unfold ccancel in Hs.
    destruct (cons s t) eqn:E; try discriminate.
    + injection Hs as <-. simp_st. repeat split; eauto. rewrite upd_eq. reflexivity.
    + exfalso. destruct b; [|discriminate]. destruct parked; [|discriminate]. exact (i_nopark_c _ _ HI t _ _ _ E).
Qed.

(* deregistration loses nothing: when the last reference to a slot is gone (Weak::upgrade
   fails), its channel is empty and its counters are zero *)
Lemma existsb_seq_false f n : existsb f (seq 0 n) = false -> forall k, k < n -> f k = false.
Proof.
  intros H k Hk. destruct (f k) eqn:E; [|reflexivity].
  assert (existsb f (seq 0 n) = true) by (apply existsb_exists; exists k; split; [apply in_seq; lia|exact E]). congruence.
Qed.

Lemma c_not_holds p pc : c_holds p pc = false -> c_tok p pc = 0%Z /\ c_tns p pc = 0%Z /\ c_c3 p pc = 0%Z.
Proof.
  unfold c_holds. destruct pc; cbn [c_pipe c_tok c_tns c_c3]; intros H; try rewrite H; cbn [andb b2z]; auto.
Qed.

Theorem rpq_dead_slot_empty c s p : np c <= rcap c -> reach c s -> alive c s p = false ->
  chan s p = [] /\ queued s p = 0%Z /\ reserved s p = 0%Z.
Proof.
  intros Hcap Hr Ha. pose proof (reach_inv c s Hcap Hr) as HI. unfold alive in Ha.
  apply orb_false_iff in Ha as [Ha Hc]. apply orb_false_iff in Ha as [Ha Hp]. apply orb_false_iff in Ha as [_ Hrd].
  assert (Ep : prod s p = PIdle) by (destruct (prod s p); try discriminate; reflexivity).
  pose proof (existsb_seq_false _ _ Hc) as Hc'. cbv beta in Hc'.
  assert (Z1 : csum (c_tok p) (cons s) (nc c) = 0%Z /\ csum (c_tns p) (cons s) (nc c) = 0%Z /\ csum (c_c3 p) (cons s) (nc c) = 0%Z).
  { repeat split; apply csum_zero; intros k Hk; apply (c_not_holds p (cons s k) (Hc' k Hk)). }
  destruct Z1 as (T1 & T2 & T3).
  pose proof (i_q _ _ HI p) as Hq. pose proof (i_res _ _ HI p) as Hre. rewrite Ep, ?T2, ?T3 in *. cbn [p_unc p_infl] in *.
  destruct (i_tok _ _ HI p) as [[Hz _]|[_ Ht]].
  - destruct (chan s p); [|cbn [length] in Hq; lia]. repeat split; lia.
  - unfold tokens in Ht. rewrite (existsb_eqb_cnt p _ Hrd), Ep, T1 in Ht. cbn [p_arm] in Ht. lia.
Qed.

(* ------------------------------------------------------------------ progress of a single pop() *)
Lemma run_one c s e s' : step c s e = Some s' -> step' c s e = s'.
Proof. unfold step'. intros ->. reflexivity. Qed.

Lemma runc_step c s i s' : i < nc c -> cstep c s i = Some s' -> step' c s (RunC i) = s'.
Proof. intros Hi H. apply run_one. cbn [step]. apply Nat.ltb_lt in Hi. rewrite Hi. exact H. Qed.

(* a pop() that finds a ready entry returns an item of that pipe within five of its own steps,
   whatever state the other threads are in (it never waits for anybody) *)
Theorem rpq_pop_completes c s i q rd : np c <= rcap c -> reach c s -> i < nc c ->
  cons s i = CWait -> ready s = q :: rd ->
  exists k x, k <= 5 /\
    let s' := run c (repeat (RunC i) k) s in
    cons s' i = CIdle /\ hd [] (out s') = [1; N.of_nat i; 4; 0; N.of_nat q; x]%N /\
    taken s' = taken s ++ [(q, x)] /\ cprog s' i = cprog s i.
Proof.
  intros Hcap Hr Hi E Er.
  (* step 1: take the ready entry *)
  set (s1 := cto (set_ready s rd) i (CRecv true q)).
  assert (S1 : step' c s (RunC i) = s1).
  { apply runc_step; [exact Hi|]. unfold cstep. rewrite E, Er. reflexivity. }
  assert (R1 : reach c s1) by (rewrite <- S1; apply reach_step; exact Hr).
  assert (E1 : cons s1 i = CRecv true q) by (unfold s1; simp_st; apply upd_eq).
  (* step 2: the channel is not empty *)
  destruct (rpq_no_stale_pop c s1 i true q Hcap R1 Hi E1) as (x & l & Ec).
  set (s2 := cto (set_taken (set_chan s1 (upd (chan s1) q l)) (taken s1 ++ [(q, x)])) i (CDecQ true q x)).
  assert (S2 : step' c s1 (RunC i) = s2).
  { apply runc_step; [exact Hi|]. unfold cstep. rewrite E1, Ec. reflexivity. }
  assert (R2 : reach c s2) by (rewrite <- S2; apply reach_step; exact R1).
  assert (E2 : cons s2 i = CDecQ true q x) by (unfold s2; simp_st; apply upd_eq).
  (* step 3 *)
  set (s3 := cto (add_q s2 q (-1)) i (CDecR true q x (queued s2 q))).
  assert (S3 : step' c s2 (RunC i) = s3).
  { apply runc_step; [exact Hi|]. unfold cstep. rewrite E2. reflexivity. }
  assert (R3 : reach c s3) by (rewrite <- S3; apply reach_step; exact R2).
  assert (E3 : cons s3 i = CDecR true q x (queued s2 q)) by (unfold s3; simp_st; apply upd_eq).
  assert (T : taken s3 = taken s ++ [(q, x)]) by reflexivity.
  assert (P : cprog s3 i = cprog s i) by reflexivity.
  destruct (Z.ltb_spec 1 (queued s2 q)) as [Hp|Hp].
  - (* re-arm *)
    set (s4 := cto (add_res s3 q (-1)) i (CArm true q x false)).
    assert (S4 : step' c s3 (RunC i) = s4).
    { apply runc_step; [exact Hi|]. unfold cstep. rewrite E3. apply Z.ltb_lt in Hp. rewrite Hp. reflexivity. }
    assert (R4 : reach c s4) by (rewrite <- S4; apply reach_step; exact R3).
    assert (E4 : cons s4 i = CArm true q x false) by (unfold s4; simp_st; apply upd_eq).
    destruct (rpq_arm_never_blocks c s4 Hcap R4) as (_ & _ & _ & Hroom).
    set (s5 := cdone (arm s4 q) i (pop_res true q x)).
    assert (S5 : step' c s4 (RunC i) = s5).
    { apply runc_step; [exact Hi|]. unfold cstep. rewrite E4, (Hroom i true q x false Hi E4). reflexivity. }
    exists 5, x. split; [lia|]. cbn [repeat run fold_left]. rewrite S1, S2, S3, S4, S5.
    unfold s5. simp_st. rewrite upd_eq. repeat split; reflexivity.
  - set (s4 := cdone (add_res s3 q (-1)) i (pop_res true q x)).
    assert (S4 : step' c s3 (RunC i) = s4).
    { apply runc_step; [exact Hi|]. unfold cstep. rewrite E3. apply Z.ltb_ge in Hp. rewrite Hp. reflexivity. }
    exists 4, x. split; [lia|]. cbn [repeat run fold_left]. rewrite S1, S2, S3, S4.
    unfold s4. simp_st. rewrite upd_eq. repeat split; reflexivity.
Qed.
