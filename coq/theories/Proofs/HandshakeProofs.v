From RZ Require Import Base.Prelude Base.Stepper Base.Kahn Model.Codec Proofs.CodecProofs Model.Engine
  Proofs.EngineProofs Model.Pair.
Local Open Scope N_scope.

Lemma sends_app a b : sends (a ++ b) = sends a ++ sends b.
Proof. unfold sends. rewrite map_app, concat_app. reflexivity. Qed.

Lemma sends_prefix a b : prefix a b -> prefix (sends a) (sends b).
Proof. intros [d ->]. rewrite sends_app. apply prefix_app. Qed.

Lemma F_mono cfg a d : prefix (F cfg a) (F cfg (a ++ d)).
Proof.
  unfold F. destruct (engine_outputs_prefix_monotone cfg (e_new 0) a 0 d 0 (e_new_quiescent cfg 0)) as [x Hx].
  rewrite Hx, sends_app, app_assoc. apply prefix_app.
Qed.

(* what the rest of an engine's life depends on: protocol state and accumulator (not the clock) *)
Definition same_core (g g' : engine) : Prop := g_st g = g_st g' /\ g_acc g = g_acc g'.

(* feeding d to an engine that has already consumed x = feeding x ++ d to a fresh one *)
Lemma e_net_incremental cfg g x d t :
  same_core g (fst (e_net cfg (e_new 0) x 0)) ->
  same_core (fst (e_net cfg g d t)) (fst (e_net cfg (e_new 0) (x ++ d) 0)) /\
  snd (e_net cfg (e_new 0) (x ++ d) 0) = snd (e_net cfg (e_new 0) x 0) ++ snd (e_net cfg g d t).
Proof.
  unfold same_core, e_net. cbn [e_new g_st g_acc app].
  rewrite (sk_pump_app (engine_ok cfg) e_init x d).
  destruct (pump (estep cfg) emu EMU_MAX e_init x) as [[s1 r1] o1]. cbn [fst snd g_st g_acc].
  intros [-> ->].
  destruct (pump (estep cfg) emu EMU_MAX s1 (r1 ++ d)) as [[s2 r2] o2]. cbn [fst snd g_st g_acc].
  rewrite visible_app. auto.
Qed.

Record PInv (ca cb : ecfg) (s : psys) : Prop := {
  pi_ab : db s ++ ab s = F ca (da s);
  pi_ba : da s ++ ba s = F cb (db s);
  pi_a : same_core (pa s) (fst (e_net ca (e_new 0) (da s) 0));
  pi_b : same_core (pb s) (fst (e_net cb (e_new 0) (db s) 0));
  pi_oa : oa s = snd (e_net ca (e_new 0) (da s) 0);
  pi_ob : ob s = snd (e_net cb (e_new 0) (db s) 0)
}.

Lemma e_net_nil cfg : e_net cfg (e_new 0) [] 0 = (e_new 0, []).
Proof. reflexivity. Qed.

Lemma PInv_init ca cb : PInv ca cb p_init.
Proof. constructor; cbn; try reflexivity; split; reflexivity. Qed.

Lemma PInv_step ca cb s x : PInv ca cb s -> PInv ca cb (pstep ca cb s x).
Proof.
  intros [H1 H2 H3 H4 H5 H6]. destruct x as [k t|k t]; cbn [pstep].
  - destruct (e_net_incremental cb (pb s) (db s) (firstn k (ab s)) t H4) as [Hc Ho].
    destruct (e_net cb (pb s) (firstn k (ab s)) t) as [g o]. cbn [fst snd] in *.
    constructor; cbn [pa pb ab ba da db oa ob].
    + rewrite <- app_assoc, firstn_skipn. exact H1.
    + unfold F in *. rewrite Ho, sends_app.
      rewrite (app_assoc (sends e_start)), <- H2, <- app_assoc. reflexivity.
    + exact H3.
    + exact Hc.
    + exact H5.
    + rewrite Ho, H6. reflexivity.
  - destruct (e_net_incremental ca (pa s) (da s) (firstn k (ba s)) t H3) as [Hc Ho].
    destruct (e_net ca (pa s) (firstn k (ba s)) t) as [g o]. cbn [fst snd] in *.
    constructor; cbn [pa pb ab ba da db oa ob].
    + unfold F in *. rewrite Ho, sends_app.
      rewrite (app_assoc (sends e_start)), <- H1, <- app_assoc. reflexivity.
    + rewrite <- app_assoc, firstn_skipn. exact H2.
    + exact Hc.
    + exact H4.
    + rewrite Ho, H5. reflexivity.
    + exact H6.
Qed.

(* the delivered byte strings form a reachable state of the two-node Kahn network (FA, FB) = (F ca, F cb) *)
Lemma Reach_step ca cb s x :
  PInv ca cb s -> Reach (F ca) (F cb) (da s) (db s) ->
  Reach (F ca) (F cb) (da (pstep ca cb s x)) (db (pstep ca cb s x)).
Proof.
  intros [H1 H2 _ _ _ _] HR. destruct x as [k t|k t]; cbn [pstep].
  - destruct (e_net cb (pb s) (firstn k (ab s)) t) as [g o]. cbn [da db].
    destruct (firstn k (ab s)) as [|y d'] eqn:Ed; [rewrite app_nil_r; exact HR|].
    apply RtoB; [exact HR | discriminate |].
    rewrite <- H1. rewrite <- (firstn_skipn k (ab s)), Ed, app_assoc. apply prefix_app.
  - destruct (e_net ca (pa s) (firstn k (ba s)) t) as [g o]. cbn [da db].
    destruct (firstn k (ba s)) as [|y d'] eqn:Ed; [rewrite app_nil_r; exact HR|].
    apply RtoA; [exact HR | discriminate |].
    rewrite <- H2. rewrite <- (firstn_skipn k (ba s)), Ed, app_assoc. apply prefix_app.
Qed.

Definition PReach (ca cb : ecfg) (s : psys) : Prop := PInv ca cb s /\ Reach (F ca) (F cb) (da s) (db s).

Lemma PReach_init ca cb : PReach ca cb p_init.
Proof. split; [apply PInv_init | apply R0]. Qed.
Lemma PReach_step ca cb s x : PReach ca cb s -> PReach ca cb (pstep ca cb s x).
Proof. intros [Hi Hr]. split; [apply PInv_step; exact Hi | apply Reach_step; assumption]. Qed.
Lemma PReach_run ca cb xs : PReach ca cb (prun ca cb xs).
Proof.
  unfold prun. assert (forall s, PReach ca cb s -> PReach ca cb (fold_left (pstep ca cb) xs s)) as H.
  { induction xs as [|x xs IH]; intros s Hs; [exact Hs|]. cbn. apply IH. apply PReach_step. exact Hs. }
  apply H. apply PReach_init.
Qed.
Lemma PReach_eager ca cb r : forall s, PReach ca cb s -> PReach ca cb (eager ca cb r s).
Proof.
  induction r as [|r IH]; intros s Hs; [exact Hs|]. cbn [eager].
  destruct (drained s); [exact Hs|]. apply IH. apply PReach_step. apply PReach_step. exact Hs.
Qed.

Lemma drained_quiescent ca cb s : PInv ca cb s -> drained s = true -> Kahn.quiescent (F ca) (F cb) (da s) (db s).
Proof.
  intros [H1 H2 _ _ _ _]. unfold drained. destruct (ab s); [|discriminate]. destruct (ba s); [|discriminate].
  intros _. rewrite app_nil_r in *. split; assumption.
Qed.

(* Confluence of the handshake (and of everything after it): whatever the delivery order and
   fragmentation, once both channels are drained the two engines are in the same protocol states and
   have emitted the same actions. *)
Theorem pair_schedule_independent ca cb s1 s2 :
  PReach ca cb s1 -> PReach ca cb s2 -> drained s1 = true -> drained s2 = true ->
  da s1 = da s2 /\ db s1 = db s2 /\ same_core (pa s1) (pa s2) /\ same_core (pb s1) (pb s2) /\
  oa s1 = oa s2 /\ ob s1 = ob s2.
Proof.
  intros [I1 R1] [I2 R2] D1 D2.
  destruct (kahn_confluence (F ca) (F cb) (F_mono ca) (F_mono cb) _ _ _ _
              R1 (drained_quiescent _ _ _ I1 D1) R2 (drained_quiescent _ _ _ I2 D2)) as [Ha Hb].
  destruct I1 as [_ _ A1 B1 OA1 OB1]. destruct I2 as [_ _ A2 B2 OA2 OB2].
  rewrite Ha in *. rewrite Hb in *.
  repeat split; try congruence; unfold same_core in *; intuition congruence.
Qed.

Corollary pair_outcome_independent ca cb s1 s2 :
  PReach ca cb s1 -> PReach ca cb s2 -> drained s1 = true -> drained s2 = true -> outcome s1 = outcome s2.
Proof.
  intros P1 P2 D1 D2. destruct (pair_schedule_independent ca cb s1 s2 P1 P2 D1 D2) as (_ & _ & [A _] & [B _] & OA & OB).
  unfold outcome. rewrite A, B, OA, OB. reflexivity.
Qed.

(* no deadlock before quiescence: while something is in flight a delivery step makes progress *)
Theorem pair_progress ca cb s : drained s = false ->
  exists x, (length (da (pstep ca cb s x)) + length (db (pstep ca cb s x)) > length (da s) + length (db s))%nat.
Proof.
  unfold drained. destruct (ab s) as [|y l] eqn:Ea.
  - destruct (ba s) as [|z l'] eqn:Eb; [discriminate|]. intros _. exists (ToA 1 0). cbn [pstep]. rewrite Eb. cbn [firstn].
    destruct (e_net ca (pa s) [z] 0). cbn [da db]. rewrite app_length. cbn. lia.
  - intros _. exists (ToB 1 0). cbn [pstep]. rewrite Ea. cbn [firstn].
    destruct (e_net cb (pb s) [y] 0). cbn [da db]. rewrite app_length. cbn. lia.
Qed.

(* ---------- convergence on the finite grid of configurations, for EVERY schedule ---------- *)
Lemma check_grid_true : check_grid = true.
Proof. vm_compute. reflexivity. Qed.

Theorem converge_grid tA tB mc ids xs :
  In (tA, tB, mc, ids) grid ->
  let '(ca, cb) := grid_pair tA tB mc ids in
  drained (prun ca cb xs) = true -> good_outcome tA tB mc ids (outcome (prun ca cb xs)) = true.
Proof.
  intros Hin. pose proof check_grid_true as Hg. unfold check_grid in Hg.
  rewrite forallb_forall in Hg. specialize (Hg _ Hin). cbn beta iota in Hg. unfold check_pair in Hg.
  destruct (grid_pair tA tB mc ids) as [ca cb]. intros Hd.
  apply andb_true_iff in Hg. destruct Hg as [Hde Hgo].
  rewrite (pair_outcome_independent ca cb (prun ca cb xs) (eager ca cb EAGER_ROUNDS p_init)); auto.
  - apply PReach_run.
  - apply PReach_eager. apply PReach_init.
Qed.

(* the eager schedule itself always drains on the grid (so a drained state exists: no deadlock) *)
Theorem grid_eager_drains tA tB mc ids :
  In (tA, tB, mc, ids) grid ->
  let '(ca, cb) := grid_pair tA tB mc ids in drained (eager ca cb EAGER_ROUNDS p_init) = true.
Proof.
  intros Hin. pose proof check_grid_true as Hg. unfold check_grid in Hg.
  rewrite forallb_forall in Hg. specialize (Hg _ Hin). cbn beta iota in Hg. unfold check_pair in Hg.
  destruct (grid_pair tA tB mc ids) as [ca cb]. apply andb_true_iff in Hg. tauto.
Qed.

(* ---------- the compatibility verdict over ZMTP/3, ZMTP/2 and inproc ---------- *)
(* ZMTP/3 engines accept a pair of wire socket types exactly when the ZMTP/2 table does (all 11 names) *)
Lemma v3_is_v2_table_b :
  forallb (fun a => forallb (fun b => Bool.eqb (compat_v3 a b) (compat_v2 a b)) all_types) all_types = true.
Proof. vm_compute. reflexivity. Qed.

Theorem v3_verdict_is_v2_verdict a b : In a all_types -> In b all_types -> compat_v3 a b = compat_v2 a b.
Proof.
  intros Ha Hb. pose proof v3_is_v2_table_b as H. rewrite forallb_forall in H. specialize (H a Ha).
  rewrite forallb_forall in H. specialize (H b Hb). apply Bool.eqb_prop. exact H.
Qed.

(* over inproc the same verdict is given for the 8 socket types rzmq implements, except DEALER-DEALER *)
Definition is_dealer_dealer (a b : bytes) : bool := bytes_eqb a s_DEALER && bytes_eqb b s_DEALER.
Lemma inproc_is_v2_table_b :
  forallb (fun a => forallb (fun b => is_dealer_dealer a b || Bool.eqb (compat_inproc a b) (compat_v2 a b))
                            rzmq_types) rzmq_types = true.
Proof. vm_compute. reflexivity. Qed.

Theorem one_verdict_outside a b : In a rzmq_types -> In b rzmq_types -> is_dealer_dealer a b = false ->
  compat_v3 a b = compat_v2 a b /\ compat_inproc a b = compat_v2 a b.
Proof.
  intros Ha Hb Hd. split.
  - apply v3_verdict_is_v2_verdict; unfold rzmq_types, all_types in *; cbn in *; intuition (subst; auto 20).
  - pose proof inproc_is_v2_table_b as H. rewrite forallb_forall in H. specialize (H a Ha).
    rewrite forallb_forall in H. specialize (H b Hb). rewrite Hd in H. cbn [orb] in H. apply Bool.eqb_prop. exact H.
Qed.

(* known finding: DEALER-DEALER is a valid pairing over ZMTP/2 and ZMTP/3 but refused over inproc
   (the repository's own unit test pins the inproc refusal) *)
Theorem one_verdict_refuted :
  compat_v3 s_DEALER s_DEALER = true /\ compat_v2 s_DEALER s_DEALER = true /\ compat_inproc s_DEALER s_DEALER = false.
Proof. vm_compute. repeat split. Qed.

(* the ZMTP table is symmetric: the verdict does not depend on who connects *)
Theorem verdict_symmetric a b : In a all_types -> In b all_types -> compat_v2 a b = compat_v2 b a.
Proof.
  intros Ha Hb.
  assert (forallb (fun a => forallb (fun b => Bool.eqb (compat_v2 a b) (compat_v2 b a)) all_types) all_types = true) as H
    by (vm_compute; reflexivity).
  rewrite forallb_forall in H. specialize (H a Ha). rewrite forallb_forall in H. specialize (H b Hb).
  apply Bool.eqb_prop. exact H.
Qed.
