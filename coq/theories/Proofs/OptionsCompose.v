(* The option layer composed with the models that read the options: what the integer handed to set_option means
   for the behaviour proved elsewhere (Hwm send/recv decisions, the shutdown coordinator, the back-off). *)
From RZ Require Import Base.Prelude Model.Engine Model.Options Proofs.OptionsProofs.
From RZ Require Import Model.Batch Model.Egress Model.IngressDriver Model.Pipeline Model.Inproc Model.Dealer Model.Hwm Proofs.HwmProofs.
From RZ Require Import Model.Shutdown Proofs.ShutdownProofs Model.Backoff Proofs.BackoffProofs.

Definition linger_cfg (o : opts) : linger := match linger_of o with None => LInf | Some d => LMs d end.

Lemma set_sndtimeo (o : opts) (v : Z) : (-1 <= v <= 2147483647)%Z ->
  exists o', apply_opt o SNDTIMEO (i32_bytes v) = inl o' /\ sndtimeo_of o' = timeo_decode v.
Proof. intros H. exact (proj1 (timeo_accepts_all o v H)). Qed.
Lemma set_rcvtimeo (o : opts) (v : Z) : (-1 <= v <= 2147483647)%Z ->
  exists o', apply_opt o RCVTIMEO (i32_bytes v) = inl o' /\ rcvtimeo_of o' = timeo_decode v.
Proof. intros H. exact (proj2 (timeo_accepts_all o v H)). Qed.

(* set_option(SNDTIMEO, 0) then send at the high-water mark: would-block at once, pipe untouched - for every method *)
Theorem sndtimeo_zero_option_immediate (fire : N -> N) (M : Type) (v : variant) (cap len : nat) (w : waitres)
  (q : list M) (m : M) (o : opts) : (cap <= len)%nat ->
  exists o', apply_opt o SNDTIMEO (i32_bytes 0) = inl o' /\
    let r := send_path fire v (try_of cap len false) (sndtimeo_of o') w in
    (exists f : fate, r = Ret AWouldBlock 0 f /\ f <> Enqueued) /\ after_send q m r = q.
Proof.
  intros H. destruct (set_sndtimeo o 0 ltac:(lia)) as (o' & Ha & Hs). exists o'. split; [exact Ha|].
  rewrite Hs. change (timeo_decode 0) with (Some 0%N).
  destruct (snd0_immediate_all fire v cap len w q m H) as ((f & Hf & Hn & _) & Hq).
  cbv zeta. split; [exists f; auto | exact Hq].
Qed.
(* set_option(SNDTIMEO, d), d > 0, then send on a full pipe: never early, within d + slack, for every waiting method *)
Theorem sndtimeo_positive_option (fire : N -> N) (slack : N) (o : opts) (d : Z) (v : variant) (w : waitres) :
  (forall x : N, x <= fire x /\ fire x <= x + slack)%N -> is_sync v = false -> (0 < d <= 2147483647)%Z ->
  exists o', apply_opt o SNDTIMEO (i32_bytes d) = inl o' /\
    positive_spec slack v (Z.to_N d) w (send_path fire v TsFull (sndtimeo_of o') w).
Proof.
  intros Hf Hs Hd. destruct (set_sndtimeo o d ltac:(lia)) as (o' & Ha & Hv). exists o'. split; [exact Ha|].
  rewrite Hv. unfold timeo_decode. destruct (Z.eqb_spec d (-1)); [lia|].
  apply (snd_positive_all fire slack Hf v (Z.to_N d) w Hs). lia.
Qed.
(* set_option(RCVTIMEO, -1) then recv: waits for as long as it takes; (RCVTIMEO, 0): never waits *)
Theorem rcvtimeo_option_extremes (fire : N -> N) (o : opts) (v : rvariant) (tp : trypop) (w : popres) :
  (exists o', apply_opt o RCVTIMEO (i32_bytes (-1)) = inl o' /\
     recv_path fire v false (rcvtimeo_of o') tp w =
     match w with PAt t => RRet AOk t true | PClosedAt t => RRet AClosed t false | PNever => RHang end) /\
  (exists o', apply_opt o RCVTIMEO (i32_bytes 0) = inl o' /\
     recv_path fire v false (rcvtimeo_of o') (try_pop_of 0) w = RRet AWouldBlock 0 false).
Proof.
  split.
  - destruct (set_rcvtimeo o (-1) ltac:(lia)) as (o' & Ha & Hv). exists o'. split; [exact Ha|]. rewrite Hv.
    change (timeo_decode (-1)) with (@None N). apply rcv_minus1_all.
  - destruct (set_rcvtimeo o 0 ltac:(lia)) as (o' & Ha & Hv). exists o'. split; [exact Ha|]. rewrite Hv.
    change (timeo_decode 0) with (Some 0%N). apply rcv0_immediate_all.
Qed.

(* LINGER as configured through set_option drives the shutdown coordinator *)
Theorem linger_option_zero_prompt (o : opts) (now now' : N) (pe : bool) : (now <= now')%N ->
  exists o', apply_opt o LINGER (i32_bytes 0) = inl o' /\ c_ph (initiate (linger_cfg o') now now' pe coord0) = SFinished.
Proof.
  intros H. pose proof (linger_semantics o (i32_bytes 0)) as P. rewrite i32_roundtrip in P by (unfold i32r; lia).
  destruct (apply_opt o LINGER (i32_bytes 0)) as [o'|e].
  - destruct P as (v & [= <-] & _ & Hl & _). exists o'. split; [reflexivity|]. unfold linger_cfg. rewrite Hl.
    change (timeo_decode 0) with (Some 0%N). now apply coord_linger_zero_prompt.
  - destruct P as [(_ & Hx)|(_ & v & [= <-] & Hx)]; [discriminate | lia].
Qed.
Theorem linger_option_infinite_waits (o : opts) (t0 t0' : N) (ts : list tick) :
  Forall (fun tk => snd tk = false) ts ->
  exists o', apply_opt o LINGER (i32_bytes (-1)) = inl o' /\
             c_ph (run_ticks (linger_cfg o') (initiate (linger_cfg o') t0 t0' false coord0) ts) = SLingering.
Proof.
  intros H. pose proof (linger_semantics o (i32_bytes (-1))) as P. rewrite i32_roundtrip in P by (unfold i32r; lia).
  destruct (apply_opt o LINGER (i32_bytes (-1))) as [o'|e].
  - destruct P as (v & [= <-] & _ & Hl & _). exists o'. split; [reflexivity|]. unfold linger_cfg. rewrite Hl.
    change (timeo_decode (-1)) with (@None N). now apply coord_infinite_linger_waits.
  - destruct P as [(_ & Hx)|(_ & v & [= <-] & Hx)]; [discriminate | lia].
Qed.

(* RECONNECT_IVL_MAX = m > 0 caps every reconnect delay at m ms (durations of the back-off model are nanoseconds) *)
Theorem reconnect_max_option_caps (o : opts) (m : Z) (base att : N) : (0 < m <= 2147483647)%Z ->
  exists o', apply_opt o RECONNECT_IVL_MAX (i32_bytes m) = inl o' /\ reconnect_ivl_max_of o' = Some (Z.to_N m) /\
             (delay base (Z.to_N m * 1000000) att <= Z.to_N m * 1000000)%N.
Proof.
  intros H. pose proof (proj2 (reconnect_semantics o (i32_bytes m))) as P. rewrite i32_roundtrip in P by (unfold i32r; lia).
  destruct (apply_opt o RECONNECT_IVL_MAX (i32_bytes m)) as [o'|e].
  - destruct P as (v & [= <-] & _ & Hl & _). exists o'. repeat split; auto. apply delay_le_max. lia.
  - destruct P as [(_ & Hx)|(_ & v & [= <-] & Hx)]; [discriminate | lia].
Qed.
