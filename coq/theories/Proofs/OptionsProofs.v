(* Proofs about the option layer (Model/Options.v): what a set_option call means for the values the other models
   read, for EVERY byte string handed to set_option; framing (nothing else changes); get-after-set. *)
From RZ Require Import Base.Prelude Model.Engine Model.Options.
Local Open Scope Z_scope.

Definition i32r (v : Z) : Prop := -2147483648 <= v <= 2147483647.
Definition i64r (v : Z) : Prop := -9223372036854775808 <= v <= 9223372036854775807.

(* ---------- little-endian encode / decode ---------- *)
Lemma le_val_enc n u : 0 <= u -> le_val (le_enc n u) = u mod 256 ^ Z.of_nat n.
Proof.
  revert u. induction n as [|n IH]; intros u Hu.
  - cbn. rewrite Z.mod_1_r. reflexivity.
  - cbn [le_enc le_val]. rewrite IH by (apply Z.div_pos; lia).
    rewrite Z2N.id by (apply Z.mod_pos_bound; lia).
    rewrite Nat2Z.inj_succ, Z.pow_succ_r by lia.
    rewrite (Z.rem_mul_r u 256 (256 ^ Z.of_nat n)) by (try apply Z.pow_pos_nonneg; lia). lia.
Qed.
Lemma le_enc_length n u : length (le_enc n u) = n.
Proof. revert u; induction n as [|n IH]; intros u; cbn; [reflexivity | now rewrite IH]. Qed.

Lemma wrap_signed_32 v : i32r v -> wrap_signed 32 (v mod 2 ^ 32) = v.
Proof.
  unfold i32r, wrap_signed. intros H. change (2 ^ 32) with 4294967296. change (2 ^ (32 - 1)) with 2147483648.
  rewrite Z.mod_mod by lia. destruct (Z.ltb_spec (v mod 4294967296) 2147483648); lia.
Qed.
Lemma wrap_signed_64 v : i64r v -> wrap_signed 64 (v mod 2 ^ 64) = v.
Proof.
  unfold i64r, wrap_signed. intros H. change (2 ^ 64) with 18446744073709551616.
  change (2 ^ (64 - 1)) with 9223372036854775808.
  rewrite Z.mod_mod by lia. destruct (Z.ltb_spec (v mod 18446744073709551616) 9223372036854775808); lia.
Qed.
Lemma wrap_signed_32_range u : i32r (wrap_signed 32 u).
Proof.
  unfold i32r, wrap_signed. change (2 ^ 32) with 4294967296. change (2 ^ (32 - 1)) with 2147483648.
  destruct (Z.ltb_spec (u mod 4294967296) 2147483648); lia.
Qed.
Lemma wrap_signed_64_range u : i64r (wrap_signed 64 u).
Proof.
  unfold i64r, wrap_signed. change (2 ^ 64) with 18446744073709551616. change (2 ^ (64 - 1)) with 9223372036854775808.
  destruct (Z.ltb_spec (u mod 18446744073709551616) 9223372036854775808); lia.
Qed.

Lemma i32_roundtrip v : i32r v -> i32_of (i32_bytes v) = Some v.
Proof.
  intros H. unfold i32_of, i32_bytes. rewrite le_enc_length. cbn [Nat.eqb].
  rewrite le_val_enc by (apply Z.mod_pos_bound; reflexivity).
  change (256 ^ Z.of_nat 4) with (2 ^ 32). rewrite Z.mod_mod by (cbv; discriminate).
  now rewrite wrap_signed_32.
Qed.
Lemma i64_roundtrip v : i64r v -> i64_of (i64_bytes v) = Some v.
Proof.
  intros H. unfold i64_of, i64_bytes. rewrite le_enc_length. cbn [Nat.eqb].
  rewrite le_val_enc by (apply Z.mod_pos_bound; reflexivity).
  change (256 ^ Z.of_nat 8) with (2 ^ 64). rewrite Z.mod_mod by (cbv; discriminate).
  now rewrite wrap_signed_64.
Qed.
Lemma i32_of_range b v : i32_of b = Some v -> i32r v.
Proof. unfold i32_of. destruct (Nat.eqb _ _); [|discriminate]. intros [= <-]. apply wrap_signed_32_range. Qed.
Lemma i64_of_range b v : i64_of b = Some v -> i64r v.
Proof. unfold i64_of. destruct (Nat.eqb _ _); [|discriminate]. intros [= <-]. apply wrap_signed_64_range. Qed.
Lemma i32_of_length b v : i32_of b = Some v -> length b = 4%nat.
Proof. unfold i32_of. destruct (Nat.eqb_spec (length b) 4); [auto|discriminate]. Qed.
Lemma i32_of_none b : i32_of b = None <-> length b <> 4%nat.
Proof. unfold i32_of. destruct (Nat.eqb_spec (length b) 4); split; intros; try discriminate; try contradiction; auto. Qed.

(* ---------- oset / framing ---------- *)
Lemma field_beq_refl f : field_beq f f = true.
Proof. destruct f; reflexivity. Qed.
Lemma field_beq_eq f g : field_beq f g = true <-> f = g.
Proof. split; [apply internal_field_dec_bl | intros ->; apply field_beq_refl]. Qed.
Lemma oset_same o f v : oset o f v f = v.
Proof. unfold oset. now rewrite field_beq_refl. Qed.
Lemma oset_other o f v g : g <> f -> oset o f v g = o g.
Proof.
  unfold oset. intros H. destruct (field_beq g f) eqn:E; [|reflexivity]. apply field_beq_eq in E. contradiction.
Qed.
Lemma fold_oset_other (l : list field) o g :
  ~ In g l -> fold_left (fun o' f => oset o' f (VB true)) l o g = o g.
Proof.
  revert o. induction l as [|f l IH]; intros o H; cbn [fold_left]; [reflexivity|].
  rewrite IH by (intros Hi; apply H; now right). apply oset_other. intros ->. apply H. now left.
Qed.
Lemma fold_oset_in (l : list field) o g :
  In g l -> fold_left (fun o' f => oset o' f (VB true)) l o g = VB true.
Proof.
  revert o. induction l as [|f l IH]; intros o H; cbn [fold_left]; [destruct H|].
  destruct (in_dec field_eq_dec g l) as [Hi|Hn]; [now apply IH|].
  rewrite fold_oset_other by assumption. destruct H as [->|H]; [apply oset_same | contradiction].
Qed.

(* what a successful / failed apply looks like, for any rule table *)
Lemma apply_with_inv rules unsup o id b :
  match apply_with rules unsup o id b with
  | inl o' => exists r v, find_rule rules id = Some r /\ run_pk (r_pk r) id b = inl v
                          /\ o' = fold_left (fun o' f => oset o' f (VB true)) (r_also r) (oset o (r_field r) v)
  | inr e => (exists r, find_rule rules id = Some r /\ run_pk (r_pk r) id b = inr e)
             \/ (find_rule rules id = None /\ (e = EUnsupported id \/ e = EInvalidOption id))
  end.
Proof.
  unfold apply_with. destruct (find_rule rules id) as [r|] eqn:Er.
  - destruct (run_pk (r_pk r) id b) as [v|e] eqn:Ev.
    + exists r, v. auto.
    + left. exists r. auto.
  - destruct (existsb (Z.eqb id) unsup); right; auto.
Qed.

(* FRAME: a set_option call changes only the rule's own field and the flags it switches on *)
Theorem apply_frame o id b o' r :
  apply_opt o id b = inl o' -> find_rule apply_rules id = Some r ->
  forall g, g <> r_field r -> ~ In g (r_also r) -> o' g = o g.
Proof.
  intros H Hr g Hg Hn. pose proof (apply_with_inv apply_rules apply_unsupported o id b) as P.
  unfold apply_opt in H. rewrite H in P. destruct P as (r' & v & Hr' & _ & ->).
  unfold apply_opt in Hr. rewrite Hr in Hr'. injection Hr' as <-.
  rewrite fold_oset_other by assumption. now apply oset_other.
Qed.
Theorem apply_sets_field o id b o' r :
  apply_opt o id b = inl o' -> find_rule apply_rules id = Some r -> ~ In (r_field r) (r_also r) ->
  run_pk (r_pk r) id b = inl (o' (r_field r)).
Proof.
  intros H Hr Hn. pose proof (apply_with_inv apply_rules apply_unsupported o id b) as P.
  unfold apply_opt in H. rewrite H in P. destruct P as (r' & v & Hr' & Hv & ->).
  unfold apply_opt in Hr. rewrite Hr in Hr'. injection Hr' as <-.
  rewrite fold_oset_other by assumption. now rewrite oset_same.
Qed.
(* no rule lists its own field among the flags *)
Lemma rules_also_disjoint : forallb (fun r => negb (existsb (field_beq (r_field r)) (r_also r))) apply_rules = true.
Proof. vm_compute. reflexivity. Qed.
(* a failed set_option leaves the configuration as it was (update_core_option commits only on Ok) *)
Theorem apply_all_error_keeps o id b e : apply_opt o id b = inr e -> apply_all o [(id, b)] = (o, [Some e]).
Proof. intros H. cbn. now rewrite H. Qed.
Theorem apply_all_ok_steps o id b o' : apply_opt o id b = inl o' -> apply_all o [(id, b)] = (o', [None]).
Proof. intros H. cbn. now rewrite H. Qed.
(* ids outside both tables are refused as unknown, listed pattern ids as unsupported; neither touches the config *)
Theorem apply_unknown_id o id b :
  find_rule apply_rules id = None ->
  apply_opt o id b = inr (if existsb (Z.eqb id) apply_unsupported then EUnsupported id else EInvalidOption id).
Proof. intros H. unfold apply_opt, apply_with. rewrite H. destruct (existsb _ _); reflexivity. Qed.

(* ---------- one option at a time: a small kit ---------- *)
Ltac rule_of ID R0 :=
  unfold apply_opt, apply_with;
  change (find_rule apply_rules ID) with (Some R0);
  cbn [r_pk r_field r_also R run_pk fold_left of_pres]; unfold with_i32.

Definition timeo_decode (v : Z) : option N := if v =? -1 then None else Some (Z.to_N v).

(* SNDTIMEO / RCVTIMEO (options.rs:518 parse_timeout_option): -1 infinite, 0 immediate, d > 0 that many ms; every
   other byte string is refused under the option's own id and nothing changes *)
Section Timeo.
  Variables (ID : Z) (F : field).
  Hypothesis HR : find_rule apply_rules ID = Some (R ID KTimeout F []).

  Lemma timeo_apply o b :
    match apply_opt o ID b with
    | inl o' => exists v, i32_of b = Some v /\ -1 <= v /\ as_timeo (o' F) = timeo_decode v /\ o' F = VOZ (if v =? -1 then None else Some v)
                          /\ (forall g, g <> F -> o' g = o g)
    | inr e => e = EVal ID /\ (i32_of b = None \/ exists v, i32_of b = Some v /\ v < -1)
    end.
  Proof.
    unfold apply_opt, apply_with. rewrite HR.
    cbn [r_pk r_field r_also R run_pk fold_left of_pres]; unfold with_i32.
    destruct (i32_of b) as [v|] eqn:Eb; cbv beta iota; [|split; auto].
    unfold parse_timeout.
    destruct (Z.eqb_spec v (-1)) as [->|Hn1].
    - cbn [of_pres]. exists (-1). repeat split; try lia; try (now rewrite oset_same).
      intros g Hg. now apply oset_other.
    - destruct (Z.eqb_spec v 0) as [->|Hn0].
      + cbn [of_pres]. exists 0. repeat split; try lia; try (now rewrite oset_same).
        intros g Hg. now apply oset_other.
      + destruct (Z.leb_spec 1 v) as [Hp|Hneg].
        * cbn [of_pres]. exists v. rewrite oset_same. unfold timeo_decode.
          destruct (Z.eqb_spec v (-1)); [lia|]. repeat split; try lia; auto.
          intros g Hg. now apply oset_other.
        * cbn [of_pres]. split; [reflexivity|]. right. exists v. split; [reflexivity | lia].
  Qed.

  Lemma timeo_accepts o v : -1 <= v <= 2147483647 ->
    exists o', apply_opt o ID (i32_bytes v) = inl o' /\ as_timeo (o' F) = timeo_decode v.
  Proof.
    intros Hv. pose proof (timeo_apply o (i32_bytes v)) as P.
    rewrite i32_roundtrip in P by (unfold i32r; lia).
    destruct (apply_opt o ID (i32_bytes v)) as [o'|e].
    - destruct P as (v' & [= <-] & _ & Hd & _). eauto.
    - destruct P as (_ & [H|(v' & [= <-] & H)]); [discriminate | lia].
  Qed.
End Timeo.

Lemma rule_sndtimeo : find_rule apply_rules SNDTIMEO = Some (R SNDTIMEO KTimeout F_sndtimeo []).  Proof. reflexivity. Qed.
Lemma rule_rcvtimeo : find_rule apply_rules RCVTIMEO = Some (R RCVTIMEO KTimeout F_rcvtimeo []).  Proof. reflexivity. Qed.

Theorem sndtimeo_semantics o b :
  match apply_opt o SNDTIMEO b with
  | inl o' => exists v, i32_of b = Some v /\ -1 <= v /\ sndtimeo_of o' = timeo_decode v /\ rcvtimeo_of o' = rcvtimeo_of o
                        /\ (forall g, g <> F_sndtimeo -> o' g = o g)
  | inr e => e = EVal SNDTIMEO /\ (i32_of b = None \/ exists v, i32_of b = Some v /\ v < -1)
  end.
Proof.
  pose proof (timeo_apply SNDTIMEO F_sndtimeo rule_sndtimeo o b) as P.
  destruct (apply_opt o SNDTIMEO b) as [o'|e]; [|exact P].
  destruct P as (v & H1 & H2 & H3 & _ & H4). exists v. repeat split; auto.
  unfold rcvtimeo_of, oget. now rewrite H4 by discriminate.
Qed.
Theorem rcvtimeo_semantics o b :
  match apply_opt o RCVTIMEO b with
  | inl o' => exists v, i32_of b = Some v /\ -1 <= v /\ rcvtimeo_of o' = timeo_decode v /\ sndtimeo_of o' = sndtimeo_of o
                        /\ (forall g, g <> F_rcvtimeo -> o' g = o g)
  | inr e => e = EVal RCVTIMEO /\ (i32_of b = None \/ exists v, i32_of b = Some v /\ v < -1)
  end.
Proof.
  pose proof (timeo_apply RCVTIMEO F_rcvtimeo rule_rcvtimeo o b) as P.
  destruct (apply_opt o RCVTIMEO b) as [o'|e]; [|exact P].
  destruct P as (v & H1 & H2 & H3 & _ & H4). exists v. repeat split; auto.
  unfold sndtimeo_of, oget. now rewrite H4 by discriminate.
Qed.
Theorem timeo_accepts_all o v : -1 <= v <= 2147483647 ->
  (exists o', apply_opt o SNDTIMEO (i32_bytes v) = inl o' /\ sndtimeo_of o' = timeo_decode v) /\
  (exists o', apply_opt o RCVTIMEO (i32_bytes v) = inl o' /\ rcvtimeo_of o' = timeo_decode v).
Proof.
  intros H. split.
  - exact (timeo_accepts SNDTIMEO F_sndtimeo rule_sndtimeo o v H).
  - exact (timeo_accepts RCVTIMEO F_rcvtimeo rule_rcvtimeo o v H).
Qed.

(* get after set: the value read back is the value written, for every accepted value *)
Lemma sat_i32_id v : 0 <= v <= 2147483647 -> sat_i32 v = v.
Proof. unfold sat_i32, i32_max. intros H. destruct (Z.leb_spec v 2147483647); lia. Qed.
Lemma as_i32_id v : i32r v -> as_i32 v = v.
Proof.
  unfold as_i32, wrap_signed, i32r. change (2 ^ 32) with 4294967296. change (2 ^ (32 - 1)) with 2147483648. intros H.
  destruct (Z.ltb_spec (v mod 4294967296) 2147483648); lia.
Qed.

Theorem timeo_get_after_set o v : -1 <= v <= 2147483647 ->
  (exists o', apply_opt o SNDTIMEO (i32_bytes v) = inl o' /\ retrieve_opt o' SNDTIMEO = GOk (i32_bytes v)) /\
  (exists o', apply_opt o RCVTIMEO (i32_bytes v) = inl o' /\ retrieve_opt o' RCVTIMEO = GOk (i32_bytes v)).
Proof.
  intros H. split.
  - pose proof (timeo_apply SNDTIMEO F_sndtimeo rule_sndtimeo o (i32_bytes v)) as P.
    rewrite i32_roundtrip in P by (unfold i32r; lia).
    destruct (apply_opt o SNDTIMEO (i32_bytes v)) as [o'|e].
    + destruct P as (v' & [= <-] & _ & _ & Hf & _). exists o'. split; [reflexivity|].
      unfold retrieve_opt, retrieve_with. change (find _ get_rules) with (Some (SNDTIMEO, GMsSat, F_sndtimeo)). cbv beta iota.
      unfold oget. rewrite Hf. cbn [run_gk]. destruct (Z.eqb_spec v (-1)) as [->|]; [reflexivity|].
      now rewrite sat_i32_id by lia.
    + destruct P as (_ & [Hx|(v' & [= <-] & Hx)]); [discriminate | lia].
  - pose proof (timeo_apply RCVTIMEO F_rcvtimeo rule_rcvtimeo o (i32_bytes v)) as P.
    rewrite i32_roundtrip in P by (unfold i32r; lia).
    destruct (apply_opt o RCVTIMEO (i32_bytes v)) as [o'|e].
    + destruct P as (v' & [= <-] & _ & _ & Hf & _). exists o'. split; [reflexivity|].
      unfold retrieve_opt, retrieve_with. change (find _ get_rules) with (Some (RCVTIMEO, GMsSat, F_rcvtimeo)). cbv beta iota.
      unfold oget. rewrite Hf. cbn [run_gk]. destruct (Z.eqb_spec v (-1)) as [->|]; [reflexivity|].
      now rewrite sat_i32_id by lia.
    + destruct P as (_ & [Hx|(v' & [= <-] & Hx)]); [discriminate | lia].
Qed.

(* ---------- high-water marks: max(v, 0) messages, never refused for a 4-byte value ---------- *)
Theorem hwm_semantics o b :
  (match apply_opt o SNDHWM b with
   | inl o' => exists v, i32_of b = Some v /\ sndhwm_of o' = Z.to_N (Z.max v 0) /\ (forall g, g <> F_sndhwm -> o' g = o g)
   | inr e => e = EVal 0 /\ i32_of b = None
   end) /\
  (match apply_opt o RCVHWM b with
   | inl o' => exists v, i32_of b = Some v /\ rcvhwm_of o' = Z.to_N (Z.max v 0) /\ (forall g, g <> F_rcvhwm -> o' g = o g)
   | inr e => e = EVal 0 /\ i32_of b = None
   end).
Proof.
  split.
  - rule_of SNDHWM (R SNDHWM (KI32Max 0 false) F_sndhwm []).
    destruct (i32_of b) as [v|]; cbv beta iota; [|auto]. exists v. split; [reflexivity|]. split.
    + unfold sndhwm_of, oget. now rewrite oset_same.
    + intros g Hg. now apply oset_other.
  - rule_of RCVHWM (R RCVHWM (KI32Max 0 false) F_rcvhwm []).
    destruct (i32_of b) as [v|]; cbv beta iota; [|auto]. exists v. split; [reflexivity|]. split.
    + unfold rcvhwm_of, oget. now rewrite oset_same.
    + intros g Hg. now apply oset_other.
Qed.

(* ---------- LINGER (options.rs:531): -1 infinite, 0 discard at once, d > 0 that many ms ---------- *)
Theorem linger_semantics o b :
  match apply_opt o LINGER b with
  | inl o' => exists v, i32_of b = Some v /\ -1 <= v /\ linger_of o' = timeo_decode v
                        /\ oget o' F_linger = VOZ (if v =? -1 then None else Some v)
                        /\ (forall g, g <> F_linger -> o' g = o g)
  | inr e => (e = EVal 0 /\ i32_of b = None) \/ (e = EVal LINGER /\ exists v, i32_of b = Some v /\ v < -1)
  end.
Proof.
  rule_of LINGER (R LINGER KLinger F_linger []).
  destruct (i32_of b) as [v|] eqn:Eb; cbv beta iota; [|left; auto].
  unfold parse_linger. destruct (Z.eqb_spec v (-1)) as [->|Hn1].
  - cbn [of_pres]. exists (-1). unfold linger_of, oget. rewrite oset_same. repeat split; try lia.
    intros g Hg. now apply oset_other.
  - destruct (Z.leb_spec 0 v).
    + cbn [of_pres]. exists v. unfold linger_of, oget, timeo_decode. rewrite oset_same.
      destruct (Z.eqb_spec v (-1)); [lia|]. repeat split; try lia. intros g Hg. now apply oset_other.
    + cbn [of_pres]. right. split; [reflexivity|]. exists v. split; [reflexivity|lia].
Qed.
Theorem linger_get_after_set o v : -1 <= v <= 2147483647 ->
  exists o', apply_opt o LINGER (i32_bytes v) = inl o' /\ retrieve_opt o' LINGER = GOk (i32_bytes v).
Proof.
  intros H. pose proof (linger_semantics o (i32_bytes v)) as P. rewrite i32_roundtrip in P by (unfold i32r; lia).
  destruct (apply_opt o LINGER (i32_bytes v)) as [o'|e].
  - destruct P as (v' & [= <-] & _ & _ & Hf & _). exists o'. split; [reflexivity|].
    unfold retrieve_opt, retrieve_with. change (find _ get_rules) with (Some (LINGER, GMsSat, F_linger)). cbv beta iota.
    rewrite Hf. cbn [run_gk]. destruct (Z.eqb_spec v (-1)) as [->|]; [reflexivity|]. now rewrite sat_i32_id by lia.
  - destruct P as [(_ & Hx)|(_ & v' & [= <-] & Hx)]; [discriminate | lia].
Qed.

(* ---------- heartbeat / handshake intervals: 0 switches the feature off, d > 0 is d ms, negatives refused ---------- *)
Definition ivl_decode (v : Z) : option N := if v =? 0 then None else Some (Z.to_N v).
Section Ivl.
  Variables (ID : Z) (F : field) (K : pk).
  Hypothesis HK : K = KHeartbeat \/ K = KHandshake.
  Hypothesis HR : find_rule apply_rules ID = Some (R ID K F []).
  Lemma ivl_apply o b :
    match apply_opt o ID b with
    | inl o' => exists v, i32_of b = Some v /\ 0 <= v /\ as_timeo (o' F) = ivl_decode v /\ (forall g, g <> F -> o' g = o g)
    | inr e => e = EVal ID /\ (i32_of b = None \/ exists v, i32_of b = Some v /\ v < 0)
    end.
  Proof.
    unfold apply_opt, apply_with. rewrite HR.
    assert (Hrun : run_pk K ID b = with_i32 b ID (fun v => of_pres (parse_heartbeat v ID))).
    { destruct HK as [-> | ->]; reflexivity. }
    cbn [r_pk r_field r_also R fold_left]. rewrite Hrun. unfold with_i32.
    destruct (i32_of b) as [v|]; cbv beta iota; [|auto]. unfold parse_heartbeat.
    destruct (Z.eqb_spec v 0) as [->|Hn0].
    - cbn [of_pres]. exists 0. rewrite oset_same. repeat split; try lia. intros g Hg. now apply oset_other.
    - destruct (Z.leb_spec 1 v).
      + cbn [of_pres]. exists v. rewrite oset_same. unfold ivl_decode. destruct (Z.eqb_spec v 0); [lia|].
        repeat split; try lia. intros g Hg. now apply oset_other.
      + cbn [of_pres]. split; [reflexivity|]. right. exists v. split; [reflexivity|lia].
  Qed.
End Ivl.
Theorem heartbeat_semantics o b :
  (match apply_opt o HEARTBEAT_IVL b with
   | inl o' => exists v, i32_of b = Some v /\ 0 <= v /\ heartbeat_ivl_of o' = ivl_decode v /\ (forall g, g <> F_heartbeat_ivl -> o' g = o g)
   | inr e => e = EVal HEARTBEAT_IVL /\ (i32_of b = None \/ exists v, i32_of b = Some v /\ v < 0)
   end) /\
  (match apply_opt o HEARTBEAT_TIMEOUT b with
   | inl o' => exists v, i32_of b = Some v /\ 0 <= v /\ heartbeat_timeout_of o' = ivl_decode v /\ (forall g, g <> F_heartbeat_timeout -> o' g = o g)
   | inr e => e = EVal HEARTBEAT_TIMEOUT /\ (i32_of b = None \/ exists v, i32_of b = Some v /\ v < 0)
   end).
Proof.
  split.
  - exact (ivl_apply HEARTBEAT_IVL F_heartbeat_ivl KHeartbeat (or_introl eq_refl) eq_refl o b).
  - exact (ivl_apply HEARTBEAT_TIMEOUT F_heartbeat_timeout KHeartbeat (or_introl eq_refl) eq_refl o b).
Qed.
Theorem handshake_ivl_semantics o b :
  match apply_opt o HANDSHAKE_IVL b with
  | inl o' => exists v, i32_of b = Some v /\ 0 <= v /\ handshake_ivl_of o' = ivl_decode v /\ (forall g, g <> F_handshake_ivl -> o' g = o g)
  | inr e => e = EVal HANDSHAKE_IVL /\ (i32_of b = None \/ exists v, i32_of b = Some v /\ v < 0)
  end.
Proof. exact (ivl_apply HANDSHAKE_IVL F_handshake_ivl KHandshake (or_intror eq_refl) eq_refl o b). Qed.

(* ---------- MAXMSGSIZE: an 8-byte value, -1 unlimited, n >= 0 the limit; anything below -1 refused ---------- *)
Theorem maxmsgsize_semantics o b :
  match apply_opt o MAXMSGSIZE b with
  | inl o' => exists v, i64_of b = Some v /\ -1 <= v /\ maxmsgsize_of o' = v /\ (forall g, g <> F_maxmsgsize -> o' g = o g)
  | inr e => e = EVal MAXMSGSIZE /\ (i64_of b = None \/ exists v, i64_of b = Some v /\ v < -1)
  end.
Proof.
  rule_of MAXMSGSIZE (R MAXMSGSIZE KMaxMsg F_maxmsgsize []).
  destruct (i64_of b) as [v|]; cbv beta iota; [|auto]. unfold parse_maxmsgsize.
  destruct (Z.ltb_spec v (-1)).
  - split; [reflexivity|]. right. exists v. auto.
  - exists v. unfold maxmsgsize_of, oget. rewrite oset_same. repeat split; try lia. intros g Hg. now apply oset_other.
Qed.

(* ---------- RECONNECT_IVL / RECONNECT_IVL_MAX ---------- *)
(* RECONNECT_IVL: 0 (and -1) switch reconnection off, d > 0 is the base interval.  RECONNECT_IVL_MAX: 0 = no cap
   (stored as Some 0, which the back-off reads as "no maximum"), d > 0 the cap; negatives refused *)
Theorem reconnect_semantics o b :
  (match apply_opt o RECONNECT_IVL b with
   | inl o' => exists v, i32_of b = Some v /\ -1 <= v
                         /\ reconnect_ivl_of o' = (if (v =? -1) || (v =? 0) then None else Some (Z.to_N v))
                         /\ (forall g, g <> F_reconnect_ivl -> o' g = o g)
   | inr e => (e = EVal 0 /\ i32_of b = None) \/ (e = EVal RECONNECT_IVL /\ exists v, i32_of b = Some v /\ v < -1)
   end) /\
  (match apply_opt o RECONNECT_IVL_MAX b with
   | inl o' => exists v, i32_of b = Some v /\ 0 <= v /\ reconnect_ivl_max_of o' = Some (Z.to_N v)
                         /\ (forall g, g <> F_reconnect_ivl_max -> o' g = o g)
   | inr e => (e = EVal 0 /\ i32_of b = None) \/ (e = EVal RECONNECT_IVL_MAX /\ exists v, i32_of b = Some v /\ v < 0)
   end).
Proof.
  split.
  - rule_of RECONNECT_IVL (R RECONNECT_IVL KReconnIvl F_reconnect_ivl []).
    destruct (i32_of b) as [v|]; cbv beta iota; [|left; auto]. unfold parse_reconnect_ivl.
    destruct (Z.eqb_spec v (-1)) as [->|H1].
    + cbn [of_pres]. exists (-1). unfold reconnect_ivl_of, oget. rewrite oset_same. repeat split; try lia.
      intros g Hg. now apply oset_other.
    + destruct (Z.eqb_spec v 0) as [->|H0].
      * cbn [of_pres]. exists 0. unfold reconnect_ivl_of, oget. rewrite oset_same. repeat split; try lia.
        intros g Hg. now apply oset_other.
      * destruct (Z.leb_spec 1 v).
        -- cbn [of_pres]. exists v. unfold reconnect_ivl_of, oget. rewrite oset_same.
           destruct (Z.eqb_spec v (-1)); [lia|]. destruct (Z.eqb_spec v 0); [lia|]. cbn [orb as_timeo].
           repeat split; try lia. intros g Hg. now apply oset_other.
        -- cbn [of_pres]. right. split; [reflexivity|]. exists v. split; [reflexivity|lia].
  - rule_of RECONNECT_IVL_MAX (R RECONNECT_IVL_MAX KReconnMax F_reconnect_ivl_max []).
    destruct (i32_of b) as [v|]; cbv beta iota; [|left; auto]. unfold parse_reconnect_ivl_max.
    destruct (Z.eqb_spec v 0) as [->|H0].
    + cbn [of_pres]. exists 0. unfold reconnect_ivl_max_of, oget. rewrite oset_same. repeat split; try lia.
      intros g Hg. now apply oset_other.
    + destruct (Z.leb_spec 1 v).
      * cbn [of_pres]. exists v. unfold reconnect_ivl_max_of, oget. rewrite oset_same. repeat split; try lia.
        intros g Hg. now apply oset_other.
      * cbn [of_pres]. right. split; [reflexivity|]. exists v. split; [reflexivity|lia].
Qed.

(* ---------- defaults ---------- *)
Theorem default_semantics :
  sndtimeo_of default_opts = None /\ rcvtimeo_of default_opts = None /\ linger_of default_opts = Some 0%N
  /\ sndhwm_of default_opts = 256%N /\ rcvhwm_of default_opts = 256%N /\ maxmsgsize_of default_opts = -1
  /\ heartbeat_ivl_of default_opts = None /\ handshake_ivl_of default_opts = None
  /\ reconnect_ivl_of default_opts = Some 1000%N /\ reconnect_ivl_max_of default_opts = Some 0%N.
Proof. repeat split; reflexivity. Qed.

(* every get rule reads a field of the type its encoder expects (run_gk's catch-all is dead) *)
Definition gk_typed (k : gk) (v : oval) : bool :=
  match k, v with
  | (GOptUsizeI32 _ | GMsSat | GMsTrunc | GSecsTrunc), VOZ _ => true
  | (GUsizeI32 | GI32 | GI64), VZ _ => true
  | GBool, VB _ => true | GOptBool, VOB _ => true | GBytes, VOBy _ => true | GWriteOnly, _ => true
  | _, _ => false
  end.
Lemma get_rules_typed_default : forallb (fun '(_, k, f) => gk_typed k (default_opts f)) get_rules = true.
Proof. vm_compute. reflexivity. Qed.

(* ---------- get after set for the other numeric options: the value read back is the value written ---------- *)
Theorem hwm_get_after_set o v : 0 <= v <= 2147483647 ->
  (exists o', apply_opt o SNDHWM (i32_bytes v) = inl o' /\ retrieve_opt o' SNDHWM = GOk (i32_bytes v)) /\
  (exists o', apply_opt o RCVHWM (i32_bytes v) = inl o' /\ retrieve_opt o' RCVHWM = GOk (i32_bytes v)).
Proof.
  intros H. split.
  - rule_of SNDHWM (R SNDHWM (KI32Max 0 false) F_sndhwm []). rewrite i32_roundtrip by (unfold i32r; lia).
    eexists. split; [reflexivity|]. unfold retrieve_opt, retrieve_with.
    change (find _ get_rules) with (Some (SNDHWM, GUsizeI32, F_sndhwm)). cbv beta iota. unfold oget. rewrite oset_same.
    cbn [run_gk]. rewrite Z.max_l by lia. now rewrite as_i32_id by (unfold i32r; lia).
  - rule_of RCVHWM (R RCVHWM (KI32Max 0 false) F_rcvhwm []). rewrite i32_roundtrip by (unfold i32r; lia).
    eexists. split; [reflexivity|]. unfold retrieve_opt, retrieve_with.
    change (find _ get_rules) with (Some (RCVHWM, GUsizeI32, F_rcvhwm)). cbv beta iota. unfold oget. rewrite oset_same.
    cbn [run_gk]. rewrite Z.max_l by lia. now rewrite as_i32_id by (unfold i32r; lia).
Qed.
(* a negative high-water mark is clamped: it reads back as 0 *)
Theorem hwm_negative_reads_zero o v : -2147483648 <= v < 0 ->
  exists o', apply_opt o SNDHWM (i32_bytes v) = inl o' /\ retrieve_opt o' SNDHWM = GOk (i32_bytes 0).
Proof.
  intros H. rule_of SNDHWM (R SNDHWM (KI32Max 0 false) F_sndhwm []). rewrite i32_roundtrip by (unfold i32r; lia).
  eexists. split; [reflexivity|]. unfold retrieve_opt, retrieve_with.
  change (find _ get_rules) with (Some (SNDHWM, GUsizeI32, F_sndhwm)). cbv beta iota. unfold oget. rewrite oset_same.
  cbn [run_gk]. rewrite Z.max_r by lia. reflexivity.
Qed.
Theorem maxmsgsize_get_after_set o v : -1 <= v <= 9223372036854775807 ->
  exists o', apply_opt o MAXMSGSIZE (i64_bytes v) = inl o' /\ retrieve_opt o' MAXMSGSIZE = GOk (i64_bytes v).
Proof.
  intros H. rule_of MAXMSGSIZE (R MAXMSGSIZE KMaxMsg F_maxmsgsize []). rewrite i64_roundtrip by (unfold i64r; lia).
  unfold parse_maxmsgsize. destruct (Z.ltb_spec v (-1)); [lia|].
  eexists. split; [reflexivity|]. unfold retrieve_opt, retrieve_with.
  change (find _ get_rules) with (Some (MAXMSGSIZE, GI64, F_maxmsgsize)). cbv beta iota. unfold oget. now rewrite oset_same.
Qed.

(* interval options read back as written (0 = off included) *)
Section IvlGet.
  Variables (ID : Z) (F : field) (K : pk).
  Hypothesis HK : K = KHeartbeat \/ K = KHandshake.
  Hypothesis HR : find_rule apply_rules ID = Some (R ID K F []).
  Hypothesis HG : find (fun '(i, _, _) => i =? ID) get_rules = Some (ID, GMsTrunc, F).
  Lemma ivl_get_after_set o v : 0 <= v <= 2147483647 ->
    exists o', apply_opt o ID (i32_bytes v) = inl o' /\ retrieve_opt o' ID = GOk (i32_bytes v).
  Proof.
    intros H. unfold apply_opt, apply_with. rewrite HR.
    assert (Hrun : run_pk K ID (i32_bytes v) = with_i32 (i32_bytes v) ID (fun v => of_pres (parse_heartbeat v ID))).
    { destruct HK as [-> | ->]; reflexivity. }
    cbn [r_pk r_field r_also R fold_left]. rewrite Hrun. unfold with_i32.
    rewrite i32_roundtrip by (unfold i32r; lia). unfold parse_heartbeat.
    destruct (Z.eqb_spec v 0) as [->|Hn0].
    - cbn [of_pres]. eexists. split; [reflexivity|]. unfold retrieve_opt, retrieve_with. rewrite HG. cbv beta iota.
      unfold oget. rewrite oset_same. reflexivity.
    - destruct (Z.leb_spec 1 v); [|lia]. cbn [of_pres]. eexists. split; [reflexivity|].
      unfold retrieve_opt, retrieve_with. rewrite HG. cbv beta iota. unfold oget. rewrite oset_same. cbn [run_gk].
      now rewrite as_i32_id by (unfold i32r; lia).
  Qed.
End IvlGet.
Theorem heartbeat_get_after_set o v : 0 <= v <= 2147483647 ->
  (exists o', apply_opt o HEARTBEAT_IVL (i32_bytes v) = inl o' /\ retrieve_opt o' HEARTBEAT_IVL = GOk (i32_bytes v)) /\
  (exists o', apply_opt o HEARTBEAT_TIMEOUT (i32_bytes v) = inl o' /\ retrieve_opt o' HEARTBEAT_TIMEOUT = GOk (i32_bytes v)) /\
  (exists o', apply_opt o HANDSHAKE_IVL (i32_bytes v) = inl o' /\ retrieve_opt o' HANDSHAKE_IVL = GOk (i32_bytes v)).
Proof.
  intros H. repeat split.
  - exact (ivl_get_after_set HEARTBEAT_IVL F_heartbeat_ivl KHeartbeat (or_introl eq_refl) eq_refl eq_refl o v H).
  - exact (ivl_get_after_set HEARTBEAT_TIMEOUT F_heartbeat_timeout KHeartbeat (or_introl eq_refl) eq_refl eq_refl o v H).
  - exact (ivl_get_after_set HANDSHAKE_IVL F_handshake_ivl KHandshake (or_intror eq_refl) eq_refl eq_refl o v H).
Qed.
