(* Proofs about the inproc path (Model/Inproc.v). *)
From RZ Require Import Base.Prelude Model.Codec Model.Inproc.

Lemma regroup_frames : forall bs acc out acc' out',
  regroup acc out bs = (acc', out') -> concat out' ++ acc' = concat out ++ acc ++ concat bs.
Proof.
  induction bs as [|b bs IH]; intros acc out acc' out' H; cbn [regroup] in H.
  - inversion H; subst. cbn. now rewrite app_nil_r.
  - destruct (last_not_more (acc ++ b)).
    + apply IH in H. rewrite H. cbn [concat app]. rewrite concat_app. cbn [concat]. rewrite app_nil_r, <- !app_assoc. reflexivity.
    + apply IH in H. rewrite H. cbn [concat]. rewrite <- !app_assoc. reflexivity.
Qed.

Lemma whole_last b : whole b = true -> last_not_more b = true.
Proof. unfold whole, last_not_more. destruct (rev b); [discriminate|]. intros H. apply andb_prop in H. tauto. Qed.

(* with whole-message batches and an empty accumulator, regrouping is the identity *)
Lemma regroup_whole : forall bs out, forallb whole bs = true -> regroup [] out bs = ([], out ++ bs).
Proof.
  induction bs as [|b bs IH]; intros out H; cbn [regroup].
  - now rewrite app_nil_r.
  - cbn in H. apply andb_prop in H. destruct H as [Hb Hbs]. cbn [app]. rewrite (whole_last _ Hb).
    rewrite IH by exact Hbs. rewrite <- app_assoc. reflexivity.
Qed.

Lemma bulk_split cap : forall out q q' out', bulk cap q out = (q', out') -> q' ++ out' = q ++ out.
Proof.
  induction out as [|x r IH]; intros q q' out' H; cbn [bulk] in H.
  - inversion H; subst. reflexivity.
  - destruct (length q <? cap).
    + apply IH in H. rewrite H, <- app_assoc. reflexivity.
    + inversion H; subst. reflexivity.
Qed.

Section Run.
Variables chan_cap cap rcvbatch : nat.
Notation nstep := (n_step chan_cap cap rcvbatch).

(* frame-level conservation, for arbitrary batches (also frame-by-frame senders) *)
Definition NInvF (s : nstate) : Prop :=
  concat (n_delivered s) ++ concat (n_q s) ++ concat (fly_list s) ++ concat (n_out s) ++ n_acc s ++ concat (n_rx s)
  = concat (n_sent s).

Lemma n_step_frames s e : NInvF s -> NInvF (nstep s e).
Proof.
  unfold NInvF. destruct s as [rx acc out fly q del sent].
  intros H. destruct e as [b|extra| |]; cbn [n_step n_delivered n_q n_out n_acc n_rx n_sent n_fly].
  - destruct (length rx <? chan_cap); [|exact H]. unfold fly_list in *.
    cbn [n_delivered n_q n_out n_acc n_rx n_sent n_fly] in *.
    rewrite !concat_app, <- H. cbn [concat]. rewrite !app_nil_r, <- !app_assoc. reflexivity.
  - destruct out as [|o1 out]; [|exact H]. destruct fly; [exact H|]. destruct rx as [|b rest]; [exact H|].
    destruct (regroup acc [] (b :: firstn (Nat.min extra (rcvbatch - 1)) rest)) as [acc' out'] eqn:Hr.
    destruct (bulk cap q out') as [q' out''] eqn:Hb.
    unfold fly_list in *. cbn [n_delivered n_q n_out n_acc n_rx n_sent n_fly concat app] in *.
    apply regroup_frames in Hr. apply bulk_split in Hb.
    apply (f_equal (@concat _)) in Hb. rewrite !concat_app in Hb. cbn [concat app] in Hr.
    rewrite <- H. f_equal. rewrite app_assoc, Hb, <- app_assoc. f_equal.
    rewrite app_assoc, Hr, <- !app_assoc. do 2 f_equal. rewrite <- concat_app, firstn_skipn. reflexivity.
  - destruct fly as [x|].
    + destruct (length q <? cap); [|exact H].
      destruct (bulk cap (q ++ [x]) out) as [q' out'] eqn:Hb.
      unfold fly_list in *. cbn [n_delivered n_q n_out n_acc n_rx n_sent n_fly concat app] in *.
      apply bulk_split in Hb. apply (f_equal (@concat _)) in Hb. rewrite !concat_app in Hb.
      cbn [concat] in Hb. rewrite app_nil_r in Hb. rewrite app_nil_r in H.
      rewrite <- H. f_equal. rewrite app_assoc, Hb, <- !app_assoc. reflexivity.
    + destruct out as [|x r]; [exact H|].
      unfold fly_list in *. cbn [n_delivered n_q n_out n_acc n_rx n_sent n_fly concat app] in *.
      rewrite <- H, app_nil_r, <- !app_assoc. reflexivity.
  - destruct q as [|x r]; [exact H|].
    unfold fly_list in *. cbn [n_delivered n_q n_out n_acc n_rx n_sent n_fly concat app] in *.
    rewrite <- H, concat_app. cbn [concat]. rewrite app_nil_r, <- !app_assoc. reflexivity.
Qed.

(* message-level conservation when every accepted batch is one whole message *)
Definition NInvM (s : nstate) : Prop :=
  n_acc s = [] /\ forallb whole (n_rx s) = true /\
  n_delivered s ++ n_q s ++ fly_list s ++ n_out s ++ n_rx s = n_sent s.

Lemma forallb_firstn {A} (f : A -> bool) n l : forallb f l = true -> forallb f (firstn n l) = true.
Proof. revert n; induction l as [|x l IH]; intros [|n] H; cbn in *; auto. apply andb_prop in H. destruct H as [-> H]. cbn. auto. Qed.
Lemma forallb_skipn {A} (f : A -> bool) n l : forallb f l = true -> forallb f (skipn n l) = true.
Proof. revert n; induction l as [|x l IH]; intros [|n] H; cbn in *; auto. apply andb_prop in H. destruct H as [_ H]. auto. Qed.

Lemma n_step_msgs s e :
  (match e with NSend b => whole b = true | _ => True end) -> NInvM s -> NInvM (nstep s e).
Proof.
  unfold NInvM. destruct s as [rx acc out fly q del sent].
  intros Hw (Ha & Hrx & H). cbn [n_acc] in Ha. subst acc.
  destruct e as [b|extra| |]; cbn [n_step n_delivered n_q n_out n_acc n_rx n_sent n_fly].
  - destruct (length rx <? chan_cap); [|auto]. unfold fly_list in *.
    cbn [n_delivered n_q n_out n_acc n_rx n_sent n_fly] in *.
    split; [reflexivity|]. split; [rewrite forallb_app, Hrx; cbn; now rewrite Hw|].
    rewrite <- H, <- !app_assoc. reflexivity.
  - destruct out as [|o1 out]; [|auto]. destruct fly; [auto|]. destruct rx as [|b rest]; [auto|].
    cbn [n_rx forallb] in Hrx. apply andb_prop in Hrx. destruct Hrx as [Hb Hrest].
    rewrite regroup_whole by (cbn; rewrite Hb; apply forallb_firstn; exact Hrest). cbn [app].
    destruct (bulk cap q (b :: firstn (Nat.min extra (rcvbatch - 1)) rest)) as [q' out''] eqn:Hbk.
    unfold fly_list in *. cbn [n_delivered n_q n_out n_acc n_rx n_sent n_fly app] in *. apply bulk_split in Hbk.
    split; [reflexivity|]. split; [apply forallb_skipn; exact Hrest|].
    rewrite <- H. f_equal. rewrite app_assoc, Hbk, <- app_assoc. f_equal. cbn [app]. f_equal.
    apply firstn_skipn.
  - destruct fly as [x|].
    + destruct (length q <? cap); [|auto].
      destruct (bulk cap (q ++ [x]) out) as [q' out'] eqn:Hbk.
      unfold fly_list in *. cbn [n_delivered n_q n_out n_acc n_rx n_sent n_fly app] in *. apply bulk_split in Hbk.
      split; [reflexivity|]. split; [exact Hrx|]. rewrite <- H. f_equal.
      rewrite app_assoc, Hbk, <- !app_assoc. reflexivity.
    + destruct out as [|x r]; [auto|].
      unfold fly_list in *. cbn [n_delivered n_q n_out n_acc n_rx n_sent n_fly app] in *.
      split; [reflexivity|]. split; [exact Hrx|]. exact H.
  - destruct q as [|x r]; [auto|].
    unfold fly_list in *. cbn [n_delivered n_q n_out n_acc n_rx n_sent n_fly app] in *.
    split; [reflexivity|]. split; [exact Hrx|]. rewrite <- H, <- !app_assoc. reflexivity.
Qed.

Fixpoint sends_whole (evs : list nev) : bool :=
  match evs with
  | [] => true
  | NSend b :: r => whole b && sends_whole r
  | _ :: r => sends_whole r
  end.

(* INPROC: for every interleaving of sender, reader task and consumer, and every batching of the
   reader (rcvbatch_count, what try_recv_batch found): delivered ++ queue ++ in-flight ++ out ++
   channel = accepted, in order; at quiescence delivered = accepted. *)
Theorem inproc_exactly_once evs :
  sends_whole evs = true ->
  let s := n_run chan_cap cap rcvbatch evs in
  n_delivered s ++ n_q s ++ fly_list s ++ n_out s ++ n_rx s = n_sent s.
Proof.
  unfold n_run. intros Hw.
  assert (G : forall evs s0, sends_whole evs = true -> NInvM s0 -> NInvM (fold_left nstep evs s0)).
  { clear. induction evs as [|e evs IH]; intros s0 Hw H; cbn [fold_left]; [exact H|].
    apply IH.
    - destruct e; cbn in Hw; try exact Hw. apply andb_prop in Hw. tauto.
    - apply n_step_msgs; [|exact H]. destruct e; auto. cbn in Hw. apply andb_prop in Hw. tauto. }
  apply (G evs n_new Hw). repeat split; reflexivity.
Qed.

Corollary inproc_quiescent evs :
  sends_whole evs = true ->
  let s := n_run chan_cap cap rcvbatch evs in
  prefix (n_delivered s) (n_sent s) /\
  (n_q s = [] -> n_fly s = None -> n_out s = [] -> n_rx s = [] -> n_delivered s = n_sent s).
Proof.
  intros Hw s. pose proof (inproc_exactly_once evs Hw) as H. fold s in H. split.
  - eexists. symmetry. exact H.
  - intros Hq Hf Ho Hr. unfold fly_list in H. rewrite Hq, Hf, Ho, Hr, !app_nil_r in H. exact H.
Qed.

Theorem inproc_frames_conserved evs : NInvF (n_run chan_cap cap rcvbatch evs).
Proof.
  unfold n_run. generalize n_new, (eq_refl : NInvF n_new).
  induction evs as [|e evs IH]; intros s0 H; cbn [fold_left]; [exact H|]. apply IH. apply n_step_frames. exact H.
Qed.

End Run.
