(* Waker layer: the ready channel wakes ONE waiting consumer per push.  A pop() future dropped
   after it was woken (and before it was polled) swallows that wake-up: refuted witness; outside
   that class (or with a single consumer) a non-empty ready list always has a woken consumer. *)
From RZ Require Import Base.Prelude Model.Rpq Model.RpqWake Proofs.RpqProofs.

Fixpoint wsum (f : nat -> bool) (n : nat) : nat :=
  match n with O => 0 | S k => wsum f k + (if f k then 1 else 0) end.

Lemma wsum_upd_ge f i v n : n <= i -> wsum (upd f i v) n = wsum f n.
Proof. induction n as [|n IH]; intros H; [reflexivity|]. cbn [wsum]. rewrite IH, upd_neq by lia. reflexivity. Qed.
Lemma wsum_upd f i v n : i < n ->
  wsum (upd f i v) n + (if f i then 1 else 0) = wsum f n + (if v then 1 else 0).
Proof.
  induction n as [|n IH]; intros H; [lia|]. cbn [wsum]. destruct (Nat.eq_dec i n) as [->|Hne].
  - rewrite wsum_upd_ge, upd_eq by lia. lia.
  - specialize (IH ltac:(lia)). rewrite upd_neq by lia. lia.
Qed.
Lemma wsum_pos_exists f n : 0 < wsum f n -> exists j, j < n /\ f j = true.
Proof.
  induction n as [|n IH]; cbn [wsum]; intros H; [lia|]. destruct (f n) eqn:E; [exists n; split; [lia|exact E]|].
  destruct IH as (j & Hj & Hf); [lia|]. exists j. split; [lia|exact Hf].
Qed.

Lemma in_remove_nat i j l : In j (remove_nat i l) <-> In j l /\ j <> i.
Proof.
  unfold remove_nat. rewrite filter_In. split; intros [H1 H2]; split; try exact H1.
  - destruct (Nat.eqb_spec j i); [discriminate|assumption].
  - destruct (Nat.eqb_spec j i); [contradiction|reflexivity].
Qed.
Lemma nodup_remove_nat i l : NoDup l -> NoDup (remove_nat i l).
Proof.
  induction l as [|x l IH]; intros H; [constructor|]. inversion H as [|? ? Hn Hd]; subst. unfold remove_nat in *. cbn [filter].
  destruct (negb (x =? i)); [constructor; [rewrite filter_In; tauto|auto]|auto].
Qed.
Lemma remove_nat_notin i l : ~ In i l -> remove_nat i l = l.
Proof.
  induction l as [|x l IH]; intros H; [reflexivity|]. unfold remove_nat in *. cbn [filter].
  destruct (Nat.eqb_spec x i) as [->|Hne]; [exfalso; apply H; left; reflexivity|]. cbn [negb].
  rewrite IH; [reflexivity|]. intros Hi. apply H. right. exact Hi.
Qed.

Record WInv (c : cfg) (s : st) (w : wk) : Prop := mkWInv {
  (* registered waiters are parked consumers that have not been notified *)
  w_reg : forall i, In i (waiters w) -> i < nc c /\ cons s i = CWait /\ woken w i = false;
  w_nd : NoDup (waiters w);
  (* notified consumers are parked *)
  w_wok : forall i, woken w i = true -> i < nc c /\ cons s i = CWait;
  (* a parked consumer is registered or notified *)
  w_cov : forall i, i < nc c -> cons s i = CWait -> In i (waiters w) \/ woken w i = true;
  (* while somebody is still waiting un-notified, every ready entry has a notified consumer *)
  w_cnt : waiters w <> [] -> length (ready s) <= wsum (woken w) (nc c)
}.

Lemma winv_init c pp cp : WInv c (init pp cp) wk0.
Proof. constructor; cbn [wk0 waiters woken init cons]; intros; try contradiction; try discriminate; try constructor. Qed.

(* ---- how the steps of Rpq.v touch the ready list and the consumers' program counters ---- *)
Lemma pstep_frame c s p s' : pstep c s p = Some s' ->
  (forall j, cons s' j = cons s j) /\ (ready s' = ready s \/ exists q, ready s' = ready s ++ [q]).
Proof.
  unfold pstep, pstart. intros H.
  destruct (prod s p); try destruct (pprog s p) as [|o r]; try discriminate;
    try destruct o; try destruct (alive c s p); try destruct xs; try destruct (room c s p); try destruct parked;
    try destruct (rroom c s); try destruct ((queued s p =? 0)%Z); try destruct hz; try destruct r; try discriminate;
    injection H as <-; simp_st; split; eauto.
Qed.

Lemma pcancel_frame s p s' : pcancel s p = Some s' -> (forall j, cons s' j = cons s j) /\ ready s' = ready s.
Proof.
  unfold pcancel. intros H. destruct (prod s p); try discriminate; destruct parked; try discriminate;
    injection H as <-; simp_st; split; reflexivity.
Qed.

Inductive ckind (s : st) (i : nat) (s' : st) : Prop :=
| KInternal : ready s' = ready s -> is_cwait (cons s' i) = false -> is_cwait (cons s i) = false -> ckind s i s'
| KPark : ready s = [] -> ready s' = [] -> cons s' i = CWait -> is_cwait (cons s i) = false -> ckind s i s'
| KTake q : ready s = q :: ready s' -> is_cwait (cons s' i) = false -> ckind s i s'
| KPush q : ready s' = ready s ++ [q] -> is_cwait (cons s' i) = false -> is_cwait (cons s i) = false -> ckind s i s'.

Lemma cstep_frame c s i s' : cstep c s i = Some s' ->
  (forall j, j <> i -> cons s' j = cons s j) /\ ckind s i s'.
Proof.
  unfold cstep, cstart, crecv_first. intros H.
  destruct (cons s i) eqn:E; try destruct (cprog s i) as [|o r]; try discriminate;
    try destruct o; simp_st; try destruct (ready s) as [|q0 rd] eqn:Er; try discriminate;
    try destruct (chan s q) as [|x0 l]; try destruct b; try destruct ((1 <? prev)%Z);
    try destruct (rroom c s); try destruct parked; try discriminate;
    injection H as <-; simp_st; (split; [intros j Hj; rewrite ?upd_neq by exact Hj; reflexivity|]);
    rewrite ?upd_eq;
    first [ apply KInternal; simp_st; rewrite ?upd_eq, ?E, ?Er; reflexivity
          | apply KPark; simp_st; rewrite ?upd_eq, ?E, ?Er; reflexivity
          | eapply KTake; simp_st; rewrite ?upd_eq, ?E, ?Er; reflexivity
          | eapply KPush; simp_st; rewrite ?upd_eq, ?E, ?Er; reflexivity ].
Qed.

Lemma ccancel_frame s i s' : ccancel s i = Some s' ->
  (forall j, j <> i -> cons s' j = cons s j) /\ ready s' = ready s /\ cons s' i = CIdle.
Proof.
  unfold ccancel. intros H. destruct (cons s i); try discriminate; try destruct b; try destruct parked; try discriminate;
    injection H as <-; simp_st; (split; [intros j Hj; rewrite upd_neq by exact Hj; reflexivity|]); rewrite upd_eq; split; reflexivity.
Qed.

(* ---- monitor updates ---- *)
Lemma is_cwait_eq pc : is_cwait pc = true <-> pc = CWait.
Proof. destruct pc; cbn; split; intros; try discriminate; reflexivity. Qed.

(* nothing about the consumers changes, the ready list does not grow *)
Lemma winv_shrink c s s' w : WInv c s w -> (forall j, cons s' j = cons s j) ->
  length (ready s') <= length (ready s) -> WInv c s' w.
Proof.
  intros [R N W C K] Hc Hl. constructor; intros; rewrite ?Hc in *; auto. specialize (K H). lia.
Qed.

(* a push: the first registered waiter (if any) is notified *)
Lemma winv_push c s s' w q : WInv c s w -> (forall j, cons s' j = cons s j) ->
  ready s' = ready s ++ [q] -> WInv c s' (wk_push w).
Proof.
  intros [R N W C K] Hc Hr. unfold wk_push. destruct (waiters w) as [|i r] eqn:Ew.
  - constructor;
      [ intros i Hi; rewrite Ew in Hi; destruct Hi | rewrite Ew; constructor
      | intros i Hi; rewrite Hc; apply W; exact Hi
      | intros i Hi Hw; rewrite Hc in Hw; right; destruct (C i Hi Hw) as [[]|Hk]; exact Hk | intros Hne; congruence ].
  - destruct (R i (or_introl eq_refl)) as (Hi & Hci & Hwi). inversion N as [|? ? Hni Hnd]; subst.
    constructor; cbn [waiters woken].
    + intros j Hj. destruct (R j (or_intror Hj)) as (A & B & D). rewrite Hc. repeat split; auto.
      rewrite upd_neq; [exact D|]. intros ->. contradiction.
    + exact Hnd.
    + intros j Hj. rewrite Hc. unfold upd in Hj. destruct (Nat.eqb_spec j i) as [E|E]; [subst j; split; assumption|apply W; exact Hj].
    + intros j Hj Hw. rewrite Hc in Hw. unfold upd. destruct (Nat.eqb_spec j i) as [E|Hne]; [right; reflexivity|].
      destruct (C j Hj Hw) as [[E|Hin]|Hk]; [congruence|left; exact Hin|right; exact Hk].
    + intros _. rewrite Hr, app_length. cbn [length].
      pose proof (wsum_upd (woken w) i true (nc c) Hi) as Hs. rewrite Hwi in Hs.
      assert (length (ready s) <= wsum (woken w) (nc c)) by (apply K; discriminate). lia.
Qed.

(* consumer i moves; the monitor forgets it (it is no longer parked) *)
Lemma winv_leave c s s' w i : WInv c s w -> i < nc c -> (forall j, j <> i -> cons s' j = cons s j) ->
  is_cwait (cons s' i) = false ->
  length (ready s') + (if woken w i then 1 else 0) <= length (ready s) \/
  (woken w i = false /\ length (ready s') <= length (ready s)) \/ nc c <= 1 ->
  WInv c s' (mkWk (remove_nat i (waiters w)) (upd (woken w) i false)).
Proof.
  intros [R N W C K] Hi Hc Hnw Hl.
  assert (Hnw' : cons s' i <> CWait) by (intros E; rewrite E in Hnw; discriminate).
  constructor; cbn [waiters woken].
  - intros j Hj. apply in_remove_nat in Hj as [Hj Hne]. destruct (R j Hj) as (A & B & D).
    rewrite Hc by exact Hne. rewrite upd_neq by exact Hne. auto.
  - apply nodup_remove_nat. exact N.
  - intros j Hj. unfold upd in Hj. destruct (Nat.eqb_spec j i); [discriminate|]. rewrite Hc by assumption. apply W. exact Hj.
  - intros j Hj Hw. destruct (Nat.eq_dec j i) as [->|Hne]; [contradiction|]. rewrite Hc in Hw by exact Hne.
    rewrite upd_neq by exact Hne. destruct (C j Hj Hw) as [Hin|Hk]; [left; apply in_remove_nat; auto|right; exact Hk].
  - intros Hne. assert (Hw : waiters w <> []).
    { intros E. rewrite E in Hne. apply Hne. reflexivity. }
    destruct Hl as [Hl|[(Hf & Hl)|H1]].
    + specialize (K Hw). pose proof (wsum_upd (woken w) i false (nc c) Hi) as Hs. destruct (woken w i); lia.
    + specialize (K Hw). pose proof (wsum_upd (woken w) i false (nc c) Hi) as Hs. rewrite Hf in Hs. lia.
    + exfalso. destruct (remove_nat i (waiters w)) as [|j l] eqn:El; [apply Hne; reflexivity|].
      assert (Hj : In j (remove_nat i (waiters w))) by (rewrite El; left; reflexivity).
      apply in_remove_nat in Hj as [Hj Hji]. destruct (R j Hj) as (A & _). lia.
Qed.

Lemma nodup_snoc (l : list nat) i : NoDup l -> ~ In i l -> NoDup (l ++ [i]).
Proof.
  induction l as [|x l IH]; intros Hn Hi; cbn [app]; [constructor; [intros []|constructor]|].
  inversion Hn as [|? ? Hx Hd]; subst. constructor.
  - intros Hin. apply in_app_or in Hin as [Hin|[E|[]]]; [contradiction|]. apply Hi. left. symmetry. exact E.
  - apply IH; [exact Hd|]. intros H. apply Hi. right. exact H.
Qed.

(* consumer i parks on the empty ready list: it registers at the back *)
Lemma winv_park c s s' w i : WInv c s w -> i < nc c -> (forall j, j <> i -> cons s' j = cons s j) ->
  cons s' i = CWait -> ready s' = [] ->
  WInv c s' (mkWk (remove_nat i (waiters w) ++ [i]) (upd (woken w) i false)).
Proof.
  intros [R N W C K] Hi Hc Hw Hr. constructor; cbn [waiters woken].
  - intros j Hj. apply in_app_or in Hj as [Hj|[<-|[]]].
    + apply in_remove_nat in Hj as [Hj Hne]. destruct (R j Hj) as (A & B & D). rewrite Hc, upd_neq by exact Hne. auto.
    + rewrite upd_eq. auto.
  - apply nodup_snoc; [apply nodup_remove_nat; exact N|rewrite in_remove_nat; tauto].
  - intros j Hj. unfold upd in Hj. destruct (Nat.eqb_spec j i); [discriminate|]. rewrite Hc by assumption. apply W. exact Hj.
  - intros j Hj Hk. destruct (Nat.eq_dec j i) as [->|Hne]; [left; apply in_or_app; right; left; reflexivity|].
    rewrite Hc in Hk by exact Hne. rewrite upd_neq by exact Hne.
    destruct (C j Hj Hk) as [Hin|Hw']; [left; apply in_or_app; left; apply in_remove_nat; auto|right; exact Hw'].
  - intros _. rewrite Hr. cbn [length]. lia.
Qed.

(* consumer i moves between two non-parked program counters *)
Lemma winv_move c s s' w i : WInv c s w -> (forall j, j <> i -> cons s' j = cons s j) ->
  is_cwait (cons s i) = false -> is_cwait (cons s' i) = false ->
  length (ready s') <= length (ready s) -> WInv c s' w.
Proof.
  intros [R N W C K] Hc H1 H2 Hl.
  assert (Hn1 : cons s i <> CWait) by (intros E; rewrite E in H1; discriminate).
  assert (Hn2 : cons s' i <> CWait) by (intros E; rewrite E in H2; discriminate).
  constructor.
  - intros j Hj. destruct (R j Hj) as (A & B & D). destruct (Nat.eq_dec j i) as [->|Hne]; [contradiction|].
    rewrite Hc by exact Hne. auto.
  - exact N.
  - intros j Hj. destruct (W j Hj) as (A & B). destruct (Nat.eq_dec j i) as [->|Hne]; [contradiction|].
    rewrite Hc by exact Hne. auto.
  - intros j Hj Hw. destruct (Nat.eq_dec j i) as [->|Hne]; [contradiction|]. rewrite Hc in Hw by exact Hne. auto.
  - intros Hne. specialize (K Hne). lia.
Qed.

Definition bad_cancel (w : wk) (e : ev) : bool := match e with CancelC i => woken w i | _ => false end.

Lemma ltb_len_same {A} (l : list A) : (length l <? length l) = false.
Proof. apply Nat.ltb_irrefl. Qed.
Lemma ltb_len_push {A} (l : list A) q : (length l <? length (l ++ [q])) = true.
Proof. rewrite app_length. cbn [length]. apply Nat.ltb_lt. lia. Qed.
Lemma ltb_len_tail {A} (l : list A) q : (length (q :: l) <? length l) = false.
Proof. cbn [length]. apply Nat.ltb_ge. lia. Qed.

Lemma winv_wstep c s w e : WInv c s w -> bad_cancel w e = false \/ nc c <= 1 ->
  WInv c (fst (wstep c (s, w) e)) (snd (wstep c (s, w) e)).
Proof.
  intros HW Hb. destruct e as [p|i|p|i|p]; cbn [wstep].
  - (* RunP *)
    cbn [step]. destruct (p <? np c); [|exact HW]. destruct (pstep c s p) as [s'|] eqn:Es; [|exact HW].
    cbn [fst snd]. destruct (pstep_frame c s p s' Es) as (Hc & [Hr|(q & Hr)]); unfold wk_step; rewrite Hr.
    + rewrite ltb_len_same. apply (winv_shrink c s s' w HW Hc). rewrite Hr. lia.
    + rewrite ltb_len_push. exact (winv_push c s s' w q HW Hc Hr).
  - (* RunC *)
    destruct (c_asleep s w i) eqn:Ea; [exact HW|]. cbn [step].
    destruct (Nat.ltb_spec i (nc c)) as [Hi|Hi].
    + destruct (cstep c s i) as [s'|] eqn:Es.
      * cbn [fst snd]. destruct (cstep_frame c s i s' Es) as (Hc & Hk). unfold wk_step.
        assert (Hnw : is_cwait (cons s i) = false -> woken w i = false).
        { intros H. destruct (woken w i) eqn:E; [|reflexivity]. destruct (w_wok _ _ _ HW i E) as (_ & B).
          rewrite B in H. discriminate. }
        destruct Hk as [Hr H1 H2|H0 Hr H1 H2|q Hr H1|q Hr H1 H2].
        -- rewrite H1, H2, Hr, ltb_len_same. apply (winv_move c s s' w i HW Hc H2 H1). rewrite Hr. lia.
        -- rewrite H1. cbn [is_cwait]. rewrite H0, Hr. cbn [length Nat.ltb Nat.leb].
           exact (winv_park c s s' w i HW Hi Hc H1 Hr).
        -- rewrite H1, Hr, ltb_len_tail. destruct (is_cwait (cons s i)) eqn:E2.
           ++ apply (winv_leave c s s' w i HW Hi Hc H1). left. rewrite Hr. cbn [length].
              unfold c_asleep in Ea. rewrite E2 in Ea. cbn [andb] in Ea. destruct (woken w i); [lia|discriminate].
           ++ apply (winv_move c s s' w i HW Hc E2 H1). rewrite Hr. cbn [length]. lia.
        -- rewrite H1, H2, Hr, ltb_len_push.
           apply (winv_push c (set_ready s' (ready s)) s' w q).
           ++ apply (winv_move c s (set_ready s' (ready s)) w i HW); simp_st; auto.
           ++ intros j. reflexivity.
           ++ simp_st. exact Hr.
      * destruct (is_cwait (cons s i)) eqn:E2; cbn [andb fst snd]; [|exact HW].
        apply is_cwait_eq in E2. unfold cstep in Es. rewrite E2 in Es.
        destruct (ready s) eqn:Er; [|discriminate].
        apply (winv_park c s s w i HW Hi); auto.
    + destruct (is_cwait (cons s i)); cbn [andb]; exact HW.
  - (* CancelP *)
    cbn [step]. destruct (p <? np c); [|exact HW]. destruct (pcancel s p) as [s'|] eqn:Es; [|exact HW].
    cbn [fst snd]. destruct (pcancel_frame s p s' Es) as (Hc & Hr). unfold wk_step. rewrite Hr, ltb_len_same.
    apply (winv_shrink c s s' w HW Hc). rewrite Hr. lia.
  - (* CancelC *)
    cbn [step]. destruct (Nat.ltb_spec i (nc c)) as [Hi|Hi]; [|exact HW].
    destruct (ccancel s i) as [s'|] eqn:Es; [|exact HW].
    cbn [fst snd]. destruct (ccancel_frame s i s' Es) as (Hc & Hr & Hn). unfold wk_step. rewrite Hr, ltb_len_same.
    assert (H1 : is_cwait (cons s' i) = false) by (rewrite Hn; reflexivity).
    destruct (is_cwait (cons s i)) eqn:E2.
    + apply (winv_leave c s s' w i HW Hi Hc H1). destruct Hb as [Hb|Hb]; [|right; right; exact Hb].
      cbn [bad_cancel] in Hb. right. left. split; [exact Hb|rewrite Hr; lia].
    + apply (winv_move c s s' w i HW Hc E2 H1). rewrite Hr. lia.
  - (* Dereg *)
    cbn [step fst snd]. unfold wk_step. simp_st. rewrite ltb_len_same.
    apply (winv_shrink c s _ w HW); simp_st; auto.
Qed.

(* no pop() future is dropped between its wake-up and its next poll *)
Fixpoint no_woken_cancel (c : cfg) (sw : st * wk) (es : list ev) : Prop :=
  match es with
  | [] => True
  | e :: r => bad_cancel (snd sw) e = false /\ no_woken_cancel c (wstep c sw e) r
  end.

Lemma winv_wrun c es : forall sw, WInv c (fst sw) (snd sw) -> no_woken_cancel c sw es \/ nc c <= 1 ->
  WInv c (fst (wrun c es sw)) (snd (wrun c es sw)).
Proof.
  induction es as [|e es IH]; intros [s w] HW Hb; [exact HW|]. cbn [wrun fold_left]. apply IH.
  - apply winv_wstep; [exact HW|]. destruct Hb as [[Hb _]|Hb]; [left; exact Hb|right; exact Hb].
  - destruct Hb as [[_ Hb]|Hb]; [left; exact Hb|right; exact Hb].
Qed.

(* under the invariant, a non-empty ready list and a sleeping consumer imply a woken one *)
Lemma winv_not_lost c s w : WInv c s w -> wake_lost c (s, w) = false.
Proof.
  intros HW. unfold wake_lost. destruct (ready s) as [|q rd] eqn:Er; [reflexivity|]. cbn [negb andb].
  destruct (existsb (fun i => c_asleep s w i) (seq 0 (nc c))) eqn:Ex; [|reflexivity]. cbn [andb].
  apply existsb_exists in Ex as (i & Hin & Ha). apply in_seq in Hin. unfold c_asleep in Ha.
  apply andb_true_iff in Ha as [Ha Hnw]. apply is_cwait_eq in Ha. apply negb_true_iff in Hnw.
  destruct (w_cov _ _ _ HW i ltac:(lia) Ha) as [Hw|Hw]; [|congruence].
  assert (Hne : waiters w <> []) by (intros E; rewrite E in Hw; destruct Hw).
  pose proof (w_cnt _ _ _ HW Hne) as Hk. rewrite Er in Hk. cbn [length] in Hk.
  destruct (wsum_pos_exists (woken w) (nc c)) as (j & Hj & Hwj); [lia|].
  destruct (w_wok _ _ _ HW j Hwj) as (_ & Hcj).
  apply andb_false_iff. right. apply not_true_iff_false. intros Hall.
  rewrite forallb_forall in Hall. specialize (Hall j ltac:(apply in_seq; lia)).
  apply negb_true_iff in Hall. unfold w_runnable in Hall. rewrite Hcj in Hall. cbn [is_cwait] in Hall.
  apply Nat.ltb_lt in Hj. rewrite Hj, Hwj in Hall. discriminate.
Qed.

(* the ready channel's wake-ups suffice - for every program set and every schedule in which no
   woken pop() is dropped before its poll, and for every schedule at all with a single consumer *)
Theorem wake_no_lost_wakeup c pp cp es :
  no_woken_cancel c (init pp cp, wk0) es \/ nc c <= 1 ->
  wake_lost c (wrun c es (init pp cp, wk0)) = false.
Proof.
  intros Hb. pose proof (winv_wrun c es (init pp cp, wk0) (winv_init c pp cp) Hb) as HW.
  destruct (wrun c es (init pp cp, wk0)) as [s w]. apply winv_not_lost. exact HW.
Qed.

(* the defect: consumers 0 and 1 park in pop(); the producer's arming send wakes consumer 0 only;
   consumer 0's pop() is dropped before it is polled; consumer 1 sleeps with a ready entry and an
   item queued, and nobody is runnable *)
Theorem wake_cancel_refuted :
  exists c pp cp es, np c <= rcap c /\ wake_lost c (wrun c es (init pp cp, wk0)) = true /\
    chan (fst (wrun c es (init pp cp, wk0))) 0 <> [].
Proof.
  exists (mkCfg 1 2 (fun _ => 1) 1), (fun _ => [Send 100%N]), (fun _ => [Pop]),
         [RunC 0; RunC 1; RunP 0; RunP 0; RunP 0; RunP 0; RunP 0; CancelC 0].
  split; [cbn; lia|]. split; [vm_compute; reflexivity|vm_compute; discriminate].
Qed.

(* the waker-aware run only visits states of the abstract model (some events are no-ops) *)
Lemma wstep_fst c s w e : fst (wstep c (s, w) e) = s \/ fst (wstep c (s, w) e) = step' c s e.
Proof.
  unfold step'. destruct e; cbn [wstep];
    try (destruct (c_asleep s w i); [left; reflexivity|]);
    destruct (step c s _); cbn [fst]; auto;
    destruct (is_cwait (cons s i) && (i <? nc c)); cbn [fst]; auto.
Qed.

Lemma wrun_reach c es : forall s w, reach c s -> reach c (fst (wrun c es (s, w))).
Proof.
  induction es as [|e es IH]; intros s w Hr; [exact Hr|]. cbn [wrun fold_left].
  destruct (wstep c (s, w) e) as [s1 w1] eqn:E. apply IH.
  destruct (wstep_fst c s w e) as [H|H]; rewrite E in H; cbn [fst] in H; rewrite H; [exact Hr|apply reach_step; exact Hr].
Qed.
