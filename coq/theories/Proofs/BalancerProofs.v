(* Proofs about the LoadBalancer cursor arithmetic (Model/Balancer.v). *)
From RZ Require Import Base.Prelude Model.Balancer.

(* the invariant of every reachable state: the cursor points at a peer, or the list is empty and
   the cursor is 0.  (The `next_idx >= len` reset in get_next_connection is therefore dead code.) *)
Definition inv (b : bal) : Prop :=
  next_idx b < length (peers b) \/ (peers b = [] /\ next_idx b = 0).

(* ---------- has / position / remove_at ---------- *)
Lemma has_true u l : has u l = true <-> In u l.
Proof.
  unfold has. rewrite existsb_exists. split.
  - intros (x & Hx & He). apply N.eqb_eq in He. subst. exact Hx.
  - intros H. exists u. split; [exact H|apply N.eqb_refl].
Qed.

Lemma has_false u l : has u l = false <-> ~ In u l.
Proof.
  rewrite <- has_true. destruct (has u l); split; intros H; try congruence.
Qed.

Lemma position_none u l : position u l = None <-> ~ In u l.
Proof.
  induction l as [|x t IH]; simpl; [tauto|].
  destruct (N.eqb_spec x u) as [->|Hne].
  - split; [discriminate|]. intros H. exfalso. apply H. now left.
  - destruct (position u t) as [n|]; simpl.
    + split; [discriminate|]. intros H. exfalso. destruct IH as [_ IH].
      assert (Some n = None) by (apply IH; tauto). discriminate.
    + split; [|reflexivity]. intros _ [H|H]; [congruence|]. destruct IH as [IH _]. now apply IH.
Qed.

Lemma position_some u l pos :
  position u l = Some pos ->
  exists l1 l2, l = l1 ++ u :: l2 /\ length l1 = pos /\ ~ In u l1 /\ remove_at pos l = l1 ++ l2.
Proof.
  revert pos. induction l as [|x t IH]; simpl; intros pos H; [discriminate|].
  destruct (N.eqb_spec x u) as [->|Hne].
  - inversion H. subst. exists [], t. simpl. tauto.
  - destruct (position u t) as [p|] eqn:E; simpl in H; [|discriminate].
    inversion H. subst. destruct (IH p eq_refl) as (l1 & l2 & -> & Hl & Hn & Hr).
    exists (x :: l1), l2. simpl. repeat split; try congruence.
    intros [Hx|Hx]; [congruence|tauto].
Qed.

Lemma filter_neq_id u l : ~ In u l -> filter (fun x => negb (N.eqb x u)) l = l.
Proof.
  induction l as [|x t IH]; simpl; intros H; [reflexivity|].
  destruct (N.eqb_spec x u) as [->|Hne]; simpl.
  - exfalso. apply H. now left.
  - f_equal. apply IH. tauto.
Qed.

(* ---------- rot ---------- *)
Lemma rot_length i l : length (rot i l) = length l.
Proof.
  unfold rot. rewrite app_length, skipn_length, firstn_length. lia.
Qed.

Lemma rot_0 l : rot 0 l = l.
Proof. unfold rot. simpl. apply app_nil_r. Qed.

Lemma rot_app l1 l2 : rot (length l1) (l1 ++ l2) = l2 ++ l1.
Proof.
  unfold rot. destruct (firstn_skipn_app (length l1) l1 l2 eq_refl) as [-> ->]. reflexivity.
Qed.

Lemma rot_count i l p : count_occ N.eq_dec (rot i l) p = count_occ N.eq_dec l p.
Proof.
  unfold rot. rewrite count_occ_app, Nat.add_comm, <- count_occ_app, firstn_skipn. reflexivity.
Qed.

Lemma rot_in i l p : In p (rot i l) <-> In p l.
Proof.
  rewrite !(count_occ_In N.eq_dec), rot_count. tauto.
Qed.

Lemma rot_nodup i l : NoDup l -> NoDup (rot i l).
Proof.
  rewrite !(NoDup_count_occ N.eq_dec). intros H x. rewrite rot_count. apply H.
Qed.

Lemma split_at (l : list N) i : i <= length l ->
  exists l1 l2, l = l1 ++ l2 /\ length l1 = i.
Proof.
  intros H. exists (firstn i l), (skipn i l). split.
  - symmetry. apply firstn_skipn.
  - apply firstn_length_le. exact H.
Qed.

(* canonical form of a state with at least one peer *)
Lemma inv_split b : inv b -> peers b <> [] ->
  exists l1 x l2, b = mkBal (l1 ++ x :: l2) (length l1).
Proof.
  destruct b as [l i]. unfold inv. simpl. intros [Hi|[-> _]] Hne; [|congruence].
  destruct (split_at l i) as (l1 & l2 & -> & Hl); [lia|].
  destruct l2 as [|x l2].
  - rewrite app_nil_r in Hi. lia.
  - exists l1, x, l2. subst. reflexivity.
Qed.

Lemma view_split l1 l2 : view (mkBal (l1 ++ l2) (length l1)) = l2 ++ l1.
Proof. unfold view. simpl. apply rot_app. Qed.

Lemma inv_canon l1 x l2 : inv (mkBal (l1 ++ x :: l2) (length l1)).
Proof. left. simpl. rewrite app_length. simpl. lia. Qed.

Lemma nth_mid (l1 : list N) x l2 : nth (length l1) (l1 ++ x :: l2) 0%N = x.
Proof. rewrite app_nth2, Nat.sub_diag; [reflexivity|lia]. Qed.

(* ---------- get_next ---------- *)
Lemma get_next_canon l1 x l2 :
  get_next (mkBal (l1 ++ x :: l2) (length l1)) =
  (Some x, match l2 with
           | [] => mkBal (l1 ++ [x]) 0
           | _ :: _ => mkBal ((l1 ++ [x]) ++ l2) (length (l1 ++ [x]))
           end).
Proof.
  unfold get_next. cbn [peers next_idx].
  assert (Hn : length (l1 ++ x :: l2) = length l1 + S (length l2)) by (rewrite app_length; reflexivity).
  destruct (Nat.eqb_spec (length (l1 ++ x :: l2)) 0) as [E|_]; [lia|].
  destruct (Nat.leb_spec (length (l1 ++ x :: l2)) (length l1)) as [E|_]; [lia|].
  rewrite nth_mid. f_equal.
  destruct l2 as [|y l2].
  - f_equal. rewrite Hn. simpl. replace (length l1 + 1) with (S (length l1)) by lia.
    apply Nat.mod_same. lia.
  - rewrite <- app_assoc. simpl. f_equal. rewrite (app_length l1 [x]). simpl.
    apply Nat.mod_small. rewrite Hn. simpl. lia.
Qed.

Lemma get_next_empty i : get_next (mkBal [] i) = (None, mkBal [] i).
Proof. reflexivity. Qed.

(* one pick: the head of the view is handed out and moves to the back; nothing else changes *)
Lemma get_next_view b q rest : inv b -> view b = q :: rest ->
  exists b', get_next b = (Some q, b') /\ peers b' = peers b /\ inv b' /\ view b' = rest ++ [q].
Proof.
  intros Hi Hv.
  assert (Hne : peers b <> []).
  { intros E. unfold view in Hv. rewrite E in Hv. unfold rot in Hv.
    rewrite skipn_nil, firstn_nil in Hv. discriminate. }
  destruct (inv_split b Hi Hne) as (l1 & x & l2 & ->).
  rewrite view_split in Hv. simpl in Hv. inversion Hv. subst q rest.
  rewrite get_next_canon. destruct l2 as [|y l2].
  - eexists. split; [reflexivity|]. cbn [peers]. repeat split.
    + left. simpl. rewrite app_length. simpl. lia.
    + unfold view. simpl. apply rot_0.
  - eexists. split; [reflexivity|]. cbn [peers]. repeat split.
    + rewrite <- app_assoc. reflexivity.
    + left. simpl. rewrite !app_length. simpl. lia.
    + rewrite view_split. rewrite app_assoc. reflexivity.
Qed.

Lemma view_nil b : inv b -> (view b = [] <-> peers b = []).
Proof.
  intros Hi. split; intros H.
  - apply length_zero_iff_nil. unfold view in H. rewrite <- (rot_length (next_idx b)), H. reflexivity.
  - unfold view, rot. rewrite H, skipn_nil, firstn_nil. reflexivity.
Qed.

Lemma get_next_none b : peers b = [] -> get_next b = (None, b).
Proof. intros H. unfold get_next. rewrite H. reflexivity. Qed.

(* get_next returns the head of the view *)
Lemma get_next_hd b : inv b -> fst (get_next b) = hd_error (view b).
Proof.
  intros Hi. destruct (view b) as [|q rest] eqn:E.
  - apply view_nil in E; [|exact Hi]. rewrite get_next_none by exact E. reflexivity.
  - destruct (get_next_view b q rest Hi E) as (b' & -> & _). reflexivity.
Qed.

(* under the invariant the bounds-reset branch of get_next_connection is never taken *)
Lemma get_next_no_reset b : inv b -> peers b <> [] ->
  get_next b = (Some (nth (next_idx b) (peers b) 0%N),
                mkBal (peers b) ((next_idx b + 1) mod length (peers b))).
Proof.
  intros [Hi|[E _]] Hne; [|congruence]. unfold get_next.
  destruct (Nat.eqb_spec (length (peers b)) 0) as [E|_].
  - apply length_zero_iff_nil in E. congruence.
  - destruct (Nat.leb_spec (length (peers b)) (next_idx b)); [lia|reflexivity].
Qed.

(* ---------- invariants over all histories ---------- *)
Lemma inv_bal0 : inv bal0.
Proof. right. split; reflexivity. Qed.

Lemma add_inv u b : inv b -> inv (add u b).
Proof.
  unfold add. destruct (has u (peers b)); [tauto|].
  intros [H|[E1 E2]]; left; simpl; rewrite app_length; simpl; lia.
Qed.

Lemma remove_inv u b : inv b -> inv (remove u b).
Proof.
  unfold remove. intros Hi. destruct (position u (peers b)) as [pos|] eqn:E; [|exact Hi].
  destruct (position_some _ _ _ E) as (l1 & l2 & Hl & Hp & _ & Hr).
  rewrite Hr. assert (Hlen : length (peers b) = S (length (l1 ++ l2))).
  { rewrite Hl, !app_length. simpl. lia. }
  destruct Hi as [Hi|[E1 _]]; [|rewrite E1 in Hl; destruct l1; discriminate].
  destruct (Nat.ltb_spec pos (next_idx b)); simpl.
  - destruct (Nat.ltb_spec 0 (next_idx b)); simpl; [|lia].
    left. simpl. rewrite app_length in *. lia.
  - destruct (Nat.leb_spec (length (l1 ++ l2)) (next_idx b)); simpl.
    + destruct (l1 ++ l2) eqn:E2; [right; tauto|left; simpl; lia].
    + left. simpl. lia.
Qed.

Lemma get_next_inv b : inv b -> inv (snd (get_next b)).
Proof.
  intros Hi. destruct (view b) as [|q rest] eqn:E.
  - apply view_nil in E; [|exact Hi]. rewrite get_next_none by exact E. exact Hi.
  - destruct (get_next_view b q rest Hi E) as (b' & -> & _ & Hi' & _). exact Hi'.
Qed.

Lemma get_next_peers b : peers (snd (get_next b)) = peers b.
Proof.
  unfold get_next. destruct (length (peers b) =? 0); reflexivity.
Qed.

Lemma bstep_inv b o : inv b -> inv (bstep b o).
Proof. destruct o; simpl; [apply add_inv|apply remove_inv|apply get_next_inv]. Qed.

Theorem idx_in_range ops : inv (brun ops bal0).
Proof.
  unfold brun. generalize inv_bal0. generalize bal0. induction ops as [|o ops IH]; simpl; intros b Hb.
  - exact Hb.
  - apply IH. apply bstep_inv. exact Hb.
Qed.

Lemma add_nodup u b : NoDup (peers b) -> NoDup (peers (add u b)).
Proof.
  unfold add. destruct (has u (peers b)) eqn:E; [tauto|]. simpl. intros H.
  apply has_false in E. apply NoDup_rev in H. rewrite <- (rev_involutive (peers b ++ [u])).
  apply NoDup_rev. rewrite rev_app_distr. simpl. constructor; [|exact H].
  rewrite <- in_rev. exact E.
Qed.

Lemma remove_peers u b : NoDup (peers b) ->
  peers (remove u b) = filter (fun x => negb (N.eqb x u)) (peers b).
Proof.
  intros Hnd.
  unfold remove. destruct (position u (peers b)) as [pos|] eqn:E.
  - destruct (position_some _ _ _ E) as (l1 & l2 & Hl & Hp & Hn1 & Hr).
    assert (Hn2 : ~ In u l2).
    { rewrite Hl in Hnd. apply NoDup_remove_2 in Hnd. rewrite in_app_iff in Hnd. tauto. }
    assert (peers (mkBal (remove_at pos (peers b)) 0) = filter (fun x => negb (N.eqb x u)) (peers b)).
    { simpl. rewrite Hr, Hl, filter_app. simpl. rewrite N.eqb_refl. simpl.
      rewrite !filter_neq_id by assumption. reflexivity. }
    destruct (_ && _); [exact H|]. destruct (_ <=? _); exact H.
  - apply position_none in E. symmetry. apply filter_neq_id. exact E.
Qed.

Lemma remove_nodup u b : NoDup (peers b) -> NoDup (peers (remove u b)).
Proof.
  intros H. rewrite remove_peers by exact H. apply NoDup_filter. exact H.
Qed.

Lemma bstep_nodup b o : NoDup (peers b) -> NoDup (peers (bstep b o)).
Proof.
  destruct o; simpl; [apply add_nodup|apply remove_nodup|rewrite get_next_peers; tauto].
Qed.

Theorem peers_nodup ops : NoDup (peers (brun ops bal0)).
Proof.
  unfold brun. assert (H0 : NoDup (peers bal0)) by constructor. revert H0. generalize bal0.
  induction ops as [|o ops IH]; simpl; intros b Hb; [exact Hb|]. apply IH, bstep_nodup, Hb.
Qed.

(* ---------- m consecutive picks, no membership change ---------- *)
Lemma picks_view m : forall b, inv b -> m <= length (view b) ->
  exists b', picks m b = (firstn m (view b), b') /\ peers b' = peers b /\ inv b' /\
             view b' = skipn m (view b) ++ firstn m (view b).
Proof.
  induction m as [|m IH]; intros b Hi Hm.
  - exists b. simpl. rewrite app_nil_r. tauto.
  - destruct (view b) as [|q rest] eqn:E; [simpl in Hm; lia|].
    destruct (get_next_view b q rest Hi E) as (b1 & Hg & Hp1 & Hi1 & Hv1).
    simpl in Hm. destruct (IH b1 Hi1) as (b2 & Hpk & Hp2 & Hi2 & Hv2).
    { rewrite Hv1, app_length. simpl. lia. }
    exists b2. cbn [picks]. rewrite Hg, Hpk. repeat split.
    + rewrite Hv1. simpl. f_equal. f_equal. apply firstn_app_le. lia.
    + congruence.
    + exact Hi2.
    + rewrite Hv2, Hv1. simpl. rewrite firstn_app_le, skipn_app_le by lia.
      rewrite <- !app_assoc. reflexivity.
Qed.

Lemma picks_idx m : forall b, inv b -> peers b <> [] ->
  snd (picks m b) = mkBal (peers b) ((next_idx b + m) mod length (peers b)).
Proof.
  induction m as [|m IH]; intros b Hi Hne.
  - simpl. destruct b as [l i]. simpl. f_equal. destruct Hi as [Hi|[E _]]; simpl in *; [|congruence].
    rewrite Nat.add_0_r. symmetry. apply Nat.mod_small. exact Hi.
  - cbn [picks]. rewrite (get_next_no_reset b Hi Hne).
    set (b1 := mkBal (peers b) ((next_idx b + 1) mod length (peers b))).
    assert (Hlen : length (peers b) <> 0).
    { intros E. apply length_zero_iff_nil in E. congruence. }
    assert (Hi1 : inv b1). { left. simpl. apply Nat.mod_upper_bound. exact Hlen. }
    specialize (IH b1 Hi1 Hne). destruct (picks m b1) as [l b2]. simpl in *. rewrite IH.
    f_equal. rewrite Nat.add_mod_idemp_l by exact Hlen. f_equal. lia.
Qed.

(* one full pass: every peer once, in list order starting at the cursor; the state is back where it was *)
Lemma picks_pass b : inv b -> picks (length (peers b)) b = (view b, b).
Proof.
  intros Hi. destruct (peers b) as [|x l] eqn:E.
  - simpl. f_equal. symmetry. apply view_nil; assumption.
  - rewrite <- E.
    assert (Hne : peers b <> []) by congruence.
    assert (Hl : length (peers b) = length (view b)) by (symmetry; apply rot_length).
    destruct (picks_view (length (peers b)) b Hi) as (b' & Hpk & _); [lia|].
    pose proof (picks_idx (length (peers b)) b Hi Hne) as Hs. rewrite Hpk in *. simpl in Hs.
    rewrite Hl at 1. rewrite firstn_all. f_equal. rewrite Hs. destruct b as [l0 i]. simpl in *. f_equal.
    assert (length l0 <> 0) by (rewrite E; simpl; lia).
    replace (i + length l0) with (i + 1 * length l0) by lia. rewrite Nat.mod_add by assumption.
    apply Nat.mod_small. destruct Hi as [Hi|[E1 _]]; simpl in *; [exact Hi|congruence].
Qed.

Lemma picks_app m1 : forall m2 b, peers b <> [] ->
  picks (m1 + m2) b =
  let '(l1, b1) := picks m1 b in let '(l2, b2) := picks m2 b1 in (l1 ++ l2, b2).
Proof.
  induction m1 as [|m1 IH]; intros m2 b Hne.
  - simpl. destruct (picks m2 b). reflexivity.
  - cbn [picks Nat.add]. destruct (get_next b) as [[p|] b1] eqn:G.
    + assert (Hp : peers b1 = peers b) by (rewrite <- (get_next_peers b), G; reflexivity).
      rewrite IH by congruence. destruct (picks m1 b1) as [l1 b2]. destruct (picks m2 b2). reflexivity.
    + exfalso. unfold get_next in G. destruct (Nat.eqb_spec (length (peers b)) 0) as [E|_]; [|discriminate].
      apply length_zero_iff_nil in E. congruence.
Qed.

(* rr_cycle: k full passes hand out the view k times, in that cyclic order, and restore the state *)
Theorem rr_cycle k b : inv b ->
  picks (k * length (peers b)) b = (concat (repeat (view b) k), b).
Proof.
  intros Hi. destruct (peers b) as [|x l] eqn:E.
  - rewrite Nat.mul_0_r. simpl. f_equal.
    assert (Hv : view b = []) by (apply view_nil; assumption). rewrite Hv.
    clear. induction k; simpl; congruence.
  - rewrite <- E. assert (Hne : peers b <> []) by congruence. clear E.
    induction k as [|k IH]; [reflexivity|].
    cbn [Nat.mul]. rewrite picks_app by exact Hne. rewrite picks_pass by exact Hi. rewrite IH.
    reflexivity.
Qed.

Lemma count_concat_repeat (v : list N) k p :
  count_occ N.eq_dec (concat (repeat v k)) p = k * count_occ N.eq_dec v p.
Proof.
  induction k as [|k IH]; simpl; [reflexivity|]. rewrite count_occ_app, IH. reflexivity.
Qed.

(* ... hence every peer gets exactly k turns *)
Theorem rr_cycle_counts k b p : inv b -> NoDup (peers b) -> In p (peers b) ->
  count_occ N.eq_dec (fst (picks (k * length (peers b)) b)) p = k.
Proof.
  intros Hi Hnd Hin. rewrite rr_cycle by exact Hi. simpl. rewrite count_concat_repeat.
  unfold view. rewrite rot_count.
  apply (NoDup_count_occ' N.eq_dec) in Hin; [|exact Hnd]. rewrite Hin. lia.
Qed.

(* ---------- membership changes seen through the view ---------- *)
(* remove: the order of the upcoming turns is the old one with u deleted - nobody is skipped,
   nobody gets a second turn *)
Theorem remove_view u b : inv b -> NoDup (peers b) ->
  view (remove u b) = filter (fun x => negb (N.eqb x u)) (view b).
Proof.
  intros Hi Hnd. unfold remove. destruct (position u (peers b)) as [pos|] eqn:E.
  2:{ apply position_none in E. symmetry. apply filter_neq_id. unfold view. rewrite rot_in. exact E. }
  destruct (position_some _ _ _ E) as (a & c & Hl & Hp & Hna & Hr).
  assert (Hnc : ~ In u c).
  { rewrite Hl in Hnd. apply NoDup_remove_2 in Hnd. rewrite in_app_iff in Hnd. tauto. }
  rewrite Hr. destruct b as [l i]. cbn [peers next_idx] in *. subst l.
  assert (Hi' : i < length (a ++ u :: c)).
  { destruct Hi as [Hi|[E1 _]]; simpl in *; [exact Hi|destruct a; discriminate]. }
  rewrite app_length in Hi'. simpl in Hi'.
  destruct (Nat.ltb_spec pos i) as [Hlt|Hge]; cbn [andb].
  - (* the removed peer sits before the cursor *)
    destruct (Nat.ltb_spec 0 i) as [_|]; [|lia]. cbn [andb].
    destruct (split_at c (i - length a - 1)) as (c1 & c2 & -> & Hc1); [lia|].
    assert (Ei : i = length (a ++ u :: c1)) by (rewrite app_length; simpl; lia).
    replace (a ++ u :: c1 ++ c2) with ((a ++ u :: c1) ++ c2) by (rewrite <- app_assoc; reflexivity).
    rewrite Ei at 2. rewrite view_split.
    replace (a ++ c1 ++ c2) with ((a ++ c1) ++ c2) by (rewrite <- app_assoc; reflexivity).
    replace (i - 1) with (length (a ++ c1)) by (rewrite app_length; lia).
    rewrite view_split. rewrite !filter_app. simpl. rewrite N.eqb_refl. simpl.
    rewrite in_app_iff in Hnc.
    rewrite !filter_neq_id by tauto. reflexivity.
  - (* at or after the cursor *)
    replace (pos <? i) with false by (symmetry; apply Nat.ltb_ge; exact Hge). cbn [andb].
    destruct (split_at a i) as (a1 & a2 & -> & Ha1); [lia|]. subst i.
    rewrite <- (app_assoc a1 a2 (u :: c)). rewrite view_split.
    rewrite in_app_iff in Hna.
    rewrite !filter_app. simpl. rewrite N.eqb_refl. simpl.
    rewrite !filter_neq_id by tauto.
    destruct (Nat.leb_spec (length ((a1 ++ a2) ++ c)) (length a1)) as [Hle|Hgt].
    + rewrite !app_length in *. assert (length a2 = 0) by lia. assert (length c = 0) by lia.
      destruct a2; [|discriminate]. destruct c; [|discriminate]. simpl.
      unfold view. simpl. rewrite rot_0, !app_nil_r. reflexivity.
    + rewrite <- (app_assoc a1 a2 c). rewrite view_split. reflexivity.
Qed.

(* remove_keeps_successor, in the form asked for *)
Theorem remove_keeps_successor_other u b : inv b -> NoDup (peers b) ->
  fst (get_next b) <> Some u -> fst (get_next (remove u b)) = fst (get_next b).
Proof.
  intros Hi Hnd Hne. rewrite !get_next_hd by (try apply remove_inv; exact Hi).
  rewrite get_next_hd in Hne by exact Hi.
  rewrite remove_view by assumption. destruct (view b) as [|q rest]; [reflexivity|]. simpl in *.
  destruct (N.eqb_spec q u) as [->|_]; [congruence|reflexivity].
Qed.

Theorem remove_keeps_successor_self u s rest b : inv b -> NoDup (peers b) ->
  view b = u :: s :: rest -> fst (get_next (remove u b)) = Some s.
Proof.
  intros Hi Hnd Hv. rewrite get_next_hd by (apply remove_inv; exact Hi).
  rewrite remove_view by assumption. rewrite Hv. simpl. rewrite N.eqb_refl. simpl.
  assert (Hn : NoDup (u :: s :: rest)) by (rewrite <- Hv; apply rot_nodup; exact Hnd).
  inversion Hn as [|? ? Hnin _]. destruct (N.eqb_spec s u) as [->|_]; [|reflexivity].
  exfalso. apply Hnin. now left.
Qed.

Theorem remove_last_peer u b : inv b -> view b = [u] -> remove u b = bal0.
Proof.
  intros Hi Hv. assert (Hl : length (peers b) = 1) by (rewrite <- (rot_length (next_idx b)); fold (view b); rewrite Hv; reflexivity).
  destruct b as [l i]. simpl in *. destruct l as [|x [|y l]]; try discriminate.
  destruct Hi as [Hi|[E _]]; simpl in *; [|discriminate]. assert (i = 0) by lia. subst.
  unfold view in Hv. simpl in Hv. inversion Hv. subst. unfold remove. simpl. rewrite N.eqb_refl. reflexivity.
Qed.

(* add: a new uri goes to the end of the list; the cursor is untouched, so it takes its first
   turn after every peer that is still to come in the current pass and before those that already
   had theirs; a uri that is already present changes nothing *)
Theorem add_joins_end u b : inv b -> ~ In u (peers b) ->
  peers (add u b) = peers b ++ [u] /\ next_idx (add u b) = next_idx b /\
  view (add u b) = skipn (next_idx b) (peers b) ++ u :: firstn (next_idx b) (peers b).
Proof.
  intros Hi Hn. unfold add. apply has_false in Hn. rewrite Hn. simpl. repeat split.
  unfold view, rot. simpl.
  assert (next_idx b <= length (peers b)) by (destruct Hi as [|[-> ->]]; simpl; lia).
  rewrite skipn_app_le, firstn_app by assumption.
  replace (next_idx b - length (peers b)) with 0 by lia. simpl. rewrite app_nil_r, <- app_assoc. reflexivity.
Qed.

Theorem add_dup_noop u b : In u (peers b) -> add u b = b.
Proof. intros H. unfold add. apply has_true in H. rewrite H. reflexivity. Qed.

Theorem add_keeps_next u b : inv b -> peers b <> [] -> fst (get_next (add u b)) = fst (get_next b).
Proof.
  intros Hi Hne. destruct (in_dec N.eq_dec u (peers b)) as [Hin|Hn].
  - rewrite add_dup_noop by exact Hin. reflexivity.
  - rewrite !get_next_hd by (try apply add_inv; exact Hi).
    destruct (add_joins_end u b Hi Hn) as (_ & _ & ->). unfold view, rot.
    destruct Hi as [Hi|[E _]]; [|congruence].
    destruct (skipn (next_idx b) (peers b)) eqn:E; [|reflexivity].
    apply (f_equal (@length N)) in E. rewrite skipn_length in E. simpl in E. lia.
Qed.
