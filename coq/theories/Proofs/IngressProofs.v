(* Receiving side: for EVERY queue discipline and every history of Recv / RecvMultipart / Enqueue / Register /
   Deregister / Close, what the application is handed is the concatenation of the batches taken off the queue,
   frame by frame, in order.  Only close() of the socket itself abandons a half-read message.
   (Before the repairs of C02 findings 1 and 2 two more classes failed: deregister_pipe of any pipe cleared the
   cache, and DEALER/ROUTER recv_multipart jumped over a half-read message; their witnesses are kept below and
   now deliver whole.) *)
From RZ Require Import Base.Prelude Model.Codec Model.RouterMap Model.Envelope Model.FrameBatch Model.SendFlags
  Model.Ingress Proofs.FrameBatchProofs Proofs.EnvelopeProofs Proofs.SendFlagsProofs.
Local Open Scope N_scope.

(* the last frame (if any) has no MORE *)
Definition last_nomore (l : list frame) : Prop := forall init x, l = init ++ [x] -> fmore x = false.
(* a batch as the engine / the inproc reader hand it to the queue: non-empty, at most 255 frames, last frame
   without MORE (ZmtpEngine::process_data cuts exactly there) *)
Definition good (b : batch) : Prop :=
  fb_canon b /\ fb_list b <> [] /\ (length (fb_list b) <= 255)%nat /\ last_nomore (fb_list b).
Definition popped_frames (es : list ev) : list frame := concat (map fb_list (popped es)).

Lemma last_nomore_suffix (a r : list frame) : last_nomore (a ++ r) -> last_nomore r.
Proof. intros H init x E. apply (H (a ++ init) x). rewrite E, app_assoc. reflexivity. Qed.
Lemma last_nomore_nil : last_nomore [].
Proof. intros init x E. destruct init; discriminate. Qed.
Lemma more_ok_last_nomore (l : list frame) : more_ok l -> last_nomore l.
Proof.
  induction l as [|f [|g t] IH]; intros M init x E.
  - destruct init; discriminate.
  - destruct init as [|y init]; [injection E as <-; apply more_ok_single; exact M|].
    destruct init; discriminate.
  - destruct (more_ok_tail f g t M) as [_ Mt]. destruct init as [|y init]; [discriminate|].
    injection E as _ E. exact (IH Mt init x E).
Qed.

(* ---------------------------------------------------------------- take_message *)
Lemma take_message_split d :
  let '(tk, c, r) := take_message d in d = tk ++ r /\ (c = false -> r = []) /\ (c = true -> tk <> []).
Proof.
  induction d as [|f t IH]; cbn [take_message].
  - split; [reflexivity|]. split; [reflexivity | discriminate].
  - destruct (fmore f).
    + destruct (take_message t) as [[tk c] r]. destruct IH as (-> & H1 & H2).
      split; [reflexivity|]. split; [exact H1 | discriminate].
    + split; [reflexivity|]. split; discriminate.
Qed.
Lemma take_message_complete d : d <> [] -> last_nomore d -> snd (fst (take_message d)) = true.
Proof.
  induction d as [|f t IH]; intros Hn Hl; [congruence|]. cbn [take_message].
  destruct (fmore f) eqn:Ef; [|reflexivity].
  destruct t as [|g t'].
  - specialize (Hl [] f eq_refl). congruence.
  - assert (snd (fst (take_message (g :: t'))) = true) as H.
    { apply IH; [discriminate|]. apply (last_nomore_suffix [f]). exact Hl. }
    destruct (take_message (g :: t')) as [[tk c] r]. exact H.
Qed.
(* with MORE exactly on all but the last frame the whole remainder is one message *)
Lemma take_message_more_ok d : d <> [] -> more_ok d -> take_message d = (d, true, []).
Proof.
  induction d as [|f [|g t] IH]; intros Hn M; [congruence| |].
  - cbn [take_message]. rewrite (more_ok_single f M). reflexivity.
  - destruct (more_ok_tail f g t M) as [Hf Mt].
    change (take_message (f :: g :: t))
      with (if fmore f then let '(tk, c, r) := take_message (g :: t) in (f :: tk, c, r) else ([f], true, g :: t)).
    rewrite Hf, (IH ltac:(discriminate) Mt). reflexivity.
Qed.

(* ---------------------------------------------------------------- split_first *)
Lemma split_first_good (b : batch) f rest : fb_canon b -> fb_list b = f :: rest ->
  split_first b = Ok (f, match rest with [] => None | _ => Some rest end).
Proof.
  intros C E. unfold split_first. rewrite (canon_is_empty b C), E. cbn [nonnil negb]. unfold fb_len. rewrite E.
  destruct rest as [|g t]; cbn [length Nat.eqb].
  - destruct (fb_remove0 f [] b E) as (b' & -> & _). reflexivity.
  - reflexivity.
Qed.

Section Generic.
Context {Q : Type} (qo : qops Q).

Definition cache_inv (c : cache) : Prop :=
  last_nomore (cache_frames c) /\ (length (cache_frames c) <= 255)%nat.

Definition ev_panic (e : ev) : bool := match e with EvRet RPanic _ => true | _ => false end.
Definition ev_returned (e : ev) : list frame := returned [e].
Definition ev_popped (e : ev) : list batch := popped [e].

Lemma returned_cons e es : returned (e :: es) = ev_returned e ++ returned es.
Proof. unfold ev_returned. destruct e as [r p| | |]; cbn [returned]; rewrite ?app_nil_r; reflexivity. Qed.
Lemma popped_cons e es : popped (e :: es) = ev_popped e ++ popped es.
Proof. unfold ev_popped. destruct e as [r [[p b]|]| | |]; reflexivity. Qed.
Lemma has_panic_cons e es : has_panic (e :: es) = ev_panic e || has_panic es.
Proof. reflexivity. Qed.

Lemma cache_frames_tail (rest : list frame) :
  cache_frames (match rest with [] => None | _ => Some rest end) = rest.
Proof. destruct rest; reflexivity. Qed.

(* ================================================================ AnonymousIngressEngine *)
(* does this operation discard a half-read message?  only closing the socket does *)
Definition drops (o : op) (c : cache) : bool :=
  match o with
  | OClose => nonnil (cache_frames c)
  | _ => false
  end.
Fixpoint no_drop (os : list op) (st : astate) : bool :=
  match os with
  | [] => true
  | o :: t => negb (drops o (snd st)) && no_drop t (fst (anon_step qo o st))
  end.

(* one step: frames in the cache ++ frames popped = frames returned ++ frames left in the cache *)
Lemma anon_step_accounting o (q : Q) c st' e :
  anon_step qo o (q, c) = (st', e) -> cache_inv c -> drops o c = false -> Forall good (ev_popped e) ->
  cache_frames c ++ concat (map fb_list (ev_popped e)) = ev_returned e ++ cache_frames (snd st')
  /\ cache_inv (snd st') /\ ev_panic e = false.
Proof.
  intros H [Il Ib] Hd Hg.
  assert (forall st1 e1, anon_pop_first qo q = (st1, e1) -> Forall good (ev_popped e1) ->
            concat (map fb_list (ev_popped e1)) = ev_returned e1 ++ cache_frames (snd st1)
            /\ cache_inv (snd st1) /\ ev_panic e1 = false) as Hfirst.
  { intros st1 e1 H1 G1. unfold anon_pop_first in H1. destruct (qo_pop qo q) as [q' [[p b]|]].
    - unfold ev_popped in G1.
      assert (good b) as (C & Hn & Lb & Ln).
      { destruct (split_first b) as [[f0 stash]|]; injection H1 as <- <-; cbn in G1; inversion G1; assumption. }
      destruct (fb_list b) as [|f rest] eqn:E; [congruence|].
      rewrite (split_first_good b f rest C E) in H1. injection H1 as <- <-.
      unfold ev_popped, ev_returned. cbn [popped returned map concat ret_frames snd]. rewrite E, app_nil_r, cache_frames_tail.
      split; [reflexivity|]. split; [|reflexivity]. unfold cache_inv. rewrite cache_frames_tail.
      split; [apply (last_nomore_suffix [f]); exact Ln | cbn [length] in Lb; lia].
    - injection H1 as <- <-. cbn. split; [reflexivity|]. split; [|reflexivity].
      split; [apply last_nomore_nil | cbn; lia]. }
  assert (forall st1 e1, anon_pop_whole qo q = (st1, e1) ->
            concat (map fb_list (ev_popped e1)) = ev_returned e1 ++ cache_frames (snd st1)
            /\ cache_inv (snd st1) /\ ev_panic e1 = false) as Hwhole.
  { intros st1 e1 H1. unfold anon_pop_whole in H1. destruct (qo_pop qo q) as [q' [[p b]|]]; injection H1 as <- <-.
    - unfold ev_popped, ev_returned. cbn [popped returned map concat ret_frames snd cache_frames]. rewrite !app_nil_r.
      split; [reflexivity|]. split; [|reflexivity]. split; [apply last_nomore_nil | cbn; lia].
    - cbn. split; [reflexivity|]. split; [|reflexivity]. split; [apply last_nomore_nil | cbn; lia]. }
  destruct o as [| |h b|p|p|]; cbn [anon_step] in H.
  - (* Recv *)
    unfold anon_recv in H. destruct c as [[|f rest]|].
    + apply (Hfirst _ _ H Hg).
    + injection H as <- <-. unfold ev_popped, ev_returned. cbn [popped returned map concat ret_frames snd cache_frames app].
      rewrite app_nil_r, cache_frames_tail. split; [reflexivity|]. split; [|reflexivity].
      unfold cache_inv. rewrite cache_frames_tail. cbn [cache_frames] in *.
      split; [apply (last_nomore_suffix [f]); exact Il | cbn [length] in Ib; lia].
    + apply (Hfirst _ _ H Hg).
  - (* RecvMultipart *)
    unfold anon_recv_multipart in H. destruct c as [d|]; [|cbn [cache_frames app]; apply (Hwhole _ _ H)].
    cbn [cache_frames] in *.
    pose proof (take_message_split d) as Hs. destruct (take_message d) as [[tk c] r] eqn:Et.
    destruct Hs as (Ed & Hc0 & Hc1).
    destruct (fb_extend_ok tk fb_new) as (bt & Ebt & Lbt).
    { cbn [fb_new fb_list length]. rewrite Ed, app_length in Ib. lia. }
    rewrite Ebt in H. cbn [fb_new fb_list app] in Lbt.
    destruct c.
    + injection H as <- <-. unfold ev_popped, ev_returned. cbn [popped returned map concat ret_frames snd].
      rewrite !app_nil_r, cache_frames_tail, Lbt. split; [exact Ed|]. split; [|reflexivity].
      unfold cache_inv. rewrite cache_frames_tail. split.
      * rewrite Ed in Il. apply (last_nomore_suffix tk). exact Il.
      * rewrite Ed, app_length in Ib. lia.
    + (* not completed: only possible for an empty deque (the last cached frame never has MORE) *)
      destruct d as [|f t].
      * destruct (Hwhole _ _ H) as (A & B & P). split; [exact A | split; [exact B | exact P]].
      * pose proof (take_message_complete (f :: t) ltac:(discriminate) Il) as Hcmp. rewrite Et in Hcmp. discriminate.
  - destruct (qo_enq qo h b q) as [q' ok]. injection H as <- <-. cbn. rewrite app_nil_r. split; [reflexivity|].
    split; [split; assumption | reflexivity].
  - destruct (qo_reg qo p q) as [q' h]. injection H as <- <-. cbn. rewrite app_nil_r. split; [reflexivity|].
    split; [split; assumption | reflexivity].
  - injection H as <- <-. cbn. rewrite app_nil_r. split; [reflexivity|].
    split; [split; assumption | reflexivity].
  - injection H as <- <-. cbn [drops] in Hd. cbn. destruct (cache_frames c); [|discriminate].
    split; [reflexivity|]. split; [split; [apply last_nomore_nil | cbn; lia] | reflexivity].
Qed.

Theorem anon_accounting : forall os st st' es,
  anon_run qo os st = (st', es) -> cache_inv (snd st) -> no_drop os st = true -> Forall good (popped es) ->
  cache_frames (snd st) ++ popped_frames es = returned es ++ cache_frames (snd st') /\ has_panic es = false.
Proof.
  induction os as [|o t IH]; intros st st' es H I Hd Hg.
  - injection H as <- <-. unfold popped_frames. cbn. rewrite app_nil_r. auto.
  - cbn [anon_run] in H. destruct (anon_step qo o st) as [st1 e] eqn:E1.
    destruct (anon_run qo t st1) as [st2 es2] eqn:E2. injection H as <- <-.
    cbn [no_drop] in Hd. apply andb_prop in Hd. destruct Hd as [Hd1 Hd2]. rewrite E1 in Hd2. cbn [fst] in Hd2.
    rewrite popped_cons in Hg. apply Forall_app in Hg. destruct Hg as [G1 G2].
    destruct st as [q c].
    destruct (anon_step_accounting o q c st1 e E1 I ltac:(apply negb_true_iff; exact Hd1) G1) as (A1 & I1 & P1).
    destruct (IH st1 st2 es2 E2 I1 Hd2 G2) as (A2 & P2).
    unfold popped_frames in *. rewrite popped_cons, returned_cons, has_panic_cons, map_app, concat_app, P1, P2.
    split; [|reflexivity]. cbn [snd] in *. rewrite app_assoc, A1, <- app_assoc, A2, app_assoc. reflexivity.
Qed.

(* every history of recv / recv_multipart / enqueue / register / deregister (the socket is not closed meanwhile) *)
Definition no_close (os : list op) : Prop := Forall (fun o => o <> OClose) os.
Lemma no_close_no_drop : forall os st, no_close os -> no_drop os st = true.
Proof.
  induction os as [|o t IH]; intros st H; [reflexivity|]. inversion H as [|? ? Ho Ht]; subst.
  cbn [no_drop]. rewrite (IH _ Ht), andb_true_r. destruct o; try reflexivity. congruence.
Qed.
Theorem anon_accounting_open : forall os st st' es,
  anon_run qo os st = (st', es) -> cache_inv (snd st) -> no_close os -> Forall good (popped es) ->
  cache_frames (snd st) ++ popped_frames es = returned es ++ cache_frames (snd st') /\ has_panic es = false.
Proof. intros os st st' es H I Hc Hg. exact (anon_accounting os st st' es H I (no_close_no_drop os st Hc) Hg). Qed.

(* histories that only use recv_multipart never touch the cache: every result is exactly one queued batch,
   whatever is registered, deregistered or closed meanwhile *)
Definition no_recv (os : list op) : Prop := Forall (fun o => o <> ORecv) os.
Theorem anon_multipart_only : forall os q st' es,
  anon_run qo os (q, None) = (st', es) -> no_recv os ->
  snd st' = None /\ returned es = popped_frames es /\ has_panic es = false /\
  Forall (fun e => match e with EvRet (RBatch fs) (Some (_, b)) => fs = fb_list b
                              | EvRet (RBatch _) None => False | _ => True end) es.
Proof.
  induction os as [|o t IH]; intros q st' es H Hn.
  - injection H as <- <-. cbn. auto.
  - inversion Hn as [|? ? Ho Ht]; subst. cbn [anon_run] in H.
    destruct (anon_step qo o (q, None)) as [st1 e] eqn:E1.
    destruct (anon_run qo t st1) as [st2 es2] eqn:E2. injection H as <- <-.
    assert (exists q1, st1 = (q1, None) /\ ev_returned e = concat (map fb_list (ev_popped e)) /\ ev_panic e = false /\
              match e with EvRet (RBatch fs) (Some (_, b)) => fs = fb_list b
                         | EvRet (RBatch _) None => False | _ => True end) as (q1 & -> & R1 & P1 & F1).
    { destruct o as [| |h b|p|p|]; cbn [anon_step] in E1.
      - congruence.
      - unfold anon_recv_multipart, anon_pop_whole in E1. destruct (qo_pop qo q) as [q' [[p b]|]]; injection E1 as <- <-.
        + exists q'. cbn. rewrite !app_nil_r. auto.
        + exists q'. cbn. auto.
      - destruct (qo_enq qo h b q) as [q' ok]. injection E1 as <- <-. exists q'. cbn. auto.
      - destruct (qo_reg qo p q) as [q' h]. injection E1 as <- <-. exists q'. cbn. auto.
      - injection E1 as <- <-. eexists. cbn. auto.
      - injection E1 as <- <-. eexists. cbn. auto. }
    destruct (IH q1 st2 es2 E2 Ht) as (C2 & R2 & P2 & F2).
    unfold popped_frames in *. rewrite returned_cons, popped_cons, has_panic_cons, map_app, concat_app, R1, R2, P1, P2.
    split; [exact C2|]. split; [reflexivity|]. split; [reflexivity|]. constructor; assumption.
Qed.

(* a recv_multipart served from the cache returns the whole unread remainder when the batches carry MORE on
   all but the last frame *)
Lemma anon_recv_multipart_remainder (q : Q) (d : list frame) :
  d <> [] -> more_ok d -> (length d <= 255)%nat ->
  anon_recv_multipart qo (q, Some d) = ((q, None), EvRet (RBatch d) None).
Proof.
  intros Hn M L. unfold anon_recv_multipart. rewrite (take_message_more_ok d Hn M).
  destruct (fb_extend_ok d fb_new) as (bt & -> & Lb); [cbn; lia|]. cbn [fb_new fb_list app] in Lb. rewrite Lb. reflexivity.
Qed.

(* a peer detaching leaves the unread frames of the message being read where they are *)
Lemma anon_deregister_keeps (q : Q) c p :
  anon_step qo (ODeregister p) (q, c) = ((qo_dereg qo p q, c), EvUnit).
Proof. reflexivity. Qed.

(* ================================================================ DEALER / ROUTER frame_recv_buffer *)
Context (process : pipe -> batch -> out batch).

(* processed batches the application can tell apart from "nothing": canonical, non-empty, at most 255 frames *)
Definition pgood (e : ev) : Prop :=
  match e with
  | EvRet _ (Some (p, raw)) =>
      exists b, process p raw = Ok b /\ fb_canon b /\ fb_list b <> [] /\ (length (fb_list b) <= 255)%nat
  | _ => True
  end.
Definition ev_processed (e : ev) : list frame :=
  match e with
  | EvRet _ (Some (p, raw)) => match process p raw with Ok b => fb_list b | Panic => [] end
  | _ => []
  end.
Definition processed_frames (es : list ev) : list frame := concat (map ev_processed es).
Definition buf_inv (c : cache) : Prop := (length (cache_frames c) <= 255)%nat.

Lemma fbuf_step_accounting o (q : Q) c st' e :
  fbuf_step qo process o (q, c) = (st', e) -> buf_inv c -> pgood e ->
  cache_frames c ++ ev_processed e = ev_returned e ++ cache_frames (snd st') /\ buf_inv (snd st') /\ ev_panic e = false.
Proof.
  intros H Ib Hg. unfold buf_inv in *. destruct o as [| |h b|p|p|]; cbn [fbuf_step] in H.
  - unfold fbuf_recv in H.
    assert (forall st1 e1, (let '(q', r) := qo_pop qo q in
              match r with
              | None => ((q', None), EvRet RWouldBlock None)
              | Some (p, raw) =>
                  match bind (process p raw) split_first with
                  | Panic => ((q', None), EvRet RPanic (Some (p, raw)))
                  | Ok (f, stash) => ((q', stash), EvRet (RFrame f) (Some (p, raw)))
                  end
              end) = (st1, e1) -> pgood e1 ->
              ev_processed e1 = ev_returned e1 ++ cache_frames (snd st1) /\
              (length (cache_frames (snd st1)) <= 255)%nat /\ ev_panic e1 = false) as Hpop.
    { intros st1 e1 H1 G1. destruct (qo_pop qo q) as [q' [[p raw]|]].
      - assert (exists b, process p raw = Ok b /\ fb_canon b /\ fb_list b <> [] /\ (length (fb_list b) <= 255)%nat)
          as (b & Eb & C & Hn & Lb).
        { destruct (bind (process p raw) split_first) as [[f stash]|]; injection H1 as <- <-; exact G1. }
        rewrite Eb in H1. cbn [bind] in H1. destruct (fb_list b) as [|f rest] eqn:E; [congruence|].
        rewrite (split_first_good b f rest C E) in H1. injection H1 as <- <-.
        unfold ev_processed, ev_returned. rewrite Eb, E. cbn [returned ret_frames snd]. rewrite app_nil_r, cache_frames_tail.
        cbn [length] in Lb. split; [reflexivity|]. split; [lia | reflexivity].
      - injection H1 as <- <-. cbn. split; [reflexivity|]. split; [lia | reflexivity]. }
    destruct c as [[|f rest]|].
    + cbn [cache_frames app]. apply (Hpop _ _ H Hg).
    + injection H as <- <-. unfold ev_processed, ev_returned. cbn [returned ret_frames snd cache_frames app] in *.
      rewrite !app_nil_r, cache_frames_tail. split; [reflexivity|]. split; [cbn [length] in Ib; lia | reflexivity].
    + cbn [cache_frames app]. apply (Hpop _ _ H Hg).
  - unfold fbuf_recv_multipart in H.
    assert (forall st1 e1, (let '(q', r) := qo_pop qo q in
              match r with
              | None => ((q', None), EvRet RWouldBlock None)
              | Some (p, raw) =>
                  match process p raw with
                  | Panic => ((q', None), EvRet RPanic (Some (p, raw)))
                  | Ok b => ((q', None), EvRet (RBatch (fb_list b)) (Some (p, raw)))
                  end
              end) = (st1, e1) -> pgood e1 ->
              ev_processed e1 = ev_returned e1 ++ cache_frames (snd st1) /\
              (length (cache_frames (snd st1)) <= 255)%nat /\ ev_panic e1 = false) as Hpop.
    { intros st1 e1 H1 G1. destruct (qo_pop qo q) as [q' [[p raw]|]].
      - assert (exists b, process p raw = Ok b) as (b & Eb).
        { destruct (process p raw) as [b|] eqn:Eb; [eauto|]. injection H1 as <- <-. destruct G1 as (b & Hb & _). congruence. }
        rewrite Eb in H1. injection H1 as <- <-. unfold ev_processed, ev_returned. rewrite Eb.
        cbn [returned ret_frames snd cache_frames length]. rewrite !app_nil_r. split; [reflexivity|]. split; [lia | reflexivity].
      - injection H1 as <- <-. cbn. split; [reflexivity|]. split; [lia | reflexivity]. }
    destruct c as [[|f rest]|].
    + cbn [cache_frames app]. apply (Hpop _ _ H Hg).
    + cbn [cache_frames] in Ib.
      destruct (fb_extend_ok (f :: rest) fb_new) as (bt & Ebt & Lbt); [cbn [fb_new fb_list length] in *; lia|].
      rewrite Ebt in H. cbn [fb_new fb_list app] in Lbt. injection H as <- <-.
      unfold ev_processed, ev_returned. cbn [returned ret_frames snd cache_frames length]. rewrite Lbt, !app_nil_r.
      split; [reflexivity|]. split; [lia | reflexivity].
    + cbn [cache_frames app]. apply (Hpop _ _ H Hg).
  - destruct (qo_enq qo h b q) as [q' ok]. injection H as <- <-. cbn. rewrite app_nil_r. auto.
  - destruct (qo_reg qo p q) as [q' h]. injection H as <- <-. cbn. rewrite app_nil_r. auto.
  - injection H as <- <-. cbn. rewrite app_nil_r. auto.
  - injection H as <- <-. cbn. rewrite app_nil_r. auto.
Qed.

(* every history, any mix of recv and recv_multipart, any attach / detach / close meanwhile *)
Theorem fbuf_accounting : forall os st st' es,
  fbuf_run qo process os st = (st', es) -> buf_inv (snd st) -> Forall pgood es ->
  cache_frames (snd st) ++ processed_frames es = returned es ++ cache_frames (snd st') /\ has_panic es = false.
Proof.
  induction os as [|o t IH]; intros st st' es H Ib Hg.
  - injection H as <- <-. unfold processed_frames. cbn. rewrite app_nil_r. auto.
  - cbn [fbuf_run] in H. destruct (fbuf_step qo process o st) as [st1 e] eqn:E1.
    destruct (fbuf_run qo process t st1) as [st2 es2] eqn:E2. injection H as <- <-.
    inversion Hg as [|? ? G1 G2]; subst. destruct st as [q c].
    destruct (fbuf_step_accounting o q c st1 e E1 Ib G1) as (A1 & I1 & P1).
    destruct (IH st1 st2 es2 E2 I1 G2) as (A2 & P2).
    unfold processed_frames in *. cbn [map concat]. rewrite returned_cons, has_panic_cons, P1, P2.
    split; [|reflexivity]. cbn [snd] in *. rewrite app_assoc, A1, <- app_assoc, A2, app_assoc. reflexivity.
Qed.
(* a recv_multipart in the middle of a message returns exactly its unread frames and empties the buffer *)
Lemma fbuf_recv_multipart_remainder (q : Q) (d : list frame) : d <> [] -> (length d <= 255)%nat ->
  fbuf_recv_multipart qo process (q, Some d) = ((q, None), EvRet (RBatch d) None).
Proof.
  intros Hn L. destruct d as [|f rest]; [congruence|]. unfold fbuf_recv_multipart.
  destruct (fb_extend_ok (f :: rest) fb_new) as (bt & -> & Lb); [cbn [fb_new fb_list length] in *; lia|].
  cbn [fb_new fb_list app] in Lb. rewrite Lb. reflexivity.
Qed.
End Generic.

(* ================================================================ the witnesses of the two repaired findings *)
Definition fr (more : bool) (x : N) : frame := (more, [x]).
Definition msgA : batch := FMany [fr true 10; fr true 11; fr false 12].
Definition msgB : batch := FSingle (fr false 20).

(* PULL/SUB: peer 1 sent A (three frames); the application has read the first frame; a DIFFERENT, idle peer
   (pipe 3) disconnects.  Before the repair frames 2 and 3 of A were gone; now A is delivered whole. *)
Definition wit_deregister : list op :=
  [ORegister 1; ORegister 3; OEnqueue 0%nat msgA; ORecv; ODeregister 3; ORecv; ORecv; OEnqueue 0%nat msgB; ORecv].
Theorem recv_contiguous_deregister_witness :
  let '(st', es) := anon_run rpq_ops wit_deregister (q_new, None) in
  popped_frames es = [fr true 10; fr true 11; fr false 12; fr false 20] /\
  returned es = popped_frames es /\ cache_frames (snd st') = [].
Proof. vm_compute. auto. Qed.

(* DEALER/ROUTER: recv() has returned frame 1 of A; recv_multipart() now returns the rest of A (it used to
   return B); the next recv() returns B *)
Definition wit_mixed : list op :=
  [ORegister 1; OEnqueue 0%nat msgA; OEnqueue 0%nat msgB; ORecv; ORecvMultipart; ORecv; ORecv].
Theorem recv_contiguous_mixed_witness :
  let '(st', es) := fbuf_run rpq_ops (fun _ b => Ok b) wit_mixed (q_new, None) in
  processed_frames (fun _ b => Ok b) es = [fr true 10; fr true 11; fr false 12; fr false 20] /\
  returned es = processed_frames (fun _ b => Ok b) es.
Proof. vm_compute. auto. Qed.

(* ================================================================ envelope handling on receive: limits *)
Lemma strip_delim_fb_sound (b w : batch) : fb_canon b -> strip_delim_fb b = Ok w ->
  fb_canon w /\ fb_list w = match fb_list b with f0 :: rest => if fempty f0 then rest else f0 :: rest | [] => [] end.
Proof.
  intros C H. unfold strip_delim_fb in H. rewrite (canon_is_empty b C) in H.
  destruct (fb_list b) as [|f0 rest] eqn:E; cbn [nonnil negb] in H.
  - injection H as <-. auto.
  - rewrite (fb_index0 b f0 rest E) in H. cbn [bind] in H. destruct (fempty f0).
    + destruct (fb_remove0 f0 rest b E) as (b' & Er & L'). rewrite Er in H. cbn [bind] in H. injection H as <-.
      split; [eapply remove_canon; exact Er | exact L'].
    + injection H as <-. rewrite E. auto.
Qed.
Lemma strip_delim_fb_total (b : batch) : fb_canon b -> exists w, strip_delim_fb b = Ok w.
Proof.
  intros C. unfold strip_delim_fb. rewrite (canon_is_empty b C).
  destruct (fb_list b) as [|f0 rest] eqn:E; cbn [nonnil negb]; [eauto|].
  rewrite (fb_index0 b f0 rest E). cbn [bind]. destruct (fempty f0); [|eauto].
  destruct (fb_remove0 f0 rest b E) as (b' & -> & _). cbn [bind]. eauto.
Qed.

(* ROUTER recv: the identity frame is prepended with FrameBatch::with_capacity(1 + n): n = 255 panics *)
Lemma router_transform_fb_ok id (payload : batch) : fb_canon payload -> (length (fb_list payload) <= 254)%nat ->
  exists w, router_transform_fb id payload = Ok w /\ fb_list w = router_transform id (fb_list payload).
Proof.
  intros C L. unfold router_transform_fb, router_transform. unfold fb_len.
  destruct (@fb_with_capacity_ok frame (1 + length (fb_list payload))) as (r0 & -> & L0); [lia|]. cbn [bind].
  destruct (fb_push_ok r0 (negb (fb_is_empty payload), id)) as (r1 & -> & L1); [rewrite L0; cbn; lia|]. cbn [bind].
  destruct (fb_extend_ok (fb_list payload) r1) as (r2 & -> & L2); [rewrite L1, L0; cbn [app length]; lia|]. cbn [bind].
  eexists. split; [reflexivity|]. rewrite fb_clear_last_list, L2, L1, L0, (canon_is_empty payload C), negb_involutive. reflexivity.
Qed.
Lemma router_transform_fb_255_panics id (payload : batch) :
  length (fb_list payload) = 255%nat -> router_transform_fb id payload = Panic.
Proof.
  intros L. unfold router_transform_fb, fb_len. rewrite L. rewrite fb_with_capacity_panic by lia. reflexivity.
Qed.
(* a 255-frame message whose first frame is not empty, or that comes from a ROUTER peer / with AUTO_DELIMITER off,
   is accepted by the engine (255 <= MAX_FRAMES) and panics in ROUTER recv()/recv_multipart() *)
Theorem router_recv_255_panics manual pt id (raw : batch) f0 rest :
  fb_canon raw -> fb_list raw = f0 :: rest -> length (fb_list raw) = 255%nat ->
  manual = true \/ pt = Some TRouter \/ fempty f0 = false ->
  router_recv_fb manual pt id raw = Panic.
Proof.
  intros C E L Hc. unfold router_recv_fb.
  assert (router_process_fb manual pt raw = Ok raw) as ->.
  { unfold router_process_fb. destruct manual; [reflexivity|]. destruct Hc as [Hc | [-> | Hf]]; [discriminate | reflexivity |].
    assert (strip_delim_fb raw = Ok raw) as Hs.
    { unfold strip_delim_fb. rewrite (canon_is_empty raw C), E. cbn [nonnil negb].
      rewrite (fb_index0 raw f0 rest E). cbn [bind]. rewrite Hf. reflexivity. }
    destruct pt as [[| | |]|]; try exact Hs. reflexivity. }
  cbn [bind]. apply router_transform_fb_255_panics. exact L.
Qed.
Theorem router_recv_fb_ok manual pt id (raw : batch) : fb_canon raw -> (length (fb_list raw) <= 254)%nat ->
  exists w, router_recv_fb manual pt id raw = Ok w /\ fb_list w = router_recv manual pt id (fb_list raw).
Proof.
  intros C L. unfold router_recv_fb, router_recv.
  assert (exists p, router_process_fb manual pt raw = Ok p /\ fb_canon p /\
                    fb_list p = router_process_incoming manual pt (fb_list raw)) as (p & -> & Cp & Lp).
  { unfold router_process_fb, router_process_incoming. destruct manual; [eauto|].
    assert (exists p, strip_delim_fb raw = Ok p /\ fb_canon p /\
              fb_list p = match fb_list raw with f0 :: rest => if fempty f0 then rest else fb_list raw | [] => fb_list raw end) as Hs.
    { destruct (strip_delim_fb_total raw C) as (w & Hw). destruct (strip_delim_fb_sound raw w C Hw) as [Cw Lw].
      exists w. split; [exact Hw|]. split; [exact Cw|]. rewrite Lw. destruct (fb_list raw) as [|f0 rest]; [reflexivity|].
      destruct (fempty f0); reflexivity. }
    destruct pt as [[| | |]|]; try exact Hs. eauto. }
  cbn [bind].
  destruct (router_transform_fb_ok id p Cp) as (w & Hw & Lw).
  { rewrite Lp. unfold router_process_incoming. destruct manual; [exact L|].
    assert (forall l : list frame, (length l <= 254)%nat ->
              (length (match l with f0 :: rest => if fempty f0 then rest else l | [] => l end) <= 254)%nat) as Hl.
    { intros l Hl. destruct l as [|f0 rest]; [exact Hl|]. destruct (fempty f0); [cbn [length] in Hl; lia | exact Hl]. }
    destruct pt as [[| | |]|]; try (apply Hl; exact L). exact L. }
  exists w. split; [exact Hw|]. rewrite Lw, Lp. reflexivity.
Qed.

(* ================================================================ REQ / REP recv(): only the first payload frame *)
Lemma rep_extract_fb_sound : forall (fs : list frame) found (pr pl : batch),
  (length (fb_list pr) + length (fb_list pl) + length fs <= 255)%nat ->
  exists found' pr' pl', rep_extract_fb fs found pr pl = Ok (found', pr', pl') /\
    (length (fb_list pr') + length (fb_list pl') = length (fb_list pr) + length (fb_list pl) + length fs)%nat /\
    (found = true -> found' = true /\ fb_list pr' = fb_list pr /\ fb_list pl' = fb_list pl ++ fs).
Proof.
  induction fs as [|f t IH]; intros found pr pl L; cbn [rep_extract_fb].
  - exists found, pr, pl. cbn [length]. split; [reflexivity|]. split; [lia|]. intros ->. rewrite app_nil_r. auto.
  - cbn [length] in L. destruct found.
    + destruct (fb_push_ok pl f) as (pl1 & -> & L1); [lia|]. cbn [bind].
      destruct (IH true pr pl1) as (f' & pr' & pl' & E & Hl & Hf); [rewrite L1, app_length; cbn [length]; lia|].
      exists f', pr', pl'. split; [exact E|]. rewrite L1, app_length in Hl. cbn [length] in *. split; [lia|].
      intros _. destruct (Hf eq_refl) as (-> & -> & ->). rewrite L1, <- app_assoc. auto.
    + destruct (fb_push_ok pr f) as (pr1 & -> & L1); [lia|]. cbn [bind].
      destruct (IH (fempty f) pr1 pl) as (f' & pr' & pl' & E & Hl & _); [rewrite L1, app_length; cbn [length]; lia|].
      exists f', pr', pl'. split; [exact E|]. rewrite L1, app_length in Hl. cbn [length] in *. split; [lia | discriminate].
Qed.

(* a request/reply whose payload has more than one frame: recv() hands out frame 1 WITH its MORE flag and
   the rest is gone (the next recv() of a REP is refused until it has replied; a REQ waits for the next reply) *)
Definition wit_multi_request : batch := FMany [(true, []); fr true 1; fr true 2; fr false 3].
Theorem reqrep_recv_truncates_refuted :
  rep_recv_fb wit_multi_request = Ok (fr true 1) /\
  (exists b, rep_recv_multipart_fb wit_multi_request = Ok b /\ fb_list b = [fr true 1; fr true 2; fr false 3]) /\
  req_recv_fb wit_multi_request = Ok (fr true 1) /\
  (exists b, req_recv_multipart_fb wit_multi_request = Ok b /\ fb_list b = [fr true 1; fr true 2; fr false 3]).
Proof. vm_compute. repeat split; eauto. Qed.
(* single-frame payloads (the only thing a REQ can send) come through whole *)
Theorem reqrep_recv_single (f : frame) :
  rep_recv_fb (FTwo (delim true) (no_more f)) = Ok (no_more f) /\
  req_recv_fb (FTwo (delim true) (no_more f)) = Ok (no_more f).
Proof. destruct f as [m d]. vm_compute. auto. Qed.

(* ================================================================ inproc accumulator *)
(* whole, flag-correct messages (what send_multipart of PUSH/PUB/DEALER/REP puts on the pipe) pass unchanged *)
Theorem inproc_whole_messages : forall (ms : list (list frame)),
  Forall (fun m => m <> [] /\ more_ok m /\ (length m <= 255)%nat) ms ->
  exists out, inproc_run fb_new ms = Ok (fb_new, out) /\ map fb_list out = ms.
Proof.
  induction ms as [|m t IH]; intros H.
  - exists []. auto.
  - inversion H as [|? ? (Hn & M & L) Ht]; subst. destruct (IH Ht) as (out & E & Lo).
    cbn [inproc_run]. unfold inproc_feed.
    destruct (fb_extend_ok m fb_new) as (acc & -> & La); [cbn; lia|]. cbn [bind fb_new fb_list app] in *.
    destruct (more_ok_split m Hn M) as (init & last & Em & _ & Hl).
    rewrite La, Em, rev_app_distr. change (List.rev [last] ++ List.rev init) with (last :: List.rev init). cbv iota. rewrite Hl. cbn [bind]. fold (@fb_new frame). rewrite E. cbn [bind].
    exists (acc :: out). split; [reflexivity|]. cbn [map]. rewrite La, Lo, Em. reflexivity.
Qed.
(* parts sent one by one with MORE: the 256th makes `accumulator.extend` panic inside the reader task *)
Theorem inproc_256_parts_panic :
  inproc_run fb_new (repeat [fr true 7] 256) = Panic.
Proof. vm_compute. reflexivity. Qed.
