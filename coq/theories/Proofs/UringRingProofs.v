From RZ Require Import Base.Prelude Model.UringPool Proofs.UringPoolProofs.

(* occurrences of a buffer number / buffer id in a list *)
Definition cnt (b : nat) (l : list nat) : nat := count_occ Nat.eq_dec l b.

Lemma cnt_app b l1 l2 : cnt b (l1 ++ l2) = cnt b l1 + cnt b l2.
Proof. apply count_occ_app. Qed.
Lemma cnt_cons b x l : cnt b (x :: l) = (if Nat.eqb x b then 1 else 0) + cnt b l.
Proof.
  unfold cnt. cbn. destruct (Nat.eq_dec x b) as [->|N].
  - rewrite Nat.eqb_refl. reflexivity.
  - apply Nat.eqb_neq in N. rewrite N. reflexivity.
Qed.
Lemma cnt_nil b : cnt b [] = 0. Proof. reflexivity. Qed.

Lemma cnt_remove1 b x l : memb x l = true ->
  cnt b (remove1 x l) + (if Nat.eqb x b then 1 else 0) = cnt b l.
Proof.
  induction l as [|h t IH]; [discriminate|]. intros H. cbn [remove1].
  destruct (Nat.eqb x h) eqn:E.
  - apply Nat.eqb_eq in E. subst. rewrite cnt_cons. lia.
  - unfold memb in H. cbn in H. rewrite E in H. cbn in H. rewrite !cnt_cons. specialize (IH H). lia.
Qed.

Lemma cnt_rev b l : cnt b (rev l) = cnt b l.
Proof. induction l as [|h t IH]; [reflexivity|]. cbn [rev]. rewrite cnt_app, !cnt_cons, cnt_nil, IH. lia. Qed.

Lemma cnt_seq b s n : cnt b (seq s n) = if (s <=? b) && (b <? s + n) then 1 else 0.
Proof.
  revert s. induction n as [|n IH]; intros s.
  - cbn [seq]. rewrite cnt_nil. destruct (Nat.leb_spec s b), (Nat.ltb_spec b (s + 0)); cbn [andb]; lia.
  - cbn [seq]. rewrite cnt_cons, IH.
    destruct (Nat.eqb_spec s b), (Nat.leb_spec s b), (Nat.leb_spec (S s) b), (Nat.ltb_spec b (S s + n)), (Nat.ltb_spec b (s + S n)); cbn; lia.
Qed.

Definition sbufs := slot_bufs.
Lemma sbufs_app l1 l2 : sbufs (l1 ++ l2) = sbufs l1 ++ sbufs l2.
Proof. unfold sbufs, slot_bufs. rewrite map_app, concat_app. reflexivity. Qed.

Lemma sbufs_cons_some x l : sbufs (Some x :: l) = x :: sbufs l.
Proof. reflexivity. Qed.

Lemma slot_get_split : forall l bid buf, slot_get l bid = Some buf ->
  exists l1 l2, l = l1 ++ Some buf :: l2 /\ forall v, set_nth l bid v = l1 ++ v :: l2.
Proof.
  induction l as [|h t IH]; intros [|bid] buf H; unfold slot_get in H; cbn in H; try discriminate.
  - destruct h as [b|]; [|discriminate]. inversion H; subst. exists [], t. split; [reflexivity|]. intros v. reflexivity.
  - destruct (IH bid buf) as (l1 & l2 & -> & Hs); [exact H|].
    exists (h :: l1), l2. split; [reflexivity|]. intros v. cbn. rewrite Hs. reflexivity.
Qed.

Lemma bp_acquire_cases free next :
  (exists fr nb, free = fr ++ [nb] /\ bp_acquire free next = (nb, fr, next)) \/
  (free = [] /\ bp_acquire free next = (next, [], S next)).
Proof.
  unfold bp_acquire. destruct (rev free) as [|b r] eqn:E.
  - right. assert (free = []) as -> by (rewrite <- (rev_involutive free), E; reflexivity). auto.
  - left. exists (rev r), b. split; [|reflexivity].
    rewrite <- (rev_involutive free), E. reflexivity.
Qed.

Definition all_some (l : list (option nat)) : Prop := Forall (fun x => x <> None) l.

Lemma all_some_set l bid nb : all_some l -> all_some (set_nth l bid (Some nb)).
Proof.
  unfold all_some. revert bid. induction l as [|h t IH]; intros [|bid] H; cbn; auto; inversion H; subst; constructor; auto; discriminate.
Qed.

(* every buffer that was ever allocated is in exactly one place *)
Definition buf_inv (r : ring) (g : rghost) : Prop :=
  forall b, cnt b (sbufs (r_slots r)) + cnt b (r_free r) + cnt b (g_out g) + cnt b (g_dead g) =
            if b <? r_next r then 1 else 0.

Definition ring_inv (n : nat) (r : ring) (g : rghost) : Prop :=
  length (r_slots r) = n /\ all_some (r_slots r) /\ buf_inv r g /\ length (r_free r) <= r_max r.

Lemma ring_step_inv n r g o : ring_inv n r g -> let '(r1, g1, _) := ring_step r g o in ring_inv n r1 g1.
Proof.
  intros (Hl & Hs & Hb & Hm). destruct o as [|bid filled|bid|b0]; cbn [ring_step].
  - (* kernel *)
    unfold ring_kernel. destruct (r_entries r); repeat split; assumption.
  - (* take *)
    unfold ring_take. destruct (r_cap r <? filled); [repeat split; assumption|].
    destruct (slot_get (r_slots r) bid) as [buf|] eqn:Eg; [|repeat split; assumption].
    destruct (slot_get_split _ _ _ Eg) as (l1 & l2 & El & Hset).
    destruct (bp_acquire_cases (r_free r) (r_next r)) as [(fr & nb & Ef & Ea)|(Ef & Ea)]; rewrite Ea.
    + repeat split; cbn [r_slots r_free r_next r_max g_out g_dead].
      * rewrite set_nth_length. exact Hl.
      * apply all_some_set. exact Hs.
      * intros b. cbn [r_slots r_free r_next r_max g_out g_dead]. specialize (Hb b). rewrite Hset. rewrite El, Ef in Hb.
        fold sbufs in *. rewrite !sbufs_app, !sbufs_cons_some in *.
        rewrite ?cnt_app, ?cnt_cons, ?cnt_app, ?cnt_cons, ?cnt_nil in *. lia.
      * rewrite Ef in Hm. rewrite app_length in Hm. cbn in Hm. lia.
    + repeat split; cbn [r_slots r_free r_next r_max g_out g_dead].
      * rewrite set_nth_length. exact Hl.
      * apply all_some_set. exact Hs.
      * intros b. cbn [r_slots r_free r_next r_max g_out g_dead]. pose proof (Hb b) as Hbb. pose proof (Hb (r_next r)) as Hnx.
        rewrite Nat.ltb_irrefl in Hnx.
        rewrite Hset. rewrite El, Ef in Hbb, Hnx.
        fold sbufs in *. rewrite !sbufs_app, !sbufs_cons_some in *.
        rewrite ?cnt_app, ?cnt_cons, ?cnt_app, ?cnt_cons, ?cnt_nil in *.
        destruct (Nat.eqb_spec (r_next r) b) as [<-|Hne].
        -- rewrite Nat.ltb_irrefl in Hbb. assert (r_next r <? S (r_next r) = true) as -> by (apply Nat.ltb_lt; lia).
           destruct (Nat.eqb buf (r_next r)); lia.
        -- destruct (Nat.ltb_spec b (r_next r)), (Nat.ltb_spec b (S (r_next r))); try lia.
      * cbn. lia.
  - (* reprovide *)
    unfold ring_reprovide. destruct (slot_get (r_slots r) bid); repeat split; assumption.
  - (* chunk drop *)
    destruct (memb b0 (g_out g)) eqn:Em; [|repeat split; assumption].
    unfold ring_chunk_drop. destruct (length (r_free r) <? r_max r) eqn:Ec.
    + apply Nat.ltb_lt in Ec. repeat split; cbn [r_slots r_free r_next r_max g_out g_dead]; try assumption.
      * intros b. cbn [r_slots r_free r_next r_max g_out g_dead]. specialize (Hb b). pose proof (cnt_remove1 b b0 _ Em).
        rewrite cnt_app, cnt_cons, cnt_nil. lia.
      * rewrite app_length. cbn. lia.
    + repeat split; cbn [r_slots r_free r_next r_max g_out g_dead]; try assumption.
      intros b. cbn [r_slots r_free r_next r_max g_out g_dead]. specialize (Hb b). pose proof (cnt_remove1 b b0 _ Em). rewrite cnt_cons. lia.
Qed.

Lemma ring_run_inv n : forall os r g, ring_inv n r g -> let '(r1, g1) := ring_run r g os in ring_inv n r1 g1.
Proof.
  induction os as [|o os IH]; intros r g H; [exact H|].
  cbn [ring_run]. pose proof (ring_step_inv n r g o H) as H1.
  destruct (ring_step r g o) as [[r1 g1] res]. apply IH. exact H1.
Qed.

Lemma sbufs_map_some l : sbufs (map Some l) = l.
Proof. induction l as [|h t IH]; [reflexivity|]. unfold sbufs, slot_bufs in *. cbn. rewrite IH. reflexivity. Qed.

Definition g0 : rghost := {| g_out := []; g_dead := [] |}.

Lemma ring_new_inv requested cap r0 : ring_new requested cap = Some r0 ->
  ring_inv (length (r_slots r0)) r0 g0.
Proof.
  unfold ring_new. destruct requested; [discriminate|]. destruct cap; [discriminate|].
  intros H. inversion H; subst; clear H. generalize (next_pow2 (S requested)). intros n.
  cbn [r_slots r_free r_next r_max].
  repeat split.
  - unfold all_some. apply Forall_forall. intros x Hx. apply in_map_iff in Hx. destruct Hx as (y & <- & _). discriminate.
  - intros b. cbn [r_slots r_free r_next g_out g_dead g0]. rewrite sbufs_map_some, cnt_seq, !cnt_nil.
    cbn [Nat.leb andb]. rewrite Nat.add_0_l. destruct (b <? _); lia.
  - cbn [r_free r_max length]. lia.
Qed.

(* kernel view, for disciplined histories: every buffer id is either published in the ring or
   reported in a completion that the worker has not processed yet - never both, never twice *)
Definition kern_inv (n : nat) (r : ring) : Prop :=
  forall bid, cnt bid (r_entries r) + cnt bid (r_cq r) = if bid <? n then 1 else 0.

Lemma kern_step n r g o :
  kern_inv n r ->
  (match o with RTake bid _ | RReprovide bid => memb bid (r_cq r) | _ => true end) = true ->
  let '(r1, _, _) := ring_step r g o in kern_inv n r1.
Proof.
  intros Hk Hd. destruct o as [|bid filled|bid|b0]; cbn [ring_step].
  - unfold ring_kernel. destruct (r_entries r) as [|e rest] eqn:Ee; [exact Hk|].
    intros b. specialize (Hk b). rewrite Ee in Hk. cbn [r_entries r_cq].
    rewrite cnt_app, !cnt_cons, cnt_nil in *. lia.
  - unfold ring_take. destruct (r_cap r <? filled); [exact Hk|].
    destruct (slot_get (r_slots r) bid); [|exact Hk].
    destruct (bp_acquire (r_free r) (r_next r)) as [[nb fr] nx].
    intros b. specialize (Hk b). cbn [r_entries r_cq]. pose proof (cnt_remove1 b bid _ Hd).
    rewrite cnt_app, cnt_cons, cnt_nil. lia.
  - unfold ring_reprovide. destruct (slot_get (r_slots r) bid); [|exact Hk].
    intros b. specialize (Hk b). cbn [r_entries r_cq]. pose proof (cnt_remove1 b bid _ Hd).
    rewrite cnt_app, cnt_cons, cnt_nil. lia.
  - destruct (memb b0 (g_out g)); [|exact Hk].
    unfold ring_chunk_drop. destruct (_ <? _); exact Hk.
Qed.

Lemma kern_run n : forall os r g, kern_inv n r -> ring_disciplined r g os = true ->
  kern_inv n (fst (ring_run r g os)).
Proof.
  induction os as [|o os IH]; intros r g Hk Hd; [exact Hk|].
  cbn [ring_run ring_disciplined] in *.
  assert (Hd1 : (match o with RTake bid _ | RReprovide bid => memb bid (r_cq r) | _ => true end) = true).
  { destruct (ring_step r g o) as [[r1 g1] res]. apply andb_true_iff in Hd. tauto. }
  pose proof (kern_step n r g o Hk Hd1) as H1.
  destruct (ring_step r g o) as [[r1 g1] res]. apply andb_true_iff in Hd. destruct Hd as [_ Hd].
  apply IH; assumption.
Qed.

Theorem ring_conservation_thm : forall requested cap r0 os,
  ring_new requested cap = Some r0 ->
  let n := length (r_slots r0) in
  let '(r, g) := ring_run r0 g0 os in
  (* whatever the order: every slot is always lent to the kernel, every buffer is in one place *)
  length (r_slots r) = n /\ Forall (fun x => x <> None) (r_slots r) /\
  (forall b, cnt b (slot_bufs (r_slots r)) + cnt b (r_free r) + cnt b (g_out g) + cnt b (g_dead g) =
             if b <? r_next r then 1 else 0) /\
  length (r_free r) <= r_max r /\
  (* for the worker's discipline (take / reprovide only what a completion reported): every buffer id
     is published or reported, exactly once - the ring is never over- or under-provided *)
  (ring_disciplined r0 g0 os = true ->
   forall bid, cnt bid (r_entries r) + cnt bid (r_cq r) = if bid <? n then 1 else 0).
Proof.
  intros requested cap r0 os Hn n.
  pose proof (ring_run_inv n os r0 g0 (ring_new_inv _ _ _ Hn)) as H.
  pose proof (kern_run n os r0 g0) as K.
  destruct (ring_run r0 g0 os) as [r g]. destruct H as (H1 & H2 & H3 & H4).
  repeat split; try assumption.
  intros Hd. cbn [fst] in K. apply K; [|exact Hd].
  revert Hn. unfold ring_new. destruct requested; [discriminate|]. destruct cap; [discriminate|].
  intros Hn. inversion Hn; subst; clear Hn. intros bid. subst n. clear K H1 H2 H3 H4.
  generalize (next_pow2 (S requested)). intros n. cbn [r_entries r_cq r_slots].
  rewrite map_length, seq_length, cnt_seq, cnt_nil. cbn [Nat.leb andb]. rewrite Nat.add_0_l.
  destruct (bid <? _); lia.
Qed.

(* when all received Bytes have been dropped and all completions processed, the ring is whole *)
Theorem ring_refills_thm : forall requested cap r0 os,
  ring_new requested cap = Some r0 -> ring_disciplined r0 g0 os = true ->
  let '(r, g) := ring_run r0 g0 os in
  r_cq r = [] -> forall bid, cnt bid (r_entries r) = if bid <? length (r_slots r0) then 1 else 0.
Proof.
  intros requested cap r0 os Hn Hd. pose proof (ring_conservation_thm requested cap r0 os Hn) as H.
  cbn zeta in H. destruct (ring_run r0 g0 os) as [r g]. destruct H as (_ & _ & _ & _ & K).
  intros Hc bid. specialize (K Hd bid). rewrite Hc, cnt_nil in K. lia.
Qed.

(* outside the discipline: a `take` for a buffer id that no completion reported succeeds (the slot is
   always occupied) and publishes the id a second time *)
Theorem ring_take_unreported_refuted_thm :
  exists r0, ring_new 2 8 = Some r0 /\
  ring_disciplined r0 g0 [RTake 0 1] = false /\
  r_entries (fst (ring_run r0 g0 [RTake 0 1])) = [0; 1; 0].
Proof. eexists. split; [reflexivity|]. vm_compute. split; reflexivity. Qed.

(* ------------------------------------------------------------------ fd table *)

Definition fd_inv (s : fdst) : Prop :=
  f_closed s <= f_close_sqes s /\ f_closed s <= 1 /\
  (f_present s = false <-> f_closed s = 1) /\
  (f_closing s = false -> f_close_sqes s = 0 /\ f_deadline s = false).

Lemma fd_fresh_inv : fd_inv fd_fresh.
Proof. unfold fd_inv, fd_fresh. cbn. repeat split; try lia; try discriminate; auto. Qed.

Ltac fd_crush :=
  unfold fd_step, fd_close_initiated, fd_set, fd_inv, fev_unguarded in *;
  cbn [f_closing f_deadline f_close_sqes f_closed f_present negb andb] in *;
  repeat match goal with
         | |- context [?a <? ?b] => destruct (Nat.ltb_spec a b)
         | H : context [?a <? ?b] |- _ => destruct (Nat.ltb_spec a b)
         end;
  cbn [f_closing f_deadline f_close_sqes f_closed f_present negb andb] in *;
  repeat split; intros; try discriminate; try congruence; try lia;
  repeat match goal with
         | H : ?x = ?x -> _ |- _ => specialize (H eq_refl)
         | H : _ /\ _ |- _ => destruct H
         | H : _ <-> _ |- _ => destruct H
         end; try discriminate; try congruence; try lia; auto.

Lemma fd_step_inv s e : fd_inv s -> fd_inv (fd_step s e).
Proof.
  destruct s as [p c d q k]. destruct p, c, d; destruct e as [| | | | | |[|]| |[|]]; intros H; fd_crush.
Qed.

Lemma fd_run_inv : forall es s, fd_inv s -> fd_inv (fd_run s es).
Proof. induction es as [|e es IH]; intros s H; [exact H|]. cbn. apply IH. apply fd_step_inv. exact H. Qed.

(* a read / setsockopt completion that the handler still processes after it has been marked closing *)
Fixpoint fd_late (s : fdst) (es : list fev) : nat :=
  match es with
  | [] => 0
  | e :: rest =>
      (if f_present s && f_closing s && fev_unguarded e then 1 else 0) + fd_late (fd_step s e) rest
  end.
Fixpoint fd_delayed (es : list fev) : bool :=
  match es with
  | [] => false
  | FSchedClose true :: _ => true
  | _ :: rest => fd_delayed rest
  end.

Definition fd_budget (s : fdst) : nat := if f_closing s then f_close_sqes s else 1.

Lemma fd_step_budget s e : fd_inv s -> f_deadline s = false -> e <> FSchedClose true ->
  fd_budget (fd_step s e) <= fd_budget s + (if f_present s && f_closing s && fev_unguarded e then 1 else 0) /\
  f_deadline (fd_step s e) = false.
Proof.
  destruct s as [p c d q k]. unfold fd_budget.
  destruct p, c, d; destruct e as [| | | | | |[|]| |[|]]; intros H Hd Hn; try congruence; fd_crush.
Qed.

Lemma fd_sqes_bound : forall es s, fd_inv s -> fd_delayed es = false -> f_deadline s = false ->
  fd_budget (fd_run s es) <= fd_budget s + fd_late s es.
Proof.
  induction es as [|e es IH]; intros s Hi Hd Hdl; [cbn; lia|].
  cbn [fd_run fd_late].
  assert (Hd' : fd_delayed es = false) by (destruct e as [| | | | | |[|]| |]; cbn in Hd; try discriminate; exact Hd).
  assert (Hnd : e <> FSchedClose true) by (intros ->; cbn in Hd; discriminate).
  destruct (fd_step_budget s e Hi Hdl Hnd) as [Hb Hd1].
  specialize (IH _ (fd_step_inv s e Hi) Hd' Hd1). lia.
Qed.

(* closed at most once; exactly one Close SQE unless a late read/setsockopt completion is processed *)
Theorem fd_closed_once_thm : forall es,
  fd_delayed es = false ->
  let s := fd_run fd_fresh es in
  f_closed s <= 1 /\ f_closed s <= f_close_sqes s /\
  f_close_sqes s <= 1 + fd_late fd_fresh es /\
  (f_present s = false -> f_closed s = 1).
Proof.
  intros es Hd s. pose proof (fd_run_inv es fd_fresh fd_fresh_inv) as (H1 & H2 & H3 & H4).
  pose proof (fd_sqes_bound es fd_fresh fd_fresh_inv Hd eq_refl) as Hb.
  fold s in H1, H2, H3, H4, Hb. unfold fd_budget in Hb. cbn [fd_fresh f_closing] in Hb.
  repeat split; try assumption; [|apply H3].
  destruct (f_closing s) eqn:Ec; [exact Hb|]. destruct (H4 eq_refl). lia.
Qed.

(* ... which the code allows: no guard on the EOF / failed-completion paths *)
Theorem fd_double_close_refuted_thm :
  f_close_sqes (fd_run fd_fresh [FPipeClosed; FEof]) = 2 /\
  f_close_sqes (fd_run fd_fresh [FReaderErr; FIoErr]) = 2 /\
  fd_late fd_fresh [FPipeClosed; FEof] = 1.
Proof. vm_compute. repeat split. Qed.

(* a protocol error on a live handler submits exactly one Close (close_initiated is not pre-empted any more) *)
Theorem fd_peer_error_closes_thm s :
  f_present s = true -> f_closing s = false ->
  f_close_sqes (fd_step s FPeerErr) = S (f_close_sqes s) /\ f_closing (fd_step s FPeerErr) = true.
Proof. destruct s as [p c d q k]. cbn. intros -> ->. cbn. split; reflexivity. Qed.

(* the failure class of the old code is still expressible: a handler that is marked closing with no Close
   submitted and no deadline stays open for ever unless a read / setsockopt completion arrives *)
Fixpoint no_unguarded (es : list fev) : bool :=
  match es with [] => true | e :: rest => negb (fev_unguarded e) && no_unguarded rest end.

Lemma fd_stuck_step s e : f_present s = true -> f_closing s = true -> f_deadline s = false -> f_close_sqes s = 0 ->
  fev_unguarded e = false -> e <> FSchedClose true -> fd_step s e = s.
Proof.
  destruct s as [p c d q k]. cbn [f_present f_closing f_deadline f_close_sqes]. intros -> -> -> -> Hu Hn.
  destruct e as [| | | | | |[|]| |[|]]; cbn in Hu; try discriminate; try congruence; try reflexivity.
Qed.

Lemma fd_stuck : forall es s, f_present s = true -> f_closing s = true -> f_deadline s = false -> f_close_sqes s = 0 ->
  no_unguarded es = true -> fd_delayed es = false ->
  f_close_sqes (fd_run s es) = 0 /\ f_present (fd_run s es) = true.
Proof.
  induction es as [|e es IH]; intros s Hp Hc Hd Hz Hn Hdl; [cbn; auto|].
  cbn [fd_run]. cbn [no_unguarded] in Hn. apply andb_true_iff in Hn. destruct Hn as [Hu Hn].
  apply negb_true_iff in Hu.
  assert (Hdl' : fd_delayed es = false) by (destruct e as [| | | | | |[|]| |]; cbn in Hdl; try discriminate; exact Hdl).
  assert (Hnd : e <> FSchedClose true) by (intros ->; cbn in Hdl; discriminate).
  rewrite (fd_stuck_step s e Hp Hc Hd Hz Hu Hnd). apply IH; assumption.
Qed.
