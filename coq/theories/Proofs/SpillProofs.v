From RZ Require Import Base.Prelude Model.Spill.

Section SpillProofs.
Context {A : Type}.
Implicit Types (s : spill A) (m : A) (q : list A).

Lemma drain_loop_conserves : forall q rs,
  forallb res_open rs = true ->
  let '(q2, _, e) := drain_loop q rs in e ++ q2 = q.
Proof.
  induction q as [|m q IH]; intros rs Hrs; [reflexivity|].
  cbn [drain_loop]. destruct rs as [|[| |] rs']; cbn [forallb res_open] in Hrs; try reflexivity; try discriminate.
  specialize (IH rs' Hrs). destruct (drain_loop q rs') as [[q2 t] e]. cbn. rewrite IH. reflexivity.
Qed.

Definition ev_msgs (e : sev A) : list A := match e with SDeliver m _ => [m] | _ => [] end.

Lemma sp_delivered_cons e es : sp_delivered (e :: es) = ev_msgs e ++ sp_delivered es.
Proof. destruct e; reflexivity. Qed.

(* one event: what left towards the socket, followed by what is still stashed, is what was
   stashed before followed by what the engine just delivered *)
Lemma sp_throttle_q s d : s_q (fst (sp_throttle s d)) = s_q s.
Proof.
  unfold sp_throttle. destruct (s_closing s); [reflexivity|].
  destruct (s_q s) eqn:Eq; [|cbn; exact Eq]. destruct (s_thr s); [|cbn; exact Eq].
  destruct (s_attached s && d); cbn; rewrite ?Eq; reflexivity.
Qed.
Lemma sp_throttle_closing s d : s_closing (fst (sp_throttle s d)) = s_closing s.
Proof.
  unfold sp_throttle. destruct (s_closing s) eqn:E; [cbn; exact E|].
  destruct (s_q s); [|cbn; exact E]. destruct (s_thr s); [|cbn; exact E].
  destruct (s_attached s && d); cbn; exact E.
Qed.
Lemma sp_drain_closing s rs : s_closing (fst (sp_drain s rs)) = s_closing s.
Proof.
  unfold sp_drain. destruct (s_q s); [reflexivity|]. destruct (s_attached s); [|reflexivity].
  destruct (drain_loop _ _) as [[? ?] ?]. reflexivity.
Qed.

Lemma sp_step_conserves s e : ev_open e = true ->
  snd (sp_step s e) ++ s_q (fst (sp_step s e)) = s_q s ++ ev_msgs e.
Proof.
  intros Ho. destruct e as [m r| | |rs dd|d|]; cbn [sp_step ev_msgs].
  - unfold sp_deliver. destruct (s_attached s); [|cbn; reflexivity].
    destruct (s_q s) as [|x q] eqn:Eq; [|cbn; reflexivity].
    destruct r; cbn in Ho |- *; try reflexivity; discriminate.
  - cbn. rewrite app_nil_r. reflexivity.
  - cbn. rewrite app_nil_r. reflexivity.
  - rewrite app_nil_r. unfold sp_prepare. destruct (s_closing s && negb (s_deadline s)); [reflexivity|].
    cbn [ev_open] in Ho.
    assert (Hd : snd (sp_drain s rs) ++ s_q (fst (sp_drain s rs)) = s_q s).
    { unfold sp_drain. destruct (s_q s) as [|x q] eqn:Eq; [cbn; exact Eq|].
      destruct (s_attached s); [|cbn; exact Eq].
      pose proof (drain_loop_conserves (x :: q) rs Ho) as H.
      destruct (drain_loop (x :: q) rs) as [[q2 t] em]. cbn. exact H. }
    destruct (sp_drain s rs) as [s1 o]. cbn [fst snd] in *.
    destruct (s_closing s1); [exact Hd|]. rewrite sp_throttle_q. exact Hd.
  - rewrite app_nil_r. cbn [fst snd app]. unfold sp_throttle. destruct (s_closing s); [reflexivity|].
    destruct (s_q s) eqn:Eq; [|cbn; exact Eq].
    destruct (s_thr s); [|cbn; exact Eq].
    destruct (s_attached s && d); cbn; rewrite ?Eq; reflexivity.
  - cbn. rewrite app_nil_r. reflexivity.
Qed.

Lemma sp_run_conserves : forall (es : list (sev A)) s, forallb ev_open es = true ->
  snd (sp_run s es) ++ s_q (fst (sp_run s es)) = s_q s ++ sp_delivered es.
Proof.
  induction es as [|e es IH]; intros s Ho.
  - cbn. rewrite app_nil_r. reflexivity.
  - cbn [forallb] in Ho. apply andb_true_iff in Ho. destruct Ho as [He Hes].
    cbn [sp_run]. pose proof (sp_step_conserves s e He) as H1.
    destruct (sp_step s e) as [s1 o1]. cbn [fst snd] in H1.
    specialize (IH s1 Hes). destruct (sp_run s1 es) as [s2 o2]. cbn [fst snd] in *.
    rewrite sp_delivered_cons, <- app_assoc, IH, app_assoc, H1, <- app_assoc. reflexivity.
Qed.

(* spill_fifo *)
Theorem spill_fifo_thm : forall es : list (sev A), forallb ev_open es = true ->
  snd (sp_run sp_init es) ++ s_q (fst (sp_run sp_init es)) = sp_delivered es.
Proof. intros es H. apply (sp_run_conserves es sp_init H). Qed.

Lemma sp_run_app : forall (es1 es2 : list (sev A)) s,
  sp_run s (es1 ++ es2) =
  let '(s1, o1) := sp_run s es1 in let '(s2, o2) := sp_run s1 es2 in (s2, o1 ++ o2).
Proof.
  induction es1 as [|e es1 IH]; intros es2 s.
  - cbn. destruct (sp_run s es2). reflexivity.
  - cbn [app sp_run]. destruct (sp_step s e) as [s1 o1]. rewrite IH.
    destruct (sp_run s1 es1) as [s2 o2]. destruct (sp_run s2 es2) as [s3 o3].
    rewrite app_assoc. reflexivity.
Qed.

Lemma drain_loop_all_ok : forall q n, (length q <= n)%nat ->
  drain_loop q (repeat TOk n) = ([], Some false, q).
Proof.
  induction q as [|m q IH]; intros n Hn; [reflexivity|].
  destruct n as [|n]; [cbn in Hn; lia|]. cbn [repeat drain_loop].
  rewrite IH by (cbn in Hn; lia). reflexivity.
Qed.

(* drain on resume: once attached and not closing, a pipe with enough room takes the whole stash, in order *)
Theorem spill_flush_thm : forall s n d,
  s_attached s = true -> s_closing s && negb (s_deadline s) = false -> (length (s_q s) <= n)%nat ->
  snd (sp_prepare s (repeat TOk n) d) = s_q s /\ s_q (fst (sp_prepare s (repeat TOk n) d)) = [] /\
  (s_q s <> [] -> s_thr (fst (sp_prepare s (repeat TOk n) d)) = false).
Proof.
  intros s n d Ha Hc Hn. unfold sp_prepare. rewrite Hc.
  assert (Hd : snd (sp_drain s (repeat TOk n)) = s_q s /\ s_q (fst (sp_drain s (repeat TOk n))) = [] /\
               (s_q s <> [] -> s_thr (fst (sp_drain s (repeat TOk n))) = false)).
  { unfold sp_drain. destruct (s_q s) as [|x q] eqn:Eq.
    - cbn. rewrite Eq. repeat split; congruence.
    - rewrite Ha, drain_loop_all_ok by exact Hn. cbn. repeat split; reflexivity. }
  destruct (sp_drain s (repeat TOk n)) as [s1 o]. cbn [fst snd] in *. destruct Hd as (D1 & D2 & D3).
  destruct (s_closing s1); [repeat split; assumption|].
  split; [exact D1|]. split; [rewrite sp_throttle_q; exact D2|].
  intros Hne. specialize (D3 Hne). unfold sp_throttle. destruct (s_closing s1); [exact D3|].
  rewrite D2, D3. exact D3.
Qed.

Lemma sp_step_closing s e : ev_not_eof e = true -> s_closing (fst (sp_step s e)) = s_closing s.
Proof.
  destruct e as [m r| | |rs dd|d|]; cbn [ev_not_eof sp_step fst]; try reflexivity; try discriminate; intros _.
  - unfold sp_deliver. destruct (s_attached s); [|reflexivity].
    destruct (s_q s); [destruct r|]; reflexivity.
  - unfold sp_prepare. destruct (s_closing s && negb (s_deadline s)); [reflexivity|].
    pose proof (sp_drain_closing s rs) as Hd. destruct (sp_drain s rs) as [s1 o]. cbn [fst] in *.
    destruct (s_closing s1) eqn:E1; [congruence|]. rewrite sp_throttle_closing. congruence.
  - unfold sp_throttle. destruct (s_closing s) eqn:E; [cbn; exact E|].
    destruct (s_q s); [|cbn; exact E]. destruct (s_thr s); [|cbn; exact E].
    destruct (s_attached s && d); cbn; exact E.
Qed.

Lemma sp_run_closing : forall (es : list (sev A)) s, forallb ev_not_eof es = true ->
  s_closing (fst (sp_run s es)) = s_closing s.
Proof.
  induction es as [|e es IH]; intros s H; [reflexivity|].
  cbn [forallb] in H. apply andb_true_iff in H. destruct H as [He Hes].
  cbn [sp_run]. pose proof (sp_step_closing s e He) as H1. destruct (sp_step s e) as [s1 o1].
  specialize (IH s1 Hes). destruct (sp_run s1 es) as [s2 o2]. cbn [fst] in *. congruence.
Qed.

(* nothing lost, nothing duplicated, order kept - and everything arrives once the socket has
   attached its pipe and made room, provided the connection has not been marked closing *)
Theorem spill_complete_thm : forall (es : list (sev A)) n d,
  forallb ev_open es = true -> forallb ev_not_eof es = true ->
  (length (s_q (fst (sp_run sp_init es))) <= n)%nat ->
  snd (sp_run sp_init (es ++ [SAttach; SPrepare (repeat TOk n) d])) = sp_delivered es /\
  s_q (fst (sp_run sp_init (es ++ [SAttach; SPrepare (repeat TOk n) d]))) = [].
Proof.
  intros es n d Ho He Hn. rewrite sp_run_app.
  pose proof (spill_fifo_thm es Ho) as Hf. pose proof (sp_run_closing es sp_init He) as Hc.
  destruct (sp_run sp_init es) as [s1 o1]. cbn [fst snd] in *.
  cbn [sp_run sp_step].
  set (s2 := {| s_attached := true; s_q := s_q s1; s_thr := false; s_closing := s_closing s1;
                s_deadline := s_deadline s1; s_errclose := s_errclose s1 |}).
  destruct (spill_flush_thm s2 n d eq_refl) as (H1 & H2 & _).
  - cbn. rewrite Hc. reflexivity.
  - exact Hn.
  - destruct (sp_prepare s2 (repeat TOk n) d) as [s3 o3]. cbn [fst snd] in *.
    subst o3. cbn [s2 s_q] in *. rewrite !app_nil_r. split; [exact Hf | exact H2].
Qed.

(* reads stay throttled for as long as anything is stashed *)
Theorem spill_throttled_while_stashed_thm : forall s d, s_q s <> [] -> snd (sp_throttle s d) = true.
Proof.
  intros s d H. unfold sp_throttle. destruct (s_closing s); [reflexivity|].
  destruct (s_q s); [congruence|reflexivity].
Qed.

End SpillProofs.

(* a stash that exists when the handler becomes closing (peer EOF seen by an armed multishot
   receive, or a protocol error) is never drained: prepare_sqes returns before the drain *)
Theorem spill_eof_strands_refuted_thm :
  exists es : list (sev nat),
    forallb ev_open es = true /\
    snd (sp_run sp_init (es ++ [SAttach; SPrepare (repeat TOk 8) true; SPrepare (repeat TOk 8) true])) = [] /\
    sp_delivered es = [7; 8].
Proof. exists [SDeliver 7 TOk; SDeliver 8 TOk; SEof]. vm_compute. repeat split. Qed.

(* the LIFO mutant of the stash is caught by the FIFO theorem's statement *)
Theorem spill_lifo_mutant_differs :
  let s := fst (sp_deliver_lifo (fst (sp_deliver_lifo (@sp_init nat) 1 TOk)) 2 TOk) in
  snd (sp_step (fst (sp_step s SAttach)) (SPrepare [TOk; TOk] true)) = [2; 1].
Proof. vm_compute. reflexivity. Qed.
