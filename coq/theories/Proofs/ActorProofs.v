From RZ Require Import Base.Prelude Base.Stepper Model.Codec Proofs.CodecProofs Model.Engine Proofs.EngineProofs Model.Actor.
Local Open Scope N_scope.

Lemma deliveries_app a b : deliveries (a ++ b) = deliveries a ++ deliveries b.
Proof. unfold deliveries. rewrite map_app, concat_app. reflexivity. Qed.

(* Once an error has been emitted the engine is Closed and emits nothing more. *)
Lemma estep_closed cfg st b : e_phase st = PClosed -> estep cfg st b = Need.
Proof. intros H. unfold estep. rewrite H. reflexivity. Qed.

Lemma e_net_closed cfg g d t : e_phase (g_st g) = PClosed ->
  snd (e_net cfg g d t) = [] /\ e_phase (g_st (fst (e_net cfg g d t))) = PClosed.
Proof.
  intros H. unfold e_net.
  rewrite (sk_Run_pump (engine_ok cfg) (g_st g) (g_acc g ++ d) (g_st g) (g_acc g ++ d) []).
  - cbn. auto.
  - apply RunNeed. apply estep_closed. exact H.
Qed.

(* any step that emits OErr or OPanic closes the engine *)
Lemma estep_err_closes cfg st b st' n o :
  estep cfg st b = Step st' n o -> has_err o = true -> e_phase st' = PClosed.
Proof.
  unfold estep. destruct (e_phase st); try discriminate.
  - destruct (negb (e_rev_sent st)).
    + destruct (length b <? 10)%nat; [discriminate|]. destruct (_ && _); intros; inv_step; auto; discriminate.
    + destruct (e_version st) as [[|]|]; try discriminate.
      * destruct (length b <? 64)%nat; [discriminate|].
        destruct (greeting_decode _) as [[fld ?]|]; [|intros; inv_step; auto].
        destruct (negotiate cfg fld); [|intros; inv_step; auto].
        destruct (mech_complete _); [destruct (c_server cfg)|]; intros; inv_step; discriminate.
      * destruct (length b <? 11)%nat; [discriminate|].
        destruct (3 <=? nth 10 b 0); [intros; inv_step; discriminate|].
        destruct (nth 10 b 0 =? 1); [|intros; inv_step; auto].
        destruct (negb (c_allow_v2 cfg)); [intros; inv_step; auto|].
        destruct (c_sec_enabled cfg); [intros; inv_step; auto|].
        destruct (length b <? 12)%nat; [discriminate|].
        destruct (negb (v2_compat _ _)); [intros; inv_step; auto|].
        destruct (stype_code _); intros; inv_step; auto; discriminate.
  - destruct (m_produce cfg (e_mech st)) as [m' [ | tok | ]]; try (intros; inv_step; discriminate).
    destruct (mech_complete (e_mech st)); [destruct (c_server cfg); intros; inv_step; discriminate|].
    destruct (dec_buffer (c_maxsz cfg) b) as [| | |f k]; try discriminate; try (intros; inv_step; auto).
    destruct (m_process cfg (e_mech st) (f_payload f)) as [m'' [e|]]; [intros; inv_step; auto|].
    destruct (mech_is_error m''); intros; inv_step; auto; discriminate.
  - destruct (dec_buffer (c_maxsz cfg) b) as [| | |f k]; try discriminate; try (intros; inv_step; auto).
    destruct (parse_cmd f); try destruct (ready_incompatible _ _); try (intros; inv_step; auto; fail).
    intros H Herr; inv_step. exfalso. revert Herr. unfold has_err, cork_out.
    destruct (c_server cfg); destruct (_ && _); cbn; discriminate.
  - destruct (negb (e_v2_sent st)); try (intros; inv_step; discriminate).
    destruct (dec_buffer (c_maxsz cfg) b) as [| | |f k]; try discriminate; try (intros; inv_step; auto).
    destruct (f_cmd f || f_more f); [intros; inv_step; auto|].
    destruct (255 <? length (f_payload f))%nat; [intros; inv_step; auto|].
    intros H Herr; inv_step. exfalso. revert Herr. unfold has_err, cork_out.
    destruct (_ && _); cbn; discriminate.
  - destruct (dec_buffer (c_maxsz cfg) b) as [| | |f k]; try discriminate; try (intros; inv_step; auto).
    destruct (f_cmd f).
    + destruct (e_version st) as [[|]|]; try (intros; inv_step; auto; fail);
        destruct (parse_cmd f); try destruct (ready_incompatible _ _); intros; inv_step; auto; discriminate.
    + destruct (MAX_FRAMES <=? length (e_partial st))%nat; [intros; inv_step; auto|].
      destruct (f_more f); intros; inv_step; discriminate.
Qed.

Lemma has_err_app a b : has_err (a ++ b) = has_err a || has_err b.
Proof. unfold has_err. apply existsb_app. Qed.

Lemma Run_err_closed cfg st b st' r o :
  Run (estep cfg) st b st' r o -> has_err o = true -> e_phase st' = PClosed.
Proof.
  induction 1 as [s b0 Hn | s b0 s1 n o1 s2 r0 o2 Hs HR IH]; [discriminate|].
  rewrite has_err_app. intros H. apply orb_true_iff in H. destruct H as [H|H]; [|auto].
  pose proof (estep_err_closes _ _ _ _ _ _ Hs H) as Hc.
  inversion HR; subst; auto.
  rewrite estep_closed in * by exact Hc. discriminate.
Qed.

Lemma has_err_visible o : has_err (visible o) = has_err o.
Proof. induction o as [|x o IH]; [reflexivity|]. destruct x; cbn; auto. Qed.
Lemma deliveries_cons x o :
  deliveries (x :: o) = (match x with ODeliver m => [m] | _ => [] end) ++ deliveries o.
Proof. reflexivity. Qed.
Lemma deliveries_visible o : deliveries (visible o) = deliveries o.
Proof.
  unfold visible. induction o as [|x o IH]; [reflexivity|].
  destruct x; cbn [filter]; rewrite ?deliveries_cons, ?IH; reflexivity.
Qed.

Lemma e_net_err_closed cfg g d t :
  has_err (snd (e_net cfg g d t)) = true -> e_phase (g_st (fst (e_net cfg g d t))) = PClosed.
Proof.
  unfold e_net.
  pose proof (sk_pump_Run (engine_ok cfg) (g_st g) (g_acc g ++ d)) as HR.
  destruct (pump (estep cfg) emu EMU_MAX (g_st g) (g_acc g ++ d)) as [[st' r] o].
  cbn [fst snd g_st]. rewrite has_err_visible. eapply Run_err_closed; eauto.
Qed.

(* what the actor has queued for the application = the deliveries in the engine's outputs *)
Lemma a_reads_ingress cfg : forall cs a,
  a_fatal a = false \/ e_phase (g_st (a_eng a)) = PClosed ->
  let '(g', o) := nets cfg (a_eng a) cs in
  a_ingress (a_reads true cfg a cs) = a_ingress a ++ deliveries o.
Proof.
  induction cs as [|[d t] cs IH]; intros a Hf.
  - cbn. rewrite app_nil_r. reflexivity.
  - cbn [nets a_reads].
    destruct (a_fatal a) eqn:Ef.
    + (* fatal: engine is closed, nothing is emitted any more *)
      destruct Hf as [Hf|Hc]; [discriminate|].
      unfold a_read at 1. rewrite Ef.
      destruct (e_net_closed cfg (a_eng a) d t Hc) as [Ho Hp].
      destruct (e_net cfg (a_eng a) d t) as [g1 o1]. cbn [fst snd] in *. subst o1.
      specialize (IH a (or_intror Hc)).
      assert (forall cs g, e_phase (g_st g) = PClosed -> deliveries (snd (nets cfg g cs)) = []) as Hnone.
      { clear. induction cs as [|[d t] cs IH]; intros g Hc; [reflexivity|].
        cbn [nets]. destruct (e_net_closed cfg g d t Hc) as [Ho Hp].
        destruct (e_net cfg g d t) as [g1 o1]. cbn [fst snd] in *. subst.
        specialize (IH g1 Hp). destruct (nets cfg g1 cs). cbn [snd] in *. exact IH. }
      pose proof (Hnone cs g1 Hp) as H1. pose proof (Hnone cs (a_eng a) Hc) as H2.
      destruct (nets cfg g1 cs) as [g2 o2]. destruct (nets cfg (a_eng a) cs) as [g3 o3].
      cbn [snd app] in *. rewrite IH, H1, H2. reflexivity.
    + unfold a_read at 1. rewrite Ef.
      pose proof (e_net_err_closed cfg (a_eng a) d t) as Hcl.
      destruct (e_net cfg (a_eng a) d t) as [g1 o1]. cbn [fst snd] in Hcl.
      rewrite andb_false_r.
      match goal with |- context [a_reads true cfg ?a1 cs] => specialize (IH a1) end.
      cbn [a_eng a_ingress a_fatal] in IH.
      destruct (nets cfg g1 cs) as [g2 o2].
      rewrite IH.
      * rewrite deliveries_app, app_assoc. reflexivity.
      * destruct (has_err o1) eqn:Eh; [right; auto | left; reflexivity].
Qed.

Theorem actor_forwards_engine_deliveries cfg t cs :
  a_ingress (a_reads true cfg (a_new t) cs) =
  deliveries (snd (e_net cfg (e_new t) (concat (map fst cs)) 0)).
Proof.
  pose proof (a_reads_ingress cfg cs (a_new t) (or_introl eq_refl)) as H.
  cbn [a_new a_eng a_ingress app] in H.
  pose proof (engine_chunk_independent cfg (e_new t) cs [(concat (map fst cs), 0)]
                (e_new_quiescent cfg t)) as HI.
  cbn [map fst concat] in HI. rewrite app_nil_r in HI. specialize (HI eq_refl).
  destruct (nets cfg (e_new t) cs) as [g1 o1].
  cbn [nets] in HI. destruct (e_net cfg (e_new t) (concat (map fst cs)) 0) as [g2 o2].
  rewrite app_nil_r in HI. destruct HI as (_ & _ & ->). cbn [snd]. exact H.
Qed.

(* the handler at the pinned commit dropped deliveries made during the handshake read *)
Definition legacy_witness_cfg : ecfg :=
  {| c_server := true; c_stype := s_PULL; c_rid := None; c_sec_enabled := false; c_allow_v2 := true;
     c_use_plain := false; c_use_curve := false; c_use_noise := false; c_plain_user := None; c_plain_pass := None;
     c_opaque_ok := false; c_hb_ivl := None; c_hb_timeout := None; c_cork := false; c_zc := false; c_maxsz := (-1)%Z |}.
Definition legacy_witness_stream : bytes :=
  (255 :: repeat 0 8 ++ [127; 3; 0] ++ mech_field s_NULL ++ [0] ++ repeat 0 31) ++
  enc_codec (cmd_frame ((5 :: s_READY) ++ enc_prop s_SocketType s_PUSH)) ++
  enc_codec (data_frame false [1; 2; 3]).

Theorem legacy_handler_drops_refuted :
  a_ingress (a_reads false legacy_witness_cfg (a_new 0) [(legacy_witness_stream, 0)]) = [] /\
  deliveries (snd (e_net legacy_witness_cfg (e_new 0) legacy_witness_stream 0)) = [[data_frame false [1; 2; 3]]].
Proof. vm_compute. split; reflexivity. Qed.
