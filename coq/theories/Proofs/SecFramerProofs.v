(* Proofs about the record layer of encrypted connections (Model/SecFramer.v), relative to an
   ideal (symbolic) AEAD: the laws of [seal]/[open] are Section hypotheses and become explicit
   premises of every exported theorem. *)
From RZ Require Import Base.Prelude Base.Stepper Model.Codec Model.Engine Model.SecFramer Proofs.CodecProofs.
Local Open Scope N_scope.

(* ---------- small arithmetic / byte lemmas (no AEAD) ---------- *)
Lemma be2_val x : x < U16 -> be_val (be_bytes 2 x) = x.
Proof.
  intros H. rewrite be_roundtrip. change (256 ^ N.of_nat 2) with U16. apply N.mod_small. exact H.
Qed.

Lemma be2_of_val a b : a < 256 -> b < 256 -> be_bytes 2 (be_val [a; b]) = [a; b].
Proof.
  intros Ha Hb. unfold be_val. cbn [fold_left be_bytes app].
  assert ((0 * 256 + a) * 256 + b = a * 256 + b) as -> by lia.
  f_equal; [|f_equal]; unfold U16 in *; lia.
Qed.

Lemma be_val2_lt a b : a < 256 -> b < 256 -> be_val [a; b] < U16.
Proof. intros. unfold be_val, U16. cbn [fold_left]. lia. Qed.

Lemma len_app (a b : bytes) : len (a ++ b) = len a + len b.
Proof. unfold len. rewrite app_length. lia. Qed.

Lemma bytes_eqb_refl a : bytes_eqb a a = true.
Proof. induction a as [|x a IH]; cbn [bytes_eqb]; [reflexivity|]. rewrite IH. rewrite N.eqb_refl. reflexivity. Qed.
Lemma bytes_eqb_eq a : forall b, bytes_eqb a b = true -> a = b.
Proof.
  induction a as [|x a IH]; intros [|y b] H; cbn [bytes_eqb] in H; try discriminate; [reflexivity|].
  apply andb_prop in H. destruct H as [H1 H2]. apply N.eqb_eq in H1. subst. f_equal. apply IH. exact H2.
Qed.

(* the records the length-prefix framing cuts out of a byte stream (independent of any key) *)
Inductive framed : bytes -> bytes -> Prop :=
| framed_here s : 2 <= len s -> 2 + be_val (firstn 2 s) <= len s ->
    framed s (firstn (N.to_nat (be_val (firstn 2 s))) (skipn 2 s))
| framed_next s c : 2 <= len s -> 2 + be_val (firstn 2 s) <= len s ->
    framed (skipn (2 + N.to_nat (be_val (firstn 2 s))) s) c -> framed s c.

(* frames of a list of batches; each batch is a list of messages, each message a list of frames *)
Definition flat (bs : list (list (list frame))) : list frame := concat (map (@concat frame) bs).

Lemma flat_cons b bs : flat (b :: bs) = concat b ++ flat bs.
Proof. reflexivity. Qed.
Lemma flat_app a b : flat (a ++ b) = flat a ++ flat b.
Proof. unfold flat. rewrite map_app, concat_app. reflexivity. Qed.

(* a record whose ciphertext length fits the 16-bit prefix: plaintext <= 65519 bytes *)
Definition small (b : list (list frame)) : Prop := len (enc_contiguous b) <= NOISE_MAX_PT.

(* ---------- drain ---------- *)
Lemma drain_frames m fs : forall fuel, (length fs < fuel)%nat -> Forall (admitted m) fs ->
  drain fuel m (concat (map enc_codec fs)) = (map RFrame fs, [], false).
Proof.
  induction fs as [|f fs IH]; intros fuel Hf Ha.
  - destruct fuel; [cbn in Hf; lia|]. reflexivity.
  - destruct fuel as [|fuel]; [cbn in Hf; lia|]. inversion Ha; subst.
    cbn [map concat drain]. rewrite dec_buffer_enc by assumption.
    rewrite skipn_app, skipn_all, Nat.sub_diag. cbn [app skipn].
    rewrite IH; [reflexivity | cbn [length] in Hf; lia | assumption].
Qed.

Lemma enc_codec_len_pos f : (2 <= length (enc_codec f))%nat.
Proof.
  unfold enc_codec, enc_header_only, enc_header. destruct (_ <=? 255); cbn [length app]; rewrite ?app_length, ?be_bytes_length; lia.
Qed.
Lemma concat_enc_len fs : (length fs <= length (concat (map enc_codec fs)))%nat.
Proof.
  induction fs as [|f fs IH]; [reflexivity|]. cbn [map concat length]. rewrite app_length.
  pose proof (enc_codec_len_pos f). lia.
Qed.

Lemma drain_batch m b : Forall (admitted m) (concat b) ->
  drain (S (length (enc_contiguous b))) m (enc_contiguous b) = (map RFrame (concat b), [], false).
Proof.
  intros Ha. unfold enc_contiguous. apply drain_frames; [|exact Ha].
  pose proof (concat_enc_len (concat b)). lia.
Qed.

Section Proofs.
Variable key : Type.
Variable seal : key -> N -> bytes -> bytes.
Variable open : key -> N -> bytes -> option bytes.

(* the ideal AEAD *)
Hypothesis open_seal : forall k n p, open k n (seal k n p) = Some p.
Hypothesis open_auth : forall k n c p, open k n c = Some p -> c = seal k n p.
Hypothesis seal_len : forall k n p, len (seal k n p) = len p + TAG.

Notation cipher := (cipher key).
Notation rstate := (rstate key).
Notation sstep := (sstep key open).
Notation on_record := (on_record key open).
Notation decrypt := (decrypt key open).
Notation encrypt := (encrypt key seal).
Notation write_msg_batch := (write_msg_batch key seal).
Notation send_all := (send_all key seal).
Notation rec_wire := (rec_wire key seal).
Notation rec_wires := (rec_wires key seal).
Notation recv_run := (recv_run key open).

(* ---------- try_read_msg is an append-stable stepper ---------- *)
Lemma sstep_mono m : step_mono (sstep m).
Proof.
  intros st b d st' n o. unfold SecFramer.sstep.
  destruct (r_closed st); [discriminate|].
  destruct (len b <? 2) eqn:E1; [discriminate|].
  assert (len (b ++ d) <? 2 = false) as -> by (rewrite len_app; lia).
  assert (firstn 2 (b ++ d) = firstn 2 b) as -> by (apply firstn_app_le; unfold len in E1; lia).
  set (l := be_val (firstn 2 b)).
  destruct (len b <? 2 + l) eqn:E2; [discriminate|].
  assert (len (b ++ d) <? 2 + l = false) as -> by (rewrite len_app; lia).
  rewrite skipn_app_le by (unfold len in E1; lia).
  rewrite firstn_app_le by (rewrite skipn_length; unfold len in E2; lia).
  auto.
Qed.
Lemma sstep_bounded m : step_bounded (sstep m).
Proof.
  intros st b st' n o. unfold SecFramer.sstep.
  destruct (r_closed st); [discriminate|].
  destruct (len b <? 2) eqn:E1; [discriminate|].
  set (l := be_val (firstn 2 b)).
  destruct (len b <? 2 + l) eqn:E2; [discriminate|].
  destruct (on_record m st _) as [st1 o1]. intros H. inversion H; subst. unfold len in E2. lia.
Qed.
Lemma sstep_measure m : step_measure (sstep m) (smu key) 0.
Proof.
  intros st b st' n o. unfold SecFramer.sstep.
  destruct (r_closed st); [discriminate|].
  destruct (len b <? 2) eqn:E1; [discriminate|].
  destruct (len b <? 2 + _) eqn:E2; [discriminate|].
  destruct (on_record m st _) as [st1 o1]. intros H. inversion H; subst. left. unfold smu. lia.
Qed.
Lemma sec_ok m : stepper_ok (sstep m) (smu key) 0.
Proof. constructor; [apply sstep_mono | apply sstep_bounded | apply sstep_measure]. Qed.

Lemma closed_need m st b : r_closed st = true -> sstep m st b = Need.
Proof. intros H. unfold SecFramer.sstep. rewrite H. reflexivity. Qed.
Lemma run_closed m st b s' r o : r_closed st = true -> Run (sstep m) st b s' r o -> s' = st /\ r = b /\ o = [].
Proof.
  intros Hc HR. inversion HR; subst; [auto|]. rewrite closed_need in H by exact Hc. discriminate.
Qed.

Theorem recv_chunk_independent m c cs1 cs2 :
  concat cs1 = concat cs2 -> recv_run m c cs1 = recv_run m c cs2.
Proof.
  intros Hc. unfold SecFramer.recv_run.
  apply (sk_feed_chunk_independent (sec_ok m)); [reflexivity | exact Hc].
Qed.

Lemma recv_run_pump m c cs : recv_run m c cs = pump (sstep m) (smu key) 0 (r_init c) (concat cs).
Proof.
  unfold SecFramer.recv_run. rewrite (sk_feed_quiescent_start (sec_ok m)) by reflexivity. reflexivity.
Qed.

(* ---------- honest records ---------- *)
Definition rcv (kd : ckind) (ek k : key) (sn n : N) : rstate :=
  {| r_c := {| c_kind := kd; c_ek := ek; c_dk := k; c_sn := sn; c_rn := n |}; r_dbuf := []; r_closed := false |}.

Lemma record_split ct rest : len ct < U16 ->
  len (record_of ct ++ rest) <? 2 = false /\
  firstn 2 (record_of ct ++ rest) = be_bytes 2 (len ct) /\
  be_val (firstn 2 (record_of ct ++ rest)) = len ct /\
  skipn 2 (record_of ct ++ rest) = ct ++ rest.
Proof.
  intros Hs. unfold record_of. rewrite N.mod_small by exact Hs. rewrite <- app_assoc.
  assert (length (be_bytes 2 (len ct)) = 2%nat) as H2 by apply be_bytes_length.
  destruct (firstn_skipn_app 2 (be_bytes 2 (len ct)) (ct ++ rest) H2) as [Hf Hk].
  rewrite Hf, Hk. repeat split.
  - rewrite len_app. unfold len at 1. rewrite H2. lia.
  - apply be2_val. exact Hs.
Qed.

Lemma decrypt_honest kd ek k sn n pt : ctr_ok n = true ->
  decrypt {| c_kind := kd; c_ek := ek; c_dk := k; c_sn := sn; c_rn := n |} (seal k n pt) =
  DcOk pt {| c_kind := kd; c_ek := ek; c_dk := k; c_sn := sn; c_rn := n + 1 |}.
Proof.
  intros Hc. unfold SecFramer.decrypt. rewrite seal_len.
  assert (len pt + TAG <? TAG = false) as -> by lia.
  cbn [c_kind c_dk c_rn]. rewrite Hc, open_seal. destruct kd; reflexivity.
Qed.

Lemma step_record m kd ek k sn n b rest :
  small b -> Forall (admitted m) (concat b) -> ctr_ok n = true ->
  sstep m (rcv kd ek k sn n) (rec_wire k n b ++ rest) =
  Step (rcv kd ek k sn (n + 1)) (length (rec_wire k n b)) (map RFrame (concat b)).
Proof.
  intros Hs Ha Hc. unfold SecFramer.rec_wire. set (pt := enc_contiguous b). set (ct := seal k n pt).
  assert (len ct < U16) as Hl.
  { unfold ct. rewrite seal_len. unfold small in Hs. fold pt in Hs. unfold NOISE_MAX_PT, TAG, U16 in *. lia. }
  destruct (record_split ct rest Hl) as (H1 & H2 & H3 & H4).
  unfold SecFramer.sstep. cbn [rcv r_closed]. rewrite H1, H3, H4.
  assert (len (record_of ct ++ rest) <? 2 + len ct = false) as ->.
  { rewrite len_app. unfold record_of. rewrite len_app. unfold len at 1. rewrite be_bytes_length. lia. }
  unfold len at 1. rewrite Nat2N.id. rewrite firstn_app_le, firstn_all by lia.
  unfold SecFramer.on_record. cbn [rcv r_c r_dbuf]. unfold ct at 1. rewrite decrypt_honest by exact Hc.
  cbn [app]. unfold pt. rewrite drain_batch by exact Ha.
  f_equal. unfold record_of. rewrite app_length, be_bytes_length. unfold len. rewrite Nat2N.id. reflexivity.
Qed.

(* counters stay below 2^64 for the whole sequence *)
Definition ctr_room (n : N) (k : nat) : Prop := n + N.of_nat k + 1 < U64.

Lemma run_records m kd ek k sn : forall bs n rest s' r o,
  Forall small bs -> Forall (admitted m) (flat bs) -> ctr_room n (length bs) ->
  Run (sstep m) (rcv kd ek k sn (n + N.of_nat (length bs))) rest s' r o ->
  Run (sstep m) (rcv kd ek k sn n) (concat (rec_wires k n bs) ++ rest) s' r (map RFrame (flat bs) ++ o).
Proof.
  induction bs as [|b bs IH]; intros n rest s' r o Hs Ha Hr HR.
  - cbn [length] in HR. replace (n + N.of_nat 0) with n in HR by lia. exact HR.
  - inversion Hs; subst. rewrite flat_cons in *. apply Forall_app in Ha. destruct Ha as [Ha1 Ha2].
    cbn [SecFramer.rec_wires concat]. rewrite map_app, <- !app_assoc.
    eapply RunStep.
    + apply step_record; auto. unfold ctr_room in Hr. unfold ctr_ok. lia.
    + rewrite skipn_app, skipn_all, Nat.sub_diag. cbn [app skipn].
      apply IH; auto.
      * unfold ctr_room in *. cbn [length] in Hr. lia.
      * replace (n + 1 + N.of_nat (length bs)) with (n + N.of_nat (length (b :: bs))) by (cbn [length]; lia).
        exact HR.
Qed.

(* enc_roundtrip_small: whatever an endpoint seals in records that fit the 16-bit length is decoded by
   the peer (same key, counters in lock-step) to exactly the frames that were sent, for every segmentation *)
Theorem enc_roundtrip_small m kd ek k sn n bs cs :
  Forall small bs -> Forall (admitted m) (flat bs) -> ctr_room n (length bs) ->
  concat cs = concat (rec_wires k n bs) ->
  feed (sstep m) (smu key) 0 (rcv kd ek k sn n) [] cs =
    (rcv kd ek k sn (n + N.of_nat (length bs)), [], map RFrame (flat bs)).
Proof.
  intros Hs Ha Hr Hc.
  rewrite (sk_feed_quiescent_start (sec_ok m)) by reflexivity. cbn [app]. rewrite Hc.
  apply (sk_Run_pump (sec_ok m)).
  rewrite <- (app_nil_r (concat _)), <- (app_nil_r (map RFrame _)).
  apply run_records; auto. apply RunNeed. reflexivity.
Qed.

(* what the sender really emits when no call fails *)
Definition sendable (kd : ckind) (b : list (list frame)) : Prop :=
  match kd with KCurve => True | KNoise => small b end.

Lemma write_ok kd ek dk sn rn b : sendable kd b -> ctr_ok sn = true ->
  write_msg_batch {| c_kind := kd; c_ek := ek; c_dk := dk; c_sn := sn; c_rn := rn |} b =
  (SOk (rec_wire ek sn b), {| c_kind := kd; c_ek := ek; c_dk := dk; c_sn := sn + 1; c_rn := rn |}).
Proof.
  intros Hs Hc. unfold SecFramer.write_msg_batch, SecFramer.encrypt. cbn [c_kind c_sn c_ek]. rewrite Hc.
  destruct kd; [reflexivity|]. cbn in Hs. unfold small in Hs.
  assert (NOISE_MAX_PT <? len (enc_contiguous b) = false) as -> by lia. reflexivity.
Qed.

Lemma send_all_ok kd ek dk rn : forall bs sn, Forall (sendable kd) bs -> ctr_room sn (length bs) ->
  send_all {| c_kind := kd; c_ek := ek; c_dk := dk; c_sn := sn; c_rn := rn |} bs =
  (map SOk (rec_wires ek sn bs),
   {| c_kind := kd; c_ek := ek; c_dk := dk; c_sn := sn + N.of_nat (length bs); c_rn := rn |}).
Proof.
  induction bs as [|b bs IH]; intros sn Hs Hr.
  - cbn. replace (sn + N.of_nat 0) with sn by lia. reflexivity.
  - inversion Hs; subst. cbn [SecFramer.send_all]. rewrite write_ok; auto.
    2:{ unfold ctr_room in Hr. unfold ctr_ok. lia. }
    rewrite IH; auto.
    2:{ unfold ctr_room in *. cbn [length] in Hr. lia. }
    cbn [SecFramer.rec_wires map]. f_equal. f_equal. cbn [length]. lia.
Qed.

Lemma wires_ok ws : wires (map SOk ws) = concat ws.
Proof. unfold wires. rewrite map_map. cbn [wire_of]. rewrite map_id. reflexivity. Qed.

(* ---------- tampering ---------- *)
(* The attacker model. The stream [s] handed to the receiver is ARBITRARY (flips, drops, duplicates,
   swaps, cuts, injections of sent records and of any other bytes) except that the attacker cannot
   make new ciphertexts under the session key: every record the length-prefix framing cuts out of
   [s] that IS a seal term under [k] (with a 64-bit nonce) was sealed by the sender. *)
Definition unforged (k : key) (sent : list (N * bytes)) (s : bytes) : Prop :=
  forall c, framed s c -> forall n p, n < U64 -> c = seal k n p -> In (n, p) sent.

Lemma sealed_in bs : forall n0 n p, In (n, p) (sealed n0 bs) ->
  exists j b, nth_error bs j = Some b /\ n = n0 + N.of_nat j /\ p = enc_contiguous b.
Proof.
  induction bs as [|b bs IH]; intros n0 n p H; [destruct H|].
  cbn [sealed] in H. destruct H as [H|H].
  - inversion H; subst. exists 0%nat, b. repeat split. lia.
  - destruct (IH _ _ _ H) as (j & b' & Hn & -> & ->). exists (S j), b'. repeat split; [exact Hn | lia].
Qed.

Lemma nth_error_skipn {A} (l : list A) : forall j x, nth_error l j = Some x -> skipn j l = x :: skipn (S j) l.
Proof.
  induction l as [|y l IH]; intros [|j] x H; cbn in H; try discriminate.
  - inversion H; subst. reflexivity.
  - cbn [skipn]. rewrite (IH _ _ H). reflexivity.
Qed.

Lemma decrypt_cases kd ek k sn n rec : ctr_ok n = true ->
  let c := {| c_kind := kd; c_ek := ek; c_dk := k; c_sn := sn; c_rn := n |} in
  decrypt c rec = DcErr \/
  exists pt, open k n rec = Some pt /\
             decrypt c rec = DcOk pt {| c_kind := kd; c_ek := ek; c_dk := k; c_sn := sn; c_rn := n + 1 |}.
Proof.
  intros Hc c. unfold SecFramer.decrypt, c. cbn [c_kind c_dk c_rn]. rewrite Hc.
  destruct (len rec <? TAG); [left; reflexivity|].
  destruct (open k n rec) as [pt|] eqn:E.
  - right. exists pt. split; [reflexivity|]. destruct kd; reflexivity.
  - left. destruct kd; reflexivity.
Qed.

Definition closed_st (st : rstate) : rstate := {| r_c := r_c st; r_dbuf := r_dbuf st; r_closed := true |}.

(* the one non-trivial step of the receiver, seen from a drained, open state *)
Lemma sstep_cases m kd ek k sn n s st1 cnt o1 : ctr_ok n = true ->
  sstep m (rcv kd ek k sn n) s = Step st1 cnt o1 ->
  let l := be_val (firstn 2 s) in
  let rec := firstn (N.to_nat l) (skipn 2 s) in
  2 <= len s /\ 2 + l <= len s /\ cnt = (2 + N.to_nat l)%nat /\
  ((st1 = closed_st (rcv kd ek k sn n) /\ o1 = [RErr]) \/
   (exists pt, open k n rec = Some pt /\
      (st1, o1) = (let '(o, d', cl) := drain (S (length pt)) m pt in
                   ({| r_c := {| c_kind := kd; c_ek := ek; c_dk := k; c_sn := sn; c_rn := n + 1 |};
                       r_dbuf := d'; r_closed := cl |}, o)))).
Proof.
  intros Hc. unfold SecFramer.sstep. cbn [rcv r_closed].
  destruct (len s <? 2) eqn:E1; [discriminate|].
  destruct (len s <? 2 + be_val (firstn 2 s)) eqn:E2; [discriminate|].
  cbv zeta. set (rec := firstn _ (skipn 2 s)).
  unfold SecFramer.on_record. cbn [rcv r_c r_dbuf].
  destruct (decrypt_cases kd ek k sn n rec Hc) as [Hd | (pt & Ho & Hd)]; rewrite Hd.
  - intros H. injection H as <- <- <-. repeat split; try lia. left. split; reflexivity.
  - cbn [app]. destruct (drain (S (length pt)) m pt) as [[o d'] cl] eqn:Ed.
    intros H. injection H as <- <- <-. repeat split; try lia. right. exists pt. split; [exact Ho|].
    rewrite Ed. reflexivity.
Qed.

Lemma run_safe m kd ek k sn n0 bs :
  Forall (admitted m) (flat bs) -> ctr_room n0 (length bs) ->
  forall st s st' r o, Run (sstep m) st s st' r o ->
  forall j, (j <= length bs)%nat -> st = rcv kd ek k sn (n0 + N.of_nat j) -> unforged k (sealed n0 bs) s ->
  exists j', (j <= j' <= length bs)%nat /\
    ((o = map RFrame (flat (firstn (j' - j) (skipn j bs))) /\ st' = rcv kd ek k sn (n0 + N.of_nat j')) \/
     (o = map RFrame (flat (firstn (j' - j) (skipn j bs))) ++ [RErr] /\ r_closed st' = true)).
Proof.
  intros Ha Hroom st s st' r o HR.
  induction HR as [st s Hn | st s st1 cnt o1 st' r o' Hs HR IH]; intros j Hj Hst Hu.
  - exists j. split; [lia|]. left. rewrite Nat.sub_diag. cbn [firstn flat map concat]. auto.
  - subst st.
    assert (ctr_ok (n0 + N.of_nat j) = true) as Hc by (unfold ctr_room in Hroom; unfold ctr_ok; lia).
    destruct (sstep_cases _ _ _ _ _ _ _ _ _ _ Hc Hs) as (H2 & Hl & -> & Hcase).
    destruct Hcase as [[-> ->] | (pt & Ho & Heq)].
    + (* authentication failed: closed, nothing more is read *)
      destruct (run_closed m (closed_st (rcv kd ek k sn (n0 + N.of_nat j))) _ _ _ _ eq_refl HR) as (-> & _ & ->).
      exists j. split; [lia|]. right. rewrite Nat.sub_diag. cbn [firstn flat map concat app]. auto.
    + (* the record opened under the receive counter: it is the j-th sealed record *)
      apply open_auth in Ho.
      assert (In (n0 + N.of_nat j, pt) (sealed n0 bs)) as Hin.
      { apply (Hu _ (framed_here s H2 Hl)); [unfold ctr_room in Hroom; lia | exact Ho]. }
      destruct (sealed_in _ _ _ _ Hin) as (j2 & b & Hnth & Hjj & ->).
      assert (j2 = j) as -> by lia.
      assert (j < length bs)%nat as Hlt by (apply nth_error_Some; congruence).
      pose proof (nth_error_skipn _ _ _ Hnth) as Hsk.
      assert (Forall (admitted m) (concat b)) as Hab.
      { rewrite Forall_forall in *. intros f Hf. apply Ha. unfold flat. apply in_concat.
        exists (concat b). split; [|exact Hf]. apply in_map. eapply nth_error_In; eauto. }
      rewrite drain_batch in Heq by exact Hab. inversion Heq; subst st1 o1.
      destruct (IH (S j)) as (j' & Hj' & Hres).
      * lia.
      * unfold rcv. f_equal. f_equal. lia.
      * intros c Hf. apply Hu. apply framed_next; assumption.
      * exists j'. split; [lia|].
        assert (flat (firstn (j' - j) (skipn j bs)) = concat b ++ flat (firstn (j' - S j) (skipn (S j) bs))) as Hfl.
        { rewrite Hsk. replace (j' - j)%nat with (S (j' - S j)) by lia. cbn [firstn]. apply flat_cons. }
        rewrite Hfl, map_app.
        destruct Hres as [[-> ->] | [-> Hcl]]; [left | right]; rewrite <- ?app_assoc; auto.
Qed.

(* tamper_prefix_safety: for every sequence of sealed batches and EVERY unforged stream, cut in any way,
   the receiver hands out exactly the frames of the first j' batches (whole batches, in order, once)
   for some j', and either stays in lock-step or has failed with an error and is closed. *)
Theorem tamper_prefix_safety m kd ek k sn n0 bs cs :
  Forall (admitted m) (flat bs) -> ctr_room n0 (length bs) ->
  unforged k (sealed n0 bs) (concat cs) ->
  let '(st', _, o) := feed (sstep m) (smu key) 0 (rcv kd ek k sn n0) [] cs in
  exists j', (j' <= length bs)%nat /\
    ((o = map RFrame (flat (firstn j' bs)) /\ st' = rcv kd ek k sn (n0 + N.of_nat j')) \/
     (o = map RFrame (flat (firstn j' bs)) ++ [RErr] /\ r_closed st' = true)).
Proof.
  intros Ha Hr Hu.
  rewrite (sk_feed_quiescent_start (sec_ok m)) by reflexivity. cbn [app].
  pose proof (sk_pump_Run (sec_ok m) (rcv kd ek k sn n0) (concat cs)) as HR.
  destruct (pump _ _ _ _ _) as [[st' r] o].
  destruct (run_safe m kd ek k sn n0 bs Ha Hr _ _ _ _ _ HR 0%nat) as (j' & Hj & Hres).
  - lia.
  - unfold rcv. f_equal. f_equal. lia.
  - exact Hu.
  - exists j'. split; [lia|]. rewrite Nat.sub_0_r in Hres. cbn [skipn] in Hres. exact Hres.
Qed.

(* ---------- detection: the first record that is not the next sealed one ends the connection ---------- *)
Definition complete (s : bytes) : bool := (2 <=? len s) && (2 + be_val (firstn 2 s) <=? len s).

Lemma record_skip ct rest : len ct < U16 ->
  2 <= len (record_of ct ++ rest) /\
  2 + be_val (firstn 2 (record_of ct ++ rest)) <= len (record_of ct ++ rest) /\
  skipn (2 + N.to_nat (be_val (firstn 2 (record_of ct ++ rest)))) (record_of ct ++ rest) = rest.
Proof.
  intros Hs. destruct (record_split ct rest Hs) as (H1 & H2 & H3 & H4).
  split; [lia|]. rewrite H3. split.
  - rewrite len_app. unfold record_of. rewrite len_app. unfold len at 2. rewrite be_bytes_length. lia.
  - rewrite <- skipn_skipn, H4. unfold len. rewrite Nat2N.id.
    rewrite skipn_app, skipn_all, Nat.sub_diag. reflexivity.
Qed.

Lemma small_ct k n b : small b -> len (seal k n (enc_contiguous b)) < U16.
Proof. unfold small. intros H. rewrite seal_len. unfold NOISE_MAX_PT, TAG, U16 in *. lia. Qed.

Lemma framed_through k : forall bs n rest c, Forall small bs -> framed rest c ->
  framed (concat (rec_wires k n bs) ++ rest) c.
Proof.
  induction bs as [|b bs IH]; intros n rest c Hs Hf; [exact Hf|].
  inversion Hs; subst. cbn [SecFramer.rec_wires concat]. rewrite <- app_assoc.
  unfold SecFramer.rec_wire at 1.
  destruct (record_skip (seal k n (enc_contiguous b)) (concat (rec_wires k (n + 1) bs) ++ rest)
              (small_ct k n b H1)) as (Ha & Hb & Hc).
  apply framed_next; [exact Ha | exact Hb |]. rewrite Hc. apply IH; assumption.
Qed.

Lemma complete_step m kd ek k sn n s : complete s = true -> sstep m (rcv kd ek k sn n) s <> Need.
Proof.
  unfold complete, SecFramer.sstep. intros H. apply andb_prop in H. destruct H as [H1 H2].
  cbn [rcv r_closed].
  assert (len s <? 2 = false) as -> by lia.
  assert (len s <? 2 + be_val (firstn 2 s) = false) as -> by lia.
  destruct (on_record _ _ _); discriminate.
Qed.
Lemma incomplete_need m kd ek k sn n s : complete s = false -> sstep m (rcv kd ek k sn n) s = Need.
Proof.
  unfold complete, SecFramer.sstep. intros H. cbn [rcv r_closed].
  destruct (len s <? 2) eqn:E1; [reflexivity|].
  destruct (len s <? 2 + be_val (firstn 2 s)) eqn:E2; [reflexivity|].
  exfalso. apply andb_false_iff in H. destruct H as [H|H]; lia.
Qed.

Lemma flat_firstn_admitted m bs j : Forall (admitted m) (flat bs) -> Forall (admitted m) (flat (firstn j bs)).
Proof.
  intros H. rewrite <- (firstn_skipn j bs), flat_app in H. apply Forall_app in H. apply H.
Qed.

Theorem tamper_detected m kd ek k sn n0 bs j rest cs :
  Forall (admitted m) (flat bs) -> ctr_room n0 (length bs) -> (j <= length bs)%nat ->
  Forall small (firstn j bs) -> wf_bytes (firstn 2 rest) = true ->
  (forall b, nth_error bs j = Some b -> ~ prefix (rec_wire k (n0 + N.of_nat j) b) rest) ->
  unforged k (sealed n0 bs) (concat (rec_wires k n0 (firstn j bs)) ++ rest) ->
  concat cs = concat (rec_wires k n0 (firstn j bs)) ++ rest ->
  let '(st', r, o) := feed (sstep m) (smu key) 0 (rcv kd ek k sn n0) [] cs in
  if complete rest
  then o = map RFrame (flat (firstn j bs)) ++ [RErr] /\ r_closed st' = true
  else o = map RFrame (flat (firstn j bs)) /\ st' = rcv kd ek k sn (n0 + N.of_nat j) /\ r = rest.
Proof.
  intros Ha Hroom Hj Hsm Hwf Hnext Hu Hc.
  rewrite (sk_feed_quiescent_start (sec_ok m)) by reflexivity. cbn [app]. rewrite Hc.
  assert (length (firstn j bs) = j) as Hlen by (apply firstn_length_le; exact Hj).
  assert (ctr_room n0 (length (firstn j bs))) as Hroom' by (unfold ctr_room in *; lia).
  pose proof (flat_firstn_admitted m bs j Ha) as Ha'.
  assert (ctr_ok (n0 + N.of_nat j) = true) as Hok by (unfold ctr_room in Hroom; unfold ctr_ok; lia).
  destruct (complete rest) eqn:Ecomp.
  - destruct (sstep m (rcv kd ek k sn (n0 + N.of_nat j)) rest) as [|st1 cnt o1] eqn:Es.
    { exfalso. eapply complete_step; eauto. }
    destruct (sstep_cases _ _ _ _ _ _ _ _ _ _ Hok Es) as (H2 & Hl & -> & Hcase).
    destruct Hcase as [[-> ->] | (pt & Ho & Heq)].
    + assert (Run (sstep m) (rcv kd ek k sn n0) (concat (rec_wires k n0 (firstn j bs)) ++ rest)
                (closed_st (rcv kd ek k sn (n0 + N.of_nat j)))
                (skipn (2 + N.to_nat (be_val (firstn 2 rest))) rest)
                (map RFrame (flat (firstn j bs)) ++ [RErr] ++ [])) as HR.
      { apply run_records; auto. rewrite Hlen. eapply RunStep; [exact Es|]. apply RunNeed. reflexivity. }
      apply (sk_Run_pump (sec_ok m)) in HR. rewrite HR. auto.
    + exfalso. apply open_auth in Ho.
      assert (In (n0 + N.of_nat j, pt) (sealed n0 bs)) as Hin.
      { apply (Hu _ (framed_through k _ n0 rest _ Hsm (framed_here rest H2 Hl)));
          [unfold ctr_room in Hroom; lia | exact Ho]. }
      destruct (sealed_in _ _ _ _ Hin) as (j2 & b & Hnth & Hjj & ->).
      assert (j2 = j) as -> by lia.
      apply (Hnext b Hnth). unfold SecFramer.rec_wire. rewrite <- Ho.
      (* rest = [a; b'] ++ t, the framed record is firstn l t *)
      destruct rest as [|a [|b' t]]; [unfold len in H2; cbn in H2; lia | unfold len in H2; cbn in H2; lia |].
      cbn [firstn skipn] in *. cbn [wf_bytes forallb] in Hwf.
      apply andb_prop in Hwf. destruct Hwf as [Hwa Hwf]. apply andb_prop in Hwf. destruct Hwf as [Hwb _].
      assert (a < 256) by lia. assert (b' < 256) by lia.
      set (l := be_val [a; b']) in *.
      assert (l < U16) as Hl16 by (apply be_val2_lt; assumption).
      assert (len (firstn (N.to_nat l) t) = l) as Hlr.
      { unfold len. rewrite firstn_length_le; [lia|]. unfold len in Hl. cbn [length] in Hl. lia. }
      unfold record_of. rewrite Hlr, N.mod_small by exact Hl16. unfold l at 1. rewrite be2_of_val by assumption.
      exists (skipn (N.to_nat l) t). cbn [app]. rewrite firstn_skipn. reflexivity.
  - assert (Run (sstep m) (rcv kd ek k sn n0) (concat (rec_wires k n0 (firstn j bs)) ++ rest)
              (rcv kd ek k sn (n0 + N.of_nat j)) rest (map RFrame (flat (firstn j bs)) ++ [])) as HR.
    { apply run_records; auto. rewrite Hlen. apply RunNeed. apply incomplete_need. exact Ecomp. }
    apply (sk_Run_pump (sec_ok m)) in HR. rewrite HR, app_nil_r. auto.
Qed.

(* ---------- batches whose ciphertext does not fit the 16-bit length ---------- *)
Lemma record_split_gen ct rest :
  len (record_of ct ++ rest) <? 2 = false /\
  be_val (firstn 2 (record_of ct ++ rest)) = len ct mod U16 /\
  skipn 2 (record_of ct ++ rest) = ct ++ rest.
Proof.
  unfold record_of. rewrite <- app_assoc.
  assert (length (be_bytes 2 (len ct mod U16)) = 2%nat) as H2 by apply be_bytes_length.
  destruct (firstn_skipn_app 2 (be_bytes 2 (len ct mod U16)) (ct ++ rest) H2) as [Hf Hk].
  rewrite Hf, Hk. repeat split.
  - rewrite len_app. unfold len at 1. rewrite H2. lia.
  - apply be2_val. apply N.mod_lt. discriminate.
Qed.

(* Noise refuses the batch: an error at the sender, nothing emitted, cipher state untouched *)
Theorem noise_large_refused ek dk sn rn b : ~ small b ->
  let c := {| c_kind := KNoise; c_ek := ek; c_dk := dk; c_sn := sn; c_rn := rn |} in
  write_msg_batch c b = (SErr, c).
Proof.
  intros Hs c. unfold SecFramer.write_msg_batch, SecFramer.encrypt, c. cbn [c_kind].
  unfold small in Hs. assert (NOISE_MAX_PT <? len (enc_contiguous b) = true) as -> by lia. reflexivity.
Qed.

(* CURVE accepts every size: the caller gets Ok and a record whose length prefix is len mod 65536 *)
Theorem curve_any_size_accepted ek dk sn rn b : ctr_ok sn = true ->
  write_msg_batch {| c_kind := KCurve; c_ek := ek; c_dk := dk; c_sn := sn; c_rn := rn |} b =
  (SOk (rec_wire ek sn b), {| c_kind := KCurve; c_ek := ek; c_dk := dk; c_sn := sn + 1; c_rn := rn |}).
Proof. intros. apply write_ok; [exact I | assumption]. Qed.

(* ... and the peer never decodes such a record: it delivers nothing from it, whatever follows *)
Theorem wrapped_record_undecodable m kd ek k sn n b rest cs :
  ~ small b -> ctr_ok n = true ->
  unforged k [(n, enc_contiguous b)] (rec_wire k n b ++ rest) ->
  concat cs = rec_wire k n b ++ rest ->
  let '(st', _, o) := feed (sstep m) (smu key) 0 (rcv kd ek k sn n) [] cs in
  o = [] \/ (o = [RErr] /\ r_closed st' = true).
Proof.
  intros Hs Hok Hu Hc.
  rewrite (sk_feed_quiescent_start (sec_ok m)) by reflexivity. cbn [app]. rewrite Hc.
  set (s := rec_wire k n b ++ rest) in *.
  destruct (sstep m (rcv kd ek k sn n) s) as [|st1 cnt o1] eqn:Es.
  - rewrite (sk_Run_pump (sec_ok m) _ _ _ _ _ (RunNeed _ _ _ _ _ Es)). left. reflexivity.
  - destruct (sstep_cases _ _ _ _ _ _ _ _ _ _ Hok Es) as (H2 & Hl & -> & Hcase).
    destruct Hcase as [[-> ->] | (pt & Ho & Heq)].
    + assert (Run (sstep m) (rcv kd ek k sn n) s (closed_st (rcv kd ek k sn n))
                (skipn (2 + N.to_nat (be_val (firstn 2 s))) s) ([RErr] ++ [])) as HR.
      { eapply RunStep; [exact Es|]. apply RunNeed. reflexivity. }
      rewrite (sk_Run_pump (sec_ok m) _ _ _ _ _ HR). right. auto.
    + exfalso. apply open_auth in Ho.
      assert (In (n, pt) [(n, enc_contiguous b)]) as Hin.
      { apply (Hu _ (framed_here s H2 Hl)); [unfold ctr_ok in Hok; lia | exact Ho]. }
      destruct Hin as [Hin|[]]. inversion Hin; subst pt. clear Hin.
      unfold s, SecFramer.rec_wire in Ho.
      set (ct := seal k n (enc_contiguous b)) in *.
      destruct (record_split_gen ct rest) as (_ & Hv & Hk). rewrite Hv, Hk in Ho.
      assert (U16 <= len ct) as Hbig.
      { unfold ct. rewrite seal_len. unfold small in Hs. unfold NOISE_MAX_PT, TAG, U16 in *. lia. }
      assert (len ct mod U16 < U16) as Hm by (apply N.mod_lt; discriminate).
      apply (f_equal (@length N)) in Ho. rewrite firstn_length in Ho. unfold len in *. lia.
Qed.

Lemma short_record_err m kd ek k sn n s : complete s = true -> be_val (firstn 2 s) < TAG ->
  sstep m (rcv kd ek k sn n) s =
  Step (closed_st (rcv kd ek k sn n)) (2 + N.to_nat (be_val (firstn 2 s))) [RErr].
Proof.
  unfold complete, SecFramer.sstep. intros H Hl. apply andb_prop in H. destruct H as [H1 H2].
  cbn [rcv r_closed].
  assert (len s <? 2 = false) as -> by lia.
  assert (len s <? 2 + be_val (firstn 2 s) = false) as -> by lia.
  unfold SecFramer.on_record, SecFramer.decrypt.
  assert (len (firstn (N.to_nat (be_val (firstn 2 s))) (skipn 2 s)) <? TAG = true) as ->.
  { unfold len. rewrite firstn_length. lia. }
  reflexivity.
Qed.

Lemma len_repeat (x : N) n : len (repeat x (N.to_nat n)) = n.
Proof. unfold len. rewrite repeat_length. lia. Qed.

Lemma one_long_frame_len more p : 255 < len p -> len p < U64 ->
  len (enc_contiguous [[ {| f_more := more; f_cmd := false; f_payload := p |} ]]) = 9 + len p.
Proof.
  intros H1 H2. unfold enc_contiguous. cbn [concat map app]. rewrite !app_nil_r.
  unfold enc_codec, enc_header_only, enc_header. cbn [f_payload f_more f_cmd].
  assert (len p <=? 255 = false) as -> by lia.
  rewrite len_app. unfold len at 1. cbn [length]. rewrite be_bytes_length. lia.
Qed.

(* the unconditional witness: one frame of 65520 bytes. The sender's call succeeds; the record goes out
   with length prefix 9; the peer reads a 9-byte "record", fails and closes. No AEAD reasoning. *)
Definition wrap_witness : list (list frame) :=
  [[ {| f_more := false; f_cmd := false; f_payload := repeat 0 (N.to_nat 65520) |} ]].

Theorem enc_roundtrip_any_size_refuted m ek k sn n :
  ctr_ok n = true ->
  fst (write_msg_batch {| c_kind := KCurve; c_ek := k; c_dk := ek; c_sn := n; c_rn := sn |} wrap_witness)
    = SOk (rec_wire k n wrap_witness) /\
  let '(st', _, o) := pump (sstep m) (smu key) 0 (rcv KCurve ek k sn n) (rec_wire k n wrap_witness) in
  o = [RErr] /\ r_closed st' = true.
Proof.
  intros Hok. split; [rewrite curve_any_size_accepted by exact Hok; reflexivity|].
  set (s := rec_wire k n wrap_witness).
  assert (len (enc_contiguous wrap_witness) = 65529) as Hpt.
  { unfold wrap_witness. rewrite one_long_frame_len; rewrite len_repeat; unfold U64; lia. }
  set (ct := seal k n (enc_contiguous wrap_witness)).
  assert (len ct = 65545) as Hct by (unfold ct; rewrite seal_len, Hpt; reflexivity).
  destruct (record_split_gen ct []) as (H1 & Hv & Hk).
  assert (s = record_of ct ++ []) as Hs by (rewrite app_nil_r; reflexivity).
  rewrite <- Hs in *. rewrite Hct in Hv. change (65545 mod U16) with 9 in Hv.
  assert (len s = 65547) as Hls.
  { rewrite Hs, app_nil_r. unfold record_of. rewrite len_app, Hct. unfold len. rewrite be_bytes_length. reflexivity. }
  assert (complete s = true) as Hcomp.
  { unfold complete. rewrite Hv, Hls. reflexivity. }
  assert (Run (sstep m) (rcv KCurve ek k sn n) s (closed_st (rcv KCurve ek k sn n))
            (skipn (2 + N.to_nat (be_val (firstn 2 s))) s) ([RErr] ++ [])) as HR.
  { eapply RunStep; [apply short_record_err; [exact Hcomp | rewrite Hv; reflexivity]|].
    apply RunNeed. reflexivity. }
  rewrite (sk_Run_pump (sec_ok m) _ _ _ _ _ HR). auto.
Qed.

(* ---------- nothing but length prefixes and seal outputs ---------- *)
Theorem no_cleartext c b w c' : write_msg_batch c b = (SOk w, c') ->
  w = be_bytes 2 (len (seal (c_ek c) (c_sn c) (enc_contiguous b)) mod U16) ++
      seal (c_ek c) (c_sn c) (enc_contiguous b).
Proof.
  unfold SecFramer.write_msg_batch, SecFramer.encrypt.
  destruct (c_kind c).
  - destruct (ctr_ok (c_sn c)); intros H; inversion H. reflexivity.
  - destruct (NOISE_MAX_PT <? _); [intros H; inversion H|].
    destruct (ctr_ok (c_sn c)); intros H; inversion H. reflexivity.
Qed.

(* the wire depends on the batch only through the output of [seal] *)
Theorem no_cleartext_noninterference c b1 b2 :
  seal (c_ek c) (c_sn c) (enc_contiguous b1) = seal (c_ek c) (c_sn c) (enc_contiguous b2) ->
  write_msg_batch c b1 = write_msg_batch c b2.
Proof.
  intros H. unfold SecFramer.write_msg_batch, SecFramer.encrypt.
  assert (len (enc_contiguous b1) = len (enc_contiguous b2)) as Hl.
  { pose proof (seal_len (c_ek c) (c_sn c) (enc_contiguous b1)) as A.
    pose proof (seal_len (c_ek c) (c_sn c) (enc_contiguous b2)) as B. rewrite H in A. lia. }
  rewrite H, Hl. reflexivity.
Qed.

(* ---------- heartbeats: PING / PONG are written outside the record layer ---------- *)
Lemma hb_ping_eq ttl : hb_ping ttl = [4; 7; 4; 80; 73; 78; 71] ++ be_bytes 2 (ttl mod 65536).
Proof.
  unfold hb_ping, enc_codec, enc_header_only, enc_header, cmd_frame, ping_body.
  cbn [f_payload f_more f_cmd].
  assert (len ((4 :: s_PING) ++ be_bytes 2 (ttl mod 65536) ++ []) = 7) as ->.
  { unfold len. rewrite !app_length, be_bytes_length. reflexivity. }
  change (7 <=? 255) with true. cbv iota. rewrite app_nil_r. reflexivity.
Qed.

Lemma hb_pong_eq ctx : len ctx <= 250 ->
  hb_pong ctx = [4; 5 + len ctx; 4; 80; 79; 78; 71] ++ ctx.
Proof.
  intros H. unfold hb_pong, enc_codec, enc_header_only, enc_header, cmd_frame, pong_body.
  cbn [f_payload f_more f_cmd].
  assert (len ((4 :: s_PONG) ++ ctx) = 5 + len ctx) as ->.
  { unfold len. rewrite app_length. cbn [length s_PONG]. lia. }
  assert (5 + len ctx <=? 255 = true) as -> by lia. reflexivity.
Qed.

(* the peer's framer reads the first two bytes of the PING frame (flags 0x04, size 7) as the record
   length 0x0407 = 1031 and waits: the PING is not decoded, no PONG is produced, and up to 1023 bytes
   that follow (honest records included) are not looked at *)
Theorem heartbeat_swallowed m kd ek k sn n ttl rest : len rest < 1024 ->
  pump (sstep m) (smu key) 0 (rcv kd ek k sn n) (hb_ping ttl ++ rest) =
  (rcv kd ek k sn n, hb_ping ttl ++ rest, []).
Proof.
  intros Hl. apply (sk_Run_pump (sec_ok m)). apply RunNeed.
  rewrite hb_ping_eq. unfold SecFramer.sstep. cbn [rcv r_closed].
  rewrite <- app_assoc. cbn [app firstn].
  change (be_val [4; 7]) with 1031.
  destruct (len _ <? 2); [reflexivity|].
  match goal with |- (if ?c then _ else _) = _ => assert (c = true) as -> end; [|reflexivity].
  unfold len in *. cbn [length]. rewrite app_length, be_bytes_length. lia.
Qed.

Theorem pong_swallowed m kd ek k sn n ctx rest : len ctx <= 250 -> len rest < 1024 ->
  pump (sstep m) (smu key) 0 (rcv kd ek k sn n) (hb_pong ctx ++ rest) =
  (rcv kd ek k sn n, hb_pong ctx ++ rest, []).
Proof.
  intros Hc Hl. apply (sk_Run_pump (sec_ok m)). apply RunNeed.
  rewrite hb_pong_eq by exact Hc. unfold SecFramer.sstep. cbn [rcv r_closed].
  rewrite <- app_assoc. cbn [app firstn].
  assert (be_val [4; 5 + len ctx] = 1029 + len ctx) as -> by (unfold be_val; cbn [fold_left]; lia).
  destruct (len _ <? 2); [reflexivity|].
  match goal with |- (if ?c then _ else _) = _ => assert (c = true) as -> end; [|reflexivity].
  unfold len in *. cbn [length]. rewrite app_length. lia.
Qed.

(* an honest endpoint: batches, then a heartbeat tick, then more batches (fewer than 1024 bytes of
   records). The peer delivers what came before the PING and nothing after it. *)
Theorem heartbeat_decodable_refuted m kd ek k sn n bs1 ttl bs2 cs :
  Forall small bs1 -> Forall (admitted m) (flat bs1) -> ctr_room n (length bs1) ->
  len (concat (rec_wires k (n + N.of_nat (length bs1)) bs2)) < 1024 ->
  concat cs = concat (rec_wires k n bs1) ++ hb_ping ttl ++ concat (rec_wires k (n + N.of_nat (length bs1)) bs2) ->
  feed (sstep m) (smu key) 0 (rcv kd ek k sn n) [] cs =
  (rcv kd ek k sn (n + N.of_nat (length bs1)),
   hb_ping ttl ++ concat (rec_wires k (n + N.of_nat (length bs1)) bs2),
   map RFrame (flat bs1)).
Proof.
  intros Hs Ha Hr Hl Hc.
  rewrite (sk_feed_quiescent_start (sec_ok m)) by reflexivity. cbn [app]. rewrite Hc.
  apply (sk_Run_pump (sec_ok m)).
  rewrite <- (app_nil_r (map RFrame _)).
  apply run_records; auto.
  pose proof (heartbeat_swallowed m kd ek k sn (n + N.of_nat (length bs1)) ttl _ Hl) as Hp.
  pose proof (sk_pump_Run (sec_ok m) (rcv kd ek k sn (n + N.of_nat (length bs1)))
                (hb_ping ttl ++ concat (rec_wires k (n + N.of_nat (length bs1)) bs2))) as HR.
  rewrite Hp in HR. exact HR.
Qed.

(* the receiving engine answers a PING that DID arrive inside a record with a PONG written in clear,
   outside the record layer (engine.rs process_data) *)
Lemma ping_answered_in_clear ttl ctx :
  data_on d_init (RFrame (cmd_frame (ping_body ttl ctx))) = (d_init, [OSend (hb_pong ctx) false]).
Proof.
  assert (parse_cmd (cmd_frame (ping_body ttl ctx)) = CPing ctx) as Hp.
  { unfold parse_cmd, cmd_frame, ping_body. cbn [f_cmd f_more f_payload negb orb be_bytes app s_PING].
    cbn [starts_with]. rewrite !N.eqb_refl. cbn [andb length Nat.leb skipn]. reflexivity. }
  unfold data_on, d_init. cbn [d_closed]. rewrite Hp. reflexivity.
Qed.

(* the side that sent the PING: no PONG can come back, so the next tick after the timeout closes *)
Lemma ping_then_timeout cfg g t0 ivl T :
  e_phase (g_st g) = PData -> e_version (g_st g) = Some V3 ->
  c_hb_ivl cfg = Some ivl -> c_hb_timeout cfg = Some T ->
  h_waiting (g_hb g) = false -> ivl <= t0 - h_last_activity (g_hb g) ->
  let '(g1, o1) := e_tick cfg g t0 in
  o1 = [OSend (hb_ping (N.min (T / 1000000) u16_max)) false] /\
  forall t1, T <= t1 - t0 ->
    snd (e_tick cfg g1 t1) = [OErr ETimeout] /\ e_phase (g_st (fst (e_tick cfg g1 t1))) = PClosed.
Proof.
  intros Hp Hv Hi Ht Hw Hd. unfold e_tick. rewrite Hp, Hv, Ht, Hi, Hw.
  assert (match h_last_ping (g_hb g) with Some p => false && (T <=? t0 - p) | None => false end = false) as ->
    by (destruct (h_last_ping (g_hb g)); reflexivity).
  cbn [negb andb]. assert (ivl <=? t0 - h_last_activity (g_hb g) = true) as -> by lia.
  split; [reflexivity|]. intros t1 H1.
  cbn [g_st g_hb h_last_ping h_waiting andb]. rewrite Hp, Hv.
  assert (T <=? t1 - t0 = true) as -> by lia. cbn [snd fst g_st closed set_phase e_phase]. auto.
Qed.

(* ---------- two sessions between the same static keys ---------- *)
Section Sessions.
Variables statics eph : Type.
Variable curve_kx : bool -> statics -> key * key.
Variable noise_split : bool -> statics -> eph -> eph -> key * key.
Notation curve_data_cipher := (curve_data_cipher key statics eph curve_kx).
Notation noise_data_cipher := (noise_data_cipher key statics eph noise_split).

(* CURVE: the data cipher does not depend on the ephemeral keys at all, and the counters restart
   at 1: EVERY session between the same static keys seals the same plaintext to the same bytes *)
Theorem sessions_differ_refuted server sk (e1 e2 e1' e2' : eph) b :
  write_msg_batch (curve_data_cipher server sk e1 e2) b = write_msg_batch (curve_data_cipher server sk e1' e2') b.
Proof. reflexivity. Qed.

Lemma record_of_inj a b : record_of a = record_of b -> a = b.
Proof.
  intros H. apply (f_equal (skipn 2)) in H. unfold record_of in H.
  rewrite !skipn_app, !be_bytes_length in H. cbn [Nat.sub] in H.
  rewrite !skipn_all2 in H by (rewrite be_bytes_length; lia). exact H.
Qed.

(* Noise: holds as soon as distinct ephemerals give distinct transport keys and ciphertexts under
   distinct keys differ (both idealisations are explicit premises) *)
Theorem sessions_differ_noise server sk (e1 e2 e1' e2' : eph) b :
  (forall k k' n p, seal k n p = seal k' n p -> k = k') ->
  snd (noise_split server sk e1 e2) <> snd (noise_split server sk e1' e2') ->
  small b ->
  fst (write_msg_batch (noise_data_cipher server sk e1 e2) b) <>
  fst (write_msg_batch (noise_data_cipher server sk e1' e2') b).
Proof.
  intros Hinj Hk Hs. unfold SecFramer.noise_data_cipher.
  destruct (noise_split server sk e1 e2) as [rx tx]. destruct (noise_split server sk e1' e2') as [rx' tx'].
  cbn [snd] in Hk. unfold cipher_new. cbn [ctr_start].
  rewrite !write_ok by (try exact Hs; reflexivity). cbn [fst].
  intros H. apply (f_equal wire_of) in H. cbn [wire_of] in H. rename H into H1. unfold SecFramer.rec_wire in H1. apply record_of_inj in H1. apply Hk. eapply Hinj. exact H1.
Qed.
End Sessions.

(* ---------- message level: what the engine hands to the application ---------- *)
Record wf_msg (msg : list frame) : Prop := {
  wm_split : exists init l, msg = init ++ [l] /\ Forall (fun f => f_more f = true /\ f_cmd f = false) init /\
                            f_more l = false /\ f_cmd l = false;
  wm_len : (length msg <= MAX_FRAMES)%nat
}.

Lemma data_fold_app st a : forall b,
  data_fold st (a ++ b) =
  let '(s1, e1) := data_fold st a in let '(s2, e2) := data_fold s1 b in (s2, e1 ++ e2).
Proof.
  revert st. induction a as [|x a IH]; intros st b.
  - cbn. destruct (data_fold st b). reflexivity.
  - cbn [app data_fold]. destruct (data_on st x) as [st1 e1]. rewrite IH.
    destruct (data_fold st1 a) as [s1 e1']. destruct (data_fold s1 b) as [s2 e2].
    rewrite app_assoc. reflexivity.
Qed.

Lemma data_fold_more init : forall p,
  Forall (fun f => f_more f = true /\ f_cmd f = false) init -> (length p + length init < MAX_FRAMES)%nat ->
  data_fold {| d_partial := p; d_closed := false |} (map RFrame init) =
  ({| d_partial := p ++ init; d_closed := false |}, []).
Proof.
  induction init as [|f init IH]; intros p Hall Hlen.
  - cbn. rewrite app_nil_r. reflexivity.
  - inversion Hall as [|? ? [Hm Hc] Hall']; subst. cbn [map data_fold].
    unfold data_on at 1. cbn [d_closed d_partial]. rewrite Hc, Hm.
    cbn [length] in Hlen.
    destruct (MAX_FRAMES <=? length p)%nat eqn:E; [apply Nat.leb_le in E; lia|].
    rewrite IH; auto.
    + rewrite <- app_assoc. reflexivity.
    + rewrite app_length. cbn [length]. lia.
Qed.

Lemma data_fold_msg msg : wf_msg msg ->
  data_fold d_init (map RFrame msg) = (d_init, [ODeliver msg]).
Proof.
  intros [(init & l & -> & Hi & Hm & Hc) Hlen]. rewrite app_length in Hlen. cbn [length] in Hlen.
  rewrite map_app, data_fold_app. unfold d_init at 1.
  rewrite data_fold_more by (auto; cbn [length]; lia). cbn [app map data_fold].
  unfold data_on. cbn [d_closed d_partial]. rewrite Hc, Hm.
  destruct (MAX_FRAMES <=? length init)%nat eqn:E; [apply Nat.leb_le in E; lia|]. reflexivity.
Qed.

Lemma data_fold_msgs msgs : Forall wf_msg msgs ->
  data_fold d_init (map RFrame (concat msgs)) = (d_init, map ODeliver msgs).
Proof.
  induction 1 as [|msg msgs Hm Hms IH]; [reflexivity|].
  cbn [concat]. rewrite map_app, data_fold_app, data_fold_msg by exact Hm. rewrite IH. reflexivity.
Qed.

Definition all_msgs (bs : list (list (list frame))) : list (list frame) := concat bs.
Lemma flat_concat bs : flat bs = concat (all_msgs bs).
Proof.
  unfold flat, all_msgs. induction bs as [|b bs IH]; [reflexivity|].
  cbn [map concat]. rewrite concat_app, IH. reflexivity.
Qed.

(* the application sees whole messages of a prefix of the batches, once each, in order; then
   nothing, or one error *)
Theorem tamper_messages m kd ek k sn n0 bs cs :
  Forall (admitted m) (flat bs) -> Forall wf_msg (all_msgs bs) -> ctr_room n0 (length bs) ->
  unforged k (sealed n0 bs) (concat cs) ->
  let '(_, _, o) := feed (sstep m) (smu key) 0 (rcv kd ek k sn n0) [] cs in
  exists j', (j' <= length bs)%nat /\
    (snd (data_fold d_init o) = map ODeliver (all_msgs (firstn j' bs)) \/
     snd (data_fold d_init o) = map ODeliver (all_msgs (firstn j' bs)) ++ [OErr ESecurity]).
Proof.
  intros Ha Hw Hr Hu.
  pose proof (tamper_prefix_safety m kd ek k sn n0 bs cs Ha Hr Hu) as H.
  destruct (feed _ _ _ _ _ _) as [[st' r] o].
  destruct H as (j' & Hj & Hres). exists j'. split; [exact Hj|].
  assert (Forall wf_msg (all_msgs (firstn j' bs))) as Hw'.
  { unfold all_msgs in *. rewrite <- (firstn_skipn j' bs), concat_app in Hw. apply Forall_app in Hw. apply Hw. }
  destruct Hres as [[-> _] | [-> _]].
  - left. rewrite flat_concat, data_fold_msgs by exact Hw'. reflexivity.
  - right. rewrite flat_concat, data_fold_app, data_fold_msgs by exact Hw'. reflexivity.
Qed.

End Proofs.

(* ---------- the toy AEAD satisfies the laws (non-vacuity of the Section hypotheses) ---------- *)
Lemma toy_tag_len k n p : length (toy_tag k n p) = 16%nat.
Proof. unfold toy_tag. rewrite !app_length, !be_bytes_length. reflexivity. Qed.

Lemma toy_open_seal k n p : toy_open k n (toy_seal k n p) = Some p.
Proof.
  unfold toy_open, toy_seal.
  destruct (firstn_skipn_app 16 (toy_tag k n p) p (toy_tag_len k n p)) as [Hf Hs].
  rewrite Hf, Hs, bytes_eqb_refl, app_length, toy_tag_len. reflexivity.
Qed.

Lemma toy_open_auth k n c p : toy_open k n c = Some p -> c = toy_seal k n p.
Proof.
  unfold toy_open, toy_seal. intros H.
  destruct ((16 <=? length c)%nat && bytes_eqb (firstn 16 c) (toy_tag k n (skipn 16 c))) eqn:E; [|discriminate].
  apply andb_prop in E. destruct E as [_ E]. apply bytes_eqb_eq in E.
  assert (p = skipn 16 c) as -> by congruence.
  rewrite <- E. symmetry. apply firstn_skipn.
Qed.

Lemma toy_seal_len k n p : len (toy_seal k n p) = len p + TAG.
Proof. unfold toy_seal, len. rewrite app_length, toy_tag_len. unfold TAG. lia. Qed.

Lemma toy_seal_inj k n p n' p' : n < U64 -> n' < U64 -> toy_seal k n p = toy_seal k n' p' -> n = n' /\ p = p'.
Proof.
  intros Hn Hn' H. unfold toy_seal in H.
  pose proof (f_equal (firstn 16) H) as Hf. pose proof (f_equal (skipn 16) H) as Hs.
  destruct (firstn_skipn_app 16 (toy_tag k n p) p (toy_tag_len k n p)) as [A B].
  destruct (firstn_skipn_app 16 (toy_tag k n' p') p' (toy_tag_len k n' p')) as [A' B'].
  rewrite A, A' in Hf. rewrite B, B' in Hs. split; [|exact Hs].
  unfold toy_tag in Hf. apply (f_equal (firstn 8)) in Hf.
  rewrite !firstn_app_le, !firstn_all2 in Hf by (rewrite be_bytes_length; lia).
  apply (f_equal be_val) in Hf. rewrite !be_roundtrip in Hf. change (256 ^ N.of_nat 8) with U64 in Hf.
  rewrite !N.mod_small in Hf by assumption. exact Hf.
Qed.

(* a replayed record: the stream [w0 ++ w0] is unforged, so the tamper theorems apply to it *)
Definition ex_b0 : list (list frame) := [[ {| f_more := false; f_cmd := false; f_payload := [1; 2; 3] |} ]].
Definition ex_b1 : list (list frame) := [[ {| f_more := true; f_cmd := false; f_payload := [9] |};
                                          {| f_more := false; f_cmd := false; f_payload := fill 300 5 |} ]].
Definition ex_key : N := 23130.
Definition ex_w0 : bytes := rec_wire N toy_seal ex_key 1 ex_b0.

Lemma ex_replay_unforged : unforged N toy_seal ex_key (sealed 1 [ex_b0; ex_b1]) (ex_w0 ++ ex_w0).
Proof.
  assert (forall c, framed (ex_w0 ++ ex_w0) c -> c = toy_seal ex_key 1 (enc_contiguous ex_b0)) as Hfr.
  { intros c H.
    inversion H as [s A B | s c' A B C]; subst; [vm_compute; reflexivity|].
    vm_compute in C.
    inversion C as [s A' B' | s c'' A' B' C']; subst; [vm_compute; reflexivity|].
    vm_compute in C'. inversion C' as [s A'' B'' | s c''' A'' B'' C'']; vm_compute in A''; lia. }
  intros c Hc n p Hn Heq. rewrite (Hfr c Hc) in Heq.
  destruct (toy_seal_inj ex_key 1 (enc_contiguous ex_b0) n p) as [<- <-]; [unfold U64; lia | exact Hn | exact Heq |].
  left. reflexivity.
Qed.

(* ---------- the statements as exported to Props/C18.v: the AEAD laws bundled as one premise ---------- *)
Definition ideal_aead {key : Type} (seal : key -> N -> bytes -> bytes) (open : key -> N -> bytes -> option bytes) : Prop :=
  (forall k n p, open k n (seal k n p) = Some p) /\
  (forall k n c p, open k n c = Some p -> c = seal k n p) /\
  (forall k n p, len (seal k n p) = len p + TAG).

Lemma toy_ideal : ideal_aead toy_seal toy_open.
Proof. split; [exact toy_open_seal | split; [exact toy_open_auth | exact toy_seal_len]]. Qed.

Section Bundled.
Variable key : Type.
Variable seal : key -> N -> bytes -> bytes.
Variable open : key -> N -> bytes -> option bytes.
Hypothesis ideal : ideal_aead seal open.
Let h1 := proj1 ideal.
Let h2 := proj1 (proj2 ideal).
Let h3 := proj2 (proj2 ideal).

Lemma x_stepper_ok m : stepper_ok (sstep key open m) (smu key) 0.
Proof. eapply sec_ok; eauto. Qed.
Definition x_chunk_independent := recv_chunk_independent key seal open h1 h2 h3.
Definition x_send_all_ok := send_all_ok key seal open h1 h2 h3.
Definition x_enc_roundtrip_small := enc_roundtrip_small key seal open h1 h2 h3.
Definition x_noise_large_refused := noise_large_refused key seal open h1 h2 h3.
Definition x_curve_any_size_accepted := curve_any_size_accepted key seal open h1 h2 h3.
Definition x_wrapped_record_undecodable := wrapped_record_undecodable key seal open h1 h2 h3.
Definition x_enc_roundtrip_any_size_refuted := enc_roundtrip_any_size_refuted key seal open h1 h2 h3.
Definition x_tamper_prefix_safety := tamper_prefix_safety key seal open h1 h2 h3.
Definition x_tamper_detected := tamper_detected key seal open h1 h2 h3.
Definition x_tamper_messages := tamper_messages key seal open h1 h2 h3.
Definition x_no_cleartext := no_cleartext key seal.
Definition x_no_cleartext_noninterference := no_cleartext_noninterference key seal h3.
Definition x_heartbeat_swallowed := heartbeat_swallowed key seal open h1 h2 h3.
Definition x_pong_swallowed := pong_swallowed key seal open h1 h2 h3.
Definition x_heartbeat_decodable_refuted := heartbeat_decodable_refuted key seal open h1 h2 h3.
Definition x_ping_then_timeout := ping_then_timeout key seal open h1 h2 h3.
Definition x_sessions_differ_refuted := sessions_differ_refuted key seal.
Definition x_sessions_differ_noise := sessions_differ_noise key seal open h1 h2 h3.
End Bundled.
