(* Proofs about the record layer of encrypted connections (Model/SecFramer.v), relative to an
   ideal (symbolic) AEAD: the laws of [seal]/[open] are Section hypotheses and become explicit
   premises of every exported theorem. *)
From RZ Require Import Base.Prelude Base.Stepper Model.Codec Model.Engine Model.SecFramer Proofs.CodecProofs.
Local Open Scope N_scope.

(* ---------- small arithmetic / byte lemmas (no AEAD) ---------- *)
Lemma be2_val x : x < U16 -> be_val (be_bytes 2 x) = x.
Proof.
  intros H. rewrite be_roundtrip. change (256 ^ N.of_nat 2) with U16. apply N.mod_small. exact H.
Qed.

Lemma be2_of_val a b : a < 256 -> b < 256 -> be_bytes 2 (be_val [a; b]) = [a; b].
Proof.
  intros Ha Hb. unfold be_val. cbn [fold_left be_bytes app].
  assert ((0 * 256 + a) * 256 + b = a * 256 + b) as -> by lia.
  f_equal; [|f_equal]; unfold U16 in *; lia.
Qed.

Lemma be_val2_lt a b : a < 256 -> b < 256 -> be_val [a; b] < U16.
Proof. intros. unfold be_val, U16. cbn [fold_left]. lia. Qed.

Lemma len_app (a b : bytes) : len (a ++ b) = len a + len b.
Proof. unfold len. rewrite app_length. lia. Qed.

Lemma bytes_eqb_refl a : bytes_eqb a a = true.
Proof. induction a as [|x a IH]; cbn [bytes_eqb]; [reflexivity|]. rewrite IH. rewrite N.eqb_refl. reflexivity. Qed.
Lemma bytes_eqb_eq a : forall b, bytes_eqb a b = true -> a = b.
Proof.
  induction a as [|x a IH]; intros [|y b] H; cbn [bytes_eqb] in H; try discriminate; [reflexivity|].
  apply andb_prop in H. destruct H as [H1 H2]. apply N.eqb_eq in H1. subst. f_equal. apply IH. exact H2.
Qed.

(* the records the length-prefix framing cuts out of a byte stream (independent of any key) *)
Inductive framed : bytes -> bytes -> Prop :=
| framed_here s : 2 <= len s -> 2 + be_val (firstn 2 s) <= len s ->
    framed s (firstn (N.to_nat (be_val (firstn 2 s))) (skipn 2 s))
| framed_next s c : 2 <= len s -> 2 + be_val (firstn 2 s) <= len s ->
    framed (skipn (2 + N.to_nat (be_val (firstn 2 s))) s) c -> framed s c.

(* frames of a list of batches; each batch is a list of messages, each message a list of frames *)
Definition flat (bs : list (list (list frame))) : list frame := concat (map (@concat frame) bs).

Lemma flat_cons b bs : flat (b :: bs) = concat b ++ flat bs.
Proof. reflexivity. Qed.
Lemma flat_app a b : flat (a ++ b) = flat a ++ flat b.
Proof. unfold flat. rewrite map_app, concat_app. reflexivity. Qed.


(* ---------- plaintext.chunks(65519) ---------- *)
Definition okc (ch : bytes) : Prop := len ch <= NOISE_MAX_PT.

Lemma CHUNK_pos : (0 < CHUNK)%nat.
Proof. unfold CHUNK, NOISE_MAX_PT. lia. Qed.

Lemma chunk_fuel_spec : forall f p, (length p <= f)%nat ->
  concat (chunk_fuel f p) = p /\ Forall okc (chunk_fuel f p).
Proof.
  induction f as [|f IH]; intros p Hl.
  - destruct p; [split; [reflexivity | constructor] | cbn in Hl; lia].
  - destruct p as [|x t]; [split; [reflexivity | constructor]|].
    cbn [chunk_fuel]. pose proof CHUNK_pos as Hc.
    destruct (IH (skipn CHUNK (x :: t))) as [H1 H2].
    { rewrite skipn_length. lia. }
    split.
    + cbn [concat]. rewrite H1. apply firstn_skipn.
    + constructor; [|exact H2]. unfold okc, len. rewrite firstn_length. unfold CHUNK. lia.
Qed.
Lemma chunks_concat p : concat (chunks p) = p.
Proof. apply chunk_fuel_spec. unfold chunks. lia. Qed.
Lemma chunks_okc p : Forall okc (chunks p).
Proof. apply chunk_fuel_spec. unfold chunks. lia. Qed.
Lemma chunks_nonempty p : p <> [] -> exists ch r, chunks p = ch :: r.
Proof. destruct p as [|x t]; [congruence|]. intros _. unfold chunks. cbn [length chunk_fuel]. eauto. Qed.

Lemma all_chunks_okc bs : Forall okc (all_chunks bs).
Proof.
  unfold all_chunks. induction bs as [|b bs IH]; [constructor|]. cbn [map concat].
  apply Forall_app. split; [apply chunks_okc | exact IH].
Qed.
Lemma all_chunks_concat bs : concat (all_chunks bs) = concat (map enc_codec (flat bs)).
Proof.
  unfold all_chunks. induction bs as [|b bs IH]; [reflexivity|].
  cbn [map concat]. rewrite concat_app, chunks_concat, IH, flat_cons, map_app, concat_app. reflexivity.
Qed.

(* ---------- the plaintext parser (Codec.buffer_step) over a growing decrypted buffer ---------- *)
(* PR m x d fs: decoding the plaintext x yields exactly the frames fs, no error, leftover d *)
Definition PR (m : Z) (x d : bytes) (fs : list frame) : Prop :=
  Run (buffer_step m) false x false d (map Some fs).

Lemma pump_failed m b : pump (buffer_step m) buffer_mu 1 true b = (true, b, []).
Proof. apply (sk_Run_pump (buffer_ok m)). apply RunNeed. reflexivity. Qed.

Lemma map_some_app_inv {A} (o1 o2 : list (option A)) : forall fs, o1 ++ o2 = map Some fs ->
  exists f1 f2, o1 = map Some f1 /\ o2 = map Some f2 /\ fs = f1 ++ f2.
Proof.
  induction o1 as [|x o1 IH]; intros fs H.
  - exists [], fs. auto.
  - destruct fs as [|f fs]; [discriminate|]. cbn [app map] in H. injection H as -> H.
    destruct (IH _ H) as (f1 & f2 & -> & -> & ->). exists (f :: f1), f2. auto.
Qed.
Lemma map_some_inj {A} (a : list A) : forall b, map Some a = map Some b -> a = b.
Proof.
  induction a as [|x a IH]; intros [|y b] H; try discriminate; [reflexivity|].
  cbn in H. injection H as -> H. f_equal. auto.
Qed.

Lemma PR_pump m x d fs : PR m x d fs -> pump (buffer_step m) buffer_mu 1 false x = (false, d, map Some fs).
Proof. apply (sk_Run_pump (buffer_ok m)). Qed.
Lemma pump_PR m x d fs : pump (buffer_step m) buffer_mu 1 false x = (false, d, map Some fs) -> PR m x d fs.
Proof.
  intros H. pose proof (sk_pump_Run (buffer_ok m) false x) as HR. rewrite H in HR. exact HR.
Qed.

Lemma PR_split m b y r fs : PR m (b ++ y) r fs ->
  exists r1 f1 f2, PR m b r1 f1 /\ fs = f1 ++ f2 /\
                   pump (buffer_step m) buffer_mu 1 false (r1 ++ y) = (false, r, map Some f2).
Proof.
  intros H. apply PR_pump in H. rewrite (sk_pump_app (buffer_ok m)) in H.
  pose proof (sk_pump_Run (buffer_ok m) false b) as HR.
  destruct (pump (buffer_step m) buffer_mu 1 false b) as [[s1 r1] o1].
  destruct s1.
  - rewrite pump_failed in H. discriminate.
  - destruct (pump (buffer_step m) buffer_mu 1 false (r1 ++ y)) as [[s2 r2] o2] eqn:E2.
    injection H as -> -> H.
    destruct (map_some_app_inv _ _ _ H) as (f1 & f2 & -> & -> & ->).
    exists r1, f1, f2. repeat split; auto.
Qed.

Lemma PR_det m x d1 f1 d2 f2 : PR m x d1 f1 -> PR m x d2 f2 -> d1 = d2 /\ f1 = f2.
Proof.
  intros A B. apply PR_pump in A. apply PR_pump in B. rewrite A in B. injection B as -> B.
  split; [reflexivity | apply map_some_inj; exact B].
Qed.

Lemma PR_quiescent m x d fs : PR m x d fs -> buffer_step m false d = Need.
Proof. intros H. exact (Run_quiescent _ _ _ _ _ _ _ _ H). Qed.

Lemma PR_full m F : Forall (admitted m) F -> PR m (concat (map enc_codec F)) [] F.
Proof.
  intros Ha. unfold PR. rewrite <- (app_nil_r (concat _)), <- (app_nil_r (map Some F)).
  apply run_buffer_frames; [exact Ha|]. apply RunNeed. reflexivity.
Qed.

Lemma PR_prefix m b y d fs dE FE : PR m b d fs -> PR m (b ++ y) dE FE -> prefix fs FE.
Proof.
  intros A B. destruct (PR_split _ _ _ _ _ B) as (r1 & f1 & f2 & A' & -> & _).
  destruct (PR_det _ _ _ _ _ _ A A') as [_ ->]. apply prefix_app.
Qed.

Lemma concat_firstn_skipn {A} (l : list (list A)) j : concat l = concat (firstn j l) ++ concat (skipn j l).
Proof. rewrite <- concat_app, firstn_skipn. reflexivity. Qed.

Lemma firstn_S_nth {A} (l : list A) : forall j x, nth_error l j = Some x -> firstn (S j) l = firstn j l ++ [x].
Proof.
  induction l as [|y l IH]; intros [|j] x H; cbn in H; try discriminate.
  - inversion H; subst. reflexivity.
  - change (firstn (S (S j)) (y :: l)) with (y :: firstn (S j) l). rewrite (IH _ _ H). reflexivity.
Qed.

Section Proofs.
Variable key : Type.
Variable seal : key -> N -> bytes -> bytes.
Variable open : key -> N -> bytes -> option bytes.

(* the ideal AEAD *)
Hypothesis open_seal : forall k n p, open k n (seal k n p) = Some p.
Hypothesis open_auth : forall k n c p, open k n c = Some p -> c = seal k n p.
Hypothesis seal_len : forall k n p, len (seal k n p) = len p + TAG.

Notation cipher := (cipher key).
Notation rstate := (rstate key).
Notation sstep := (sstep key open).
Notation on_record := (on_record key open).
Notation decrypt := (decrypt key open).
Notation encrypt := (encrypt key seal).
Notation write_msg_batch := (write_msg_batch key seal).
Notation send_all := (send_all key seal).
Notation chunk_wires := (chunk_wires key seal).
Notation seal_chunks := (seal_chunks key seal).
Notation recv_run := (recv_run key open).

(* ---------- try_read_msg is an append-stable stepper ---------- *)
Lemma sstep_mono m : step_mono (sstep m).
Proof.
  intros st b d st' n o. unfold SecFramer.sstep.
  destruct (r_closed st); [discriminate|].
  destruct (len b <? 2) eqn:E1; [discriminate|].
  assert (len (b ++ d) <? 2 = false) as -> by (rewrite len_app; lia).
  assert (firstn 2 (b ++ d) = firstn 2 b) as -> by (apply firstn_app_le; unfold len in E1; lia).
  set (l := be_val (firstn 2 b)).
  destruct (len b <? 2 + l) eqn:E2; [discriminate|].
  assert (len (b ++ d) <? 2 + l = false) as -> by (rewrite len_app; lia).
  rewrite skipn_app_le by (unfold len in E1; lia).
  rewrite firstn_app_le by (rewrite skipn_length; unfold len in E2; lia).
  auto.
Qed.
Lemma sstep_bounded m : step_bounded (sstep m).
Proof.
  intros st b st' n o. unfold SecFramer.sstep.
  destruct (r_closed st); [discriminate|].
  destruct (len b <? 2) eqn:E1; [discriminate|].
  set (l := be_val (firstn 2 b)).
  destruct (len b <? 2 + l) eqn:E2; [discriminate|].
  destruct (on_record m st _) as [st1 o1]. intros H. inversion H; subst. unfold len in E2. lia.
Qed.
Lemma sstep_measure m : step_measure (sstep m) (smu key) 0.
Proof.
  intros st b st' n o. unfold SecFramer.sstep.
  destruct (r_closed st); [discriminate|].
  destruct (len b <? 2) eqn:E1; [discriminate|].
  destruct (len b <? 2 + _) eqn:E2; [discriminate|].
  destruct (on_record m st _) as [st1 o1]. intros H. inversion H; subst. left. unfold smu. lia.
Qed.
Lemma sec_ok m : stepper_ok (sstep m) (smu key) 0.
Proof. constructor; [apply sstep_mono | apply sstep_bounded | apply sstep_measure]. Qed.

Lemma closed_need m st b : r_closed st = true -> sstep m st b = Need.
Proof. intros H. unfold SecFramer.sstep. rewrite H. reflexivity. Qed.
Lemma run_closed m st b s' r o : r_closed st = true -> Run (sstep m) st b s' r o -> s' = st /\ r = b /\ o = [].
Proof.
  intros Hc HR. inversion HR; subst; [auto|]. rewrite closed_need in H by exact Hc. discriminate.
Qed.

Theorem recv_chunk_independent m c cs1 cs2 :
  concat cs1 = concat cs2 -> recv_run m c cs1 = recv_run m c cs2.
Proof.
  intros Hc. unfold SecFramer.recv_run.
  apply (sk_feed_chunk_independent (sec_ok m)); [reflexivity | exact Hc].
Qed.

Lemma recv_run_pump m c cs : recv_run m c cs = pump (sstep m) (smu key) 0 (r_init c) (concat cs).
Proof.
  unfold SecFramer.recv_run. rewrite (sk_feed_quiescent_start (sec_ok m)) by reflexivity. reflexivity.
Qed.

(* ---------- honest records ---------- *)
(* receiver state: counters, decrypted_buffer = d, open *)
Definition rcvd (kd : ckind) (ek k : key) (sn n : N) (d : bytes) : rstate :=
  {| r_c := {| c_kind := kd; c_ek := ek; c_dk := k; c_sn := sn; c_rn := n |}; r_dbuf := d; r_closed := false |}.
Definition rcv (kd : ckind) (ek k : key) (sn n : N) : rstate := rcvd kd ek k sn n [].

Lemma record_split ct rest : len ct < U16 ->
  len (record_of ct ++ rest) <? 2 = false /\
  firstn 2 (record_of ct ++ rest) = be_bytes 2 (len ct) /\
  be_val (firstn 2 (record_of ct ++ rest)) = len ct /\
  skipn 2 (record_of ct ++ rest) = ct ++ rest.
Proof.
  intros Hs. unfold record_of. rewrite N.mod_small by exact Hs. rewrite <- app_assoc.
  assert (length (be_bytes 2 (len ct)) = 2%nat) as H2 by apply be_bytes_length.
  destruct (firstn_skipn_app 2 (be_bytes 2 (len ct)) (ct ++ rest) H2) as [Hf Hk].
  rewrite Hf, Hk. repeat split.
  - rewrite len_app. unfold len at 1. rewrite H2. lia.
  - apply be2_val. exact Hs.
Qed.

Lemma decrypt_honest kd ek k sn n pt : ctr_ok n = true ->
  decrypt {| c_kind := kd; c_ek := ek; c_dk := k; c_sn := sn; c_rn := n |} (seal k n pt) =
  DcOk pt {| c_kind := kd; c_ek := ek; c_dk := k; c_sn := sn; c_rn := n + 1 |}.
Proof.
  intros Hc. unfold SecFramer.decrypt. rewrite seal_len.
  assert (len pt + TAG <? TAG = false) as -> by lia.
  cbn [c_kind c_dk c_rn]. rewrite Hc, open_seal. destruct kd; reflexivity.
Qed.


Lemma okc_ct k n ch : okc ch -> len (seal k n ch) < U16.
Proof. unfold okc. intros H. rewrite seal_len. unfold NOISE_MAX_PT, TAG, U16 in *. lia. Qed.

Lemma step_chunk m kd ek k sn n d ch rest d' fs' :
  okc ch -> ctr_ok n = true ->
  pump (buffer_step m) buffer_mu 1 false (d ++ ch) = (false, d', map Some fs') ->
  sstep m (rcvd kd ek k sn n d) (record_of (seal k n ch) ++ rest) =
  Step (rcvd kd ek k sn (n + 1) d') (length (record_of (seal k n ch))) (map RFrame fs').
Proof.
  intros Hs Hc Hp. set (ct := seal k n ch).
  pose proof (okc_ct k n ch Hs) as Hl. fold ct in Hl.
  destruct (record_split ct rest Hl) as (H1 & H2 & H3 & H4).
  unfold SecFramer.sstep. cbn [rcvd r_closed]. rewrite H1, H3, H4.
  assert (len (record_of ct ++ rest) <? 2 + len ct = false) as ->.
  { rewrite len_app. unfold record_of. rewrite len_app. unfold len at 1. rewrite be_bytes_length. lia. }
  unfold len at 1. rewrite Nat2N.id. rewrite firstn_app_le, firstn_all by lia.
  unfold SecFramer.on_record. cbn [rcvd r_c r_dbuf]. unfold ct at 1. rewrite decrypt_honest by exact Hc.
  rewrite Hp, map_map. cbn [conv].
  f_equal. unfold record_of. rewrite app_length, be_bytes_length. unfold len. rewrite Nat2N.id. reflexivity.
Qed.

(* counters stay below 2^64 for the whole sequence *)
Definition ctr_room (n : N) (k : nat) : Prop := n + N.of_nat k + 1 < U64.

Lemma run_chunks m kd ek k sn : forall chs n d d' fs' rest s' r o,
  Forall okc chs -> ctr_room n (length chs) -> buffer_step m false d = Need ->
  Run (buffer_step m) false (d ++ concat chs) false d' (map Some fs') ->
  Run (sstep m) (rcvd kd ek k sn (n + N.of_nat (length chs)) d') rest s' r o ->
  Run (sstep m) (rcvd kd ek k sn n d) (concat (chunk_wires k n chs) ++ rest) s' r (map RFrame fs' ++ o).
Proof.
  induction chs as [|ch chs IH]; intros n d d' fs' rest s' r o Hs Hr Hq HP HR.
  - cbn [concat] in HP. rewrite app_nil_r in HP.
    destruct (Run_det _ _ _ _ _ _ _ _ _ _ _ HP (RunNeed _ _ _ _ _ Hq)) as (_ & -> & Hm).
    destruct fs'; [|discriminate]. cbn [length] in HR. replace (n + N.of_nat 0) with n in HR by lia. exact HR.
  - inversion Hs; subst. cbn [concat] in HP. rewrite app_assoc in HP.
    destruct (PR_split _ _ _ _ _ HP) as (r1 & f1 & f2 & HA & -> & HB).
    cbn [SecFramer.chunk_wires concat]. rewrite map_app, <- !app_assoc.
    eapply RunStep.
    + apply (step_chunk m kd ek k sn n d ch _ r1 f1); auto; [unfold ctr_room in Hr; unfold ctr_ok; lia | apply PR_pump; exact HA].
    + rewrite skipn_app, skipn_all, Nat.sub_diag. cbn [app skipn].
      apply (IH (n + 1) r1 d' f2); auto.
      * unfold ctr_room in *. cbn [length] in Hr. lia.
      * eapply PR_quiescent; eauto.
      * apply pump_PR. exact HB.
      * replace (n + 1 + N.of_nat (length chs)) with (n + N.of_nat (length (ch :: chs))) by (cbn [length]; lia).
        exact HR.
Qed.

(* enc_roundtrip_any_size: whatever an endpoint accepts - any number of batches of ANY size - is sealed in
   records that the peer (same key, counters in lock-step) decodes to exactly the frames that were sent,
   for every segmentation of the byte stream *)
Theorem enc_roundtrip_any_size m kd ek k sn n bs cs :
  Forall (admitted m) (flat bs) -> ctr_room n (length (all_chunks bs)) ->
  concat cs = concat (chunk_wires k n (all_chunks bs)) ->
  feed (sstep m) (smu key) 0 (rcv kd ek k sn n) [] cs =
    (rcv kd ek k sn (n + N.of_nat (length (all_chunks bs))), [], map RFrame (flat bs)).
Proof.
  intros Ha Hr Hc.
  rewrite (sk_feed_quiescent_start (sec_ok m)) by reflexivity. cbn [app]. rewrite Hc.
  apply (sk_Run_pump (sec_ok m)).
  rewrite <- (app_nil_r (concat _)), <- (app_nil_r (map RFrame _)).
  unfold rcv. apply (run_chunks m kd ek k sn (all_chunks bs) n [] []); auto.
  - apply all_chunks_okc.
  - cbn [app]. rewrite all_chunks_concat. apply PR_full. exact Ha.
  - apply RunNeed. reflexivity.
Qed.

(* what the sender really emits: every call succeeds for every size, one record per chunk *)
Lemma seal_chunks_ok kd ek dk rn : forall chs sn out, Forall okc chs -> ctr_room sn (length chs) ->
  seal_chunks {| c_kind := kd; c_ek := ek; c_dk := dk; c_sn := sn; c_rn := rn |} chs out =
  (SOk (out ++ concat (chunk_wires ek sn chs)),
   {| c_kind := kd; c_ek := ek; c_dk := dk; c_sn := sn + N.of_nat (length chs); c_rn := rn |}).
Proof.
  induction chs as [|ch chs IH]; intros sn out Hs Hr.
  - cbn. rewrite app_nil_r. replace (sn + N.of_nat 0) with sn by lia. reflexivity.
  - inversion Hs; subst. cbn [SecFramer.seal_chunks].
    assert (ctr_ok sn = true) as Hc by (unfold ctr_room in Hr; unfold ctr_ok; lia).
    assert (encrypt {| c_kind := kd; c_ek := ek; c_dk := dk; c_sn := sn; c_rn := rn |} ch =
            EOk (seal ek sn ch) {| c_kind := kd; c_ek := ek; c_dk := dk; c_sn := sn + 1; c_rn := rn |}) as ->.
    { unfold SecFramer.encrypt. cbn [c_kind c_sn c_ek]. rewrite Hc. destruct kd; [reflexivity|].
      unfold okc in H1. assert (NOISE_MAX_PT <? len ch = false) as -> by lia. reflexivity. }
    rewrite IH; auto.
    2:{ unfold ctr_room in *. cbn [length] in Hr. lia. }
    cbn [SecFramer.chunk_wires concat]. rewrite <- app_assoc. f_equal. f_equal. cbn [length]. lia.
Qed.

Theorem write_ok kd ek dk sn rn b : ctr_room sn (length (chunks (enc_contiguous b))) ->
  write_msg_batch {| c_kind := kd; c_ek := ek; c_dk := dk; c_sn := sn; c_rn := rn |} b =
  (SOk (concat (chunk_wires ek sn (chunks (enc_contiguous b)))),
   {| c_kind := kd; c_ek := ek; c_dk := dk; c_sn := sn + N.of_nat (length (chunks (enc_contiguous b))); c_rn := rn |}).
Proof.
  intros Hr. unfold SecFramer.write_msg_batch, SecFramer.seal_records.
  rewrite seal_chunks_ok; [reflexivity | apply chunks_okc | exact Hr].
Qed.

Lemma chunk_wires_app k : forall a n b,
  chunk_wires k n (a ++ b) = chunk_wires k n a ++ chunk_wires k (n + N.of_nat (length a)) b.
Proof.
  induction a as [|x a IH]; intros n b.
  - cbn. replace (n + N.of_nat 0) with n by lia. reflexivity.
  - cbn [app SecFramer.chunk_wires length]. rewrite IH. f_equal. f_equal. f_equal. lia.
Qed.

Theorem send_all_ok kd ek dk rn : forall bs sn, ctr_room sn (length (all_chunks bs)) ->
  exists ws,
  send_all {| c_kind := kd; c_ek := ek; c_dk := dk; c_sn := sn; c_rn := rn |} bs =
  (map SOk ws,
   {| c_kind := kd; c_ek := ek; c_dk := dk; c_sn := sn + N.of_nat (length (all_chunks bs)); c_rn := rn |}) /\
  concat ws = concat (chunk_wires ek sn (all_chunks bs)).
Proof.
  induction bs as [|b bs IH]; intros sn Hr.
  - exists []. cbn. replace (sn + N.of_nat 0) with sn by lia. auto.
  - unfold all_chunks in *. cbn [map concat] in *. rewrite app_length in Hr.
    cbn [SecFramer.send_all]. rewrite write_ok by (unfold ctr_room in *; lia).
    destruct (IH (sn + N.of_nat (length (chunks (enc_contiguous b))))) as (ws & Hw & Hc).
    { unfold ctr_room in *. lia. }
    rewrite Hw. eexists (_ :: ws). split.
    + cbn [map]. f_equal. f_equal. rewrite app_length. lia.
    + cbn [concat]. rewrite Hc, chunk_wires_app, concat_app. reflexivity.
Qed.

(* ---------- tampering ---------- *)
(* The attacker model. The stream [s] handed to the receiver is ARBITRARY (flips, drops, duplicates,
   swaps, cuts, injections of sent records and of any other bytes) except that the attacker cannot
   make new ciphertexts under the session key: every record the length-prefix framing cuts out of
   [s] that IS a seal term under [k] (with a 64-bit nonce) was sealed by the sender. *)
Definition unforged (k : key) (sent : list (N * bytes)) (s : bytes) : Prop :=
  forall c, framed s c -> forall n p, n < U64 -> c = seal k n p -> In (n, p) sent.

Lemma sealed_in chs : forall n0 n p, In (n, p) (sealed n0 chs) ->
  exists j, nth_error chs j = Some p /\ n = n0 + N.of_nat j.
Proof.
  induction chs as [|ch chs IH]; intros n0 n p H; [destruct H|].
  cbn [sealed] in H. destruct H as [H|H].
  - inversion H; subst. exists 0%nat. split; [reflexivity | lia].
  - destruct (IH _ _ _ H) as (j & Hn & ->). exists (S j). split; [exact Hn | lia].
Qed.

Lemma decrypt_cases kd ek k sn n rec : ctr_ok n = true ->
  let c := {| c_kind := kd; c_ek := ek; c_dk := k; c_sn := sn; c_rn := n |} in
  decrypt c rec = DcErr \/
  exists pt, open k n rec = Some pt /\
             decrypt c rec = DcOk pt {| c_kind := kd; c_ek := ek; c_dk := k; c_sn := sn; c_rn := n + 1 |}.
Proof.
  intros Hc c. unfold SecFramer.decrypt, c. cbn [c_kind c_dk c_rn]. rewrite Hc.
  destruct (len rec <? TAG); [left; reflexivity|].
  destruct (open k n rec) as [pt|] eqn:E.
  - right. exists pt. split; [reflexivity|]. destruct kd; reflexivity.
  - left. destruct kd; reflexivity.
Qed.

Definition closed_st (st : rstate) : rstate := {| r_c := r_c st; r_dbuf := r_dbuf st; r_closed := true |}.


(* the one non-trivial step of the receiver, seen from an open state *)
Lemma sstep_cases m kd ek k sn n d s st1 cnt o1 : ctr_ok n = true ->
  sstep m (rcvd kd ek k sn n d) s = Step st1 cnt o1 ->
  let l := be_val (firstn 2 s) in
  let rec := firstn (N.to_nat l) (skipn 2 s) in
  2 <= len s /\ 2 + l <= len s /\ cnt = (2 + N.to_nat l)%nat /\
  ((st1 = closed_st (rcvd kd ek k sn n d) /\ o1 = [RErr]) \/
   (exists pt, open k n rec = Some pt /\
      (st1, o1) = (let '(f, d', o) := pump (buffer_step m) buffer_mu 1 false (d ++ pt) in
                   ({| r_c := {| c_kind := kd; c_ek := ek; c_dk := k; c_sn := sn; c_rn := n + 1 |};
                       r_dbuf := d'; r_closed := f |}, map conv o)))).
Proof.
  intros Hc. unfold SecFramer.sstep. cbn [rcvd r_closed].
  destruct (len s <? 2) eqn:E1; [discriminate|].
  destruct (len s <? 2 + be_val (firstn 2 s)) eqn:E2; [discriminate|].
  cbv zeta. set (rec := firstn _ (skipn 2 s)).
  unfold SecFramer.on_record. cbn [rcvd r_c r_dbuf].
  destruct (decrypt_cases kd ek k sn n rec Hc) as [Hd | (pt & Ho & Hd)]; rewrite Hd.
  - intros H. injection H as <- <- <-. repeat split; try lia. left. split; reflexivity.
  - destruct (pump (buffer_step m) buffer_mu 1 false (d ++ pt)) as [[f d'] o] eqn:Ed.
    intros H. injection H as <- <- <-. repeat split; try lia. right. exists pt. split; [exact Ho|]. rewrite Ed. reflexivity.
Qed.

Section Tamper.
Variables (m : Z) (kd : ckind) (ek k : key) (sn n0 : N).
Variable chs : list bytes.            (* the plaintext chunks the sender sealed, in order *)
Variables (dE : bytes) (FE : list frame).
Hypothesis Hgood : PR m (concat chs) dE FE.     (* the whole plaintext decodes to the frames FE *)
Hypothesis Hroom : ctr_room n0 (length chs).

(* the plaintext of the first j chunks decodes without error *)
Lemma good_prefix j : exists d fs, PR m (concat (firstn j chs)) d fs.
Proof.
  pose proof Hgood as H. rewrite (concat_firstn_skipn chs j) in H.
  destruct (PR_split _ _ _ _ _ H) as (r1 & f1 & _ & HA & _). eauto.
Qed.

Lemma good_step j d fsj ch : nth_error chs j = Some ch -> PR m (concat (firstn j chs)) d fsj ->
  exists d1 g, pump (buffer_step m) buffer_mu 1 false (d ++ ch) = (false, d1, map Some g) /\
               PR m (concat (firstn (S j) chs)) d1 (fsj ++ g).
Proof.
  intros Hn HP. destruct (good_prefix (S j)) as (d1 & fs1 & H1).
  pose proof H1 as H1'. rewrite (firstn_S_nth _ _ _ Hn), concat_app in H1'. cbn [concat] in H1'. rewrite app_nil_r in H1'.
  destruct (PR_split _ _ _ _ _ H1') as (r0 & f0 & g & HA & -> & HB).
  destruct (PR_det _ _ _ _ _ _ HP HA) as [<- <-].
  exists d1, g. split; [exact HB | exact H1].
Qed.

Lemma run_safe :
  forall st s st' r o, Run (sstep m) st s st' r o ->
  forall j d fsj, (j <= length chs)%nat -> st = rcvd kd ek k sn (n0 + N.of_nat j) d ->
  PR m (concat (firstn j chs)) d fsj -> unforged k (sealed n0 chs) s ->
  exists j' d' g, (j <= j' <= length chs)%nat /\ PR m (concat (firstn j' chs)) d' (fsj ++ g) /\
    ((o = map RFrame g /\ st' = rcvd kd ek k sn (n0 + N.of_nat j') d') \/
     (o = map RFrame g ++ [RErr] /\ r_closed st' = true)).
Proof.
  intros st s st' r o HR.
  induction HR as [st s Hn | st s st1 cnt o1 st' r o' Hs HR IH]; intros j d fsj Hj Hst HP Hu.
  - exists j, d, []. split; [lia|]. rewrite app_nil_r. split; [exact HP|]. left. auto.
  - subst st.
    assert (ctr_ok (n0 + N.of_nat j) = true) as Hc by (unfold ctr_room in Hroom; unfold ctr_ok; lia).
    destruct (sstep_cases _ _ _ _ _ _ _ _ _ _ _ Hc Hs) as (H2 & Hl & -> & Hcase).
    destruct Hcase as [[-> ->] | (pt & Ho & Heq)].
    + destruct (run_closed m (closed_st (rcvd kd ek k sn (n0 + N.of_nat j) d)) _ _ _ _ eq_refl HR) as (-> & _ & ->).
      exists j, d, []. split; [lia|]. rewrite app_nil_r. split; [exact HP|]. right. auto.
    + apply open_auth in Ho.
      assert (In (n0 + N.of_nat j, pt) (sealed n0 chs)) as Hin.
      { apply (Hu _ (framed_here s H2 Hl)); [unfold ctr_room in Hroom; lia | exact Ho]. }
      destruct (sealed_in _ _ _ _ Hin) as (j2 & Hnth & Hjj).
      assert (j2 = j) as -> by lia.
      assert (j < length chs)%nat as Hlt by (apply nth_error_Some; congruence).
      destruct (good_step j d fsj pt Hnth HP) as (d1 & g1 & Hp1 & HP1).
      rewrite Hp1 in Heq. rewrite map_map in Heq. cbn [conv] in Heq. inversion Heq; subst st1 o1.
      destruct (IH (S j) d1 (fsj ++ g1)) as (j' & d' & g & Hj' & HP' & Hres).
      * lia.
      * unfold rcvd. f_equal. f_equal. lia.
      * exact HP1.
      * intros c Hf. apply Hu. apply framed_next; assumption.
      * exists j', d', (g1 ++ g). split; [lia|]. rewrite app_assoc. split; [exact HP'|].
        rewrite map_app. destruct Hres as [[-> ->] | [-> Hcl]]; [left | right]; rewrite <- ?app_assoc; auto.
Qed.
End Tamper.

(* tamper_prefix_safety: for every sequence of batches (of any size) and EVERY unforged stream, cut in any
   way, the receiver hands out a prefix [fs] of the frames that were sent - exactly the frames that are
   complete in the plaintext of the first j' records, in order, once - and either stays in lock-step
   or has failed with an error and is closed. *)
Theorem tamper_prefix_safety m kd ek k sn n0 bs cs :
  Forall (admitted m) (flat bs) -> ctr_room n0 (length (all_chunks bs)) ->
  unforged k (sealed n0 (all_chunks bs)) (concat cs) ->
  let '(st', _, o) := feed (sstep m) (smu key) 0 (rcv kd ek k sn n0) [] cs in
  exists j' d' fs, (j' <= length (all_chunks bs))%nat /\
    PR m (concat (firstn j' (all_chunks bs))) d' fs /\ prefix fs (flat bs) /\
    ((o = map RFrame fs /\ st' = rcvd kd ek k sn (n0 + N.of_nat j') d') \/
     (o = map RFrame fs ++ [RErr] /\ r_closed st' = true)).
Proof.
  intros Ha Hr Hu.
  rewrite (sk_feed_quiescent_start (sec_ok m)) by reflexivity. cbn [app].
  pose proof (sk_pump_Run (sec_ok m) (rcv kd ek k sn n0) (concat cs)) as HR.
  destruct (pump _ _ _ _ _) as [[st' r] o].
  assert (PR m (concat (all_chunks bs)) [] (flat bs)) as Hgood.
  { rewrite all_chunks_concat. apply PR_full. exact Ha. }
  destruct (run_safe m kd ek k sn n0 (all_chunks bs) [] (flat bs) Hgood Hr _ _ _ _ _ HR 0%nat [] [])
    as (j' & d' & g & Hj & HP & Hres).
  - lia.
  - unfold rcv, rcvd. f_equal. f_equal. lia.
  - cbn. apply RunNeed. reflexivity.
  - exact Hu.
  - exists j', d', g. split; [lia|]. cbn [app] in HP. split; [exact HP|]. split; [|exact Hres].
    pose proof Hgood as Hg. rewrite (concat_firstn_skipn _ j') in Hg. eapply PR_prefix; eauto.
Qed.

(* ---------- detection: the first record that is not the next sealed one ends the connection ---------- *)
Definition complete (s : bytes) : bool := (2 <=? len s) && (2 + be_val (firstn 2 s) <=? len s).

Lemma record_skip ct rest : len ct < U16 ->
  2 <= len (record_of ct ++ rest) /\
  2 + be_val (firstn 2 (record_of ct ++ rest)) <= len (record_of ct ++ rest) /\
  skipn (2 + N.to_nat (be_val (firstn 2 (record_of ct ++ rest)))) (record_of ct ++ rest) = rest.
Proof.
  intros Hs. destruct (record_split ct rest Hs) as (H1 & H2 & H3 & H4).
  split; [lia|]. rewrite H3. split.
  - rewrite len_app. unfold record_of. rewrite len_app. unfold len at 2. rewrite be_bytes_length. lia.
  - rewrite <- skipn_skipn, H4. unfold len. rewrite Nat2N.id.
    rewrite skipn_app, skipn_all, Nat.sub_diag. reflexivity.
Qed.


Lemma framed_through k : forall chs n rest c, Forall okc chs -> framed rest c ->
  framed (concat (chunk_wires k n chs) ++ rest) c.
Proof.
  induction chs as [|ch chs IH]; intros n rest c Hs Hf; [exact Hf|].
  inversion Hs; subst. cbn [SecFramer.chunk_wires concat]. rewrite <- app_assoc.
  destruct (record_skip (seal k n ch) (concat (chunk_wires k (n + 1) chs) ++ rest) (okc_ct k n ch H1)) as (Ha & Hb & Hc).
  apply framed_next; [exact Ha | exact Hb |]. rewrite Hc. apply IH; assumption.
Qed.

Lemma complete_step m kd ek k sn n d s : complete s = true -> sstep m (rcvd kd ek k sn n d) s <> Need.
Proof.
  unfold complete, SecFramer.sstep. intros H. apply andb_prop in H. destruct H as [H1 H2].
  cbn [rcvd r_closed].
  assert (len s <? 2 = false) as -> by lia.
  assert (len s <? 2 + be_val (firstn 2 s) = false) as -> by lia.
  destruct (on_record _ _ _); discriminate.
Qed.
Lemma incomplete_need m kd ek k sn n d s : complete s = false -> sstep m (rcvd kd ek k sn n d) s = Need.
Proof.
  unfold complete, SecFramer.sstep. intros H. cbn [rcvd r_closed].
  destruct (len s <? 2) eqn:E1; [reflexivity|].
  destruct (len s <? 2 + be_val (firstn 2 s)) eqn:E2; [reflexivity|].
  exfalso. apply andb_false_iff in H. destruct H as [H|H]; lia.
Qed.

Lemma Forall_firstn {A} (P : A -> Prop) (l : list A) j : Forall P l -> Forall P (firstn j l).
Proof. intros H. rewrite <- (firstn_skipn j l) in H. apply Forall_app in H. apply H. Qed.

(* [j] intact records followed by [rest] that does not start with the (j+1)-th record: exactly the frames
   that are complete in the first j records are delivered; once [rest] holds a complete record the
   receiver fails and closes, until then it waits *)
Theorem tamper_detected m kd ek k sn n0 bs j rest cs :
  let chs := all_chunks bs in
  Forall (admitted m) (flat bs) -> ctr_room n0 (length chs) -> (j <= length chs)%nat ->
  wf_bytes (firstn 2 rest) = true ->
  (forall ch, nth_error chs j = Some ch -> ~ prefix (record_of (seal k (n0 + N.of_nat j) ch)) rest) ->
  unforged k (sealed n0 chs) (concat (chunk_wires k n0 (firstn j chs)) ++ rest) ->
  concat cs = concat (chunk_wires k n0 (firstn j chs)) ++ rest ->
  exists dj fsj, PR m (concat (firstn j chs)) dj fsj /\ prefix fsj (flat bs) /\
  let '(st', r, o) := feed (sstep m) (smu key) 0 (rcv kd ek k sn n0) [] cs in
  if complete rest
  then o = map RFrame fsj ++ [RErr] /\ r_closed st' = true
  else o = map RFrame fsj /\ st' = rcvd kd ek k sn (n0 + N.of_nat j) dj /\ r = rest.
Proof.
  intros chs Ha Hroom Hj Hwf Hnext Hu Hc.
  assert (PR m (concat chs) [] (flat bs)) as Hgood.
  { unfold chs. rewrite all_chunks_concat. apply PR_full. exact Ha. }
  destruct (good_prefix m chs [] (flat bs) Hgood j) as (dj & fsj & HPj).
  exists dj, fsj. split; [exact HPj|]. split.
  { pose proof Hgood as Hg. rewrite (concat_firstn_skipn _ j) in Hg. eapply PR_prefix; eauto. }
  rewrite (sk_feed_quiescent_start (sec_ok m)) by reflexivity. cbn [app]. rewrite Hc.
  assert (length (firstn j chs) = j) as Hlen by (apply firstn_length_le; exact Hj).
  assert (ctr_room n0 (length (firstn j chs))) as Hroom' by (unfold ctr_room in *; lia).
  assert (Forall okc (firstn j chs)) as Hok' by (apply Forall_firstn; apply all_chunks_okc).
  assert (ctr_ok (n0 + N.of_nat j) = true) as Hok by (unfold ctr_room in Hroom; unfold ctr_ok; lia).
  assert (forall s' r o, Run (sstep m) (rcvd kd ek k sn (n0 + N.of_nat j) dj) rest s' r o ->
            Run (sstep m) (rcv kd ek k sn n0) (concat (chunk_wires k n0 (firstn j chs)) ++ rest) s' r
                (map RFrame fsj ++ o)) as Hrun.
  { intros s' r o HR. unfold rcv. apply (run_chunks m kd ek k sn (firstn j chs) n0 [] dj fsj); auto.
    rewrite Hlen. exact HR. }
  destruct (complete rest) eqn:Ecomp.
  - destruct (sstep m (rcvd kd ek k sn (n0 + N.of_nat j) dj) rest) as [|st1 cnt o1] eqn:Es.
    { exfalso. eapply complete_step; eauto. }
    destruct (sstep_cases _ _ _ _ _ _ _ _ _ _ _ Hok Es) as (H2 & Hl & -> & Hcase).
    destruct Hcase as [[-> ->] | (pt & Ho & Heq)].
    + assert (Run (sstep m) (rcvd kd ek k sn (n0 + N.of_nat j) dj) rest
                (closed_st (rcvd kd ek k sn (n0 + N.of_nat j) dj))
                (skipn (2 + N.to_nat (be_val (firstn 2 rest))) rest) ([RErr] ++ [])) as HR.
      { eapply RunStep; [exact Es|]. apply RunNeed. reflexivity. }
      apply Hrun in HR. apply (sk_Run_pump (sec_ok m)) in HR. rewrite HR. auto.
    + exfalso. apply open_auth in Ho.
      assert (In (n0 + N.of_nat j, pt) (sealed n0 chs)) as Hin.
      { apply (Hu _ (framed_through k _ n0 rest _ Hok' (framed_here rest H2 Hl)));
          [unfold ctr_room in Hroom; lia | exact Ho]. }
      destruct (sealed_in _ _ _ _ Hin) as (j2 & Hnth & Hjj).
      assert (j2 = j) as -> by lia.
      apply (Hnext pt Hnth). rewrite <- Ho.
      destruct rest as [|a [|b' t]]; [unfold len in H2; cbn in H2; lia | unfold len in H2; cbn in H2; lia |].
      cbn [firstn skipn] in *. cbn [wf_bytes forallb] in Hwf.
      apply andb_prop in Hwf. destruct Hwf as [Hwa Hwf]. apply andb_prop in Hwf. destruct Hwf as [Hwb _].
      assert (a < 256) by lia. assert (b' < 256) by lia.
      set (l := be_val [a; b']) in *.
      assert (l < U16) as Hl16 by (apply be_val2_lt; assumption).
      assert (len (firstn (N.to_nat l) t) = l) as Hlr.
      { unfold len. rewrite firstn_length_le; [lia|]. unfold len in Hl. cbn [length] in Hl. lia. }
      unfold record_of. rewrite Hlr, N.mod_small by exact Hl16. unfold l at 1. rewrite be2_of_val by assumption.
      exists (skipn (N.to_nat l) t). cbn [app]. rewrite firstn_skipn. reflexivity.
  - assert (Run (sstep m) (rcvd kd ek k sn (n0 + N.of_nat j) dj) rest
              (rcvd kd ek k sn (n0 + N.of_nat j) dj) rest []) as HR.
    { apply RunNeed. apply incomplete_need. exact Ecomp. }
    apply Hrun in HR. apply (sk_Run_pump (sec_ok m)) in HR. rewrite HR, app_nil_r. auto.
Qed.

(* ---------- nothing but length prefixes and seal outputs ---------- *)
Lemma seal_chunks_shape chs : forall c out w c', seal_chunks c chs out = (SOk w, c') ->
  w = out ++ concat (chunk_wires (c_ek c) (c_sn c) chs).
Proof.
  induction chs as [|ch chs IH]; intros c out w c' H.
  - cbn in H. inversion H. rewrite app_nil_r. reflexivity.
  - cbn [SecFramer.seal_chunks] in H.
    assert (forall ct c1, encrypt c ch = EOk ct c1 -> ct = seal (c_ek c) (c_sn c) ch /\ c_ek c1 = c_ek c /\ c_sn c1 = c_sn c + 1) as He.
    { unfold SecFramer.encrypt. intros ct c1.
      destruct (c_kind c); [|destruct (NOISE_MAX_PT <? len ch); [discriminate|]];
        destruct (ctr_ok (c_sn c)); intros E; inversion E; auto. }
    destruct (encrypt c ch) as [ct c1| |]; try discriminate.
    destruct (He ct c1 eq_refl) as (-> & Hk & Hn).
    rewrite (IH _ _ _ _ H), Hk, Hn. cbn [SecFramer.chunk_wires concat]. rewrite <- app_assoc. reflexivity.
Qed.

(* no_cleartext (symbolic): what a write call emits is, per 65519-byte chunk of the plaintext, a length
   prefix computed from a length and ONE seal output *)
Theorem no_cleartext c b w c' : write_msg_batch c b = (SOk w, c') ->
  w = concat (chunk_wires (c_ek c) (c_sn c) (chunks (enc_contiguous b))).
Proof. intros H. apply seal_chunks_shape in H. exact H. Qed.

Lemma seal_chunks_ni : forall chs1 chs2 c out,
  Forall2 (fun a b => forall n, seal (c_ek c) n a = seal (c_ek c) n b) chs1 chs2 ->
  seal_chunks c chs1 out = seal_chunks c chs2 out.
Proof.
  induction chs1 as [|a chs1 IH]; intros [|b chs2] c out HF; inversion HF; subst; [reflexivity|]. cbn [SecFramer.seal_chunks].
  assert (len a = len b) as Hlen.
  { pose proof (seal_len (c_ek c) 0 a) as A. pose proof (seal_len (c_ek c) 0 b) as B. rewrite H2 in A. lia. }
  assert (encrypt c a = encrypt c b) as ->.
  { unfold SecFramer.encrypt. rewrite Hlen, H2. reflexivity. }
  destruct (encrypt c b) as [ct c1| |] eqn:E; try reflexivity.
  assert (c_ek c1 = c_ek c) as Hk.
  { revert E. unfold SecFramer.encrypt.
    destruct (c_kind c); [|destruct (NOISE_MAX_PT <? len b); [discriminate|]];
      destruct (ctr_ok (c_sn c)); intros E; inversion E; reflexivity. }
  apply IH. rewrite Hk. assumption.
Qed.
(* the wire depends on the batch only through the outputs of [seal] on its chunks *)
Theorem no_cleartext_noninterference c b1 b2 :
  Forall2 (fun a b => forall n, seal (c_ek c) n a = seal (c_ek c) n b)
          (chunks (enc_contiguous b1)) (chunks (enc_contiguous b2)) ->
  write_msg_batch c b1 = write_msg_batch c b2.
Proof.
  intros H. unfold SecFramer.write_msg_batch, SecFramer.seal_records. apply seal_chunks_ni. exact H.
Qed.

(* ---------- heartbeats: PING / PONG are written outside the record layer ---------- *)
Lemma hb_ping_eq ttl : hb_ping ttl = [4; 7; 4; 80; 73; 78; 71] ++ be_bytes 2 (ttl mod 65536).
Proof.
  unfold hb_ping, enc_codec, enc_header_only, enc_header, cmd_frame, ping_body.
  cbn [f_payload f_more f_cmd].
  assert (len ((4 :: s_PING) ++ be_bytes 2 (ttl mod 65536) ++ []) = 7) as ->.
  { unfold len. rewrite !app_length, be_bytes_length. reflexivity. }
  change (7 <=? 255) with true. cbv iota. rewrite app_nil_r. reflexivity.
Qed.

Lemma hb_pong_eq ctx : len ctx <= 250 ->
  hb_pong ctx = [4; 5 + len ctx; 4; 80; 79; 78; 71] ++ ctx.
Proof.
  intros H. unfold hb_pong, enc_codec, enc_header_only, enc_header, cmd_frame, pong_body.
  cbn [f_payload f_more f_cmd].
  assert (len ((4 :: s_PONG) ++ ctx) = 5 + len ctx) as ->.
  { unfold len. rewrite app_length. cbn [length s_PONG]. lia. }
  assert (5 + len ctx <=? 255 = true) as -> by lia. reflexivity.
Qed.

(* the peer's framer reads the first two bytes of the PING frame (flags 0x04, size 7) as the record
   length 0x0407 = 1031 and waits: the PING is not decoded, no PONG is produced, and up to 1023 bytes
   that follow (honest records included) are not looked at *)
Theorem heartbeat_swallowed m kd ek k sn n d ttl rest : len rest < 1024 ->
  pump (sstep m) (smu key) 0 (rcvd kd ek k sn n d) (hb_ping ttl ++ rest) =
  (rcvd kd ek k sn n d, hb_ping ttl ++ rest, []).
Proof.
  intros Hl. apply (sk_Run_pump (sec_ok m)). apply RunNeed.
  rewrite hb_ping_eq. unfold SecFramer.sstep. cbn [rcvd r_closed].
  rewrite <- app_assoc. cbn [app firstn].
  change (be_val [4; 7]) with 1031.
  destruct (len _ <? 2); [reflexivity|].
  match goal with |- (if ?c then _ else _) = _ => assert (c = true) as -> end; [|reflexivity].
  unfold len in *. cbn [length]. rewrite app_length, be_bytes_length. lia.
Qed.

Theorem pong_swallowed m kd ek k sn n d ctx rest : len ctx <= 250 -> len rest < 1024 ->
  pump (sstep m) (smu key) 0 (rcvd kd ek k sn n d) (hb_pong ctx ++ rest) =
  (rcvd kd ek k sn n d, hb_pong ctx ++ rest, []).
Proof.
  intros Hc Hl. apply (sk_Run_pump (sec_ok m)). apply RunNeed.
  rewrite hb_pong_eq by exact Hc. unfold SecFramer.sstep. cbn [rcvd r_closed].
  rewrite <- app_assoc. cbn [app firstn].
  assert (be_val [4; 5 + len ctx] = 1029 + len ctx) as -> by (unfold be_val; cbn [fold_left]; lia).
  destruct (len _ <? 2); [reflexivity|].
  match goal with |- (if ?c then _ else _) = _ => assert (c = true) as -> end; [|reflexivity].
  unfold len in *. cbn [length]. rewrite app_length. lia.
Qed.

(* an honest endpoint: batches, then a heartbeat tick, then more batches (fewer than 1024 bytes of
   records). The peer delivers what came before the PING and nothing after it. *)
Theorem heartbeat_decodable_refuted m kd ek k sn n bs1 ttl bs2 cs :
  let k1 := N.of_nat (length (all_chunks bs1)) in
  Forall (admitted m) (flat bs1) -> ctr_room n (length (all_chunks bs1)) ->
  len (concat (chunk_wires k (n + k1) (all_chunks bs2))) < 1024 ->
  concat cs = concat (chunk_wires k n (all_chunks bs1)) ++ hb_ping ttl ++ concat (chunk_wires k (n + k1) (all_chunks bs2)) ->
  feed (sstep m) (smu key) 0 (rcv kd ek k sn n) [] cs =
  (rcv kd ek k sn (n + k1), hb_ping ttl ++ concat (chunk_wires k (n + k1) (all_chunks bs2)), map RFrame (flat bs1)).
Proof.
  intros k1 Ha Hr Hl Hc.
  rewrite (sk_feed_quiescent_start (sec_ok m)) by reflexivity. cbn [app]. rewrite Hc.
  apply (sk_Run_pump (sec_ok m)).
  rewrite <- (app_nil_r (map RFrame _)).
  unfold rcv. apply (run_chunks m kd ek k sn (all_chunks bs1) n [] []); auto.
  - apply all_chunks_okc.
  - cbn [app]. rewrite all_chunks_concat. apply PR_full. exact Ha.
  - pose proof (heartbeat_swallowed m kd ek k sn (n + k1) [] ttl _ Hl) as Hp.
    pose proof (sk_pump_Run (sec_ok m) (rcvd kd ek k sn (n + k1) [])
                  (hb_ping ttl ++ concat (chunk_wires k (n + k1) (all_chunks bs2)))) as HR.
    rewrite Hp in HR. exact HR.
Qed.

(* the receiving engine answers a PING that DID arrive inside a record with a PONG written in clear,
   outside the record layer (engine.rs process_data) *)
Lemma ping_answered_in_clear ttl ctx :
  data_on d_init (RFrame (cmd_frame (ping_body ttl ctx))) = (d_init, [OSend (hb_pong ctx) false]).
Proof.
  assert (parse_cmd (cmd_frame (ping_body ttl ctx)) = CPing ctx) as Hp.
  { unfold parse_cmd, cmd_frame, ping_body. cbn [f_cmd f_more f_payload negb orb be_bytes app s_PING].
    cbn [starts_with]. rewrite !N.eqb_refl. cbn [andb length Nat.leb skipn]. reflexivity. }
  unfold data_on, d_init. cbn [d_closed]. rewrite Hp. reflexivity.
Qed.

(* the side that sent the PING: no PONG can come back, so the next tick after the timeout closes *)
Lemma ping_then_timeout cfg g t0 ivl T :
  e_phase (g_st g) = PData -> e_version (g_st g) = Some V3 ->
  c_hb_ivl cfg = Some ivl -> c_hb_timeout cfg = Some T ->
  h_waiting (g_hb g) = false -> ivl <= t0 - h_last_activity (g_hb g) ->
  let '(g1, o1) := e_tick cfg g t0 in
  o1 = [OSend (hb_ping (N.min (T / 1000000) u16_max)) false] /\
  forall t1, T <= t1 - t0 ->
    snd (e_tick cfg g1 t1) = [OErr ETimeout] /\ e_phase (g_st (fst (e_tick cfg g1 t1))) = PClosed.
Proof.
  intros Hp Hv Hi Ht Hw Hd. unfold e_tick. rewrite Hp, Hv, Ht, Hi, Hw.
  assert (match h_last_ping (g_hb g) with Some p => false && (T <=? t0 - p) | None => false end = false) as ->
    by (destruct (h_last_ping (g_hb g)); reflexivity).
  cbn [negb andb]. assert (ivl <=? t0 - h_last_activity (g_hb g) = true) as -> by lia.
  split; [reflexivity|]. intros t1 H1.
  cbn [g_st g_hb h_last_ping h_waiting andb]. rewrite Hp, Hv.
  assert (T <=? t1 - t0 = true) as -> by lia. cbn [snd fst g_st closed set_phase e_phase]. auto.
Qed.

(* ---------- two sessions between the same static keys ---------- *)
Section Sessions.
Variables statics eph : Type.
Variable curve_kx : bool -> statics -> key * key.
Variable noise_split : bool -> statics -> eph -> eph -> key * key.
Notation curve_data_cipher := (curve_data_cipher key statics eph curve_kx).
Notation noise_data_cipher := (noise_data_cipher key statics eph noise_split).

(* CURVE: the data cipher does not depend on the ephemeral keys at all, and the counters restart
   at 1: EVERY session between the same static keys seals the same plaintext to the same bytes *)
Theorem sessions_differ_refuted server sk (e1 e2 e1' e2' : eph) b :
  write_msg_batch (curve_data_cipher server sk e1 e2) b = write_msg_batch (curve_data_cipher server sk e1' e2') b.
Proof. reflexivity. Qed.

Lemma record_of_inj a b : record_of a = record_of b -> a = b.
Proof.
  intros H. apply (f_equal (skipn 2)) in H. unfold record_of in H.
  rewrite !skipn_app, !be_bytes_length in H. cbn [Nat.sub] in H.
  rewrite !skipn_all2 in H by (rewrite be_bytes_length; lia). exact H.
Qed.

(* Noise: holds as soon as distinct ephemerals give distinct transport keys and ciphertexts under
   distinct keys differ (both idealisations are explicit premises) *)
Theorem sessions_differ_noise server sk (e1 e2 e1' e2' : eph) b :
  (forall k k' n p, seal k n p = seal k' n p -> k = k') ->
  snd (noise_split server sk e1 e2) <> snd (noise_split server sk e1' e2') ->
  enc_contiguous b <> [] -> ctr_room 0 (length (chunks (enc_contiguous b))) ->
  fst (write_msg_batch (noise_data_cipher server sk e1 e2) b) <>
  fst (write_msg_batch (noise_data_cipher server sk e1' e2') b).
Proof.
  intros Hinj Hk Hne Hroom. unfold SecFramer.noise_data_cipher.
  destruct (noise_split server sk e1 e2) as [rx tx]. destruct (noise_split server sk e1' e2') as [rx' tx'].
  cbn [snd] in Hk. unfold cipher_new. cbn [ctr_start].
  destruct (chunks_nonempty _ Hne) as (ch & r & Hch).
  rewrite !write_ok by exact Hroom. cbn [fst]. rewrite Hch. cbn [SecFramer.chunk_wires concat].
  intros H. apply (f_equal wire_of) in H. cbn [wire_of] in H.
  assert (len (seal tx 0 ch) = len (seal tx' 0 ch)) as Hl by (rewrite !seal_len; reflexivity).
  assert (record_of (seal tx 0 ch) = record_of (seal tx' 0 ch)) as H1.
  { apply (f_equal (firstn (length (record_of (seal tx 0 ch))))) in H.
    rewrite firstn_app, Nat.sub_diag, firstn_all in H. cbn [firstn] in H. rewrite app_nil_r in H.
    rewrite H. unfold record_of at 1. rewrite app_length, be_bytes_length.
    assert (length (seal tx 0 ch) = length (seal tx' 0 ch)) as Hl' by (unfold len in Hl; lia).
    rewrite Hl'. replace (2 + length (seal tx' 0 ch))%nat with (length (record_of (seal tx' 0 ch)))
      by (unfold record_of; rewrite app_length, be_bytes_length; reflexivity).
    rewrite firstn_app, Nat.sub_diag, firstn_all. cbn [firstn]. rewrite app_nil_r. reflexivity. }
  apply record_of_inj in H1. apply Hk. eapply Hinj. exact H1.
Qed.
End Sessions.

(* ---------- message level: what the engine hands to the application ---------- *)
Record wf_msg (msg : list frame) : Prop := {
  wm_split : exists init l, msg = init ++ [l] /\ Forall (fun f => f_more f = true /\ f_cmd f = false) init /\
                            f_more l = false /\ f_cmd l = false;
  wm_len : (length msg <= MAX_FRAMES)%nat
}.

Lemma data_fold_app st a : forall b,
  data_fold st (a ++ b) =
  let '(s1, e1) := data_fold st a in let '(s2, e2) := data_fold s1 b in (s2, e1 ++ e2).
Proof.
  revert st. induction a as [|x a IH]; intros st b.
  - cbn. destruct (data_fold st b). reflexivity.
  - cbn [app data_fold]. destruct (data_on st x) as [st1 e1]. rewrite IH.
    destruct (data_fold st1 a) as [s1 e1']. destruct (data_fold s1 b) as [s2 e2].
    rewrite app_assoc. reflexivity.
Qed.

Lemma data_fold_more init : forall p,
  Forall (fun f => f_more f = true /\ f_cmd f = false) init -> (length p + length init < MAX_FRAMES)%nat ->
  data_fold {| d_partial := p; d_closed := false |} (map RFrame init) =
  ({| d_partial := p ++ init; d_closed := false |}, []).
Proof.
  induction init as [|f init IH]; intros p Hall Hlen.
  - cbn. rewrite app_nil_r. reflexivity.
  - inversion Hall as [|? ? [Hm Hc] Hall']; subst. cbn [map data_fold].
    unfold data_on at 1. cbn [d_closed d_partial]. rewrite Hc, Hm.
    cbn [length] in Hlen.
    destruct (MAX_FRAMES <=? length p)%nat eqn:E; [apply Nat.leb_le in E; lia|].
    rewrite IH; auto.
    + rewrite <- app_assoc. reflexivity.
    + rewrite app_length. cbn [length]. lia.
Qed.

Lemma data_fold_msg msg : wf_msg msg ->
  data_fold d_init (map RFrame msg) = (d_init, [ODeliver msg]).
Proof.
  intros [(init & l & -> & Hi & Hm & Hc) Hlen]. rewrite app_length in Hlen. cbn [length] in Hlen.
  rewrite map_app, data_fold_app. unfold d_init at 1.
  rewrite data_fold_more by (auto; cbn [length]; lia). cbn [app map data_fold].
  unfold data_on. cbn [d_closed d_partial]. rewrite Hc, Hm.
  destruct (MAX_FRAMES <=? length init)%nat eqn:E; [apply Nat.leb_le in E; lia|]. reflexivity.
Qed.

Lemma data_fold_msgs msgs : Forall wf_msg msgs ->
  data_fold d_init (map RFrame (concat msgs)) = (d_init, map ODeliver msgs).
Proof.
  induction 1 as [|msg msgs Hm Hms IH]; [reflexivity|].
  cbn [concat]. rewrite map_app, data_fold_app, data_fold_msg by exact Hm. rewrite IH. reflexivity.
Qed.

Definition all_msgs (bs : list (list (list frame))) : list (list frame) := concat bs.
Lemma flat_concat bs : flat bs = concat (all_msgs bs).
Proof.
  unfold flat, all_msgs. induction bs as [|b bs IH]; [reflexivity|].
  cbn [map concat]. rewrite concat_app, IH. reflexivity.
Qed.


Lemma prefix_app_cases {A} (a : list A) : forall fs b, prefix fs (a ++ b) ->
  (exists t, a = fs ++ t /\ t <> []) \/ exists fs', fs = a ++ fs' /\ prefix fs' b.
Proof.
  induction a as [|x a IH]; intros fs b [d H].
  - right. exists fs. split; [reflexivity | exists d; exact H].
  - destruct fs as [|y fs].
    + left. exists (x :: a). split; [reflexivity | discriminate].
    + cbn [app] in H. injection H as -> H.
      destruct (IH fs b (ex_intro _ d H)) as [(t & -> & Ht) | (fs' & -> & Hp)].
      * left. exists t. auto.
      * right. exists fs'. auto.
Qed.

Lemma snoc_split {A} (init : list A) l fs t : init ++ [l] = fs ++ t -> t <> [] -> exists t', init = fs ++ t'.
Proof.
  intros H Ht. destruct (exists_last Ht) as (t' & z & ->).
  rewrite app_assoc in H. apply app_inj_tail in H. destruct H as [H _]. eauto.
Qed.

(* frames forming a prefix of a sequence of well-formed messages: the engine delivers whole messages only *)
Lemma data_fold_prefix msgs : Forall wf_msg msgs -> forall fs, prefix fs (concat msgs) ->
  exists kk, (kk <= length msgs)%nat /\
    snd (data_fold d_init (map RFrame fs)) = map ODeliver (firstn kk msgs) /\
    d_closed (fst (data_fold d_init (map RFrame fs))) = false.
Proof.
  induction 1 as [|msg msgs Hm Hms IH]; intros fs Hp.
  - destruct Hp as [d Hd]. cbn in Hd. symmetry in Hd. apply app_eq_nil in Hd. destruct Hd as [-> _].
    exists 0%nat. cbn. auto.
  - cbn [concat] in Hp. destruct (prefix_app_cases _ _ _ Hp) as [(t & Hmsg & Ht) | (fs' & -> & Hp')].
    + exists 0%nat. split; [lia|]. cbn [firstn map].
      destruct Hm as [(init & l & -> & Hi & _ & _) Hlen].
      destruct (snoc_split _ _ _ _ Hmsg Ht) as (t' & ->).
      apply Forall_app in Hi. destruct Hi as [Hfs _].
      rewrite !app_length in Hlen. cbn [length] in Hlen.
      unfold d_init. rewrite data_fold_more by (auto; cbn [length]; lia). cbn. auto.
    + destruct (IH _ Hp') as (kk & Hk & Ho & Hc).
      exists (S kk). split; [cbn [length]; lia|].
      rewrite map_app, data_fold_app, data_fold_msg by exact Hm.
      destruct (data_fold d_init (map RFrame fs')) as [s2 e2]. cbn [snd fst] in *.
      rewrite Ho. cbn [firstn map app]. auto.
Qed.

(* the application sees whole messages of a prefix of what was sent, once each, in order; then nothing,
   or one error *)
Theorem tamper_messages m kd ek k sn n0 bs cs :
  Forall (admitted m) (flat bs) -> Forall wf_msg (all_msgs bs) -> ctr_room n0 (length (all_chunks bs)) ->
  unforged k (sealed n0 (all_chunks bs)) (concat cs) ->
  let '(_, _, o) := feed (sstep m) (smu key) 0 (rcv kd ek k sn n0) [] cs in
  exists kk, (kk <= length (all_msgs bs))%nat /\
    (snd (data_fold d_init o) = map ODeliver (firstn kk (all_msgs bs)) \/
     snd (data_fold d_init o) = map ODeliver (firstn kk (all_msgs bs)) ++ [OErr ESecurity]).
Proof.
  intros Ha Hw Hr Hu.
  pose proof (tamper_prefix_safety m kd ek k sn n0 bs cs Ha Hr Hu) as H.
  destruct (feed _ _ _ _ _ _) as [[st' r] o].
  destruct H as (j' & d' & fs & Hj & _ & Hp & Hres).
  rewrite flat_concat in Hp.
  destruct (data_fold_prefix _ Hw _ Hp) as (kk & Hk & Ho & Hc).
  exists kk. split; [exact Hk|].
  destruct Hres as [[-> _] | [-> _]].
  - left. exact Ho.
  - right. rewrite data_fold_app.
    destruct (data_fold d_init (map RFrame fs)) as [s1 e1]. cbn [snd fst] in *.
    cbn [data_fold]. unfold data_on. rewrite Hc. cbn [snd app]. rewrite Ho. reflexivity.
Qed.

End Proofs.

(* ---------- the toy AEAD satisfies the laws (non-vacuity of the Section hypotheses) ---------- *)
Lemma toy_tag_len k n p : length (toy_tag k n p) = 16%nat.
Proof. unfold toy_tag. rewrite !app_length, !be_bytes_length. reflexivity. Qed.

Lemma toy_open_seal k n p : toy_open k n (toy_seal k n p) = Some p.
Proof.
  unfold toy_open, toy_seal.
  destruct (firstn_skipn_app 16 (toy_tag k n p) p (toy_tag_len k n p)) as [Hf Hs].
  rewrite Hf, Hs, bytes_eqb_refl, app_length, toy_tag_len. reflexivity.
Qed.

Lemma toy_open_auth k n c p : toy_open k n c = Some p -> c = toy_seal k n p.
Proof.
  unfold toy_open, toy_seal. intros H.
  destruct ((16 <=? length c)%nat && bytes_eqb (firstn 16 c) (toy_tag k n (skipn 16 c))) eqn:E; [|discriminate].
  apply andb_prop in E. destruct E as [_ E]. apply bytes_eqb_eq in E.
  assert (p = skipn 16 c) as -> by congruence.
  rewrite <- E. symmetry. apply firstn_skipn.
Qed.

Lemma toy_seal_len k n p : len (toy_seal k n p) = len p + TAG.
Proof. unfold toy_seal, len. rewrite app_length, toy_tag_len. unfold TAG. lia. Qed.

Lemma toy_seal_inj k n p n' p' : n < U64 -> n' < U64 -> toy_seal k n p = toy_seal k n' p' -> n = n' /\ p = p'.
Proof.
  intros Hn Hn' H. unfold toy_seal in H.
  pose proof (f_equal (firstn 16) H) as Hf. pose proof (f_equal (skipn 16) H) as Hs.
  destruct (firstn_skipn_app 16 (toy_tag k n p) p (toy_tag_len k n p)) as [A B].
  destruct (firstn_skipn_app 16 (toy_tag k n' p') p' (toy_tag_len k n' p')) as [A' B'].
  rewrite A, A' in Hf. rewrite B, B' in Hs. split; [|exact Hs].
  unfold toy_tag in Hf. apply (f_equal (firstn 8)) in Hf.
  rewrite !firstn_app_le, !firstn_all2 in Hf by (rewrite be_bytes_length; lia).
  apply (f_equal be_val) in Hf. rewrite !be_roundtrip in Hf. change (256 ^ N.of_nat 8) with U64 in Hf.
  rewrite !N.mod_small in Hf by assumption. exact Hf.
Qed.

(* a replayed record: the stream [w0 ++ w0] is unforged, so the tamper theorems apply to it *)
Definition ex_b0 : list (list frame) := [[ {| f_more := false; f_cmd := false; f_payload := [1; 2; 3] |} ]].
Definition ex_b1 : list (list frame) := [[ {| f_more := true; f_cmd := false; f_payload := [9] |};
                                          {| f_more := false; f_cmd := false; f_payload := fill 300 5 |} ]].
(* one frame of 70000 bytes: two records *)
Definition ex_big : list (list frame) := [[ {| f_more := false; f_cmd := false; f_payload := fill 70000 9 |} ]].
Definition ex_key : N := 23130.
(* compact view of a receiver output (payload digests instead of payloads) *)
Definition rsum (o : rout) : option (bool * bool * (N * N * bytes * bytes)) :=
  match o with RFrame f => Some (f_more f, f_cmd f, digest (f_payload f)) | _ => None end.
Definition ex_w0 : bytes := concat (chunk_wires N toy_seal ex_key 1 (all_chunks [ex_b0])).

Lemma ex_replay_unforged : unforged N toy_seal ex_key (sealed 1 (all_chunks [ex_b0; ex_b1])) (ex_w0 ++ ex_w0).
Proof.
  assert (forall c, framed (ex_w0 ++ ex_w0) c -> c = toy_seal ex_key 1 (enc_contiguous ex_b0)) as Hfr.
  { intros c H.
    inversion H as [s A B | s c1 A B C]; subst; [vm_compute; reflexivity|].
    vm_compute in C.
    inversion C as [s A1 B1 | s c2 A1 B1 C1]; subst; [vm_compute; reflexivity|].
    vm_compute in C1. inversion C1 as [s A2 B2 | s c3 A2 B2 C2]; vm_compute in A2; lia. }
  intros c Hc n p Hn Heq. rewrite (Hfr c Hc) in Heq.
  destruct (toy_seal_inj ex_key 1 (enc_contiguous ex_b0) n p) as [<- <-]; [unfold U64; lia | exact Hn | exact Heq |].
  vm_compute. left. reflexivity.
Qed.

(* ---------- the statements as exported to Props/C18.v: the AEAD laws bundled as one premise ---------- *)
(* ---------- reflection: an endpoint's own record played back into its incoming stream ---------- *)
Section Reflect.
Variable key : Type.
Variable seal : key -> N -> bytes -> bytes.
Variable open : key -> N -> bytes -> option bytes.
Hypothesis open_auth : forall k n c p, open k n c = Some p -> c = seal k n p.
(* key separation of the idealised AEAD: what was sealed under one key is not a valid box under another *)
Hypothesis seal_key_sep : forall k n p k' n' p', seal k n p = seal k' n' p' -> k = k'.

(* whatever the counters are (in particular when the receive counter equals the counter the record was sealed with,
   as after a symmetric exchange): a cipher whose two directions use different keys rejects its own records *)
Theorem reflection_rejected (c : cipher key) n pt :
  c_ek c <> c_dk c -> forall p c', decrypt key open c (seal (c_ek c) n pt) <> DcOk p c'.
Proof.
  intros Hk p c' H. unfold decrypt in H.
  destruct (len (seal (c_ek c) n pt) <? TAG); [discriminate|].
  destruct (c_kind c).
  - destruct (open (c_dk c) (c_rn c) (seal (c_ek c) n pt)) as [q|] eqn:Eo; [|discriminate].
    apply open_auth in Eo. apply seal_key_sep in Eo. congruence.
  - destruct (ctr_ok (c_rn c)); [|discriminate].
    destruct (open (c_dk c) (c_rn c) (seal (c_ek c) n pt)) as [q|] eqn:Eo; [|discriminate].
    apply open_auth in Eo. apply seal_key_sep in Eo. congruence.
Qed.
(* ... and one key for both directions (with the shared nonce prefix and aligned counters) accepts them *)
Hypothesis open_seal : forall k n p, open k n (seal k n p) = Some p.
Hypothesis seal_len : forall k n p, len (seal k n p) = len p + TAG.
Theorem reflection_accepted_with_one_key_refuted (c : cipher key) pt :
  c_kind c = KCurve -> c_ek c = c_dk c -> ctr_ok (c_rn c) = true ->
  decrypt key open c (seal (c_ek c) (c_rn c) pt) = DcOk pt (set_rn c (c_rn c + 1)).
Proof.
  intros Hkd Hk Hc. unfold decrypt. rewrite seal_len.
  assert (len pt + TAG <? TAG = false) as -> by (unfold TAG; lia).
  rewrite Hkd, <- Hk, open_seal, Hc. reflexivity.
Qed.
End Reflect.

Definition ideal_aead {key : Type} (seal : key -> N -> bytes -> bytes) (open : key -> N -> bytes -> option bytes) : Prop :=
  (forall k n p, open k n (seal k n p) = Some p) /\
  (forall k n c p, open k n c = Some p -> c = seal k n p) /\
  (forall k n p, len (seal k n p) = len p + TAG).

Lemma toy_ideal : ideal_aead toy_seal toy_open.
Proof. split; [exact toy_open_seal | split; [exact toy_open_auth | exact toy_seal_len]]. Qed.

Section Bundled.
Variable key : Type.
Variable seal : key -> N -> bytes -> bytes.
Variable open : key -> N -> bytes -> option bytes.
Hypothesis ideal : ideal_aead seal open.
Let h1 := proj1 ideal.
Let h2 := proj1 (proj2 ideal).
Let h3 := proj2 (proj2 ideal).

Lemma x_stepper_ok m : stepper_ok (sstep key open m) (smu key) 0.
Proof. eapply sec_ok; eauto. Qed.
Definition x_chunk_independent := recv_chunk_independent key seal open h1 h2 h3.
Definition x_write_ok := write_ok key seal open h1 h2 h3.
Definition x_send_all_ok := send_all_ok key seal open h1 h2 h3.
Definition x_enc_roundtrip_any_size := enc_roundtrip_any_size key seal open h1 h2 h3.
Definition x_tamper_prefix_safety := tamper_prefix_safety key seal open h1 h2 h3.
Definition x_tamper_detected := tamper_detected key seal open h1 h2 h3.
Definition x_tamper_messages := tamper_messages key seal open h1 h2 h3.
Definition x_no_cleartext := no_cleartext key seal open h1 h2.
Definition x_no_cleartext_noninterference := no_cleartext_noninterference key seal h3.
Definition x_heartbeat_swallowed := heartbeat_swallowed key seal open h1 h2 h3.
Definition x_pong_swallowed := pong_swallowed key seal open h1 h2 h3.
Definition x_heartbeat_decodable_refuted := heartbeat_decodable_refuted key seal open h1 h2 h3.
Definition x_ping_then_timeout := ping_then_timeout key seal open h1 h2 h3.
Definition x_sessions_differ_refuted := sessions_differ_refuted key seal.
Definition x_sessions_differ_noise := sessions_differ_noise key seal open h1 h2 h3.
End Bundled.
