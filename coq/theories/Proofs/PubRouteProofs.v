(* Proofs about Model/PubRoute.v: every peer with room is served whatever the other peers do, but a
   peer is served only after the waits spent on the full peers that precede it. *)
From RZ Require Import Base.Prelude Model.PubRoute.
Local Open Scope N_scope.

Lemma send_to_all_length d t now ps : length (fst (send_to_all d t now ps)) = length ps.
Proof.
  revert now. induction ps as [|p r IH]; intros now; cbn [send_to_all]; [reflexivity|].
  destruct (peer_send d t p) as [o dt]. specialize (IH (now + dt)).
  destruct (send_to_all d t (now + dt) r) as [os fin]. cbn [fst length] in *. lia.
Qed.

(* outcomes are those of the individual sends: a peer with room always gets the message, a failure
   or a wait on one peer changes no other peer's outcome *)
Lemma send_to_all_outcomes d t now ps :
  map fst (fst (send_to_all d t now ps)) = map (fun p => fst (peer_send d t p)) ps.
Proof.
  revert now. induction ps as [|p r IH]; intros now; cbn [send_to_all map]; [reflexivity|].
  destruct (peer_send d t p) as [o dt] eqn:E. specialize (IH (now + dt)).
  destruct (send_to_all d t (now + dt) r) as [os fin]. cbn [fst map] in *. rewrite IH. reflexivity.
Qed.

Lemma room_is_served d t : fst (peer_send d t Room) = Sent.
Proof. reflexivity. Qed.

(* completion times: a peer is finished at `now` + the waits of everything up to and including it *)
Lemma send_to_all_times d t now ps :
  map snd (fst (send_to_all d t now ps))
  = snd (fold_left (fun '(acc, l) p => let a := acc + snd (peer_send d t p) in (a, l ++ [a])) ps (now, []))
  /\ snd (send_to_all d t now ps) = fold_left (fun acc p => acc + snd (peer_send d t p)) ps now.
Proof.
  assert (forall ps now pre,
    snd (fold_left (fun '(acc, l) p => let a := acc + snd (peer_send d t p) in (a, l ++ [a])) ps (now, pre))
    = pre ++ map snd (fst (send_to_all d t now ps))
    /\ snd (send_to_all d t now ps) = fold_left (fun acc p => acc + snd (peer_send d t p)) ps now) as H.
  { clear. induction ps as [|p r IH]; intros now pre; cbn [send_to_all fold_left].
    - cbn. split; [symmetry; apply app_nil_r | reflexivity].
    - destruct (peer_send d t p) as [o dt] eqn:E. cbn [snd].
      destruct (IH (now + dt) (pre ++ [now + dt])) as [H1 H2].
      destruct (send_to_all d t (now + dt) r) as [os fin]. cbn [fst snd map] in *.
      rewrite H1, <- app_assoc. split; [reflexivity | exact H2]. }
  destruct (H ps now []) as [H1 H2]. split; [rewrite H1; reflexivity | exact H2].
Qed.

(* with SNDTIMEO = 0 the publisher never waits: total time is 0 beyond `now` *)
Lemma zero_timeout_never_blocks d now ps : snd (send_to_all d TZero now ps) = now.
Proof.
  revert now. induction ps as [|p r IH]; intros now; cbn [send_to_all]; [reflexivity|].
  assert (snd (peer_send d TZero p) = 0) as E by (destruct p as [| | |[]]; reflexivity).
  destruct (peer_send d TZero p) as [o dt]. cbn [snd] in E. subst dt.
  specialize (IH (now + 0)). destruct (send_to_all d TZero (now + 0) r) as [os fin].
  cbn [snd] in *. lia.
Qed.

(* no peer with room in front of a roomy peer => it is served immediately *)
Lemma all_room_no_delay d t now ps :
  Forall (fun p => p = Room) ps -> send_to_all d t now ps = (map (fun _ => (Sent, now)) ps, now).
Proof.
  revert now. induction ps as [|p r IH]; intros now H; cbn [send_to_all map]; [reflexivity|].
  inversion H as [|? ? Hp Hr]. subst. cbn [peer_send]. rewrite N.add_0_r, (IH now Hr). reflexivity.
Qed.

(* the refutation: with the default SNDTIMEO one stalled subscriber in front of a healthy one delays
   the healthy one (and the publisher) by the whole wait limit *)
Lemma pub_never_blocks_refuted :
  exists ps, send_to_all 30000 TNone 0 ps = ([(Dropped, 30000); (Sent, 30000)], 30000)
             /\ nth 1 ps Closed = Room.
Proof. exists [Full Never; Room]. split; reflexivity. Qed.

(* only closed / stale peers are dropped from the distributor; a slow one stays *)
Lemma slow_peer_is_kept d t w : keeps (fst (peer_send d t (Full w))) = true \/ exists a, w = Closes a.
Proof.
  destruct w as [a|a|]; [left|right; exists a; reflexivity|left]; destruct t; cbn [peer_send wait_limit];
    try reflexivity; try (destruct (a <? _); reflexivity).
Qed.

Lemma send_to_all_total d t now ps :
  snd (send_to_all d t now ps) = fold_left (fun acc p => acc + snd (peer_send d t p)) ps now.
Proof. apply send_to_all_times. Qed.
