(* Lemmas about Model/Envelope.v: flag normalisation, envelope round trips for every payload,
   the mixed-mode / raw cases stated as what they are, ROUTER send decisions. *)
From RZ Require Import Base.Prelude Model.RouterMap Model.Envelope Proofs.RouterMapProofs.
Local Open Scope N_scope.

(* ------------------------------------------------------------------ flags *)
Lemma norm_flags_cons f l : l <> [] -> norm_flags (f :: l) = with_more f :: norm_flags l.
Proof. destruct l; [congruence|reflexivity]. Qed.
Lemma clear_last_cons f l : l <> [] -> clear_last (f :: l) = f :: clear_last l.
Proof. destruct l; [congruence|reflexivity]. Qed.
Lemma norm_flags_nil_iff l : norm_flags l = [] <-> l = [].
Proof. destruct l as [|f [|g t]]; simpl; split; congruence. Qed.
Lemma norm_flags_neq l : l <> [] -> norm_flags l <> [].
Proof. intros H C. destruct (norm_flags_nil_iff l) as [A _]. exact (H (A C)). Qed.
Lemma clear_last_norm l : clear_last (norm_flags l) = norm_flags l.
Proof.
  induction l as [|f [|g t] IH]; try reflexivity.
  change (norm_flags (f :: g :: t)) with (with_more f :: norm_flags (g :: t)).
  rewrite clear_last_cons by (apply norm_flags_neq; discriminate). rewrite IH. reflexivity.
Qed.
Lemma norm_flags_idem l : norm_flags (norm_flags l) = norm_flags l.
Proof.
  induction l as [|f [|g t] IH]; try reflexivity.
  change (norm_flags (f :: g :: t)) with (with_more f :: norm_flags (g :: t)).
  rewrite norm_flags_cons by (apply norm_flags_neq; discriminate). rewrite IH. reflexivity.
Qed.
Lemma datas_norm l : datas (norm_flags l) = datas l.
Proof. induction l as [|f [|g t] IH]; try reflexivity. change (datas (f :: g :: t)) with (snd f :: datas (g :: t)). rewrite <- IH. reflexivity. Qed.
Lemma datas_clear l : datas (clear_last l) = datas l.
Proof. induction l as [|f [|g t] IH]; try reflexivity. change (datas (f :: g :: t)) with (snd f :: datas (g :: t)). rewrite <- IH. reflexivity. Qed.
Lemma more_ok_clear l : more_ok l -> clear_last l = l.
Proof. unfold more_ok. intros H. rewrite <- H at 1. rewrite clear_last_norm. exact H. Qed.
Lemma more_ok_norm l : more_ok (norm_flags l).
Proof. apply norm_flags_idem. Qed.
Lemma more_ok_tail f g t : more_ok (f :: g :: t) -> fmore f = true /\ more_ok (g :: t).
Proof.
  unfold more_ok. change (norm_flags (f :: g :: t)) with (with_more f :: norm_flags (g :: t)).
  intros [= H1 H2]. split; [rewrite <- H1; reflexivity|exact H2].
Qed.
Lemma more_ok_single f : more_ok [f] -> fmore f = false.
Proof. unfold more_ok. simpl. intros [= H]. rewrite <- H. reflexivity. Qed.
Lemma nonnil_true {A} (l : list A) : l <> [] -> nonnil l = true.
Proof. destruct l; [congruence|reflexivity]. Qed.

(* a flag-normalised non-empty frame list is exactly one message on a byte-stream transport *)
Lemma wire_split_aux_norm cur l :
  l <> [] -> wire_split_aux cur (norm_flags l) = [List.rev cur ++ norm_flags l].
Proof.
  revert cur. induction l as [|f [|g t] IH]; intros cur H; [congruence| |].
  - reflexivity.
  - change (norm_flags (f :: g :: t)) with (with_more f :: norm_flags (g :: t)).
    change (wire_split_aux cur (with_more f :: norm_flags (g :: t)))
      with (wire_split_aux (with_more f :: cur) (norm_flags (g :: t))).
    rewrite IH by discriminate. cbn [List.rev]. rewrite <- app_assoc. reflexivity.
Qed.
Lemma one_message_norm l : l <> [] -> one_message (norm_flags l).
Proof. intros H. unfold one_message, wire_split. rewrite wire_split_aux_norm by exact H. reflexivity. Qed.
Lemma one_message_more_ok l : l <> [] -> more_ok l -> one_message l.
Proof. intros H M. rewrite <- M. apply one_message_norm. exact H. Qed.

(* ------------------------------------------------------------------ wire forms *)
Lemma dealer_prepare_auto payload :
  payload <> [] -> dealer_prepare false payload = delim true :: norm_flags payload.
Proof. destruct payload as [|x t]; [congruence|]. intros _. reflexivity. Qed.
Lemma dealer_prepare_auto_nil : dealer_prepare false [] = [delim true; delim false].
Proof. reflexivity. Qed.
Lemma dealer_prepare_one_message manual payload : payload <> [] -> one_message (dealer_prepare manual payload).
Proof.
  intros H. destruct manual.
  - apply one_message_norm. exact H.
  - destruct payload as [|x t]; [congruence|]. unfold dealer_prepare. apply one_message_norm. discriminate.
Qed.

Lemma norm_flags_cons2 f g l : norm_flags (f :: g :: l) = with_more f :: norm_flags (g :: l).
Proof. reflexivity. Qed.
Lemma fempty_with_more f : fempty (with_more f) = fempty f.
Proof. reflexivity. Qed.
Lemma router_wire_auto s idm payload :
  s = SDefault \/ s = SDealer ->
  router_wire s false idm payload =
  with_more idm :: match payload with [] => [delim false] | _ => delim true :: norm_flags payload end.
Proof.
  intros [-> | ->]; destruct payload as [|x t]; reflexivity.
Qed.
Lemma router_wire_req manual idm payload :
  router_wire SReq manual idm payload =
  match payload with [] => [delim false] | _ => delim true :: norm_flags payload end.
Proof. destruct payload as [|x t]; reflexivity. Qed.
(* whatever flags the application left on the frames, one send_multipart call is one message *)
Lemma router_wire_one_message s manual idm payload :
  strat_prepare s manual idm payload <> [] -> one_message (router_wire s manual idm payload).
Proof. apply one_message_norm. Qed.
Lemma router_wire_auto_one_message s idm payload :
  s = SDefault \/ s = SDealer -> one_message (router_wire s false idm payload).
Proof. intros [-> | ->]; apply one_message_norm; destruct payload; discriminate. Qed.
Lemma router_wire_req_one_message manual idm payload : one_message (router_wire SReq manual idm payload).
Proof. apply one_message_norm. discriminate. Qed.
Lemma router_wire_flags s manual idm payload : more_ok (router_wire s manual idm payload).
Proof. apply more_ok_norm. Qed.

(* ------------------------------------------------------------------ round trips, AUTO_DELIMITER default *)
(* DEALER -> ROUTER *)
Lemma rt_dealer_router pt id payload :
  payload <> [] -> pt <> Some TRouter ->
  router_recv false pt id (dealer_prepare false payload) = (true, id) :: norm_flags payload.
Proof.
  intros H P. rewrite dealer_prepare_auto by exact H. unfold router_recv.
  assert (router_process_incoming false pt (delim true :: norm_flags payload) = norm_flags payload) as ->.
  { destruct pt as [[| | |]|]; try reflexivity. congruence. }
  unfold router_transform. rewrite nonnil_true by (apply norm_flags_neq; exact H).
  rewrite clear_last_cons by (apply norm_flags_neq; exact H). rewrite clear_last_norm. reflexivity.
Qed.
Lemma rt_dealer_router_nil pt id :
  pt <> Some TRouter -> router_recv false pt id (dealer_prepare false []) = [(true, id); (false, [])].
Proof. intros P. destruct pt as [[| | |]|]; try reflexivity. congruence. Qed.

(* ROUTER -> DEALER, send_multipart *)
Lemma rt_router_dealer s idm payload :
  s = SDefault \/ s = SDealer -> snd idm <> [] ->
  dealer_process_incoming false (router_wire s false idm payload) = norm_flags payload.
Proof.
  intros S I. rewrite router_wire_auto by exact S. unfold dealer_process_incoming.
  assert (fempty (with_more idm) = false) as ->. { unfold fempty, with_more. simpl. destruct (snd idm); congruence. }
  destruct payload as [|x t]; reflexivity.
Qed.

(* REQ -> ROUTER *)
Lemma rt_req_router pt id msg :
  pt <> Some TRouter -> router_recv false pt id (req_send msg) = [(true, id); no_more msg].
Proof. intros P. destruct pt as [[| | |]|]; try reflexivity. congruence. Qed.

(* ROUTER -> REQ, send_multipart with the REQ strategy *)
Lemma rt_router_req manual idm payload :
  req_recv_multipart (router_wire SReq manual idm payload) = norm_flags payload.
Proof. rewrite router_wire_req. destruct payload as [|x t]; reflexivity. Qed.
Lemma rt_router_req_recv manual idm x t :
  req_recv (router_wire SReq manual idm (x :: t)) = hd (false, []) (norm_flags (x :: t)).
Proof.
  rewrite router_wire_req. unfold req_recv.
  change (req_process_incoming (delim true :: norm_flags (x :: t))) with (norm_flags (x :: t)).
  destruct (norm_flags (x :: t)); reflexivity.
Qed.

(* REQ -> REP -> REQ *)
Lemma rt_req_rep msg : rep_extract (req_send msg) = ([delim true], [no_more msg]).
Proof. reflexivity. Qed.
Lemma rt_rep_req reply :
  reply <> [] -> req_recv_multipart (rep_send_multipart [delim true] reply) = norm_flags reply.
Proof.
  intros H. unfold rep_send_multipart. destruct reply as [|x t]; [congruence|].
  change ([delim true] ++ x :: t) with (delim true :: x :: t).
  rewrite norm_flags_cons by discriminate. reflexivity.
Qed.
Lemma rt_rep_req_single r : req_recv (rep_send [delim true] r) = no_more r.
Proof. reflexivity. Qed.
Lemma rt_rep_nil : rep_send_multipart [delim true] [] = [delim true; delim false].
Proof. reflexivity. Qed.

(* DEALER -> REP -> DEALER *)
Lemma rt_dealer_rep payload :
  payload <> [] -> rep_extract (dealer_prepare false payload) = ([delim true], norm_flags payload).
Proof. intros H. rewrite dealer_prepare_auto by exact H. reflexivity. Qed.
Lemma rt_rep_dealer reply :
  reply <> [] -> dealer_process_incoming false (rep_send_multipart [delim true] reply) = norm_flags reply.
Proof.
  intros H. unfold rep_send_multipart. destruct reply as [|x t]; [congruence|].
  change ([delim true] ++ x :: t) with (delim true :: x :: t).
  rewrite norm_flags_cons by discriminate. reflexivity.
Qed.

(* DEALER <-> DEALER *)
Lemma rt_dealer_dealer payload :
  payload <> [] -> dealer_process_incoming false (dealer_prepare false payload) = norm_flags payload.
Proof. intros H. rewrite dealer_prepare_auto by exact H. reflexivity. Qed.

(* ------------------------------------------------------------------ part-wise ROUTER send *)
Section Parts.
  Variables (mandatory manual : bool) (conn : uri -> conn_state) (hint : pipe).
  Notation parts := (router_send_parts mandatory manual conn hint).

  Lemma parts_cons st f t :
    parts st (f :: t) =
    let '(st1, o) := router_send_part mandatory manual conn hint st f in
    let '(st2, os) := parts st1 t in (st2, o :: os).
  Proof. reflexivity. Qed.
  Lemma part_continue m u f :
    conn u = COk ->
    router_send_part mandatory manual conn hint (m, Some u) f = ((m, if fmore f then Some u else None), PSent u [f]).
  Proof. intros C. unfold router_send_part. rewrite C. reflexivity. Qed.
  Lemma parts_continue m u payload :
    conn u = COk -> payload <> [] -> more_ok payload ->
    parts (m, Some u) payload = ((m, None), map (fun f => PSent u [f]) payload).
  Proof.
    intros C. induction payload as [|f [|g t] IH]; intros H M; [congruence| |].
    - rewrite parts_cons, part_continue by exact C. rewrite (more_ok_single f M). reflexivity.
    - destruct (more_ok_tail f g t M) as [F M'].
      rewrite parts_cons, part_continue by exact C. rewrite F.
      rewrite IH by (discriminate || exact M'). reflexivity.
  Qed.
  Lemma wire_to_map u payload : wire_to u (map (fun f => PSent u [f]) payload) = payload.
  Proof. induction payload as [|f t IH]; simpl; [reflexivity|]. rewrite N.eqb_refl, IH. reflexivity. Qed.

  (* identity known and connection fine: identity frame, (auto) delimiter, then the parts as given *)
  Lemma parts_known m id u s o payload :
    id <> [] -> fget id m = Some (u, s, o) -> conn u = COk -> payload <> [] -> more_ok payload ->
    parts (m, None) ((true, id) :: payload) =
    ((m, None), PSent u ((true, id) :: if manual then [] else [delim true]) :: map (fun f => PSent u [f]) payload).
  Proof.
    intros I F C H M. rewrite parts_cons. unfold router_send_part at 1.
    cbn [fmore fst snd negb]. destruct id as [|x r]; [congruence|]. rewrite F, C.
    rewrite parts_continue by assumption. reflexivity.
  Qed.
  Lemma parts_known_wire m id u s o payload :
    id <> [] -> fget id m = Some (u, s, o) -> conn u = COk -> payload <> [] -> more_ok payload ->
    wire_to u (snd (parts (m, None) ((true, id) :: payload))) =
    (true, id) :: (if manual then [] else [delim true]) ++ payload.
  Proof.
    intros I F C H M. rewrite (parts_known m id u s o) by assumption. cbn [snd wire_to]. rewrite N.eqb_refl, wire_to_map.
    reflexivity.
  Qed.
  (* unknown identity *)
  Lemma parts_unknown_first m id :
    id <> [] -> fget id m = None ->
    router_send_part mandatory manual conn hint (m, None) (true, id) =
    ((m, None), if mandatory then PUnreachable else PDropped).
  Proof. intros I F. unfold router_send_part. cbn [fmore fst snd negb]. destruct id; [congruence|]. rewrite F. reflexivity. Qed.
End Parts.

(* ROUTER -> DEALER, part by part *)
Lemma rt_router_parts_dealer mandatory conn hint m id u s o payload :
  id <> [] -> fget id m = Some (u, s, o) -> conn u = COk -> payload <> [] -> more_ok payload ->
  dealer_process_incoming false
    (wire_to u (snd (router_send_parts mandatory false conn hint (m, None) ((true, id) :: payload)))) = payload.
Proof.
  intros I F C H M. rewrite (parts_known_wire mandatory false conn hint m id u s o) by assumption.
  destruct id as [|x r]; [congruence|]. destruct payload; [congruence|]. reflexivity.
Qed.

(* ------------------------------------------------------------------ mixed AUTO_DELIMITER modes, as they are *)
(* DEALER manual -> ROUTER auto: the ROUTER strips one leading empty frame, whoever put it there *)
Lemma mixed_dealer_manual_router_auto pt id payload :
  pt <> Some TRouter ->
  router_recv false pt id (dealer_prepare true payload) =
  router_transform id (match norm_flags payload with
                       | f0 :: rest => if fempty f0 then rest else f0 :: rest
                       | [] => []
                       end).
Proof.
  intros P. unfold router_recv, router_process_incoming, dealer_prepare.
  destruct pt as [[| | |]|]; try congruence;
    (destruct (norm_flags payload) as [|f0 rest]; [reflexivity|destruct (fempty f0); reflexivity]).
Qed.
Lemma mixed_dealer_manual_router_auto_kept pt id f t :
  pt <> Some TRouter -> fempty f = false ->
  datas (router_recv false pt id (dealer_prepare true (f :: t))) = id :: datas (f :: t).
Proof.
  intros P E. rewrite mixed_dealer_manual_router_auto by exact P.
  assert (match norm_flags (f :: t) with f0 :: rest => if fempty f0 then rest else f0 :: rest | [] => [] end
          = norm_flags (f :: t)) as ->.
  { destruct t; simpl; unfold fempty in *; simpl; destruct (snd f); congruence. }
  unfold router_transform. rewrite datas_clear. simpl. f_equal. apply (datas_norm (f :: t)).
Qed.
Lemma mixed_dealer_manual_router_auto_lost pt id f t :
  pt <> Some TRouter -> fempty f = true ->
  datas (router_recv false pt id (dealer_prepare true (f :: t))) = id :: datas t.
Proof.
  intros P E. rewrite mixed_dealer_manual_router_auto by exact P.
  assert (match norm_flags (f :: t) with f0 :: rest => if fempty f0 then rest else f0 :: rest | [] => [] end
          = norm_flags t) as ->.
  { destruct t; simpl; unfold fempty in *; simpl; destruct (snd f); congruence. }
  unfold router_transform. rewrite datas_clear. simpl. f_equal. apply datas_norm.
Qed.

(* ROUTER manual with the DEALER strategy -> DEALER auto: the identity is NOT put on the wire, and the
   DEALER discards a non-empty first frame "assumed identity" (plus an empty frame after it). *)
Lemma mixed_router_manual_dealer_auto idm payload :
  dealer_process_incoming false (router_wire SDealer true idm payload) =
  match norm_flags payload with
  | [] => []
  | f0 :: rest => if fempty f0 then rest
                  else match rest with [] => [] | f1 :: rest' => if fempty f1 then rest' else rest end
  end.
Proof.
  unfold router_wire. simpl strat_prepare. unfold dealer_process_incoming. destruct (norm_flags payload) as [|f0 rest]; [reflexivity|].
  destruct (fempty f0); [reflexivity|]. destruct rest as [|f1 rest']; [reflexivity|]. destruct (fempty f1); reflexivity.
Qed.
(* intended manual usage: the application supplies the delimiter itself *)
Lemma manual_router_app_delimiter idm body :
  dealer_process_incoming false (router_wire SDealer true idm (delim true :: body)) = norm_flags body.
Proof. rewrite mixed_router_manual_dealer_auto. destruct body; reflexivity. Qed.
(* ROUTER manual with the Default strategy (peer type unknown, e.g. inproc) -> DEALER auto *)
Lemma mixed_router_manual_default_dealer_auto idm payload :
  snd idm <> [] ->
  dealer_process_incoming false (router_wire SDefault true idm payload) =
  match norm_flags payload with
  | [] => []
  | f1 :: rest' => if fempty f1 then rest' else f1 :: rest'
  end.
Proof.
  intros I. unfold router_wire, strat_prepare, latch_encode. destruct payload as [|x t].
  - simpl. unfold fempty, no_more. simpl. destruct (snd idm); [congruence|reflexivity].
  - cbn [nonnil]. rewrite norm_flags_cons by discriminate. unfold dealer_process_incoming.
    assert (fempty (with_more (with_more idm)) = false) as ->. { unfold fempty, with_more. simpl. destruct (snd idm); congruence. }
    simpl negb. cbv iota. destruct (norm_flags (x :: t)) as [|f1 r]; [reflexivity|]. destruct (fempty f1); reflexivity.
Qed.

(* both ends manual: raw pass-through *)
Lemma raw_dealer_router pt id payload :
  router_recv true pt id (dealer_prepare true payload) = router_transform id (norm_flags payload).
Proof. reflexivity. Qed.
Lemma raw_dealer_router_datas pt id payload :
  datas (router_recv true pt id (dealer_prepare true payload)) = id :: datas payload.
Proof. rewrite raw_dealer_router. unfold router_transform. rewrite datas_clear. simpl. rewrite datas_norm. reflexivity. Qed.
Lemma raw_router_dealer_strategy idm payload :
  dealer_process_incoming true (router_wire SDealer true idm payload) = norm_flags payload.
Proof. unfold router_wire. simpl strat_prepare. destruct (norm_flags payload); reflexivity. Qed.
Lemma raw_router_default_strategy idm x t :
  dealer_process_incoming true (router_wire SDefault true idm (x :: t)) = with_more idm :: norm_flags (x :: t).
Proof. reflexivity. Qed.

(* Default strategy towards a REQ peer (what the part-wise send also produces): REQ sees the envelope *)
Lemma default_strategy_to_req idm payload :
  snd idm <> [] ->
  req_recv_multipart (router_wire SDefault false idm payload) = router_wire SDefault false idm payload.
Proof.
  intros I. rewrite router_wire_auto by (left; reflexivity). unfold req_recv_multipart, req_process_incoming.
  assert (fempty (with_more idm) = false) as ->. { unfold fempty, with_more. simpl. destruct (snd idm); congruence. }
  reflexivity.
Qed.
Lemma parts_to_req mandatory conn hint m id u s o payload :
  id <> [] -> fget id m = Some (u, s, o) -> conn u = COk -> payload <> [] -> more_ok payload ->
  req_recv_multipart
    (wire_to u (snd (router_send_parts mandatory false conn hint (m, None) ((true, id) :: payload)))) =
  (true, id) :: delim true :: payload.
Proof.
  intros I F C H M. rewrite (parts_known_wire mandatory false conn hint m id u s o) by assumption.
  destruct id as [|x r]; [congruence|]. reflexivity.
Qed.

(* ------------------------------------------------------------------ ROUTER_MANDATORY *)
Lemma mandatory_unknown mandatory manual conn hint m idm payload :
  snd idm <> [] -> fget (snd idm) m = None ->
  router_send_multipart mandatory manual conn hint m (idm :: payload) =
  (m, if mandatory then SUnreachable else SDropped).
Proof. intros I F. unfold router_send_multipart. destruct (snd idm) eqn:E; [congruence|]. rewrite F. reflexivity. Qed.

Lemma send_known mandatory manual conn hint m idm payload u s o :
  snd idm <> [] -> fget (snd idm) m = Some (u, s, o) -> conn u = COk ->
  router_send_multipart mandatory manual conn hint m (idm :: payload) =
  (m, SSent u (router_wire s manual idm payload)).
Proof. intros I F C. unfold router_send_multipart. destruct (snd idm) eqn:E; [congruence|]. rewrite F, C. reflexivity. Qed.

(* complete decision table of send_multipart *)
Lemma send_multipart_decision mandatory manual conn hint m frames :
  let '(m', o) := router_send_multipart mandatory manual conn hint m frames in
  match o with
  | SInvalid => m' = m /\ (frames = [] \/ exists idm payload, frames = idm :: payload /\ snd idm = [])
  | SUnreachable =>
      mandatory = true /\ exists idm payload, frames = idm :: payload /\ snd idm <> [] /\
        ((fget (snd idm) m = None /\ m' = m) \/
         (exists u s o, fget (snd idm) m = Some (u, s, o) /\
            ((conn u = CGone /\ m' = remove_peer_by_identity hint (snd idm) m) \/ (conn u = CClosed /\ m' = m))))
  | SDropped =>
      mandatory = false /\ exists idm payload, frames = idm :: payload /\ snd idm <> [] /\
        ((fget (snd idm) m = None /\ m' = m) \/
         (exists u s o, fget (snd idm) m = Some (u, s, o) /\
            ((conn u = CGone /\ m' = remove_peer_by_identity hint (snd idm) m) \/ (conn u = CClosed /\ m' = m))))
  | SSent u w =>
      m' = m /\ exists idm payload s o, frames = idm :: payload /\ snd idm <> [] /\
        fget (snd idm) m = Some (u, s, o) /\ conn u = COk /\ w = router_wire s manual idm payload
  end.
Proof.
  unfold router_send_multipart. destruct frames as [|idm payload]; [simpl; auto|].
  destruct (snd idm) as [|x r] eqn:E; [simpl; split; [reflexivity|right; eauto]|].
  rewrite <- E. assert (snd idm <> []) as NI by (rewrite E; discriminate).
  destruct (fget (snd idm) m) as [[[u s] o]|] eqn:F.
  - destruct (conn u) eqn:C.
    + destruct mandatory; (split; [reflexivity|]); exists idm, payload; repeat split; auto; right; exists u, s, o; auto.
    + destruct mandatory; (split; [reflexivity|]); exists idm, payload; repeat split; auto; right; exists u, s, o; auto.
    + split; [reflexivity|]. exists idm, payload, s, o. auto.
  - destruct mandatory; (split; [reflexivity|]); exists idm, payload; repeat split; auto.
Qed.

(* maps + send: under distinct identities a message addressed to identity i is handed to the
   connection of the live pipe that carries i, in that pipe's strategy's wire form *)
Lemma send_reaches_true_peer uri_of placeholder h p i st mandatory manual conn hint b payload :
  distinct_hist placeholder h = true ->
  sget p (spec_run placeholder h) = Some (i, st) -> i <> [] -> conn (uri_of p) = COk ->
  router_send_multipart mandatory manual conn hint (run uri_of placeholder h) ((b, i) :: payload) =
  (run uri_of placeholder h, SSent (uri_of p) (router_wire st manual (b, i) payload)).
Proof.
  intros D S I C. destruct (lookup_true_peer_holds uri_of placeholder h D) as (TP & _).
  destruct (TP _ _ _ S) as [_ F]. apply (send_known mandatory manual conn hint _ (b, i) payload _ st p); assumption.
Qed.
(* maps + send, EVERY history (colliding identities included): if identity i has a forward entry at
   all, its recorded owner o is a live pipe whose latest attach/announcement carried i, and a message
   addressed to i is handed to o's connection in o's strategy's wire form - never to anybody else *)
Lemma send_reaches_latest_claimant uri_of placeholder h i u st o mandatory manual conn hint b payload :
  fget i (run uri_of placeholder h) = Some (u, st, o) -> i <> [] -> conn (uri_of o) = COk ->
  sget o (spec_run placeholder h) = Some (i, st) /\
  router_send_multipart mandatory manual conn hint (run uri_of placeholder h) ((b, i) :: payload) =
  (run uri_of placeholder h, SSent (uri_of o) (router_wire st manual (b, i) payload)).
Proof.
  intros F I C. destruct (latest_claimant_reachable uri_of placeholder h i u st o F) as (U & _ & S).
  split; [exact S|]. subst u. apply (send_known mandatory manual conn hint _ (b, i) payload _ st o); assumption.
Qed.

(* ------------------------------------------------------------------ concrete witnesses *)
(* two peers announce the same identity, the older one disconnects: the forward entry belongs to the
   newer pipe and stays; the live peer is reached *)
Definition wit_collision : list ev :=
  [EAttach 1 None; EAnnounce 1 (Some [65]) (Some TDealer);
   EAttach 2 None; EAnnounce 2 (Some [65]) (Some TDealer); EDetach 1].
Example collision_older_detach_example :
  let h := wit_collision in
  let m := run (fun q => q + 100) placeholder_id h in
  sget 2 (spec_run placeholder_id h) = Some ([65], SDealer) /\ sget 1 (spec_run placeholder_id h) = None /\
  rget 2 m = Some [65] /\ rget 1 m = None /\
  fget [65] m = Some (102, SDealer, 2) /\
  forall mandatory manual conn hint b payload, conn 102 = COk ->
    router_send_multipart mandatory manual conn hint m ((b, [65]) :: payload) =
    (m, SSent 102 (router_wire SDealer manual (b, [65]) payload)).
Proof.
  intros h m. assert (fget [65] m = Some (102, SDealer, 2)) as F by (vm_compute; reflexivity).
  split; [vm_compute; reflexivity|]. split; [vm_compute; reflexivity|].
  split; [vm_compute; reflexivity|]. split; [vm_compute; reflexivity|]. split; [exact F|].
  intros mandatory manual conn hint b payload C.
  apply (send_known mandatory manual conn hint m (b, [65]) payload 102 SDealer 2); [discriminate|exact F|exact C].
Qed.
(* what remains: the NEWER pipe (the owner) disconnects while the older one is still attached.  The
   entry goes with its owner; the older live peer keeps its reverse entry but cannot be addressed
   (HostUnreachable / silent drop) until it announces itself again.  Nothing is misdelivered. *)
Definition wit_owner_leaves : list ev :=
  [EAttach 1 None; EAnnounce 1 (Some [65]) (Some TDealer);
   EAttach 2 None; EAnnounce 2 (Some [65]) (Some TDealer); EDetach 2].
Lemma older_claimant_unreachable_after_owner_leaves :
  exists h p i st, sget p (spec_run placeholder_id h) = Some (i, st) /\
                   rget p (run (fun q => q + 100) placeholder_id h) = Some i /\
                   fget i (run (fun q => q + 100) placeholder_id h) = None /\
                   forall mandatory manual conn hint b payload,
                     snd (router_send_multipart mandatory manual conn hint (run (fun q => q + 100) placeholder_id h) ((b, i) :: payload))
                     = if mandatory then SUnreachable else SDropped.
Proof.
  exists wit_owner_leaves, 1, [65], SDealer. split; [reflexivity|]. split; [reflexivity|]. split; [reflexivity|].
  intros. rewrite mandatory_unknown; [reflexivity|discriminate|reflexivity].
Qed.

Definition wit_map : rmap := add_peer [66] 1 1 rm_empty.
(* part-wise send to an unknown identity without ROUTER_MANDATORY: the next part is taken for a new
   identity frame; here the rest of the message is delivered to peer "B" although addressed to "Z" *)
Lemma parts_unknown_misroute_refuted :
  exists m conn unknown idB uB oB x,
    fget unknown m = None /\ fget idB m = Some (uB, SDefault, oB) /\ unknown <> idB /\
    snd (router_send_parts false false conn 0 (m, None) [(true, unknown); (true, idB); (false, x)]) =
      [PDropped; PSent uB [(true, idB); delim true]; PSent uB [(false, x)]] /\
    dealer_process_incoming false
      (wire_to uB (snd (router_send_parts false false conn 0 (m, None) [(true, unknown); (true, idB); (false, x)]))) =
      [(false, x)].
Proof.
  exists wit_map, (fun _ => COk), [90], [66], 1, 1, [120]. repeat split; try reflexivity. discriminate.
Qed.
(* ... and with a single payload part the drop is not silent: the payload part is rejected *)
Lemma parts_unknown_not_silent_refuted :
  exists m conn unknown x,
    fget unknown m = None /\
    snd (router_send_parts false false conn 0 (m, None) [(true, unknown); (false, x)]) = [PDropped; PInvalid].
Proof. exists wit_map, (fun _ => COk), [90], [120]. split; reflexivity. Qed.
(* a REQ peer addressed part by part (or through the Default strategy) sees identity and delimiter *)
Lemma parts_to_req_refuted :
  exists m conn id u o payload,
    fget id m = Some (u, SReq, o) /\
    req_recv_multipart (wire_to u (snd (router_send_parts false false conn 0 (m, None) ((true, id) :: payload)))) <> payload.
Proof.
  exists (update_peer_identity 1 [65] 1 (Some TReq) rm_empty), (fun _ => COk), [65], 1, 1, [(false, [120])].
  split; [reflexivity|]. vm_compute. discriminate.
Qed.
(* mixed mode: ROUTER manual + DEALER strategy -> DEALER auto loses a non-empty first frame *)
Lemma mixed_router_manual_dealer_auto_lost :
  exists idm payload,
    dealer_process_incoming false (router_wire SDealer true idm payload) <> norm_flags payload.
Proof. exists (true, [65]), [(true, [97]); (false, [98])]. vm_compute. discriminate. Qed.
