(* Proofs about the EgressBuffer model (Model/Egress.v). *)
From Coq Require Import Permutation.
From RZ Require Import Base.Prelude Model.Egress.
Local Open Scope N_scope.

Definition cat (l : list chunk) : bytes := concat (map c_data l).

Lemma cat_app a b : cat (a ++ b) = cat a ++ cat b.
Proof. unfold cat. rewrite map_app, concat_app. reflexivity. Qed.

Lemma count_of_app a b : count_of (a ++ b) = count_of a + count_of b.
Proof.
  induction a as [|x a IH].
  { change (count_of ([] ++ b)) with (count_of b). change (count_of []) with 0. lia. }
  change (count_of ((x :: a) ++ b)) with (c_count x + count_of (a ++ b)).
  change (count_of (x :: a)) with (c_count x + count_of a). rewrite IH. lia.
Qed.

Lemma data_of_app a b : data_of (a ++ b) = data_of a ++ data_of b.
Proof. unfold data_of. rewrite filter_app, map_app. reflexivity. Qed.
Lemma prio_of_app a b : prio_of (a ++ b) = prio_of a ++ prio_of b.
Proof. unfold prio_of. rewrite filter_app, map_app. reflexivity. Qed.

Lemma firstn_skipn_add {A} : forall (a n : nat) (l : list A),
  firstn a l ++ firstn n (skipn a l) = firstn (a + n) l.
Proof.
  induction a as [|a IH]; intros n l; [reflexivity|].
  destruct l as [|x l]; [cbn; now rewrite firstn_nil|]. cbn. f_equal. apply IH.
Qed.

(* head chunk is never fully written: write_offset < len(head), and 0 when the queue is empty *)
Definition head_ok (chunks : list chunk) (off : nat) : Prop :=
  match chunks with [] => off = 0%nat | h :: _ => (off < length (c_data h))%nat end.

Definition nonempty_chunks (chunks : list chunk) : Prop := Forall (fun c => c_data c <> []) chunks.

Lemma head_ok_zero chunks : nonempty_chunks chunks -> head_ok chunks 0.
Proof.
  destruct chunks as [|h t]; [reflexivity|]. intros H. inversion H; subst. cbn.
  destruct (c_data h); [congruence | cbn; lia].
Qed.

Lemma adv_loop_spec : forall chunks off msgs popped n ch' off' msgs' popped',
  nonempty_chunks chunks -> head_ok chunks off ->
  (n <= length (cat chunks) - off)%nat ->
  adv_loop chunks off msgs popped n = (ch', off', msgs', popped') ->
  exists pc, chunks = pc ++ ch' /\ (off + n = length (cat pc) + off')%nat /\ head_ok ch' off'
             /\ msgs' = msgs - count_of pc /\ popped' = popped + count_of pc.
Proof.
  induction chunks as [|h t IH]; intros off msgs popped n ch' off' msgs' popped' Hne Hh Hn H.
  - cbn in Hh. subst off. cbn in Hn. assert (n = 0%nat) by lia. subst n. cbn in H. inversion H; subst.
    exists []. cbn. repeat split; try lia.
  - cbn [adv_loop] in H. destruct n as [|k].
    + inversion H; subst. exists []. cbn [app cat map concat length count_of fold_right].
      repeat split; try lia. exact Hh.
    + cbn in Hh. inversion Hne as [|? ? Hh1 Hne']; subst.
      destruct (length (c_data h) - off <=? S k)%nat eqn:Hle.
      * apply Nat.leb_le in Hle.
        apply IH in H; [| exact Hne' | apply head_ok_zero; exact Hne' |].
        2:{ unfold cat in Hn. cbn [map concat] in Hn. rewrite app_length in Hn. fold (cat t) in Hn. lia. }
        destruct H as (pc & E1 & E2 & E3 & E4 & E5). exists (h :: pc). split; [cbn; now rewrite E1|].
        split. { change (cat (h :: pc)) with (c_data h ++ cat pc). rewrite app_length. lia. }
        split; [exact E3|].
        change (count_of (h :: pc)) with (c_count h + count_of pc). split; lia.
      * apply Nat.leb_gt in Hle. inversion H; subst. exists [].
        cbn [app cat map concat length count_of fold_right]. repeat split; try lia. cbn. lia.
Qed.

(* ---- the invariant carried through every op sequence ---- *)
Record EInv (done : list chunk) (e : egress) (out : bytes) (hd hp : list bytes) : Prop := {
  i_ne : nonempty_chunks (e_chunks e);
  i_head : head_ok (e_chunks e) (e_off e);
  i_out : out = cat done ++ firstn (e_off e) (cat (e_chunks e));
  i_data : data_of (done ++ e_chunks e) = hd;
  i_prio : Permutation (prio_of (done ++ e_chunks e)) hp;
  i_msgs : e_msgs e = count_of (e_chunks e);
  i_total : e_total e = N.of_nat (length (cat (e_chunks e)) - e_off e)
}.

Lemma head_ok_le chunks off : head_ok chunks off -> (off <= length (cat chunks))%nat.
Proof.
  destruct chunks as [|h t]; cbn; [lia|]. intros H. change (cat (h :: t)) with (c_data h ++ cat t).
  rewrite app_length. lia.
Qed.

Lemma einv_step done e out hd hp op :
  EInv done e out hd hp ->
  exists e' out' done', eg_step (e, out) op = Some (e', out')
     /\ EInv done' e' out' (hd ++ pushed_data [op]) (hp ++ pushed_prio [op]).
Proof.
  intros [Hne Hh Ho Hd Hp Hm Ht]. destruct op as [d c | d | n].
  - (* push *)
    destruct d as [|b d].
    + exists e, out, done. split; [reflexivity|]. cbn [pushed_data pushed_prio]. rewrite !app_nil_r.
      constructor; assumption.
    + set (x := {| c_data := b :: d; c_count := c; c_prio := false |}).
      exists (eg_push e (b :: d) c), out, done. split; [reflexivity|].
      pose proof (head_ok_le _ _ Hh) as Hle.
      constructor; cbn [eg_push e_chunks e_off e_msgs e_total pushed_data pushed_prio]; fold x.
      * apply Forall_app. split; [exact Hne|]. constructor; [cbn; congruence | constructor].
      * destruct (e_chunks e); cbn in *; [subst; lia | exact Hh].
      * rewrite cat_app, firstn_app_le by exact Hle. exact Ho.
      * rewrite app_assoc, data_of_app, Hd. reflexivity.
      * rewrite app_assoc, prio_of_app. cbn. rewrite !app_nil_r. exact Hp.
      * rewrite count_of_app, Hm. cbn. lia.
      * rewrite cat_app, app_length, Ht. unfold blen. change (cat [x]) with ((b :: d) ++ []).
        rewrite app_nil_r. lia.
  - (* push_priority *)
    destruct d as [|b d].
    + exists e, out, done. split; [reflexivity|]. cbn [pushed_data pushed_prio]. rewrite !app_nil_r.
      constructor; assumption.
    + set (x := {| c_data := b :: d; c_count := 0; c_prio := true |}).
      cbn [eg_step eg_push_priority]. fold x.
      destruct (0 <? e_off e)%nat eqn:Hoff.
      * apply Nat.ltb_lt in Hoff. destruct (e_chunks e) as [|h t] eqn:Hch.
        { cbn in Hh. lia. }
        cbn [insert1]. eexists _, out, done. split; [reflexivity|].
        constructor; cbn [e_chunks e_off e_msgs e_total pushed_data pushed_prio].
        -- inversion Hne; subst. constructor; [assumption|]. constructor; [cbn; congruence | assumption].
        -- exact Hh.
        -- rewrite Ho. f_equal. cbn in Hh.
           change (cat (h :: x :: t)) with (c_data h ++ cat (x :: t)).
           change (cat (h :: t)) with (c_data h ++ cat t).
           rewrite !firstn_app_le by lia. reflexivity.
        -- rewrite app_nil_r. rewrite <- Hd. rewrite !data_of_app. f_equal.
        -- rewrite !prio_of_app in *. etransitivity; [|apply Permutation_app_tail; exact Hp].
           rewrite <- app_assoc. apply Permutation_app_head.
           unfold prio_of. cbn [filter]. destruct (c_prio h); cbn [map app].
           ++ apply perm_skip. rewrite Permutation_app_comm. reflexivity.
           ++ rewrite Permutation_app_comm. reflexivity.
        -- rewrite Hm. cbn. lia.
        -- rewrite Ht. unfold blen. cbn in Hh.
           change (cat (h :: x :: t)) with (c_data h ++ (b :: d) ++ cat t).
           change (cat (h :: t)) with (c_data h ++ cat t). rewrite !app_length. lia.
      * apply Nat.ltb_ge in Hoff. assert (e_off e = 0%nat) as Hz by lia.
        eexists _, out, done. split; [reflexivity|].
        constructor; cbn [e_chunks e_off e_msgs e_total pushed_data pushed_prio].
        -- constructor; [cbn; congruence | exact Hne].
        -- rewrite Hz. cbn. lia.
        -- rewrite Ho, Hz. reflexivity.
        -- rewrite app_nil_r. rewrite <- Hd. rewrite !data_of_app. f_equal.
        -- rewrite !prio_of_app in *. etransitivity; [|apply Permutation_app_tail; exact Hp].
           rewrite <- app_assoc. apply Permutation_app_head.
           change (prio_of (x :: e_chunks e)) with ((b :: d) :: prio_of (e_chunks e)).
           rewrite Permutation_app_comm. reflexivity.
        -- rewrite Hm. change (count_of (x :: e_chunks e)) with (0 + count_of (e_chunks e)). lia.
        -- rewrite Ht, Hz. unfold blen. change (cat (x :: e_chunks e)) with ((b :: d) ++ cat (e_chunks e)).
           rewrite app_length. lia.
  - (* write n' bytes, then advance(n') *)
    cbn [eg_step]. set (n' := Nat.min n (length (eg_flat e))).
    unfold eg_advance.
    destruct (adv_loop (e_chunks e) (e_off e) (e_msgs e) 0 n') as [[[ch off'] msgs'] popped'] eqn:Ha.
    assert (Hn' : (n' <= length (cat (e_chunks e)) - e_off e)%nat).
    { subst n'. unfold eg_flat. fold (cat (e_chunks e)). rewrite skipn_length. lia. }
    apply adv_loop_spec in Ha; [|exact Hne|exact Hh|exact Hn'].
    destruct Ha as (pc & E1 & E2 & E3 & E4 & E5).
    eexists _, _, (done ++ pc). split; [reflexivity|].
    cbn [fst pushed_data pushed_prio]. rewrite !app_nil_r.
    constructor; cbn [e_chunks e_off e_msgs e_total].
    + rewrite E1 in Hne. apply Forall_app in Hne. tauto.
    + exact E3.
    + rewrite Ho. unfold eg_flat. fold (cat (e_chunks e)). rewrite <- app_assoc, firstn_skipn_add.
      rewrite E2, E1, !cat_app, <- app_assoc. f_equal.
      rewrite firstn_app_2. reflexivity.
    + rewrite <- app_assoc, <- E1. exact Hd.
    + rewrite <- app_assoc, <- E1. exact Hp.
    + rewrite E4, Hm, E1, count_of_app. lia.
    + rewrite Ht, E1, cat_app, app_length. pose proof (head_ok_le _ _ E3). lia.
Qed.

Lemma pushed_data_cons op ops : pushed_data (op :: ops) = pushed_data [op] ++ pushed_data ops.
Proof. destruct op as [[|b d] c|d|n]; reflexivity. Qed.
Lemma pushed_prio_cons op ops : pushed_prio (op :: ops) = pushed_prio [op] ++ pushed_prio ops.
Proof. destruct op as [d c|[|b d]|n]; reflexivity. Qed.

Lemma einv_run : forall ops done e out hd hp,
  EInv done e out hd hp ->
  exists e' out' done', eg_run (e, out) ops = Some (e', out')
     /\ EInv done' e' out' (hd ++ pushed_data ops) (hp ++ pushed_prio ops).
Proof.
  induction ops as [|op ops IH]; intros done e out hd hp HI.
  - exists e, out, done. split; [reflexivity|]. cbn. now rewrite !app_nil_r.
  - destruct (einv_step _ _ _ _ _ op HI) as (e1 & out1 & done1 & Hs & HI1).
    destruct (IH _ _ _ _ _ HI1) as (e2 & out2 & done2 & Hr & HI2).
    exists e2, out2, done2. split.
    + cbn [eg_run]. rewrite Hs. exact Hr.
    + rewrite pushed_data_cons, pushed_prio_cons, !app_assoc. exact HI2.
Qed.

Lemma einv_new : EInv [] eg_new [] [] [].
Proof. constructor; cbn; try reflexivity; constructor. Qed.

(* EGRESS STREAM. For every op sequence (pushes of data chunks, priority pushes, partial writes of
   arbitrary sizes) starting from an empty buffer:
   - no op panics (`insert(1, ..)` is never reached on an empty deque);
   - there is a layout = list of WHOLE chunks such that (bytes handed to the transport) ++ (bytes
     still queued) = concat layout, i.e. what the transport got is a prefix of it;
   - the data chunks of the layout are exactly the pushed data chunks, in push order (so every
     pushed chunk is contiguous in the stream and a priority chunk only ever sits between two
     chunks, never inside one, whatever the write offset was when it was inserted);
   - the priority chunks of the layout are the pushed priority chunks (as a multiset);
   - message_count = sum of the counts of the un-popped chunks. *)
Theorem egress_stream ops :
  exists e out layout,
    eg_run (eg_new, []) ops = Some (e, out)
    /\ out ++ eg_flat e = cat layout
    /\ data_of layout = pushed_data ops
    /\ Permutation (prio_of layout) (pushed_prio ops)
    /\ (exists done, layout = done ++ e_chunks e /\ out = cat done ++ firstn (e_off e) (cat (e_chunks e)))
    /\ e_msgs e = count_of (e_chunks e)
    /\ e_total e = N.of_nat (length (eg_flat e)).
Proof.
  destruct (einv_run ops _ _ _ _ _ einv_new) as (e & out & done & Hr & [Hne Hh Ho Hd Hp Hm Ht]).
  exists e, out, (done ++ e_chunks e). cbn [app] in *. repeat split; try assumption.
  - rewrite Ho, <- app_assoc. unfold eg_flat. fold (cat (e_chunks e)). rewrite firstn_skipn, cat_app. reflexivity.
  - exists done. split; [reflexivity | exact Ho].
  - rewrite Ht. unfold eg_flat. fold (cat (e_chunks e)). rewrite skipn_length. reflexivity.
Qed.

(* without priority pushes: once the buffer has drained, the transport got exactly the pushed
   chunks, concatenated in push order *)
Corollary egress_stream_data_only ops e out :
  pushed_prio ops = [] -> eg_run (eg_new, []) ops = Some (e, out) -> e_chunks e = [] ->
  out = concat (pushed_data ops).
Proof.
  intros Hnp Hr He. destruct (egress_stream ops) as (e' & out' & layout & Hr' & H1 & H2 & H3 & _).
  rewrite Hr in Hr'. inversion Hr'; subst e' out'. unfold eg_flat in H1. rewrite He in H1. cbn in H1.
  rewrite skipn_nil, app_nil_r in H1. rewrite Hnp in H3. apply Permutation_sym, Permutation_nil in H3.
  rewrite H1, <- H2. unfold cat, data_of, prio_of in *. clear - H3.
  induction layout as [|c l IH]; [reflexivity|]. cbn in *. destruct (c_prio c); cbn in *; [discriminate|].
  f_equal. apply IH. exact H3.
Qed.
