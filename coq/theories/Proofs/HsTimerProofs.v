From RZ Require Import Base.Prelude Base.Stepper Model.Codec Model.Engine Model.HsTimer.
Local Open Scope N_scope.

(* with one deadline, whatever the peer's pacing, the handshake is decided (completed, failed or timed out)
   no later than D after it started; a timeout happens exactly at D *)
Theorem deadline_bounds_handshake D cfg : forall evs g now, now <= D ->
  decided_at (hs_loop false D cfg g now evs) <= D /\
  (forall t, hs_loop false D cfg g now evs = HsTimeout t -> t = D).
Proof.
  induction evs as [|[gap d] evs IH]; intros g now Hn; cbn [hs_loop].
  - cbn. split; [lia|]. intros t H; inversion H; reflexivity.
  - destruct (D <=? now + gap) eqn:E.
    + cbn. split; [lia|]. intros t H; inversion H; reflexivity.
    + destruct (e_net cfg g d (now + gap)) as [g' o].
      destruct (out_err o); [cbn; split; [lia|discriminate]|].
      destruct (e_phase (g_st g')); try (cbn; split; [lia|discriminate]); apply IH; lia.
Qed.

(* the per-read timer of the pinned commit: a peer that trickles one byte just inside each read timeout
   keeps the handshake (and the connection slot) alive far beyond the handshake interval.
   Witness: HANDSHAKE_IVL = 300, twelve single greeting bytes 200 apart: decided only at 2700. *)
Definition drip_cfg : ecfg :=
  {| c_server := true; c_stype := s_PULL; c_rid := None; c_sec_enabled := false; c_allow_v2 := true;
     c_use_plain := false; c_use_curve := false; c_use_noise := false; c_plain_user := None; c_plain_pass := None;
     c_opaque_ok := false; c_hb_ivl := None; c_hb_timeout := None; c_cork := false; c_zc := false; c_maxsz := (-1)%Z |}.
Definition drip_events : list (N * bytes) :=
  map (fun b => (200, [b])) (255 :: repeat 0 8 ++ [127; 3; 0]).

Theorem per_read_timer_refuted :
  Forall (fun e => fst e < 300) drip_events /\
  hs_loop true 300 drip_cfg (e_new 0) 0 drip_events = HsTimeout 2700 /\
  hs_loop false 300 drip_cfg (e_new 0) 0 drip_events = HsTimeout 300.
Proof. split; [repeat constructor|]. vm_compute. split; reflexivity. Qed.
