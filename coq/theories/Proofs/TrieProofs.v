(* Proofs about Model/Trie.v: the trie refines the multiset of active subscriptions, `matches`
   is "some active topic is a prefix", and the three filter paths agree and keep order. *)
From RZ Require Import Base.Prelude Model.Trie.
Local Open Scope N_scope.

(* ------------------------------------------------------------------ association lists *)

Lemma lookup_ins_same b f ch :
  lookup b (ins b f ch) = Some (f (match lookup b ch with Some c => c | None => empty end)).
Proof.
  induction ch as [|[k c] r IH]; cbn [ins lookup].
  - rewrite N.eqb_refl. reflexivity.
  - destruct (k =? b) eqn:E; cbn [lookup]; rewrite E; [reflexivity | exact IH].
Qed.

Lemma lookup_ins_other b b' f ch : b <> b' -> lookup b' (ins b f ch) = lookup b' ch.
Proof.
  intros Hne. induction ch as [|[k c] r IH]; cbn [ins lookup].
  - destruct (b =? b') eqn:E; [apply N.eqb_eq in E; contradiction | reflexivity].
  - destruct (k =? b) eqn:E; cbn [lookup].
    + apply N.eqb_eq in E. subst k.
      destruct (b =? b') eqn:E2; [apply N.eqb_eq in E2; contradiction | reflexivity].
    + rewrite IH. reflexivity.
Qed.

Lemma lookup_put_same b c' ch :
  lookup b (put b c' ch) = match lookup b ch with Some _ => Some c' | None => None end.
Proof.
  induction ch as [|[k c] r IH]; cbn [put lookup]; [reflexivity|].
  destruct (k =? b) eqn:E; cbn [lookup]; rewrite E; [reflexivity | exact IH].
Qed.

Lemma lookup_put_other b b' c' ch : b <> b' -> lookup b' (put b c' ch) = lookup b' ch.
Proof.
  intros Hne. induction ch as [|[k c] r IH]; cbn [put lookup]; [reflexivity|].
  destruct (k =? b) eqn:E; cbn [lookup].
  - apply N.eqb_eq in E. subst k.
    destruct (b =? b') eqn:E2; [apply N.eqb_eq in E2; contradiction | reflexivity].
  - rewrite IH. reflexivity.
Qed.

Lemma put_same b c ch : lookup b ch = Some c -> put b c ch = ch.
Proof.
  induction ch as [|[k c0] r IH]; cbn [put lookup]; [reflexivity|].
  destruct (k =? b) eqn:E.
  - intros H. injection H as ->. reflexivity.
  - intros H. rewrite (IH H). reflexivity.
Qed.

Lemma count_of_empty s : count_of empty s = 0.
Proof. destruct s; reflexivity. Qed.

Lemma wrap_restore : wrap_add1 (wrap_sub1 0) = 0.
Proof. reflexivity. Qed.

(* ------------------------------------------------------------------ subscribe *)

Lemma count_of_subscribe_same t s :
  count_of (subscribe t s) s = wrap_add1 (count_of t s).
Proof.
  revert t. induction s as [|b rest IH]; intros [c ch]; cbn [subscribe count_of t_count t_children].
  - reflexivity.
  - rewrite lookup_ins_same, IH. destruct (lookup b ch); [reflexivity|].
    rewrite count_of_empty. reflexivity.
Qed.

Lemma count_of_subscribe_other t s s' :
  s <> s' -> count_of (subscribe t s) s' = count_of t s'.
Proof.
  revert t s'. induction s as [|b rest IH]; intros [c ch] [|b' r'] Hne;
    cbn [subscribe count_of t_count t_children]; try reflexivity.
  - contradiction.
  - destruct (N.eq_dec b b') as [->|Hb].
    + rewrite lookup_ins_same, IH by congruence.
      destruct (lookup b' ch); [reflexivity | apply count_of_empty].
    + rewrite lookup_ins_other by assumption. reflexivity.
Qed.

Lemma wrap_add1_small c : c + 1 < U64 -> wrap_add1 c = c + 1.
Proof.
  intros H. unfold wrap_add1. destruct (c =? U64 - 1) eqn:E; [|reflexivity].
  apply N.eqb_eq in E. unfold U64 in *. lia.
Qed.

Lemma bytes_eqb_eq a b : bytes_eqb a b = true <-> a = b.
Proof.
  revert b. induction a as [|x a IH]; intros [|y b]; cbn [bytes_eqb]; split; intros H;
    try reflexivity; try discriminate.
  - apply andb_true_iff in H. destruct H as [H1 H2]. apply N.eqb_eq in H1. apply IH in H2. congruence.
  - injection H as -> ->. rewrite N.eqb_refl. cbn. apply IH. reflexivity.
Qed.

Lemma bytes_eqb_refl a : bytes_eqb a a = true.
Proof. apply bytes_eqb_eq. reflexivity. Qed.

Lemma bytes_eqb_neq a b : bytes_eqb a b = false <-> a <> b.
Proof.
  split.
  - intros H E. apply bytes_eqb_eq in E. congruence.
  - intros H. destruct (bytes_eqb a b) eqn:E; [apply bytes_eqb_eq in E; contradiction | reflexivity].
Qed.

Lemma prefixb_prefix s m : prefixb s m = true <-> prefix s m.
Proof.
  revert m. induction s as [|x s IH]; intros m; cbn [prefixb].
  - split; [intros _; exists m; reflexivity | reflexivity].
  - destruct m as [|y m].
    + split; [discriminate | intros [d H]; discriminate].
    + rewrite andb_true_iff, N.eqb_eq, IH. split.
      * intros [-> [d ->]]. exists d. reflexivity.
      * intros [d H]. injection H as -> ->. split; [reflexivity | exists d; reflexivity].
Qed.

(* subscribe_abs: the multiset gains exactly one occurrence of s *)
Lemma subscribe_abs t s s' :
  count_of t s + 1 < U64 ->
  count_of (subscribe t s) s' = count_of t s' + (if bytes_eqb s s' then 1 else 0).
Proof.
  intros Hb. destruct (bytes_eqb s s') eqn:E.
  - apply bytes_eqb_eq in E. subst s'. rewrite count_of_subscribe_same. apply wrap_add1_small, Hb.
  - apply bytes_eqb_neq in E. rewrite count_of_subscribe_other by assumption. lia.
Qed.

(* ------------------------------------------------------------------ unsubscribe *)

Lemma unsubscribe_result t s : snd (unsubscribe t s) = (count_of t s =? 1).
Proof.
  revert t. induction s as [|b rest IH]; intros [c ch]; cbn [unsubscribe count_of t_count t_children].
  - destruct (0 <? c) eqn:E; cbn [snd]; [reflexivity|]. lia.
  - destruct (lookup b ch) as [c0|]; [|reflexivity].
    specialize (IH c0). destruct (unsubscribe c0 rest) as [c' r]. exact IH.
Qed.

Lemma count_of_unsubscribe_same t s :
  count_of (fst (unsubscribe t s)) s = count_of t s - 1.
Proof.
  revert t. induction s as [|b rest IH]; intros [c ch]; cbn [unsubscribe count_of t_count t_children].
  - destruct (0 <? c) eqn:E; cbn [fst count_of t_count].
    + unfold wrap_sub1. destruct (c =? 0) eqn:E0; [lia | reflexivity].
    + assert (c = 0) as -> by lia. reflexivity.
  - destruct (lookup b ch) as [c0|] eqn:L.
    + specialize (IH c0). destruct (unsubscribe c0 rest) as [c' r].
      cbn [fst count_of t_children] in *. rewrite lookup_put_same, L. exact IH.
    + cbn [fst count_of t_children]. rewrite L. reflexivity.
Qed.

Lemma count_of_unsubscribe_other t s s' :
  s <> s' -> count_of (fst (unsubscribe t s)) s' = count_of t s'.
Proof.
  revert t s'. induction s as [|b rest IH]; intros [c ch] [|b' r'] Hne;
    cbn [unsubscribe t_count t_children].
  - contradiction.
  - destruct (0 <? c); reflexivity.
  - destruct (lookup b ch) as [c0|]; [|reflexivity].
    destruct (unsubscribe c0 rest) as [c' r]. reflexivity.
  - destruct (lookup b ch) as [c0|] eqn:L; [|reflexivity].
    specialize (IH c0 r'). destruct (unsubscribe c0 rest) as [c' r].
    cbn [fst count_of t_children] in *.
    destruct (N.eq_dec b b') as [->|Hb].
    + rewrite lookup_put_same, L. apply IH. congruence.
    + rewrite lookup_put_other by assumption. reflexivity.
Qed.

(* unsubscribe_abs: one occurrence of s is removed if there is one, nothing changes otherwise;
   the result is true exactly when the last occurrence went away *)
Lemma unsubscribe_abs t s s' :
  count_of (fst (unsubscribe t s)) s' = count_of t s' - (if bytes_eqb s s' then 1 else 0)
  /\ snd (unsubscribe t s) = (count_of t s =? 1).
Proof.
  split; [|apply unsubscribe_result].
  destruct (bytes_eqb s s') eqn:E.
  - apply bytes_eqb_eq in E. subst s'. apply count_of_unsubscribe_same.
  - apply bytes_eqb_neq in E. rewrite count_of_unsubscribe_other by assumption. lia.
Qed.

(* unsubscribing a topic that is not active returns false and leaves the trie untouched *)
Lemma unsubscribe_absent t s : count_of t s = 0 -> unsubscribe t s = (t, false).
Proof.
  revert t. induction s as [|b rest IH]; intros [c ch]; cbn [unsubscribe count_of t_count t_children].
  - intros ->. reflexivity.
  - destruct (lookup b ch) as [c0|] eqn:L; [|reflexivity].
    intros H. rewrite (IH c0 H). rewrite (put_same _ _ _ L). reflexivity.
Qed.

(* ------------------------------------------------------------------ matches *)

Lemma walk_spec t m :
  walk t m = true <-> exists s, 0 < count_of t s /\ prefix s m.
Proof.
  revert t. induction m as [|b rest IH]; intros [c ch]; cbn [walk t_count t_children].
  - split.
    + intros H. exists []. split; [cbn; lia | apply prefix_refl].
    + intros [s [Hc [d Hd]]]. destruct s; [cbn in Hc; lia | discriminate].
  - destruct (0 <? c) eqn:E.
    + split; [intros _|reflexivity]. exists []. split; [cbn; lia | exists (b :: rest); reflexivity].
    + split.
      * destruct (lookup b ch) as [c0|] eqn:L; [|discriminate].
        intros H. apply IH in H. destruct H as [s [Hc [d Hd]]].
        exists (b :: s). split; [cbn [count_of t_children]; rewrite L; exact Hc|].
        exists d. rewrite Hd. reflexivity.
      * intros [s [Hc [d Hd]]]. destruct s as [|b' s]; [cbn in Hc; lia|].
        injection Hd as <- ->. cbn [count_of t_children] in Hc.
        destruct (lookup b ch) as [c0|]; [|lia].
        apply IH. exists s. split; [exact Hc | exists d; reflexivity].
Qed.

Lemma matches_walk t m : matches t m = walk t m.
Proof.
  unfold matches. destruct (0 <? t_count t) eqn:E; [|reflexivity].
  destruct m; cbn [walk]; rewrite E; reflexivity.
Qed.

Lemma matches_spec t m :
  matches t m = true <-> exists s, 0 < count_of t s /\ prefix s m.
Proof. rewrite matches_walk. apply walk_spec. Qed.

Lemma empty_topic_matches_all t m : 0 < count_of t [] -> matches t m = true.
Proof. intros H. apply matches_spec. exists []. split; [exact H | exists m; reflexivity]. Qed.

Lemma matches_empty m : matches empty m = false.
Proof.
  destruct (matches empty m) eqn:E; [|reflexivity].
  apply matches_spec in E. destruct E as [s [H _]]. rewrite count_of_empty in H. lia.
Qed.

(* ------------------------------------------------------------------ histories: per-topic balance *)

Lemma step_count_of t o s :
  count_of t s + 1 < U64 -> count_of (fst (step t o)) s = bal s (count_of t s) o.
Proof.
  intros Hb. destruct o as [s'|s'|m|]; cbn [step bal fst]; try reflexivity.
  - destruct (bytes_eqb s' s) eqn:E.
    + apply bytes_eqb_eq in E. subst s'. rewrite count_of_subscribe_same. apply wrap_add1_small, Hb.
    + apply bytes_eqb_neq in E. apply count_of_subscribe_other, E.
  - pose proof (unsubscribe_abs t s' s) as [H _].
    destruct (unsubscribe t s') as [t' r]. cbn [fst] in *. rewrite H.
    destruct (bytes_eqb s' s); lia.
Qed.

Lemma fst_run_cons t o ops : fst (run t (o :: ops)) = fst (run (fst (step t o)) ops).
Proof.
  cbn [run]. destruct (step t o) as [t1 r]. cbn [fst]. destruct (run t1 ops). reflexivity.
Qed.

Lemma bal_le s c o : bal s c o <= c + 1.
Proof. destruct o; cbn [bal]; try lia; destruct (bytes_eqb _ _); lia. Qed.

(* for every history and every topic: the multiplicity is the +1/-1 balance of that history *)
Lemma count_of_run ops : forall t s,
  count_of t s + N.of_nat (length ops) < U64 ->
  count_of (fst (run t ops)) s = fold_left (bal s) ops (count_of t s).
Proof.
  induction ops as [|o ops IH]; intros t s Hb; [reflexivity|].
  rewrite fst_run_cons. cbn [fold_left length] in *.
  assert (count_of (fst (step t o)) s = bal s (count_of t s) o) as E by (apply step_count_of; lia).
  rewrite IH; rewrite E; [reflexivity|].
  pose proof (bal_le s (count_of t s) o). lia.
Qed.

(* N subscribes of s then k <= N unsubscribes leave N-k; s stays matched while k < N *)
Lemma fold_bal_subs s n c : fold_left (bal s) (repeat (Sub s) n) c = c + N.of_nat n.
Proof.
  revert c. induction n as [|n IH]; intros c; cbn [repeat fold_left bal]; [lia|].
  rewrite bytes_eqb_refl, IH. lia.
Qed.
Lemma fold_bal_unsubs s n c : fold_left (bal s) (repeat (Unsub s) n) c = c - N.of_nat n.
Proof.
  revert c. induction n as [|n IH]; intros c; cbn [repeat fold_left bal]; [lia|].
  rewrite bytes_eqb_refl, IH. lia.
Qed.

Lemma n_subs_need_n_unsubs t s n k :
  count_of t s + N.of_nat n + N.of_nat k < U64 ->
  let t' := fst (run t (repeat (Sub s) n ++ repeat (Unsub s) k)) in
  count_of t' s = count_of t s + N.of_nat n - N.of_nat k
  /\ ((k < n)%nat -> forall m, prefix s m -> matches t' m = true).
Proof.
  intros Hb t'.
  assert (count_of t' s = count_of t s + N.of_nat n - N.of_nat k) as E.
  { unfold t'. rewrite count_of_run.
    - rewrite fold_left_app, fold_bal_subs, fold_bal_unsubs. reflexivity.
    - rewrite app_length, !repeat_length. lia. }
  split; [exact E|]. intros Hk m Hp. apply matches_spec. exists s. split; [lia | exact Hp].
Qed.

(* ------------------------------------------------------------------ the reference multiset *)

Lemma occ_remove_one s s' l :
  occ s (remove_one s' l) = occ s l - (if bytes_eqb s' s then 1 else 0).
Proof.
  induction l as [|x r IH]; cbn [remove_one occ]; [lia|].
  destruct (bytes_eqb s' x) eqn:E1.
  - apply bytes_eqb_eq in E1. subst x. destruct (bytes_eqb s' s) eqn:E2.
    + apply bytes_eqb_eq in E2. subst s'. rewrite bytes_eqb_refl. lia.
    + assert (bytes_eqb s s' = false) as ->.
      { apply bytes_eqb_neq. apply bytes_eqb_neq in E2. congruence. }
      lia.
  - cbn [occ]. rewrite IH. destruct (bytes_eqb s' s) eqn:E2; [|lia].
    apply bytes_eqb_eq in E2. subst s'. rewrite E1. lia.
Qed.

Lemma occ_le_length s l : occ s l <= N.of_nat (length l).
Proof. induction l as [|x r IH]; cbn [occ length]; [lia|]. destruct (bytes_eqb s x); lia. Qed.

Lemma occ_pos_in s l : 0 < occ s l <-> In s l.
Proof.
  induction l as [|x r IH]; cbn [occ In]; [lia|].
  destruct (bytes_eqb s x) eqn:E.
  - apply bytes_eqb_eq in E. subst x. split; [left; reflexivity | lia].
  - apply bytes_eqb_neq in E. rewrite <- IH. split; [intros H; right; lia|].
    intros [H|H]; [congruence | lia].
Qed.

Lemma length_remove_one s l : (length (remove_one s l) <= length l)%nat.
Proof. induction l as [|x r IH]; cbn [remove_one length]; [lia|]. destruct (bytes_eqb s x); cbn [length]; lia. Qed.

Lemma spec_matches_spec l m : spec_matches l m = true <-> exists s, In s l /\ prefix s m.
Proof.
  unfold spec_matches. rewrite existsb_exists.
  split; intros [s [H1 H2]]; exists s; (split; [exact H1|]); apply prefixb_prefix; exact H2.
Qed.

(* abstraction relation: the trie's multiplicity function is that of the list *)
Definition refines (t : trie) (l : list bytes) : Prop := forall s, count_of t s = occ s l.

Lemma refines_matches t l m : refines t l -> matches t m = spec_matches l m.
Proof.
  intros R. apply eq_true_iff_eq. rewrite matches_spec, spec_matches_spec.
  split; intros [s [H1 H2]]; exists s; (split; [|exact H2]).
  - apply occ_pos_in. rewrite <- R. exact H1.
  - rewrite R. apply occ_pos_in. exact H1.
Qed.

Lemma refines_empty : refines empty [].
Proof. intros s. apply count_of_empty. Qed.

(* ------------------------------------------------------------------ well-formedness (distinct keys) *)

Inductive wf : trie -> Prop :=
| wf_node c ch : NoDup (map fst ch) -> (forall p, In p ch -> wf (snd p)) -> wf (Node c ch).

Lemma wf_empty : wf empty.
Proof. constructor; [constructor | intros p []]. Qed.

Lemma lookup_some_in b c ch : lookup b ch = Some c -> In (b, c) ch.
Proof.
  induction ch as [|[k c0] r IH]; cbn [lookup]; [discriminate|].
  destruct (k =? b) eqn:E.
  - apply N.eqb_eq in E. intros H. injection H as ->. subst k. left. reflexivity.
  - intros H. right. apply IH, H.
Qed.

Lemma lookup_none_notin b ch : lookup b ch = None -> ~ In b (map fst ch).
Proof.
  induction ch as [|[k c0] r IH]; cbn [lookup map fst In]; [tauto|].
  destruct (k =? b) eqn:E; [discriminate|].
  intros H [H1|H1]; [apply N.eqb_neq in E; contradiction | exact (IH H H1)].
Qed.

Lemma in_lookup b c ch : NoDup (map fst ch) -> In (b, c) ch -> lookup b ch = Some c.
Proof.
  induction ch as [|[k c0] r IH]; cbn [lookup map fst In]; [tauto|].
  intros Hnd [H|H].
  - injection H as -> ->. rewrite N.eqb_refl. reflexivity.
  - inversion Hnd as [|? ? Hk Hr]. subst. destruct (k =? b) eqn:E.
    + apply N.eqb_eq in E. subst k. exfalso. apply Hk.
      change b with (fst (b, c)). apply in_map, H.
    + apply IH; assumption.
Qed.

Lemma in_keys_ins x b f ch : In x (map fst (ins b f ch)) -> In x (map fst ch) \/ x = b.
Proof.
  induction ch as [|[k c] r IH]; cbn [ins map fst In].
  - intros [H|[]]. right. congruence.
  - destruct (k =? b); cbn [map fst In]; [tauto|].
    intros [H|H]; [tauto|]. destruct (IH H); tauto.
Qed.

Lemma nodup_keys_ins b f ch : NoDup (map fst ch) -> NoDup (map fst (ins b f ch)).
Proof.
  induction ch as [|[k c] r IH]; cbn [ins map fst]; intros Hnd.
  - constructor; [intros [] | constructor].
  - destruct (k =? b) eqn:E; cbn [map fst]; [exact Hnd|].
    inversion Hnd as [|? ? Hk Hr]. subst. constructor; [|apply IH, Hr].
    intros H. apply in_keys_ins in H. destruct H as [H|H]; [exact (Hk H)|].
    apply N.eqb_neq in E. congruence.
Qed.

Lemma in_ins p b f ch :
  In p (ins b f ch) -> In p ch \/ exists c, p = (b, f c) /\ (In (b, c) ch \/ c = empty).
Proof.
  induction ch as [|[k c] r IH]; cbn [ins In].
  - intros [H|[]]. right. exists empty. split; [congruence | right; reflexivity].
  - destruct (k =? b) eqn:E; cbn [In].
    + apply N.eqb_eq in E. subst k. intros [H|H]; [|tauto].
      right. exists c. split; [congruence | left; left; reflexivity].
    + intros [H|H]; [tauto|]. destruct (IH H) as [H1|[c1 [H1 [H2|H2]]]]; [tauto| |].
      * right. exists c1. tauto.
      * right. exists c1. tauto.
Qed.

Lemma keys_put b c' ch : map fst (put b c' ch) = map fst ch.
Proof.
  induction ch as [|[k c] r IH]; cbn [put map fst]; [reflexivity|].
  destruct (k =? b); cbn [map fst]; [reflexivity | rewrite IH; reflexivity].
Qed.

Lemma in_put p b c' ch : In p (put b c' ch) -> In p ch \/ p = (b, c').
Proof.
  induction ch as [|[k c] r IH]; cbn [put In]; [tauto|].
  destruct (k =? b) eqn:E; cbn [In].
  - apply N.eqb_eq in E. subst k. intros [H|H]; [right; congruence | tauto].
  - intros [H|H]; [tauto|]. destruct (IH H); tauto.
Qed.

Lemma wf_subscribe s : forall t, wf t -> wf (subscribe t s).
Proof.
  induction s as [|b rest IH]; intros [c ch] Hwf; inversion Hwf as [? ? Hnd Hch]; subst;
    cbn [subscribe t_count t_children].
  - constructor; assumption.
  - constructor; [apply nodup_keys_ins, Hnd|].
    intros p Hp. apply in_ins in Hp. destruct Hp as [Hp|[c0 [-> [H| ->]]]].
    + apply Hch, Hp.
    + cbn [snd]. apply IH. apply (Hch _ H).
    + cbn [snd]. apply IH, wf_empty.
Qed.

Lemma wf_unsubscribe s : forall t, wf t -> wf (fst (unsubscribe t s)).
Proof.
  induction s as [|b rest IH]; intros [c ch] Hwf; inversion Hwf as [? ? Hnd Hch]; subst;
    cbn [unsubscribe t_count t_children].
  - destruct (0 <? c); cbn [fst]; constructor; assumption.
  - destruct (lookup b ch) as [c0|] eqn:L; [|exact Hwf].
    pose proof (IH c0 (Hch _ (lookup_some_in _ _ _ L))) as Hc.
    destruct (unsubscribe c0 rest) as [c' r]. cbn [fst] in *.
    constructor; [rewrite keys_put; exact Hnd|].
    intros p Hp. apply in_put in Hp. destruct Hp as [Hp| ->]; [apply Hch, Hp | exact Hc].
Qed.

(* ------------------------------------------------------------------ get_all_topics *)

Fixpoint trie_ind' (P : trie -> Prop)
  (H : forall c ch, Forall (fun p => P (snd p)) ch -> P (Node c ch)) (t : trie) : P t :=
  match t with
  | Node c ch =>
      H c ch ((fix go (l : list (N * trie)) : Forall (fun p => P (snd p)) l :=
                 match l with
                 | [] => Forall_nil _
                 | p :: r => Forall_cons p (trie_ind' P H (snd p)) (go r)
                 end) ch)
  end.

Lemma collect_prefix t : forall pre s, In s (collect t pre) -> exists s', s = pre ++ s'.
Proof.
  induction t as [c ch IH] using trie_ind'. intros pre s. cbn [collect]. intros H.
  apply in_app_or in H. destruct H as [H|H].
  - destruct (0 <? c); [|destruct H]. destruct H as [<-|[]]. exists []. symmetry. apply app_nil_r.
  - apply in_flat_map in H. destruct H as [p [Hp Hs]].
    rewrite Forall_forall in IH. destruct (IH p Hp _ _ Hs) as [s' ->].
    exists (fst p :: s'). rewrite <- app_assoc. reflexivity.
Qed.

Lemma collect_in t : forall pre s, wf t ->
  (In s (collect t pre) <-> exists s', s = pre ++ s' /\ 0 < count_of t s').
Proof.
  induction t as [c ch IH] using trie_ind'. intros pre s Hwf.
  inversion Hwf as [? ? Hnd Hch]. subst. rewrite Forall_forall in IH. cbn [collect]. split.
  - intros H. apply in_app_or in H. destruct H as [H|H].
    + destruct (0 <? c) eqn:E; [|destruct H]. destruct H as [<-|[]].
      exists []. split; [symmetry; apply app_nil_r | cbn; lia].
    + apply in_flat_map in H. destruct H as [p [Hp Hs]].
      apply (IH p Hp _ _ (Hch p Hp)) in Hs. destruct Hs as [s' [-> Hc]].
      exists (fst p :: s'). split; [rewrite <- app_assoc; reflexivity|].
      cbn [count_of t_children]. rewrite (in_lookup (fst p) (snd p) ch Hnd); [exact Hc|].
      destruct p; exact Hp.
  - intros [s' [-> Hc]]. apply in_or_app. destruct s' as [|b s'].
    + left. cbn [count_of t_count] in Hc. destruct (0 <? c) eqn:E; [|lia].
      left. symmetry. apply app_nil_r.
    + right. cbn [count_of t_children] in Hc.
      destruct (lookup b ch) as [c0|] eqn:L; [|lia].
      apply lookup_some_in in L. apply in_flat_map. exists (b, c0). split; [exact L|].
      cbn [fst snd]. apply (IH _ L _ _ (Hch _ L)). exists s'.
      split; [rewrite <- app_assoc; reflexivity | exact Hc].
Qed.

Lemma NoDup_app_intro {A} (a b : list A) :
  NoDup a -> NoDup b -> (forall x, In x a -> ~ In x b) -> NoDup (a ++ b).
Proof.
  induction a as [|x a IH]; intros Ha Hb Hd; [exact Hb|].
  inversion Ha as [|? ? Hx Ha']. subst. cbn. constructor.
  - intros H. apply in_app_or in H. destruct H as [H|H]; [exact (Hx H)|].
    exact (Hd x (or_introl eq_refl) H).
  - apply IH; [exact Ha' | exact Hb|]. intros y Hy. apply Hd. right. exact Hy.
Qed.

Lemma NoDup_flat_map_keys {B} (g : N * trie -> list B) ch :
  NoDup (map fst ch) ->
  (forall p, In p ch -> NoDup (g p)) ->
  (forall p q s, In p ch -> In q ch -> In s (g p) -> In s (g q) -> fst p = fst q) ->
  NoDup (flat_map g ch).
Proof.
  induction ch as [|p r IH]; intros Hnd Hg Hk; cbn [flat_map]; [constructor|].
  inversion Hnd as [|? ? Hp Hr]. subst. apply NoDup_app_intro.
  - apply Hg. left. reflexivity.
  - apply IH; [exact Hr | intros; apply Hg; right; assumption|].
    intros p0 q s H1 H2. apply Hk; right; assumption.
  - intros s Hs H. apply in_flat_map in H. destruct H as [q [Hq Hsq]].
    apply Hp. rewrite (Hk p q s (or_introl eq_refl) (or_intror Hq) Hs Hsq).
    apply in_map, Hq.
Qed.

Lemma collect_nodup t : forall pre, wf t -> NoDup (collect t pre).
Proof.
  induction t as [c ch IH] using trie_ind'. intros pre Hwf.
  inversion Hwf as [? ? Hnd Hch]. subst. rewrite Forall_forall in IH. cbn [collect].
  apply NoDup_app_intro.
  - destruct (0 <? c); constructor; [intros [] | constructor].
  - apply NoDup_flat_map_keys; [exact Hnd | intros p Hp; apply IH; [exact Hp | apply Hch, Hp]|].
    intros p q s _ _ H1 H2. apply collect_prefix in H1. apply collect_prefix in H2.
    destruct H1 as [s1 ->]. destruct H2 as [s2 H2].
    rewrite <- !app_assoc in H2. apply app_inv_head in H2. cbn in H2. congruence.
  - intros s Hs H. apply in_flat_map in H. destruct H as [p [_ Hp]].
    apply collect_prefix in Hp. destruct Hp as [s' ->].
    destruct (0 <? c); [|destruct Hs]. destruct Hs as [Hs|[]].
    apply (f_equal (@length N)) in Hs. rewrite !app_length in Hs. cbn in Hs. lia.
Qed.

(* get_all_topics lists every active topic exactly once (whatever its multiplicity) *)
Lemma get_all_topics_spec t : wf t ->
  NoDup (get_all_topics t) /\ forall s, In s (get_all_topics t) <-> 0 < count_of t s.
Proof.
  intros Hwf. split; [apply collect_nodup, Hwf|]. intros s. unfold get_all_topics.
  rewrite (collect_in t [] s Hwf). split.
  - intros [s' [-> H]]. exact H.
  - intros H. exists s. split; [reflexivity | exact H].
Qed.

(* ------------------------------------------------------------------ refinement of whole histories *)

(* results agree; the topic list is compared as a set (HashMap iteration order is unspecified)
   and must be duplicate-free on the trie side *)
Definition ret_equiv (a b : ret) : Prop :=
  match a, b with
  | RNone, RNone => True
  | RBool x, RBool y => x = y
  | RTopics l1, RTopics l2 => NoDup l1 /\ forall s, In s l1 <-> In s l2
  | _, _ => False
  end.

Lemma bytes_eqb_sym a b : bytes_eqb a b = bytes_eqb b a.
Proof.
  destruct (bytes_eqb b a) eqn:E.
  - apply bytes_eqb_eq in E. subst. apply bytes_eqb_refl.
  - apply bytes_eqb_neq. apply bytes_eqb_neq in E. congruence.
Qed.

Lemma step_refines t l o :
  refines t l -> wf t -> N.of_nat (length l) + 1 < U64 ->
  refines (fst (step t o)) (fst (spec_step l o)) /\ wf (fst (step t o))
  /\ ret_equiv (snd (step t o)) (snd (spec_step l o))
  /\ (length (fst (spec_step l o)) <= S (length l))%nat.
Proof.
  intros R Hwf Hb. destruct o as [s|s|m|]; cbn [step spec_step fst snd].
  - split; [|split; [apply wf_subscribe, Hwf | split; [exact I | cbn [length]; lia]]].
    intros s'. rewrite subscribe_abs.
    + cbn [occ]. rewrite R, (bytes_eqb_sym s' s). lia.
    + rewrite R. pose proof (occ_le_length s l). lia.
  - pose proof (unsubscribe_abs t s) as Ha. pose proof (wf_unsubscribe s t Hwf) as Hw.
    destruct (unsubscribe t s) as [t' r]. cbn [fst snd] in *.
    split; [|split; [exact Hw | split]].
    + intros s'. destruct (Ha s') as [-> _]. rewrite occ_remove_one, R. reflexivity.
    + destruct (Ha s) as [_ ->]. rewrite R. reflexivity.
    + pose proof (length_remove_one s l). lia.
  - split; [exact R | split; [exact Hwf | split; [apply refines_matches, R | lia]]].
  - split; [exact R | split; [exact Hwf | split; [|lia]]].
    destruct (get_all_topics_spec t Hwf) as [Hnd Hin]. split; [exact Hnd|].
    intros s. rewrite Hin, R. apply occ_pos_in.
Qed.

Lemma run_cons t o ops :
  run t (o :: ops) = (fst (run (fst (step t o)) ops), snd (step t o) :: snd (run (fst (step t o)) ops)).
Proof. cbn [run]. destruct (step t o) as [t1 r]. cbn [fst snd]. destruct (run t1 ops). reflexivity. Qed.

Lemma spec_run_cons l o ops :
  spec_run l (o :: ops) =
  (fst (spec_run (fst (spec_step l o)) ops), snd (spec_step l o) :: snd (spec_run (fst (spec_step l o)) ops)).
Proof. cbn [spec_run]. destruct (spec_step l o) as [l1 r]. cbn [fst snd]. destruct (spec_run l1 ops). reflexivity. Qed.

(* every op history on the trie is a history of the multiset reference: same results op by op,
   same multiset at the end *)
Lemma run_refines ops : forall t l,
  refines t l -> wf t -> N.of_nat (length l) + N.of_nat (length ops) < U64 ->
  refines (fst (run t ops)) (fst (spec_run l ops)) /\ wf (fst (run t ops))
  /\ Forall2 ret_equiv (snd (run t ops)) (snd (spec_run l ops)).
Proof.
  induction ops as [|o ops IH]; intros t l R Hwf Hb.
  - cbn. split; [exact R | split; [exact Hwf | constructor]].
  - rewrite run_cons, spec_run_cons. cbn [fst snd length] in *.
    destruct (step_refines t l o R Hwf) as [R1 [W1 [E1 L1]]]; [lia|].
    destruct (IH _ _ R1 W1) as [R2 [W2 E2]]; [lia|].
    split; [exact R2 | split; [exact W2 | constructor; assumption]].
Qed.

Lemma run_refines_from_empty ops :
  N.of_nat (length ops) < U64 ->
  refines (fst (run empty ops)) (fst (spec_run [] ops))
  /\ Forall2 ret_equiv (snd (run empty ops)) (snd (spec_run [] ops)).
Proof.
  intros Hb. destruct (run_refines ops empty [] refines_empty wf_empty) as [H1 [_ H2]]; [cbn; lia|].
  split; assumption.
Qed.

(* ------------------------------------------------------------------ the three filter paths *)

Lemma passes_first_frame_only t f r1 r2 : passes t (f :: r1) = passes t (f :: r2).
Proof. reflexivity. Qed.

Lemma passes_is_matches t m : passes t m = matches t (topic_of m).
Proof. reflexivity. Qed.

Lemma frames_app a b : frames (a ++ b) = (frames a + frames b)%nat.
Proof. induction a as [|x a IH]; cbn [frames fold_right app]; [reflexivity|]. fold (frames (a ++ b)). fold (frames a). lia. Qed.

Lemma batch_loop_spec t items : forall cap s r n,
  batch_loop t cap items = (s, r, n) ->
  exists consumed, items = consumed ++ r /\ s = filter (passes t) consumed /\ n = frames consumed
    /\ (length s <= cap)%nat
    /\ (r = [] \/ (length s = cap /\ exists it r', r = it :: r' /\ passes t it = true)).
Proof.
  induction items as [|it rest IH]; intros cap s r n H; cbn [batch_loop] in H.
  - injection H as <- <- <-. exists []. repeat split; try reflexivity; [cbn; lia | left; reflexivity].
  - destruct (passes t it) eqn:P.
    + destruct cap as [|c].
      * injection H as <- <- <-. exists []. repeat split; try reflexivity.
        right. split; [reflexivity|]. exists it, rest. split; [reflexivity | exact P].
      * destruct (batch_loop t c rest) as [[s0 r0] n0] eqn:E. injection H as <- <- <-.
        destruct (IH _ _ _ _ E) as [cs [H1 [H2 [H3 [H4 H5]]]]].
        exists (it :: cs). cbn [app filter frames fold_right length]. rewrite P.
        fold (frames cs). subst. repeat split; try reflexivity; [cbn [length]; lia|].
        destruct H5 as [H5|[H5 H6]]; [left; exact H5 | right; split; [cbn [length]; lia | exact H6]].
    + destruct (batch_loop t cap rest) as [[s0 r0] n0] eqn:E. injection H as <- <- <-.
      destruct (IH _ _ _ _ E) as [cs [H1 [H2 [H3 [H4 H5]]]]].
      exists (it :: cs). cbn [app filter frames fold_right]. rewrite P.
      fold (frames cs). subst. repeat split; try reflexivity; assumption.
Qed.

Lemma batch_loop_enough t items : forall cap,
  (length (filter (passes t) items) <= cap)%nat ->
  batch_loop t cap items = (filter (passes t) items, [], frames items).
Proof.
  induction items as [|it rest IH]; intros cap H; cbn [batch_loop filter frames fold_right]; [reflexivity|].
  fold (frames rest). cbn [filter] in H. destruct (passes t it) eqn:P.
  - destruct cap as [|c]; [cbn in H; lia|]. rewrite IH by (cbn in H; lia). reflexivity.
  - rewrite IH by exact H. reflexivity.
Qed.

Lemma try_send_batch_alive t cap items : try_send_batch t true cap items = batch_loop t cap items.
Proof.
  destruct items as [|it rest]; [reflexivity|]. unfold try_send_batch.
  destruct (length (filter (passes t) (it :: rest)) =? 0)%nat eqn:E; [|reflexivity].
  apply Nat.eqb_eq in E. rewrite batch_loop_enough by lia.
  destruct (filter (passes t) (it :: rest)); [reflexivity | discriminate].
Qed.

Lemma try_send_batch_dead t cap items : fst (fst (try_send_batch t false cap items)) = [].
Proof.
  destruct items as [|it rest]; [reflexivity|]. unfold try_send_batch.
  destruct (length (filter (passes t) (it :: rest)) =? 0)%nat; reflexivity.
Qed.

Lemma flat_map_single t items :
  flat_map (fun m => forwarded1 (send_single t true m)) items = filter (passes t) items.
Proof.
  induction items as [|m r IH]; cbn [flat_map filter]; [reflexivity|].
  unfold send_single at 1. destruct (passes t m); cbn [forwarded1 app]; rewrite IH; reflexivity.
Qed.

Lemma flat_map_sync t items :
  flat_map (fun m => forwarded1 (try_send_sync t true true m)) items = filter (passes t) items.
Proof.
  induction items as [|m r IH]; cbn [flat_map filter]; [reflexivity|].
  unfold try_send_sync at 1. destruct (passes t m); cbn [forwarded1 app]; rewrite IH; reflexivity.
Qed.

(* single send, sync send and batched send forward the same messages in the same order *)
Lemma filter_paths_agree t cap items :
  (length (filter (passes t) items) <= cap)%nat ->
  try_send_batch t true cap items = (filter (passes t) items, [], frames items)
  /\ flat_map (fun m => forwarded1 (send_single t true m)) items = filter (passes t) items
  /\ flat_map (fun m => forwarded1 (try_send_sync t true true m)) items = filter (passes t) items.
Proof.
  intros H. rewrite try_send_batch_alive, batch_loop_enough by exact H.
  split; [reflexivity | split; [apply flat_map_single | apply flat_map_sync]].
Qed.

(* under back-pressure the batched path forwards the filter of a prefix of the deque and leaves
   the rest untouched, in order: nothing is lost, duplicated or reordered *)
Lemma batch_backpressure t cap items s r n :
  try_send_batch t true cap items = (s, r, n) ->
  exists consumed, items = consumed ++ r /\ s = filter (passes t) consumed /\ n = frames consumed
    /\ (length s <= cap)%nat.
Proof.
  rewrite try_send_batch_alive. intros H.
  destruct (batch_loop_spec _ _ _ _ _ _ H) as [cs [H1 [H2 [H3 [H4 _]]]]].
  exists cs. repeat split; assumption.
Qed.

(* headline: after any subscribe/unsubscribe history, what the SUB side forwards from a run of
   incoming messages is exactly those whose first frame has an active subscription as a prefix *)
Lemma sub_forwards_iff_active_prefix ops items cap :
  N.of_nat (length ops) < U64 ->
  let t := fst (run empty ops) in
  let subs := fst (spec_run [] ops) in
  (length (filter (passes t) items) <= cap)%nat ->
  fst (fst (try_send_batch t true cap items))
    = filter (fun m => spec_matches subs (topic_of m)) items
  /\ forall m, In m (fst (fst (try_send_batch t true cap items))) <->
               In m items /\ exists s, In s subs /\ prefix s (topic_of m).
Proof.
  intros Hb t subs Hc. destruct (run_refines_from_empty ops Hb) as [R _].
  destruct (filter_paths_agree t cap items Hc) as [-> _]. cbn [fst].
  assert (filter (passes t) items = filter (fun m => spec_matches subs (topic_of m)) items) as E.
  { apply filter_ext. intros m. unfold passes. apply refines_matches, R. }
  split; [exact E|]. intros m. rewrite E, filter_In, spec_matches_spec. reflexivity.
Qed.

(* the one place where "subscribed N times => active until unsubscribed N times" fails in the
   faithful model: the 2^64-th subscription of one topic wraps the usize counter to 0 *)
Lemma subscribe_overflow_refuted :
  exists t s, 0 < count_of t s /\ count_of (subscribe t s) s = 0 /\ matches (subscribe t s) s = false.
Proof. exists (Node (U64 - 1) []), []. vm_compute. repeat split; reflexivity. Qed.
